package main

// Oracles c11 / c12: implementation-only checks of the clauses of C11 (timing)
// and C12 on the real clients under virtual time. No model involved: the
// expected schedule is the closed form of the property text, T·(2^k − 1).

import (
	"fmt"
	"strings"
)

type timedFacts struct {
	eff        []int64 // effective instant of every event (script clock)
	firstCan   int     // index or -1
	firstClo   int
	firstAcc   int // first acceptable arrival
	anyTerm    bool
	isAccept   func(kind string) bool
	onDeadline func(t int64) bool
}

func analyse(sc cScenario) timedFacts {
	f := timedFacts{firstCan: -1, firstClo: -1, firstAcc: -1}
	f.isAccept = func(k string) bool { return k == "acc" || (sc.matchNil && k == "rej") }
	f.onDeadline = func(t int64) bool {
		for k := 1; k < 62; k++ {
			s := schedAt(sc.T, k)
			if s == t {
				return true
			}
			if s > t || s < 0 {
				return false
			}
		}
		return false
	}
	var clk int64
	for i, e := range sc.evs {
		if e.t > clk {
			clk = e.t
		}
		f.eff = append(f.eff, clk)
		switch {
		case (e.kind == "can" || e.kind == "cdl") && f.firstCan < 0:
			f.firstCan = i
		case e.kind == "clo" && f.firstClo < 0:
			f.firstClo = i
		case f.isAccept(e.kind) && f.firstAcc < 0:
			f.firstAcc = i
		}
	}
	f.anyTerm = f.firstCan >= 0 || f.firstClo >= 0 || f.firstAcc >= 0 || sc.werr >= 0
	return f
}

// otherTerminatorAt: is there a terminating stimulus other than event `self`
// effective at instant t (another way the call may legitimately have ended at t)?
func otherTerminatorAt(sc cScenario, f timedFacts, self int, t int64) bool {
	for i, e := range sc.evs {
		if i == self || f.eff[i] != t {
			continue
		}
		if e.kind == "can" || e.kind == "cdl" || e.kind == "clo" || f.isAccept(e.kind) {
			return true
		}
	}
	if sc.werr >= 0 && t == schedAt(sc.T, sc.werr) {
		return true
	}
	return sc.n >= 0 && t == schedAt(sc.T, sc.n)
}

// cliQuietBefore: nothing that could end the call happens before instant t
func cliQuietBefore(sc cScenario, f timedFacts, t int64) bool {
	for i, e := range sc.evs {
		if f.eff[i] < t && (e.kind == "can" || e.kind == "cdl" || e.kind == "clo" || f.isAccept(e.kind)) {
			return false
		}
	}
	return true
}

func cliTryOf(T, t int64) int {
	for k := 0; k < 62; k++ {
		if schedAt(T, k) == t {
			return k
		}
		if schedAt(T, k) > t {
			break
		}
	}
	return -1
}

func checkC12(sc cScenario, r cResult) (string, string) {
	if r.status == "hang" {
		return "hang", "scenario did not finish (virtual time stuck)"
	}
	for k, w := range r.txs {
		if !w.bytesOK {
			return "tx-bytes", fmt.Sprintf("transmission %d differs from the request's encoding", k)
		}
		if !w.destOK {
			return "tx-dest", fmt.Sprintf("transmission %d went to another destination", k)
		}
		if w.t != schedAt(sc.T, k) {
			return "schedule", fmt.Sprintf("transmission %d at %d, schedule says %d", k, w.t, schedAt(sc.T, k))
		}
	}
	if sc.n >= 0 && len(r.txs) > sc.n {
		return "count", fmt.Sprintf("%d transmissions with %d tries", len(r.txs), sc.n)
	}
	f := analyse(sc)
	if !f.anyTerm {
		if sc.n >= 0 && sc.H >= schedAt(sc.T, sc.n) {
			if len(r.txs) != sc.n || !r.returned || r.retT != schedAt(sc.T, sc.n) || r.outcome != "noresp" {
				return "schedule-end", fmt.Sprintf("no acceptable response: want %d transmissions and noresp at %d, got %s", sc.n, schedAt(sc.T, sc.n), r.canon())
			}
		}
		if sc.n < 0 {
			want := 0
			for k := 0; k < 62 && schedAt(sc.T, k) <= sc.H; k++ {
				want++
			}
			if r.returned || len(r.txs) != want {
				return "negative-retry", fmt.Sprintf("negative try count: want still running with %d transmissions at %d, got %s", want, sc.H, r.canon())
			}
		}
	}
	// a write error on the open client ends the call at once, nothing follows
	if sc.werr >= 0 && (sc.n < 0 || sc.werr < sc.n) && cliQuietBefore(sc, f, schedAt(sc.T, sc.werr)+1) && sc.H >= schedAt(sc.T, sc.werr) {
		t := schedAt(sc.T, sc.werr)
		if !r.returned || r.retT != t || r.outcome != "werr" || len(r.txs) != sc.werr {
			return "write-error", fmt.Sprintf("WriteTo #%d fails at %d: want %d transmissions and the write error at %d, got %s", sc.werr, t, sc.werr, t, r.canon())
		}
	}
	// "A response accepted during try k ends the call and no further transmission follows":
	// the peer answers from inside the WriteTo of try k
	for i, e := range sc.evs {
		if !e.hook || !f.isAccept(e.kind) {
			continue
		}
		k := cliTryOf(sc.T, e.t)
		if k < 0 || !(sc.n < 0 || k < sc.n) || !cliQuietBefore(sc, f, e.t) || (sc.werr >= 0 && sc.werr <= k) || sc.H < e.t {
			break
		}
		if !r.returned || r.retT != e.t || r.outcome != fmt.Sprintf("resp%d", i) || len(r.txs) != k+1 {
			return "stop", fmt.Sprintf("acceptable response handed over inside the WriteTo of try %d (instant %d): want it returned at %d after %d transmissions, got %s", k, e.t, e.t, k+1, r.canon())
		}
		break
	}
	if r.returned && strings.HasPrefix(r.outcome, "resp") {
		k := len(r.txs) - 1
		if k < 0 || schedAt(sc.T, k) > r.retT || r.retT > schedAt(sc.T, k+1) {
			return "stop", fmt.Sprintf("response returned at %d with %d transmissions", r.retT, len(r.txs))
		}
	}
	if r.lateTx != 0 {
		return "tx-after-return", fmt.Sprintf("%d transmissions after the call returned", r.lateTx)
	}
	return "", ""
}

func checkC11(sc cScenario, r cResult) (string, string) {
	if r.status == "hang" {
		return "hang", "scenario did not finish (virtual time stuck)"
	}
	f := analyse(sc)
	if sc.n >= 0 {
		end := schedAt(sc.T, sc.n)
		if r.returned && r.retT > end {
			return "budget", fmt.Sprintf("returned at %d, budget %d", r.retT, end)
		}
		if !r.returned && sc.H >= end {
			return "budget", fmt.Sprintf("still waiting at %d, budget %d", sc.H, end)
		}
	}
	if r.outcome == "nilnil" {
		return "nil-nil", "SendAndRead returned (nil, nil)"
	}
	if strings.HasPrefix(r.outcome, "other:") {
		return "unexpected-error", "SendAndRead returned " + r.outcome
	}
	if r.outcome == "werr" && (sc.werr < 0 || r.retT != schedAt(sc.T, sc.werr)) {
		return "unexpected-error", "SendAndRead returned a write error nobody injected: " + r.canon()
	}
	if sc.werr >= 0 && (sc.n < 0 || sc.werr < sc.n) && cliQuietBefore(sc, f, schedAt(sc.T, sc.werr)+1) && sc.H >= schedAt(sc.T, sc.werr) {
		t := schedAt(sc.T, sc.werr)
		if !r.returned || r.retT != t || r.outcome != "werr" {
			return "write-error-prompt", fmt.Sprintf("WriteTo #%d fails at %d on the open client, call %s", sc.werr, t, r.canon())
		}
	}
	if i := f.firstCan; i >= 0 {
		t := f.eff[i]
		if !r.returned || r.retT > t {
			return "ctx-prompt", fmt.Sprintf("context ended at %d, call %s", t, r.canon())
		}
		if r.retT == t && r.outcome != "ctx" && !otherTerminatorAt(sc, f, i, t) {
			return "ctx-error", fmt.Sprintf("context ended at %d, call returned %s", t, r.outcome)
		}
	}
	if i := f.firstClo; i >= 0 && sc.cerr == 3 {
		// a conn whose Close takes cliSlowClose: the socket is dead from t on, Close (and with it
		// the client's done channel) completes at t+cliSlowClose. A call that was running at t
		// returns the no-response error somewhere in that window - also when one of its tries
		// starts inside it (the write fails: the client is being closed, not the network).
		t := f.eff[i]
		if !(sc.n >= 0 && schedAt(sc.T, sc.n) <= t) && f.firstCan < 0 && f.firstAcc < 0 && sc.werr < 0 {
			if !r.returned || r.retT < t || r.retT > t+cliSlowClose {
				return "close-prompt", fmt.Sprintf("slow Close from %d to %d, call %s", t, t+cliSlowClose, r.canon())
			}
			if r.outcome != "noresp" {
				return "close-error", fmt.Sprintf("slow Close from %d to %d, call returned %s", t, t+cliSlowClose, r.canon())
			}
		}
		if r.closeT != t+cliSlowClose {
			return "close-returns", fmt.Sprintf("slow Close called at %d returned at %d", t, r.closeT)
		}
	} else if i >= 0 {
		t := f.eff[i]
		if !r.returned || r.retT > t {
			return "close-prompt", fmt.Sprintf("Close at %d, call %s", t, r.canon())
		}
		if r.retT == t && r.outcome != "noresp" && !otherTerminatorAt(sc, f, i, t) {
			return "close-error", fmt.Sprintf("Close at %d, call returned %s", t, r.outcome)
		}
		if r.closeT != t && sc.cerr != 2 {
			return "close-returns", fmt.Sprintf("Close called at %d returned at %d", t, r.closeT)
		}
	}
	if i := f.firstAcc; i >= 0 && sc.evs[i].sync && (!f.onDeadline(f.eff[i]) || sc.evs[i].hook) {
		t := f.eff[i]
		if !r.returned || r.retT > t {
			return "accept-prompt", fmt.Sprintf("acceptable response at %d, call %s", t, r.canon())
		}
		if r.retT == t && r.outcome != fmt.Sprintf("resp%d", i) && !otherTerminatorAt(sc, f, i, t) {
			return "accept-first", fmt.Sprintf("first acceptable response is #%d at %d, call returned %s", i, t, r.outcome)
		}
	}
	if r.probeErr != "" && r.probeErr != "ctx" && !strings.HasPrefix(r.probeErr, "resp") {
		// (a response: datagrams still queued for that id reached the new registration before the
		// cancelled context was noticed - the id was reusable)
		return "xid-not-reusable", "a second call with the same transaction id right after the return got " + r.probeErr
	}
	if !r.finallyRet {
		return "call-never-returns", "call still blocked after cancel and Close"
	}
	if !r.closeRetEnd {
		return "close-never-returns", "Close did not return"
	}
	if r.status != "ok" {
		return "goroutine-leak", "bubble ended with: " + r.status
	}
	return "", ""
}

// checkC10Timed: the clauses of C10 that one call under virtual time can show: the
// returned datagram is one the filters and the matcher accept, and it is the first such.
func checkC10Timed(sc cScenario, r cResult) (string, string) {
	if r.status == "hang" {
		return "hang", "scenario did not finish (virtual time stuck)"
	}
	f := analyse(sc)
	if r.outcome == "nilnil" {
		return "nil-nil", "SendAndRead returned (nil, nil)"
	}
	if r.returned && strings.HasPrefix(r.outcome, "resp") {
		var idx int
		if _, err := fmt.Sscanf(r.outcome, "resp%d", &idx); err != nil || idx < 0 || idx >= len(sc.evs) {
			return "foreign-response", "SendAndRead returned " + r.outcome
		}
		k := sc.evs[idx].kind
		if k != "acc" && k != "rej" {
			return "filter", fmt.Sprintf("returned datagram #%d of class %s (malformed / not a reply / other hardware address / other transaction)", idx, k)
		}
		if !f.isAccept(k) {
			return "matcher", fmt.Sprintf("returned datagram #%d, which the matcher rejects", idx)
		}
	}
	if i := f.firstAcc; i >= 0 && sc.evs[i].sync && (!f.onDeadline(f.eff[i]) || sc.evs[i].hook) {
		t := f.eff[i]
		if !r.returned || r.retT > t {
			return "accept-prompt", fmt.Sprintf("acceptable response at %d, call %s", t, r.canon())
		}
		if r.retT == t && r.outcome != fmt.Sprintf("resp%d", i) && !otherTerminatorAt(sc, f, i, t) {
			return "not-first", fmt.Sprintf("first acceptable response is #%d at %d, call returned %s", i, t, r.outcome)
		}
	}
	return "", ""
}

func timedOracle(name string, check func(cScenario, cResult) (string, string)) func(r *Rng, n int, thorough bool, seeds []string) *OracleResult {
	return func(r *Rng, n int, thorough bool, seeds []string) *OracleResult {
		res := &OracleResult{Tags: map[string]int{}}
		seen := map[uint64]struct{}{}
		run := func(sc cScenario, tags []string) {
			sc.probe = true
			line := sc.line()
			cliNoteLine(line)
			out := runTimed(sc)
			res.Evaluations++
			if len(sc.evs) > 0 || len(out.txs) > 1 {
				seen[hashStr(line)] = struct{}{}
			}
			for _, t := range tags {
				res.Tags[t]++
			}
			if cls, what := check(sc, out); cls != "" {
				res.fail(Failure{Oracle: name, Input: line, What: what, Class: cls})
			}
			if len(res.Samples) < 3 {
				s := line + " => " + out.canon()
				if len(s) > 300 {
					s = s[:300] + "..."
				}
				res.Samples = append(res.Samples, s)
			}
		}
		for _, s := range seeds {
			toks := strings.Fields(s)
			if len(toks) > 1 && (toks[0] == "client4h" || toks[0] == "client6h") && (name == "c12" || name == "c11") {
				func() {
					defer func() { recover() }()
					h := cliParseHistory(toks[0], toks[1:])
					cliNoteLine(h.line())
					_, bad := cliRunHistory(h)
					res.Evaluations++
					if bad != "" {
						res.fail(Failure{Oracle: name, Input: h.line(), What: histWhat(bad), Class: histClass(bad)})
					}
				}()
			}
			if len(toks) > 1 && (toks[0] == "client4" || toks[0] == "client6") {
				func() {
					defer func() { recover() }()
					run(cli_parseScenario(toks[0], toks[1:]), []string{"seed"})
				}()
			}
		}
		if name == "c11" {
			// Close right after New, nothing in between (free-running, not in a bubble)
			for _, v6 := range []bool{false, true} {
				rounds := 300
				if thorough {
					rounds = 3000
				}
				line := fmt.Sprintf("newclose v6=%v rounds=%d", v6, rounds)
				cliNoteLine(line)
				late, what := cliNewCloseProbe(v6, rounds)
				res.Evaluations++
				res.Tags["close-right-after-new"]++
				if late > 0 {
					res.fail(Failure{Oracle: name, Input: line, What: what, Class: "read-after-close"})
				}
				fline := fmt.Sprintf("flood v6=%v T=50ms n=2", v6)
				cliNoteLine(fline)
				res.Evaluations++
				res.Tags["saturated-stream"]++
				if w := cliFloodProbe(v6); w != "" {
					res.fail(Failure{Oracle: name, Input: fline, What: w, Class: "call-outlasts-schedule-under-flood"})
				}
				wline := fmt.Sprintf("closewhilewriting v6=%v rounds=40", v6)
				cliNoteLine(wline)
				res.Evaluations++
				res.Tags["closed-while-transmitting"]++
				if w := cliCloseWhileWritingProbe(v6, 40); w != "" {
					res.fail(Failure{Oracle: name, Input: wline, What: w, Class: "close-while-transmitting"})
				}
			}
		}
		if name == "c12" {
			{
				line := "raw-transmission-probe sizes=300,1500,1501,2014,4000"
				cliNoteLine(line)
				res.Evaluations++
				res.Tags["transmission-over-the-raw-connection"]++
				if w := cliRawTransmissionProbe(); w != "" {
					res.fail(Failure{Oracle: name, Input: line, What: w, Class: "raw-transmission-differs"})
				}
			}
			for _, v6 := range []bool{false, true} {
				for _, rerr := range []bool{false, true} {
					line := fmt.Sprintf("schedule-probe v6=%v read-error=%v", v6, rerr)
					cliNoteLine(line)
					res.Evaluations++
					res.Tags["schedule-after-aborted-call-or-read-error"]++
					if w := cliScheduleProbe(v6, rerr); w != "" {
						res.fail(Failure{Oracle: name, Input: line, What: w, Class: "schedule-depends-on-history"})
					}
				}
				wline := fmt.Sprintf("schedule-probe v6=%v after-write-error", v6)
				cliNoteLine(wline)
				res.Evaluations++
				res.Tags["schedule-after-aborted-call-or-read-error"]++
				if w := cliScheduleProbeX(v6, false, true); w != "" {
					res.fail(Failure{Oracle: name, Input: wline, What: w, Class: "schedule-depends-on-history"})
				}
			}
		}
		if thorough {
			for _, v6 := range []bool{false, true} {
				enumTimed(v6)(func(l string) {
					toks := strings.Fields(l)
					run(cli_parseScenario(toks[0], toks[1:]), []string{"exhaustive-grid"})
				})
			}
		}
		for i := 0; i < n; i++ {
			if (name == "c12" || name == "c11") && i%10 == 9 {
				// "the transmitted bytes must equal the request's encoding each time": successive
				// calls with the same message object, changed between calls
				h := cliGenHistory(r.Fork(), i%4 == 1)
				cliNoteLine(h.line())
				out, bad := cliRunHistory(h)
				res.Evaluations++
				res.Tags["history-same-message-mutated"]++
				seen[hashStr(h.line())] = struct{}{}
				if bad != "" {
					res.fail(Failure{Oracle: name, Input: h.line(), What: histWhat(bad), Class: histClass(bad)})
				} else if strings.Contains(out, "bad") || strings.Contains(out, "hang") || strings.Contains(out, ":other") {
					res.fail(Failure{Oracle: name, Input: h.line(), What: "history: " + out, Class: "history"})
				}
				continue
			}
			sc, tags := genTimedScenario(r.Fork(), i%2 == 1)
			if name == "c11" && i%8 >= 6 {
				sc, tags = genSlowCloseScenario(r.Fork(), i%2 == 1)
			}
			if i%2 == 1 {
				tags = append(tags, "v6")
			} else {
				tags = append(tags, "v4")
			}
			run(sc, tags)
		}
		res.Distinct = len(seen)
		return res
	}
}

// genSlowCloseScenario: Close on a conn whose Close takes cliSlowClose of virtual time, placed so
// that a try boundary (a per-try deadline, hence the next WriteTo) falls INSIDE Close, just
// before it, or at its very end; silent or chattering (rejected / irrelevant datagrams) network.
func genSlowCloseScenario(r *Rng, v6 bool) (cScenario, []string) {
	sc := cScenario{v6: v6, werr: -1, cerr: 3, cap: r.Range(0, 5)}
	sc.T = []int64{1000000, 150000000, 1000000000, 3000000000}[r.Intn(4)]
	sc.n = r.Range(2, 5)
	if r.Chance(1, 6) {
		sc.n = -1
	}
	sc.matchNil = false
	kmax := sc.n - 1
	if sc.n < 0 {
		kmax = 4
	}
	k := r.Range(1, kmax)
	b := schedAt(sc.T, k)
	var t int64
	tags := []string{"slow-close"}
	switch r.Intn(5) {
	case 0, 1:
		t = b - cliSlowClose/2
		tags = append(tags, "slow-close-try-inside")
	case 2:
		t = b - int64(r.Range(1, cliSlowClose-1))
		tags = append(tags, "slow-close-try-inside")
	case 3:
		t = b - cliSlowClose - int64(r.Range(1, 500))
		tags = append(tags, "slow-close-before-try")
	default:
		t = b + int64(r.Range(1, 500))
		tags = append(tags, "slow-close-after-try")
	}
	for j := r.Range(0, 3); j > 0; j-- {
		tt := int64(r.Range(0, int(t/1000))) * 1000
		if tt >= t {
			continue
		}
		sc.evs = append(sc.evs, cEvent{t: tt, kind: []string{"rej", "ix", "ig", "io"}[r.Intn(4)], sync: true})
	}
	// events in time order
	for i := 1; i < len(sc.evs); i++ {
		for j := i; j > 0 && sc.evs[j].t < sc.evs[j-1].t; j-- {
			sc.evs[j], sc.evs[j-1] = sc.evs[j-1], sc.evs[j]
		}
	}
	sc.evs = append(sc.evs, cEvent{t: t, kind: "clo", sync: r.Chance(1, 2)})
	sc.H = t + sc.T
	return sc, tags
}

// cliRunHistory reports "class|text" or plain text (class tx-bytes)
func histClass(bad string) string {
	if i := strings.IndexByte(bad, '|'); i > 0 {
		return bad[:i]
	}
	return "tx-bytes"
}

func histWhat(bad string) string {
	if i := strings.IndexByte(bad, '|'); i > 0 {
		return bad[i+1:]
	}
	return bad
}

func init() {
	registerOracle(&Oracle{Name: "c11", Run: cliCrashGuard("c11", timedOracle("c11", checkC11))})
	registerOracle(&Oracle{Name: "c12", Run: cliCrashGuard("c12", timedOracle("c12", checkC12))})
	registerOracle(&Oracle{Name: "c10t", Run: cliCrashGuard("c10t", timedOracle("c10t", checkC10Timed))})
}

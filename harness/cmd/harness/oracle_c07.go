package main

import (
	"bytes"
	"fmt"
	"runtime"
	"strings"
	"sync"

	"github.com/insomniacslk/dhcp/dhcpv4"
)

// validateWire4 checks the canonical-form clauses of C07 on encoder output
// with no library code: >= 300 bytes, cookie, options ascending with 82 last,
// exactly one End outside values, only zero padding after it.
func validateWire4(b []byte) string {
	if len(b) < 300 {
		return fmt.Sprintf("only %d bytes", len(b))
	}
	if !bytes.Equal(b[236:240], []byte{99, 130, 83, 99}) {
		return "no magic cookie at 236"
	}
	area := b[240:]
	i := 0
	last := -1
	seen82 := false
	for {
		if i >= len(area) {
			return "no End option"
		}
		c := area[i]
		i++
		if c == 255 {
			break
		}
		if c == 0 {
			return "pad byte before End"
		}
		if i >= len(area) {
			return "missing length byte"
		}
		l := int(area[i])
		i++
		if i+l > len(area) {
			return "value overruns"
		}
		i += l
		if c == 82 {
			seen82 = true
		} else {
			if seen82 {
				return fmt.Sprintf("option %d after option 82", c)
			}
			if int(c) < last {
				return fmt.Sprintf("option %d after option %d", c, last)
			}
			last = int(c)
		}
	}
	for _, x := range area[i:] {
		if x != 0 {
			return "non-zero byte after End"
		}
	}
	return ""
}

func oracleC07(r *Rng, n int, thorough bool, seeds []string) *OracleResult {
	res := &OracleResult{Tags: map[string]int{}}
	seen := map[uint64]struct{}{}
	check := func(p *dhcpv4.DHCPv4, line string) {
		res.Evaluations++
		if len(p.Options) > 1 {
			seen[hashStr(line)] = struct{}{}
		}
		var what string
		func() {
			defer func() {
				if e := recover(); e != nil {
					what = fmt.Sprint("panic: ", e)
				}
			}()
			b := p.ToBytes()
			if w := validateWire4(b); w != "" {
				what = "not canonical: " + w
				return
			}
			ref := refDecode4(b)
			if ref == nil {
				what = "independent RFC decoder rejects the encoding"
				return
			}
			// the reference reading must be the packet itself
			q := &dhcpv4.DHCPv4{OpCode: dhcpv4.OpcodeType(ref.op), HopCount: ref.hops, TransactionID: ref.xid,
				NumSeconds: ref.secs, Flags: ref.flags, ClientIPAddr: ref.ci, YourIPAddr: ref.yi, ServerIPAddr: ref.si,
				GatewayIPAddr: ref.gi, ClientHWAddr: ref.hw, ServerHostName: string(ref.sname), BootFileName: string(ref.file),
				Options: dhcpv4.Options{}}
			q.HWType = p.HWType & 0xff
			if uint8(p.HWType) != ref.htype {
				what = "hwtype differs"
				return
			}
			for k, v := range ref.opts {
				q.Options[k] = v
			}
			if d := diffPkt4(p, q); d != "" {
				what = "independent RFC decoder reads a different packet: " + d
				return
			}
			// equal contents, fields laid out as views of one record (a caller that keeps a
			// record per client and hands out sub-slices): same bytes, also the second time
			// (seeded change C07-13: chaddr zero-padded with append, into the caller's record)
			if f := flatPkt4(p); !bytes.Equal(f.ToBytes(), b) {
				what = "a packet with equal contents whose fields are views of one array encodes to different bytes"
				return
			} else if !bytes.Equal(f.ToBytes(), b) {
				what = "a packet whose fields are views of one array encodes to different bytes the second time"
				return
			}
			// same contents built in another insertion order, fresh map
			keys := make([]uint8, 0, len(p.Options))
			for k := range p.Options {
				keys = append(keys, k)
			}
			for rep := 0; rep < 3; rep++ {
				rr := NewRng(uint64(len(b)) + uint64(rep))
				for i := len(keys) - 1; i > 0; i-- {
					j := rr.Intn(i + 1)
					keys[i], keys[j] = keys[j], keys[i]
				}
				p2 := *p
				p2.Options = dhcpv4.Options{}
				if rep == 0 {
					// plain map writes, interleaved with deletions and overwrites that cancel out
					for _, k := range keys {
						p2.Options[k] = []byte{1, 2, 3}
					}
					if len(keys) > 0 {
						delete(p2.Options, keys[0])
					}
					for _, k := range keys {
						p2.Options[k] = p.Options[k]
					}
				} else {
					// the same through the exported update/delete calls, the two packets
					// sharing their value slices as callers do (seeded change C07-6: an
					// update reusing the stored slice's storage wrote into the other packet)
					for _, k := range keys {
						p2.UpdateOption(dhcpv4.OptGeneric(dhcpv4.GenericOptionCode(k), p.Options[k]))
					}
					for _, k := range keys {
						other := make([]byte, len(p.Options[k]))
						for i := range other {
							other[i] = ^p.Options[k][i]
						}
						if rep == 2 && len(other) > 1 {
							other = other[:len(other)-1]
						}
						p2.UpdateOption(dhcpv4.OptGeneric(dhcpv4.GenericOptionCode(k), other))
					}
					if len(keys) > 0 {
						p2.DeleteOption(dhcpv4.GenericOptionCode(keys[0]))
					}
					for _, k := range keys {
						p2.UpdateOption(dhcpv4.OptGeneric(dhcpv4.GenericOptionCode(k), p.Options[k]))
					}
				}
				if !bytes.Equal(b, p.ToBytes()) {
					what = "the packet's encoding changed while ANOTHER packet sharing its option values was updated"
					return
				}
				if !bytes.Equal(b, p2.ToBytes()) {
					what = "same contents, different insertion order, different bytes"
					return
				}
			}
		}()
		if what != "" {
			res.fail(Failure{Oracle: "c07", Input: line, What: what, Class: "v4-canonical"})
		}
		if len(res.Samples) < 3 {
			s := line
			if len(s) > 300 {
				s = s[:300] + "..."
			}
			res.Samples = append(res.Samples, s)
		}
	}
	// outside the C01 domain only the layout of the options area is claimed, and
	// for ANY option map (C07_area: keys 0 and 255 never reach the wire): header
	// fields are put back into the domain, the option map is kept
	layoutOnly := func(p *dhcpv4.DHCPv4, line string) {
		res.Evaluations++
		res.Tags["layout-only"]++
		q := *p
		if len(q.ClientHWAddr) > 16 {
			q.ClientHWAddr = q.ClientHWAddr[:16]
		}
		q.ServerHostName, q.BootFileName = "", ""
		var what string
		func() {
			defer func() {
				if e := recover(); e != nil {
					what = fmt.Sprint("panic: ", e)
				}
			}()
			if w := validateWire4(q.ToBytes()); w != "" {
				what = "not canonical: " + w
			}
		}()
		if what != "" {
			res.fail(Failure{Oracle: "c07", Input: "v4enc " + showPkt4(&q), What: what, Class: "v4-canonical"})
		}
	}
	// "packets with equal contents always encode to identical bytes" - also when several
	// goroutines encode at once, after messages of every size have been encoded before
	// (seeded change C07-15: a pooled encoder put back twice by any message beyond 576
	// octets, so that two later concurrent encodings could share it)
	{
		rr := r.Fork()
		for k := 0; k < 8; k++ {
			big := genPkt4(rr, true)
			big.Options[43] = rr.Bytes(rr.Pick([]int{400, 700, 1400}))
			big.ToBytes()
		}
		workers, rounds := 2*runtime.GOMAXPROCS(0), 300
		if thorough {
			rounds = 3000
		}
		pkts := make([]*dhcpv4.DHCPv4, workers)
		want := make([][]byte, workers)
		for w := range pkts {
			pkts[w] = genPkt4(rr, true)
			pkts[w].Options[uint8(200+w%50)] = []byte{byte(w), byte(w >> 8)}
			want[w] = pkts[w].ToBytes()
		}
		bad := make([]string, workers)
		var wg sync.WaitGroup
		for w := range pkts {
			wg.Add(1)
			go func(w int) {
				defer wg.Done()
				defer func() {
					if e := recover(); e != nil {
						bad[w] = fmt.Sprint("ToBytes panicked: ", e)
					}
				}()
				for i := 0; i < rounds; i++ {
					if b := pkts[w].ToBytes(); !bytes.Equal(b, want[w]) {
						bad[w] = fmt.Sprintf("encoding %d of a packet nobody else touches differs from its first encoding: %s", i+1, firstDiff(hx(want[w]), hx(b)))
						return
					}
				}
			}(w)
		}
		wg.Wait()
		res.Evaluations++
		res.Tags["concurrent-encodings"]++
		for w, b := range bad {
			if b != "" {
				res.fail(Failure{Oracle: "c07", Input: fmt.Sprintf("concurrent-encodings workers=%d rounds=%d worker=%d", workers, rounds, w), What: b, Class: "v4-canonical-concurrent"})
				break
			}
		}
	}
	for _, s := range seeds {
		toks := strings.Fields(s)
		if len(toks) > 1 && toks[0] == "v4enc" {
			func() {
				defer func() { recover() }()
				p := parsePkt4(toks[1:])
				if inC01Domain(p) {
					check(p, s)
				} else {
					layoutOnly(p, s)
				}
			}()
		}
	}
	for i := 0; i < n; i++ {
		if i%8 == 7 {
			p := genPkt4(r.Fork(), false)
			if !inC01Domain(p) {
				layoutOnly(p, "v4enc "+showPkt4(p))
				continue
			}
		}
		p := genPkt4(r.Fork(), true)
		check(p, "v4enc "+showPkt4(p))
		res.Tags[fmt.Sprintf("nopts=%d", min(len(p.Options), 8))]++
		if _, ok := p.Options[82]; ok {
			res.Tags["has-82"]++
		}
	}
	res.Distinct = len(seen)
	return res
}

func init() { registerOracle(&Oracle{Name: "c07", Run: oracleC07}) }

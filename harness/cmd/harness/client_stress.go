package main

// Oracle c10stress: a free-running (real time, real scheduler, no synctest)
// stress of the real clients: several goroutines issue SendAndRead calls with
// colliding transaction ids while a feeder injects matching, non-matching,
// foreign, malformed and duplicated datagrams and Close lands at a random
// moment.  Every result is checked against the clauses of C10 that can be
// judged from outside; the thorough tier runs it in a `go build -race` binary
// (tools/propcfg/C10.py race_oracles), where a race report is a failure of
// class data-race.

import (
	"context"
	"fmt"
	"net"
	"runtime"
	"strings"
	"sync"
	"sync/atomic"
	"time"

	"github.com/insomniacslk/dhcp/dhcpv4"
	"github.com/insomniacslk/dhcp/dhcpv4/nclient4"
	"github.com/insomniacslk/dhcp/dhcpv6"
	"github.com/insomniacslk/dhcp/dhcpv6/nclient6"
)

type cliStressConn struct {
	*cliScriptConn
	reads atomic.Int64 // datagrams ReadFrom has handed to the client
}

func (c *cliStressConn) ReadFrom(b []byte) (int, net.Addr, error) {
	n, a, err := c.cliScriptConn.ReadFrom(b)
	if err == nil {
		c.reads.Add(1)
	}
	return n, a, err
}

type cliStressFail struct{ class, what string }

func cliStressOnce(r *Rng, v6 bool) (desc string, fails []cliStressFail) {
	callers := r.Range(2, 8)
	pool := r.Range(1, 3)
	bufCap := r.Range(0, 3)
	perCaller := r.Range(1, 4)
	T := time.Duration(r.Range(1, 3)) * time.Millisecond
	retry := r.Range(1, 2)
	closeAfter := time.Duration(r.Range(2, 25)) * time.Millisecond
	feedN := r.Range(50, 400)
	desc = fmt.Sprintf("c10stress v6=%v callers=%d xids=%d cap=%d calls=%d T=%s n=%d closeAfter=%s feed=%d", v6, callers, pool, bufCap, perCaller, T, retry, closeAfter, feedN)
	cliNoteLine(desc)
	g0 := runtime.NumGoroutine()
	start := time.Now()
	conn := &cliStressConn{cliScriptConn: cli_newScriptConn(func() int64 { return int64(time.Since(start)) })}
	var c4 *nclient4.Client
	var c6 *nclient6.Client
	if v6 {
		c, err := nclient6.NewWithConn(conn, clHW, nclient6.WithTimeout(T), nclient6.WithRetry(retry))
		if err != nil {
			panic(err)
		}
		setUnexportedInt(c, "bufferCap", bufCap)
		c6 = c
	} else {
		c, err := nclient4.NewWithConn(conn, clHW, nclient4.WithTimeout(T), nclient4.WithRetry(retry))
		if err != nil {
			panic(err)
		}
		setUnexportedInt(c, "bufferCap", bufCap)
		c4 = c
	}
	var mu sync.Mutex
	fail := func(class, what string) {
		mu.Lock()
		fails = append(fails, cliStressFail{class, what})
		mu.Unlock()
	}
	// injected[idx] = (xid index, class byte) ; written by the feeder before the inject
	type inj struct {
		xid   int
		class byte
		ok    bool
	}
	injected := make([]inj, feedN)
	seeds := make([]uint64, callers+1)
	for i := range seeds {
		seeds[i] = r.U64()
	}
	var wg sync.WaitGroup
	// feeder
	wg.Add(1)
	go func() {
		defer wg.Done()
		fr := &Rng{s: seeds[callers]}
		for k := 0; k < feedN; k++ {
			x := fr.Range(1, pool)
			kind := []string{"acc", "acc", "rej", "rej", "ix", "ig", "io", "ih", "ie", "ih0", "ih3", "ih5", "ihx", "ib0", "ib8"}[fr.Intn(15)]
			in := inj{xid: x}
			switch kind {
			case "acc":
				in.class, in.ok = 'A', true
			case "rej":
				in.class, in.ok = 'R', true
			}
			injected[k] = in
			b := datagramFor(v6, kind, uint32(cliMXidBase+x), k)
			conn.inject(b)
			if fr.Chance(1, 6) { // duplicate
				conn.inject(b)
			}
			if fr.Chance(1, 3) {
				time.Sleep(time.Duration(fr.Range(0, 200)) * time.Microsecond)
			}
		}
	}()
	var closed atomic.Bool
	for i := 0; i < callers; i++ {
		wg.Add(1)
		go func(i int) {
			defer wg.Done()
			cr := &Rng{s: seeds[i]}
			for k := 0; k < perCaller; k++ {
				x := cr.Range(1, pool)
				matchNil := cr.Chance(1, 3)
				ctx, cancel := context.WithTimeout(context.Background(), time.Duration(cr.Range(1, 12))*time.Millisecond)
				readsAtStart := conn.reads.Load()
				var class byte
				var idx int
				var tagged, isNil bool
				var err error
				var gotXid uint32
				var replyOK bool
				if v6 {
					var m nclient6.Matcher
					if !matchNil {
						m = func(p *dhcpv6.Message) bool { c, _, _ := tagOf6(p); return c == 'A' }
					}
					var p *dhcpv6.Message
					p, err = c6.SendAndRead(ctx, clDest6, req6(uint32(cliMXidBase+x)), m)
					class, idx, tagged = tagOf6(p)
					isNil = p == nil
					if p != nil {
						gotXid = uint32(p.TransactionID[0])<<16 | uint32(p.TransactionID[1])<<8 | uint32(p.TransactionID[2])
						replyOK = true
					}
				} else {
					var m nclient4.Matcher
					if !matchNil {
						m = func(p *dhcpv4.DHCPv4) bool { c, _, _ := tagOf4(p); return c == 'A' }
					}
					var p *dhcpv4.DHCPv4
					p, err = c4.SendAndRead(ctx, clDest4, req4(uint32(cliMXidBase+x)), m)
					class, idx, tagged = tagOf4(p)
					isNil = p == nil
					if p != nil {
						t := p.TransactionID
						gotXid = uint32(t[0])<<24 | uint32(t[1])<<16 | uint32(t[2])<<8 | uint32(t[3])
						replyOK = p.OpCode == dhcpv4.OpcodeBootReply && p.ClientHWAddr.String() == clHW.String()
					}
				}
				cancel()
				who := fmt.Sprintf("caller %d call %d (xid %d, matchNil=%v)", i, k, x, matchNil)
				switch {
				case err == nil && isNil:
					fail("nil-nil", who+" returned (nil, nil)")
				case err == nil:
					if gotXid != uint32(cliMXidBase+x) {
						fail("wrong-xid", fmt.Sprintf("%s returned a response with transaction id %#x", who, gotXid))
					}
					if !replyOK {
						fail("filter", who+" returned a datagram that is not a BOOTREPLY for the client's hardware address")
					}
					if !tagged {
						fail("foreign-response", who+" returned a datagram the harness did not inject")
					} else {
						if !matchNil && class != 'A' {
							fail("matcher", fmt.Sprintf("%s returned datagram #%d, which its matcher rejects", who, idx))
						}
						if idx < 0 || idx >= feedN || !injected[idx].ok || injected[idx].xid != x {
							fail("wrong-xid", fmt.Sprintf("%s returned datagram #%d, not a well-formed response for its transaction", who, idx))
						}
					}
					_ = readsAtStart
				default:
					msg := err.Error()
					okErr := err == nclient4.ErrNoResponse || err == nclient6.ErrNoResponse || err == ctx.Err() ||
						strings.Contains(msg, "already in use") || (closed.Load() && strings.Contains(msg, "closed"))
					if !okErr {
						fail("unexpected-error", who+" returned "+msg)
					}
				}
			}
		}(i)
	}
	time.Sleep(closeAfter)
	closed.Store(true)
	closeErr := make(chan error, 1)
	go func() {
		if v6 {
			closeErr <- c6.Close()
		} else {
			closeErr <- c4.Close()
		}
	}()
	done := make(chan struct{})
	go func() { wg.Wait(); close(done) }()
	select {
	case <-done:
	case <-time.After(5 * time.Second):
		fail("hang", "calls still running 5 s after Close")
		return
	}
	select {
	case <-closeErr:
	case <-time.After(5 * time.Second):
		fail("close-never-returns", "Close did not return")
		return
	}
	// every goroutine of the client must be gone
	for k := 0; k < 200 && runtime.NumGoroutine() > g0; k++ {
		time.Sleep(time.Millisecond)
	}
	if n := runtime.NumGoroutine(); n > g0 {
		fail("goroutine-leak", fmt.Sprintf("%d goroutines before, %d after Close", g0, n))
	}
	return
}

func cliOracleC10Stress(r *Rng, n int, thorough bool, seeds []string) *OracleResult {
	res := &OracleResult{Tags: map[string]int{}}
	for i := 0; i < n; i++ {
		desc, fails := cliStressOnce(r.Fork(), i%2 == 1)
		res.Evaluations++
		res.Distinct++
		res.Tags[fmt.Sprintf("v6=%v", i%2 == 1)]++
		for _, f := range fails {
			res.fail(Failure{Oracle: "c10stress", Input: fmt.Sprintf("%s iteration=%d", desc, i), What: f.what, Class: f.class})
		}
		if len(res.Samples) < 2 {
			res.Samples = append(res.Samples, desc)
		}
	}
	return res
}

func init() {
	registerOracle(&Oracle{Name: "c10stress", Run: cliCrashGuard("c10stress", cliOracleC10Stress)})
}

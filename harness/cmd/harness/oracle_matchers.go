package main

// Oracle c10m: the exported matcher constructors of nclient4 / nclient6 return
// VALUES: building a second matcher from the same argument slice does not change
// what the first one accepts (seeded change C10-6: IsMessageType appending to the
// caller's variadic slice, so that matchers built from one list share a slot).
// Implementation-only, constant size; part of C10 ("satisfies the call's matcher")
// and C13 (the exchange rules are stated through these matchers).

import (
	"fmt"

	"github.com/insomniacslk/dhcp/dhcpv4"
	"github.com/insomniacslk/dhcp/dhcpv4/nclient4"
	"github.com/insomniacslk/dhcp/dhcpv6"
	"github.com/insomniacslk/dhcp/dhcpv6/nclient6"
)

func mtcPkt4(t dhcpv4.MessageType) *dhcpv4.DHCPv4 {
	p, _ := dhcpv4.New(dhcpv4.WithMessageType(t))
	return p
}

func oracleC10m(r *Rng, n int, thorough bool, seeds []string) *OracleResult {
	res := &OracleResult{Tags: map[string]int{}}
	fail := func(input, what string) {
		res.fail(Failure{Oracle: "c10m", Input: input, What: what, Class: "matcher-value"})
	}
	types4 := []dhcpv4.MessageType{dhcpv4.MessageTypeDiscover, dhcpv4.MessageTypeOffer, dhcpv4.MessageTypeRequest,
		dhcpv4.MessageTypeDecline, dhcpv4.MessageTypeAck, dhcpv4.MessageTypeNak, dhcpv4.MessageTypeRelease, dhcpv4.MessageTypeInform}
	types6 := []dhcpv6.MessageType{dhcpv6.MessageTypeSolicit, dhcpv6.MessageTypeAdvertise, dhcpv6.MessageTypeRequest,
		dhcpv6.MessageTypeReply, dhcpv6.MessageTypeRenew, dhcpv6.MessageTypeReconfigure}
	rounds := 200
	if n > 0 && n < rounds {
		rounds = n
	}
	for k := 0; k < rounds; k++ {
		rr := r.Fork()
		// one list with spare capacity, as append leaves it, used for two matchers
		nrest := rr.Range(0, 3)
		rest4 := make([]dhcpv4.MessageType, 0, nrest+rr.Range(1, 4))
		rest6 := make([]dhcpv6.MessageType, 0, cap(rest4))
		for i := 0; i < nrest; i++ {
			rest4 = append(rest4, types4[rr.Intn(len(types4))])
			rest6 = append(rest6, types6[rr.Intn(len(types6))])
		}
		a4, b4 := types4[rr.Intn(len(types4))], types4[rr.Intn(len(types4))]
		a6, b6 := types6[rr.Intn(len(types6))], types6[rr.Intn(len(types6))]
		in := fmt.Sprintf("matchers first=%d second=%d rest=%v cap=%d", a4, b4, rest4, cap(rest4))
		res.Evaluations++
		want4 := func(first dhcpv4.MessageType, t dhcpv4.MessageType) bool {
			if t == first {
				return true
			}
			for _, x := range rest4 {
				if x == t {
					return true
				}
			}
			return false
		}
		m1 := nclient4.IsMessageType(a4, rest4...)
		_ = nclient4.IsMessageType(b4, rest4...)
		for _, t := range types4 {
			got := m1(mtcPkt4(t))
			if got != want4(a4, t) {
				fail(in, fmt.Sprintf("nclient4.IsMessageType(%v, %v...) answers %v for a %v packet after ANOTHER matcher was built from the same list", a4, rest4, got, t))
				break
			}
		}
		want6 := func(first dhcpv6.MessageType, t dhcpv6.MessageType) bool {
			if t == first {
				return true
			}
			for _, x := range rest6 {
				if x == t {
					return true
				}
			}
			return false
		}
		n1 := nclient6.IsMessageType(a6, rest6...)
		_ = nclient6.IsMessageType(b6, rest6...)
		for _, t := range types6 {
			got := n1(&dhcpv6.Message{MessageType: t})
			if got != want6(a6, t) {
				fail(in, fmt.Sprintf("nclient6.IsMessageType(%v, %v...) answers %v for a %v message after ANOTHER matcher was built from the same list", a6, rest6, got, t))
				break
			}
		}
		res.Tags[fmt.Sprintf("rest=%d", nrest)]++
	}
	res.Distinct = rounds
	return res
}

func init() { registerOracle(&Oracle{Name: "c10m", Run: oracleC10m}) }

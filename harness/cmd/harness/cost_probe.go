package main

// C09 measurement probe.  `harness costprobe` is a single-goroutine
// subprocess with the garbage collector switched off that decodes (and
// re-encodes) one input per stdin line with the REAL library and reports
// runtime.MemStats.TotalAlloc deltas, a reflective deep size of the decoded
// value, its option nesting depth and the decode wall time.  The parent
// (oracle `c09`, stream `cost`) talks to it through costClient, which adds a
// wall-clock watchdog, GOMEMLIMIT and an address-space rlimit.
//
//	in : <entry> <hex>            entry = v4 | v6 | label | opt:<code>
//	out: <ok|err> <n> <allocDecode> <allocDecode+Encode> <deepSize> <depth> <decodeCpuNs> <encLen> <nameBytes>

import (
	"bufio"
	"fmt"
	"io"
	"os"
	"os/exec"
	"reflect"
	"runtime"
	"runtime/debug"
	"sort"
	"strconv"
	"strings"
	"sync/atomic"
	"syscall"
	"time"

	"github.com/insomniacslk/dhcp/dhcpv4"
	"github.com/insomniacslk/dhcp/dhcpv6"
	"github.com/insomniacslk/dhcp/rfc1035label"
)

// costMeasure is one measurement.
type costMeasure struct {
	OK       bool
	N        int    // input length
	AllocDec uint64 // bytes allocated by decoding
	AllocAll uint64 // bytes allocated by decoding and re-encoding
	Deep     uint64 // reflective deep size of the decoded value
	Depth    int    // option nesting depth (top-level list = 1; 0 for v4/label/err)
	DecNs    int64
	EncLen   int
	Hang     bool   // watchdog fired or decode took longer than c09HangLimit
	Skipped  bool   // not measured: a failure is on record and the time budget for finding more is spent
	Died     string // probe died (out of memory, fatal error)
	Names    uint64 // bytes of decoded domain names in the value (rfc1035label.Labels)
}

const c09HangLimit = 10 * time.Second

// Once a failure is on record the search for further ones is bounded in time: a
// change that makes thousands of inputs slow (each still under the watchdog)
// would otherwise keep the check busy for an hour without adding information.
// Without a failure nothing is ever skipped.
var (
	c09FailureSeen atomic.Bool
	c09SkipAfter   atomic.Int64 // unix nanoseconds; 0 = no limit
)

func c09BudgetSpent() bool {
	d := c09SkipAfter.Load()
	return d != 0 && c09FailureSeen.Load() && time.Now().UnixNano() > d
}

// ---- probe side -----------------------------------------------------------

func costDecode(entry string, b []byte) (val any, enc func() []byte, depth int, err error) {
	switch {
	case entry == "v4relay":
		r := &dhcpv4.RelayOptions{}
		if e := r.FromBytes(b); e != nil {
			return nil, nil, 0, e
		}
		return r, r.ToBytes, 0, nil
	case entry == "v4":
		p, e := dhcpv4.FromBytes(b)
		if e != nil {
			return nil, nil, 0, e
		}
		return p, p.ToBytes, 0, nil
	case entry == "v6":
		m, e := dhcpv6.FromBytes(b)
		if e != nil {
			return nil, nil, 0, e
		}
		return m, m.ToBytes, 0, nil
	case entry == "label":
		l, e := rfc1035label.FromBytes(b)
		if e != nil {
			return nil, nil, 0, e
		}
		return l, l.ToBytes, 0, nil
	case strings.HasPrefix(entry, "opt:"):
		code, _ := strconv.Atoi(entry[4:])
		o, e := dhcpv6.ParseOption(dhcpv6.OptionCode(code), b)
		if e != nil {
			return nil, nil, 0, e
		}
		return o, o.ToBytes, 0, nil
	}
	return nil, nil, 0, fmt.Errorf("bad entry")
}

// c09DepthOpts6 mirrors Cost.depthOpts of the Lean model on the Go value.
func c09DepthOpts6(os dhcpv6.Options) int {
	d := 0
	for _, o := range os {
		if x := c09DepthOpt6(o); x > d {
			d = x
		}
	}
	return d
}

func c09DepthOpt6(o dhcpv6.Option) int {
	switch v := o.(type) {
	case *dhcpv6.OptIANA:
		return 1 + c09DepthOpts6(v.Options.Options)
	case *dhcpv6.OptIATA:
		return 1 + c09DepthOpts6(v.Options.Options)
	case *dhcpv6.OptIAAddress:
		return 1 + c09DepthOpts6(v.Options.Options)
	case *dhcpv6.OptIAPD:
		return 1 + c09DepthOpts6(v.Options.Options)
	case *dhcpv6.OptIAPrefix:
		return 1 + c09DepthOpts6(v.Options.Options)
	case *dhcpv6.Opt4RD:
		return 1 + c09DepthOpts6(v.FourRDOptions.Options)
	case *dhcpv6.OptVendorOpts:
		return 1
	case *dhcpv6.OptNTPServer:
		return 1
	default:
		if o.Code() == dhcpv6.OptionRelayMsg {
			// optRelayMsg is unexported: reach the carried message through its accessor
			if m := c09RelayMsgOf(o); m != nil {
				return c09DepthMsg6(m)
			}
		}
	}
	return 0
}

func c09RelayMsgOf(o dhcpv6.Option) dhcpv6.DHCPv6 {
	v := reflect.ValueOf(o)
	if v.Kind() == reflect.Ptr && !v.IsNil() && v.Elem().Kind() == reflect.Struct {
		f := v.Elem().FieldByName("Msg")
		if f.IsValid() && f.Kind() == reflect.Interface && !f.IsNil() {
			if m, ok := f.Elem().Interface().(dhcpv6.DHCPv6); ok {
				return m
			}
		}
	}
	return nil
}

func c09DepthMsg6(m dhcpv6.DHCPv6) int {
	switch v := m.(type) {
	case *dhcpv6.Message:
		return 1 + c09DepthOpts6(v.Options.Options)
	case *dhcpv6.RelayMessage:
		return 1 + c09DepthOpts6(v.Options.Options)
	}
	return 0
}

func c09DepthOf(val any) int {
	switch v := val.(type) {
	case dhcpv6.DHCPv6:
		return c09DepthMsg6(v)
	case dhcpv6.Option:
		return c09DepthOpt6(v)
	}
	return 0
}

// deepSize: bytes reachable from v, each heap byte once.  Pointees count by
// type size, backing arrays of slices by capacity, strings by length, map
// entries by key+value size plus 16 bytes of bucket overhead each.  Slices and
// strings are collected as address intervals and the UNION is measured, so
// sub-slices of one buffer (vendor sub-options alias the ReadAll copy) are not
// counted once per alias.
type c09DeepSizer struct {
	seen  map[uintptr]struct{}
	ivs   [][2]uintptr
	flat  uint64
	names uint64
}

func (d *c09DeepSizer) mark(p uintptr) bool {
	if p == 0 {
		return false
	}
	if _, ok := d.seen[p]; ok {
		return false
	}
	d.seen[p] = struct{}{}
	return true
}

func (d *c09DeepSizer) interval(p uintptr, n uintptr) {
	if p != 0 && n > 0 {
		d.ivs = append(d.ivs, [2]uintptr{p, p + n})
	}
}

// walk accounts for everything owned through v but not stored in v itself.
func (d *c09DeepSizer) walk(v reflect.Value) {
	switch v.Kind() {
	case reflect.Ptr:
		if v.IsNil() || !d.mark(v.Pointer()) {
			return
		}
		d.interval(v.Pointer(), v.Elem().Type().Size())
		d.walk(v.Elem())
	case reflect.Interface:
		if v.IsNil() {
			return
		}
		e := v.Elem()
		if e.Kind() == reflect.Ptr || e.Kind() == reflect.Map {
			d.walk(e)
			return
		}
		d.flat += uint64(e.Type().Size()) // boxed value
		d.walk(e)
	case reflect.Slice:
		if v.IsNil() || v.Cap() == 0 {
			return
		}
		d.interval(v.Pointer(), uintptr(v.Cap())*v.Type().Elem().Size())
		if c09HasIndirect(v.Type().Elem()) {
			for i := 0; i < v.Len(); i++ {
				d.walk(v.Index(i))
			}
		}
	case reflect.String:
		if v.Len() > 0 {
			d.interval(uintptr(v.UnsafePointer()), uintptr(v.Len()))
		}
	case reflect.Struct:
		if v.Type() == c09LabelsType {
			f := v.FieldByName("Labels")
			for i := 0; i < f.Len(); i++ {
				d.names += uint64(f.Index(i).Len())
			}
		}
		for i := 0; i < v.NumField(); i++ {
			d.walk(v.Field(i))
		}
	case reflect.Array:
		if c09HasIndirect(v.Type().Elem()) {
			for i := 0; i < v.Len(); i++ {
				d.walk(v.Index(i))
			}
		}
	case reflect.Map:
		if v.IsNil() || !d.mark(v.Pointer()) {
			return
		}
		d.flat += 48
		it := v.MapRange()
		for it.Next() {
			d.flat += uint64(v.Type().Key().Size()) + uint64(v.Type().Elem().Size()) + 16
			d.walk(it.Key())
			d.walk(it.Value())
		}
	}
}

func c09HasIndirect(t reflect.Type) bool {
	switch t.Kind() {
	case reflect.Ptr, reflect.Interface, reflect.Slice, reflect.String, reflect.Map:
		return true
	case reflect.Struct:
		for i := 0; i < t.NumField(); i++ {
			if c09HasIndirect(t.Field(i).Type) {
				return true
			}
		}
	case reflect.Array:
		return c09HasIndirect(t.Elem())
	}
	return false
}

var c09LabelsType = reflect.TypeOf(rfc1035label.Labels{})

func c09DeepSizeOf(val any) (uint64, uint64) {
	d := &c09DeepSizer{seen: map[uintptr]struct{}{}}
	d.walk(reflect.ValueOf(val))
	sort.Slice(d.ivs, func(i, j int) bool { return d.ivs[i][0] < d.ivs[j][0] })
	total := d.flat
	var end uintptr
	for _, iv := range d.ivs {
		lo, hi := iv[0], iv[1]
		if lo < end {
			lo = end
		}
		if hi > lo {
			total += uint64(hi - lo)
			end = hi
		}
	}
	return total, d.names
}

// c09CpuNow: user CPU time consumed by this process so far.  The probe has one
// goroutine and no collector, so a delta is the cost of the code in between and
// does not depend on how loaded the machine is.  System time is left out on
// purpose: with the collector off every allocation touches fresh pages and the
// page-fault time (which grows several-fold when probes run in parallel) is an
// artefact of the measurement, not of the decoder.
func c09CpuNow() time.Duration {
	var ru syscall.Rusage
	syscall.Getrusage(syscall.RUSAGE_SELF, &ru)
	return time.Duration(ru.Utime.Nano())
}

// c09MeasureOnce measures one input. Small inputs are measured twice and the
// smaller allocation is kept: the first call of a code path in a fresh probe
// process also pays one-time initialisations (fmt and error-wrapping caches,
// lazily built tables), which are not a cost of the input.
func c09MeasureOnce(entry string, b []byte) costMeasure {
	if strings.HasPrefix(entry, "once:") {
		// history measurements: exactly this call, after whatever came before it
		return c09MeasureRaw(entry[5:], b)
	}
	r := c09MeasureRaw(entry, b)
	if len(b) <= 4096 {
		if r2 := c09MeasureRaw(entry, b); r2.AllocAll < r.AllocAll {
			r = r2
		}
	}
	return r
}

func c09MeasureRaw(entry string, b []byte) (res costMeasure) {
	res.N = len(b)
	var m0, m1, m2 runtime.MemStats
	var val any
	var enc func() []byte
	var err error
	var encLen int
	func() {
		defer func() {
			if e := recover(); e != nil {
				err = fmt.Errorf("panic")
			}
		}()
		runtime.ReadMemStats(&m0)
		t0 := c09CpuNow()
		val, enc, _, err = costDecode(entry, b)
		res.DecNs = int64(c09CpuNow() - t0)
		runtime.ReadMemStats(&m1)
	}()
	if m1.TotalAlloc == 0 {
		runtime.ReadMemStats(&m1)
	}
	res.AllocDec = m1.TotalAlloc - m0.TotalAlloc
	res.AllocAll = res.AllocDec
	if err != nil {
		return res
	}
	res.OK = true
	func() {
		defer func() { recover() }() // a panicking encoder is C03's business
		out := enc()
		encLen = len(out)
	}()
	runtime.ReadMemStats(&m2)
	res.AllocAll = m2.TotalAlloc - m0.TotalAlloc
	res.EncLen = encLen
	res.Deep, res.Names = c09DeepSizeOf(val)
	res.Depth = c09DepthOf(val)
	return res
}

func runCostProbe() {
	debug.SetGCPercent(-1)
	// hard ceiling: a decoder that really runs away dies instead of taking the machine down
	lim := syscall.Rlimit{Cur: 12 << 30, Max: 12 << 30}
	syscall.Setrlimit(syscall.RLIMIT_AS, &lim)
	in := bufio.NewReaderSize(os.Stdin, 1<<20)
	out := bufio.NewWriter(os.Stdout)
	for {
		line, err := in.ReadString('\n')
		line = strings.TrimSpace(line)
		if line != "" {
			f := strings.Fields(line)
			var res costMeasure
			if len(f) == 2 {
				b := unhx(f[1])
				res = c09MeasureOnce(f[0], b)
			}
			st := "err"
			if res.OK {
				st = "ok"
			}
			fmt.Fprintf(out, "%s %d %d %d %d %d %d %d %d\n", st, res.N, res.AllocDec, res.AllocAll, res.Deep, res.Depth, res.DecNs, res.EncLen, res.Names)
			out.Flush()
			// the collector is off: release garbage between measurements, outside the measured window
			var ms runtime.MemStats
			runtime.ReadMemStats(&ms)
			if ms.HeapAlloc > 256<<20 {
				runtime.GC()
				debug.FreeOSMemory()
			}
		}
		if err != nil {
			return
		}
	}
}

// ---- parent side ----------------------------------------------------------

type costClient struct {
	cmd   *exec.Cmd
	stdin io.WriteCloser
	lines chan string
	// Timeout is the watchdog for one measurement.
	Timeout time.Duration
}

func (c *costClient) start() error {
	exe, err := os.Executable()
	if err != nil {
		return err
	}
	c.cmd = exec.Command(exe, "costprobe")
	c.cmd.Env = append(os.Environ(), "GOMEMLIMIT=6GiB", "GOMAXPROCS=1")
	c.stdin, err = c.cmd.StdinPipe()
	if err != nil {
		return err
	}
	so, err := c.cmd.StdoutPipe()
	if err != nil {
		return err
	}
	c.cmd.Stderr = io.Discard
	if err := c.cmd.Start(); err != nil {
		return err
	}
	c.lines = make(chan string, 1)
	go func(ch chan string) {
		sc := bufio.NewScanner(so)
		sc.Buffer(make([]byte, 1<<16), 1<<20)
		for sc.Scan() {
			ch <- sc.Text()
		}
		close(ch)
	}(c.lines)
	return nil
}

func (c *costClient) stop() {
	if c.cmd != nil && c.cmd.Process != nil {
		c.stdin.Close()
		c.cmd.Process.Kill()
		c.cmd.Wait()
	}
	c.cmd = nil
}

// measure runs one input through the probe (restarting it when needed).
func (c *costClient) measure(entry string, b []byte) costMeasure {
	if c09BudgetSpent() {
		return costMeasure{N: len(b), Skipped: true, Hang: true}
	}
	// watchdog: 20 s for small inputs (they decode in milliseconds), up to 60 s
	// for a full-size datagram (the dearest legitimate input needs ~2 s of wall
	// time for decode + re-encode when several probes run side by side; the
	// margin is for a loaded machine - the verdict that matters is CPU time)
	timeout := c.Timeout
	if timeout == 0 {
		timeout = 20*time.Second + time.Duration(len(b))*40*time.Second/c09MaxUDP
	}
	if c.cmd == nil {
		err := c.start()
		for try := 0; err != nil && try < 3; try++ {
			// fork/memory pressure of the machine is not a property of the input
			time.Sleep(2 * time.Second)
			err = c.start()
		}
		if err != nil {
			return costMeasure{N: len(b), Skipped: true, Hang: true}
		}
	}
	if _, err := io.WriteString(c.stdin, entry+" "+hx(b)+"\n"); err != nil {
		c.stop()
		return costMeasure{N: len(b), Died: "probe pipe closed"}
	}
	select {
	case l, ok := <-c.lines:
		if !ok {
			c.stop()
			return costMeasure{N: len(b), Died: "probe died while decoding (out of memory or fatal error)"}
		}
		var st string
		var r costMeasure
		fmt.Sscan(l, &st, &r.N, &r.AllocDec, &r.AllocAll, &r.Deep, &r.Depth, &r.DecNs, &r.EncLen, &r.Names)
		r.OK = st == "ok"
		if time.Duration(r.DecNs) > c09HangLimit {
			r.Hang = true
		}
		return r
	case <-time.After(timeout):
		c.stop()
		return costMeasure{N: len(b), Hang: true, DecNs: -int64(timeout)}
	}
}

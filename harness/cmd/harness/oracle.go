package main

import (
	"fmt"
	"os"
)

// Oracle is an implementation-level check of a property: it needs no model.
// It is used (a) on every run as a direct search for a failing input and
// (b) after a broken proof obligation / correspondence, seeded with the
// disagreeing inputs.
type Oracle struct {
	Name string
	// Run explores n cases (plus the seed lines) and returns failures.
	Run func(r *Rng, n int, thorough bool, seeds []string) *OracleResult
}

type Failure struct {
	Oracle string `json:"oracle"`
	Input  string `json:"input"`
	What   string `json:"what"`
	Class  string `json:"class"` // key matched against known_findings.txt
}

type OracleResult struct {
	Oracle      string         `json:"oracle"`
	Evaluations int            `json:"evaluations"`
	Distinct    int            `json:"distinct_nontrivial"`
	Tags        map[string]int `json:"tags"`
	Samples     []string       `json:"samples"`
	Failures    []Failure      `json:"failures"`
	NFailures   int            `json:"n_failures"`
	perClass    map[string]int
}

// fail records a failure.  The list kept for the verdict is capped PER CLASS (8 each,
// 400 in all): hits of a listed known finding must never crowd an unlisted class out
// of the list the orchestrator judges.
func (o *OracleResult) fail(f Failure) {
	o.NFailures++
	if o.perClass == nil {
		o.perClass = map[string]int{}
	}
	o.perClass[f.Class]++
	if o.perClass[f.Class] <= 8 && len(o.Failures) < 400 {
		o.Failures = append(o.Failures, f)
	}
}

var oracles = map[string]*Oracle{}

func registerOracle(o *Oracle) { oracles[o.Name] = o }

func runOracleCmd(args []string) {
	fmt.Fprintln(os.Stderr, "oracle: see oracle_cmd.go")
	runOracleCmdImpl(args)
}

package main

// Concurrent-writer scenarios for property C18 (op `rawcw`): 2..4 goroutines
// write through ONE BroadcastRawUDPConn; the scripted underlying PacketConn
// parks every WriteTo call until all writers have built and submitted their
// frames, then lets them go in a chosen order.  It snapshots the bytes it was
// handed when the call enters and again when it is released: holding the slice
// for the duration of the call is what a socket does, and every datagram must
// leave as ITS OWN frame however the other writers interleave.
//
//	rawcw src=<iphex|nil>:<port> warm=<n|-> rel=<digits> <payloadhex>@<iphex|nil>:<port> ...
//	    -> ok <framehex> <framehex> ...     frames at release, in writer order
//	       (a writer whose frame changed between entry and release prints
//	        changed:<entryhex>><releasehex>)
//
// No sleeps; every wait is on a channel with a bound so that a hang becomes a
// reported outcome.

import (
	"bytes"
	"fmt"
	"net"
	"strconv"
	"strings"
	"sync"
	"time"

	"github.com/insomniacslk/dhcp/dhcpv4/nclient4"
)

type rawCWWriter struct {
	payload []byte
	dst     *net.UDPAddr
}

type rawCWScenario struct {
	src  *net.UDPAddr
	warm int   // length of a warm-up write done before the writers start; -1 = none
	rel  []int // release order (writer indices)
	ws   []rawCWWriter
}

func rawCWLine(s *rawCWScenario) string {
	var sb strings.Builder
	sb.WriteString("rawcw src=" + showAddr(s.src) + " warm=")
	if s.warm < 0 {
		sb.WriteString("-")
	} else {
		sb.WriteString(strconv.Itoa(s.warm))
	}
	sb.WriteString(" rel=")
	for _, i := range s.rel {
		sb.WriteString(strconv.Itoa(i))
	}
	for _, w := range s.ws {
		sb.WriteString(" " + hx(w.payload) + "@" + showAddr(w.dst))
	}
	return sb.String()
}

func rawParseCW(args []string) *rawCWScenario {
	s := &rawCWScenario{src: parseAddrTok(fieldOf(args, "src")), warm: -1}
	if w := fieldOf(args, "warm"); w != "-" {
		s.warm = atoi(w)
	}
	for _, c := range fieldOf(args, "rel") {
		s.rel = append(s.rel, int(c-'0'))
	}
	for _, t := range args {
		if i := strings.IndexByte(t, '@'); i >= 0 {
			s.ws = append(s.ws, rawCWWriter{payload: unhx(t[:i]), dst: parseAddrTok(t[i+1:])})
		}
	}
	return s
}

// rawParkCall is one call of the underlying WriteTo.
type rawParkCall struct {
	entry, release []byte
	addr           string
	gate           chan struct{}
}

// rawParkConn parks armed WriteTo calls until their gate is closed.
type rawParkConn struct {
	scriptConn
	mu      sync.Mutex
	armed   bool
	calls   []*rawParkCall
	entered chan int
}

const rawCWBound = 20 * time.Second // safety bound of every wait

func (c *rawParkConn) WriteTo(p []byte, addr net.Addr) (int, error) {
	c.mu.Lock()
	if !c.armed {
		c.mu.Unlock()
		return len(p), nil
	}
	call := &rawParkCall{entry: append([]byte{}, p...), gate: make(chan struct{})}
	if addr != nil {
		call.addr = addr.String()
	}
	c.calls = append(c.calls, call)
	k := len(c.calls) - 1
	c.mu.Unlock()
	c.entered <- k
	select {
	case <-call.gate:
	case <-time.After(rawCWBound):
	}
	rel := append([]byte{}, p...)
	c.mu.Lock()
	call.release = rel
	c.mu.Unlock()
	return len(p), nil
}

type rawCWResult struct {
	entry, release []byte
	addr           string
	panicked       string
	missing        bool
}

// rawRunCW drives the real connection. note != "" reports a schedule that
// could not be set up as asked (e.g. the implementation serialises writers).
func rawRunCW(s *rawCWScenario) (res []rawCWResult, note string) {
	pc := &rawParkConn{entered: make(chan int, 16)}
	conn := nclient4.NewBroadcastUDPConn(pc, s.src)
	if s.warm >= 0 {
		conn.WriteTo(bytes.Repeat([]byte{0x11}, s.warm), &net.UDPAddr{IP: net.IP{10, 9, 9, 9}, Port: 9})
	}
	pc.mu.Lock()
	pc.armed = true
	pc.mu.Unlock()

	n := len(s.ws)
	res = make([]rawCWResult, n)
	owner := map[int]int{} // underlying call -> writer
	callOf := make([]int, n)
	done := make([]chan struct{}, n)
	released := make([]bool, n)
	release := func(i int) {
		if released[i] || callOf[i] < 0 {
			return
		}
		released[i] = true
		pc.mu.Lock()
		g := pc.calls[callOf[i]].gate
		pc.mu.Unlock()
		close(g)
		select {
		case <-done[i]:
		case <-time.After(rawCWBound):
			note = "writer did not return"
		}
	}
	for i := range s.ws {
		callOf[i] = -1
		done[i] = make(chan struct{})
		w := s.ws[i]
		go func(i int) {
			defer close(done[i])
			defer func() {
				if e := recover(); e != nil {
					res[i].panicked = fmt.Sprint(e)
				}
			}()
			conn.WriteTo(w.payload, w.dst)
		}(i)
		// wait until writer i is inside the underlying WriteTo (or is gone)
		wait := func(d time.Duration) bool {
			select {
			case k := <-pc.entered:
				owner[k], callOf[i] = i, k
				return true
			case <-done[i]:
				return true
			case <-time.After(d):
				return false
			}
		}
		if !wait(100 * time.Millisecond) {
			// the implementation does not let two writers in at once: let the
			// parked ones finish, then this one must get in
			note = "writers serialised"
			for j := 0; j < i; j++ {
				release(j)
			}
			if !wait(rawCWBound) {
				note = "writer never reached the socket"
			}
		}
	}
	for _, i := range s.rel {
		if i >= 0 && i < n {
			release(i)
		}
	}
	for i := 0; i < n; i++ {
		release(i)
	}
	pc.mu.Lock()
	defer pc.mu.Unlock()
	for i := 0; i < n; i++ {
		select {
		case <-done[i]:
		default:
			res[i].missing = true
			continue
		}
		if callOf[i] < 0 {
			res[i].missing = res[i].panicked == ""
			continue
		}
		c := pc.calls[callOf[i]]
		res[i].entry, res[i].release, res[i].addr = c.entry, c.release, c.addr
	}
	if len(pc.calls) != n && note == "" {
		note = fmt.Sprintf("%d frames submitted for %d datagrams", len(pc.calls), n)
	}
	return res, note
}

func rawExecCW(args []string) string {
	s := rawParseCW(args)
	res, _ := rawRunCW(s)
	parts := []string{"ok"}
	for _, r := range res {
		switch {
		case r.panicked != "":
			return "panic"
		case r.missing:
			parts = append(parts, "missing")
		case !bytes.Equal(r.entry, r.release):
			parts = append(parts, "changed:"+hx(r.entry)+">"+hx(r.release))
		default:
			parts = append(parts, hx(r.release))
		}
	}
	return strings.Join(parts, " ")
}

// rawCheckCW: every frame, when submitted and when released, is the frame of
// its own datagram (independent receiver-side verification).
func rawCheckCW(s *rawCWScenario) (what, class string) {
	res, note := rawRunCW(s)
	for i, r := range res {
		w := s.ws[i]
		switch {
		case r.panicked != "":
			return fmt.Sprintf("writer %d: WriteTo panicked: %s", i, r.panicked), "C18/write-panic"
		case r.missing:
			return fmt.Sprintf("writer %d: no frame reached the socket (%s)", i, note), "C18/write-count"
		case r.addr != "ff:ff:ff:ff:ff:ff":
			return fmt.Sprintf("writer %d: frame not sent to the broadcast MAC: %s", i, r.addr), "C18/write-count"
		}
		if wh, _, _ := verifyWrittenFrame(r.entry, w.payload, w.dst, s.src); wh != "" {
			return fmt.Sprintf("writer %d of %d, frame as submitted to the socket: %s", i, len(res), wh), "C18/write-concurrent"
		}
		if wh, _, _ := verifyWrittenFrame(r.release, w.payload, w.dst, s.src); wh != "" {
			return fmt.Sprintf("writer %d of %d, frame when the socket sends it (other writers have built theirs meanwhile): %s; submitted %s, sent %s",
				i, len(res), wh, rawShort(r.entry), rawShort(r.release)), "C18/write-concurrent"
		}
		if !bytes.Equal(r.entry, r.release) {
			return fmt.Sprintf("writer %d of %d: frame bytes changed while inside the socket's WriteTo", i, len(res)), "C18/write-concurrent"
		}
	}
	if note != "" && note != "writers serialised" {
		return "concurrent writers: " + note, "C18/write-count"
	}
	return rawCheckFree(s)
}

// rawRecConn records a copy of every frame it is handed.
type rawRecConn struct {
	scriptConn
	mu     sync.Mutex
	frames [][]byte
}

func (c *rawRecConn) WriteTo(p []byte, addr net.Addr) (int, error) {
	f := append([]byte{}, p...)
	c.mu.Lock()
	c.frames = append(c.frames, f)
	c.mu.Unlock()
	return len(p), nil
}

// rawCheckFree: the same writers started together behind one barrier and left
// to the scheduler (nothing orders them, so the race detector sees any state
// they share); each frame that reaches the socket must be the frame of one
// distinct writer's datagram.
func rawCheckFree(s *rawCWScenario) (what, class string) {
	rc := &rawRecConn{}
	conn := nclient4.NewBroadcastUDPConn(rc, s.src)
	if s.warm >= 0 {
		conn.WriteTo(bytes.Repeat([]byte{0x11}, s.warm), &net.UDPAddr{IP: net.IP{10, 9, 9, 9}, Port: 9})
		rc.mu.Lock()
		rc.frames = nil
		rc.mu.Unlock()
	}
	start := make(chan struct{})
	var wg sync.WaitGroup
	panics := make([]string, len(s.ws))
	for i := range s.ws {
		wg.Add(1)
		go func(i int) {
			defer wg.Done()
			defer func() {
				if e := recover(); e != nil {
					panics[i] = fmt.Sprint(e)
				}
			}()
			<-start
			conn.WriteTo(s.ws[i].payload, s.ws[i].dst)
		}(i)
	}
	close(start)
	fin := make(chan struct{})
	go func() { wg.Wait(); close(fin) }()
	select {
	case <-fin:
	case <-time.After(rawCWBound):
		return "free-running writers did not return", "C18/write-count"
	}
	for i, p := range panics {
		if p != "" {
			return fmt.Sprintf("free-running writer %d: WriteTo panicked: %s", i, p), "C18/write-panic"
		}
	}
	rc.mu.Lock()
	defer rc.mu.Unlock()
	if len(rc.frames) != len(s.ws) {
		return fmt.Sprintf("free-running writers: %d frames for %d datagrams", len(rc.frames), len(s.ws)), "C18/write-count"
	}
	used := make([]bool, len(s.ws))
	for _, f := range rc.frames {
		ok := false
		for i, w := range s.ws {
			if used[i] {
				continue
			}
			if wh, _, _ := verifyWrittenFrame(f, w.payload, w.dst, s.src); wh == "" {
				used[i], ok = true, true
				break
			}
		}
		if !ok {
			return "free-running writers: a frame reached the socket that is not the frame of any (remaining) datagram: " + rawShort(f), "C18/write-concurrent"
		}
	}
	return "", ""
}

func rawShort(b []byte) string {
	s := hx(b)
	if len(s) > 96 {
		s = s[:96] + "..."
	}
	return s
}

var rawCWLens = []int{0, 1, 8, 64, 240, 300, 548, 1472}

// rawGenCW: 2..4 writers, payload lengths equal / smaller / larger than the
// first writer's, distinct fill bytes and destinations so that a frame built
// over another one is visible, with or without a warm-up write.
func rawGenCW(r *Rng) (*rawCWScenario, []string) {
	k := r.Range(2, 4)
	base := r.Pick(rawCWLens)
	if r.Chance(1, 3) {
		base = r.Range(0, 600)
	}
	s := &rawCWScenario{src: &net.UDPAddr{IP: genV4(r), Port: genPort(r)}, warm: -1}
	tags := []string{fmt.Sprintf("cw:writers=%d", k)}
	switch r.Intn(3) {
	case 1:
		s.warm = base
		tags = append(tags, "cw:warm=equal")
	case 2:
		s.warm = 1500
		tags = append(tags, "cw:warm=large")
	default:
		tags = append(tags, "cw:warm=none")
	}
	// every other scenario: all datagrams go to ONE host, on different ports (a server and
	// a relay on one machine; whatever a connection remembers per destination host - a
	// cached header, a route - meets the next port) - seeded change C18-12
	sameHost := r.Chance(1, 2)
	hostIP := net.IP{10, 0, 9, byte(1 + r.Intn(250))}
	if sameHost {
		tags = append(tags, "cw:same-host-other-port")
	}
	for i := 0; i < k; i++ {
		n := base
		if i > 0 {
			switch r.Intn(4) {
			case 0, 1:
				tags = append(tags, "cw:equal")
			case 2:
				n = r.Range(0, base)
				tags = append(tags, "cw:smaller")
			default:
				n = base + r.Range(1, 200)
				tags = append(tags, "cw:larger")
			}
		}
		p := bytes.Repeat([]byte{byte(0xa0 + i)}, n)
		if r.Chance(1, 3) {
			p = r.Bytes(n)
		}
		dst := &net.UDPAddr{IP: net.IP{10, 0, byte(i), byte(1 + r.Intn(250))}, Port: genPort(r)}
		if sameHost {
			dst = &net.UDPAddr{IP: append(net.IP{}, hostIP...), Port: []int{67, 68, 1067, 547, genPort(r)}[(i+r.Intn(2))%5]}
			if i > 0 && dst.Port == s.ws[i-1].dst.Port {
				dst.Port = dst.Port%65535 + 1
			}
		}
		s.ws = append(s.ws, rawCWWriter{payload: p, dst: dst})
	}
	perm := []int{0, 1, 2, 3}[:k]
	for i := k - 1; i > 0; i-- {
		j := r.Intn(i + 1)
		perm[i], perm[j] = perm[j], perm[i]
	}
	s.rel = append([]int{}, perm...)
	return s, tags
}

// rawEnumCW: two and three writers, every size relation x warm-up x release order.
func rawEnumCW(emit func(*rawCWScenario)) {
	src := &net.UDPAddr{Port: 68}
	mk := func(i, n int) rawCWWriter {
		return rawCWWriter{payload: bytes.Repeat([]byte{byte(0xa0 + i)}, n), dst: &net.UDPAddr{IP: net.IP{10, 0, 0, byte(1 + i)}, Port: 67 + i}}
	}
	for _, base := range []int{0, 1, 9, 300} {
		for _, warm := range []int{-1, base, 1500} {
			for _, d1 := range []int{-1, 0, 1, 40} {
				if base+d1 < 0 {
					continue
				}
				for _, rel := range [][]int{{0, 1}, {1, 0}} {
					emit(&rawCWScenario{src: src, warm: warm, rel: rel, ws: []rawCWWriter{mk(0, base), mk(1, base+d1)}})
				}
				for _, rel := range [][]int{{0, 1, 2}, {2, 1, 0}, {1, 2, 0}} {
					emit(&rawCWScenario{src: src, warm: warm, rel: rel, ws: []rawCWWriter{mk(0, base), mk(1, base+d1), mk(2, base)}})
				}
			}
		}
	}
}

package main

// One SendAndRead call of the REAL nclient4 / nclient6 client on a scripted
// conn inside a synctest bubble (virtual time), driven by an op line
//
//   client4|client6 T=<ns> n=<int> cap=<k> m=<tag|nil> H=<ns> ev=<t>:<kind>:<s|n>,…
//
// Script semantics (mirrored by Dhcp.Client.Timed.groups): the call starts at
// instant 0 and the script waits until it is parked; then for each event the
// script sleeps until the event's instant if that lies in the future, waits
// for quiescence (synctest.Wait) if the event is flagged `s`, and applies it
// (inject a datagram of the given class / cancel the context / call Close on
// a new goroutine).  Finally it lets virtual time run to H, waits for
// quiescence and reports every WriteTo so far and the call's return.

import (
	"context"
	"errors"
	"fmt"
	"reflect"
	"strconv"
	"strings"
	"sync/atomic"
	"testing/synctest"
	"time"
	"unsafe"

	"github.com/insomniacslk/dhcp/dhcpv4"
	"github.com/insomniacslk/dhcp/dhcpv4/nclient4"
	"github.com/insomniacslk/dhcp/dhcpv6"
	"github.com/insomniacslk/dhcp/dhcpv6/nclient6"
)

type cEvent struct {
	t    int64
	kind string
	sync bool
	// hook: flag `w` - the datagram is handed to the receive loop from inside the WriteTo the
	// client makes at instant t (t is a transmission instant; nothing else happens at t)
	hook bool
}

type cScenario struct {
	v6       bool
	T        int64
	n        int
	cap      int
	matchNil bool
	H        int64
	cerr     int // how the scripted conn's Close behaves (cliScriptConn.closeMode)
	werr     int // index of the WriteTo that fails on the open conn; -1 = none
	evs      []cEvent
	probe    bool // oracle only: try to reuse the xid right after the return
}

type cTx struct {
	t       int64
	bytesOK bool
	destOK  bool
}

type cResult struct {
	status   string // bubble status: ok / hang / panic text (e.g. leaked goroutines)
	txs      []cTx  // transmissions up to H
	returned bool
	retT     int64
	outcome  string // resp<i> noresp ctx nilnil other:<text>
	closeT   int64  // instant Close returned, -1 if not called / not returned by H
	// after H (cleanup; oracle only)
	lateTx      int    // transmissions of the call under test after it returned
	finallyRet  bool   // call returned after cancel+Close
	closeRetEnd bool   // Close returned
	probeErr    string // "" = not probed; "ok"; else the error that refused the xid
}

func parseInt64(s string) int64 {
	v, err := strconv.ParseInt(s, 10, 64)
	if err != nil {
		panic("harness: bad int " + s)
	}
	return v
}

func cli_parseScenario(op string, args []string) cScenario {
	sc := cScenario{v6: op == "client6", werr: -1}
	sc.T = parseInt64(fieldOf(args, "T"))
	sc.n = int(parseInt64(fieldOf(args, "n")))
	sc.cap = int(parseInt64(fieldOf(args, "cap")))
	sc.matchNil = fieldOf(args, "m") == "nil"
	sc.H = parseInt64(fieldOf(args, "H"))
	for _, a := range args {
		if strings.HasPrefix(a, "cerr=") {
			sc.cerr = int(parseInt64(a[5:]))
		}
		if strings.HasPrefix(a, "werr=") {
			sc.werr = int(parseInt64(a[5:]))
		}
	}
	ev := fieldOf(args, "ev")
	if ev != "-" {
		for _, e := range strings.Split(ev, ",") {
			p := strings.Split(e, ":")
			if len(p) != 3 {
				panic("harness: bad event " + e)
			}
			sc.evs = append(sc.evs, cEvent{t: parseInt64(p[0]), kind: p[1], sync: p[2] == "s" || p[2] == "w", hook: p[2] == "w"})
		}
	}
	return sc
}

func (sc cScenario) line() string {
	op := "client4"
	if sc.v6 {
		op = "client6"
	}
	m := "tag"
	if sc.matchNil {
		m = "nil"
	}
	var evs []string
	for _, e := range sc.evs {
		f := "n"
		if e.sync {
			f = "s"
		}
		if e.hook {
			f = "w"
		}
		evs = append(evs, fmt.Sprintf("%d:%s:%s", e.t, e.kind, f))
	}
	ev := "-"
	if len(evs) > 0 {
		ev = strings.Join(evs, ",")
	}
	ce := ""
	if sc.cerr != 0 {
		ce = fmt.Sprintf(" cerr=%d", sc.cerr)
	}
	if sc.werr >= 0 {
		ce += fmt.Sprintf(" werr=%d", sc.werr)
	}
	return fmt.Sprintf("%s T=%d n=%d cap=%d m=%s H=%d%s ev=%s", op, sc.T, sc.n, sc.cap, m, sc.H, ce, ev)
}

const timedXid = 0x00c0ffee

// sendAndReader abstracts over the two clients.
type sendAndReader interface {
	// call returns the outcome string of one SendAndRead.
	call(ctx context.Context, x uint32, match func(class byte, idx int) bool, matchNil bool) string
	close() error
	reqBytes(x uint32) []byte
	destOK(a any) bool
}

type cl4 struct{ c *nclient4.Client }
type cl6 struct{ c *nclient6.Client }

func outcomeOf(class byte, idx int, tagged bool, isNil bool, err error, ctx context.Context, noResp error) string {
	switch {
	case err == nil && isNil:
		return "nilnil"
	case err == nil && tagged:
		return fmt.Sprintf("resp%d", idx)
	case err == nil:
		return "resp-untagged"
	case errors.Is(err, noResp):
		return "noresp"
	case ctx.Err() != nil && errors.Is(err, ctx.Err()):
		return "ctx"
	case strings.Contains(err.Error(), "error writing packet to connection") && strings.Contains(err.Error(), errCliConnWrite.Error()):
		return "werr"
	default:
		return "other:" + strings.ReplaceAll(err.Error(), " ", "_")
	}
}

func (c cl4) call(ctx context.Context, x uint32, match func(byte, int) bool, matchNil bool) string {
	var m nclient4.Matcher
	if !matchNil {
		m = func(p *dhcpv4.DHCPv4) bool {
			cl, idx, ok := tagOf4(p)
			if !ok {
				return match(0, -1)
			}
			return match(cl, idx)
		}
	}
	p, err := c.c.SendAndRead(ctx, clDest4, req4(x), m)
	cl, idx, ok := tagOf4(p)
	_ = cl
	return outcomeOf(cl, idx, ok, p == nil, err, ctx, nclient4.ErrNoResponse)
}
func (c cl4) close() error             { return c.c.Close() }
func (c cl4) reqBytes(x uint32) []byte { return req4(x).ToBytes() }
func (c cl4) destOK(a any) bool        { return a == any(clDest4) }

func (c cl6) call(ctx context.Context, x uint32, match func(byte, int) bool, matchNil bool) string {
	var m nclient6.Matcher
	if !matchNil {
		m = func(p *dhcpv6.Message) bool {
			cl, idx, ok := tagOf6(p)
			if !ok {
				return match(0, -1)
			}
			return match(cl, idx)
		}
	}
	// the request is built once per call: req6 is deterministic for a given xid
	p, err := c.c.SendAndRead(ctx, clDest6, req6(x), m)
	cl, idx, ok := tagOf6(p)
	return outcomeOf(cl, idx, ok, p == nil, err, ctx, nclient6.ErrNoResponse)
}
func (c cl6) close() error             { return c.c.Close() }
func (c cl6) reqBytes(x uint32) []byte { return req6(x).ToBytes() }
func (c cl6) destOK(a any) bool        { return a == any(clDest6) }

// Every other client logs, the way an application that debugs its DHCP traffic runs it:
// nclient6 with WithLogDroppedPackets and a logger that renders every message with
// Summary() (what WithDebugLogger does, minus the writing to stderr), nclient4 with
// WithLogger(DebugLogger).  Logging must not change what a call returns (seeded change
// C10-10: the drop-logging path shrinking a read buffer that had become shared).
type cliDiscard struct{ n *atomic.Int64 }

func (d cliDiscard) Printf(format string, v ...interface{}) {
	d.n.Add(int64(len(fmt.Sprintf(format, v...))))
}

type cliLogger6 struct{ cliDiscard }

func (l cliLogger6) PrintMessage(prefix string, m *dhcpv6.Message) {
	l.Printf("%s: %s", prefix, m.Summary())
}

func cliLogging(T time.Duration, n, bufCap int) bool {
	return (int(T/time.Millisecond)+n+bufCap)&1 == 0
}

func newClient(v6 bool, conn *cliScriptConn, T time.Duration, n, bufCap int) sendAndReader {
	logging := cliLogging(T, n, bufCap)
	logged := new(atomic.Int64)
	if v6 {
		opts := []nclient6.ClientOpt{nclient6.WithTimeout(T), nclient6.WithRetry(n)}
		if logging {
			opts = append(opts, nclient6.WithLogDroppedPackets(), func(c *nclient6.Client) {
				f := reflect.ValueOf(c).Elem().FieldByName("logger")
				if f.IsValid() {
					reflect.NewAt(f.Type(), unsafe.Pointer(f.UnsafeAddr())).Elem().Set(reflect.ValueOf(cliLogger6{cliDiscard{logged}}))
				}
			})
		}
		c, err := nclient6.NewWithConn(conn, clHW, opts...)
		if err != nil {
			panic(err)
		}
		if bufCap >= 0 {
			setUnexportedInt(c, "bufferCap", bufCap)
		}
		return cl6{c}
	}
	opts4 := []nclient4.ClientOpt{nclient4.WithTimeout(T), nclient4.WithRetry(n)}
	if logging {
		opts4 = append(opts4, nclient4.WithLogger(nclient4.DebugLogger{Printfer: cliDiscard{logged}}))
	}
	c, err := nclient4.NewWithConn(conn, clHW, opts4...)
	if err != nil {
		panic(err)
	}
	if bufCap >= 0 {
		setUnexportedInt(c, "bufferCap", bufCap)
	}
	return cl4{c}
}

func acceptTagA(class byte, idx int) bool { return class == 'A' }

// runTimed executes one scenario. All shared variables are written by bubble
// goroutines and read by the script goroutine only after synctest.Wait (a
// synchronisation point), or after the bubble has ended.
func runTimed(sc cScenario) cResult {
	res := cResult{closeT: -1}
	var inner cResult
	status := inBubble(10*time.Second, func() {
		r := &inner
		r.closeT = -1
		start := time.Now()
		now := func() int64 { return int64(time.Since(start)) }
		conn := cli_newScriptConn(now)
		conn.closeMode = sc.cerr
		conn.failWrite = sc.werr
		for i, e := range sc.evs {
			if e.hook {
				if conn.hooks == nil {
					conn.hooks = map[int64][]byte{}
				}
				conn.hooks[e.t] = datagramFor(sc.v6, e.kind, timedXid, i)
			}
		}
		cl := newClient(sc.v6, conn, time.Duration(sc.T), sc.n, sc.cap)
		want := cl.reqBytes(timedXid)
		ctx, cancel := context.WithCancel(context.Background())
		for _, e := range sc.evs {
			if e.kind == "cdl" {
				// the caller's context ends by its own deadline (ctx.Err() == context.DeadlineExceeded)
				cancel()
				ctx, cancel = context.WithDeadline(context.Background(), start.Add(time.Duration(e.t)))
				break
			}
		}
		defer cancel()
		type ret struct {
			t       int64
			outcome string
			probe   string
			nTx     int // transmissions recorded when the call returned
		}
		retCh := make(chan ret, 1)
		var closing atomic.Bool // Close has been called (by the script or by the cleanup)
		go func() {
			o := cl.call(ctx, timedXid, acceptTagA, sc.matchNil)
			rt := ret{t: now(), outcome: o, nTx: len(conn.snapshot())}
			if sc.probe {
				// "When a call has returned its transaction id is immediately
				// reusable": same xid, context already over.
				conn.setProbing(true)
				pctx, pc := context.WithCancel(context.Background())
				pc()
				po := cl.call(pctx, timedXid, acceptTagA, sc.matchNil)
				conn.setProbing(false)
				if po == "noresp" && (closing.Load() || sc.n == 0) {
					// a closed client, or a client configured with zero tries,
					// answers ErrNoResponse without registering anything
					po = "ctx"
				}
				rt.probe = po
			}
			retCh <- rt
		}()
		closeRet := make(chan int64, 1)
		closeCalled := false
		synctest.Wait()
		for i, e := range sc.evs {
			if d := e.t - now(); d > 0 {
				time.Sleep(time.Duration(d))
			}
			if e.sync {
				synctest.Wait()
			}
			if e.hook {
				continue // delivered by the conn from inside WriteTo
			}
			switch e.kind {
			case "cdl":
				// nothing to do: the context's timer fires by itself at this instant
			case "can":
				cancel()
			case "clo":
				if !closeCalled {
					closeCalled = true
					closing.Store(true)
					go func() { cl.close(); closeRet <- now() }()
				}
			default:
				conn.inject(datagramFor(sc.v6, e.kind, timedXid, i))
			}
		}
		synctest.Wait()
		if d := sc.H - now(); d > 0 {
			time.Sleep(time.Duration(d))
		}
		synctest.Wait()
		// ---- observation at H
		var got *ret
		select {
		case x := <-retCh:
			got = &x
			r.returned, r.retT, r.outcome = true, x.t, x.outcome
		default:
		}
		closeDone := false
		select {
		case t := <-closeRet:
			r.closeT = t
			closeDone = true
		default:
		}
		ws := conn.snapshot()
		for _, w := range ws {
			r.txs = append(r.txs, cTx{t: w.t, bytesOK: string(w.bytes) == string(want), destOK: cl.destOK(w.dest)})
		}
		// ---- cleanup: everything must wind down (bubble exit = no goroutine left)
		cancel()
		if !closeCalled {
			closeCalled = true
			closing.Store(true)
			go func() { cl.close(); closeRet <- now() }()
		}
		synctest.Wait()
		if sc.cerr == 3 {
			time.Sleep(2 * time.Duration(cliSlowClose)) // let a slow Close come back
			synctest.Wait()
		}
		conn.forceClose() // closeMode 2: the conn survived Close; end the receive loop now
		synctest.Wait()
		if got == nil {
			select {
			case x := <-retCh:
				got = &x
			default:
			}
		}
		r.finallyRet = got != nil
		if got != nil {
			r.probeErr = got.probe
		}
		if !closeDone {
			select {
			case <-closeRet:
				closeDone = true
			default:
			}
		}
		r.closeRetEnd = closeDone
		if got != nil {
			r.lateTx = len(conn.snapshot()) - got.nTx
		}
	})
	if status != "hang" {
		res = inner
	}
	res.status = status
	return res
}

func (r cResult) canon() string {
	if r.status == "hang" {
		return "hang"
	}
	var tx []string
	for _, w := range r.txs {
		s := strconv.FormatInt(w.t, 10)
		if !w.bytesOK {
			s += ":badbytes"
		}
		if !w.destOK {
			s += ":baddest"
		}
		tx = append(tx, s)
	}
	txs := "-"
	if len(tx) > 0 {
		txs = strings.Join(tx, ",")
	}
	ret := "running"
	if r.returned {
		ret = fmt.Sprintf("%d:%s", r.retT, r.outcome)
	}
	cl := "-"
	if r.closeT >= 0 {
		cl = strconv.FormatInt(r.closeT, 10)
	}
	s := fmt.Sprintf("tx=%s ret=%s close=%s", txs, ret, cl)
	if r.status != "ok" {
		s += " bubble=" + strings.ReplaceAll(r.status, " ", "_")
	}
	return "ok " + s
}

func execTimed(op string, args []string) string {
	switch op {
	case "client4", "client6":
		return runTimed(cli_parseScenario(op, args)).canon()
	case "client4h", "client6h":
		out, _ := cliRunHistory(cliParseHistory(op, args))
		return out
	}
	return "bad-op"
}

// ---- histories: successive calls with the SAME message object, mutated in between

type cliHistory struct {
	v6    bool
	T     int64
	n     int
	calls int
	mut   string
}

func (h cliHistory) line() string {
	op := "client4h"
	if h.v6 {
		op = "client6h"
	}
	return fmt.Sprintf("%s T=%d n=%d calls=%d mut=%s", op, h.T, h.n, h.calls, h.mut)
}

func cliParseHistory(op string, args []string) cliHistory {
	return cliHistory{v6: op == "client6h", T: parseInt64(fieldOf(args, "T")), n: int(parseInt64(fieldOf(args, "n"))),
		calls: int(parseInt64(fieldOf(args, "calls"))), mut: fieldOf(args, "mut")}
}

// cliRunHistory returns the canonical line and, for the oracle, the first
// transmission that differs from the request's encoding at the time of its call.
func cliRunHistory(h cliHistory) (string, string) {
	var parts []string
	bad := ""
	status := inBubble(10*time.Second, func() {
		start := time.Now()
		now := func() int64 { return int64(time.Since(start)) }
		conn := cli_newScriptConn(now)
		cl := newClient(h.v6, conn, time.Duration(h.T), h.n, -1)
		m4 := req4(timedXid)
		m6 := req6(timedXid)
		seen := 0
		for j := 0; j < h.calls; j++ {
			t0 := now()
			var want []byte
			var err error
			var isNil bool
			if h.v6 {
				want = m6.ToBytes()
				p, e := cl.(cl6).c.SendAndRead(context.Background(), clDest6, m6, nil)
				err, isNil = e, p == nil
			} else {
				want = m4.ToBytes()
				p, e := cl.(cl4).c.SendAndRead(context.Background(), clDest4, m4, nil)
				err, isNil = e, p == nil
			}
			t1 := now()
			out := "other"
			switch {
			case err == nil && isNil:
				out = "nilnil"
			case err == nil:
				out = "resp"
			case err == nclient4.ErrNoResponse || err == nclient6.ErrNoResponse:
				out = "noresp"
			}
			ws := conn.snapshot()
			var tx []string
			for k, w := range ws[seen:] {
				s := strconv.FormatInt(w.t-t0, 10)
				if string(w.bytes) != string(want) {
					s += ":badbytes"
					if bad == "" {
						bad = fmt.Sprintf("call %d transmission %d is not the encoding the message had when the call was made", j, k)
					}
				}
				if !cl.destOK(w.dest) {
					s += ":baddest"
				}
				tx = append(tx, s)
			}
			// every call of a history starts afresh: offsets 0, T, 3T, ... relative to ITS start and,
			// on the silent network of these histories, the no-response error at T(2^n - 1)
			// (state carried over from an earlier call of the same client - a doubled
			// timeout, a try counter - shows here)
			if bad == "" && h.n >= 0 {
				for k, w := range ws[seen:] {
					if w.t-t0 != schedAt(h.T, k) {
						bad = fmt.Sprintf("schedule-history|call %d of a history on one client: transmission %d at offset %d, schedule says %d", j, k, w.t-t0, schedAt(h.T, k))
						break
					}
				}
				if bad == "" && (len(ws[seen:]) != h.n || t1-t0 != schedAt(h.T, h.n) || out != "noresp") {
					bad = fmt.Sprintf("schedule-history|call %d of a history on one client (silent network): %d transmissions, returned %s after %d; want %d transmissions and the no-response error after %d", j, len(ws[seen:]), out, t1-t0, h.n, schedAt(h.T, h.n))
				}
			}
			seen = len(ws)
			txs := "-"
			if len(tx) > 0 {
				txs = strings.Join(tx, ",")
			}
			parts = append(parts, fmt.Sprintf("c%d=%s:%d:%s", j, txs, t1-t0, out))
			// mutate the same object before the next call
			if strings.Contains(h.mut, "x") {
				m4.TransactionID[3]++
				m6.TransactionID[2]++
			}
			if strings.Contains(h.mut, "o") {
				m4.UpdateOption(dhcpv4.OptGeneric(dhcpv4.GenericOptionCode(tagOpt4), []byte{byte(j), 1, 2}))
				m6.AddOption(&dhcpv6.OptionGeneric{OptionCode: dhcpv6.OptionCode(tagOpt6), OptionData: []byte{byte(j), 1, 2}})
			}
		}
		cl.close()
		synctest.Wait()
	})
	if status == "hang" {
		return "hang", "scenario did not finish"
	}
	s := "ok " + strings.Join(parts, " ")
	if status != "ok" {
		s += " bubble=" + strings.ReplaceAll(status, " ", "_")
	}
	return s, bad
}

// compareSet: the model prints every allowed result separated by " | ".
func compareSet(goOut, modelOut string) bool {
	if !strings.HasPrefix(goOut, "ok ") || !strings.HasPrefix(modelOut, "ok ") {
		return false
	}
	g := strings.TrimPrefix(goOut, "ok ")
	for _, alt := range strings.Split(strings.TrimPrefix(modelOut, "ok "), " | ") {
		if alt == g {
			return true
		}
	}
	return false
}

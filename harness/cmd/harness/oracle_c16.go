package main

import (
	"bytes"
	"fmt"
	"net"
	"reflect"
	"strings"

	"github.com/insomniacslk/dhcp/dhcpv6"
)

// Oracle c16: implementation-only checks of every clause of C16 on the values
// the exported functions return.  Expectations are computed by the independent
// walkers below (plain loops over the Options slices, no accessor of the
// library), never by the functions under test.  Each failure names its clause
// in Class.

// ---- independent readers ----

// c16Decode decodes b as a receiver would: from a buffer that is reused (here:
// overwritten) as soon as the decoder has returned, so that what the clauses look
// at is the message the caller is left with.
// c16OtherEncodings: other chains and messages encoded while an encoding is still on its
// way to the wire.
func c16OtherEncodings() {
	inner := &dhcpv6.Message{MessageType: dhcpv6.MessageTypeSolicit, TransactionID: dhcpv6.TransactionID{9, 9, 9}}
	inner.AddOption(dhcpv6.OptClientID(&dhcpv6.DUIDLL{HWType: 1, LinkLayerAddr: net.HardwareAddr{2, 9, 9, 9, 9, 9}}))
	var cur dhcpv6.DHCPv6 = inner
	for i := 0; i < 3; i++ {
		r, err := dhcpv6.EncapsulateRelay(cur, dhcpv6.MessageTypeRelayForward, net.ParseIP("2001:db8:9::1"), net.ParseIP("fe80::9"))
		if err != nil {
			return
		}
		r.AddOption(dhcpv6.OptInterfaceID([]byte("other-chain")))
		cur = r
		cur.ToBytes()
	}
	inner.ToBytes()
}

func c16Decode(b []byte) (dhcpv6.DHCPv6, error) {
	if len(b)%2 == 0 {
		// the trip over the wire happens LATER: other relay chains are encoded before these
		// bytes are used (seeded change C16-13: the outermost RelayMessage.ToBytes handing
		// out a pooled buffer that the next relay encoding overwrites)
		c16OtherEncodings()
	}
	bb := append([]byte{}, b...)
	d, err := dhcpv6.FromBytes(bb)
	for i := range bb {
		bb[i] ^= 0x5a
	}
	return d, err
}

func firstOfCode(os dhcpv6.Options, code dhcpv6.OptionCode) dhcpv6.Option {
	for _, o := range os {
		if o.Code() == code {
			return o
		}
	}
	return nil
}

func allOfCode(os dhcpv6.Options, code dhcpv6.OptionCode) []dhcpv6.Option {
	var out []dhcpv6.Option
	for _, o := range os {
		if o.Code() == code {
			out = append(out, o)
		}
	}
	return out
}

// embedded returns the message inside the first option with code 9 of a relay
// level, nil when there is none or it is not a relay-message option.
func embedded(rm *dhcpv6.RelayMessage) dhcpv6.DHCPv6 {
	o := firstOfCode(rm.Options.Options, dhcpv6.OptionRelayMsg)
	if o == nil {
		return nil
	}
	if t := reflect.TypeOf(o); t.Kind() != reflect.Ptr || t.Elem().Name() != "optRelayMsg" {
		return nil
	}
	m, _ := field(o, "Msg").Interface().(dhcpv6.DHCPv6)
	return m
}

// walk6 follows the relay-message options: the relay levels outermost first,
// the non-relay message they lead to, or broken when a level has none.
func walk6(m dhcpv6.DHCPv6) (levels []*dhcpv6.RelayMessage, inner dhcpv6.DHCPv6, broken bool) {
	cur := m
	for {
		rm, ok := cur.(*dhcpv6.RelayMessage)
		if !ok {
			return levels, cur, false
		}
		levels = append(levels, rm)
		next := embedded(rm)
		if next == nil {
			return levels, nil, true
		}
		cur = next
	}
}

func optTerm(o dhcpv6.Option) string {
	if o == nil {
		return "absent"
	}
	return sxOpt6(o)
}

// optWire identifies an option by what it puts on the wire.
func optWire(o dhcpv6.Option) string {
	if o == nil {
		return "absent"
	}
	return fmt.Sprintf("%d:%s", uint16(o.Code()), hx(o.ToBytes()))
}

type c16ctx struct {
	res      *OracleResult
	seen     map[uint64]struct{}
	perClass map[string]int
}

// fail records a failure; at most three inputs are kept per clause so that the
// report shows every clause that broke, not twenty instances of the first.
func (c *c16ctx) fail(class, line, what string) {
	c.perClass[class]++
	if c.perClass[class] > 3 {
		c.res.NFailures++
		return
	}
	c.res.fail(Failure{Oracle: "c16", Input: line, What: what, Class: class})
}

// guard runs f and reports a panic under the given class.
func (c *c16ctx) guard(class, line string, f func()) {
	defer func() {
		if e := recover(); e != nil {
			c.fail(class, line, fmt.Sprint("panic: ", e))
		}
	}()
	f()
}

// ---- clause: encapsulate / decapsulate / hop count / innermost message ----

type hdr6 struct {
	typ        dhcpv6.MessageType
	link, peer net.IP
}

// checkFold wraps inner len(hs) times with the REAL EncapsulateRelay (hs is
// outermost first) and checks every clause of the first sentence of C16.
func (c *c16ctx) checkFold(inner *dhcpv6.Message, hs []hdr6, roundTrips bool) {
	line := "fold inner=" + sxMsg6(inner) + fmt.Sprintf(" levels=%d", len(hs))
	c.guard("encap-panic", line, func() {
		var cur dhcpv6.DHCPv6 = inner
		for i := len(hs) - 1; i >= 0; i-- {
			h := hs[i]
			rm, err := dhcpv6.EncapsulateRelay(cur, h.typ, h.link, h.peer)
			below := cur
			step := func() string {
				return fmt.Sprintf("v6encap %s %d %s %s", sxMsg6(below), uint8(h.typ), hxOpt(h.link), hxOpt(h.peer))
			}
			if err != nil {
				c.fail("decap-encap", step(), "EncapsulateRelay refused a relay message type")
				return
			}
			d, err := dhcpv6.DecapsulateRelay(rm)
			if err != nil || d != cur {
				c.fail("decap-encap", step(), "DecapsulateRelay(EncapsulateRelay(m)) is not m")
				return
			}
			if rm.MessageType != h.typ || !bytes.Equal(rm.LinkAddr, h.link) || !bytes.Equal(rm.PeerAddr, h.peer) {
				c.fail("decap-encap", step(), "relay header does not carry the given type/link/peer")
				return
			}
			if len(rm.Options.Options) != 1 {
				c.fail("decap-encap", step(), "fresh relay message carries other options than the relay message")
				return
			}
			want := uint8(0)
			if prev, ok := cur.(*dhcpv6.RelayMessage); ok {
				want = prev.HopCount + 1
			}
			if rm.HopCount != want {
				c.fail("hop-count", step(), fmt.Sprintf("hop count %d, want %d (one more than the level below)", rm.HopCount, want))
				return
			}
			cur = rm
		}
		n := len(hs)
		if n == 0 {
			return
		}
		top := cur.(*dhcpv6.RelayMessage)
		full := "v6inner " + sxMsg6(cur)
		if top.HopCount != uint8(n-1) {
			c.fail("hop-count", full, fmt.Sprintf("%d-fold encapsulation has hop count %d", n, top.HopCount))
		}
		got, err := cur.GetInnerMessage()
		if err != nil || got != inner {
			c.fail("inner", full, fmt.Sprintf("GetInnerMessage of a %d-fold encapsulation is not the message", n))
		}
		// DecapsulateRelayIndex: i-th content, -1 = innermost relay, out of range = message
		levels, _, _ := walk6(cur)
		for _, i := range []int{0, n / 2, n - 1, n, n + 3} {
			d, err := dhcpv6.DecapsulateRelayIndex(cur, i)
			var want dhcpv6.DHCPv6 = inner
			if i+1 < n {
				want = levels[i+1]
			}
			if err != nil || d != want {
				c.fail("decap-index", fmt.Sprintf("v6decapidx %s %d", sxMsg6(cur), i), "wrong level returned")
			}
		}
		if d, err := dhcpv6.DecapsulateRelayIndex(cur, -1); err != nil || d != dhcpv6.DHCPv6(levels[n-1]) {
			c.fail("decap-index", fmt.Sprintf("v6decapidx %s -1", sxMsg6(cur)), "index -1 is not the innermost relay message")
		}
		if _, err := dhcpv6.DecapsulateRelayIndex(cur, -2); err == nil {
			c.fail("decap-index", fmt.Sprintf("v6decapidx %s -2", sxMsg6(cur)), "index -2 accepted")
		}
		if !roundTrips {
			return
		}
		// ... also after a trip over the wire
		dec, err := c16Decode(cur.ToBytes())
		if err != nil {
			c.fail("inner-wire", full+" wire=1", "encoded chain does not decode: "+err.Error())
			return
		}
		got, err = dec.GetInnerMessage()
		if err != nil {
			c.fail("inner-wire", full+" wire=1", "GetInnerMessage fails after the wire trip")
			return
		}
		if a, b := stripLabelOriginals(sxMsg6(got)), stripLabelOriginals(sxMsg6(inner)); a != b {
			c.fail("inner-wire", full+" wire=1", "innermost message differs after the wire trip: "+firstDiff(b, a))
		}
		dl, _, _ := walk6(dec)
		if len(dl) != n {
			c.fail("inner-wire", full+" wire=1", "depth changed on the wire")
			return
		}
		for i, l := range dl {
			if l.HopCount != uint8(n-1-i) || l.MessageType != hs[i].typ {
				c.fail("hop-count", full+" wire=1", fmt.Sprintf("level %d after the wire trip: hop count %d type %d", i, l.HopCount, l.MessageType))
				return
			}
		}
	})
}

// checkChain: GetInnerMessage / DecapsulateRelay on an arbitrary hand-built chain
// against the independent walker.
func (c *c16ctx) checkChain(m dhcpv6.DHCPv6) {
	line := "v6inner " + sxMsg6(m)
	c.guard("inner-panic", line, func() {
		levels, inner, broken := walk6(m)
		got, err := m.GetInnerMessage()
		switch {
		case broken && err == nil:
			c.fail("inner", line, "GetInnerMessage succeeds on a chain with a level lacking the relay message")
		case !broken && (err != nil || dhcpv6.DHCPv6(got) != inner):
			c.fail("inner", line, fmt.Sprintf("GetInnerMessage does not return the innermost message of a depth-%d chain", len(levels)))
		}
		if len(levels) > 0 {
			d, err := dhcpv6.DecapsulateRelay(m)
			want := embedded(levels[0])
			if (want == nil) != (err != nil) || (want != nil && d != want) {
				c.fail("decap-encap", "v6decap "+sxMsg6(m), "DecapsulateRelay does not return the embedded message")
			}
			if !broken {
				if d, err := dhcpv6.DecapsulateRelayIndex(m, -1); err != nil || d != dhcpv6.DHCPv6(levels[len(levels)-1]) {
					c.fail("decap-index", "v6decapidx "+sxMsg6(m)+" -1", "index -1 is not the innermost relay message")
				}
			}
		}
		// a history on a decoded copy of the chain: ask for the inner message, let
		// the innermost relay level carry another message, ask again (seeded change
		// C16-8: an inner-message cache not invalidated by edits of deeper levels)
		if !broken && len(levels) >= 1 {
			d, err := c16Decode(m.ToBytes())
			if err != nil {
				return
			}
			lv, _, br := walk6(d)
			if br || len(lv) == 0 {
				return
			}
			if _, err := d.GetInnerMessage(); err != nil {
				return
			}
			other := &dhcpv6.Message{MessageType: dhcpv6.MessageTypeReply, TransactionID: dhcpv6.TransactionID{9, 8, 7}}
			other.AddOption(dhcpv6.OptElapsedTime(0))
			lv[len(lv)-1].UpdateOption(dhcpv6.OptRelayMessage(other))
			got, err := d.GetInnerMessage()
			if err != nil || got != other {
				c.fail("inner-stale", line, "after the innermost relay level was given another message, GetInnerMessage on the outer level still returns the old one")
			}
			if d2, err := c16Decode(d.ToBytes()); err == nil {
				if g2, err := d2.GetInnerMessage(); err != nil || sxMsg6(g2) != sxMsg6(other) {
					c.fail("inner-stale", line, "after the innermost relay level was given another message, the chain still encodes the old one")
				}
			}
		}
	})
}

// ---- clause: relay-reply from relay-forward ----

func (c *c16ctx) checkRelayRepl(relay *dhcpv6.RelayMessage, msg *dhcpv6.Message, suffix string) {
	line := "v6relayrepl " + sxMsg6(relay) + " " + sxMsg6(msg) + suffix
	c.guard("relayrepl-panic", line, func() {
		fl, _, broken := walk6(relay)
		out, err := dhcpv6.NewRelayReplFromRelayForw(relay, msg)
		if relay.MessageType != dhcpv6.MessageTypeRelayForward {
			if err == nil {
				c.fail("relayrepl-rejects", line, "a message that is not RELAY-FORW was accepted")
			}
			return
		}
		if broken {
			if err == nil {
				c.fail("relayrepl-rejects", line, "a chain with a level lacking the relay message was accepted")
			}
			return
		}
		if err != nil {
			c.fail("relayrepl-rejects", line, "well-formed relay-forward chain refused: "+err.Error())
			return
		}
		c.relayReplClauses(line, fl, out, msg, true)
		// the same clauses on the reply as the peer sees it
		dec, err := c16Decode(out.ToBytes())
		if err != nil {
			c.fail("relayrepl-wire", line+" owire=1", "the relay-reply does not decode: "+err.Error())
			return
		}
		c.relayReplClauses(line+" owire=1", fl, dec, msg, false)
	})
}

func (c *c16ctx) relayReplClauses(line string, fl []*dhcpv6.RelayMessage, out dhcpv6.DHCPv6, msg *dhcpv6.Message, identity bool) {
	rl, inner, rbroken := walk6(out)
	d := len(fl)
	if rbroken || len(rl) != d {
		c.fail("relayrepl-depth", line, fmt.Sprintf("relay-reply has depth %d (broken=%v), relay-forward has %d", len(rl), rbroken, d))
		return
	}
	if identity {
		if inner != dhcpv6.DHCPv6(msg) {
			c.fail("relayrepl-inner", line, "the innermost message of the relay-reply is not the given reply")
		}
	} else if a, b := stripLabelOriginals(sxMsg6(inner)), stripLabelOriginals(sxMsg6(msg)); a != b {
		c.fail("relayrepl-inner", line, "the innermost message of the relay-reply differs from the given reply: "+firstDiff(b, a))
	}
	if got, err := out.GetInnerMessage(); err != nil || dhcpv6.DHCPv6(got) != inner {
		c.fail("relayrepl-inner", line, "GetInnerMessage of the relay-reply does not find the reply")
	}
	for i := 0; i < d; i++ {
		f, r := fl[i], rl[i]
		at := fmt.Sprintf("level %d of %d: ", i, d)
		if r.MessageType != dhcpv6.MessageTypeRelayReply {
			c.fail("relayrepl-type", line, at+fmt.Sprintf("type %d", r.MessageType))
		}
		wl, wp := f.LinkAddr, f.PeerAddr
		if !identity {
			wl, wp = wireAddr(wl), wireAddr(wp)
		}
		if !bytes.Equal(r.LinkAddr, wl) || !bytes.Equal(r.PeerAddr, wp) {
			c.fail("relayrepl-linkpeer", line, at+fmt.Sprintf("link %s peer %s, relay-forward has link %s peer %s", hxOpt(r.LinkAddr), hxOpt(r.PeerAddr), hxOpt(f.LinkAddr), hxOpt(f.PeerAddr)))
		}
		if r.HopCount != uint8(d-1-i) {
			c.fail("relayrepl-hops", line, at+fmt.Sprintf("hop count %d, EncapsulateRelay assigns %d", r.HopCount, uint8(d-1-i)))
		}
		for _, code := range []dhcpv6.OptionCode{dhcpv6.OptionInterfaceID, dhcpv6.OptionRemoteID} {
			want, got := firstOfCode(f.Options.Options, code), firstOfCode(r.Options.Options, code)
			class := "relayrepl-iid"
			if code == dhcpv6.OptionRemoteID {
				class = "relayrepl-rid"
			}
			same := optTerm(want) == optTerm(got)
			if !identity {
				same = optWire(want) == optWire(got)
			}
			if !same {
				c.fail(class, line, at+fmt.Sprintf("%s: relay-forward %s, relay-reply %s", code, optTerm(want), optTerm(got)))
			}
			if n := len(allOfCode(r.Options.Options, code)); n > 1 {
				c.fail(class, line, at+fmt.Sprintf("%s echoed %d times", code, n))
			}
		}
	}
}

// wireAddr is what a relay header address looks like after ToBytes/FromBytes.
func wireAddr(ip net.IP) net.IP {
	if ip16 := ip.To16(); ip16 != nil {
		return ip16
	}
	return make(net.IP, 16)
}

// ---- clause: advertise / request / reply ----

func sameOpt(a, b dhcpv6.Option) bool { return optTerm(a) == optTerm(b) }

func illTyped(m *dhcpv6.Message) bool {
	for _, o := range m.Options.Options {
		if _, ok := o.(*dhcpv6.OptionGeneric); ok {
			switch o.Code() {
			case 1, 2, 3, 16, 25:
				return true
			}
		}
	}
	return false
}

// inputKept: building from a message leaves that message as it was (the builders
// copy options out of it; a builder or modifier that writes through a shared
// option would change what a second answer built from it looks like).
func (c *c16ctx) inputKept(line string, m *dhcpv6.Message, before string) func() {
	return func() {
		if after := sxMsg6(m); after != before {
			c.fail("input-modified", line, "the message built from is now "+after)
		}
	}
}

// modsReuse: the caller's modifier slice is the caller's.  One slice with spare
// capacity goes to the builder twice and then to another builder; every result
// equals what fresh modifiers give (seeded change C16-7: slices.Insert shifting the
// caller's slice in place).  build must return nil when the builder refuses.
func (c *c16ctx) modsReuse(line string, build func(ms ...dhcpv6.Modifier) *dhcpv6.Message) {
	sid := &dhcpv6.DUIDLL{HWType: 1, LinkLayerAddr: net.HardwareAddr{2, 0, 0, 0, 0, 7}}
	fresh := func() []dhcpv6.Modifier {
		return []dhcpv6.Modifier{dhcpv6.WithDNS(net.ParseIP("2001:db8::53")), dhcpv6.WithServerID(sid)}
	}
	show := func(m *dhcpv6.Message) string {
		if m == nil {
			return "refused"
		}
		q := *m
		q.TransactionID = dhcpv6.TransactionID{}
		return sxMsg6(&q)
	}
	ms := append(make([]dhcpv6.Modifier, 0, 8), fresh()...)
	want := show(build(fresh()...))
	if got := show(build(ms...)); got != want {
		c.fail("modifiers-slice-reused", line, "builder(ms...) with spare capacity = "+got+", with an exact slice = "+want)
		return
	}
	if got := show(build(ms...)); got != want {
		c.fail("modifiers-slice-reused", line, "second builder(ms...) with the same slice = "+got+", the first = "+want)
		return
	}
	// the same slice on another builder
	req := &dhcpv6.Message{MessageType: dhcpv6.MessageTypeRequest, TransactionID: dhcpv6.TransactionID{1, 2, 3}}
	req.AddOption(dhcpv6.OptClientID(sid))
	other := func(ms ...dhcpv6.Modifier) *dhcpv6.Message {
		r, err := dhcpv6.NewReplyFromMessage(req, ms...)
		if err != nil {
			return nil
		}
		return r
	}
	if got, want := show(other(ms...)), show(other(fresh()...)); got != want {
		c.fail("modifiers-slice-reused", line, "the slice used above, given to NewReplyFromMessage(REQUEST) = "+got+", fresh modifiers give "+want)
	}
}

func (c *c16ctx) checkAdvertise(m *dhcpv6.Message) {
	line := "v6adv " + sxMsg6(m)
	c.guard("adv-panic", line, func() {
		defer c.inputKept(line, m, sxMsg6(m))()
		cid := firstOfCode(m.Options.Options, dhcpv6.OptionClientID)
		adv, err := dhcpv6.NewAdvertiseFromSolicit(m)
		if m.MessageType != dhcpv6.MessageTypeSolicit || cid == nil {
			if err == nil {
				c.fail("adv-rejects", line, "ADVERTISE built from a non-SOLICIT or without client id")
			}
			return
		}
		if err != nil {
			c.fail("adv-rejects", line, "SOLICIT with client id refused: "+err.Error())
			return
		}
		if adv.MessageType != dhcpv6.MessageTypeAdvertise {
			c.fail("adv-type", line, "not an ADVERTISE")
		}
		if adv.TransactionID != m.TransactionID {
			c.fail("adv-xid", line, "transaction id not kept")
		}
		if !sameOpt(firstOfCode(adv.Options.Options, dhcpv6.OptionClientID), cid) || len(allOfCode(adv.Options.Options, dhcpv6.OptionClientID)) != 1 {
			c.fail("adv-cid", line, "client id not echoed exactly once")
		}
		c.modsReuse(line, func(ms ...dhcpv6.Modifier) *dhcpv6.Message {
			r, err := dhcpv6.NewAdvertiseFromSolicit(m, ms...)
			if err != nil {
				return nil
			}
			return r
		})
	})
}

func (c *c16ctx) checkRequest(m *dhcpv6.Message) {
	line := "v6req " + sxMsg6(m) + " xid=000000"
	if illTyped(m) {
		// an OptionGeneric carrying a typed option's code: outside the decoder's range and
		// outside the property's domain (the unchecked assertions are modelled:
		// C16_request_panics); only run it so that the stream's verdict is exercised
		func() {
			defer func() { recover() }()
			dhcpv6.NewRequestFromAdvertise(m)
		}()
		return
	}
	c.guard("req-panic", line, func() {
		defer c.inputKept(line, m, sxMsg6(m))()
		os := m.Options.Options
		cid, sid := firstOfCode(os, dhcpv6.OptionClientID), firstOfCode(os, dhcpv6.OptionServerID)
		ia, pd, vc := firstOfCode(os, dhcpv6.OptionIANA), firstOfCode(os, dhcpv6.OptionIAPD), firstOfCode(os, dhcpv6.OptionVendorClass)
		req, err := dhcpv6.NewRequestFromAdvertise(m)
		if m.MessageType != dhcpv6.MessageTypeAdvertise || cid == nil || sid == nil || ia == nil {
			if err == nil {
				c.fail("req-rejects", line, "REQUEST built from a non-ADVERTISE or without client id / server id / IA_NA")
			}
			return
		}
		if err != nil {
			c.fail("req-rejects", line, "complete ADVERTISE refused: "+err.Error())
			return
		}
		if req.MessageType != dhcpv6.MessageTypeRequest {
			c.fail("req-type", line, "not a REQUEST")
		}
		// fresh transaction id: three builds do not all repeat one id, and not all the ADVERTISE's
		r2, _ := dhcpv6.NewRequestFromAdvertise(m)
		r3, _ := dhcpv6.NewRequestFromAdvertise(m)
		if r2 != nil && r3 != nil {
			if req.TransactionID == r2.TransactionID && r2.TransactionID == r3.TransactionID {
				c.fail("req-xid-fresh", line, fmt.Sprintf("three REQUESTs carry the same transaction id %x", req.TransactionID[:]))
			}
		}
		ros := req.Options.Options
		for _, p := range []struct {
			code dhcpv6.OptionCode
			want dhcpv6.Option
			name string
		}{{dhcpv6.OptionClientID, cid, "client id"}, {dhcpv6.OptionServerID, sid, "server id"}, {dhcpv6.OptionIANA, ia, "IA_NA"},
			{dhcpv6.OptionIAPD, pd, "IA_PD"}, {dhcpv6.OptionVendorClass, vc, "vendor class"}} {
			if !sameOpt(firstOfCode(ros, p.code), p.want) {
				c.fail("req-echo", line, fmt.Sprintf("%s: ADVERTISE has %s, REQUEST has %s", p.name, optTerm(p.want), optTerm(firstOfCode(ros, p.code))))
			}
			if len(allOfCode(ros, p.code)) > 1 {
				c.fail("req-echo", line, p.name+" more than once in the REQUEST")
			}
		}
	})
}

func (c *c16ctx) checkReply(m *dhcpv6.Message) {
	line := "v6reply " + sxMsg6(m)
	c.guard("reply-panic", line, func() {
		defer c.inputKept(line, m, sxMsg6(m))()
		os := m.Options.Options
		cid := firstOfCode(os, dhcpv6.OptionClientID)
		okType := false
		switch m.MessageType {
		case dhcpv6.MessageTypeSolicit:
			okType = firstOfCode(os, dhcpv6.OptionRapidCommit) != nil
		case dhcpv6.MessageTypeRequest, dhcpv6.MessageTypeConfirm, dhcpv6.MessageTypeRenew, dhcpv6.MessageTypeRebind,
			dhcpv6.MessageTypeRelease, dhcpv6.MessageTypeInformationRequest:
			okType = true
		}
		rep, err := dhcpv6.NewReplyFromMessage(m)
		if !okType || cid == nil {
			if err == nil {
				c.fail("reply-rejects", line, "REPLY built from a message type that takes none, or without client id")
			}
			return
		}
		if err != nil {
			c.fail("reply-rejects", line, "answerable message refused: "+err.Error())
			return
		}
		if rep.MessageType != dhcpv6.MessageTypeReply {
			c.fail("reply-type", line, "not a REPLY")
		}
		if rep.TransactionID != m.TransactionID {
			c.fail("reply-xid", line, "transaction id not kept")
		}
		if !sameOpt(firstOfCode(rep.Options.Options, dhcpv6.OptionClientID), cid) || len(allOfCode(rep.Options.Options, dhcpv6.OptionClientID)) != 1 {
			c.fail("reply-cid", line, "client id not echoed exactly once")
		}
		if (m.MessageType == dhcpv6.MessageTypeSolicit) != (firstOfCode(rep.Options.Options, dhcpv6.OptionRapidCommit) != nil) {
			c.fail("reply-rapid-commit", line, "rapid commit present iff answering a SOLICIT: violated")
		}
		c.modsReuse(line, func(ms ...dhcpv6.Modifier) *dhcpv6.Message {
			r, err := dhcpv6.NewReplyFromMessage(m, ms...)
			if err != nil {
				return nil
			}
			return r
		})
	})
}

// ---- driver ----

func (c *c16ctx) note(line string, nontrivial bool) {
	c.res.Evaluations++
	if nontrivial {
		c.seen[hashStr(line)] = struct{}{}
	}
	if len(c.res.Samples) < 4 {
		s := line
		if len(s) > 300 {
			s = s[:300] + "..."
		}
		c.res.Samples = append(c.res.Samples, s)
	}
}

// fromLine re-checks the clauses an operation line touches (seeds: lines the
// correspondence stream disagreed on, replay files).
func (c *c16ctx) fromLine(line string) {
	defer func() { recover() }()
	toks := strings.Fields(line)
	if len(toks) < 2 {
		return
	}
	pos := positional(toks[1:])
	m := mkMsg6(parseSx(pos[0]))
	if w, _ := kv(toks[1:], "wire"); w == "1" {
		d, err := c16Decode(m.ToBytes())
		if err != nil {
			return
		}
		m = d
	}
	c.note(line, true)
	switch toks[0] {
	case "v6relayrepl":
		if rm, ok := m.(*dhcpv6.RelayMessage); ok && len(pos) > 1 {
			if msg, ok := mkMsg6(parseSx(pos[1])).(*dhcpv6.Message); ok {
				c.checkRelayRepl(rm, msg, "")
			}
		}
		c.checkChain(m)
	case "v6adv", "v6req", "v6reply":
		if mm, ok := m.(*dhcpv6.Message); ok {
			c.checkAdvertise(mm)
			c.checkRequest(mm)
			c.checkReply(mm)
		}
		if ms, ok := kv(toks[1:], "mods"); ok {
			c.checkNewMods(sxMsg6(m), ms)
		}
	case "v6mods":
		if ms, ok := kv(toks[1:], "mods"); ok {
			c.checkNewMods(sxMsg6(m), ms)
		}
	case "v6update", "v6add":
		if len(pos) > 1 {
			c.checkOptionOps(sxMsg6(m), pos[1], dpnTermCode(pos[1]))
		}
	case "v6del":
		if len(pos) > 1 {
			c.checkOptionOps(sxMsg6(m), "g(65000,-)", atoi(pos[1]))
		}
	default:
		c.checkChain(m)
		// the chain's own headers re-applied with the real EncapsulateRelay
		levels, inner, broken := walk6(m)
		if im, ok := inner.(*dhcpv6.Message); ok && !broken && len(levels) > 0 {
			var hs []hdr6
			for _, l := range levels {
				t := l.MessageType
				if t != dhcpv6.MessageTypeRelayForward && t != dhcpv6.MessageTypeRelayReply {
					t = dhcpv6.MessageTypeRelayForward
				}
				hs = append(hs, hdr6{t, l.LinkAddr, l.PeerAddr})
			}
			c.checkFold(im, hs, false)
		}
	}
}

func oracleC16(r *Rng, n int, thorough bool, seeds []string) *OracleResult {
	c := &c16ctx{res: &OracleResult{Tags: map[string]int{}}, seen: map[uint64]struct{}{}, perClass: map[string]int{}}
	for _, s := range seeds {
		c.fromLine(s)
	}
	for i := 0; i < n; i++ {
		rr := r.Fork()
		switch k := rr.Intn(12); {
		case k >= 10:
			// option-list operations and the modifiers built on them
			c.checkOpsRandom(rr)
		case k < 2:
			// n-fold encapsulation with the real EncapsulateRelay
			s := genInnerSpec(rr, rr.Pick(msgTypes6))
			inner := genInner6(rr, s)
			depth := rr.Range(1, 16)
			if thorough && rr.Chance(1, 4) {
				depth = rr.Range(17, 64)
			}
			if thorough && rr.Chance(1, 50) {
				depth = rr.Range(255, 258) // uint8 wrap-around of the hop count
			}
			hs := make([]hdr6, depth)
			for j := range hs {
				hs[j] = hdr6{dhcpv6.MessageType(12 + rr.Intn(2)), chainAddr(rr, j, 0), chainAddr(rr, j, 1)}
			}
			c.res.Tags["fold "+depthTag(depth)]++
			c.res.Tags[s.tag()]++
			c.note(fmt.Sprintf("fold depth=%d inner=%s", depth, sxMsg6(inner)), true)
			c.checkFold(inner, hs, true)
			// a non-relay type is refused
			if _, err := dhcpv6.EncapsulateRelay(inner, dhcpv6.MessageType(rr.Pick([]int{0, 1, 7, 11, 14, 255})), nil, nil); err == nil {
				c.fail("decap-encap", "v6encap "+sxMsg6(inner)+" 1 nil nil", "EncapsulateRelay accepted a non-relay message type")
			}
		case k < 7:
			// relay-reply from a hand-built relay-forward chain
			inner, itag := genInnerAny(rr)
			spec := genChainSpec(rr, thorough)
			ch := genChain6(rr, inner, spec).(*dhcpv6.RelayMessage)
			rs := genInnerSpec(rr, rr.Pick([]int{7, 7, 2}))
			reply := genInner6(rr, rs)
			c.res.Tags["relayrepl "+depthTag(spec.depth)]++
			c.res.Tags[itag]++
			if spec.malformed != "" {
				c.res.Tags["malformed:"+spec.malformed]++
			}
			if rr.Chance(1, 3) {
				// the relay-forward as a server receives it
				if d, err := c16Decode(ch.ToBytes()); err == nil {
					if drm, ok := d.(*dhcpv6.RelayMessage); ok {
						ch = drm
						c.res.Tags["relayrepl on decoded chain"]++
					}
				}
			}
			c.note("v6relayrepl "+sxMsg6(ch), true)
			c.checkRelayRepl(ch, reply, "")
			c.checkChain(ch)
		default:
			typ := rr.Pick([]int{1, 1, 2, 2, 2, 3, 4, 5, 6, 8, 11, 0, 7, 9, 10, 12, 13, 14, 255})
			s := genInnerSpec(rr, typ)
			if typ == 2 && rr.Chance(1, 2) {
				s.cid, s.sid, s.nIANA = true, true, max(1, s.nIANA)
			}
			s.illTyped = rr.Chance(1, 40)
			m := genInner6(rr, s)
			c.res.Tags[fmt.Sprintf("builders type=%d", typ)]++
			c.res.Tags[s.tag()]++
			c.note("v6adv/req/reply "+sxMsg6(m), s.cid)
			c.checkAdvertise(m)
			c.checkRequest(m)
			c.checkReply(m)
		}
	}
	c.res.Distinct = len(c.seen)
	return c.res
}

module verif/harness

go 1.26.8

require (
	github.com/insomniacslk/dhcp v0.0.0
	github.com/u-root/uio v0.0.0-20230220225925-ffce2a382923
)

require (
	github.com/josharian/native v1.1.0 // indirect
	github.com/jsimonetti/rtnetlink v1.3.5 // indirect
	github.com/mdlayher/netlink v1.7.2 // indirect
	github.com/mdlayher/packet v1.1.2 // indirect
	github.com/mdlayher/socket v0.4.1 // indirect
	github.com/pierrec/lz4/v4 v4.1.14 // indirect
	golang.org/x/net v0.38.0 // indirect
	golang.org/x/sync v0.3.0 // indirect
	golang.org/x/sys v0.31.0 // indirect
)

replace github.com/insomniacslk/dhcp => /repo

#!/usr/bin/env python3
"""Regenerates MANIFEST.json from tools/props.py (single source of truth)."""
import json, os, sys
VERIF = os.path.dirname(os.path.dirname(os.path.abspath(__file__)))
sys.path.insert(0, os.path.join(VERIF, "tools"))
from props import PROPS, MANIFEST_TEXT

all_ids = [json.loads(l)["id"] for l in open(os.path.join(VERIF, "properties.jsonl"))]
checks = []
for pid in all_ids:
    if pid not in PROPS:
        continue
    t = MANIFEST_TEXT[pid]
    checks.append(dict(
        property_id=pid,
        quick_cmd=f"./check {pid} quick",
        thorough_cmd=f"./check {pid} thorough",
        evidence_file=f"/verif/evidence/{pid}.json",
        replay_cmd_template=f"./check {pid} --replay {{path}}",
        engine="lean-proof+correspondence",
        level_claimed=dict(category="proof", text=t["text"], design_ref=t["design_ref"]),
        level_note=t["note"],
        technique=t["technique"],
    ))
na = [dict(property_id=p, reason="check not yet registered in this session: model and theorems for this property are still being built (DESIGN.md section 10)")
      for p in all_ids if p not in PROPS]
m = dict(
    version=1,
    setup_cmd="./check --setup",
    hooks=dict(guard="verif", enable="go build -tags verif (no hook commits exist; every observation point is exported API)",
               baseline_off_cmd="cd /repo && go test -mod=mod -vet=off -count=1 ./...",
               source_commits=[], add_only=True),
    engines=[dict(name="lean-proof+correspondence", path="/verif/tools/verif.py",
                  serves_properties=[c["property_id"] for c in checks],
                  kind_free_text="Lean 4 theorems about a hand-written executable model (lean/), tied to /repo by facts regenerated from the source on every run (extract/) and by an in-process differential harness driving the compiled model (harness/)")],
    checks=checks,
    notes="See DESIGN.md. Every check rebuilds the extractor output, the Lean obligations and the Go harness from /repo's working tree.",
    not_applicable=na,
)
json.dump(m, open(os.path.join(VERIF, "MANIFEST.json"), "w"), indent=1)
print("checks:", [c["property_id"] for c in checks])

#!/usr/bin/env python3
"""Regenerates lean/Dhcp.lean and lean/DhcpProofs.lean (aggregate import
lists) from the files present, so that merges never have to touch them."""
import os
VERIF = os.path.dirname(os.path.dirname(os.path.abspath(__file__)))
LEAN = os.path.join(VERIF, "lean")
SKIP_FILE = os.path.join(VERIF, 'tools', 'genimports_skip.txt')
PARKED = [l.strip() for l in open(SKIP_FILE)] if os.path.exists(SKIP_FILE) else []

def mods(root, skip=()):
    out = []
    for d, _, fs in os.walk(os.path.join(LEAN, root)):
        for f in sorted(fs):
            if f.endswith(".lean"):
                m = os.path.relpath(os.path.join(d, f), LEAN)[:-5].replace("/", ".")
                if not any(m.startswith(s) for s in skip):
                    out.append(m)
    return sorted(out)
open(os.path.join(LEAN, "Dhcp.lean"), "w").write("".join(f"import {m}\n" for m in mods("Dhcp", skip=("Dhcp.Driver", "Dhcp.Gen"))))
open(os.path.join(LEAN, "DhcpProofs.lean"), "w").write("".join(f"import {m}\n" for m in mods("DhcpProofs", skip=tuple(p for p in PARKED if p))))

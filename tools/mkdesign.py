#!/usr/bin/env python3
"""Regenerates the machine-made tables of DESIGN.md (between the markers
<!-- BEGIN:<name> --> and <!-- END:<name> -->) from tools/propcfg, evidence/,
seeded/ and known_findings.txt."""
import glob, json, os, re, sys
VERIF = os.path.dirname(os.path.dirname(os.path.abspath(__file__)))
sys.path.insert(0, os.path.join(VERIF, "tools"))
from props import PROPS

def checks_table():
    rows = ["| id | theorems checked | full statement proved | streams (model vs code) | oracles (code only) | quick wall |",
            "|---|---|---|---|---|---|"]
    for pid in sorted(PROPS):
        cfg = PROPS[pid]
        ev = {}
        p = os.path.join(VERIF, "evidence", pid + ".json")
        if os.path.exists(p):
            ev = json.load(open(p))
        cov = ev.get("coverage", {})
        rows.append("| %s | %s/%s | %s | %s | %s | %s s |" % (
            pid, cov.get("discharged", "?"), cov.get("obligations", "?"),
            "yes" if cfg.get("full_statement_proved") else "partial",
            ", ".join(s[0] for s in cfg["streams"]) or "-",
            ", ".join(o[0] for o in cfg["oracles"]) or "-",
            ev.get("wall_s", "?")))
    return "\n".join(rows)

def seeded_table():
    rows = ["| seed | what was changed | what it needs to manifest | own property's check | also caught by |",
            "|---|---|---|---|---|"]
    for d in sorted(glob.glob(os.path.join(VERIF, "seeded", "*"))):
        mp = os.path.join(d, "meta.json")
        if not os.path.exists(mp):
            continue
        m = json.load(open(mp))
        pid = m["property"]
        own = (m.get("checks", {}).get(pid) or {})
        v = own.get("violation")
        verdict = "not detected at first" if not v else ("caught (no failing input found)" if "no-failing-input-found" in v else "caught with failing input")
        if m.get("recheck"):
            verdict += "; " + m["recheck"]
        if m.get("note"):
            verdict += "; " + m["note"].replace("|", "/")
        fin = m.get("final")
        if fin:
            verdict += "; NOW (%s): %s" % (fin.get("at", "?"), {"input": "caught with failing input", "no-failing-input-found": "caught (no failing input found)",
                                                                "missed": "NOT detected", "patch-does-not-apply": "patch no longer applies (fixed upstream of it)"}.get(fin["verdict"], fin["verdict"]))
        rows.append("| %s | %s | %s | %s | %s |" % (
            os.path.basename(d), m.get("summary", "").replace("|", "/")[:260], m.get("needs", "").replace("|", "/")[:220],
            verdict, ", ".join(m.get("caught_by", [])) or "-"))
    return "\n".join(rows)

def seed_summary():
    tot, fin = 0, {}
    first = {"input": 0, "nfi": 0, "missed": 0}
    for d in sorted(glob.glob(os.path.join(VERIF, "seeded", "*", "meta.json"))):
        m = json.load(open(d))
        tot += 1
        v = ((m.get("checks", {}) or {}).get(m["property"]) or {}).get("violation")
        first["missed" if not v else ("nfi" if "no-failing-input-found" in v else "input")] += 1
        f = (m.get("final") or {}).get("verdict", "not re-run")
        fin[f] = fin.get(f, 0) + 1
    names = {"input": "caught with a failing input", "no-failing-input-found": "caught, no failing input found", "missed": "not detected",
             "patch-does-not-apply": "patch no longer applies (the code it edits was fixed since)", "not re-run": "not re-run yet", "error": "re-run error"}
    out = ["%d seeded changes, all confirmed (suite green with the change, demo fails with it and passes without)." % tot,
           "When first imported, the seed's own property check: %d caught with a failing input, %d caught without one, %d not detected." % (first["input"], first["nfi"], first["missed"]),
           "With the machinery as committed: " + "; ".join("%d %s" % (n, names.get(k, k)) for k, n in sorted(fin.items())) + "."]
    return "\n".join(out)

def findings_table():
    out = []
    for line in open(os.path.join(VERIF, "known_findings.txt")):
        line = line.strip()
        if line.startswith("fixed:") or line.startswith("finding:"):
            out.append("* `" + line[:line.index(" ")] + "` " + line[line.index(" ") + 1:])
    return "\n".join(out)

TABLES = {"checks": checks_table, "seeded": seeded_table, "findings": findings_table, "seedsummary": seed_summary}
p = os.path.join(VERIF, "DESIGN.md")
s = open(p).read()
for name, fn in TABLES.items():
    s = re.sub(r"(<!-- BEGIN:%s -->\n).*?(<!-- END:%s -->)" % (name, name), lambda m: m.group(1) + fn() + "\n" + m.group(2), s, flags=re.S)
open(p, "w").write(s)
print("DESIGN.md tables regenerated")

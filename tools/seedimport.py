#!/usr/bin/env python3
"""seedimport.py <mutout-dir> : copies agent-produced seeds into /verif/seeded/<prop>-<k>/ ,
verifies each in a scratch worktree and runs the property's check (+ optional extra checks)."""
import json, os, re, shutil, subprocess, sys
VERIF = os.path.dirname(os.path.dirname(os.path.abspath(__file__)))
src = sys.argv[1].rstrip("/")
extra = sys.argv[2:]
for k in sorted(os.listdir(src)):
    d = os.path.join(src, k)
    if not os.path.exists(os.path.join(d, "patch.diff")):
        continue
    meta = json.load(open(os.path.join(d, "meta.json")))
    pid = meta["property"]
    dst = os.path.join(VERIF, "seeded", f"{pid}-{k}")
    os.makedirs(dst, exist_ok=True)
    for f in os.listdir(d):
        shutil.copyfile(os.path.join(d, f), os.path.join(dst, f))
    m = re.search(r"-run[ =]'?\"?([A-Za-z0-9_|^$]+)", meta.get("demo_cmd", ""))
    demo = [f for f in os.listdir(d) if f.endswith("_test.go")]
    meta["demo_file"] = demo[0] if demo else "demo_test.go"
    meta["demo_run"] = f"go test -mod=mod -vet=off -count=1 -run '{m.group(1) if m else 'Test'}' ."
    json.dump(meta, open(os.path.join(dst, "meta.json"), "w"), indent=1)
    v = subprocess.run([sys.executable, os.path.join(VERIF, "tools/seedtest.py"), "verify", dst], capture_output=True, text=True)
    try:
        meta["confirmed"] = json.loads(v.stdout)
    except Exception:
        meta["confirmed"] = {"error": v.stdout[-500:] + v.stderr[-500:]}
    r = subprocess.run([sys.executable, os.path.join(VERIF, "tools/seedtest.py"), "run", dst, pid] + extra, capture_output=True, text=True)
    try:
        meta["checks"] = json.loads(r.stdout)
    except Exception:
        meta["checks"] = {"error": r.stdout[-500:] + r.stderr[-500:]}
    json.dump(meta, open(os.path.join(dst, "meta.json"), "w"), indent=1)
    ok = all(v for v in meta["confirmed"].values() if isinstance(v, bool)) if "error" not in meta["confirmed"] else False
    print(f"{pid}-{k}: confirmed={ok} ", {p: (c.get('violation') or 'NOT DETECTED')[:90] for p, c in meta["checks"].items()} if "error" not in meta["checks"] else meta["checks"])

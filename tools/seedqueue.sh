#!/bin/sh
# sequential importer: touch /tmp/scratch/queue7/Cxx when /tmp/scratch/mutout7-Cxx is complete; touch /tmp/scratch/importer7.stop to end
export GOFLAGS=-mod=mod GOPROXY=off GOSUMDB=off GOTOOLCHAIN=local
cd /verif
# wait for the round-5 importer to finish

while true; do
  f=$(ls /tmp/scratch/queue7 2>/dev/null | head -1)
  if [ -z "$f" ]; then
    [ -e /tmp/scratch/importer7.stop ] && exit 0
    sleep 15; continue
  fi
  rm /tmp/scratch/queue7/$f
  git -C /repo worktree remove --force /tmp/scratch/mut7-$f 2>/dev/null
  timeout 3600 python3 tools/seedimport.py /tmp/scratch/mutout7-$f > /tmp/scratch/done/7-$f.log 2>&1
  echo "== $f" >> /tmp/scratch/done/ALL7.log; tail -4 /tmp/scratch/done/7-$f.log >> /tmp/scratch/done/ALL7.log
done

#!/usr/bin/env python3
"""Evaluates seeded changes (/verif/seeded/<id>/{patch.diff,meta.json,demo_test.go}).

  seedtest.py verify <seed-dir>     confirm the seed in a scratch worktree of /repo: builds, suite passes,
                                    demo fails with the patch and passes without it
  seedtest.py run <seed-dir> [Cxx…] apply the patch to /repo, run the named checks (default: the seed's
                                    property), undo the patch straight afterwards; prints which fired
"""
import json, os, shutil, subprocess, sys, tempfile
REPO = "/repo"
VERIF = os.path.dirname(os.path.dirname(os.path.abspath(__file__)))
ENV = dict(os.environ, GOFLAGS="-mod=mod", GOPROXY="off", GOSUMDB="off", GOTOOLCHAIN="local")

def sh(cmd, cwd=None, timeout=1800):
    p = subprocess.run(cmd, cwd=cwd, env=ENV, shell=isinstance(cmd, str), timeout=timeout,
                       stdout=subprocess.PIPE, stderr=subprocess.STDOUT, text=True, errors="replace")
    return p.returncode, p.stdout

def verify(sd):
    meta = json.load(open(os.path.join(sd, "meta.json")))
    wt = tempfile.mkdtemp(prefix="seedwt-", dir="/tmp/scratch")
    os.rmdir(wt)
    rc, out = sh(["git", "-C", REPO, "worktree", "add", "--detach", wt])
    assert rc == 0, out
    res = {}
    try:
        demo_dst = os.path.join(wt, meta["demo_dir"], "zz_seed_demo_test.go")
        shutil.copyfile(os.path.join(sd, meta.get("demo_file", "demo_test.go")), demo_dst)
        run = meta.get("demo_run", "go test -mod=mod -vet=off -count=1 -run 'TestSeed|TestDemo' .")
        rc0, out0 = sh(run, cwd=os.path.join(wt, meta["demo_dir"]), timeout=600)
        res["demo_without_patch_passes"] = rc0 == 0
        rc, out = sh(["git", "apply", os.path.join(os.path.abspath(sd), "patch.diff")], cwd=wt)
        res["patch_applies"] = rc == 0
        rc, out = sh("go build ./...", cwd=wt)
        res["builds"] = rc == 0
        rc1, out1 = sh(run, cwd=os.path.join(wt, meta["demo_dir"]), timeout=600)
        res["demo_with_patch_fails"] = rc1 != 0
        os.remove(demo_dst)
        rc, out = sh("go test -mod=mod -vet=off -count=1 ./...", cwd=wt, timeout=1800)
        res["suite_passes_with_patch"] = rc == 0
        if rc != 0:
            res["suite_output"] = out[-1500:]
        if rc0 != 0:
            res["demo_out_without"] = out0[-800:]
        if rc1 == 0:
            res["demo_out_with"] = out1[-800:]
    finally:
        sh(["git", "-C", REPO, "worktree", "remove", "--force", wt])
    print(json.dumps(res, indent=1))
    meta["confirmed"] = res
    json.dump(meta, open(os.path.join(sd, "meta.json"), "w"), indent=1)
    return 0 if all(v for k, v in res.items() if isinstance(v, bool)) else 1

def run(sd, props):
    """Runs the checks against a scratch worktree of /repo with the patch applied (VERIF_REPO),
    so that /repo itself is never modified while other work is going on.  With --inplace the
    patch is applied to /repo itself (git apply) and undone straight afterwards."""
    inplace = "--inplace" in props
    props = [p for p in props if p != "--inplace"]
    meta = json.load(open(os.path.join(sd, "meta.json")))
    props = props or [meta["property"]]
    if inplace:
        target = REPO
        rc, out = sh(["git", "-C", REPO, "status", "--porcelain"])
        assert out.strip() == "", "/repo not clean: " + out
    else:
        target = tempfile.mkdtemp(prefix="seedrun-", dir="/tmp/scratch")
        os.rmdir(target)
        rc, out = sh(["git", "-C", REPO, "worktree", "add", "--detach", target])
        assert rc == 0, out
    rc, out = sh(["git", "-C", target, "apply", os.path.join(os.path.abspath(sd), "patch.diff")])
    assert rc == 0, out
    fired = {}
    global ENV
    env0 = ENV
    ENV = dict(ENV, VERIF_REPO=target, VERIF_EVIDENCE_DIR=os.path.join(VERIF, ".work", "seed-evidence"))
    try:
        for p in props:
            rc, out = sh([os.path.join(VERIF, "check"), p, "quick"], cwd=VERIF, timeout=1800)
            v = [l for l in out.splitlines() if l.startswith("VIOLATION")]
            fired[p] = dict(exit=rc, violation=v[0] if v else None,
                            summary=[l[:300] for l in out.splitlines() if "quick:" in l or l.strip().startswith(("broken:", "failing input:"))][:6])
    finally:
        ENV = env0
        if inplace:
            sh(["git", "-C", REPO, "checkout", "--", "."])
            sh(["git", "-C", REPO, "clean", "-fdq"])
        else:
            sh(["git", "-C", REPO, "worktree", "remove", "--force", target])
    print(json.dumps(fired, indent=1))
    return 0

if __name__ == "__main__":
    if sys.argv[1] == "verify":
        sys.exit(verify(sys.argv[2]))
    sys.exit(run(sys.argv[2], sys.argv[3:]))

"""Per-property configuration of the checks.  One file per property in
tools/propcfg/Cxx.py defining CONFIG (Lean modules, streams, oracles, case
counts) and MANIFEST (level text).  This module loads them."""
import glob, importlib.util, os

TRUSTED_COMMON = [
    "Lean 4.33.0 kernel (axioms allowed: propext, Classical.choice, Quot.sound; audited per theorem on every run)",
    "Lean compiler/runtime: the driver is compiled from the same definitions the theorems mention",
    "fact extractor /verif/extract (go/packages + go/ast lookups anchored on function names)",
    "correspondence harness /verif/harness (generators, canonical printers, diff) - testing, bounds how well the model is known to match the code",
    "modelled, not verified: uio.Lexer, net.IP.To4, copy/append, encoding/binary.BigEndian",
]

NOTE_COMMON = ("Trusted: Lean kernel; the extractor; the correspondence harness (testing) as the evidence that the "
               "hand-written model matches the code; uio.Lexer/net/binary modelled not verified. ")

PROPS, MANIFEST_TEXT = {}, {}
_here = os.path.join(os.path.dirname(os.path.abspath(__file__)), "propcfg")
for _p in sorted(glob.glob(os.path.join(_here, "C*.py"))):
    _name = os.path.basename(_p)[:-3]
    _spec = importlib.util.spec_from_file_location("propcfg_" + _name, _p)
    _m = importlib.util.module_from_spec(_spec)
    _m.NOTE_COMMON = NOTE_COMMON
    _spec.loader.exec_module(_m)
    PROPS[_name] = _m.CONFIG
    MANIFEST_TEXT[_name] = _m.MANIFEST

#!/usr/bin/env python3
"""seedrecheck.py [seed-id ...] : re-runs every (or the named) seeded change against its own
property's quick check with the machinery as it is NOW (scratch worktree of /repo, VERIF_REPO) and
records the verdict in seeded/<id>/meta.json under "final":
   {"verdict": "input" | "no-failing-input-found" | "missed" | "patch-does-not-apply", "at": <verif commit>}
Seeds whose patch no longer applies to /repo (a later fix: touched the same lines) keep their old record."""
import json, os, subprocess, sys
VERIF = os.path.dirname(os.path.dirname(os.path.abspath(__file__)))
ids = sys.argv[1:] or sorted(os.listdir(os.path.join(VERIF, "seeded")))
head = subprocess.run(["git", "-C", VERIF, "rev-parse", "--short", "HEAD"], capture_output=True, text=True).stdout.strip()
for sid in ids:
    sd = os.path.join(VERIF, "seeded", sid)
    mp = os.path.join(sd, "meta.json")
    if not os.path.exists(mp):
        continue
    m = json.load(open(mp))
    pid = m["property"]
    chk = subprocess.run(["git", "-C", "/repo", "apply", "--check", os.path.join(sd, "patch.diff")], capture_output=True, text=True)
    if chk.returncode != 0:
        m["final"] = {"verdict": "patch-does-not-apply", "at": head, "why": chk.stderr.strip()[:200]}
    else:
        r = subprocess.run([sys.executable, os.path.join(VERIF, "tools/seedtest.py"), "run", sd, pid], capture_output=True, text=True)
        try:
            res = json.loads(r.stdout)[pid]
            v = res.get("violation")
            verdict = "missed" if not v else ("no-failing-input-found" if "no-failing-input-found" in v else "input")
            m["final"] = {"verdict": verdict, "at": head, "summary": res.get("summary", [])[:2]}
        except Exception as e:
            m["final"] = {"verdict": "error", "at": head, "why": (r.stdout[-300:] + r.stderr[-300:])}
    json.dump(m, open(mp, "w"), indent=1)
    print(sid, m["final"]["verdict"], flush=True)

#!/bin/sh
# usage: tools/seedbatch.sh "<mutout-dir> [extra checks]" ...   (sequential imports)
cd "$(dirname "$0")/.."
for spec in "$@"; do
  set -- $spec
  d=$1; shift
  python3 tools/seedimport.py "$d" "$@"
done

#!/bin/sh
# Statement coverage of insomniacslk/dhcp achieved by the correspondence streams and
# oracles (generator quality report; not part of any check's verdict).
# usage: tools/coverage.sh [n-per-stream]   -> prints `go tool covdata percent`
set -e
cd "$(dirname "$0")/.."
export GOFLAGS=-mod=mod GOPROXY=off GOSUMDB=off GOTOOLCHAIN=local VERIF_ROOT=$PWD
N=${1:-3000}
OUT=$PWD/.work/cov-$$
mkdir -p "$OUT"
P=github.com/insomniacslk/dhcp
(cd harness && go1.26.8 build -cover -coverpkg=verif/harness/cmd/harness,$P/dhcpv4,$P/dhcpv6,$P/rfc1035label,$P/iana,$P/dhcpv4/nclient4,$P/dhcpv6/nclient6,$P/dhcpv4/server4,$P/dhcpv6/server6,$P/netboot,$P/dhcpv4/ztpv4,$P/dhcpv6/ztpv6 -o ../.work/bin/harness-cover ./cmd/harness)
for s in $(.work/bin/harness-cover list | grep -v '^cost$'); do
  GOCOVERDIR=$OUT timeout 600 .work/bin/harness-cover run -stream "$s" -n "$N" -seed 3 -driver lean/.lake/build/bin/dhcp-driver -out /dev/null >/dev/null 2>&1 || true
done
for o in c01 c02 c03 c04 c05 c06 c07 c08 c11 c12 c13 c14 c15 c16 c17 c18 c19 c20; do
  GOCOVERDIR=$OUT timeout 600 .work/bin/harness-cover oracle -name "$o" -n "$N" -out /dev/null >/dev/null 2>&1 || true
done
go1.26.8 tool covdata percent -i="$OUT" | grep -v verif/harness
# per-function listing (functions below 100 %) in .work/cover-func.txt
go1.26.8 tool covdata textfmt -i="$OUT" -o=.work/cover.txt
(cd harness && go1.26.8 tool cover -func=../.work/cover.txt | grep -v 'verif/harness' | grep -v '100.0%' > ../.work/cover-func.txt) || true
rm -r "$OUT"

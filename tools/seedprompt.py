import json,glob,os,sys
# usage: seedprompt.py Cxx > prompt.txt   - the text handed to a fresh sub-agent asked for seeded breaking changes (round number: edit mut7-/mutout7-)
pid=sys.argv[1]
props={json.loads(l)['id']:json.loads(l) for l in open('/verif/properties.jsonl')}
p=props[pid]
prev=[]
for d in sorted(glob.glob(f'/verif/seeded/{pid}-*/meta.json')):
    m=json.load(open(d)); prev.append('- '+m['summary'][:150].replace('\n',' '))
wt=f'/tmp/scratch/mut7-{pid}'; out=f'/tmp/scratch/mutout7-{pid}'
print(f"""You are helping to test a verification effort by producing realistic, subtle BREAKING CHANGES ("seeded defects") to a Go library. Work ONLY inside your private git worktree {wt} (a checkout of the library github.com/insomniacslk/dhcp: DHCPv4/DHCPv6 packet codec, nclient4/nclient6 clients, server4/server6). Never touch /repo or /verif and never read anything under /verif. Write your results under {out}/ .

Environment: sealed sandbox, no network. In every shell call first run:
  export GOFLAGS=-mod=mod GOPROXY=off GOSUMDB=off GOTOOLCHAIN=local
Default `go` is 1.23; `go1.26.8` is also on PATH (needed only if you want testing/synctest). Always wrap go commands in `timeout 600`. The library's test suite is: `go test -mod=mod -vet=off -count=1 ./...` (run from the worktree root; takes 1-2 minutes).

THE PROPERTY the library is supposed to satisfy (id {pid}: {p['title']}):
  Statement: {p['statement']}
  Quantified over: {p['quantifier']['text']}

YOUR TASK: produce TWO independent changes (k = 1 and k = 2) to the library's non-test source code, each of which
  (a) still compiles (`go build ./...`) and keeps the ENTIRE existing test suite passing, unedited;
  (b) breaks the property above — i.e. there is a concrete input / history / schedule for which the statement is false of the changed code but true of the unchanged code;
  (c) looks like something a maintainer could plausibly commit (an optimisation, refactoring, 'simplification', a helper re-used, a boundary check moved, tolerance added, a cache, buffer reuse, lock narrowing, error handling reshuffled ...), NOT an obviously malicious or random edit;
  (d) is as HARD TO DETECT as you can make it while remaining a plausible commit, and needs something SPECIFIC to manifest: a particular interleaving, a fault at a particular point, a multi-step sequence of operations on one object, an unusual boundary input, or two cooperating sites that each look fine alone. It must NOT be exposed at once by ordinary use (a single round trip of an ordinary packet must still behave correctly). Think about what a thorough randomized differential tester with boundary-value generators would still miss: a coincidence of two or three specific field values, a value that is special only to the new code, state that survives from one call into a later one, an effect visible only on the second or third use of an object, a rare but legal wire form, behaviour under a particular timing.
Prefer source files, functions and mechanisms that none of the earlier ideas listed below touched (less-visited option types, helper packages, constructors and modifiers, error paths, configuration options of the clients and servers). The two changes must differ in kind from each other and from these ideas that were ALREADY used in earlier rounds (do not repeat them; prefer code locations and mechanisms not in this list):
{chr(10).join(prev)}

For each change k produce a directory {out}/<k>/ containing:
  patch.diff      — `git diff` of the worktree (source change only, no test files), applicable with `git apply` to a clean checkout
  demo_test.go    — a Go test file (package of the directory it is to be dropped into; a `_test` file using only the package's exported or unexported API as appropriate) with ONE test function whose name starts with TestSeedDemo, which FAILS with the change and PASSES without it. It must be deterministic (or fail in the vast majority of runs with the change and never without), finish in under 60 s, and use no network beyond loopback/in-memory conns.
  meta.json       — {{"property": "{pid}", "summary": "<what was changed, where, and the cover story>", "needs": "<exactly what is required for the breakage to manifest>", "demo_dir": "<directory relative to the repo root into which demo_test.go is to be copied, e.g. dhcpv4>", "demo_cmd": "<the exact go test command you ran for the demo>", "verified": "<what you ran and observed>"}}

Procedure for each k: make the edit; `go build ./...`; run the full suite (must be all ok); copy the demo into place and run it (must FAIL); save `git diff -- . ':(exclude)*_test.go'` (with the demo file removed or untracked-excluded) as patch.diff; then `git checkout -- . && git clean -fdq`, copy the demo in again and run it on the clean tree (must PASS); remove the demo; go on to the next k from a clean tree. If an idea turns out to break an existing test, drop or adjust it — never edit existing tests. Leave the worktree clean (git status empty) when done.

Report briefly at the end: for each k, one paragraph on the change, what it needs to manifest, and the observed demo results with and without the patch.""")

#!/bin/sh
# usage: tools/seedharness.sh <seed-id>   -> builds .work/bin/harness-<seed-id> against a scratch worktree of /repo with the seed applied
# (for interactive oracle/stream experiments; the worktree is removed again)
set -e
cd "$(dirname "$0")/.."
export GOFLAGS=-mod=mod GOPROXY=off GOSUMDB=off GOTOOLCHAIN=local CGO_ENABLED=0
wt=/tmp/scratch/sh-$1-$$
mkdir -p /tmp/scratch
git -C /repo worktree add --detach "$wt" >/dev/null 2>&1
git -C "$wt" apply "$PWD/seeded/$1/patch.diff"
sed "s|=> /repo|=> $wt|" harness/go.mod > .work/harness-$1.go.mod
cp "$wt/go.sum" .work/harness-$1.go.sum
(cd harness && go1.26.8 build -tags verif -modfile ../.work/harness-$1.go.mod -o ../.work/bin/harness-$1 ./cmd/harness)
git -C /repo worktree remove --force "$wt"
rm -f .work/harness-$1.go.mod .work/harness-$1.go.sum
echo .work/bin/harness-$1

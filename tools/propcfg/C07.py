CONFIG = dict(
    props=["DhcpProofs.Props.C07"],
    facts=["DhcpProofs.Facts.V4Codec"],
    streams=[("v4enc", 8000, 240000)],
    oracles=[("c07", 6000, 180000)],
    full_statement_proved=False,
    missing="PARTIAL: the layout, ordering, 255-byte and RFC-decodability clauses are theorems for every packet of the domain; order independence is extensionality in the model (the option map has no order there); that the Go code does not depend on map iteration order is carried by the v4enc stream and oracle c07 (repeated encodings, permuted insertion orders through map writes and through UpdateOption/DeleteOption, fresh maps, value slices shared between packets) - i.e. by testing; the exported With* modifiers as a way of building the option set are C15's subject (modifier lists fold to option-map edits: C15_modifiers_last) and are not re-modelled here",
    rule="v4enc: generated packets encoded by (*DHCPv4).ToBytes three times (Go randomises map iteration per range) and by the Lean model; bytes compared. oracle c07: a wire-format validator sharing no code with the library (>=300 bytes, cookie, ascending codes with 82 last, one End, zero padding), an independent RFC decoder recovering the packet, and re-encodings of the same contents inserted in permuted orders with cancelling updates/deletions. non-trivial = at least one option (stream) / two options (oracle); distinct = distinct packets",
    assumptions=["Go nil and empty option values are identified in the model"],
)

MANIFEST = dict(
    text="Machine-checked theorems (Lean 4) over the model of ToBytes/Options.Marshal, for every packet of the encodable domain and any number/size of options: output >= 300 bytes (C07_len_ge_300, any packet), layout header+cookie+area+one End+zero padding (C07_layout), the area is a well-formed TLV run whose instances are explicit, carry <= 255 bytes, never use codes 0/255 and have ascending codes with option 82 last (C07_area), the independent RFC grammar Spec.Parses4 recovers the packet (C07_parses), and histories of updates/deletions with equal final contents encode identically (C07_order_independent). Tied to the code by regenerated constants (255, 300, 82, 255, 0) and the v4enc differential stream; oracle c07 validates the real bytes with an independent validator and permuted insertion orders.",
    design_ref="DESIGN.md section 6 C07",
    note=NOTE_COMMON + "Map-iteration independence of the Go code is observed by testing, not proved.",
    technique="Lean 4 proof (structural induction on the marshalled code list; Pairwise order lemmas) + model/code correspondence check",
)

# stream/oracle entries: (name, quick_n, thorough_n)
CONFIG = dict(
    props=["DhcpProofs.Props.C14"],
    facts=["DhcpProofs.Facts.Server"],
    streams=[("server4", 700, 3000), ("server6", 1200, 10000)],
    oracles=[("c14", 1500, 20000)],
    # thorough tier only: the oracle again in a `go build -race` binary; a race report is a failure of class data-race
    race_oracles=[("c14", 3000)],
    full_statement_proved=False,
    missing=("Proved for the model, any history length: exactly-once dispatch in read order, never for an undecodable datagram, "
             "message = the decoding of its own datagram's first 4096 bytes, a malformed datagram/empty read does not end the loop, "
             "Serve returns iff a read fails (Close = failing read) and nothing after it is processed, the DHCPv4 peer rule, the DHCPv6 "
             "sender passed unchanged, each invocation a function of its own datagram alone - for DHCPv4 with the FromBytes model dec4 and "
             "for DHCPv6 with the FromBytes model dec6 (and for every other decoder). Histories compared (both servers, common parts of "
             "the histories arbitrary - no SocketPeers hypothesis on them): C14_noninterference4/6/6_dec6 - two histories that differ in "
             "the read at position i only: (i) the invocations with a smaller index are those of the common prefix whatever the two "
             "variants are (a datagram turned into a read error or vice versa included), (ii) when both variants are datagrams (v4: from "
             "socket senders) every invocation other than invocation i, and the exit, are the same, (iii) two datagrams with the same "
             "first 4096 bytes and sender give the same outcome altogether; C14_prefix4/6/6_dec6 - the invocations of a prefix of the "
             "history are a prefix of the invocations of the history, more reads add invocations for the new positions only, and "
             "nothing is added once Serve has ended. These are statements about the VALUES the model hands to handlers. Still NOT "
             "theorems: independence at the memory level (a decoded message sharing no bytes with the read buffer or with another "
             "message: C08's ownership tables cover the decoders, not the loops' per-iteration rbuf/peer allocation) and the scheduling "
             "of concurrently running handlers are outside the sequential fold model: they are checked on the real code by handlers "
             "that block until later reads and re-render their message, a scribbling scripted connection and (thorough) the Go race "
             "detector."),
    rule=("server4/server6: generated histories of 0..40 reads (0..200 thorough; every history of length <= 4 over a 6-letter alphabet "
          "in thorough) mixing valid messages of every type (v6: 0..3 relay levels), malformed, empty and >4096-byte datagrams, senders "
          "with nil / 0.0.0.0 / IPv4 / IPv4-mapped / IPv6 addresses, non-UDP and nil sender addresses, read errors and Close at any "
          "position; run through the real Serve loop over a scripted PacketConn with handlers blocking for 0/1/2/5/all later reads, and "
          "through the compiled Lean fold (message content printed by both sides: dec4 / dec6 output vs the handler's message). oracle c14: the same histories (senders inside the property's domain) checked clause by clause "
          "against dhcpv4/dhcpv6.FromBytes. non-trivial = at least one handler invocation (streams) / at least one non-empty datagram "
          "(oracle); distinct = distinct operation lines"),
    assumptions=["sender addresses come from a socket: never an interface holding a nil *net.UDPAddr (server4 dereferences it; stated as C14_panic4_nilptr)",
                 "server4 dispatches UDP senders only (a non-UDP net.Addr is logged and skipped); the oracle keeps server4 senders UDP",
                 "the handler invocation order in the model is the order of the go statements; goroutine scheduling is not modelled"],
)

MANIFEST = dict(
    text="Machine-checked theorems (Lean 4, no axioms beyond propext/Quot.sound) about an executable fold model of both Serve loops, for read histories of any length: the handler invocations are exactly, in order, the decodings of the datagrams read before the first failed read (one per decodable datagram, none for an undecodable one), a datagram that does not decode changes neither the other invocations nor the exit, Serve returns iff a read fails and ignores everything after it, a DHCPv4 sender that is nil or 0.0.0.0 becomes 255.255.255.255 with its port and any other UDP sender is passed unchanged, and the invocation for position i is one fixed function of datagram i alone; non-interference over pairs of histories (changing the read at position i changes at most invocation i, nothing before i even when a datagram becomes a read error or vice versa, and nothing at all when the first 4096 bytes and the sender stay the same) and monotonicity (the invocations of a prefix of the history are a prefix of the invocations of the history: what a handler has been handed never changes when more datagrams arrive). DHCPv4 is instantiated with the dhcpv4.FromBytes model and DHCPv6 with the dhcpv6.FromBytes model (the DHCPv6 theorems also hold for every decoder); the DHCPv6 loop is proved never to panic. The model is tied to the code on every run by regenerated facts (4096-byte buffer, return/continue shape of the loop, single `go handler` call site, rewrite condition and constants) and by running the real servers over a scripted connection against the compiled model; an implementation-only oracle checks every clause against dhcpv4/dhcpv6.FromBytes, with handlers that outlive later reads, and under the race detector in the thorough tier.",
    design_ref="DESIGN.md section 6 C14",
    note=NOTE_COMMON + "Value-level non-interference and monotonicity are proved (C14_noninterference*, C14_prefix*); memory-level independence is checked on the implementation (blocking handlers, race detector), not proved; goroutine scheduling not modelled.",
    technique="Lean 4 proof by induction over the read history of a fold model + model/code correspondence over a scripted PacketConn + implementation oracle (+ race detector)",
)

# stream/oracle entries: (name, quick_n, thorough_n)
CONFIG = dict(
    props=["DhcpProofs.Props.C13"],
    facts=["DhcpProofs.Facts.Lease", "DhcpProofs.Facts.V4Build"],
    streams=[("lease4", 8000, 270000), ("lease6", 6000, 180000)],
    oracles=[("c13", 12000, 360000), ("c10m", 200, 200), ("c10", 600, 6000)],
    oracle_class_filter={"c10": ["waiting-datagram-lost", "acceptable-datagram-missed"]},
    full_statement_proved=False,
    missing=("The exchange theorems are stated over an ABSTRACT call sendAndRead stream match = first element of the "
             "routed stream the matcher accepts (none = no-response error). That this call IS the timed SendAndRead machine "
             "of C11/C12 (Dhcp.Client.Timed.runObs) run on that stream is now a THEOREM, no longer only re-checked by the "
             "lease4/lease6 streams: C13_call_refines_timed (T>0, every retry count n>=1, n=0, n<0, every matcher, every "
             "routed stream with arrival instants in time order and strictly before the budget T(2^n-1), ANY quiescence "
             "flags: the machine returns find? of the stream at that packet's arrival instant, everything before it "
             "rejected; none => no-response error at the budget after exactly n transmissions, n<0 => still running), "
             "C13_call_timed (nclient4 and nclient6 matchers, nil matcher included), C13_call_transmissions (C12_stop composed "
             "in), C13_call_cancelled (context end / Close at c: find? on what arrived before c, else ctx error / no-response "
             "at c), C13_call_late_ignored (arrivals at or after the budget never reach the caller), "
             "C13_call_unseen_ignored (any number of irr observations interleaved change nothing), C13_exchanges_timed "
             "(discoverOffer, requestFromOffer, request, renew, inform, call6 run on the timed machine equal the abstract "
             "ones, so every C13 theorem holds of them), C13_request_timed (DORA: lease = first OFFER + first completing "
             "ACK/NAK before the budgets, with the return instants), and for the script-level model runCall (the function "
             "the client4/client6 streams compare with the real clients) C13_call_script: the script of the routed stream "
             "allows exactly one result, the refined one, when every datagram is applied at quiescence or none arrives "
             "exactly on a retransmission deadline. NOT covered, stated exactly: (a) the reading 'runCall returns find? for "
             "EVERY script' is FALSE of the model (C13_call_script_full, proved C13_call_script_counterexample): a datagram "
             "racing with a per-try deadline may be lost to the registration being torn down; proved instead "
             "C13_call_script_racing, for ANY sync flags and every member of runCall: a response is a packet of the stream "
             "the matcher accepts, at its arrival instant, and every accepted packet before it arrived exactly on a "
             "retransmission deadline T(2^(k+1)-1) (= find? of the stream with some deadline-coincident packets deleted); a "
             "non-response means every accepted packet arrived on a deadline or at/after the budget; (b) an accepted packet "
             "arriving exactly AT the budget instant and racing with the last deadline (InBudget is strict; either outcome); "
             "(c) the interleaving model of C10 has no clock and is tied per try only: C13_call_is_find (C10_first restated "
             "with List.find?) says a returned packet is find? of the list routed to the registration of the try that "
             "returned; that the per-try routed lists, concatenated with the instants at which the caller receives them, are "
             "the arrival list of the timed theorems (a simulation between the LTS and the timed machine), and that the real "
             "client is either model, still rest on the client4/client6 and lease4/lease6 streams. "
             "Readings of the property text that are FALSE of the code are kept visible as *_full with proved "
             "*_counterexample: (1) C13_completes_bearing_full (LISTED KNOWN FINDING completion-without-server-id, "
             "known_findings.txt; oracle c13 flags it) - an offer without a four-byte option 54 makes "
             "IsCorrectServer(nil) accept exactly the ACK/NAKs without one (and ignore those that name their server); "
             "proved instead: C13_completes_wellformed_partial (offer's option 54 four bytes => the completing packet "
             "carries the same four bytes) and C13_offer_without_server_id; (2) C13_request_offered_address_full - "
             "Request applies the caller's modifiers to BOTH messages, so WithOption(OptRequestedIPAddress(x)) meant for "
             "the DISCOVER overwrites option 50 of the REQUEST; (3) C13_renew_ack_server_full - Renew keys on "
             "lease.Offer's server identifier, never the ACK's; (4) C13_release_dest_full - Release sends to the raw, "
             "unvalidated option 54 of the ACK (nil address when absent); (5) C13_v6_rapid_commit_full - "
             "RapidSolicit returns a REPLY whether or not it carries the rapid-commit option (the property says a "
             "rapid-commit REPLY is accepted directly; it does not say other REPLYs are refused). Readings (2)-(5) are "
             "outside what the property quantifies over (caller modifiers that overwrite the exchange's own options, "
             "hand-built leases, malformed identifiers in the ACK of a completed lease) and are recorded, not flagged. "
             "nclient6.Request used to accept the first message of ANY type carrying its transaction id: repaired in "
             "/repo (fix: 80184de), now the theorem C13_v6_reply_type. 'Unicast' for renewal is the "
             "cleared broadcast bit only: the datagram goes to the client's configured server address (broadcast by "
             "default). A nil lease.Offer / lease.ACK (nil-pointer panic in Renew) is outside the model."),
    rule=("lease4/lease6: (a fifth of the lease ACKs that renewals and releases are built from echo an address in ciaddr, with yiaddr set or 0.0.0.0) the real nclient4 (DiscoverOffer, Request, RequestFromOffer, Renew, Release, Inform) and nclient6 "
          "(Solicit, RapidSolicit, Request) clients on the scripted in-memory PacketConn inside a testing/synctest bubble "
          "against REACTIVE scripted servers: 0..3 servers, each answering any of the client's transmissions (retransmissions "
          "included) with OFFER/ACK/NAK (ADVERTISE/REPLY) or wrong-type, wrong-xid, wrong-hwaddr, BOOTREQUEST, truncated, "
          "garbage, empty, duplicated or delayed (virtual time: 0 ms .. 2T+3 ms) datagrams, server identifiers as four "
          "bytes / missing / 16-byte / 5-byte / 3-byte / empty, 0..2 user modifiers (all 24 With* kinds, biased to xid, "
          "ciaddr, option 50/54/53, broadcast, chaddr), timeouts 200 ms/1 s, 0..3 tries; the harness decodes every "
          "datagram the client writes and prints destination + canonical packet beside the returned lease/error; the "
          "compiled Lean driver interprets the same script (schedule, routing filter) and asks the model "
          "Dhcp.Client.Lease for the result; transaction ids drawn at random are XOR-masked. thorough adds the "
          "exhaustive small scope: offer identifier form x reply type x reply identifier form x own/other server x "
          "ok/wrong xid/wrong hw (3024 lines) and 192 v6 lines. oracle c13: the clauses re-derived from the wire by "
          "independent Go code (raw option 53/54 bytes, own routing filter; no model, no client matcher): REQUEST fields, "
          "completion only on the first ACK/NAK bearing the offer's identifier, lease = that offer + that ACK, NAK error, "
          "everything else ignored, renew fields and completion, release datagram and destination, v6 SOLICIT/ADVERTISE "
          "and REQUEST/answer pairing, REQUEST contents, rapid-commit path. non-trivial = the script has at least one "
          "reaction; distinct = distinct operation lines"),
    assumptions=[
        "virtual time (testing/synctest): every scripted datagram arrives at its own instant (offsets 2^i ns), never on a retransmission deadline, and is processed to quiescence before the next (exactly the hypotheses under which C13_call_script proves that the script-level timed model allows one result, the abstract call's; what a coincidence with a deadline can change is C13_call_script_racing)",
        "Go nil and empty non-nil option values are identified in the model (neither MessageType() nor ServerIdentifier() distinguishes them)",
        "the transaction ids drawn by dhcpv4.New / dhcpv6.NewMessage and GetTime() are parameters of the model",
        "the oracle checks field clauses only on calls without user modifiers (completion clauses on all)",
        "scripted servers are static: they echo the xid/chaddr of the datagram they answer but do not otherwise read it",
        "DHCPv6 modifier lists that pair a modifier inserting an identity-association OBJECT (WithOption(IA_NA/IA_TA/IA_PD)) with one that extends the message's first such option in place (WithIANA/WithIATA/WithIAPD) are not generated for the exchanges: RapidSolicit applies one list to two messages, which then share and grow that object - modifier values with state, outside the value model and outside what C13's clauses are stated for (lists that do not write these options); C16's v6mods op exercises those modifiers on single messages",
    ],
)

MANIFEST = dict(
    text=("Machine-checked theorems (Lean 4, axioms propext/Classical.choice/Quot.sound at most) about an executable model of "
          "the lease exchanges of nclient4 and nclient6 (matchers IsMessageType / IsCorrectServer with net.IP.Equal "
          "semantics / IsAll exactly as coded, DiscoverOffer, RequestFromOffer, Request, Renew, Release, Inform, Solicit, "
          "RapidSolicit, Request) composed from the C15/C16 builder models and an abstract call = first element of the "
          "routed response stream the matcher accepts; that abstract call is PROVED to be the timed SendAndRead machine of "
          "C11/C12 run on the routed stream with its arrival instants (refinement C13_call_refines_timed: returned packet = "
          "find? of the stream at its arrival instant, no-response error at the budget T(2^n-1) otherwise, for every T>0, "
          "every retry count, any coincidence flags; cancelled/closed, late and unseen-traffic variants; the exchanges run "
          "on the timed machine equal the abstract ones, C13_exchanges_timed / C13_request_timed; the script-level model "
          "allows exactly that one result on quiescent scripts, and under races returns find? of the stream minus some "
          "deadline-coincident packets, C13_call_script / C13_call_script_racing; in the interleaving model a returned packet "
          "is find? of what was routed to the returning try, C13_call_is_find). For EVERY response stream (any length, order, multiplicity, any "
          "packets), every offer/lease/advertise and every user modifier list: the REQUEST carries the offer's hardware "
          "address, the offered address as option 50, the offer's option 54 verbatim, the offer's transaction id, type "
          "REQUEST and maximum message size 1500 (via the C15 theorems); RequestFromOffer yields a lease or a NAK error "
          "only if some packet of the stream has type ACK/NAK and a server identifier Equal to the offer's, the packet "
          "returned is the first such and every packet before it fails the test; ACK => lease of that offer and that "
          "ACK, NAK => NAK error with that offer and NAK, none => no-response error (iff); Renew: ciaddr = leased "
          "address, broadcast bit clear, no option 50/54, same completion rule with the OFFER's identifier; Release: "
          "exactly one RELEASE for the leased address to (option 54 of the ACK, 67); v6: the REQUEST carries the "
          "advertise's first client id, server id, first IA_NA, first IA_PD and its own transaction id, the answer is "
          "the first REPLY routed to the call (C13_v6_reply_type; /repo fix 80184de); RapidSolicit returns a REPLY directly and turns an ADVERTISE into a "
          "REQUEST. Five stronger readings of the property text are false of the code and proved so "
          "(*_counterexample); the one inside the property's domain - an OFFER without a four-byte server identifier "
          "is completed by identifier-less ACK/NAKs - is a listed known finding (completion-without-server-id). The model is tied to the code on every run by regenerated facts (source text of every "
          "builder call, matcher, answer test and result construction of the nine exchange functions, ServerPort, "
          "MaxMessageSize, message-type constants) re-checked by Lean, and by running the real clients under "
          "testing/synctest against reactive scripted servers and comparing every transmitted datagram and the "
          "result with the compiled model; an implementation-level oracle re-derives each clause from the wire."),
    design_ref="DESIGN.md section 6 C13",
    note=NOTE_COMMON + ("The abstract call (first accepted element of the routed stream) is proved to be the timed call machine of "
                        "C11/C12 on quiescent or coincidence-free arrivals (refinement theorems C13_call_*); under a race with a "
                        "per-try deadline the script-level model may skip deadline-coincident packets (C13_call_script_racing, "
                        "C13_call_script_counterexample); the link between the interleaving model and the timed one is per try "
                        "(C13_call_is_find) and otherwise by the correspondence streams; "
                        "five readings of the property text are proved counterexamples (offer without server identifier - a listed "
                        "known finding -, shared modifiers in Request, Renew keyed on the offer, Release destination unvalidated, "
                        "REPLY without rapid commit)."),
    technique="Lean 4 proof (list find? characterisation over an abstract call, refinement of that call by the timed call machine of C11/C12, C15/C16 builder theorems) + regenerated source-text facts + model/code correspondence under virtual time with reactive scripted servers + clause oracle",
)

CONFIG = dict(
    props=["DhcpProofs.Props.C06"],
    facts=["DhcpProofs.Facts.V4Codec"],
    streams=[("v4fix", 8000, 60000), ("v4dec", 3000, 20000)],
    oracles=[("c06", 8000, 60000)],
    full_statement_proved=False,
    missing="DHCPv6 half: theorem pending the DHCPv6 model (the oracle covers DHCPv6 as soon as its generators exist)",
    rule="v4fix: accepted-but-non-canonical inputs (unsorted, split, padded, repeated codes, names filling their fields, hlen > 16) and every malformed class, taken through FromBytes -> ToBytes -> FromBytes -> ToBytes in Go and in the model, both byte strings compared. oracle c06: b1 decodes, b2 == b1, and the independent RFC reading of b1 equals that of b up to the name-capacity cut. non-trivial = accepted input; distinct = distinct inputs",
    assumptions=["Go nil and empty option values are identified in the model"],
)

MANIFEST = dict(
    text="Machine-checked theorem (Lean 4) for DHCPv4: for every byte string the model decoder accepts, encoding the result gives bytes that decode to the same packet (up to the listed name-capacity cut) and encode again to the same bytes (C06_v4_fixpoint), exactly so when the names have a NUL on the wire (C06_v4_exact), and the RFC reading is unchanged (C06_v4_meaning). All inputs, canonical or not. DHCPv6 half: see missing_part in the evidence. Tie: v4fix differential stream (both byte strings of the chain compared with the model), oracle c06 on the real code.",
    design_ref="DESIGN.md section 6 C06",
    note=NOTE_COMMON,
    technique="Lean 4 proof (decoded packets are encodable + C01 round trip + C04 soundness) + model/code correspondence check",
)

CONFIG = dict(
    props=["DhcpProofs.Props.C06"],
    facts=["DhcpProofs.Facts.V4Codec"],
    streams=[("v4fix", 8000, 300000), ("v6fix", 8000, 300000), ("v4dec", 3000, 100000)],
    oracles=[("c06", 8000, 300000)],
    full_statement_proved=False,
    missing="DHCPv4: proved in full. DHCPv6: the unconditional statement is FALSE of model and code (C06_v6_counterexample: an embedded DHCPv4 message whose 64-byte sname has no NUL is cut on re-encoding - a listed normalisation; C06_v6_length_needed: an option value that grows past 65535 octets on re-encoding wraps its length field - known finding v6-fixpoint-length-overflow). Proved: the fixpoint up to the name-capacity cut for every accepted input whose options containing an embedded DHCPv4 message still fit 16 bits after re-encoding (C06_v6_normalised), exactly when the embedded names have a NUL (C06_v6_fixpoint), and unconditionally for messages without option 87 (C06_v6_no_dhcpv4)",
    rule="v4fix: accepted-but-non-canonical inputs (unsorted, split, padded, repeated codes, names filling their fields, hlen > 16) and every malformed class, taken through FromBytes -> ToBytes -> FromBytes -> ToBytes in Go and in the model, both byte strings compared. oracle c06: b1 decodes, b2 == b1, and the independent RFC reading of b1 equals that of b up to the name-capacity cut. non-trivial = accepted input; distinct = distinct inputs",
    assumptions=["Go nil and empty option values are identified in the model"],
)

MANIFEST = dict(
    text="Machine-checked theorems (Lean 4). DHCPv4: for every byte string the model decoder accepts, encoding the result gives bytes that decode to the same packet (up to the listed name-capacity cut) and encode again to the same bytes (C06_v4_fixpoint, C06_v4_exact, C06_v4_meaning). DHCPv6: every decoded value is in the round-trip domain (C06_v6_decoded_wf, by induction over the framing-grammar derivation with an inversion lemma per option type), hence decode-encode-decode is a fixpoint and the second encoding reproduces the first (C06_v6_fixpoint, C06_v6_fixpoint_bytes, C06_v6_normalised with the cut of embedded DHCPv4 names as the only value normalisation, C06_v6_no_dhcpv4 unconditional), and both byte strings have the same reading under the declarative grammars (C06_v4_meaning, C06_v6_meaning). The two hypotheses are shown necessary by counterexamples proved in Lean and replayed on the real code (one is a listed normalisation, the other a known finding). Tie: v4fix/v6fix differential streams (both byte strings of the chain compared with the model), oracle c06 on the real code.",
    design_ref="DESIGN.md section 6 C06",
    note=NOTE_COMMON,
    technique="Lean 4 proof (decoded values lie in the round-trip domain: inversion lemmas per option + C01/C02 round trips + grammar soundness) + model/code correspondence check",
)

# stream/oracle entries: (name, quick_n, thorough_n)
CONFIG = dict(
    props=["DhcpProofs.Props.C19"],
    facts=["DhcpProofs.Facts.Label"],
    streams=[("label", 30000, 300000)],
    oracles=[("c19", 30000, 300000)],
    full_statement_proved=True,
    missing="",
    rule="label: op lines labdec/labre/labedit/labenc run against rfc1035label.FromBytes / (*Labels).ToBytes / edits of the Labels field and against the compiled Lean model: lists of 0..8 valid names of 1..8 labels of 1..63 bytes, compressed buffers with pointers (backward, forward, to itself, nested, mid-label, first offset out of range, far out of range), trailing partial names, reserved length octets, names around the 253-byte limit (plain and through a pointer), truncations, single-byte perturbations, random strings up to 512 bytes, encoder inputs outside the valid domain (empty labels, labels > 63 and around the byte(len) truncation at 256); thorough adds every byte string over {00,01,02,3f,40,c0,c1,'a','.'} up to length 7 (5.4 million) plus every (buffer up to length 3, edit) pair from a fixed edit list. oracle c19: an independently written Go decoder of RFC 1035 3.1/4.1.4 (one pointer level) and RFC 4704 4.2 compared with FromBytes on verdict and names; byte-exact re-emission of unmodified sets (also after the caller's buffer is overwritten); edited sets encode the new names; encode->decode round trip and RFC wire form on valid name lists; every string over the alphabet up to length 4 (quick) / 7 (thorough). non-trivial = decodes to at least one non-root name (stream) / parsed with at least one name (oracle); distinct = distinct operation lines",
    assumptions=["names are Go strings compared byte for byte; a wire label containing the byte 0x2e is rendered, as the library does, indistinguishably from two labels",
                 "nil-ness of the slice returned by ToBytes is not observed (nil and empty both print as '-')"],
)

MANIFEST = dict(
    text="Machine-checked theorems (Lean 4, axioms propext/Classical.choice/Quot.sound only) about an executable model of rfc1035label: for ALL byte strings the model of labelsFromBytes returns ok ns exactly when the independent declarative spec DecodesTo (RFC 1035 3.1 names, 4.1.4 single-level compression pointers to any offset inside the buffer, RFC 4704 trailing partial name, labels <= 63, dotted names <= 253) relates the buffer to ns, and err otherwise (C19_sound, C19_complete, C19_fails_iff); it never panics and its loop terminates within a stated fuel (C19_no_panic, C19_terminates); for every list of valid names (any number of names and labels, root name included) decode(encode ns) = ns (C19_roundtrip) and the encoding is the RFC wire form (C19_encode_spec); a set parsed from bytes re-encodes to exactly those bytes (C19_unmodified) and, once its names differ from the parsed ones, to the fresh encoding of the new names (C19_modified). The model is tied to the code on every run by regenerated constants (253-byte limit, 0xc0 masks, offset mask/shift) re-checked by Lean, and by differential runs of FromBytes/ToBytes/edits against the compiled model on generated, malformed, boundary and (thorough) exhaustively enumerated small inputs; an implementation-level oracle with its own RFC decoder searches for a concrete failing input.",
    design_ref="DESIGN.md section 6 C19",
    note=NOTE_COMMON + "Dotted-string representation of names as in the library (no escaping of 0x2e inside wire labels).",
    technique="Lean 4 proofs (induction on the spec derivation for completeness, on the remaining length with maximal label runs for soundness, a lexicographic fuel measure for termination) + model/code correspondence check + independent reference decoder",
)

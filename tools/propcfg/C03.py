CONFIG = dict(
    props=["DhcpProofs.Props.C03"],
    facts=["DhcpProofs.Facts.C03Observe"],
    streams=[("v4dec", 4000, 30000), ("v6dec", 6000, 40000), ("c03x", 12000, 120000), ("lexer", 3000, 60000), ("v6acc", 6000, 100000)],
    oracles=[("c03", 40000, 1200000)],
    full_statement_proved=False,
    missing=("Proved for the model: no panic in dhcpv4.FromBytes, dhcpv4.Options.FromBytes, dhcpv6.FromBytes/MessageFromBytes/"
             "RelayMessageFromBytes/ParseOption/Options.FromBytes/DUIDFromBytes (every option type, any nesting), label decoding "
             "and label re-encoding (restated from C19), the raw-frame reader (restated from C18), GetInnerMessage and the DHCPv6 "
             "relay-reply/request/advertise/reply builders on decoded messages (restated from C16), re-encoding of decoded DHCPv4 "
             "packets; termination by structural recursion on fuel with fuel sufficiency proved (DHCPv4 option loop, DHCPv6 "
             "nesting and flat loops, label loop). Read-only use of decoded values, proved for the model: DecapsulateRelay and "
             "DecapsulateRelayIndex (every message value, every index, with the level returned characterised on chains and "
             "broken chains), GetMacAddressFromEUI64 (panics exactly on 4-byte addresses, never on a decoded address field), "
             "ExtractMAC, netboot.GetNetConfFromPacketv6 and ConversationToNetconf (every list of decoded messages, any length), "
             "ztpv6.ParseVendorData on decoded messages, GetNetConfFromPacketv4 / ConversationToNetconfv4 and "
             "ztpv4.ParseVendorData / parseClassIdentifier / parseVIVC (every option map), the three DHCPv4 typed accessors "
             "whose model has a failure outcome (DomainSearch, MaxMessageSize, AutoConfigure; the other 26 are total functions "
             "into panic-free types), every one of the 39 typed accessor methods of the DHCPv6 option sets (MessageOptions, "
             "RelayOptions, IdentityOptions, AddressOptions, PDOptions, PrefixOptions, FourRDOptions; Dhcp/V6/Access.lean) on the "
             "message's own option set and on every option set nested in it at any depth (C03_v6_accessors_decoded; "
             "C03_v6_checked_accessors_total: the 28 accessors with a checked assertion are total on every value; "
             "C03_v6_accessors_counterexample: the 11 unchecked ones panic on a hand-built OptionGeneric carrying their code), "
             "re-encoding of decoded DHCPv6 messages (the only panic path, an embedded DHCPv4 message "
             "with a non-IPv4 header address, is excluded for decoded messages); where the statement needs decodedness a "
             "hand-built counterexample is proved (C03_extractMAC_counterexample, C03_conversationToNetconf_counterexample, "
             "C03_ztp6_parseVendorData_counterexample, C03_reencode6_counterexample). "
             "NOT proved here: String/Summary/LongString (formatting goes through fmt); the regular expressions of "
             "ztpv4.ParseCircuitID (11) and ztpv6.ParseRemoteID (2) are abstracted as a total matcher (both functions are proved "
             "panic-free for every such matcher; Go's regexp is trusted; stream c03x runs ParseRemoteID against a hand-written "
             "matcher, ParseCircuitID is only crash-searched); DHCPv4 builders (C15); architecture lists as such (iana.Archs."
             "FromBytes is part of both decoder models - DHCPv4 ClientArch accessor, DHCPv6 option 61 - but Archs.String and a "
             "standalone entry point are not stated here); the "
             "interface-dependent helpers (GetLinkLocalAddr/GetGlobalAddr, RequestNetbootv4/v6, IfUp, ConfigureInterface: they "
             "talk to the kernel, not to a decoded value) - for all of those the assurance in C03 is the crash search of oracle "
             "c03 on the real code (testing, not proof). The search is mutation-based with behaviour-novelty feedback, not "
             "coverage-guided (no instrumentation in-process)."),
    rule=("v6acc: (oracle c03 also: a second phase in which all workers walk the dictionary packets - every circuit-id naming scheme, every vendor class - at once; the corpus holds every enterprise number anybody has a case for x the bare vendor-option shapes at message and relay level; the probe shared-encode in a child process, class crash:shared-value-read-concurrently) every accessor method of the seven DHCPv6 option-set types on generated, wire-tripped and hand-built messages (an OptionGeneric under a code of the parser table inserted at some level), on the message's own option set or a nested one chosen by path, result compared with the model as a term (ok <value> / panic / badtype); lexer: programs of 1..10 reads (Read8/16/32/64, Consume, CopyN, ReadBytes, ReadAll, Has, Len, Error, FinError; lengths around what is left, zero, far too much) on buffers of 0..40 bytes run on the real uio.Lexer and on its model lean/Dhcp/Go/Lexer.lean - the dependency every decoder and every decoder model reads through (thorough: every program of up to 3 operations over a 13-operation alphabet on buffers of 0..5 bytes); streams v4dec/v6dec: ok/err/panic verdict of the Go decoders vs the Lean model on valid, truncated, length-perturbed and "
          "random inputs. stream c03x: every op line carries wire bytes; both sides decode them and call the observer on the "
          "decoded value; verdict AND returned value (canonical text) are compared: DecapsulateRelay, DecapsulateRelayIndex "
          "(relay chains of depth 0..8, thorough to 40, built by hand with and without a relay-message option, generic/duplicated "
          "relay-message options, every index -3..depth+3), GetInnerMessage, ExtractMAC, GetMacAddressFromEUI64 (nil, EUI-64, "
          "random 16-byte and - outside the decoded domain, where the real code panics and the model says so - other lengths), "
          "netboot.GetNetConfFromPacketv6 / ConversationToNetconf (conversations of 0..6 decoded messages mixing SOLICIT/ADVERTISE/"
          "REQUEST/REPLY/relay, IA_NA with 0..3 addresses, DNS, domain list, NTP sub-options, present/empty/absent boot file URL), "
          "ztpv6.ParseVendorData (every vendor string of the ZTP corpus and near misses in options 16 and 17, Mellanox "
          "sub-options, on plain and relayed messages) and ParseRemoteID, ToBytes of decoded DHCPv6 messages, "
          "ztpv4.ParseVendorData, netboot.GetNetConfFromPacketv4 / ConversationToNetconfv4 (0..6 packets), the 29 DHCPv4 typed "
          "accessors on decoded packets; thorough adds every index on every depth 0..8, all 585 conversations of length <= 3 over "
          "a pool of 8 messages and every ZTP corpus string. Facts (Facts/C03Observe.lean, regenerated by extract/c03x.go): the "
          "HasPrefix / Split literals and the piece counts tested before indexing in the ZTP parsers, enterprise numbers, "
          "Mellanox sub-option codes, the message types of netboot's switch, option codes. oracle c03 (real code only): every decoding entry point (dhcpv4.FromBytes, Options.FromBytes, 15 DHCPv4 "
          "value types, dhcpv6.FromBytes/MessageFromBytes/RelayMessageFromBytes/ParseOption for every known and some unknown "
          "codes/Options.FromBytes/DUIDFromBytes, rfc1035label.FromBytes, iana.Archs.FromBytes, nclient4 raw ReadFrom over scripted "
          "frames) under recover + a watchdog (a call still running after 2 s, and after 2 s more with all other work paused, is a hang), on: the regression corpus corpus/c03.txt, a base corpus with a valid instance of "
          "every option type and every ZTP vendor string, truncation at every offset and every structural length field +1/-1/0/max "
          "(sampled in quick, complete in thorough), 14 mutators (truncate, length fields, splice, repeat chunk, compression "
          "pointers, extreme values, bit flips, insert/delete, option-code confusion, pad/tile to 4096 and 65507 bytes, container "
          "nesting up to 40 levels), pure random, sizes 0..65507; for every accepted input of at most 4096 bytes all exported "
          "methods of every module type reachable by reflection (about 420 functions: accessors, String/Summary/LongString, "
          "ToBytes) plus the listed builders, relay helpers, ExtractMAC, ztpv4/ztpv6/netboot extractors; all netboot "
          "conversations of 0..4 messages over curated pools (7483 sequences) plus random ones. A panic or hang is a failure "
          "(class panic:<function> / hang:<function>) with a minimised replayable op line. The go/ssa panic-site inventory "
          "(extract/panicsites.go -> facts.json) multiplies the budget of entry points whose site set grew relative to "
          "corpus/panicsites_baseline.json; it steers, it is not a pass/fail obligation. non-trivial = accepted input; distinct = "
          "distinct accepted inputs"),
    assumptions=["Go nil and empty option values are identified in the model",
                 "Go's regexp, fmt, strings and net packages do not panic on the values passed (trusted, exercised by the crash search)"],
)

MANIFEST = dict(
    text="Machine-checked theorems (Lean 4) for all byte strings, no length bound: the models of dhcpv4.FromBytes, dhcpv4.Options.FromBytes, dhcpv6.FromBytes, MessageFromBytes, RelayMessageFromBytes, ParseOption (all 32 option types at any nesting depth), Options.FromBytes and DUIDFromBytes never reach a panic guard (C03_dec4, C03_optsFromBytes, C03_dec6, C03_decMessage, C03_decRelay, C03_parseOption, C03_decOpts6, C03_decDUID, C03_labelFromBytes; C03_rawRead, C03_labelToBytes and C03_v6_builders_decoded restated from C18/C19/C16), decoded DHCPv4 packets always re-encode (C03_enc_decoded), and all of them terminate: structural recursion on fuel, with the out-of-fuel branches proved unreachable (C03_optsLoop_fuel, C03_dec6_fuel, C03_parseOption_fuel, C03_decOpts6_fuel, C03_v6_loops_fuel, C03_label_terminates). Read-only use of decoded values: DecapsulateRelay / DecapsulateRelayIndex never panic for any message value and any index, and the level returned is characterised for chains and broken chains (C03_decapsulateRelayIndex, _chain, _broken, C03_relay_chain_or_broken, C03_lastRelay_fuel); GetMacAddressFromEUI64 panics exactly on 4-byte addresses (C03_getMac_panic_iff), never on a decoded address field; ExtractMAC, netboot.GetNetConfFromPacketv6 and ConversationToNetconf (every list of decoded messages, any length), ztpv6.ParseVendorData and DHCPv6 re-encoding do not panic on decoded messages (C03_extractMAC, C03_getNetConfFromPacketv6, C03_conversationToNetconf, C03_ztp6_parseVendorData, C03_reencode6), each with a machine-checked hand-built counterexample showing that decodedness is needed (C03_*_counterexample); ztpv6.ParseRemoteID, ztpv4.ParseVendorData / parseClassIdentifier / parseVIVC / ParseCircuitID, netboot.GetNetConfFromPacketv4 / ConversationToNetconfv4 and the DHCPv4 typed accessors do not panic for any option map (C03_ztp6_parseRemoteID, C03_ztp4_parseVendorData, C03_ztp4_parseCircuitID, C03_getNetConfFromPacketv4, C03_conversationToNetconfv4, C03_v4_accessors), regular expressions abstracted as an arbitrary total matcher. PARTIAL: String/Summary/LongString, the regular expressions themselves, the DHCPv4 builders, the remaining DHCPv6 typed accessors and architecture lists are not proved in this check; for them, and for the real code as a whole, the evidence is an implementation-level crash search (recover + watchdog around every entry point and about 420 reflected methods and helpers, structure-aware mutation, sizes up to 65507 bytes, all netboot conversations of up to 4 messages) - testing, stated as such in the evidence (full_statement_proved=false). Tie: v4dec/v6dec differential streams (ok/err/panic verdicts), the c03x stream (observers run on decoded values in the real code and in the model, verdict and value compared), fact obligations regenerated from the ZTP/netboot sources, and a regenerated go/ssa inventory of panic-capable instructions that steers the search budget. All 39 typed accessor methods of the DHCPv6 option sets, on the message's own option set and on every nested one at any depth, are proved panic-free on decoded messages (C03_v6_accessors_decoded), with the hand-built counterexample for the 11 accessors whose type assertion is unchecked; stream v6acc ties the accessor model to the code.",
    design_ref="DESIGN.md section 6 C03",
    note=NOTE_COMMON + "The crash search is bounded testing; a panic reachable only through inputs the mutators cannot produce would be missed. Go runtime fatal errors (stack exhaustion, out of memory) abort the oracle and are reported as a broken oracle, not as a classified failure.",
    technique="Lean 4 proof (induction on fuel: no decoder branch returns panic) + model/code correspondence + implementation-level crash search under recover/watchdog steered by a go/ssa panic-site inventory",
)

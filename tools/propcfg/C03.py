CONFIG = dict(
    props=["DhcpProofs.Props.C03"],
    facts=[],
    streams=[("v4dec", 4000, 30000), ("v6dec", 6000, 40000)],
    oracles=[("c03", 40000, 1200000)],
    full_statement_proved=False,
    missing=("Proved for the model: no panic in dhcpv4.FromBytes, dhcpv4.Options.FromBytes, dhcpv6.FromBytes/MessageFromBytes/"
             "RelayMessageFromBytes/ParseOption/Options.FromBytes/DUIDFromBytes (every option type, any nesting), label decoding "
             "and label re-encoding (restated from C19), the raw-frame reader (restated from C18), GetInnerMessage and the DHCPv6 "
             "relay-reply/request/advertise/reply builders on decoded messages (restated from C16), re-encoding of decoded DHCPv4 "
             "packets; termination by structural recursion on fuel with fuel sufficiency proved (DHCPv4 option loop, DHCPv6 "
             "nesting and flat loops, label loop). "
             "NOT proved here: String/Summary/LongString (formatting goes through fmt), ZTP (ztpv4/ztpv6) and netboot string "
             "handling, DHCPv4 typed accessors and builders, the DHCPv6 typed accessors as such, DecapsulateRelayIndex / MAC "
             "extraction, architecture lists, re-encoding of DHCPv6 messages - where models exist they live in other checks "
             "(C15 DHCPv4 builders, C16 relay handling, C17 DHCPv4 accessors); for all of "
             "those the assurance in C03 is the crash search of oracle c03 on the real code (testing, not proof). The search is "
             "mutation-based with behaviour-novelty feedback, not coverage-guided (no instrumentation in-process)."),
    rule=("streams v4dec/v6dec: ok/err/panic verdict of the Go decoders vs the Lean model on valid, truncated, length-perturbed and "
          "random inputs. oracle c03 (real code only): every decoding entry point (dhcpv4.FromBytes, Options.FromBytes, 15 DHCPv4 "
          "value types, dhcpv6.FromBytes/MessageFromBytes/RelayMessageFromBytes/ParseOption for every known and some unknown "
          "codes/Options.FromBytes/DUIDFromBytes, rfc1035label.FromBytes, iana.Archs.FromBytes, nclient4 raw ReadFrom over scripted "
          "frames) under recover + a watchdog (a call still running after 2 s, and after 2 s more with all other work paused, is a hang), on: the regression corpus corpus/c03.txt, a base corpus with a valid instance of "
          "every option type and every ZTP vendor string, truncation at every offset and every structural length field +1/-1/0/max "
          "(sampled in quick, complete in thorough), 14 mutators (truncate, length fields, splice, repeat chunk, compression "
          "pointers, extreme values, bit flips, insert/delete, option-code confusion, pad/tile to 4096 and 65507 bytes, container "
          "nesting up to 40 levels), pure random, sizes 0..65507; for every accepted input of at most 4096 bytes all exported "
          "methods of every module type reachable by reflection (about 420 functions: accessors, String/Summary/LongString, "
          "ToBytes) plus the listed builders, relay helpers, ExtractMAC, ztpv4/ztpv6/netboot extractors; all netboot "
          "conversations of 0..4 messages over curated pools (7483 sequences) plus random ones. A panic or hang is a failure "
          "(class panic:<function> / hang:<function>) with a minimised replayable op line. The go/ssa panic-site inventory "
          "(extract/panicsites.go -> facts.json) multiplies the budget of entry points whose site set grew relative to "
          "corpus/panicsites_baseline.json; it steers, it is not a pass/fail obligation. non-trivial = accepted input; distinct = "
          "distinct accepted inputs"),
    assumptions=["Go nil and empty option values are identified in the model",
                 "Go's regexp, fmt, strings and net packages do not panic on the values passed (trusted, exercised by the crash search)"],
)

MANIFEST = dict(
    text="Machine-checked theorems (Lean 4) for all byte strings, no length bound: the models of dhcpv4.FromBytes, dhcpv4.Options.FromBytes, dhcpv6.FromBytes, MessageFromBytes, RelayMessageFromBytes, ParseOption (all 32 option types at any nesting depth), Options.FromBytes and DUIDFromBytes never reach a panic guard (C03_dec4, C03_optsFromBytes, C03_dec6, C03_decMessage, C03_decRelay, C03_parseOption, C03_decOpts6, C03_decDUID, C03_labelFromBytes; C03_rawRead, C03_labelToBytes and C03_v6_builders_decoded restated from C18/C19/C16), decoded DHCPv4 packets always re-encode (C03_enc_decoded), and all of them terminate: structural recursion on fuel, with the out-of-fuel branches proved unreachable (C03_optsLoop_fuel, C03_dec6_fuel, C03_parseOption_fuel, C03_decOpts6_fuel, C03_v6_loops_fuel, C03_label_terminates). PARTIAL: read-only operations other than re-encoding (accessors, String/Summary, DHCPv4 builders, relay decapsulation by index, MAC extraction, ZTP/netboot extractors, DHCPv6 re-encoding) and architecture lists are not proved in this check; for them, and for the real code as a whole, the evidence is an implementation-level crash search (recover + watchdog around every entry point and about 420 reflected methods and helpers, structure-aware mutation, sizes up to 65507 bytes, all netboot conversations of up to 4 messages) - testing, stated as such in the evidence (full_statement_proved=false). Tie: v4dec/v6dec differential streams (ok/err/panic verdicts) and a regenerated go/ssa inventory of panic-capable instructions that steers the search budget.",
    design_ref="DESIGN.md section 6 C03",
    note=NOTE_COMMON + "The crash search is bounded testing; a panic reachable only through inputs the mutators cannot produce would be missed. Go runtime fatal errors (stack exhaustion, out of memory) abort the oracle and are reported as a broken oracle, not as a classified failure.",
    technique="Lean 4 proof (induction on fuel: no decoder branch returns panic) + model/code correspondence + implementation-level crash search under recover/watchdog steered by a go/ssa panic-site inventory",
)

CONFIG = dict(
    props=["DhcpProofs.Props.C09"],
    facts=["DhcpProofs.Facts.LabelCap"],
    streams=[("cost", 2500, 25000)],
    oracles=[("c09", 9000, 90000)],
    full_statement_proved=False,
    missing=("Proved for all inputs (no length bound): retained size (size4 <= 16n and <= n+8256; size6 <= 144n+64, <= 33n+64 "
             "without compression-pointer octets; labels 144n+32 / 33n+32; no decoded name > 253), nesting depth "
             "(4*depth6 <= n+4), loop progress (>= 4 bytes per iteration also after an overrun; <= n/4 options per list), "
             "RFC 3396 concatenation linear, and the work bound over the explicit cost function work6 = n*(depth6+8) + "
             "4*size6 <= 840n + n*(n/4+1). Not proved: that work6 IS the number of bytes the Go code allocates - Go's "
             "allocator (size classes, append growth) and collector are not modelled; the theorem is about the cost "
             "function and the `cost` stream shows, two-sidedly and with fixed constants, that it tracks "
             "runtime.MemStats.TotalAlloc on everything generated (label-bearing values included, since /repo 6d867a5 builds "
             "names with strings.Builder: 584 bytes allocated per input byte on the dearest pointer fan, 4.6 per decoded "
             "name byte; before that fix the per-label string concatenation cost 33.8 kB per input byte)."),
    rule=("oracle c09 (implementation only, adversarial): (families incl. two codes INSIDE one container - 4RD, IA_NA, IA_TA, IA_PD: minimal options of an unknown code, then or alternating with a code the container knows) every input is decoded and re-encoded by the real library in "
          "fresh single-goroutine `harness costprobe` subprocesses (collector off, GOMEMLIMIT, address-space rlimit, "
          "5..20 s watchdog); measured: TotalAlloc delta of decode and of decode+re-encode, reflective deep size (union of "
          "address intervals), option nesting depth, decoded name bytes, user CPU of the decode. Inputs 0..65507 bytes "
          "for dhcpv4.FromBytes, dhcpv6.FromBytes, rfc1035label.FromBytes and dhcpv6.ParseOption of every list-valued "
          "option: compression-pointer fans (maximal 253-byte name + 2-byte pointers; prefixed, forward, suffix "
          "pointers; over-long names), pointer chains and loops, unterminated label chains, runs of empty/short/full "
          "names, option chains nested as deep as the size allows (4RD 16376 levels, IA_TA 8188, IA_NA/IAAddr, "
          "IA_PD/IAPrefix, relay 1725, mixed; 64-deep chains around one big leaf / beside a big flat option), "
          "thousands of minimal options, zero-length user-class / vendor-class / boot-file-param / vendor-opts / NTP "
          "items, maximal repeated DHCPv4 options (255-byte instances of one code, all codes, zero-length, 1-byte), "
          "structured random messages, and hill climbing on allocated and on retained bytes per input byte. Checked: "
          "deep <= A1*n+A0 (A1 = 64 pointer-free, 144 general, 2 for v4); alloc <= 320*n + 6*namebytes + 4*n*depth + B0 "
          "when the input decodes, and the blunt envelope alloc <= n^2/4 + B1*n + B0 always (B1 = 320 / 1100 with "
          "pointer octets / 16 for v4); decode CPU <= 2 s. The worst measured ratios are recorded as `worst x1000 ...` "
          "tags and samples. stream cost: the same measurement against the Lean cost functions (driver ops cost6, "
          "cost6opt, cost4, costl) with Compare = fixed two-sided inequalities (deep <= 7*size+512, size <= 3*deep+512, "
          "depth equal, real <= 8*fine+4096, fine <= 2*real+2048, real <= 4*work6+4096, the same constants with and "
          "without domain names); accept/reject differences are counted, not compared. non-trivial = the input decodes (stream) / "
          "at least 16 bytes (oracle); distinct = distinct inputs"),
    assumptions=["Go nil and empty option values are identified in the model",
                 "allocation is measured with the collector off in a single-goroutine subprocess; Go's allocator and GC are not modelled",
                 "pretty-printing (String/Summary) is outside the property and is not exercised"],
)

MANIFEST = dict(
    text=("Machine-checked theorems (Lean 4) over the ordinary decoder models (no instrumented copies), for ALL byte strings: "
          "the decoded value is no larger than a fixed multiple of the input (C09_size_v4: 16n, C09_size_v4_tight: n+8256; "
          "C09_size_v6: 144n+64 for all 32 option types at any nesting, C09_size_v6_noptr: 33n+64 when no octet can be read "
          "as a compression pointer; C09_size_label, C09_label_name_cap: no name beyond 253 bytes whatever the pointers do), "
          "nesting depth costs 4 bytes per level (C09_depth_v6), the option loop consumes >= 4 bytes per iteration also "
          "after an overrun (C09_v6_loop_progress, C09_v6_options_count), repeated DHCPv4 options concatenate linearly "
          "(C09_v4_concat_linear, C09_v4_values_total), and the explicit allocation envelope work6 = n*(depth6+8)+4*size6 "
          "is at most 840n + n*(n/4+1) (C09_work_v6, C09_work_v6_per_level, C09_work_v4). Tie to the code: the 253 cap is "
          "re-extracted from rfc1035label on every run (fact_labelCap); the `cost` stream compares the cost functions with "
          "measured allocation two-sidedly; the `c09` oracle checks the numeric property on the real code with adversarial "
          "inputs up to 65507 bytes."),
    design_ref="DESIGN.md section 6 C09",
    note=NOTE_COMMON + ("The work theorem is about the cost function work6, not about Go's allocator: that work6 tracks real "
                        "allocation within fixed constants is measured (stream `cost`), not proved."),
    technique="Lean 4 proof: structural size/depth measures bounded by induction over decoder fuel, generic in the label bound + allocation measurement in GC-off subprocesses (oracle, two-sided model fit)",
)

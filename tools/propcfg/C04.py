CONFIG = dict(
    props=["DhcpProofs.Props.C04"],
    facts=["DhcpProofs.Facts.V4Codec"],
    streams=[("v4dec", 12000, 300000), ("lexer", 3000, 60000)],
    oracles=[("c04", 12000, 300000)],
    full_statement_proved=True,
    missing="",
    rule="lexer: (oracle c04 also writes over the first decoded packet in place and decodes the same bytes again, comparing with the RFC reading) programs of 1..10 reads (Read8/16/32/64, Consume, CopyN, ReadBytes, ReadAll, Has, Len, Error, FinError; lengths around what is left, zero, far too much) on buffers of 0..40 bytes run on the real uio.Lexer and on its model lean/Dhcp/Go/Lexer.lean - the dependency every decoder and every decoder model reads through (thorough: every program of up to 3 operations over a 13-operation alphabet on buffers of 0..5 bytes); v4dec: encoder output, hand-laid valid packets (pads, repeated codes, hlen 0..20), every kind of malformation (truncation, length/cookie perturbation, missing End, random) decoded by dhcpv4.FromBytes and by the Lean model dec4; thorough adds ALL options areas over the alphabet {0,1,2,3,53,82,255} up to 6 bytes, every truncation point and single-byte corruptions of generated packets. oracle c04: an independently written Go RFC 2131/2132/3396 decoder compared with FromBytes (accept/reject verdict and every field). non-trivial = at least a complete header; distinct = distinct inputs",
    assumptions=["Go nil and empty option values are identified in the model"],
)

MANIFEST = dict(
    text="Machine-checked theorems (Lean 4): the model of dhcpv4.FromBytes accepts a byte string if and only if the declarative RFC grammar Spec.Parses4 (236-byte header, cookie, options area empty or pad/TLV run ended by End with no value overrunning) derives it, and the decoded value is the grammar's reading (C04_sound, C04_complete, C04_exact, C04_reject, C04_functional, plus the edge cases 240 bytes / short / wrong cookie / bytes after End as lemmas) - for all byte strings, no length bound. Tie to the code: regenerated constants re-checked by Lean, differential v4dec stream against the compiled model, and an independent Go reference decoder as implementation-level oracle.",
    design_ref="DESIGN.md section 6 C04",
    note=NOTE_COMMON + "Spec.Parses4 is my reading of RFC 2131/2132/3396 (Dhcp/Spec/Wire4.lean, ~60 lines, meant to be read).",
    technique="Lean 4 proof: decoder <-> inductive RFC grammar (soundness and completeness) + model/code correspondence check",
)

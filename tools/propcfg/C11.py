# stream/oracle entries: (name, quick_n, thorough_n)
CONFIG = dict(
    props=["DhcpProofs.Props.C11"],
    facts=["DhcpProofs.Facts.Client"],
    streams=[("client4", 6000, 60000), ("client6", 6000, 60000)],
    oracles=[("c11", 5000, 40000)],
    full_statement_proved=False,
    missing="timing clauses (budget, ctx, accept, closed) are proved for every observation sequence over the timed model; the Close/cleanup clauses are invariants of the interleaving model (see Props/C11.lean part 2 for what is proved there and what is kept as _full/_partial); 'no goroutine left behind' on the real code is observed (synctest bubble exit), not proved.",
    rule="client4/client6 streams as for C12 (real clients under testing/synctest virtual time vs Dhcp.Client.Timed.runCall; compared: return instant and outcome class, transmissions, instant Close returned). oracle c11 (implementation only): return within T*(2^n-1) whatever traffic, return at the instant of ctx cancel / Close / first acceptable response with the matching error class, never (nil,nil), a second SendAndRead with the same transaction id issued by the returning goroutine itself is not refused, Close returns at the instant it is called, after cancel+Close every goroutine of the bubble has exited. non-trivial = script has events or more than one transmission; distinct = distinct operation lines",
    assumptions=["virtual time (testing/synctest): instants are exact, goroutines run to quiescence between instants",
                 "bufferCap is set through reflection (no exported option)"],
)

MANIFEST = dict(
    text="Machine-checked theorems (Lean 4) over the timed model of one SendAndRead call: for every T > 0, n >= 0 and EVERY sequence of caller observations (rejected same-id datagrams at any rate, bursts, foreign traffic, coincidences with deadlines resolved either way) the call has returned by T*(2^n-1); a context end / an acceptable response / Close observed while the call is waiting makes it return at that very instant with ctx.Err() / the response / ErrNoResponse. Over the interleaving model of N callers, the receive loop and Close: a returned call's transaction id is no longer pending on its account, no channel is closed twice or sent to after close, and after Close every reachable state either has everything finished or enables a non-environment step under a strictly decreasing rank. Tied to the code by regenerated facts and by running the real nclient4/nclient6 clients under testing/synctest virtual time against the model (return instants exact), plus an implementation-only oracle for prompt return, xid reuse and goroutine exit.",
    design_ref="DESIGN.md section 6 C11",
    note=NOTE_COMMON + "Goroutine exit on the real code is observed via synctest bubble exit, not proved. Atomic regions of the LTS are read off the source.",
    technique="Lean 4 proofs (induction over tries; invariants over a labelled transition system) + model/code correspondence under virtual time (testing/synctest)",
)

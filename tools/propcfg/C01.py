# stream/oracle entries: (name, quick_n, thorough_n)
CONFIG = dict(
    props=["DhcpProofs.Props.C01"],
    facts=["DhcpProofs.Facts.V4Codec"],
    streams=[("v4enc", 6000, 180000), ("v4dec", 4000, 120000)],
    oracles=[("c01", 6000, 240000)],
    full_statement_proved=True,
    missing="",
    rule="v4enc: (oracle c01 also runs the probe shared-encode in a child process: one unmodified packet with a relay agent information option encoded, decoded and printed by eight goroutines at once - a read that writes a map ends in a runtime fatal error, reported with the child's first line; class v4-roundtrip-shared-concurrent) generated packets (3/4 inside the encodable domain, option value lengths concentrated on the 0/255/256/510/511/765 boundaries) encoded by ToBytes three times and by the Lean model; v4dec: encoder output, hand-laid, truncated, perturbed and random wire bytes decoded by FromBytes and by the model; oracle c01: FromBytes(ToBytes(p)) == p on the domain. non-trivial = carries at least one option (enc) / longer than the fixed header (dec); distinct = distinct operation lines",
    assumptions=["Go nil and empty option values are identified in the model"],
)

MANIFEST = dict(
    text="Machine-checked theorem (Lean 4, no axioms beyond propext/Quot.sound): for every packet of the encodable domain, with any number of options and values of any length, the model's decoder applied to the model's encoder output returns the packet (addresses in 4-byte form). The model is tied to the code on every run by regenerated constants (chunk size 255, 300-byte minimum, cookie, name capacities, hlen clamp) re-checked by Lean, and by differential runs of ToBytes/FromBytes against the compiled model on generated, malformed and boundary inputs; an implementation-level round-trip oracle searches for a concrete failing input.",
    design_ref="DESIGN.md section 6 C01",
    note=NOTE_COMMON + "Go nil/empty option values identified.",
    technique="Lean 4 proof by strong induction over RFC 3396 chunking + model/code correspondence check",
)

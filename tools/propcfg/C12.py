# stream/oracle entries: (name, quick_n, thorough_n)
CONFIG = dict(
    props=["DhcpProofs.Props.C12"],
    facts=["DhcpProofs.Facts.Client"],
    streams=[("client4", 6000, 60000), ("client6", 6000, 60000)],
    oracles=[("c12", 5000, 40000)],
    full_statement_proved=True,
    missing="'identical datagram to the requested destination' is not a theorem (the timed model has no bytes): every WriteTo of the real clients is compared with the request's encoding and the destination by the client4/client6 streams and by oracle c12. time.Duration overflow of timeout*=2 is outside the quantifier (explicit hypothesis NoOverflow).",
    rule="client4/client6: one SendAndRead call of the real nclient4/nclient6 client on a scripted in-memory PacketConn inside a testing/synctest bubble (virtual time), against the set of results Dhcp.Client.Timed.runCall allows for the same script: T in {1ms,50ms,1s,5s}, n in -1..6, buffer cap 0..5/64, matcher nil or tag-based; silence, accepted response in every try at try start/+1ns/middle/deadline-1ns/on the deadline/+1ns, rejected same-xid streams with period < T, bursts larger than the buffer, foreign/undecodable datagrams, ctx cancel and Close at the same kinds of instants, each event applied at quiescence or racing; compared: (virtual instant, bytes == request encoding, destination) of every WriteTo, return instant and outcome class, instant Close returned. thorough adds the exhaustive grid (every T, n, try, offset, event kind). oracle c12: closed-form schedule T*(2^k-1), count, bytes, destination, stop-on-accept, nothing transmitted after the return. non-trivial = script has events or more than one transmission; distinct = distinct operation lines",
    assumptions=["virtual time (testing/synctest): instants are exact, goroutines run to quiescence between instants",
                 "bufferCap is set through reflection (no exported option)"],
)

MANIFEST = dict(
    text="Machine-checked theorems (Lean 4, axioms propext/Quot.sound/Classical.choice at most) over an executable timed model of one SendAndRead call (retryFn loop, one deadline per try, timeout doubled, select over done/deadline/ctx/channel): for every T > 0, every n >= 0 and ANY sequence of rejected or dropped datagrams the transmissions are exactly T*(2^k-1), k < n, and the call fails with the no-response error at T*(2^n-1) (induction, no bound on n or on the traffic); n < 0 retries for ever (running at every horizon, all schedule points transmitted) until the context ends; a response accepted during try k gives exactly k+1 transmissions and none after; for every observation sequence whatsoever the transmissions are a prefix of the schedule. The model is tied to the code on every run by regenerated facts (timeout *= 2, loop condition i < retry || retry < 0, deadline armed once per try, defer rem(), defaults 5 s / 3 / 5) re-checked by Lean, and by running the real nclient4 and nclient6 clients under testing/synctest virtual time on a scripted connection against the model's allowed result set (membership where a select may pick either of two simultaneously ready cases); transmitted bytes and destination are checked on the implementation only.",
    design_ref="DESIGN.md section 6 C12",
    note=NOTE_COMMON + "Bytes/destination identity checked by the harness, not proved. Duration overflow excluded by hypothesis. Scheduling inside one virtual instant is the Go runtime's; racing scripts are compared by set membership.",
    technique="Lean 4 proof by induction over tries with a per-try invariant + model/code correspondence under virtual time (testing/synctest)",
)

# stream/oracle entries: (name, quick_n, thorough_n)
CONFIG = dict(
    props=["DhcpProofs.Props.C15"],
    facts=["DhcpProofs.Facts.V4Build"],
    streams=[("v4build", 12000, 600000)],
    oracles=[("c15", 12000, 600000)],
    full_statement_proved=False,
    missing=("One clause is false of the model and of the code at one corner and is kept as "
             "C15_request_from_offer_full with C15_request_from_offer_counterexample: for a hand-built offer whose "
             "YourIPAddr is the nil slice (0.0.0.0 on the wire) NewRequestFromOffer emits a ZERO-LENGTH option 50 "
             "instead of 00 00 00 00 (OptRequestedIPAddress(nil).ToBytes() is empty). Proved instead "
             "(C15_request_from_offer_partial): option 50 is the four address bytes whenever YourIPAddr is not nil, "
             "which covers every decoded offer. Every other clause is proved at full strength for every input packet, "
             "every transaction id and every user modifier list of any length; a clause about a field is stated for "
             "the lists none of whose members writes that field (NoWrite), C15_modifiers_last/C15_last_writer/"
             "C15_user_prevails covering the lists that do; C15_requested_options_prevail: after a final WithRequestedOptions every code asked for, and every code requested before, is in option 55 (addCodes_mem, mem_addCodes_of_mem)."),
    rule=("v4build: (request lists incl. the builders' defaults moved by 8..128; option 54 / 50 of the inputs incl. all zeros, all ones, the packet's own siaddr / yiaddr; oracle c15 rule user-prevails also for WithRequestedOptions and WithNetboot as the last modifier) the seven real builders (New, NewDiscovery, NewInform, NewRequestFromOffer, NewRenewFromAck, "
          "NewReplyFromRequest, NewReleaseFromACK) called on generated input packets (any opcode/flags/addresses; options "
          "82, 61, 54, 55, 50, 53 each absent / nil / empty non-nil / non-empty; one third decoded from ToBytes output; "
          "zero-value packets) with 0..4 modifiers drawn from all 24 exported With* functions (arguments biased to "
          "collide with the defaults), result compared field by field with the compiled Lean model; a transaction id "
          "drawn at random (it differs between two calls) is printed as 00000000 on both sides, one set by a default "
          "or a modifier is compared. thorough adds the exhaustive part: 4 builders x 5 fixed packets x (none + each "
          "of 48 fixed modifiers), the 3 packet-less builders x the same, and every ordered pair of the 48 modifiers "
          "on 5 builders. oracle c15: the clauses of the property checked by independent Go code on the real "
          "builders' results (no model): per-builder clauses on the call without user modifiers, builder(mods...) == "
          "mods applied in order to builder(), and a colliding last modifier prevails. non-trivial = has an input "
          "packet or at least one modifier; distinct = distinct operation lines"),
    assumptions=[
        "Go nil and empty non-nil option values are identified in the model (no builder distinguishes them since WithOptionCopied tests len(val) > 0)",
        "modifier closures are modelled as values of an inductive type with copied arguments: slices shared between the input packet and the result (hardware address, gateway address, option values) are C08's subject, not C15's",
        "the transaction id drawn by New is a parameter of the model; the generator's randomness is not modelled",
        "WithOption is driven with OptGeneric, OptMessageType, OptRequestedIPAddress, OptServerIdentifier and OptParameterRequestList values; WithDomainSearchList takes the label encoding computed by rfc1035label (C19's subject) as given",
        "clause 'request from offer asks for exactly the offered address' is checked by the oracle only for offers whose YourIPAddr is an IPv4 address (To4() != nil); nil/non-IPv4 YourIPAddr inputs are generated, compared with the model, and counted under the tag offer-yiaddr-not-ipv4",
    ],
)

MANIFEST = dict(
    text=("Machine-checked theorems (Lean 4, axioms propext/Classical.choice/Quot.sound only) about an executable model of "
          "the DHCPv4 builders and of every exported With* modifier, for every input packet, every transaction id and "
          "every list of user modifiers of any length: a reply has the opposite opcode and the request's transaction id, "
          "hardware type and address, flags and gateway address, echoes options 82 and 61 exactly when the request "
          "carries them non-empty and then byte for byte, and carries nothing else; a request from an offer carries the "
          "offer's transaction id, message type REQUEST, option 54 verbatim, parameter request list 1,3,15,6 and option "
          "50 = the four bytes of the offered address (proved whenever YourIPAddr is not the nil slice; the nil case is a "
          "proved counterexample, kept visible); renew/release/inform/discover set message type, client address, unicast "
          "flag and parameter request list as RFC 2131 4.3-4.4 require (also proved against a separate declarative "
          "rendering of RFC 2131 Table 5, Dhcp/Spec/V4Client.lean: C15_rfc_discover/inform/renew/release/request_selecting); the packet built with user modifiers equals the "
          "user modifiers folded over the packet built without them, so the last writer of any field prevails. The model "
          "is tied to the code on every run by regenerated facts (each builder's ordered default modifiers with their "
          "source text and constant arguments, PrependModifiers' concatenation order, newDHCPv4's literal, flag masks) "
          "re-checked by Lean, and by differential runs of the real builders against the compiled model; an "
          "implementation-level oracle checks each clause on the real builders and finds the concrete failing input."),
    design_ref="DESIGN.md section 6 C15",
    note=NOTE_COMMON + "Go nil/empty option values identified; closures modelled as data; random transaction id is a parameter; one clause (option 50 for a nil YourIPAddr) is a proved counterexample, not a theorem.",
    technique="Lean 4 proof (frame lemma over a syntactic write-set, fold decomposition) + regenerated builder facts + model/code correspondence check + clause oracle",
)

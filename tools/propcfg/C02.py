CONFIG = dict(
    props=["DhcpProofs.Props.C02"],
    facts=["DhcpProofs.Facts.V6Table"],
    streams=[("v6enc", 8000, 60000), ("v6dec", 6000, 40000)],
    oracles=[("c02", 8000, 60000)],
    full_statement_proved=False,
    missing="the clause 'the emitted bytes are the RFC wire layout as read by an independently written decoder' is carried by oracle c02 (independent Go RFC decoder refDecode6 applied to ToBytes output) and, for the framing, by the grammar theorems of C05; freshly built label sets (original = nil) are covered by the per-option corollary C02_domainSearch_fresh, not by a message-level normalisation theorem",
    rule="v6enc: generated messages and relay chains (depth 0..3, 0..64 in thorough), 0..20 options drawn from every entry of the ParseOption table plus unknown codes, 2/3 inside the round-trip domain and 1/3 outside (nil/4-byte addresses, sub-second and negative durations, duplicate ORO codes) encoded by ToBytes and by the Lean model; v6dec: encoder output, truncations, length-field perturbations, trailing bytes, hand-laid and random inputs through FromBytes / MessageFromBytes / RelayMessageFromBytes / ParseOption / DUIDFromBytes and the model. oracle c02: FromBytes(ToBytes(m)) == m on the domain, re-encoding identical, and the independent decoder reads ToBytes(m) as m. non-trivial = at least two nested terms; distinct = distinct operation lines",
    assumptions=["IPNet masks are represented by their Size() (ones); non-canonical masks are outside the domain",
                 "time.Duration overflow of Round is outside the model (|d| < 2^62)"],
)

MANIFEST = dict(
    text="Machine-checked theorem (Lean 4): for every well-formed DHCPv6 message or relay chain - any depth, any number of options, all 32 option types of the ParseOption switch plus unknown codes, all four DUID kinds and opaque DUIDs, NTP sub-options, embedded DHCPv4 messages - the model of dhcpv6.FromBytes applied to the model of ToBytes returns the value itself (C02_roundtrip, by mutual structural induction over the nested Opt6/Msg6 type; C02_roundtrip_option for single options). The parser table is regenerated from the ParseOption/parseNTPSuboption/DUIDFromBytes switches on every run and Lean re-checks that it is the table the model has constructors for. Tie: v6enc/v6dec differential streams against the compiled model; oracle c02 on the real code with an independent RFC decoder.",
    design_ref="DESIGN.md section 6 C02",
    note=NOTE_COMMON + "rfc1035label model proved separately (C19); net.IPMask abstracted by its Size().",
    technique="Lean 4 proof by mutual structural induction over the nested option/message type + generic TLV loop lemma + model/code correspondence check",
)

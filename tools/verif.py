#!/usr/bin/env python3
"""Orchestrator of the Lean-proof checks for insomniacslk/dhcp.

  verif.py setup
  verif.py check <Cxx> quick|thorough
  verif.py replay <Cxx> <path>

A check run: regenerate facts from /repo -> lake build (property theorems,
fact obligations, driver) -> axiom audit -> build the Go harness against
/repo's working tree -> correspondence streams + implementation oracles ->
verdict, evidence, replay file.
"""
import fcntl, hashlib, json, os, re, shutil, subprocess, sys, time

VERIF = os.path.dirname(os.path.dirname(os.path.abspath(__file__)))
# self-tests against seeded changes (tools/seedtest.py, VERIF_REPO set) write their
# evidence elsewhere so that evidence/ always describes runs on /repo itself
EVIDENCE_DIR = os.environ.get("VERIF_EVIDENCE_DIR") or os.path.join(VERIF, "evidence")
REPO = os.environ.get("VERIF_REPO", "/repo")
LEAN = os.path.join(VERIF, "lean")
WORK = os.path.join(VERIF, ".work")
BIN = os.path.join(WORK, "bin")
DRIVER = os.path.join(LEAN, ".lake/build/bin/dhcp-driver")
GO = "go1.26.8"
GOENV = dict(os.environ, GOFLAGS="-mod=mod", GOPROXY="off", GOSUMDB="off", GOTOOLCHAIN="local",
             CGO_ENABLED="0", VERIF_ROOT=VERIF)
ALLOWED_AXIOMS = {"propext", "Classical.choice", "Quot.sound"}
FORBIDDEN = re.compile(r"\bsorry\b|\badmit\b|^\s*(private\s+|protected\s+|noncomputable\s+)*axiom\s|native_decide|bv_decide|implemented_by|\bunsafe |maxHeartbeats 0\b")

sys.path.insert(0, os.path.join(VERIF, "tools"))
from props import PROPS, TRUSTED_COMMON


def sh(cmd, cwd=None, env=None, timeout=None, stdin=None):
    try:
        p = subprocess.run(cmd, cwd=cwd, env=env, timeout=timeout, input=stdin,
                           stdout=subprocess.PIPE, stderr=subprocess.STDOUT, text=True)
    except subprocess.TimeoutExpired as e:
        out = e.stdout.decode(errors="replace") if isinstance(e.stdout, bytes) else (e.stdout or "")
        return 124, out + f"\n[timed out after {timeout} s: {cmd if isinstance(cmd, str) else ' '.join(map(str, cmd[:4]))}]"
    return p.returncode, p.stdout


class Lock:
    def __init__(self, name):
        os.makedirs(WORK, exist_ok=True)
        self.f = open(os.path.join(WORK, name), "w")
    def __enter__(self):
        fcntl.flock(self.f, fcntl.LOCK_EX)
        return self
    def __exit__(self, *a):
        fcntl.flock(self.f, fcntl.LOCK_UN)
        self.f.close()


def newer(src_dir, target):
    if not os.path.exists(target):
        return True
    t = os.path.getmtime(target)
    for root, _, files in os.walk(src_dir):
        for f in files:
            if os.path.getmtime(os.path.join(root, f)) > t:
                return True
    return False


def build_extract():
    tgt = os.path.join(BIN, "extract")
    src = os.path.join(VERIF, "extract")
    if newer(src, tgt):
        rc, out = sh([GO, "build", "-o", tgt, "."], cwd=src, env=GOENV, timeout=600)
        if rc != 0:
            return out
    return None


def build_harness(race=False):
    """Always rebuilt: it links the working tree of REPO (default /repo).
    race=True: a second binary built with the Go race detector (needs cgo)."""
    tgt = os.path.join(BIN, "harness-race" if race else "harness")
    src = os.path.join(VERIF, "harness")
    shutil.copyfile(os.path.join(REPO, "go.sum"), os.path.join(src, "go.sum"))
    argv = [GO, "build", "-tags", "verif", "-o", tgt] + (["-race"] if race else [])
    if REPO != "/repo":
        # scratch copy of the library (self-tests against seeded changes): alternate go.mod
        mf = os.path.join(WORK, "harness.go.mod")
        open(mf, "w").write(open(os.path.join(src, "go.mod")).read().replace("=> /repo", "=> " + REPO))
        shutil.copyfile(os.path.join(REPO, "go.sum"), os.path.join(WORK, "harness.go.sum"))
        argv += ["-modfile", mf]
    rc, out = sh(argv + ["./cmd/harness"], cwd=src, env=dict(GOENV, CGO_ENABLED="1") if race else GOENV, timeout=900)
    return None if rc == 0 else out


def repo_compiles():
    rc, _ = sh(["go", "build", "./..."], cwd=REPO, env=GOENV, timeout=900)
    return rc == 0


# facts.json of a self-test against a seeded change (VERIF_REPO) is kept apart from the one
# describing /repo; the harness reads the path from VERIF_FACTS
FACTS_JSON = os.path.join(WORK, "facts.json" if REPO == "/repo" else "facts-seed-%d.json" % os.getpid())
GOENV["VERIF_FACTS"] = FACTS_JSON


def regenerate_facts(repo=None, facts_json=None):
    """Run the extractor on /repo; replace Extracted.lean only when it changed."""
    gen = os.path.join(LEAN, "Dhcp/Gen/Extracted.lean")
    tmp = os.path.join(WORK, "Extracted.lean.tmp")
    rc, out = sh([os.path.join(BIN, "extract"), "-repo", repo or REPO, "-lean", tmp,
                  "-json", facts_json or FACTS_JSON], env=GOENV, timeout=600)
    if rc != 0:
        return "extractor failed:\n" + out
    new = open(tmp).read()
    old = open(gen).read() if os.path.exists(gen) else None
    if new != old:
        shutil.move(tmp, gen)
    return None


def project_closure(mods):
    """mods plus every module of this package they import, transitively."""
    seen, todo = [], list(mods)
    while todo:
        m = todo.pop()
        if m in seen:
            continue
        path = os.path.join(LEAN, m.replace(".", "/") + ".lean")
        if not os.path.exists(path):
            continue
        seen.append(m)
        for line in open(path):
            mm = re.match(r"\s*import\s+((?:Dhcp|DhcpProofs)[\w.]*)", line)
            if mm:
                todo.append(mm.group(1))
    return seen


def lake_build(targets):
    rc, out = sh(["lake", "build"] + targets, cwd=LEAN, timeout=3000)
    return rc, out


def theorem_lines(path):
    """(line, name) of every theorem in a Lean file, with its namespace."""
    res, ns = [], []
    for i, line in enumerate(open(path), 1):
        m = re.match(r"\s*namespace\s+(\S+)", line)
        if m:
            ns.append(m.group(1))
        m = re.match(r"\s*end\s+(\S+)", line)
        if m and ns and ns[-1] == m.group(1):
            ns.pop()
        m = re.match(r"\s*(?:private\s+|protected\s+)?theorem\s+(\S+)", line)
        if m:
            res.append((i, ".".join(ns + [m.group(1)])))
    return res


def module_path(mod):
    return os.path.join(LEAN, mod.replace(".", "/") + ".lean")


def failed_theorems(mod, build_out):
    """Map lake error lines in a module to the theorems they fall in."""
    rel = mod.replace(".", "/") + ".lean"
    lines = [int(m.group(1)) for m in re.finditer(r"error: \S*" + re.escape(rel) + r":(\d+):", build_out)]
    if not lines:
        return []
    ths = theorem_lines(module_path(mod))
    bad = set()
    for ln in lines:
        owner = None
        for (l, n) in ths:
            if l <= ln:
                owner = n
        bad.add(owner or f"{mod}:{ln}")
    return sorted(bad)


def grep_forbidden(mods):
    hits = []
    for root, _, files in os.walk(LEAN):
        if ".lake" in root:
            continue
        for f in files:
            if not f.endswith(".lean"):
                continue
            p = os.path.join(root, f)
            incomment = False
            for i, line in enumerate(open(p), 1):
                s = line
                # crude comment stripping: block comments and line comments
                if incomment:
                    if "-/" in s:
                        s = s.split("-/", 1)[1]
                        incomment = False
                    else:
                        continue
                while "/-" in s:
                    a, b = s.split("/-", 1)
                    if "-/" in b:
                        s = a + b.split("-/", 1)[1]
                    else:
                        s = a
                        incomment = True
                s = s.split("--", 1)[0]
                if FORBIDDEN.search(s):
                    hits.append(f"{os.path.relpath(p, LEAN)}:{i}: {line.strip()}")
    return hits


def audit_axioms(theorems, imports, workdir):
    """#print axioms on every theorem; returns {name: [axioms]} for those that elaborate."""
    path = os.path.join(workdir, "Audit.lean")
    with open(path, "w") as f:
        for m in imports:
            f.write(f"import {m}\n")
        for t in theorems:
            f.write(f"#print axioms {t}\n")
    rc, out = sh(["lake", "env", "lean", path], cwd=LEAN, timeout=1200)
    res = {}
    for m in re.finditer(r"'([^']+)' depends on axioms: \[([^\]]*)\]", out):
        res[m.group(1)] = [a.strip() for a in m.group(2).replace("\n", " ").split(",") if a.strip()]
    for m in re.finditer(r"'([^']+)' does not depend on any axioms", out):
        res[m.group(1)] = []
    return res, out


def load_known():
    known, fixed = [], []
    p = os.path.join(VERIF, "known_findings.txt")
    if os.path.exists(p):
        for line in open(p):
            line = line.strip()
            if line.startswith("finding:"):
                m = re.match(r"finding:\s+property=(\S+)\s+class=(\S+)\s+(.*)", line)
                if m:
                    known.append(dict(property=m.group(1), cls=m.group(2), what=m.group(3)))
            elif line.startswith("fixed:"):
                fixed.append(line)
    return known, fixed


JOB_TIMEOUT = 3000   # seconds per harness job; the quick tier lowers it (a job of that tier takes a minute or two)


def run_parallel(jobs, maxpar=14, env=None):
    """jobs: list of (key, argv). Returns {key: (rc, out)}."""
    env = env or GOENV
    res, running = {}, []
    jobs = list(jobs)
    while jobs or running:
        while jobs and len(running) < maxpar:
            k, argv = jobs.pop(0)
            running.append((k, subprocess.Popen(argv, stdout=subprocess.PIPE, stderr=subprocess.STDOUT, text=True, env=env)))
        k, p = running.pop(0)
        try:
            out, _ = p.communicate(timeout=JOB_TIMEOUT)
            res[k] = (p.returncode, out)
        except subprocess.TimeoutExpired:
            p.kill()
            res[k] = (124, "timeout")
    return res


def setup():
    os.makedirs(BIN, exist_ok=True)
    with Lock("build.lock"):
        e = build_extract()
        if e:
            print(e); return 2
        e = regenerate_facts()
        if e:
            print(e); return 2
        rc, out = lake_build(["Dhcp", "DhcpProofs", "dhcp-driver"])
        if rc != 0:
            print(out[-6000:]); return 2
        e = build_harness()
        if e:
            print(e); return 2
    print("setup ok")
    return 0


def check(pid, tier, replay=None):
    t0 = time.time()
    cfg = PROPS[pid]
    seed = int(os.environ.get("VERIF_SEED", "1"))
    thorough = tier == "thorough"
    global JOB_TIMEOUT
    JOB_TIMEOUT = 3000 if thorough else 1200
    os.makedirs(BIN, exist_ok=True)
    os.makedirs(EVIDENCE_DIR, exist_ok=True)
    os.makedirs(os.path.join(VERIF, "replays"), exist_ok=True)
    workdir = os.path.join(WORK, f"run-{os.getpid()}")
    os.makedirs(workdir, exist_ok=True)
    broken = []     # obligations / correspondences that no longer check
    notes = []
    try:
        with Lock("build.lock"):
            e = build_extract()
            if e:
                print("cannot build extractor:\n" + e); return 2
            e = regenerate_facts()
            if e:
                if not repo_compiles():
                    # the source no longer compiles: not a verdict about the property
                    print(e); return 2
                # the tree compiles but the extractor cannot read it any more (an anchor's
                # package/type disappeared): the facts are not re-established
                broken.append(dict(kind="facts", name="extractor", detail=e[-1500:]))
            targets = cfg["props"] + cfg["facts"] + ["dhcp-driver"]
            rc, bout = lake_build(targets)
            prop_ths, fact_ths = [], []
            for m in cfg["props"]:
                prop_ths += [n for (_, n) in theorem_lines(module_path(m))]
            for m in cfg["facts"]:
                fact_ths += [n for (_, n) in theorem_lines(module_path(m))]
            failed = []
            if rc != 0:
                for m in cfg["props"] + cfg["facts"]:
                    failed += failed_theorems(m, bout)
                if not failed:
                    failed = ["lake build failed outside property/fact modules"]
                    notes.append(bout[-3000:])
            built_mods = [m for m in cfg["props"] + cfg["facts"]
                          if not failed_theorems(m, bout) and os.path.exists(
                              os.path.join(LEAN, ".lake/build/lib/lean", m.replace(".", "/") + ".olean"))]
            axioms, aout = audit_axioms([t for m in built_mods for (_, t) in theorem_lines(module_path(m))],
                                        built_mods, workdir) if built_mods else ({}, "")
            forb = grep_forbidden(cfg["props"])
            if thorough and built_mods:
                # replay the property/fact modules AND every project module they import
                # (the proofs live in DhcpProofs/Lemmas/*, the definitions in Dhcp/*)
                rc2, lc = sh(["lake", "env", "leanchecker"] + project_closure(built_mods), cwd=LEAN, timeout=3000)
                if rc2 != 0:
                    failed.append("leanchecker rejected the compiled proofs")
                    notes.append(lc[-2000:])
            e = build_harness()
            no_harness = False
            if e:
                if not repo_compiles():
                    print("cannot build harness against /repo (the tree does not compile):\n" + e[-4000:]); return 2
                # the library compiles but the harness does not compile against it (an exported
                # signature it uses changed): the correspondence cannot be run, so the property
                # is no longer shown to hold for this tree
                no_harness = True
                broken.append(dict(kind="correspondence", name="harness-build",
                                   detail="the correspondence harness does not compile against this tree: " + e[-1500:]))
            # private copy of the binaries so later runs cannot replace them under us
            hbin = os.path.join(workdir, "harness")
            dbin = os.path.join(workdir, "dhcp-driver")
            if not no_harness:
                shutil.copyfile(os.path.join(BIN, "harness"), hbin); os.chmod(hbin, 0o755)
            if os.path.exists(DRIVER):
                shutil.copyfile(DRIVER, dbin); os.chmod(dbin, 0o755)
            if REPO != "/repo":
                # self-test against a seeded change: everything needed from the regenerated
                # facts is built and copied by now; put the tracked Extracted.lean back to
                # what /repo itself says, so that the tree never carries a mutant's facts
                regenerate_facts(repo="/repo", facts_json=os.path.join(WORK, "facts-restore.json"))
        if no_harness:
            cfg = dict(cfg, streams=[], oracles=[], race_oracles=[])

        all_ths = prop_ths + fact_ths
        discharged, unchecked = [], []
        for t in all_ths:
            if t in failed:
                continue
            ax = axioms.get(t)
            if ax is None:
                # its module did not build because of another theorem's error
                unchecked.append(t)
                continue
            badax = [a for a in ax if a not in ALLOWED_AXIOMS]
            if badax:
                failed.append(t); notes.append(f"{t} uses axioms {badax}")
                continue
            discharged.append(t)
        if unchecked and not failed:
            failed.append("theorems could not be audited: " + ", ".join(unchecked[:5]))
        if forb:
            failed.append("forbidden construct in Lean sources"); notes += forb[:10]
        for t in failed:
            broken.append(dict(kind="proof-obligation", name=t))
        if failed and cfg.get("fact_evidence"):
            # what the extractor saw (e.g. the def chain of every VIEW): goes into the replay file
            try:
                ev = json.load(open(FACTS_JSON))
                for k in cfg["fact_evidence"].split("."):
                    ev = ev[k]
                notes += [cfg["fact_evidence"] + ": " + json.dumps(e) for e in (ev or [])[:20]]
            except Exception as e:
                notes.append(f"fact evidence unavailable: {e}")

        # ---- streams and oracles
        jobs = []
        if replay:
            rp = json.load(open(replay))
            seeds_file = os.path.join(workdir, "seeds.txt")
            open(seeds_file, "w").write("\n".join(rp.get("inputs", [])) + "\n")
            for (name, _, _) in cfg["streams"]:
                jobs.append((("stream", name), [hbin, "run", "-stream", name, "-n", "0", "-seed", str(seed), "-driver", dbin,
                                                "-corpus", seeds_file, "-out", os.path.join(workdir, f"s-{name}.json")]))
            for (name, _, _) in cfg["oracles"]:
                jobs.append((("oracle", name), [hbin, "oracle", "-name", name, "-n", "0", "-seed", str(seed),
                                                "-seeds", seeds_file, "-out", os.path.join(workdir, f"o-{name}.json")]))
        else:
            for (name, nq, nt) in cfg["streams"]:
                n = nt if thorough else nq
                argv = [hbin, "run", "-stream", name, "-n", str(n), "-seed", str(seed), "-driver", dbin,
                        "-corpus", os.path.join(VERIF, "corpus", name + ".txt"),
                        "-out", os.path.join(workdir, f"s-{name}.json")]
                if thorough:
                    argv.append("-thorough")
                jobs.append((("stream", name), argv))
        res = run_parallel(jobs)
        stream_stats, disagreements = {}, []
        for (kind, name), (rc, out) in res.items():
            if kind != "stream":
                continue
            p = os.path.join(workdir, f"s-{name}.json")
            if not os.path.exists(p):
                broken.append(dict(kind="correspondence", name=name, detail="stream crashed: " + out[-500:]))
                continue
            st = json.load(open(p))
            stream_stats[name] = st
            if st["n_disagreements"] > 0:
                broken.append(dict(kind="correspondence", name=name, detail=f"{st['n_disagreements']} disagreements"))
                disagreements += st["disagreements"]

        # oracles: always run; seeded with the disagreeing inputs when there are any
        if not replay:
            seeds_file = os.path.join(workdir, "seeds.txt")
            open(seeds_file, "w").write("\n".join(d["line"] for d in disagreements) + "\n")
            boost = 4 if broken else 1   # a broken tie widens the search for a failing input
            jobs = []
            for (name, nq, nt) in cfg["oracles"]:
                n = (nt if thorough else nq) * boost
                argv = [hbin, "oracle", "-name", name, "-n", str(n), "-seed", str(seed), "-seeds", seeds_file,
                        "-out", os.path.join(workdir, f"o-{name}.json")]
                if thorough:
                    argv.append("-thorough")
                jobs.append((("oracle", name), argv))
            res = run_parallel(jobs)
        oracle_stats, failures = {}, []
        for (kind, name), (rc, out) in res.items():
            if kind != "oracle":
                continue
            p = os.path.join(workdir, f"o-{name}.json")
            if not os.path.exists(p):
                broken.append(dict(kind="oracle", name=name, detail="oracle crashed: " + out[-500:]))
                continue
            o = json.load(open(p))
            oracle_stats[name] = o
            fs = o.get("failures") or []
            # an oracle shared with another property contributes only the failure classes that
            # concern THIS property (cfg["oracle_class_filter"]); the others are that
            # property's business (its own check reports them, known findings included)
            keep = (cfg.get("oracle_class_filter") or {}).get(name)
            if keep is not None:
                other = sorted({f["class"] for f in fs if f["class"] not in keep})
                if other:
                    notes.append(f"oracle {name}: failure classes left to the property that owns them: {', '.join(other)}")
                fs = [f for f in fs if f["class"] in keep]
            failures += fs

        # ---- thorough: the same oracles under the Go race detector (cfg["race_oracles"])
        if thorough and not replay and cfg.get("race_oracles"):
            with Lock("build.lock"):
                e = build_harness(race=True)
                rbin = os.path.join(workdir, "harness-race")
                if not e:
                    shutil.copyfile(os.path.join(BIN, "harness-race"), rbin); os.chmod(rbin, 0o755)
            if e:
                broken.append(dict(kind="oracle", name="race-build", detail="cannot build the -race harness: " + e[-500:]))
            else:
                rlog = os.path.join(workdir, "race")
                jobs = [(("race", name), [rbin, "oracle", "-name", name, "-n", str(n), "-seed", str(seed + 1), "-seeds", seeds_file,
                                          "-out", os.path.join(workdir, f"r-{name}.json")])
                        for (name, n) in cfg["race_oracles"]]
                rres = run_parallel(jobs, env=dict(GOENV, GORACE=f"log_path={rlog} halt_on_error=0 exitcode=0"))
                for (kind, name), (rc, out) in rres.items():
                    p = os.path.join(workdir, f"r-{name}.json")
                    if not os.path.exists(p):
                        broken.append(dict(kind="oracle", name=name + "(-race)", detail="oracle crashed: " + out[-500:]))
                        continue
                    o = json.load(open(p))
                    oracle_stats[name + "(-race)"] = o
                    failures += o.get("failures") or []
                reports = []
                for f in sorted(os.listdir(workdir)):
                    if f.startswith("race."):
                        reports += [r for r in open(os.path.join(workdir, f)).read().split("==================") if "DATA RACE" in r]
                for r in reports[:3]:
                    failures.append({"oracle": "race-detector", "class": "data-race",
                                     "what": "Go race detector report while driving the real code",
                                     "input": " / ".join(l.strip() for l in r.strip().splitlines()[:14])})
                notes.append(f"race detector: {len(reports)} reports")

        # ---- verdict
        known, fixed = load_known()
        known_here = [k for k in known if k["property"] == pid]
        unlisted = [f for f in failures if not any(k["cls"] == f["class"] for k in known_here)]
        listed_classes = sorted({f["class"] for f in failures if any(k["cls"] == f["class"] for k in known_here)})
        # declared known findings are printed on every run (the defect is in the tree whether or not
        # this run's sampling hit it)
        for k in known_here:
            print(f"KNOWN-FINDING: property={pid} {k['cls']}: {k['what']}")
        violation, replay_path, nfi = False, None, False
        if unlisted:
            violation = True
        elif broken:
            violation, nfi = True, True
        evaluations = sum(s["evaluations"] for s in stream_stats.values()) + sum(o["evaluations"] for o in oracle_stats.values())
        distinct = sum(s["distinct_nontrivial"] for s in stream_stats.values()) + sum(o["distinct_nontrivial"] for o in oracle_stats.values())
        samples = []
        for s in stream_stats.values():
            samples += s.get("samples") or []
        for o in oracle_stats.values():
            samples += (o.get("samples") or [])[:2]
        if violation:
            replay_path = os.path.join(VERIF, "replays", f"{pid}-{tier}-{seed}-{int(time.time())}.json")
            json.dump(dict(property=pid, tier=tier, seed=seed,
                           failing_inputs=unlisted[:20],
                           inputs=[f["input"] for f in unlisted[:20]] or [d["line"] for d in disagreements[:20]],
                           no_failing_input_found=nfi,
                           broken=broken, disagreements=disagreements[:20], notes=notes,
                           how_to_replay=f"./check {pid} --replay <this file>"),
                      open(replay_path, "w"), indent=1)
        wall = time.time() - t0
        ev = dict(
            property_id=pid, tier=tier, seed=seed, level="proof",
            coverage=dict(
                obligations=len(all_ths), discharged=len(discharged),
                checker_cmd=f"cd /verif/lean && lake build {' '.join(cfg['props'] + cfg['facts'])} && lake env lean <generated #print axioms file>" + (" && lake env leanchecker <modules>" if thorough else ""),
                trusted_base=TRUSTED_COMMON + cfg.get("trusted_extra", []),
                theorems=[dict(name=t, axioms=axioms.get(t)) for t in prop_ths],
                fact_obligations=fact_ths,
                broken=broken,
                full_statement_proved=cfg["full_statement_proved"],
                missing_part=cfg["missing"],
                evaluations=evaluations, distinct_nontrivial=distinct, rule=cfg["rule"],
                samples=samples[:8],
                streams={k: {kk: v.get(kk) for kk in ("evaluations", "distinct_nontrivial", "tags", "out_kinds", "line_size_hist",
                                                       "n_disagreements", "corpus_cases", "enumerated", "exhaustive_part", "wall_s", "extra")}
                         for k, v in stream_stats.items()},
                oracles={k: {kk: v.get(kk) for kk in ("evaluations", "distinct_nontrivial", "tags", "n_failures", "samples")}
                         for k, v in oracle_stats.items()},
                exhaustive=False,
                known_findings=[k["cls"] for k in known_here], known_findings_hit=listed_classes,
            ),
            assumptions=cfg.get("assumptions", []),
            wall_s=round(wall, 2),
            violations=(len(unlisted) if unlisted else (1 if violation else 0)),
        )
        json.dump(ev, open(os.path.join(EVIDENCE_DIR, pid + ".json"), "w"), indent=1)
        print(f"{pid} {tier}: theorems {len(discharged)}/{len(all_ths)} checked; "
              f"{evaluations} cases, {sum(s['n_disagreements'] for s in stream_stats.values())} model/code disagreements, "
              f"{len(failures)} oracle failures ({len(unlisted)} unlisted); {wall:.1f}s")
        if violation:
            for b in broken[:10]:
                print("  broken:", b["kind"], b["name"], b.get("detail", ""))
            for f in unlisted[:5]:
                print("  failing input:", f["what"], "::", f["input"][:200])
            print(f"VIOLATION property={pid} replay={replay_path}" + (" no-failing-input-found" if nfi else ""))
            return 1
        return 0
    finally:
        shutil.rmtree(workdir, ignore_errors=True)


def main():
    a = sys.argv[1:]
    if not a:
        print(__doc__); return 2
    if a[0] == "setup":
        return setup()
    if a[0] in ("check", "replay"):
        if len(a) < 2 or a[1] not in PROPS:
            print("unknown property %r; registered: %s" % (a[1] if len(a) > 1 else None, " ".join(sorted(PROPS)))); return 2
    if a[0] == "check":
        tier = a[2] if len(a) > 2 else "quick"
        if tier not in ("quick", "thorough"):
            print("tier must be quick or thorough"); return 2
        return check(a[1], tier)
    if a[0] == "replay":
        if len(a) < 3 or not os.path.exists(a[2]):
            print("replay file not found"); return 2
        return check(a[1], "quick", replay=a[2])
    print(__doc__); return 2


if __name__ == "__main__":
    sys.exit(main())

#!/bin/sh
# usage: tseed.sh <seed-id> oracle|stream <name> [n] [seed]
export GOFLAGS=-mod=mod GOPROXY=off GOSUMDB=off GOTOOLCHAIN=local
cd /verif; export VERIF_ROOT=$PWD
[ -x .work/bin/harness-$1 ] || tools/seedharness.sh $1 >/dev/null 2>&1
n=${4:-6000}; sd=${5:-1}
if [ "$2" = oracle ]; then
  timeout 900 .work/bin/harness-$1 oracle -name $3 -n $n -seed $sd -out /tmp/scratch/t.json >/dev/null 2>&1
  python3 -c "
import json; d=json.load(open('/tmp/scratch/t.json')); fs=[f for f in (d['failures'] or []) if f['class'] not in ('stale-datagram','v6-fixpoint-length-overflow','C18/read-empty-frame-eof','C18/read-oversize-frame-dropped')]; print('$1 oracle $3:', d['n_failures'], 'failures of', d['evaluations'], '| unlisted shown:', len(fs)); print([(f['class'], f['what'][:180], f['input'][:70]) for f in fs[:2]])"
else
  timeout 900 .work/bin/harness-$1 run -stream $3 -n $n -seed $sd -driver lean/.lake/build/bin/dhcp-driver -out /tmp/scratch/t.json >/dev/null 2>&1
  python3 -c "
import json; d=json.load(open('/tmp/scratch/t.json')); print('$1 stream $3:', d['n_disagreements'], 'disagreements of', d['evaluations']); print([(x['line'][:70], x['go'][:70], x['model'][:70]) for x in d['disagreements'][:1]])"
fi

import Dhcp.Driver.V4
import Dhcp.V4.Build
/-
  Line protocol of the `v4build` family (C15, C13): the DHCPv4 builders.

    v4build new                                   mods=<M>
    v4build discover hw=<hex>                     mods=<M>
    v4build inform   hw=<hex> ip=<nil|hex>        mods=<M>
    v4build reqoffer in=<P>                       mods=<M>
    v4build renew    in=<P>                       mods=<M>
    v4build reply    in=<P>                       mods=<M>
    v4build release  in=<P>                       mods=<M>
      -> ok <packet as printed by showPkt4>

  <P>  a packet: the fields of `showPkt4` joined by ';' instead of ' '; an
       option value may be written `nil` (Go nil slice) or `-` (empty non-nil).
  <M>  `-` or modifiers joined by '+'; a modifier is its tag and arguments
       joined by '/':
         xid/<hex>  ci/<ip> yi/<ip> si/<ip> gi/<ip>  copied/<code>/<P>  reply/<P>
         hwtype/<n>  bcast/<0|1>  hw/<hex>  without/<code>  uclass/<hex>/<0|1>
         netboot  mt/<n>  ro/<codes>  relay/<ip>  mask/<hex>  lease/<n>
         v6only/<n>  dsl/<hex encoded>/<labels>  generic/<code>/<hex>
         router/<ips>  dns/<ips>
         opt/g/<code>/<hex>  opt/mt/<n>  opt/rip/<ip>  opt/sid/<ip>  opt/prl/<hex codes>
       <ip> = nil | hex;  <ips> = `none` or <ip> joined by ','.
       <codes> = `none` or codes joined by ',': two hex digits for a code of
       the package's own type (as the `Option…` constants), `g` + two hex digits
       for a `GenericOptionCode`.
  The transaction id `New` draws is not on the line: the model uses 00000000
  and the harness prints 00000000 when the real one was drawn at random.
-/
namespace Dhcp.Driver
open Dhcp Dhcp.V4

/-- value of the token `key=...` (the value may itself contain '=') -/
def fieldRaw (toks : List String) (key : String) : Option String :=
  toks.findSome? (fun t => if t.startsWith (key ++ "=") then some (t.drop (key.length + 1)).toString else none)

def parsePktSemi (s : String) : Option Pkt4 :=
  parsePkt4 ((s.replace ":nil" ":-").splitOn ";")

def parseIPs (s : String) : Option (List IP) :=
  if s == "none" then some [] else (s.splitOn ",").mapM unhexOpt

def parseBool (s : String) : Option Bool :=
  if s == "1" then some true else if s == "0" then some false else none

def parseCode (s : String) : Option UInt8 := do
  let n ← s.toNat?
  if n < 256 then some (UInt8.ofNat n) else none

def parseOptCode (s : String) : Option OptCode :=
  if s.startsWith "g" then
    match unhex (s.drop 1).toString with
    | some [c] => some ⟨true, c⟩
    | _ => none
  else
    match unhex s with
    | some [c] => some ⟨false, c⟩
    | _ => none

def parseOptCodes (s : String) : Option (List OptCode) :=
  if s == "none" then some [] else (s.splitOn ",").mapM parseOptCode

def parseOptVal : List String → Option OptVal
  | ["g", c, v] => do pure (.generic (← parseCode c) (← unhex v))
  | ["mt", n] => do pure (.messageType (← parseCode n))
  | ["rip", ip] => do pure (.requestedIP (← unhexOpt ip))
  | ["sid", ip] => do pure (.serverID (← unhexOpt ip))
  | ["prl", cs] => do pure (.paramList (← unhex cs))
  | _ => none

def parseModifier (s : String) : Option Modifier :=
  match s.splitOn "/" with
  | ["xid", x] => do pure (.withTransactionID (← unhex x))
  | ["ci", ip] => do pure (.withClientIP (← unhexOpt ip))
  | ["yi", ip] => do pure (.withYourIP (← unhexOpt ip))
  | ["si", ip] => do pure (.withServerIP (← unhexOpt ip))
  | ["gi", ip] => do pure (.withGatewayIP (← unhexOpt ip))
  | ["copied", c, p] => do pure (.withOptionCopied (← parsePktSemi p) (← parseCode c))
  | ["reply", p] => do pure (.withReply (← parsePktSemi p))
  | ["hwtype", n] => do pure (.withHWType (← n.toNat?))
  | ["bcast", b] => do pure (.withBroadcast (← parseBool b))
  | ["hw", h] => do pure (.withHwAddr (← unhex h))
  | "opt" :: rest => do pure (.withOption (← parseOptVal rest))
  | ["without", c] => do pure (.withoutOption (← parseCode c))
  | ["uclass", u, b] => do pure (.withUserClass (← unhex u) (← parseBool b))
  | ["netboot"] => some .withNetboot
  | ["mt", n] => do pure (.withMessageType (← parseCode n))
  | ["ro", cs] => do pure (.withRequestedOptions (← parseOptCodes cs))
  | ["relay", ip] => do pure (.withRelay (← unhexOpt ip))
  | ["mask", m] => do pure (.withNetmask (← unhex m))
  | ["lease", n] => do pure (.withLeaseTime (← n.toNat?))
  | ["v6only", n] => do pure (.withIPv6OnlyPreferred (← n.toNat?))
  | ["dsl", enc, _labels] => do pure (.withDomainSearchList (← unhex enc))
  | ["generic", c, v] => do pure (.withGeneric (← parseCode c) (← unhex v))
  | ["router", ips] => do pure (.withRouter (← parseIPs ips))
  | ["dns", ips] => do pure (.withDNS (← parseIPs ips))
  | _ => none

def parseModifiers (s : String) : Option (List Modifier) :=
  if s == "-" then some [] else (s.splitOn "+").mapM parseModifier

def parseBuilder (kind : String) (toks : List String) : Option Builder :=
  match kind with
  | "new" => some .new
  | "discover" => do pure (.discovery (← unhex (← fieldRaw toks "hw")))
  | "inform" => do pure (.inform (← unhex (← fieldRaw toks "hw")) (← unhexOpt (← fieldRaw toks "ip")))
  | "reqoffer" => do pure (.requestFromOffer (← parsePktSemi (← fieldRaw toks "in")))
  | "renew" => do pure (.renewFromAck (← parsePktSemi (← fieldRaw toks "in")))
  | "reply" => do pure (.replyFromRequest (← parsePktSemi (← fieldRaw toks "in")))
  | "release" => do pure (.releaseFromAck (← parsePktSemi (← fieldRaw toks "in")))
  | _ => none

def stepV4Build (op : String) (args : List String) : Option String :=
  match op, args with
  | "v4build", kind :: toks => do
    let b ← parseBuilder kind toks
    let mods ← parseModifiers (← fieldRaw toks "mods")
    pure ("ok " ++ showPkt4 (build b (zeros 4) mods))
  | _, _ => none

end Dhcp.Driver

import Dhcp.Driver.Hex
import Dhcp.Client.Timed
import Dhcp.Driver.ClientLTS
/-
  Line-protocol operations of the `Client` family.

  `client4|client6 T=<ns> n=<int> cap=<k> m=<tag|nil> H=<ns> ev=<t>:<kind>:<s|n>,…`
      one SendAndRead call under virtual time (Dhcp.Client.Timed.runCall).
      kinds: acc rej (same xid, matcher accepts / rejects; with m=nil both are
      accepted), ix ig io ih ih0 ih3 ih5 ihx ie (wrong xid, garbage, wrong op,
      other hwaddr / empty / 3- and 5-byte prefix / extension of the client's
      hwaddr, empty datagram: all dropped by the receive loop), can (ctx cancelled), cdl (the
      context was created with its deadline at this instant: ctx.Err() is
      context.DeadlineExceeded; first event of its instant), clo (Close).
      `s` = applied after quiescence, `n` = applied right away, `w` = handed over
      by the peer from inside the WriteTo made at that instant.
      optional `werr=<k>`: the k-th WriteTo of the call (0-based) fails while the
      client is open (outcome `werr` at that instant, k transmissions).
      optional `cerr=<1|2>`: the conn's Close reports an error (1: but closes,
      2: and stays open - then Close cannot return).
      Output: `ok <alt> | <alt> | …`, every result the model allows, each
      `tx=<t,…|-> ret=<t>:<resp<i>|noresp|ctx>|running close=<t|->`; each `<t>` is
      followed by `:badbytes` / `:baddest` when the model's transmission
      (Timed.wire = Timed.runObsB) does not carry the encoding of the request as
      at call entry / does not go to the requested destination (never, for a
      request that is not modified during the call: C12_bytes).

  `client4h|client6h T=<ns> n=<k> calls=<c> mut=<x|o|xo>`: c successive calls on
      one client with the SAME message object, mutated between calls (x: new
      transaction id, o: option added/changed), no traffic. Each call is an
      independent run of the timed model; output `ok c0=<tx…>:<ret> c1=…` with
      instants relative to the call's start.

  `client4m|client6m …`: multi-caller scenarios on the interleaving model, see
  Dhcp/Driver/ClientLTS.lean.
-/
namespace Dhcp.Driver.Cli
open Dhcp.Client

def parseEvKind (matchNil : Bool) : String → Option Timed.EvKind
  | "acc" => some .acc
  | "rej" => some (if matchNil then .acc else .rej)
  | "ix" | "ig" | "io" | "ih" | "ih0" | "ih3" | "ih5" | "ihx" | "ie" | "ib0" | "ib8" => some .irr
  | "can" | "cdl" => some .cancel
  | "clo" => some .close
  | _ => none

def parseEvent (matchNil : Bool) (s : String) : Option Timed.Event :=
  match s.splitOn ":" with
  | [t, ks, f] => do
    let t ← t.toInt?
    let k ← parseEvKind matchNil ks
    -- `w`: handed to the receive loop from inside the WriteTo made at this (transmission)
    -- instant, which returns only after the loop has dealt with it: like `s`
    let sync ← (if f == "s" || f == "w" then some true else if f == "n" then some false else none)
    -- `cdl`: the context's own deadline timer fires when the clock reaches `t`, concurrently with
    -- a per-try deadline on the same instant whatever the script does: always racing
    pure { t := t, kind := k, sync := sync && ks != "cdl" }
  | _ => none

def parseEvents (matchNil : Bool) (s : String) : Option (List Timed.Event) :=
  if s == "-" then some [] else (s.splitOn ",").mapM (parseEvent matchNil)

def showOutcome : Timed.Outcome → String
  | .resp i => s!"resp{i}"
  | .noResp => "noresp"
  | .ctxErr => "ctx"
  | .writeErr => "werr"

/-- The request and the destination are abstract in the driver: request value
`v` (a version number: 0 = the request as it is at call entry, which is what the
harness encodes as `want` before the call) encodes to `[v]`, destination 0 is
the one handed to `SendAndRead`.  One call in which the caller leaves the
request alone = `Call.const`. -/
def drvEnc (v : Nat) : List UInt8 := [UInt8.ofNat v]
def drvCall (version : Nat) : Timed.Call Nat Nat := Timed.Call.const drvEnc version 0

/-- one transmission as the model with bytes has it (`Timed.wire`, =
`Timed.runObsB` by `runObsB_sent`): the instant, `:badbytes` when the bytes are
not the encoding of the request as at call entry, `:baddest` when the
destination is not the requested one - the flags the harness prints for the
real client's WriteTo calls. -/
def showTx (c : Timed.Call Nat Nat) (tx : Timed.Tx Nat) : String :=
  toString tx.t ++ (if tx.bytes = c.enc (c.reqAt 0) then "" else ":badbytes")
    ++ (if tx.dest = 0 then "" else ":baddest")

def showTxs (c : Timed.Call Nat Nat) (txs : List Int) : String :=
  if txs.isEmpty then "-" else ",".intercalate ((Timed.wire c txs).map (showTx c))

def showResult (close : Option Int) (r : Timed.Result) : String :=
  let ret := match r.ret with
    | some (t, o) => s!"{t}:{showOutcome o}"
    | none => "running"
  let cl := match close with
    | some t => toString t
    | none => "-"
  s!"tx={showTxs (drvCall 0) r.txs} ret={ret} close={cl}"

def stepTimed (args : List String) : Option String := do
  let f := field args
  let T ← (← f "T").toInt?
  let n ← (← f "n").toInt?
  let H ← (← f "H").toInt?
  let m ← f "m"
  let evs ← parseEvents (m == "nil") (← f "ev")
  -- werr=<k>: the k-th WriteTo fails with the client open
  let rs := match (f "werr").bind String.toNat? with
    | some k => Timed.dedup ((Timed.runCall T n evs H).map (Timed.applyWriteFault T k))
    | none => Timed.runCall T n evs H
  -- cerr=2: the conn's Close fails and leaves the conn open: the receive loop cannot end, Close waits
  let cl := if f "cerr" == some "2" then none
            else (Timed.closeTime evs).bind (fun t => if t ≤ H then some t else none)
  pure ("ok " ++ " | ".intercalate (rs.map (showResult cl)))

def stepHistory (args : List String) : Option String := do
  let f := field args
  let T ← (← f "T").toInt?
  let n ← (← f "n").toInt?
  let calls ← (← f "calls").toNat?
  let r := Timed.runObs T n [] (T * 2 ^ (n.toNat + 1))
  let ret := match r.ret with
    | some (t, o) => s!"{t}:{showOutcome o}"
    | none => "running"
  -- call j is made with the request as mutated j times: every transmission of call j carries THAT encoding
  pure ("ok " ++ " ".intercalate ((List.range calls).map (fun j => s!"c{j}={showTxs (drvCall j) r.txs}:{ret}")))

def stepClient (op : String) (args : List String) : Option String :=
  match op with
  | "client4" | "client6" => stepTimed args
  | "client4h" | "client6h" => stepHistory args
  | _ => stepClientLTS op args

end Dhcp.Driver.Cli

import Dhcp.Driver.Hex
/- Line-protocol operations of the `Client` family (stub until the model lands). -/
namespace Dhcp.Driver

def stepClient (_op : String) (_args : List String) : Option String := none

end Dhcp.Driver

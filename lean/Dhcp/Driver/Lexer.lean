import Dhcp.Driver.Hex
import Dhcp.Go.Lexer
/-
  Line-protocol operations of the `Lexer` family: the model of
  `github.com/u-root/uio/uio.Lexer` (Dhcp/Go/Lexer.lean), the dependency every
  decoder model is written against, run as a program of reads on one buffer.

    lexer <hex> <op>,<op>,...   -> ok <result>;<result>;...

  ops (results):  r8 r16 r32 r64 (the number read, 0 on a short read),
  c<n> = Consume(n), n<n> = CopyN(n) (hex, `nil` on a short read),
  b<n> = ReadBytes into a zeroed n-byte array (hex), a = ReadAll (hex),
  h<n> = Has(n) (0/1), l = Len, e = Error() != nil (0/1),
  f = FinError() != nil (0/1).
-/
namespace Dhcp.Driver
open Dhcp

def b01 (b : Bool) : String := if b then "1" else "0"

def lexOp (l : Lexer) (op : String) : Option (String × Lexer) :=
  let arg : Option Nat := (op.drop 1).toString.toNat?
  if op == "r8" then let (v, l') := l.read8; some (toString v.toNat, l')
  else if op == "r16" then let (v, l') := l.read16; some (toString v, l')
  else if op == "r32" then let (v, l') := l.read32; some (toString v, l')
  else if op == "r64" then let (v, l') := l.read64; some (toString v, l')
  else if op == "a" then let (v, l') := l.readAll; some (hex v, l')
  else if op == "l" then some (toString l.len, l)
  else if op == "e" then some (b01 l.error, l)
  else if op == "f" then some (b01 l.finError, l)
  else match op.front, arg with
    | 'c', some n => let (v, l') := l.consume n; some (hexOpt v, l')
    | 'n', some n => let (v, l') := l.copyN n; some (hexOpt v, l')
    | 'b', some n => let (v, l') := l.readBytes n; some (hex v, l')
    | 'h', some n => some (b01 (l.has n), l)
    | _, _ => none

def lexRun : Lexer → List String → List String → Option (List String)
  | _, [], acc => some acc.reverse
  | l, op :: ops, acc =>
    match lexOp l op with
    | some (s, l') => lexRun l' ops (s :: acc)
    | none => none

def stepLexer (op : String) (args : List String) : Option String :=
  match op, args with
  | "lexer", [h, prog] => do
    let b ← unhex h
    let rs ← lexRun (Lexer.new b) (prog.splitOn ",") []
    pure ("ok " ++ ";".intercalate rs)
  | _, _ => none

end Dhcp.Driver

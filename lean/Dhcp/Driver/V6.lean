import Dhcp.Driver.Hex
/- Line-protocol operations of the `V6` family (stub until the model lands). -/
namespace Dhcp.Driver

def stepV6 (_op : String) (_args : List String) : Option String := none

end Dhcp.Driver

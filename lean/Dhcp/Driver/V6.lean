import Dhcp.Driver.Sx
import Dhcp.Driver.V4
import Dhcp.V6.Codec
import Dhcp.V6.Domain
/- Line-protocol operations of the DHCPv6 codec. -/
namespace Dhcp.Driver
open Dhcp Dhcp.V6

def sxLabels (l : Label.Labels) : Sx := .app "L" [sxOptBytes l.original, .list (l.labels.map sxBytes)]

def sxDUID : DUID → Sx
  | .llt ht t a => .app "llt" [sxNat ht, sxNat t, sxBytes a]
  | .en n i => .app "en" [sxNat n, sxBytes i]
  | .ll ht a => .app "ll" [sxNat ht, sxBytes a]
  | .uuid u => .app "uuid" [sxBytes u]
  | .opaque t d => .app "opaque" [sxNat t, sxBytes d]

def sxNTP : NTPSub → Sx
  | .srvAddr ip => .app "srvaddr" [sxOptBytes ip]
  | .mcAddr ip => .app "mcaddr" [sxOptBytes ip]
  | .srvFQDN l => .app "srvfqdn" [sxLabels l]
  | .generic c d => .app "g" [sxNat c, sxBytes d]

def sxPkt4 (p : V4.Pkt4) : Sx := .atom (((showPkt4 p).replace " " "|").replace "," "+")

mutual
partial def sxOpt : Opt6 → Sx
  | .clientID d => .app "clientid" [sxDUID d]
  | .serverID d => .app "serverid" [sxDUID d]
  | .iana i t1 t2 os => .app "iana" [sxBytes i, sxInt t1, sxInt t2, .list (os.map sxOpt)]
  | .iata i os => .app "iata" [sxBytes i, .list (os.map sxOpt)]
  | .iaaddr ip p v os => .app "iaaddr" [sxOptBytes ip, sxInt p, sxInt v, .list (os.map sxOpt)]
  | .oro cs => .app "oro" [.list (cs.map sxNat)]
  | .elapsed d => .app "elapsed" [sxInt d]
  | .relayMsg m => .app "relaymsg" [sxMsg m]
  | .status c m => .app "status" [sxNat c, sxBytes m]
  | .userClass cls => .app "userclass" [.list (cls.map sxBytes)]
  | .vendorClass en ds => .app "vendorclass" [sxNat en, .list (ds.map sxBytes)]
  | .vendorOpts en os => .app "vendoropts" [sxNat en, .list (os.map (fun o => .app "g" [sxNat o.1, sxBytes o.2]))]
  | .interfaceID id => .app "interfaceid" [sxBytes id]
  | .dns ips => .app "dns" [.list (ips.map sxOptBytes)]
  | .domainSearch l => .app "domainsearch" [sxLabels l]
  | .iapd i t1 t2 os => .app "iapd" [sxBytes i, sxInt t1, sxInt t2, .list (os.map sxOpt)]
  | .iaprefix p v pfx os =>
    .app "iaprefix" [sxInt p, sxInt v,
      (match pfx with | none => .atom "nil" | some (n, ip) => .app "pfx" [sxNat n, sxOptBytes ip]),
      .list (os.map sxOpt)]
  | .infoRefresh d => .app "inforefresh" [sxInt d]
  | .remoteID en id => .app "remoteid" [sxNat en, sxBytes id]
  | .fqdn f n => .app "fqdn" [sxNat f.toNat, sxLabels n]
  | .ntp subs => .app "ntp" [.list (subs.map sxNTP)]
  | .bootfileURL u => .app "bootfileurl" [sxBytes u]
  | .bootfileParam ps => .app "bootfileparam" [.list (ps.map sxBytes)]
  | .archType as => .app "archtype" [.list (as.map sxNat)]
  | .nii t ma mi => .app "nii" [sxNat t.toNat, sxNat ma.toNat, sxNat mi.toNat]
  | .clientLLA ht a => .app "clientlla" [sxNat ht, sxBytes a]
  | .dhcpv4Msg p => .app "dhcpv4msg" [sxPkt4 p]
  | .dhcp4o6Server ips => .app "dhcp4o6server" [.list (ips.map sxOptBytes)]
  | .fourRD os => .app "4rd" [.list (os.map sxOpt)]
  | .fourRDMapRule a b c d e f => .app "4rdmap" [sxNat a, sxOptBytes b, sxNat c, sxOptBytes d, sxNat e.toNat, sxBool f]
  | .fourRDNonMapRule h tc p =>
    .app "4rdnonmap" [sxBool h, (match tc with | none => .atom "nil" | some t => sxNat t.toNat), sxNat p]
  | .relayPort p => .app "relayport" [sxNat p]
  | .generic c d => .app "g" [sxNat c, sxBytes d]
partial def sxMsg : Msg6 → Sx
  | .msg t x os => .app "M" [sxNat t.toNat, sxBytes x, .list (os.map sxOpt)]
  | .relay t h l p os => .app "R" [sxNat t.toNat, sxNat h.toNat, sxOptBytes l, sxOptBytes p, .list (os.map sxOpt)]
end

def ofSxLabels : Sx → Option Label.Labels
  | .app "L" [o, .list ns] => do
    let o ← o.optBytes
    let ns ← ns.mapM Sx.bytes
    pure { original := o, labels := ns }
  | _ => none

def ofSxDUID : Sx → Option DUID
  | .app "llt" [a, b, c] => do pure (.llt (← a.nat) (← b.nat) (← c.bytes))
  | .app "en" [a, b] => do pure (.en (← a.nat) (← b.bytes))
  | .app "ll" [a, b] => do pure (.ll (← a.nat) (← b.bytes))
  | .app "uuid" [a] => do pure (.uuid (← a.bytes))
  | .app "opaque" [a, b] => do pure (.opaque (← a.nat) (← b.bytes))
  | _ => none

def ofSxNTP : Sx → Option NTPSub
  | .app "srvaddr" [a] => do pure (.srvAddr (← a.optBytes))
  | .app "mcaddr" [a] => do pure (.mcAddr (← a.optBytes))
  | .app "srvfqdn" [a] => do pure (.srvFQDN (← ofSxLabels a))
  | .app "g" [a, b] => do pure (.generic (← a.nat) (← b.bytes))
  | _ => none

def ofSxPkt4 : Sx → Option V4.Pkt4
  | .atom s => parsePkt4 ((s.replace "+" ",").splitOn "|")
  | _ => none

def u8 (n : Nat) : UInt8 := UInt8.ofNat n

mutual
partial def ofSxOpt : Sx → Option Opt6
  | .app "clientid" [d] => do pure (.clientID (← ofSxDUID d))
  | .app "serverid" [d] => do pure (.serverID (← ofSxDUID d))
  | .app "iana" [i, a, b, .list os] => do pure (.iana (← i.bytes) (← a.int) (← b.int) (← os.mapM ofSxOpt))
  | .app "iata" [i, .list os] => do pure (.iata (← i.bytes) (← os.mapM ofSxOpt))
  | .app "iaaddr" [ip, a, b, .list os] => do pure (.iaaddr (← ip.optBytes) (← a.int) (← b.int) (← os.mapM ofSxOpt))
  | .app "oro" [.list cs] => do pure (.oro (← cs.mapM Sx.nat))
  | .app "elapsed" [d] => do pure (.elapsed (← d.int))
  | .app "relaymsg" [m] => do pure (.relayMsg (← ofSxMsg m))
  | .app "status" [c, m] => do pure (.status (← c.nat) (← m.bytes))
  | .app "userclass" [.list cs] => do pure (.userClass (← cs.mapM Sx.bytes))
  | .app "vendorclass" [e, .list ds] => do pure (.vendorClass (← e.nat) (← ds.mapM Sx.bytes))
  | .app "vendoropts" [e, .list os] => do
    let os ← os.mapM (fun o => match o with
      | .app "g" [c, d] => do pure ((← c.nat), (← d.bytes))
      | _ => none)
    pure (.vendorOpts (← e.nat) os)
  | .app "interfaceid" [i] => do pure (.interfaceID (← i.bytes))
  | .app "dns" [.list ips] => do pure (.dns (← ips.mapM Sx.optBytes))
  | .app "domainsearch" [l] => do pure (.domainSearch (← ofSxLabels l))
  | .app "iapd" [i, a, b, .list os] => do pure (.iapd (← i.bytes) (← a.int) (← b.int) (← os.mapM ofSxOpt))
  | .app "iaprefix" [a, b, pfx, .list os] => do
    let pfx ← (match pfx with
      | .atom "nil" => some none
      | .app "pfx" [n, ip] => do pure (some ((← n.nat), (← ip.optBytes)))
      | _ => none)
    pure (.iaprefix (← a.int) (← b.int) pfx (← os.mapM ofSxOpt))
  | .app "inforefresh" [d] => do pure (.infoRefresh (← d.int))
  | .app "remoteid" [e, i] => do pure (.remoteID (← e.nat) (← i.bytes))
  | .app "fqdn" [f, n] => do pure (.fqdn (u8 (← f.nat)) (← ofSxLabels n))
  | .app "ntp" [.list ss] => do pure (.ntp (← ss.mapM ofSxNTP))
  | .app "bootfileurl" [u] => do pure (.bootfileURL (← u.bytes))
  | .app "bootfileparam" [.list ps] => do pure (.bootfileParam (← ps.mapM Sx.bytes))
  | .app "archtype" [.list xs] => do pure (.archType (← xs.mapM Sx.nat))
  | .app "nii" [a, b, c] => do pure (.nii (u8 (← a.nat)) (u8 (← b.nat)) (u8 (← c.nat)))
  | .app "clientlla" [h, a] => do pure (.clientLLA (← h.nat) (← a.bytes))
  | .app "dhcpv4msg" [p] => do pure (.dhcpv4Msg (← ofSxPkt4 p))
  | .app "dhcp4o6server" [.list ips] => do pure (.dhcp4o6Server (← ips.mapM Sx.optBytes))
  | .app "4rd" [.list os] => do pure (.fourRD (← os.mapM ofSxOpt))
  | .app "4rdmap" [a, b, c, d, e, f] => do
    pure (.fourRDMapRule (← a.nat) (← b.optBytes) (← c.nat) (← d.optBytes) (u8 (← e.nat)) (← f.bool))
  | .app "4rdnonmap" [h, tc, p] => do
    let tc ← (match tc with
      | .atom "nil" => some none
      | t => t.nat.map (fun n => some (u8 n)))
    pure (.fourRDNonMapRule (← h.bool) tc (← p.nat))
  | .app "relayport" [p] => do pure (.relayPort (← p.nat))
  | .app "g" [c, d] => do pure (.generic (← c.nat) (← d.bytes))
  | _ => none
partial def ofSxMsg : Sx → Option Msg6
  | .app "M" [t, x, .list os] => do pure (.msg (u8 (← t.nat)) (← x.bytes) (← os.mapM ofSxOpt))
  | .app "R" [t, h, l, p, .list os] => do
    pure (.relay (u8 (← t.nat)) (u8 (← h.nat)) (← l.optBytes) (← p.optBytes) (← os.mapM ofSxOpt))
  | _ => none
end

def showR {α} (f : α → Sx) : Res α → String
  | .ok a => "ok " ++ (f a).show
  | .err => "err"
  | .panic => "panic"

def stepV6 (op : String) (args : List String) : Option String :=
  match op, args with
  | "v6dec", [h] => do pure (showR sxMsg (dec6 (← unhex h)))
  | "v6msgdec", [h] => do pure (showR sxMsg (decMessage (← unhex h)))
  | "v6relaydec", [h] => do pure (showR sxMsg (decRelay (← unhex h)))
  | "v6opt", [c, h] => do pure (showR sxOpt (parseOption (← c.toNat?) (← unhex h)))
  | "v6opts", [h] => do pure (showR (fun os => Sx.list (os.map sxOpt)) (decOpts (← unhex h)))
  | "v6duid", [h] => do pure (showR sxDUID (decDUID (← unhex h)))
  | "v6enc", [t] => do
    let m ← ofSxMsg (← Sx.parse t)
    pure ("ok " ++ hex (encMsg m))
  | "v6trip", [t] => do
    -- FromBytes(ToBytes(m)), and whether it is the normal form of m (fresh
    -- label sets replaced by their decoded form: C02_roundtrip_fresh)
    let m ← ofSxMsg (← Sx.parse t)
    pure (match dec6 (encMsg m) with
      | .ok m' =>
        let s := (sxMsg m').show
        "ok " ++ s ++ " norm=" ++ (if s == (sxMsg (normMsg m)).show then "1" else "0")
      | .err => "err"
      | .panic => "panic")
  | "v6optenc", [t] => do
    let o ← ofSxOpt (← Sx.parse t)
    pure ("ok " ++ toString o.code ++ " " ++ hex (encOpt o))
  | "v6fix", [h] => do
    let b ← unhex h
    pure (match dec6 b with
      | .ok m =>
        let b1 := encMsg m
        (match dec6 b1 with
         | .ok m1 => "ok " ++ hex b1 ++ " " ++ hex (encMsg m1)
         | _ => "ok " ++ hex b1 ++ " err")
      | .err => "err"
      | .panic => "panic")
  | _, _ => none

end Dhcp.Driver

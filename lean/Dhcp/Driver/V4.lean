import Dhcp.Driver.Hex
import Dhcp.V4.Packet
namespace Dhcp.Driver
open Dhcp Dhcp.V4

def showOpts (o : Opts) : String :=
  let l := o.toList
  if l.isEmpty then "-" else ",".intercalate (l.map (fun (k, v) => s!"{k.toNat}:{hex v}"))

def parseOpts (s : String) : Option Opts :=
  if s == "-" then some Opts.empty
  else
    (s.splitOn ",").foldlM (fun (o : Opts) t =>
      match t.splitOn ":" with
      | [k, v] => do
        let k ← k.toNat?
        let v ← unhex v
        pure (o.set (UInt8.ofNat k) v)
      | _ => none) Opts.empty

def showPkt4 (p : Pkt4) : String :=
  s!"op={p.op.toNat} htype={p.htype} hw={hex p.hw} hops={p.hops.toNat} xid={hex p.xid} secs={p.secs} flags={p.flags} ci={hexOpt p.ciaddr} yi={hexOpt p.yiaddr} si={hexOpt p.siaddr} gi={hexOpt p.giaddr} sname={hex p.sname} file={hex p.file} opts={showOpts p.opts}"

def parsePkt4 (toks : List String) : Option Pkt4 := do
  let f := field toks
  let op ← (← f "op").toNat?
  let htype ← (← f "htype").toNat?
  let hw ← unhex (← f "hw")
  let hops ← (← f "hops").toNat?
  let xid ← unhex (← f "xid")
  let secs ← (← f "secs").toNat?
  let flags ← (← f "flags").toNat?
  let ci ← unhexOpt (← f "ci")
  let yi ← unhexOpt (← f "yi")
  let si ← unhexOpt (← f "si")
  let gi ← unhexOpt (← f "gi")
  let sname ← unhex (← f "sname")
  let file ← unhex (← f "file")
  let opts ← parseOpts (← f "opts")
  pure { op := UInt8.ofNat op, htype := htype, hw := hw, hops := UInt8.ofNat hops, xid := xid,
         secs := secs, flags := flags, ciaddr := ci, yiaddr := yi, siaddr := si, giaddr := gi,
         sname := sname, file := file, opts := opts }

def showRes {α} (sh : α → String) : Res α → String
  | .ok a => "ok " ++ sh a
  | .err => "err"
  | .panic => "panic"

def stepV4 (op : String) (args : List String) : Option String :=
  match op, args with
  | "v4dec", [h] => do
    let b ← unhex h
    pure (showRes showPkt4 (dec4 b))
  | "v4enc", toks => do
    let p ← parsePkt4 toks
    pure (showRes hex (enc4 p))
  | "v4fix", [h] => do
    let b ← unhex h
    pure (match dec4 b with
      | .ok p =>
        match enc4 p with
        | .ok b1 =>
          (match dec4 b1 with
           | .ok p1 =>
             (match enc4 p1 with
              | .ok b2 => "ok " ++ hex b1 ++ " " ++ hex b2
              | _ => "ok " ++ hex b1 ++ " encfail")
           | _ => "ok " ++ hex b1 ++ " err")
        | .err => "encerr"
        | .panic => "panic"
      | .err => "err"
      | .panic => "panic")
  | "v4optsdec", [h] => do
    let b ← unhex h
    pure (match optsFromBytes Opts.empty b false with
          | none => "err"
          | some o => "ok " ++ showOpts o)
  | "v4optsenc", [s] => do
    let o ← parseOpts s
    pure ("ok " ++ hex (marshalOpts o))
  | _, _ => none

end Dhcp.Driver

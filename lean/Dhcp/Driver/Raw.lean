import Dhcp.Driver.Hex
import Dhcp.Raw
/-
  Line-protocol operations of the `Raw` family (nclient4's raw broadcast
  connection):

    rawwr <payloadhex> dst=<iphex|nil>:<port> src=<iphex|nil>:<port>|none
        -> ok <framehex> | panic
       the frame BroadcastRawUDPConn.WriteTo hands to the underlying conn
       (src = the bound address; `none` = nil *net.UDPAddr)
    rawcw src=<iphex|nil>:<port> warm=<n|-> rel=<digits> <payloadhex>@<iphex|nil>:<port> ...
        -> ok <framehex> <framehex> ... | panic
       2..4 writers on one connection, all inside the underlying WriteTo at
       the same time: the frame each one handed to the socket, in writer
       order (warm-up write and release order do not matter to the model)
    rawrd bound=<iphex|nil>:<port>|none buflen=<n> <framehex> <framehex> ...
        -> ok <payloadhex>@<srciphex>:<port> ... [eof] ... end | panic
       every result of repeated ReadFrom calls over the scripted frames, in
       order; `eof` = a call that returned io.EOF; `end` = the script's error.
-/
namespace Dhcp.Driver
open Dhcp Dhcp.Raw

/-- `<iphex|nil>:<port>` or `none` (nil pointer) -/
def parseAddr (s : String) : Option (Option Addr) :=
  if s == "none" then some none
  else match s.splitOn ":" with
    | [ip, port] => do
      let ip ← unhexOpt ip
      let port ← port.toNat?
      pure (some { ip := ip, port := port })
    | _ => none

def showStep : Step → String
  | .deliver p ip port => s!"{hex p}@{hex ip}:{port}"
  | .eof => "eof"
  | .skip => "skip"

def isFrameTok (t : String) : Bool := !(t.toList.contains '=')

def stepRaw (op : String) (args : List String) : Option String :=
  match op, args with
  | "rawwr", p :: rest => do
    let payload ← unhex p
    let dst ← parseAddr (← field rest "dst")
    let src ← parseAddr (← field rest "src")
    let dst ← dst
    pure (match writeTo src payload dst with
          | .ok f => "ok " ++ hex f
          | .err => "err"
          | .panic => "panic")
  | "rawcw", toks => do
    let src ← parseAddr (← field toks "src")
    let ws ← (toks.filter (fun t => t.toList.contains '@')).mapM (fun t =>
      match t.splitOn "@" with
      | [p, a] => do
        let p ← unhex p
        let a ← parseAddr a
        let a ← a
        pure (p, a)
      | _ => none)
    pure (match writeAll src ws with
          | .ok fs => " ".intercalate ("ok" :: fs.map hex)
          | .err => "err"
          | .panic => "panic")
  | "rawrd", toks => do
    let bound ← parseAddr (← field toks "bound")
    let buflen ← (← field toks "buflen").toNat?
    let frames ← (toks.filter isFrameTok).mapM unhex
    pure (match readFrames bound buflen frames with
          | .ok steps => " ".intercalate ("ok" :: steps.map showStep ++ ["end"])
          | .err => "err"
          | .panic => "panic")
  | _, _ => none

end Dhcp.Driver

import Dhcp.Driver.Hex
/- Line-protocol operations of the `Raw` family (stub until the model lands). -/
namespace Dhcp.Driver

def stepRaw (_op : String) (_args : List String) : Option String := none

end Dhcp.Driver

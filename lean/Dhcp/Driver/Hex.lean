import Dhcp.Go.Basic
/- Hex and small-token parsing/printing for the line protocol. -/
namespace Dhcp.Driver
open Dhcp

def hexDigit (n : Nat) : Char :=
  if n < 10 then Char.ofNat (48 + n) else Char.ofNat (87 + n)

/-- byte string → lowercase hex; the empty string prints as `-`. -/
def hex (bs : Bytes) : String :=
  if bs.isEmpty then "-"
  else String.ofList (bs.flatMap (fun b => [hexDigit (b.toNat / 16), hexDigit (b.toNat % 16)]))

def unhexDigit (c : Char) : Option Nat :=
  if '0' ≤ c ∧ c ≤ '9' then some (c.toNat - 48)
  else if 'a' ≤ c ∧ c ≤ 'f' then some (c.toNat - 87)
  else if 'A' ≤ c ∧ c ≤ 'F' then some (c.toNat - 55)
  else none

def unhexAux : List Char → Option Bytes
  | [] => some []
  | a :: b :: rest => do
    let x ← unhexDigit a
    let y ← unhexDigit b
    let r ← unhexAux rest
    pure (UInt8.ofNat (x * 16 + y) :: r)
  | _ => none

def unhex (s : String) : Option Bytes :=
  if s == "-" then some [] else unhexAux s.toList

/-- `nil` or hex: optional byte string (Go nil slice vs. value). -/
def hexOpt : Option Bytes → String
  | none => "nil"
  | some b => hex b

def unhexOpt (s : String) : Option (Option Bytes) :=
  if s == "nil" then some none else (unhex s).map some

/-- look up `key=value` in a token list -/
def field (toks : List String) (key : String) : Option String :=
  toks.findSome? (fun t =>
    match t.splitOn "=" with
    | [k, v] => if k == key then some v else none
    | _ => none)

end Dhcp.Driver

import Dhcp.Driver.Hex
import Dhcp.Label
/-
  Line-protocol operations of the `Label` family (rfc1035label).

  Name lists: `-` is the empty list; otherwise names separated by `,`, each
  name as lowercase hex of its bytes, the empty name as `.`
  (e.g. `6578616d706c652e636f6d,.,61`).

    labdec  <hex>              labelsFromBytes            -> ok <names> | err | panic
    labenc  <names>            NewLabels+Labels=…+ToBytes -> ok <hex>
    labre   <hex>              FromBytes then ToBytes     -> ok <hex> | err | panic
    labedit <hex> <names>      FromBytes, Labels = names, ToBytes -> ok <hex> | err | panic
    labseq  <hex|new> <op>…    edit/ToBytes history on one label set (see below)
-/
namespace Dhcp.Driver
open Dhcp Dhcp.Label

def showName (n : Bytes) : String := if n.isEmpty then "." else hex n

def showNames (ns : List Bytes) : String :=
  if ns.isEmpty then "-" else ",".intercalate (ns.map showName)

def parseName (s : String) : Option Bytes :=
  if s == "." then some [] else if s == "-" then none else unhex s

def parseNames (s : String) : Option (List Bytes) :=
  if s == "-" then some [] else (s.splitOn ",").mapM parseName

def showResL {α} (sh : α → String) : Res α → String
  | .ok a => "ok " ++ sh a
  | .err => "err"
  | .panic => "panic"

def stepLabel (op : String) (args : List String) : Option String :=
  match op, args with
  | "labdec", [h] => do
    let b ← unhex h
    pure (showResL showNames (labelsFromBytes b))
  | "labenc", [s] => do
    let ns ← parseNames s
    pure (showResL hex ({ Labels.new with labels := ns }).toBytesR)
  | "labre", [h] => do
    let b ← unhex h
    pure (showResL hex ((Labels.fromBytes (some b)).bind Labels.toBytesR))
  | "labedit", [h, s] => do
    let b ← unhex h
    let ns ← parseNames s
    pure (showResL hex ((Labels.fromBytes (some b)).bind (fun l => ({ l with labels := ns }).toBytesR)))
  | "labseq", h :: ops => do
    -- a history of caller edits of the public `Labels` slice interleaved with
    -- `ToBytes` calls on ONE label set: `t` = ToBytes, `s:<i>:<name>` = in-place
    -- element write, `a:<name>` = append, `r:<names>` = replace the slice,
    -- `d:<i>` = delete element i, `f:<hex>` = decode into the same set (method
    -- FromBytes). Output: the bytes of every `t` and the verdict of every `f`, in order.
    let l0 ← (if h == "new" then some (Res.ok Labels.new) else (unhex h).map (fun b => Labels.fromBytes (some b)))
    match l0 with
    | .err => pure "err"
    | .panic => pure "panic"
    | .ok l0 =>
      let step (st : Option (Labels × List String)) (op : String) : Option (Labels × List String) := do
        let (l, outs) ← st
        match op.splitOn ":" with
        | ["t"] => pure (l, outs ++ [showResL hex l.toBytesR])
        | ["s", i, n] => do
          let i ← i.toNat?
          let n ← parseName n
          pure ({ l with labels := if i < l.labels.length then l.labels.set i n else l.labels }, outs)
        | ["a", n] => do pure ({ l with labels := l.labels ++ [← parseName n] }, outs)
        | ["r", ns] => do pure ({ l with labels := ← parseNames ns }, outs)
        | ["d", i] => do
          let i ← i.toNat?
          pure ({ l with labels := l.labels.eraseIdx i }, outs)
        | ["f", hx] => do
          -- the METHOD `(*Labels).FromBytes` on the populated set: on success both
          -- fields are replaced, on failure the set is left as it was
          let b ← (if hx == "-" then some [] else unhex hx)
          match Labels.fromBytes (some b) with
          | .ok l' => pure (l', outs ++ ["f-ok"])
          | .err => pure (l, outs ++ ["f-err"])
          | .panic => pure (l, outs ++ ["f-panic"])
        | _ => none
      let (_, outs) ← ops.foldl step (some (l0, []))
      pure ("ok " ++ " ".intercalate outs)
  | _, _ => none

end Dhcp.Driver

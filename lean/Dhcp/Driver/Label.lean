import Dhcp.Driver.Hex
/- Line-protocol operations of the `Label` family (stub until the model lands). -/
namespace Dhcp.Driver

def stepLabel (_op : String) (_args : List String) : Option String := none

end Dhcp.Driver

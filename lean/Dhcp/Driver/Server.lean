import Dhcp.Driver.Hex
import Dhcp.Driver.V4
import Dhcp.Driver.V6
import Dhcp.Server
/-
  Line-protocol operations of the `Server` family (property C14).

    serve4 [w=<k>] <event> <event> …
    serve6 [w=<k>] <event> <event> …

  event (fields separated by `:`):
    e                          ReadFrom returns an error
    c                          the server is closed while ReadFrom waits (⇒ ReadFrom returns an error)
    d:<hex>:<peer>             a datagram (`-` = empty read, n = 0) from <peer>
  peer:
    udp:<iphex|nil>:<port>:<zonehex>   a *net.UDPAddr
    udpnil                             an interface holding a nil *net.UDPAddr
    other:<id>                         some other net.Addr implementation
    nil                                the nil interface

  Output: `ok exit=<returned|blocked|panic> n=<k>` followed by ` | <idx> <peer> <message>` per
  handler invocation in loop order; <message> is the canonical packet of the `v4dec` op (serve4)
  or the canonical term of the `v6dec` op (serve6): both servers' message CONTENT is the model
  decoder's (`dec4` / `dec6`) output on the first 4096 bytes of the datagram.
-/
namespace Dhcp.Driver
open Dhcp Dhcp.Server Dhcp.V6

def showPeer : Peer → String
  | .udp ip port zone => s!"udp:{hexOpt ip}:{port}:{hex zone}"
  | .udpNilPtr => "udpnil"
  | .other id => s!"other:{id}"
  | .nilAddr => "nil"

def parsePeer : List String → Option Peer
  | ["udp", ip, port, zone] => do
    let ip ← unhexOpt ip
    let port ← port.toNat?
    let zone ← unhex zone
    pure (.udp ip port zone)
  | ["udpnil"] => some .udpNilPtr
  | ["other", id] => do
    let id ← id.toNat?
    pure (.other id)
  | ["nil"] => some .nilAddr
  | _ => none

/-- One script token = the results of one or two reads.  `k:…` is a datagram whose
read completes while `Close` is being called on the server (the connection is closed
before `ReadFrom` returns the datagram): for the model that is the datagram, read
successfully, followed by the failing read every closed connection answers with. -/
def parseEvent (tok : String) : Option (List ReadResult) :=
  match tok.splitOn ":" with
  | ["e"] => some [.readError]
  | ["c"] => some [.readError]
  | "d" :: h :: peer => do
    let b ← unhex h
    let p ← parsePeer peer
    pure [.datagram b p]
  | "k" :: h :: peer => do
    let b ← unhex h
    let p ← parsePeer peer
    pure [.datagram b p, .readError]
  | _ => none

def showExit : Exit → String
  | .returned => "returned"
  | .blocked => "blocked"
  | .panicked => "panic"

def showOutcome {α} (sh : α → String) (o : Outcome α) : String :=
  s!"ok exit={showExit o.exit} n={o.invocations.length}" ++
    String.join (o.invocations.map (fun v => s!" | {v.idx} {showPeer v.peer} {sh v.msg}"))

def stepServer (op : String) (args0 : List String) : Option String :=
  -- `w=<k>` (how long the harness's handlers block) is not part of the model's input
  let args := args0.filter (fun a => !a.startsWith "w=")
  match op with
  | "serve4" => do
    let evs ← args.mapM parseEvent
    pure (showOutcome showPkt4 (serve4 evs.flatten))
  | "serve6" => do
    let evs ← args.mapM parseEvent
    pure (showOutcome (fun m => (sxMsg m).show) (serve6dec evs.flatten))
  | _ => none

end Dhcp.Driver

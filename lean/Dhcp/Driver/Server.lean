import Dhcp.Driver.Hex
import Dhcp.Driver.V4
import Dhcp.Server
/-
  Line-protocol operations of the `Server` family (property C14).

    serve4 [w=<k>] <event> <event> …
    serve6 [w=<k>] <event> <event> …

  event (fields separated by `:`):
    e                          ReadFrom returns an error
    c                          the server is closed while ReadFrom waits (⇒ ReadFrom returns an error)
    d:<hex>:<peer>             serve4: a datagram (`-` = empty read, n = 0) from <peer>
    a:<hex>:<canon>:<peer>     serve6: a datagram the real dhcpv6.FromBytes ACCEPTS; <canon> = hex of
                               the re-encoding of its decoding (computed by the harness when the line
                               was generated, from the first 4096 bytes)
    r:<hex>:<peer>             serve6: a datagram the real dhcpv6.FromBytes REJECTS
  peer:
    udp:<iphex|nil>:<port>:<zonehex>   a *net.UDPAddr
    udpnil                             an interface holding a nil *net.UDPAddr
    other:<id>                         some other net.Addr implementation
    nil                                the nil interface

  Output: `ok exit=<returned|blocked|panic> n=<k>` followed by ` | <idx> <peer> <message>` per
  handler invocation in loop order; <message> is the canonical packet of the `v4dec` op (serve4)
  or <canon> (serve6).

  TEMPORARY WEAKNESS (serve6): the Lean side has no DHCPv6 decoder model yet, so `dec6` is the
  finite table `first 4096 bytes ↦ canon` carried by the op line itself.  The model therefore
  decides which datagram is dispatched, in which order, with which peer and how the loop ends —
  but the CONTENT of a DHCPv6 message is whatever the harness computed with the real decoder; it
  is checked independently only by the implementation oracle `c14`.
-/
namespace Dhcp.Driver
open Dhcp Dhcp.Server

def showPeer : Peer → String
  | .udp ip port zone => s!"udp:{hexOpt ip}:{port}:{hex zone}"
  | .udpNilPtr => "udpnil"
  | .other id => s!"other:{id}"
  | .nilAddr => "nil"

def parsePeer : List String → Option Peer
  | ["udp", ip, port, zone] => do
    let ip ← unhexOpt ip
    let port ← port.toNat?
    let zone ← unhex zone
    pure (.udp ip port zone)
  | ["udpnil"] => some .udpNilPtr
  | ["other", id] => do
    let id ← id.toNat?
    pure (.other id)
  | ["nil"] => some .nilAddr
  | _ => none

/-- one event: the read result and, for serve6, the decoder-table entry it carries -/
def parseEvent (tok : String) : Option (ReadResult × Option (Bytes × Bytes)) :=
  match tok.splitOn ":" with
  | ["e"] => some (.readError, none)
  | ["c"] => some (.readError, none)
  | "d" :: h :: peer => do
    let b ← unhex h
    let p ← parsePeer peer
    pure (.datagram b p, none)
  | "a" :: h :: canon :: peer => do
    let b ← unhex h
    let c ← unhex canon
    let p ← parsePeer peer
    pure (.datagram b p, some (b.take readBufLen, c))
  | "r" :: h :: peer => do
    let b ← unhex h
    let p ← parsePeer peer
    pure (.datagram b p, none)
  | _ => none

def showExit : Exit → String
  | .returned => "returned"
  | .blocked => "blocked"
  | .panicked => "panic"

def showOutcome {α} (sh : α → String) (o : Outcome α) : String :=
  s!"ok exit={showExit o.exit} n={o.invocations.length}" ++
    String.join (o.invocations.map (fun v => s!" | {v.idx} {showPeer v.peer} {sh v.msg}"))

/-- the DHCPv6 decoder stand-in: a finite table from the op line -/
def tableDec (tbl : List (Bytes × Bytes)) (b : Bytes) : Option Bytes :=
  (tbl.find? (fun e => e.1 == b)).map (·.2)

def stepServer (op : String) (args0 : List String) : Option String :=
  -- `w=<k>` (how long the harness's handlers block) is not part of the model's input
  let args := args0.filter (fun a => !a.startsWith "w=")
  match op with
  | "serve4" => do
    let evs ← args.mapM parseEvent
    pure (showOutcome showPkt4 (serve4 (evs.map (·.1))))
  | "serve6" => do
    let evs ← args.mapM parseEvent
    let tbl := evs.filterMap (·.2)
    pure (showOutcome hex (serve6 (tableDec tbl) (evs.map (·.1))))
  | _ => none

end Dhcp.Driver

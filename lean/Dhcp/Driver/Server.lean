import Dhcp.Driver.Hex
/- Line-protocol operations of the `Server` family (stub until the model lands). -/
namespace Dhcp.Driver

def stepServer (_op : String) (_args : List String) : Option String := none

end Dhcp.Driver

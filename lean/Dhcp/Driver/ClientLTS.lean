import Std.Data.HashSet
import Dhcp.Driver.Hex
import Dhcp.Client.LTS
/-
  Line protocol for multi-caller client scenarios (streams client4m/client6m):
  the script's external events are applied to the LTS of Dhcp.Client.LTS and
  all internal interleavings are explored to quiescence; the driver prints the
  SET of final outcome vectors the model allows.

    client4m cap=<k> T=<ns> n=<retry> c=<xid>:<nil|tag|nilg|tagg>,… ev=<group>;<group>;…
    group  = event+event+…      (events of a group are applied without waiting
                                 for quiescence in between; `;` = quiescence)
    event  = call.<i> | arr.<ok|bad>.<xid>.<tag> | can.<i> | clo | rel.<i>.<k>
           | adv.<ns> | tick     (adv/tick: alone in their group)

  `tag` matchers accept tag 1 and reject everything else; `g` = gated: every
  matcher invocation of that caller waits for a token handed out by `rel`.
  `adv` lets virtual time pass (timers whose deadline is reached fire, earliest
  first, each to quiescence); `tick` advances to the earliest armed deadline.
  Timers: deadline of caller i = (instant of its last transmission) + T·2^(tries−1).

  Output: `ok <vec> | <vec> | …` or `ok *` when the exploration exceeds its
  budget; <vec> = `<i>=<result>@<group>/<transmissions>,… clo=<group|->` where
  result ∈ resp<seq> noresp ctx inuse nilnil crash running, `@<group>` = index
  of the group after which the call was first seen returned.

  Partial-order reduction (sound for the set of quiescent states): once the
  group's external events are exhausted, an enabled step that only touches its
  own process (ret, nextTry, transmit, transmitFail, accept, reject, cancel1,
  rxPass, rxDrop) is taken alone: it commutes with, and is never disabled by,
  every step of the other processes. All of these except transmit/transmitFail
  (which read `closed`) and the matcher steps of gated callers (which depend on
  `rel`) also commute with the group's pending external events and are taken
  alone even before those are exhausted.
-/
namespace Dhcp.Driver.Cli
open Dhcp.Client.LTS Dhcp.Driver

inductive MEv where
  | call (i : Nat) | arr (ok : Bool) (xid tag : Nat) | can (i : Nat) | clo
  | rel (i k : Nat) | adv (ns : Nat) | tick
  deriving Repr, Inhabited

structure MCaller where
  xid : Nat
  matchNil : Bool
  gated : Bool
  deriving Repr, Inhabited

structure MScript where
  cap : Nat
  T : Nat
  n : Int
  oldCancel : Bool
  callers : List MCaller
  groups : List (List MEv)
  deriving Repr, Inhabited

structure XState where
  s : State
  tokens : List Nat
  retAt : List (Option Nat)
  closeAt : Option Nat
  deriving DecidableEq, Hashable, Repr, Inhabited

def mkCfg (sc : MScript) : Cfg :=
  { caller := fun i =>
      match sc.callers[i]? with
      | some c => { xid := c.xid, matchNil := c.matchNil, accepts := fun d => d.tag == 1, retry := sc.n }
      | none => { xid := 0, matchNil := true, accepts := fun _ => true, retry := 0 },
    cap := sc.cap, cancelChecksOwner := !sc.oldCancel }

def isGated (sc : MScript) (i : Nat) : Bool :=
  match sc.callers[i]? with
  | some c => c.gated
  | none => false

/-- steps that touch only their own process and commute with every external
event of a group as well (gated matcher steps excluded by the caller) -/
def localAlways (n : Nat) : List Label :=
  [.rxPass, .rxDrop] ++ (List.range n).flatMap (fun i => [.ret i, .nextTry i, .cancel1 i, .accept i, .reject i])

/-- … and those that only commute once the group's external events are over
(`transmit`/`transmitFail` read `closed`) -/
def localLate (n : Nat) : List Label :=
  (List.range n).flatMap (fun i => [.transmit i, .transmitFail i])

def visibleLabels (n : Nat) : List Label :=
  [.rxRead, .rxExit, .rxLock, .rxDeliver, .rxDoneDrop, .rxUnlock, .closeReturn] ++
    (List.range n).flatMap (fun i =>
      [.lock i, .register i, .refuse i, .take i, .giveUp i, .giveUpCtx i, .giveUpClosed i, .cancel2 i])

/-- index of the caller whose matcher a label evaluates -/
def matcherOf : Label → Option Nat
  | .accept i | .reject i => some i
  | _ => none

def noteReturns (g : Nat) (n : Nat) (x : XState) : XState :=
  let retAt := (List.range n).map (fun i =>
    match x.retAt[i]? with
    | some (some k) => some k
    | _ => match (getC x.s i).pc with
           | .returned _ => some g
           | _ => none)
  { x with retAt := retAt, closeAt := match x.closeAt with
                                       | some k => some k
                                       | none => if x.s.closeReturned then some g else none }

/-- one internal step, gate tokens respected -/
def tryStep (sc : MScript) (cfg : Cfg) (g : Nat) (x : XState) (l : Label) : Option XState :=
  match matcherOf l with
  | some i =>
    if isGated sc i then
      if x.tokens.getD i 0 = 0 then none
      else (step cfg x.s l).map (fun s' => noteReturns g sc.callers.length { x with s := s', tokens := x.tokens.set i (x.tokens.getD i 0 - 1) })
    else (step cfg x.s l).map (fun s' => noteReturns g sc.callers.length { x with s := s' })
  | none => (step cfg x.s l).map (fun s' => noteReturns g sc.callers.length { x with s := s' })

def internalSuccs (sc : MScript) (cfg : Cfg) (g : Nat) (envDone : Bool) (x : XState) : List XState :=
  let n := sc.callers.length
  -- a gated caller's matcher step depends on `rel` events: not prioritised before the group is over
  let early := (localAlways n).filter (fun l => match matcherOf l with
                                                | some i => envDone || !isGated sc i
                                                | none => true)
  let prio := if envDone then early ++ localLate n else early
  match prio.findSome? (tryStep sc cfg g x) with
  | some x' => [x']
  | none =>
    let rest := if envDone then [] else (localAlways n).filter (fun l => !early.contains l) ++ localLate n
    (rest ++ visibleLabels n).filterMap (tryStep sc cfg g x)

/-- apply one external event (not enabled = no effect, as in Go: cancelling
twice, closing twice). -/
def applyEnv (cfg : Cfg) (x : XState) : MEv → XState
  | .call i => match step cfg x.s (.call i) with | some s' => { x with s := s' } | none => x
  | .arr ok xid tag => match step cfg x.s (.arrive ⟨xid, ok, tag⟩) with | some s' => { x with s := s' } | none => x
  | .can i => match step cfg x.s (.ctxDone i) with | some s' => { x with s := s' } | none => x
  | .clo => match step cfg x.s .close with | some s' => { x with s := s' } | none => x
  | .rel i k => { x with tokens := x.tokens.set i (x.tokens.getD i 0 + k) }
  | .adv _ | .tick => x

abbrev Node := XState × Nat

/-- BFS to quiescence. Returns `none` when the node budget is exceeded. -/
partial def exploreLoop (sc : MScript) (cfg : Cfg) (g : Nat) (evs : Array MEv) (budget : Nat)
    (work : List Node) (seen : Std.HashSet Node) (quiet : Std.HashSet XState) : Option (Std.HashSet XState) :=
  match work with
  | [] => some quiet
  | (x, k) :: rest =>
    if seen.size > budget then none else
    let envDone := k ≥ evs.size
    let ints := (internalSuccs sc cfg g envDone x).map (fun x' => (x', k))
    let envs := if envDone then [] else [(noteReturns g sc.callers.length (applyEnv cfg x evs[k]!), k + 1)]
    let succs := ints ++ envs
    if succs.isEmpty then exploreLoop sc cfg g evs budget rest seen (quiet.insert x)
    else
      let (work', seen') := succs.foldl (fun (acc : List Node × Std.HashSet Node) nd =>
        if acc.2.contains nd then acc else (nd :: acc.1, acc.2.insert nd)) (rest, seen)
      exploreLoop sc cfg g evs budget work' seen' quiet

def explore (sc : MScript) (cfg : Cfg) (g : Nat) (evs : List MEv) (budget : Nat) (front : List XState) : Option (List XState) :=
  let nodes := front.map (fun x => (x, 0))
  let seen := nodes.foldl (fun (h : Std.HashSet Node) nd => h.insert nd) {}
  (exploreLoop sc cfg g evs.toArray budget nodes seen {}).map (·.toList)

/-- deadlines of armed timers: (caller, deadline) -/
def armed (sc : MScript) (s : State) : List (Nat × Nat) :=
  (List.range sc.callers.length).filterMap (fun i =>
    let c := getC s i
    match c.pc with
    | .waiting _ | .matching _ _ =>
      if c.timerFired || c.tries = 0 then none else some (i, c.tstart + sc.T * 2 ^ (c.tries - 1))
    | _ => none)

def minDeadline (l : List (Nat × Nat)) : Option Nat :=
  l.foldl (fun (m : Option Nat) e => match m with | none => some e.2 | some v => some (min v e.2)) none

/-- let time pass up to `target` (`none` = up to the earliest deadline). -/
partial def advanceTo (sc : MScript) (cfg : Cfg) (g : Nat) (budget : Nat) (target : Option Nat) (x : XState) :
    Option (List XState) :=
  let a := armed sc x.s
  match minDeadline a with
  | none => some [match target with
                  | some t => { x with s := { x.s with now := max x.s.now t } }
                  | none => x]
  | some d =>
    let reach := match target with | some t => d ≤ t | none => true
    if !reach then some [{ x with s := { x.s with now := max x.s.now (target.getD 0) } }]
    else
      let s1 := { x.s with now := max x.s.now d }
      let s2 := a.foldl (fun s e => if e.2 = d then (step cfg s (.timerFire e.1)).getD s else s) s1
      match explore sc cfg g [] budget [{ x with s := s2 }] with
      | none => none
      | some xs =>
        match target with
        | none => some xs
        | some _ => xs.foldl (fun (acc : Option (List XState)) x' =>
            match acc, advanceTo sc cfg g budget target x' with
            | some l, some l' => some (l ++ l')
            | _, _ => none) (some [])

def dedupX (l : List XState) : List XState :=
  (l.foldl (fun (h : Std.HashSet XState) x => h.insert x) {}).toList

def runGroup (sc : MScript) (cfg : Cfg) (budget : Nat) (front : Option (List XState)) (ge : Nat × List MEv) :
    Option (List XState) :=
  match front with
  | none => none
  | some fr =>
    let (g, evs) := ge
    match evs with
    | [.adv ns] =>
      (fr.foldl (fun (acc : Option (List XState)) x =>
        match acc, advanceTo sc cfg g budget (some (x.s.now + ns)) x with
        | some l, some l' => some (l ++ l')
        | _, _ => none) (some [])).map dedupX
    | [.tick] =>
      (fr.foldl (fun (acc : Option (List XState)) x =>
        match acc, advanceTo sc cfg g budget none x with
        | some l, some l' => some (l ++ l')
        | _, _ => none) (some [])).map dedupX
    | _ => explore sc cfg g evs budget fr

def runScript (sc : MScript) (budget : Nat) : Option (List XState) :=
  let cfg := mkCfg sc
  let n := sc.callers.length
  let x0 : XState := { s := init, tokens := List.replicate n 0, retAt := List.replicate n none, closeAt := none }
  let gs := (List.range sc.groups.length).zip sc.groups
  gs.foldl (runGroup sc cfg budget) (some [x0])

/-! ### parsing / printing -/

def parseMCaller (s : String) : Option MCaller :=
  match s.splitOn ":" with
  | [x, m] => do
    let x ← x.toNat?
    match m with
    | "nil" => some ⟨x, true, false⟩
    | "tag" => some ⟨x, false, false⟩
    | "nilg" => some ⟨x, true, true⟩
    | "tagg" => some ⟨x, false, true⟩
    | _ => none
  | _ => none

def parseMEv (s : String) : Option MEv :=
  match s.splitOn "." with
  | ["call", i] => i.toNat?.map .call
  | ["arr", k, x, t] => do
    let ok ← (if k == "ok" then some true else if k == "bad" then some false else none)
    let x ← x.toNat?
    let t ← t.toNat?
    pure (.arr ok x t)
  | ["can", i] => i.toNat?.map .can
  | ["clo"] => some .clo
  | ["rel", i, k] => do pure (.rel (← i.toNat?) (← k.toNat?))
  | ["adv", ns] => ns.toNat?.map .adv
  | ["tick"] => some .tick
  | _ => none

def parseMScript (args : List String) : Option MScript := do
  let f := field args
  let cap ← (← f "cap").toNat?
  let T ← (← f "T").toNat?
  let n ← (← f "n").toInt?
  let old := (f "old") == some "1"
  let cs ← ((← f "c").splitOn ",").mapM parseMCaller
  let ev ← f "ev"
  let groups ← if ev == "-" then some [] else
    (ev.splitOn ";").mapM (fun g => (g.splitOn "+").mapM parseMEv)
  pure { cap := cap, T := T, n := n, oldCancel := old, callers := cs, groups := groups }

def showRet : Ret → String
  | .ok (some p) => s!"resp{p.seq}"
  | .ok none => "nilnil"
  | .noResp => "noresp"
  | .ctxErr => "ctx"
  | .inUse => "inuse"
  | .writeErr => "werr"
  | .crash => "crash"

def showVec (n : Nat) (x : XState) : String :=
  let parts := (List.range n).map (fun i =>
    let c := getC x.s i
    let r := match c.pc with
      | .returned res => showRet res
      | _ => "running"
    let atg := match x.retAt[i]? with
      | some (some g) => toString g
      | _ => "-"
    s!"{i}={r}@{atg}/{c.tries}")
  let cl := match x.closeAt with | some g => toString g | none => "-"
  ",".intercalate parts ++ s!" clo={cl}"

def insertSorted (s : String) : List String → List String
  | [] => [s]
  | h :: t => if s < h then s :: h :: t else if s == h then h :: t else h :: insertSorted s t

def stepClientLTS (op : String) (args : List String) : Option String :=
  match op with
  | "client4m" | "client6m" => do
    let sc ← parseMScript args
    match runScript sc 60000 with
    | none => pure "ok *"
    | some xs =>
      let vecs := (xs.map (showVec sc.callers.length)).foldl (fun acc v => insertSorted v acc) []
      pure ("ok " ++ " | ".intercalate vecs)
  | _ => none

end Dhcp.Driver.Cli

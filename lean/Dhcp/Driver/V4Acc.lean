import Dhcp.Driver.Hex
/- Line-protocol operations of the `V4Acc` family (stub until the model lands). -/
namespace Dhcp.Driver

def stepV4Acc (_op : String) (_args : List String) : Option String := none

end Dhcp.Driver

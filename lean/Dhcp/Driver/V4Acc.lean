import Dhcp.Driver.Hex
import Dhcp.Driver.V4
import Dhcp.V4.Values
/-
  Line-protocol operations of the `V4Acc` family (typed accessors, C17).

    v4acc <Accessor> <present> <valuehex> <def> <decoys>
        present: 0 = key absent, 1 = key holds <valuehex> (`-` = empty non-nil
        slice), 2 = key holds a nil slice; <def> = default duration in ns
        (used by the three lease-time accessors); <decoys> = `-` or
        `code:hex,…` other options in the map (a decoy under the accessor's own
        code is dropped).
      → `ok <canonical result>`
    v4setget <Constructor> <arg> <def>
        builds the option with the typed constructor, `UpdateOption`s it into
        an empty packet and reads it back with the matching accessor
      → `ok raw=<nil|hex> get=<canonical result>` | `panic`

  Canonical results: address `nil|hex`; lists `nil`, `[]` (empty non-nil) or
  comma separated elements; strings as hex; durations in integer ns;
  `(value, bool)` pairs as `<value> true|false`; `(uint16, error)` as the
  number or `err`; routes `desthex/width>routerhex`; relay sub-options
  `{code:hex,…}` sorted by code; VIVC `entid:hex`.
-/
namespace Dhcp.Driver
open Dhcp Dhcp.V4

def showList {α} (sh : α → String) : Option (List α) → String
  | none => "nil"
  | some [] => "[]"
  | some xs => ",".intercalate (xs.map sh)

def showBool (b : Bool) : String := if b then "true" else "false"

def showRoute (r : Route) : String := s!"{hex r.dest}/{r.width}>{hexOpt r.router}"
def showVIVC (i : VIVCId) : String := s!"{i.entID}:{hex i.data}"
def showRelay : Option Opts → String
  | none => "nil"
  | some o => "{" ++ ",".intercalate (o.toList.map (fun (k, v) => s!"{k.toNat}:{hex v}")) ++ "}"
def showResNat : Res Nat → String
  | .ok n => toString n
  | .err => "err"
  | .panic => "panic"

/-- accessor name ↦ (option code it is fed through, rendering of its result) -/
def accessors : List (String × UInt8 × (GOpts → Int → String)) :=
  [ ("BroadcastAddress", Code.broadcastAddress, fun o _ => hexOpt (Acc.broadcastAddress o)),
    ("RequestedIPAddress", Code.requestedIPAddress, fun o _ => hexOpt (Acc.requestedIPAddress o)),
    ("ServerIdentifier", Code.serverIdentifier, fun o _ => hexOpt (Acc.serverIdentifier o)),
    ("Router", Code.router, fun o _ => showList hexOpt (Acc.router o)),
    ("NTPServers", Code.ntpServers, fun o _ => showList hexOpt (Acc.ntpServers o)),
    ("NetBIOSNameServers", Code.netBIOSNameServers, fun o _ => showList hexOpt (Acc.netBIOSNameServers o)),
    ("DNS", Code.dns, fun o _ => showList hexOpt (Acc.dns o)),
    ("DomainName", Code.domainName, fun o _ => hex (Acc.domainName o)),
    ("HostName", Code.hostName, fun o _ => hex (Acc.hostName o)),
    ("RootPath", Code.rootPath, fun o _ => hex (Acc.rootPath o)),
    ("BootFileNameOption", Code.bootfileName, fun o _ => hex (Acc.bootFileNameOption o)),
    ("TFTPServerName", Code.tftpServerName, fun o _ => hex (Acc.tftpServerName o)),
    ("ClassIdentifier", Code.classIdentifier, fun o _ => hex (Acc.classIdentifier o)),
    ("Message", Code.message, fun o _ => hex (Acc.message o)),
    ("IPAddressLeaseTime", Code.ipAddressLeaseTime, fun o d => toString (Acc.ipAddressLeaseTime o d)),
    ("IPAddressRenewalTime", Code.renewalTime, fun o d => toString (Acc.ipAddressRenewalTime o d)),
    ("IPAddressRebindingTime", Code.rebindingTime, fun o d => toString (Acc.ipAddressRebindingTime o d)),
    ("IPv6OnlyPreferred", Code.ipv6OnlyPreferred, fun o _ =>
        let (d, b) := Acc.ipv6OnlyPreferred o; s!"{d} {showBool b}"),
    ("MaxMessageSize", Code.maxMessageSize, fun o _ => showResNat (Acc.maxMessageSize o)),
    ("AutoConfigure", Code.autoConfigure, fun o _ =>
        let (v, b) := Acc.autoConfigure o; s!"{v.toNat} {showBool b}"),
    ("MessageType", Code.messageType, fun o _ => toString (Acc.messageType o).toNat),
    ("SubnetMask", Code.subnetMask, fun o _ => hexOpt (Acc.subnetMask o)),
    ("ClasslessStaticRoute", Code.classlessStaticRoute, fun o _ => showList showRoute (Acc.classlessStaticRoute o)),
    ("ParameterRequestList", Code.parameterRequestList, fun o _ =>
        showList (fun c => toString c.toNat) (Acc.parameterRequestList o)),
    ("RelayAgentInfo", Code.relayAgentInfo, fun o _ => showRelay (Acc.relayAgentInfo o)),
    ("UserClass", Code.userClass, fun o _ => showList hex (Acc.userClass o)),
    ("VIVC", Code.vivc, fun o _ => showList showVIVC (Acc.vivc o)),
    ("ClientArch", Code.clientArch, fun o _ => showList toString (Acc.clientArch o)) ]

def findAcc (name : String) : Option (UInt8 × (GOpts → Int → String)) :=
  (accessors.find? (fun e => e.1 == name)).map (·.2)

def parseDecoys (s : String) (own : UInt8) : Option GOpts :=
  if s == "-" then some GOpts.empty
  else
    (s.splitOn ",").foldlM (fun (o : GOpts) t =>
      match t.splitOn ":" with
      | [k, v] => do
        let k ← k.toNat?
        let v ← unhexOpt v
        pure (if UInt8.ofNat k = own then o else o.update (UInt8.ofNat k) v)
      | _ => none) GOpts.empty

/-! arguments of the constructors -/

def parseListOf {α} (p : String → Option α) (s : String) : Option (List α) :=
  if s == "[]" then some [] else (s.splitOn ",").mapM p

def parseRouteArg (s : String) : Option RouteArg :=
  match s.splitOn ":" with
  | [w, d, r] => do
    let w ← w.toNat?
    let d ← unhexOpt d
    let r ← unhexOpt r
    pure ⟨d, w, r⟩
  | _ => none

def parseVIVC (s : String) : Option VIVCId :=
  match s.splitOn ":" with
  | [e, d] => do
    let e ← e.toNat?
    let d ← unhex d
    pure ⟨e, d⟩
  | _ => none

def parseSub (s : String) : Option (UInt8 × Bytes) :=
  match s.splitOn ":" with
  | [k, v] => do
    let k ← k.toNat?
    let v ← unhex v
    pure (UInt8.ofNat k, v)
  | _ => none

/-- constructor name ↦ (matching accessor, model of `Opt…(arg).Value.ToBytes()`) -/
def constructors : List (String × String × (String → Option (Res GoBytes))) :=
  let ip := fun s => (unhexOpt s).map (fun ip => Res.ok (ipToBytes ip))
  let ips := fun s => (parseListOf unhexOpt s).map (fun l => Res.ok (ipsToBytes l))
  let dur := fun (s : String) => s.toInt?.map (fun d => Res.ok (durationToBytes d))
  let str := fun s => (unhex s).map (fun b => Res.ok (stringToBytes b))
  [ ("OptBroadcastAddress", "BroadcastAddress", ip),
    ("OptRequestedIPAddress", "RequestedIPAddress", ip),
    ("OptServerIdentifier", "ServerIdentifier", ip),
    ("OptRouter", "Router", ips),
    ("OptNTPServers", "NTPServers", ips),
    ("OptNetBIOSNameServers", "NetBIOSNameServers", ips),
    ("OptDNS", "DNS", ips),
    ("OptIPAddressLeaseTime", "IPAddressLeaseTime", dur),
    ("OptRenewTimeValue", "IPAddressRenewalTime", dur),
    ("OptRebindingTimeValue", "IPAddressRebindingTime", dur),
    ("OptIPv6OnlyPreferred", "IPv6OnlyPreferred", dur),
    ("OptDomainName", "DomainName", str),
    ("OptHostName", "HostName", str),
    ("OptRootPath", "RootPath", str),
    ("OptBootFileName", "BootFileNameOption", str),
    ("OptTFTPServerName", "TFTPServerName", str),
    ("OptClassIdentifier", "ClassIdentifier", str),
    ("OptMessage", "Message", str),
    ("OptUserClass", "UserClass", str),
    ("OptRFC3004UserClass", "UserClass", fun s =>
        (parseListOf unhex s).map (fun l => Res.ok (stringsToBytes l))),
    ("OptMaxMessageSize", "MaxMessageSize", fun s => s.toNat?.map (fun n => Res.ok (uint16ToBytes n))),
    ("OptAutoConfigure", "AutoConfigure", fun s => s.toNat?.map (fun n => Res.ok (some [UInt8.ofNat n]))),
    ("OptMessageType", "MessageType", fun s => s.toNat?.map (fun n => Res.ok (some [UInt8.ofNat n]))),
    ("OptSubnetMask", "SubnetMask", fun s => (unhexOpt s).map (fun m => Res.ok (maskToBytes m))),
    ("OptClasslessStaticRoute", "ClasslessStaticRoute", fun s =>
        (parseListOf parseRouteArg s).map routesToBytes),
    ("OptParameterRequestList", "ParameterRequestList", fun s =>
        (parseListOf (fun t => t.toNat?.map UInt8.ofNat) s).map (fun l => Res.ok (codesToBytes l))),
    ("OptRelayAgentInfo", "RelayAgentInfo", fun s =>
        (parseListOf parseSub s).map (fun l => Res.ok (relayToBytes (Opts.ofList l)))),
    ("OptVIVC", "VIVC", fun s => (parseListOf parseVIVC s).map (fun l => Res.ok (vivcToBytes l))),
    ("OptClientArch", "ClientArch", fun s =>
        (parseListOf String.toNat? s).map (fun l => Res.ok (archsToBytes l))) ]

def stepV4Acc (op : String) (args : List String) : Option String :=
  match op, args with
  | "v4acc", [name, present, h, dflt, decoys] => do
    let (code, render) ← findAcc name
    let v ← unhex h
    let d ← dflt.toInt?
    let base ← parseDecoys decoys code
    let o ← match present with
      | "0" => some base
      | "1" => some (base.update code (some v))
      | "2" => some (base.update code none)
      | _ => none
    pure ("ok " ++ render o d)
  | "v4setget", [ctor, arg, dflt] => do
    let (_, acc, toBytes) ← constructors.find? (fun e => e.1 == ctor)
    let (code, render) ← findAcc acc
    let d ← dflt.toInt?
    let r ← toBytes arg
    pure (match r with
      | .ok raw => s!"ok raw={hexOpt raw} get={render (GOpts.empty.update code raw) d}"
      | .err => "err"
      | .panic => "panic")
  | _, _ => none

end Dhcp.Driver

import Dhcp.Driver.Hex
import Dhcp.Driver.V4
import Dhcp.V4.Values
/-
  Line-protocol operations of the `V4Acc` family (typed accessors, C17).

    v4acc <Accessor> <present> <valuehex> <def> <decoys>
        present: 0 = key absent, 1 = key holds <valuehex> (`-` = empty non-nil
        slice), 2 = key holds a nil slice; <def> = default duration in ns
        (used by the three lease-time accessors); <decoys> = `-` or
        `code:hex,…` other options in the map (a decoy under the accessor's own
        code is dropped).
      → `ok <canonical result>`
    v4setget <Constructor> <arg> <def>
        builds the option with the typed constructor, `UpdateOption`s it into
        an empty packet and reads it back with the matching accessor
      → `ok raw=<nil|hex> get=<canonical result>` | `panic`
    v4accdec <Accessor> <def> <packethex>
        `FromBytes(packet)`, then the accessor on the decoded packet: the model
        decodes with `dec4` and reads the accessor off `decOptsG` (the option
        loop with the nil-ness of values)
      → `ok <canonical result>` | `err` (the packet does not decode)

  Canonical results: address `nil|hex`; lists `nil`, `[]` (empty non-nil) or
  comma separated elements; strings as hex; durations in integer ns;
  `(value, bool)` pairs as `<value> true|false`; `(uint16, error)` as the
  number or `err`; routes `desthex/width>routerhex`; relay sub-options
  `{code:hex,…}` sorted by code; VIVC `entid:hex`.
-/
namespace Dhcp.Driver
open Dhcp Dhcp.V4

def showList {α} (sh : α → String) : Option (List α) → String
  | none => "nil"
  | some [] => "[]"
  | some xs => ",".intercalate (xs.map sh)

def showBool (b : Bool) : String := if b then "true" else "false"

def showRoute (r : Route) : String := s!"{hex r.dest}/{r.width}>{hexOpt r.router}"
def showVIVC (i : VIVCId) : String := s!"{i.entID}:{hex i.data}"
def showRelay : Option Opts → String
  | none => "nil"
  | some o => "{" ++ ",".intercalate (o.toList.map (fun (k, v) => s!"{k.toNat}:{hex v}")) ++ "}"
def showResNat : Res Nat → String
  | .ok n => toString n
  | .err => "err"
  | .panic => "panic"

/-- accessor name ↦ (option code it is fed through, rendering of its result) -/
def accessors : List (String × UInt8 × (GOpts → Int → String)) :=
  [ ("BroadcastAddress", Code.broadcastAddress, fun o _ => hexOpt (Acc.broadcastAddress o)),
    ("RequestedIPAddress", Code.requestedIPAddress, fun o _ => hexOpt (Acc.requestedIPAddress o)),
    ("ServerIdentifier", Code.serverIdentifier, fun o _ => hexOpt (Acc.serverIdentifier o)),
    ("Router", Code.router, fun o _ => showList hexOpt (Acc.router o)),
    ("NTPServers", Code.ntpServers, fun o _ => showList hexOpt (Acc.ntpServers o)),
    ("NetBIOSNameServers", Code.netBIOSNameServers, fun o _ => showList hexOpt (Acc.netBIOSNameServers o)),
    ("DNS", Code.dns, fun o _ => showList hexOpt (Acc.dns o)),
    ("DomainName", Code.domainName, fun o _ => hex (Acc.domainName o)),
    ("HostName", Code.hostName, fun o _ => hex (Acc.hostName o)),
    ("RootPath", Code.rootPath, fun o _ => hex (Acc.rootPath o)),
    ("BootFileNameOption", Code.bootfileName, fun o _ => hex (Acc.bootFileNameOption o)),
    ("TFTPServerName", Code.tftpServerName, fun o _ => hex (Acc.tftpServerName o)),
    ("ClassIdentifier", Code.classIdentifier, fun o _ => hex (Acc.classIdentifier o)),
    ("Message", Code.message, fun o _ => hex (Acc.message o)),
    ("IPAddressLeaseTime", Code.ipAddressLeaseTime, fun o d => toString (Acc.ipAddressLeaseTime o d)),
    ("IPAddressRenewalTime", Code.renewalTime, fun o d => toString (Acc.ipAddressRenewalTime o d)),
    ("IPAddressRebindingTime", Code.rebindingTime, fun o d => toString (Acc.ipAddressRebindingTime o d)),
    ("IPv6OnlyPreferred", Code.ipv6OnlyPreferred, fun o _ =>
        let (d, b) := Acc.ipv6OnlyPreferred o; s!"{d} {showBool b}"),
    ("MaxMessageSize", Code.maxMessageSize, fun o _ => showResNat (Acc.maxMessageSize o)),
    ("AutoConfigure", Code.autoConfigure, fun o _ =>
        let (v, b) := Acc.autoConfigure o; s!"{v.toNat} {showBool b}"),
    ("MessageType", Code.messageType, fun o _ => toString (Acc.messageType o).toNat),
    ("SubnetMask", Code.subnetMask, fun o _ => hexOpt (Acc.subnetMask o)),
    ("ClasslessStaticRoute", Code.classlessStaticRoute, fun o _ => showList showRoute (Acc.classlessStaticRoute o)),
    ("ParameterRequestList", Code.parameterRequestList, fun o _ =>
        showList (fun c => toString c.toNat) (Acc.parameterRequestList o)),
    ("RelayAgentInfo", Code.relayAgentInfo, fun o _ => showRelay (Acc.relayAgentInfo o)),
    ("UserClass", Code.userClass, fun o _ => showList hex (Acc.userClass o)),
    ("VIVC", Code.vivc, fun o _ => showList showVIVC (Acc.vivc o)),
    ("ClientArch", Code.clientArch, fun o _ => showList toString (Acc.clientArch o)),
    ("DomainSearch", Code.domainSearch, fun o _ =>
        match Acc.domainSearch o with
        | .ok none => "nil"
        | .ok (some l) => showList hex (some l.labels)
        | _ => "panic") ]

def findAcc (name : String) : Option (UInt8 × (GOpts → Int → String)) :=
  (accessors.find? (fun e => e.1 == name)).map (·.2)

def parseDecoys (s : String) (own : UInt8) : Option GOpts :=
  if s == "-" then some GOpts.empty
  else
    (s.splitOn ",").foldlM (fun (o : GOpts) t =>
      match t.splitOn ":" with
      | [k, v] => do
        let k ← k.toNat?
        let v ← unhexOpt v
        pure (if UInt8.ofNat k = own then o else o.update (UInt8.ofNat k) v)
      | _ => none) GOpts.empty

/-! arguments of the constructors -/

def parseListOf {α} (p : String → Option α) (s : String) : Option (List α) :=
  if s == "[]" then some [] else (s.splitOn ",").mapM p

def parseRouteArg (s : String) : Option RouteArg :=
  match s.splitOn ":" with
  | [w, d, r] => do
    let w ← w.toNat?
    let d ← unhexOpt d
    let r ← unhexOpt r
    pure ⟨d, w, r⟩
  | _ => none

def parseVIVC (s : String) : Option VIVCId :=
  match s.splitOn ":" with
  | [e, d] => do
    let e ← e.toNat?
    let d ← unhex d
    pure ⟨e, d⟩
  | _ => none

def parseSub (s : String) : Option (UInt8 × Bytes) :=
  match s.splitOn ":" with
  | [k, v] => do
    let k ← k.toNat?
    let v ← unhex v
    pure (UInt8.ofNat k, v)
  | _ => none

/-- constructor name ↦ (matching accessor, model of `Opt…(arg).Value.ToBytes()`) -/
def constructors : List (String × String × (String → Option (Res GoBytes))) :=
  let ip := fun s => (unhexOpt s).map (fun ip => Res.ok (ipToBytes ip))
  let ips := fun s => (parseListOf unhexOpt s).map (fun l => Res.ok (ipsToBytes l))
  let dur := fun (s : String) => s.toInt?.map (fun d => Res.ok (durationToBytes d))
  let str := fun s => (unhex s).map (fun b => Res.ok (stringToBytes b))
  [ ("OptBroadcastAddress", "BroadcastAddress", ip),
    ("OptRequestedIPAddress", "RequestedIPAddress", ip),
    ("OptServerIdentifier", "ServerIdentifier", ip),
    ("OptRouter", "Router", ips),
    ("OptNTPServers", "NTPServers", ips),
    ("OptNetBIOSNameServers", "NetBIOSNameServers", ips),
    ("OptDNS", "DNS", ips),
    ("OptIPAddressLeaseTime", "IPAddressLeaseTime", dur),
    ("OptRenewTimeValue", "IPAddressRenewalTime", dur),
    ("OptRebindingTimeValue", "IPAddressRebindingTime", dur),
    ("OptIPv6OnlyPreferred", "IPv6OnlyPreferred", dur),
    ("OptDomainName", "DomainName", str),
    ("OptHostName", "HostName", str),
    ("OptRootPath", "RootPath", str),
    ("OptBootFileName", "BootFileNameOption", str),
    ("OptTFTPServerName", "TFTPServerName", str),
    ("OptClassIdentifier", "ClassIdentifier", str),
    ("OptMessage", "Message", str),
    ("OptUserClass", "UserClass", str),
    ("OptRFC3004UserClass", "UserClass", fun s =>
        (parseListOf unhex s).map (fun l => Res.ok (stringsToBytes l))),
    ("OptMaxMessageSize", "MaxMessageSize", fun s => s.toNat?.map (fun n => Res.ok (uint16ToBytes n))),
    ("OptAutoConfigure", "AutoConfigure", fun s => s.toNat?.map (fun n => Res.ok (some [UInt8.ofNat n]))),
    ("OptMessageType", "MessageType", fun s => s.toNat?.map (fun n => Res.ok (some [UInt8.ofNat n]))),
    ("OptSubnetMask", "SubnetMask", fun s => (unhexOpt s).map (fun m => Res.ok (maskToBytes m))),
    ("OptClasslessStaticRoute", "ClasslessStaticRoute", fun s =>
        (parseListOf parseRouteArg s).map routesToBytes),
    ("OptParameterRequestList", "ParameterRequestList", fun s =>
        (parseListOf (fun t => t.toNat?.map UInt8.ofNat) s).map (fun l => Res.ok (codesToBytes l))),
    ("OptRelayAgentInfo", "RelayAgentInfo", fun s =>
        (parseListOf parseSub s).map (fun l => Res.ok (relayToBytes (Opts.ofList l)))),
    ("OptVIVC", "VIVC", fun s => (parseListOf parseVIVC s).map (fun l => Res.ok (vivcToBytes l))),
    ("OptClientArch", "ClientArch", fun s =>
        (parseListOf String.toNat? s).map (fun l => Res.ok (archsToBytes l))),
    ("OptDomainSearch", "DomainSearch", fun s =>
        (parseListOf unhex s).map (fun ns => labelsGoBytes { original := none, labels := ns })) ]

/-! ### set/get histories (`v4hist`)

    v4hist <Constructor> <present> <valuehex> <def> <step>…

A packet holding the raw value (as in `v4acc`) and a register `x` for the
typed value a caller works on.  Steps:
  `g`        x = accessor()                 (nil label set: `NewLabels()`)
  `s:i:e`    x[i] = e in place (no-op when i is out of range)
  `a:e`      x = append(x, e)        `d:i`  delete element i
  `r:arg`    x = a fresh value (constructor argument syntax)
  `R`        label sets: Labels = a fresh copy of the names parsed at `g`
  `u`        UpdateOption(Constructor(x))
  `w`        packet = FromBytes(packet.ToBytes())
  `o`        output the accessor's result
Output: `ok <result> | <result> …`, or `panic`.
Outside label sets the register is a list of element tokens in constructor
argument syntax (addresses and masks: one token per octet), so that the
edits are the generic list edits; scalars are a one-token list. -/

/-- constructor ↦ kind of its typed value (as in the Go harness) -/
def histKind (ctor : String) : String :=
  match ctor with
  | "OptBroadcastAddress" | "OptRequestedIPAddress" | "OptServerIdentifier" => "ip"
  | "OptRouter" | "OptNTPServers" | "OptNetBIOSNameServers" | "OptDNS" => "ips"
  | "OptIPAddressLeaseTime" | "OptRenewTimeValue" | "OptRebindingTimeValue" | "OptIPv6OnlyPreferred" => "dur"
  | "OptUserClass" => "ucstr"
  | "OptRFC3004UserClass" => "strings"
  | "OptMaxMessageSize" => "u16"
  | "OptAutoConfigure" | "OptMessageType" => "u8"
  | "OptSubnetMask" => "mask"
  | "OptClasslessStaticRoute" => "routes"
  | "OptParameterRequestList" => "codes"
  | "OptRelayAgentInfo" => "relay"
  | "OptVIVC" => "vivc"
  | "OptClientArch" => "archs"
  | "OptDomainSearch" => "labels"
  | _ => "str"

def pairUp : List Char → List String
  | a :: b :: rest => String.ofList [a, b] :: pairUp rest
  | _ => []

def firstWord (s : String) : String := ((s.splitOn " ").head?).getD s

/-- `dest/width>router` → `width:dest:router` -/
def routeTok (s : String) : String :=
  match s.splitOn ">" with
  | [dw, r] =>
    match dw.splitOn "/" with
    | [d, w] => s!"{w}:{d}:{r}"
    | _ => s
  | _ => s

def splitNonEmpty (s : String) : List String := if s.isEmpty then [] else s.splitOn ","

/-- tokens of a rendered accessor result -/
def toksOfResult (kind res : String) : List String :=
  match kind with
  | "ip" | "mask" => if res == "nil" || res == "-" then [] else pairUp res.toList
  | "dur" | "u8" => [firstWord res]
  | "u16" => [if res == "err" then "0" else res]
  | "str" | "strz" => [res]
  | "ucstr" => if res == "nil" || res == "[]" then ["-"] else [((res.splitOn ",").head?).getD "-"]
  | "routes" => if res == "nil" || res == "[]" then [] else (res.splitOn ",").map routeTok
  | "relay" =>
    if res == "nil" then [] else splitNonEmpty ((res.drop 1).dropEnd 1).toString
  | _ => if res == "nil" || res == "[]" then [] else res.splitOn ","

/-- tokens of a constructor argument -/
def toksOfArg (kind arg : String) : List String :=
  match kind with
  | "ip" | "mask" => if arg == "nil" || arg == "-" then [] else pairUp arg.toList
  | "dur" | "u8" | "u16" | "str" | "strz" | "ucstr" => [arg]
  | _ => if arg == "[]" then [] else arg.splitOn ","

/-- constructor argument of a token list -/
def argOfToks (kind : String) (ts : List String) : String :=
  match kind with
  | "ip" | "mask" => if ts.isEmpty then "nil" else String.join ts
  | "dur" | "u8" | "u16" => (ts.head?).getD "0"
  | "str" | "strz" | "ucstr" => (ts.head?).getD "-"
  | _ => if ts.isEmpty then "[]" else ",".intercalate ts

/-- relay sub-options live in a map: after every edit the token list is the
map's content again (later tokens win, ascending codes) -/
def canonRelay (ts : List String) : List String :=
  match ts.mapM parseSub with
  | none => ts
  | some kvs => (Opts.ofList kvs).toList.map (fun (k, v) => s!"{k.toNat}:{hex v}")

def canonToks (kind : String) (ts : List String) : List String :=
  if kind == "relay" then canonRelay ts else ts

inductive HReg where
  | toks (ts : List String)
  | labs (l : Label.Labels) (parsed : List Bytes)

structure HState where
  o : GOpts
  reg : HReg
  outs : List String
  panicked : Bool := false

def histStep (kind : String) (code : UInt8) (render : GOpts → Int → String)
    (toBytes : String → Option (Res GoBytes)) (d : Int) (st : HState) (step : String) : Option HState :=
  match step.splitOn ":" with
  | ["g"] =>
    if kind == "labels" then
      match Acc.domainSearch st.o with
      | .ok (some l) => some { st with reg := .labs l l.labels }
      | .ok none => some { st with reg := .labs Label.Labels.new [] }
      | _ => some { st with panicked := true }
    else some { st with reg := .toks (toksOfResult kind (render st.o d)) }
  | ["u"] =>
    match st.reg with
    | .labs l _ =>
      match labelsGoBytes l with
      | .ok raw => some { st with o := st.o.update code raw }
      | _ => some { st with panicked := true }
    | .toks ts => do
      let r ← toBytes (argOfToks kind ts)
      match r with
      | .ok raw => pure { st with o := st.o.update code raw }
      | _ => pure { st with panicked := true }
  | ["w"] => some { st with o := st.o.wire }
  | ["o"] => some { st with outs := st.outs ++ [render st.o d] }
  | ["R"] =>
    match st.reg with
    | .labs l p => some { st with reg := .labs { l with labels := p } p }
    | r => some { st with reg := r }
  | "s" :: i :: erest => do
    let e := ":".intercalate erest
    let i ← i.toNat?
    match st.reg with
    | .labs l p => do
      let n ← unhex e
      pure { st with reg := .labs { l with labels := if i < l.labels.length then l.labels.set i n else l.labels } p }
    | .toks ts => pure { st with reg := .toks (canonToks kind (if i < ts.length then ts.set i e else ts)) }
  | ["c", i] => do
    -- label sets: toggle the ASCII letter case of name i in place
    let i ← i.toNat?
    match st.reg with
    | .labs l p =>
      let tog : UInt8 → UInt8 := fun b =>
        if (65 ≤ b && b ≤ 90) || (97 ≤ b && b ≤ 122) then b ^^^ 32 else b
      pure { st with reg := .labs { l with labels := if h : i < l.labels.length then l.labels.set i (l.labels[i].map tog) else l.labels } p }
    | r => pure { st with reg := r }
  | "a" :: erest =>
    let e := ":".intercalate erest
    match st.reg with
    | .labs l p => do
      let n ← unhex e
      pure { st with reg := .labs { l with labels := l.labels ++ [n] } p }
    | .toks ts => some { st with reg := .toks (canonToks kind (ts ++ [e])) }
  | ["d", i] => do
    let i ← i.toNat?
    match st.reg with
    | .labs l p => pure { st with reg := .labs { l with labels := l.labels.eraseIdx i } p }
    | .toks ts => pure { st with reg := .toks (ts.eraseIdx i) }
  | "r" :: rest =>
    -- the argument may itself contain ':' (routes, relay, vivc)
    let arg := ":".intercalate rest
    match st.reg with
    | .labs l p => do
      let ns ← parseListOf unhex arg
      pure { st with reg := .labs { l with labels := ns } p }
    | .toks _ => some { st with reg := .toks (canonToks kind (toksOfArg kind arg)) }
  | _ => none

def stepV4Acc (op : String) (args : List String) : Option String :=
  match op, args with
  | "v4acc", [name, present, h, dflt, decoys] => do
    let (code, render) ← findAcc name
    let v ← unhex h
    let d ← dflt.toInt?
    let base ← parseDecoys decoys code
    let o ← match present with
      | "0" => some base
      | "1" => some (base.update code (some v))
      | "2" => some (base.update code none)
      | _ => none
    let r := render o d
    pure (if r == "panic" then "panic" else "ok " ++ r)
  | "v4setget", [ctor, arg, dflt] => do
    let (_, acc, toBytes) ← constructors.find? (fun e => e.1 == ctor)
    let (code, render) ← findAcc acc
    let d ← dflt.toInt?
    let r ← toBytes arg
    pure (match r with
      | .ok raw => s!"ok raw={hexOpt raw} get={render (GOpts.empty.update code raw) d}"
      | .err => "err"
      | .panic => "panic")
  | "v4accdec", [name, dflt, pkt] => do
    let (_, render) ← findAcc name
    let d ← dflt.toInt?
    let q ← unhex pkt
    pure (match dec4 q with
      | .ok _ =>
        match decOptsG q with
        | some g => let r := render g d; if r == "panic" then "panic" else "ok " ++ r
        | none => "model-mismatch"  -- excluded by C17_decoded_options
      | .err => "err"
      | .panic => "panic")
  | "v4hist", ctor :: present :: h :: dflt :: steps => do
    let (_, acc, toBytes) ← constructors.find? (fun e => e.1 == ctor)
    let (code, render) ← findAcc acc
    let v ← unhex h
    let d ← dflt.toInt?
    let o ← match present with
      | "0" => some GOpts.empty
      | "1" => some (GOpts.empty.update code (some v))
      | "2" => some (GOpts.empty.update code none)
      | _ => none
    let kind := histKind ctor
    let init : HState := { o := o, reg := if kind == "labels" then .labs Label.Labels.new [] else .toks [], outs := [] }
    let st ← steps.foldlM (fun st s => if st.panicked then some st else histStep kind code render toBytes d st s) init
    pure (if st.panicked || st.outs.contains "panic" then "panic" else "ok " ++ " | ".intercalate st.outs)
  | _, _ => none

end Dhcp.Driver

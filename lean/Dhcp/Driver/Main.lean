import Dhcp.Driver.V4
import Dhcp.Driver.Label
import Dhcp.Driver.Raw
import Dhcp.Driver.V4Acc
import Dhcp.Driver.V4Build
import Dhcp.Driver.V6
import Dhcp.Driver.V6Build
import Dhcp.Driver.Client
import Dhcp.Driver.Server
import Dhcp.Driver.Misc
import Dhcp.Driver.Lease
import Dhcp.Driver.C03x
import Dhcp.Driver.Lexer
import Dhcp.Driver.V6Acc
/-
  Line protocol driver: one operation per input line, one canonical line out.
  `lake build dhcp-driver` compiles it; the Go harness pipes the same lines
  it executes against the real library and diffs the two output streams.
  Each family of operations lives in its own `Dhcp/Driver/<Family>.lean`
  exporting `step<Family> : String → List String → Option String`.
-/
open Dhcp.Driver Dhcp.Driver.Cli Dhcp.Driver.Lse

def families : List (String → List String → Option String) :=
  [stepV4, stepLabel, stepRaw, stepV4Acc, stepV4Build, stepV6, stepV6Build, stepClient, stepServer, stepMisc, stepLease, stepC03x, stepLexer, stepV6Acc]

def step (line : String) : String :=
  match (line.trimAscii.toString.splitOn " ").filter (· ≠ "") with
  | [] => "bad-op"
  | op :: args =>
    match families.findSome? (fun f => f op args) with
    | some s => s
    | none => "bad-op"

partial def loop (hin hout : IO.FS.Stream) : IO Unit := do
  let line ← hin.getLine
  if line.isEmpty then return ()
  hout.putStrLn (step line)
  loop hin hout

def main : IO Unit := do
  let hin ← IO.getStdin
  let hout ← IO.getStdout
  loop hin hout
  hout.flush

import Dhcp.Driver.V4
/-
  Line protocol driver: one operation per input line, one canonical line out.
  `lake build dhcp-driver` compiles it; the Go harness pipes the same lines
  it executes against the real library and diffs the two output streams.
-/
open Dhcp.Driver

def step (line : String) : String :=
  match (line.trimAscii.toString.splitOn " ").filter (· ≠ "") with
  | [] => "bad-op"
  | op :: args =>
    match stepV4 op args with
    | some s => s
    | none => "bad-op"

partial def loop (hin hout : IO.FS.Stream) : IO Unit := do
  let line ← hin.getLine
  if line.isEmpty then return ()
  hout.putStrLn (step line)
  loop hin hout

def main : IO Unit := do
  let hin ← IO.getStdin
  let hout ← IO.getStdout
  loop hin hout
  hout.flush

import Dhcp.Driver.Hex
import Dhcp.Cost
/-
  Line-protocol operations of the `Misc` family: the C09 cost measures of the
  model, evaluated on a wire input (decode with the ordinary model decoder,
  then apply the structural measures of Dhcp/Cost.lean).

    cost6 <hex>          -> ok <size6> <depth6> <work6> <nest6> | err | panic
    cost6opt <code> <hex>-> ok <sizeOpt> <depthOpt> <nestOpt>   | err | panic
    cost4 <hex>          -> ok <size4> <work4>                  | err | panic
    costl <hex>          -> ok <sizeLabels>                     | err | panic
-/
namespace Dhcp.Driver
open Dhcp Dhcp.Cost

def showCost {α} (f : α → List Nat) : Res α → String
  | .ok a => "ok " ++ " ".intercalate ((f a).map toString)
  | .err => "err"
  | .panic => "panic"

def stepMisc (op : String) (args : List String) : Option String :=
  match op, args with
  | "cost6", [h] => do
    let b ← unhex h
    pure (showCost (fun m => [size6 m, depth6 m, work6 m b, nest6 m]) (V6.dec6 b))
  | "cost6opt", [c, h] => do
    let b ← unhex h
    pure (showCost (fun o => [sizeOpt o, depthOpt o, nestOpt o]) (V6.parseOption (← c.toNat?) b))
  | "cost4", [h] => do
    let b ← unhex h
    pure (showCost (fun p => [size4 p, work4 p b]) (V4.dec4 b))
  | "costl", [h] => do
    let b ← unhex h
    pure (showCost (fun l => [sizeLabels l]) (Label.fromBytes b))
  | _, _ => none

end Dhcp.Driver

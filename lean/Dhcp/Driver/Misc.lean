import Dhcp.Driver.Hex
/- Line-protocol operations of the `Misc` family (stub until the model lands). -/
namespace Dhcp.Driver

def stepMisc (_op : String) (_args : List String) : Option String := none

end Dhcp.Driver

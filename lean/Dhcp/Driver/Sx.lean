import Dhcp.Driver.Hex
/-
  A tiny term syntax for structured values on the line protocol (no spaces):
    node := atom | name '(' node,* ')' | '[' node;* ']'
  Driver-side plumbing only (not part of the model).
-/
namespace Dhcp.Driver

inductive Sx where
  | atom (s : String)
  | app (name : String) (args : List Sx)
  | list (xs : List Sx)
  deriving Inhabited

partial def Sx.show : Sx → String
  | .atom s => s
  | .app n args => n ++ "(" ++ ",".intercalate (args.map Sx.show) ++ ")"
  | .list xs => "[" ++ ";".intercalate (xs.map Sx.show) ++ "]"

def isDelim (c : Char) : Bool := c == '(' || c == ')' || c == ',' || c == ';' || c == '[' || c == ']'

mutual
partial def parseNode (cs : List Char) : Option (Sx × List Char) :=
  match cs with
  | '[' :: rest =>
    match rest with
    | ']' :: rest' => some (.list [], rest')
    | _ => (parseSeq ';' ']' rest []).map (fun (xs, r) => (.list xs, r))
  | _ =>
    let name := cs.takeWhile (fun c => !isDelim c)
    let rest := cs.dropWhile (fun c => !isDelim c)
    match rest with
    | '(' :: ')' :: rest' => some (.app (String.ofList name) [], rest')
    | '(' :: rest' => (parseSeq ',' ')' rest' []).map (fun (xs, r) => (.app (String.ofList name) xs, r))
    | _ => if name.isEmpty then none else some (.atom (String.ofList name), rest)
partial def parseSeq (sep close : Char) (cs : List Char) (acc : List Sx) : Option (List Sx × List Char) :=
  match parseNode cs with
  | none => none
  | some (x, rest) =>
    match rest with
    | c :: rest' =>
      if c == close then some (acc ++ [x], rest')
      else if c == sep then parseSeq sep close rest' (acc ++ [x])
      else none
    | [] => none
end

def Sx.parse (s : String) : Option Sx :=
  match parseNode s.toList with
  | some (x, []) => some x
  | _ => none

def Sx.nat : Sx → Option Nat
  | .atom s => s.toNat?
  | _ => none
def Sx.int : Sx → Option Int
  | .atom s => s.toInt?
  | _ => none
def Sx.bytes : Sx → Option Dhcp.Bytes
  | .atom s => unhex s
  | _ => none
def Sx.optBytes : Sx → Option (Option Dhcp.Bytes)
  | .atom s => unhexOpt s
  | _ => none
def Sx.bool : Sx → Option Bool
  | .atom "1" => some true
  | .atom "0" => some false
  | _ => none

def sxNat (n : Nat) : Sx := .atom (toString n)
def sxInt (n : Int) : Sx := .atom (toString n)
def sxBytes (b : Dhcp.Bytes) : Sx := .atom (hex b)
def sxOptBytes (b : Option Dhcp.Bytes) : Sx := .atom (hexOpt b)
def sxBool (b : Bool) : Sx := .atom (if b then "1" else "0")

end Dhcp.Driver

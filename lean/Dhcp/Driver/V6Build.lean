import Dhcp.Driver.V6
import Dhcp.V6.Build
/-
  Line-protocol operations of the DHCPv6 relay functions and builders
  (stream `v6build`).  Messages are `Sx` terms (Driver/V6.lean).
    v6encap <msg> <typ> <link> <peer>     EncapsulateRelay
    v6decap <msg>                         DecapsulateRelay
    v6decapidx <msg> <i>                  DecapsulateRelayIndex
    v6inner <msg>                         GetInnerMessage
    v6relayrepl <relay> <msg>             NewRelayReplFromRelayForw
    v6adv <solicit> [mods=<list>]         NewAdvertiseFromSolicit
    v6req <advertise> xid=<hex> [mods=…]  NewRequestFromAdvertise (xid = the id NewMessage drew)
    v6reply <msg> [mods=…]                NewReplyFromMessage
    v6mac <msg>                           ExtractMAC
    v6mods <msg> mods=<list>              the modifiers applied in order to a *Message or *RelayMessage
    v6update <msg> <opt>                  (*Message / *RelayMessage).UpdateOption
    v6add <msg> <opt>                     (*Message / *RelayMessage).AddOption
    v6del <msg> <code>                    m.Options.Del(code)
  optional tokens: `wire=1` the first message goes through ToBytes/FromBytes
  before the call; `owire=1` the resulting message goes through them after it.
  `badtype`: the (decoded) argument does not have the Go parameter's static type.
-/
namespace Dhcp.Driver
open Dhcp Dhcp.V6

def ofSxIAAddr (s : Sx) : Option IAAddr :=
  match ofSxOpt s with
  | some (.iaaddr ip p v os) => some ⟨ip, p, v, os⟩
  | _ => none

def ofSxIAPfx (s : Sx) : Option IAPfx :=
  match ofSxOpt s with
  | some (.iaprefix p v pfx os) => some ⟨p, v, pfx, os⟩
  | _ => none

def ofSxMod : Sx → Option Mod6
  | .app "opt" [o] => do pure (.option (← ofSxOpt o))
  | .app "cid" [d] => do pure (.clientID (← ofSxDUID d))
  | .app "sid" [d] => do pure (.serverID (← ofSxDUID d))
  | .atom "rc" => some .rapidCommit
  | .app "uc" [b] => do pure (.userClass (← b.bytes))
  | .app "arch" [n] => do pure (.archType (← n.nat))
  | .app "iaid" [b] => do pure (.iaid (← b.bytes))
  | .app "dns" [.list ips] => do pure (.dns (← ips.mapM Sx.optBytes))
  | .app "oro" [.list cs] => do pure (.requestedOptions (← cs.mapM Sx.nat))
  | .atom "netboot" => some .netboot
  | .app "irt" [d] => do pure (.infoRefresh (← d.int))
  | .app "lla" [h, a] => do pure (.clientLLA (← h.nat) (← a.bytes))
  | .app "4o6" [.list ips] => do pure (.dhcp4o6Server (← ips.mapM Sx.optBytes))
  | .app "fqdn" [f, n] => do pure (.fqdn (u8 (← f.nat)) (← n.bytes))
  | .app "dsl" [.list ns] => do pure (.domainSearchList (← ns.mapM Sx.bytes))
  | .app "ianaaddrs" [.list as] => do pure (.ianaAddrs (← as.mapM ofSxIAAddr))
  | .app "iata" [i, .list as] => do pure (.iata (← i.bytes) (← as.mapM ofSxIAAddr))
  | .app "iapd" [i, .list ps] => do pure (.iapd (← i.bytes) (← ps.mapM ofSxIAPfx))
  | _ => none

def modsOf (toks : List String) : Option (List Mod6) :=
  match field toks "mods" with
  | none => some []
  | some s =>
    match Sx.parse s with
    | some (.list xs) => xs.mapM ofSxMod
    | _ => none

def flag (toks : List String) (key : String) : Bool := field toks key == some "1"

/-- `FromBytes(m.ToBytes())` -/
def wireTrip (m : Msg6) : Res Msg6 := dec6 (encMsg m)

def isM : Msg6 → Bool
  | .msg .. => true
  | .relay .. => false

def stepV6Build (op : String) (args : List String) : Option String :=
  let pos := args.filter (fun a => !a.contains '=')
  let inp (s : String) : Option (Res Msg6) := do
    let m ← ofSxMsg (← Sx.parse s)
    pure (if flag args "wire" then wireTrip m else .ok m)
  let out (r : Res Msg6) : String :=
    showR sxMsg (if flag args "owire" then r.bind wireTrip else r)
  match op, pos with
  | "v6encap", [m, t, l, p] => do
    let m ← inp m
    let t ← t.toNat?
    let l ← unhexOpt l
    let p ← unhexOpt p
    pure (out (m.bind fun m => encapsulateRelay m (u8 t) l p))
  | "v6decap", [m] => do pure (out ((← inp m).bind decapsulateRelay))
  | "v6decapidx", [m, i] => do
    let i ← i.toInt?
    pure (out ((← inp m).bind fun m => decapsulateRelayIndex m i))
  | "v6inner", [m] => do pure (out ((← inp m).bind getInnerMessage))
  | "v6relayrepl", [r, m] => do
    let r ← inp r
    let m ← ofSxMsg (← Sx.parse m)
    if !isM m then some "badtype"
    else
      match r with
      | .ok (.msg ..) => some "badtype"
      | _ => pure (out (r.bind fun r => newRelayReplFromRelayForw r m))
  | "v6adv", [m] => do
    let mods ← modsOf args
    match ← inp m with
    | .ok (.relay ..) => some "badtype"
    | r => pure (out (r.bind fun m => newAdvertiseFromSolicit m mods))
  | "v6req", [m] => do
    let mods ← modsOf args
    let xid ← unhex (← field args "xid")
    match ← inp m with
    | .ok (.relay ..) => some "badtype"
    | r => pure (out (r.bind fun m => newRequestFromAdvertise xid m mods))
  | "v6reply", [m] => do
    let mods ← modsOf args
    match ← inp m with
    | .ok (.relay ..) => some "badtype"
    | r => pure (out (r.bind fun m => newReplyFromMessage m mods))
  | "v6mods", [m] => do
    let mods ← modsOf args
    pure (out ((← inp m).bind fun m => applyMods m mods))
  | "v6update", [m, o] => do
    let o ← ofSxOpt (← Sx.parse o)
    pure (out ((← inp m).map fun m => m.updateOption o))
  | "v6add", [m, o] => do
    let o ← ofSxOpt (← Sx.parse o)
    pure (out ((← inp m).map fun m => m.addOption o))
  | "v6del", [m, c] => do
    let c ← c.toNat?
    pure (out ((← inp m).map fun m => m.delOption c))
  | "v6mac", [m] => do
    pure (match (← inp m).bind extractMAC with
      | .ok b => "ok " ++ hex b
      | .err => "err"
      | .panic => "panic")
  | _, _ => none

end Dhcp.Driver

import Dhcp.Driver.V4Build
import Dhcp.Driver.V6Build
import Dhcp.Client.Lease
/-
  Line protocol of the `lease4` / `lease6` streams (C13): the lease exchanges of
  the real nclient4 / nclient6 clients against REACTIVE scripted servers.

    lease4 <kind> T=<ms> n=<tries> hw=<hex> srv=<ip|nil>:<port> mods=<M> [offer=<P>] [ack=<P>] [ip=<ip>] rx=<R>
      kind: discover (DiscoverOffer)  request (Request)  reqoffer (RequestFromOffer, offer=)
            renew (Renew, offer= ack=)  release (Release, offer= ack=)  inform (Inform, ip=)
      <M>, <P> as in Driver/V4Build.lean.
    lease6 <kind> T=<ms> n=<tries> hw=<hex> mods=<sx list of modifiers> [adv=<sx msg>] rx=<R>
      kind: solicit (Solicit)  rapid (RapidSolicit)  request (Request, adv=)

  <R> is `-` or reactions joined by '!'.  Reaction number i (0-based position):
      <k>@<d>@<h>@<c>@<template>
    k  the client transmission it answers: the k-th datagram (0-based) the client
       writes during the operation, retransmissions included;
    d  delay in ms: the datagram reaches the client at
       (instant of transmission k) + d ms + 2^i ns  (the 2^i ns make all arrival
       instants distinct and different from every retransmission deadline);
    h  v4 only: `e` the reply's chaddr is the one of the datagram answered, `l` the template's;
    c  `-` the template's encoding, <n> its first n bytes, `x<hex>` these bytes instead;
    template  v4: a packet <P> whose xid is XORed with the xid of the datagram
       answered (00000000 = echo); v6: a message in Sx syntax, xid likewise.

  What the driver does with the script is C10–C12 made executable, not part
  of the C13 model: try j of a call that starts at s transmits at
  s + T·(2^j − 1) (C12); a datagram that arrives while the call waits is
  decoded and handed to it when it is a BOOTREPLY for the client's hardware
  address carrying the call's transaction id (v6: a non-relay message carrying
  it) (C10); the call ends at the first routed packet its matcher accepts, or
  with the no-response error at s + T·(2^n − 1) (C11).  From that it computes,
  for each call, `stream` = what the routed channel delivers, and hands it to
  the model (`Dhcp.Client.Lease.*`), which decides the result.

  Output: `ok` then ` tx <ip>:<port> <datagram>` for every datagram the client
  writes (decoded from its wire form; v4: `showPkt4` with ';' for ' ', v6: Sx)
  then ` res <result>`:
      v4: offer <P> | ack <P> | lease <offer> <ack> | nak <offer> <nak> | noresp | released
      v6: msg <M> | noresp | builderr | panic
  Transaction ids the real code draws at random are 00…0 here (the model's
  parameter); the harness prints every transaction id XORed with the drawn one.
  v6 has one draw per call: each call's datagrams and its answer are printed
  XORed with that call's id.
-/
namespace Dhcp.Driver.Lse
open Dhcp Dhcp.V4 Dhcp.Client.Lease Dhcp.Driver

/-! ### the reactive script -/

inductive Cut where
  | full
  | trunc (n : Nat)
  | raw (b : Bytes)

structure Reaction (τ : Type) where
  k : Nat
  delayMs : Nat
  echoHw : Bool
  cut : Cut
  tmpl : τ

def parseCut (s : String) : Option Cut :=
  if s == "-" then some .full
  else if s.startsWith "x" then (unhex (s.drop 1).toString).map Cut.raw
  else s.toNat?.map Cut.trunc

def applyCut (c : Cut) (b : Bytes) : Bytes :=
  match c with
  | .full => b
  | .trunc n => b.take n
  | .raw r => r

def parseReaction {τ} (tm : String → Option τ) (s : String) : Option (Reaction τ) :=
  match s.splitOn "@" with
  | [k, d, h, c, t] => do
    let k ← k.toNat?
    let d ← d.toNat?
    let c ← parseCut c
    let t ← tm t
    pure { k := k, delayMs := d, echoHw := h == "e", cut := c, tmpl := t }
  | _ => none

def parseReactions {τ} (tm : String → Option τ) (s : String) : Option (List (Reaction τ)) :=
  if s == "-" then some [] else (s.splitOn "!").mapM (parseReaction tm)

def xorBytes (a b : Bytes) : Bytes := List.zipWith (fun x y => x ^^^ y) a b

/-! ### virtual time -/

structure Cfg where
  T : Nat   -- ns
  n : Nat

structure Sim where
  now : Nat := 0
  txCount : Nat := 0
  /-- datagrams under way: (arrival instant, bytes), ascending -/
  queue : List (Nat × Bytes) := []

def insertSorted (x : Nat × Bytes) : List (Nat × Bytes) → List (Nat × Bytes)
  | [] => [x]
  | y :: ys => if x.1 < y.1 then x :: y :: ys else y :: insertSorted x ys

def sortArrivals (l : List (Nat × Bytes)) : List (Nat × Bytes) := l.foldr insertSorted []

def tryStart (cfg : Cfg) (s : Nat) (j : Nat) : Nat := s + cfg.T * (2 ^ j - 1)

/-- One `SendAndRead` call on the script.  `replies k` = the datagrams the
servers send in answer to transmission `k`, with their offsets from it.
Returns the new state, the number of transmissions made, and the routed stream
had the call gone through all its tries (see the header: the answer is the
first element the matcher accepts, and everything after it in the list arrives
after it). -/
def simCall {α} (cfg : Cfg) (st : Sim) (replies : Nat → List (Nat × Bytes)) (route : Bytes → Option α)
    (accepts : α → Bool) : Sim × Nat × List α :=
  let endT := tryStart cfg st.now cfg.n
  let fromTry (j : Nat) : List (Nat × Bytes) :=
    (replies (st.txCount + j)).map (fun ob => (tryStart cfg st.now j + ob.1, ob.2))
  let all := sortArrivals (st.queue ++ (List.range cfg.n).flatMap fromTry)
  let routed : List (Nat × α) :=
    (all.filter (fun tb => Nat.blt tb.1 endT)).filterMap (fun tb => (route tb.2).map (fun p => (tb.1, p)))
  let stop : Nat := match routed.find? (fun tp => accepts tp.2) with
    | some tp => tp.1
    | none => endT
  let tries := ((List.range cfg.n).filter (fun j => Nat.blt (tryStart cfg st.now j) stop || j == 0)).length
  let made := sortArrivals (st.queue ++ (List.range tries).flatMap fromTry)
  ({ now := stop, txCount := st.txCount + tries, queue := made.filter (fun tb => Nat.blt stop tb.1) },
   tries, routed.map (·.2))

def parseCfg (args : List String) : Option Cfg := do
  let T ← (← field args "T").toNat?
  let n ← (← field args "n").toNat?
  pure { T := T * 1000000, n := n }

def showDest (d : IP × Nat) : String := s!"{hexOpt d.1}:{d.2}"

/-! ### DHCPv4 -/

def semi (p : Pkt4) : String := (showPkt4 p).replace " " ";"

/-- the datagram a v4 reaction puts on the wire, given the (decoded) client
datagram it answers; `none` when the template cannot be encoded -/
def render4 (seen : Pkt4) (r : Reaction Pkt4) : Option Bytes :=
  let p := { r.tmpl with xid := xorBytes r.tmpl.xid seen.xid, hw := if r.echoHw then seen.hw else r.tmpl.hw }
  match r.cut, enc4 p with
  | .raw b, _ => some b
  | c, .ok b => some (applyCut c b)
  | _, _ => none

def replies4 (rx : List (Reaction Pkt4)) (seen : Pkt4) (k : Nat) : List (Nat × Bytes) :=
  (rx.zipIdx.filter (fun ri => ri.1.k == k)).filterMap (fun ri =>
    (render4 seen ri.1).map (fun b => (ri.1.delayMs * 1000000 + 2 ^ ri.2, b)))

/-- the receive loop's filter (C10): decodes, BOOTREPLY, the client's hardware
address, the pending transaction id -/
def route4 (hw xid : Bytes) (b : Bytes) : Option Pkt4 :=
  match dec4 b with
  | .ok p => if p.op == opBootReply && p.hw == hw && p.xid == xid then some p else none
  | _ => none

structure Ctx4 where
  cfg : Cfg
  hw : Bytes
  srv : IP × Nat
  rx : List (Reaction Pkt4)

/-- one call: `none` = the client panics encoding its datagram -/
def call4 (c : Ctx4) (st : Sim) (pkt : Pkt4) (m : Matcher) : Option (Sim × String × List Pkt4) :=
  match enc4 pkt with
  | .ok wire =>
    match dec4 wire with
    | .ok seen =>
      let (st', tries, stream) :=
        simCall c.cfg st (replies4 c.rx seen) (route4 c.hw seen.xid) m
      let line := s!" tx {showDest c.srv} {semi seen}"
      some (st', String.join (List.replicate tries line), stream)
    | _ => none
  | _ => none

def showLeaseResult : LeaseResult → String
  | .lease o a => s!"lease {semi o} {semi a}"
  | .errNak o n => s!"nak {semi o} {semi n}"
  | .errNoResponse => "noresp"

def parseSrv (s : String) : Option (IP × Nat) :=
  match s.splitOn ":" with
  | [ip, port] => do pure (← unhexOpt ip, ← port.toNat?)
  | _ => none

def zero4 : Bytes := zeros 4

def stepLease4 (kind : String) (args : List String) : Option String := do
  let cfg ← parseCfg args
  let hw ← unhex (← field args "hw")
  let srv ← parseSrv (← field args "srv")
  let mods ← parseModifiers (← fieldRaw args "mods")
  let rx ← parseReactions parsePktSemi (← fieldRaw args "rx")
  let c : Ctx4 := { cfg := cfg, hw := hw, srv := srv, rx := rx }
  let st : Sim := {}
  match kind with
  | "discover" =>
    match call4 c st (discoverPkt zero4 hw mods) offerMatcher with
    | none => pure "panic"
    | some (_, tx, s1) =>
      pure ("ok" ++ tx ++ " res " ++
        (match (discoverOffer zero4 hw mods s1).res with
         | some o => "offer " ++ semi o
         | none => "noresp"))
  | "request" =>
    match call4 c st (discoverPkt zero4 hw mods) offerMatcher with
    | none => pure "panic"
    | some (st1, tx1, s1) =>
      match (discoverOffer zero4 hw mods s1).res with
      | none => pure ("ok" ++ tx1 ++ " res " ++ showLeaseResult (request zero4 zero4 hw mods s1 []).res)
      | some offer =>
        match call4 c st1 (requestPkt zero4 offer mods) (ackNakMatcher offer) with
        | none => pure "panic"
        | some (_, tx2, s2) =>
          pure ("ok" ++ tx1 ++ tx2 ++ " res " ++ showLeaseResult (request zero4 zero4 hw mods s1 s2).res)
  | "reqoffer" =>
    let offer ← parsePktSemi (← fieldRaw args "offer")
    match call4 c st (requestPkt zero4 offer mods) (ackNakMatcher offer) with
    | none => pure "panic"
    | some (_, tx, s) => pure ("ok" ++ tx ++ " res " ++ showLeaseResult (requestFromOffer zero4 offer mods s).res)
  | "renew" =>
    let offer ← parsePktSemi (← fieldRaw args "offer")
    let ack ← parsePktSemi (← fieldRaw args "ack")
    let l : Lease := ⟨offer, ack⟩
    match call4 c st (renewPkt zero4 l mods) (ackNakMatcher offer) with
    | none => pure "panic"
    | some (_, tx, s) => pure ("ok" ++ tx ++ " res " ++ showLeaseResult (renew zero4 l mods s).res)
  | "release" =>
    let offer ← parsePktSemi (← fieldRaw args "offer")
    let ack ← parsePktSemi (← fieldRaw args "ack")
    let outs := release zero4 ⟨offer, ack⟩ mods
    let lines ← outs.mapM (fun o =>
      match enc4 o.1 with
      | .ok wire =>
        match dec4 wire with
        | .ok seen => some s!" tx {showDest o.2} {semi seen}"
        | _ => none
      | _ => none)
    pure ("ok" ++ String.join lines ++ " res released")
  | "inform" =>
    let ip ← unhexOpt (← field args "ip")
    match call4 c st (newInform zero4 hw ip mods) (isMessageType mtAck []) with
    | none => pure "panic"
    | some (_, tx, s) =>
      pure ("ok" ++ tx ++ " res " ++
        (match (inform zero4 hw ip mods s).res with
         | some a => "ack " ++ semi a
         | none => "noresp"))
  | _ => none

/-! ### DHCPv6 -/

open Dhcp.V6

def msgXid : Msg6 → Bytes
  | .msg _ x _ => x
  | .relay .. => []

def withXid (x : Bytes) : Msg6 → Msg6
  | .msg t _ os => .msg t x os
  | m => m

/-- print with the transaction id XORed with `base` -/
def showMsg6 (base : Bytes) (m : Msg6) : String := (sxMsg (withXid (xorBytes (msgXid m) base) m)).show

def render6 (seen : Msg6) (r : Reaction Msg6) : Bytes :=
  match r.cut with
  | .raw b => b
  | c => applyCut c (encMsg (withXid (xorBytes (msgXid r.tmpl) (msgXid seen)) r.tmpl))

def replies6 (rx : List (Reaction Msg6)) (seen : Msg6) (k : Nat) : List (Nat × Bytes) :=
  (rx.zipIdx.filter (fun ri => ri.1.k == k)).map (fun ri =>
    (ri.1.delayMs * 1000000 + 2 ^ ri.2, render6 seen ri.1))

/-- nclient6's receive loop: `MessageFromBytes` succeeds and the id is pending -/
def route6 (xid : Bytes) (b : Bytes) : Option Msg6 :=
  match decMessage b with
  | .ok m => if msgXid m == xid then some m else none
  | _ => none

/-- `AllDHCPRelayAgentsAndServers`: ff02::1:2, port 547 -/
def dest6 : V4.IP × Nat := (some ([0xff, 0x02] ++ zeros 11 ++ [1, 0, 2]), 547)

structure Ctx6 where
  cfg : Cfg
  rx : List (Reaction Msg6)

/-- one call with an already built message; returns the state, the rendered
transmissions, the routed stream and the id the datagrams carry on the wire -/
def call6w (c : Ctx6) (st : Sim) (msg : Msg6) (accepts : Msg6 → Bool) :
    Option (Sim × String × List Msg6 × Bytes) :=
  match decMessage (encMsg msg) with
  | .ok seen =>
    let (st', tries, stream) := simCall c.cfg st (replies6 c.rx seen) (route6 (msgXid seen)) accepts
    let line := s!" tx {showDest dest6} {showMsg6 (msgXid seen) seen}"
    some (st', String.join (List.replicate tries line), stream, msgXid seen)
  | _ => none

def showResult6 (base : Bytes) : Result6 → String
  | .msg m => "msg " ++ showMsg6 base m
  | .errNoResponse => "noresp"
  | .errBuild => "builderr"
  | .panic => "panic"

/-- the transaction ids the two calls of an operation draw -/
def xidA : Bytes := [0, 0, 0]
def xidB : Bytes := [0xff, 0xff, 0xfe]

def parseMods6 (s : String) : Option (List Mod6) :=
  match Sx.parse s with
  | some (.list xs) => xs.mapM ofSxMod
  | _ => none

def parseMsg6 (s : String) : Option Msg6 := do ofSxMsg (← Sx.parse s)

def stepLease6 (kind : String) (args : List String) : Option String := do
  let cfg ← parseCfg args
  let hw ← unhex (← field args "hw")
  let mods ← parseMods6 (← fieldRaw args "mods")
  let rx ← parseReactions parseMsg6 (← fieldRaw args "rx")
  let c : Ctx6 := { cfg := cfg, rx := rx }
  let st : Sim := {}
  match kind with
  | "solicit" =>
    match newSolicit xidA 0 hw mods with
    | .ok sol =>
      let (_, tx, s, base) ← call6w c st sol (isMessageType6 mtAdvertise [])
      pure ("ok" ++ tx ++ " res " ++ showResult6 base (solicit xidA 0 hw mods s).res)
    | _ => pure ("ok res " ++ showResult6 [] (solicit xidA 0 hw mods []).res)
  | "request" =>
    let adv ← parseMsg6 (← fieldRaw args "adv")
    match newRequestFromAdvertise xidA adv mods with
    | .ok req =>
      let (_, tx, s, base) ← call6w c st req (isMessageType6 mtReply [])
      pure ("ok" ++ tx ++ " res " ++ showResult6 base (request6 xidA adv mods s).res)
    | _ => pure ("ok res " ++ showResult6 [] (request6 xidA adv mods []).res)
  | "rapid" =>
    match newSolicit xidA 0 hw (mods ++ [.rapidCommit]) with
    | .ok sol =>
      let (st1, tx1, s1, base1) ← call6w c st sol (isMessageType6 mtReply [mtAdvertise])
      match sendAndRead6 s1 (some (isMessageType6 mtReply [mtAdvertise])) with
      | some m =>
        if m.typ == mtAdvertise then
          match newRequestFromAdvertise xidB m mods with
          | .ok req =>
            let (_, tx2, s2, base2) ← call6w c st1 req (isMessageType6 mtReply [])
            pure ("ok" ++ tx1 ++ tx2 ++ " res " ++ showResult6 base2 (rapidSolicit xidA xidB 0 hw mods s1 s2).res)
          | _ => pure ("ok" ++ tx1 ++ " res " ++ showResult6 base1 (rapidSolicit xidA xidB 0 hw mods s1 []).res)
        else pure ("ok" ++ tx1 ++ " res " ++ showResult6 base1 (rapidSolicit xidA xidB 0 hw mods s1 []).res)
      | none => pure ("ok" ++ tx1 ++ " res " ++ showResult6 base1 (rapidSolicit xidA xidB 0 hw mods s1 []).res)
    | _ => pure ("ok res " ++ showResult6 [] (rapidSolicit xidA xidB 0 hw mods [] []).res)
  | _ => none

def stepLease (op : String) (args : List String) : Option String :=
  match op, args with
  | "lease4", kind :: rest => stepLease4 kind rest
  | "lease6", kind :: rest => stepLease6 kind rest
  | _, _ => none

end Dhcp.Driver.Lse

import Dhcp.Driver.V6Build
import Dhcp.Driver.V4Acc
import Dhcp.V6.Observe
import Dhcp.V4.Observe
/-
  Line-protocol operations of stream `c03x` (C03: read-only use of DECODED
  values).  Every operation takes wire bytes, decodes them with the decoder
  model and applies the observer model to the decoded value; a byte string the
  decoder rejects gives `decerr`, a decoded value that is not of the Go
  parameter's static type (`*Message` wanted, relay message decoded) `badtype`.
    c03xdecap <hex>              DecapsulateRelay
    c03xdecapidx <hex> <i>       DecapsulateRelayIndex
    c03xinner <hex>              GetInnerMessage
    c03xmac <hex>                ExtractMAC
    c03xeui <nil|hex>            GetMacAddressFromEUI64 (any net.IP)
    c03xnetconf6 <hex>           netboot.GetNetConfFromPacketv6
    c03xconv <hex,hex,…|->       netboot.ConversationToNetconf
    c03xztp6 <hex>               ztpv6.ParseVendorData
    c03xrid <hex>                ztpv6.ParseRemoteID
    c03xreenc6 <hex>             ToBytes of the decoded DHCPv6 message
    c03xztp4 <hex>               ztpv4.ParseVendorData
    c03xnetconf4 <hex>           netboot.GetNetConfFromPacketv4
    c03xconv4 <hex,hex,…|->      netboot.ConversationToNetconfv4
    c03xacc4 <Accessor> <hex>    typed accessor of the decoded DHCPv4 packet (default duration 0)
-/
namespace Dhcp.Driver
open Dhcp Dhcp.V6 Dhcp.Str

def showBytesList (xs : List Bytes) : String := "[" ++ ",".intercalate (xs.map hex) ++ "]"
def showIPList (xs : List V6.IP) : String := "[" ++ ",".intercalate (xs.map hexOpt) ++ "]"

def showNetConf6 (n : NetConf6) : String :=
  let addrs := n.addrs.map (fun a => s!"{hexOpt a.ip}/{a.pref}/{a.valid}")
  "addrs=[" ++ ",".intercalate addrs ++ "] dns=" ++ showIPList n.dns ++ " search=" ++ showBytesList n.search ++
    " ntp=" ++ showIPList n.ntp

def showBootConf6 (b : BootConf6) : String :=
  showNetConf6 b.net ++ " url=" ++ hex b.url ++ " params=" ++ showBytesList b.params

def showVendor6 (v : V6.VendorData) : String := s!"{hex v.vendor} {hex v.model} {hex v.serial}"
def showVendor4 (v : V4.Obs.VendorData) : String := s!"{hex v.vendor} {hex v.model} {hex v.serial}"

def showCircuit (c : CircuitID) : String :=
  s!"{hex c.slot},{hex c.module},{hex c.port},{hex c.subPort},{hex c.vlan}"

def showNetConf4 (n : V4.Obs.NetConf4) : String :=
  s!"ip={hexOpt n.ip} mask={hex n.mask} lease={n.lease} dns={showIPList n.dns} search={showBytesList n.search} " ++
    s!"routers={showIPList n.routers} ntp={showIPList n.ntp}"

/-! the two regular expressions of ztpv6/parse_remote_id.go, by hand (driver
side: the model takes the matcher as a parameter).  Both are unanchored; Go's
leftmost-first semantics picks the first start position at which the pattern
matches, and `[0-9]+` followed by a non-digit literal can only match with its
maximal run of digits. -/

def isDigit (b : UInt8) : Bool := 48 ≤ b && b ≤ 57
def ethernet : Bytes := ascii "Ethernet".toList

def digitsThen (s : Bytes) : Option (Bytes × Bytes) :=
  let d := s.takeWhile isDigit
  if d.isEmpty then none else some (d, s.dropWhile isDigit)

/-- `Ethernet(?P<port>[0-9]+):(?P<vlan>[0-9]+)` at the start of `s` -/
def matchPVAt (s : Bytes) : Option CircuitID := do
  if !ethernet.isPrefixOf s then none
  let (port, r) ← digitsThen (s.drop ethernet.length)
  match r with
  | 58 :: r =>
    let (vlan, _) ← digitsThen r
    pure { slot := [], module := [], port := port, subPort := [], vlan := vlan }
  | _ => none

/-- `Ethernet(?P<slot>[0-9]+)/(?P<module>[0-9]+)/(?P<port>[0-9]+)` at the start of `s` -/
def matchSMPAt (s : Bytes) : Option CircuitID := do
  if !ethernet.isPrefixOf s then none
  let (slot, r) ← digitsThen (s.drop ethernet.length)
  match r with
  | 47 :: r =>
    let (mod, r) ← digitsThen r
    match r with
    | 47 :: r =>
      let (port, _) ← digitsThen r
      pure { slot := slot, module := mod, port := port, subPort := [], vlan := [] }
    | _ => none
  | _ => none

def findFirst {α} (f : Bytes → Option α) : Bytes → Option α
  | [] => f []
  | c :: rest =>
    match f (c :: rest) with
    | some x => some x
    | none => findFirst f rest

/-- `matchCircuitId` of ztpv6 -/
def matchCircuitId6 (s : Bytes) : Option CircuitID :=
  match findFirst matchPVAt s with
  | some c => some c
  | none => findFirst matchSMPAt s

def unhexList (s : String) : Option (List Bytes) :=
  if s == "-" then some [] else (s.splitOn ",").mapM unhex

/-- decode every element; `none` = some element is rejected -/
def decAll {α} (dec : Bytes → Res α) : List Bytes → Option (List α)
  | [] => some []
  | b :: rest =>
    match dec b with
    | .ok m => (decAll dec rest).map (m :: ·)
    | _ => none

def stepC03x (op : String) (args : List String) : Option String :=
  let on6 (h : String) (f : Msg6 → String) : Option String := do
    let b ← unhex h
    pure (match dec6 b with
      | .ok m => f m
      | .err => "decerr"
      | .panic => "panic")
  let on4 (h : String) (f : V4.Pkt4 → String) : Option String := do
    let b ← unhex h
    pure (match V4.dec4 b with
      | .ok p => f p
      | .err => "decerr"
      | .panic => "panic")
  match op, args with
  | "c03xdecap", [h] => on6 h fun m => showR sxMsg (decapsulateRelay m)
  | "c03xdecapidx", [h, i] => do
    let i ← i.toInt?
    on6 h fun m => showR sxMsg (decapsulateRelayIndex m i)
  | "c03xinner", [h] => on6 h fun m => showR sxMsg (getInnerMessage m)
  | "c03xmac", [h] => on6 h fun m => showRes hex (extractMAC m)
  | "c03xeui", [ip] => do pure (showRes hex (getMacAddressFromEUI64 (← unhexOpt ip)))
  | "c03xnetconf6", [h] => on6 h fun m =>
    match m with
    | .relay .. => "badtype"
    | .msg _ _ os => showRes showNetConf6 (getNetConfFromPacketv6 os)
  | "c03xconv", [hs] => do
    let bs ← unhexList hs
    pure (match decAll dec6 bs with
      | none => "decerr"
      | some ms => showRes showBootConf6 (conversationToNetconf ms))
  | "c03xztp6", [h] => on6 h fun m => showRes showVendor6 (ztp6ParseVendorData m)
  | "c03xrid", [h] => on6 h fun m => showRes showCircuit (parseRemoteID matchCircuitId6 m)
  | "c03xreenc6", [h] => on6 h fun m => showRes hex (encMsgR m)
  | "c03xztp4", [h] => on4 h fun p => showRes showVendor4 (V4.Obs.parseVendorData (Client.Lease.toG p.opts))
  | "c03xnetconf4", [h] => on4 h fun p =>
    showRes showNetConf4 (V4.Obs.getNetConfFromPacketv4 p.yiaddr (Client.Lease.toG p.opts))
  | "c03xconv4", [hs] => do
    let bs ← unhexList hs
    pure (match decAll V4.dec4 bs with
      | none => "decerr"
      | some ps => showRes (fun b => showNetConf4 b.net ++ " url=" ++ hex b.url) (V4.Obs.conversationToNetconfv4 ps))
  | "c03xacc4", [name, h] => do
    let (_, render) ← findAcc name
    on4 h fun p => "ok " ++ render (Client.Lease.toG p.opts) 0
  | _, _ => none

end Dhcp.Driver

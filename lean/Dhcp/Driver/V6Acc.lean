import Dhcp.Driver.V6
import Dhcp.V6.Access
/-
  Line-protocol operations of the `V6Acc` family: every typed accessor of the DHCPv6
  option sets (Dhcp/V6/Access.lean) on a message given as a term - decoded shapes and
  hand-built ones (an `OptionGeneric` carrying a code of the parser table) alike.

    v6acc <accessor>[:<arg>] <path> <message term>  -> ok <value> | panic | badtype

  <path>: `-` = the message's (or relay message's) own option set, `i.j` = the
  option set nested in option j of option i.  `badtype` = the path leads to no
  option set, or to one of a kind that does not have this accessor method.
-/
namespace Dhcp.Driver
open Dhcp Dhcp.V6

def sxVal : Val → Sx
  | .nil => .atom "nil"
  | .opt o => sxOpt o
  | .opts os => .list (os.map sxOpt)
  | .msg m => sxMsg m
  | .duid d => sxDUID d
  | .nats l => .list (l.map sxNat)
  | .ips l => .list (l.map sxOptBytes)
  | .strs l => .list (l.map sxBytes)
  | .bytes b => sxBytes b
  | .dur d => sxInt d
  | .labels l => sxLabels l
  | .subs l => .list (l.map (fun o => .app "g" [sxNat o.1, sxBytes o.2]))
  | .lla t a => .app "lla" [sxNat t, sxBytes a]

def accOfName (s : String) : Option Acc :=
  match s.splitOn ":" with
  | ["archtypes"] => some .archTypes | ["clientid"] => some .clientID | ["serverid"] => some .serverID
  | ["iana"] => some .iana | ["oneiana"] => some .oneIANA | ["iata"] => some .iata
  | ["oneiata"] => some .oneIATA | ["iapd"] => some .iapd | ["oneiapd"] => some .oneIAPD
  | ["fourrd"] => some .fourRD | ["status"] => some .status | ["requestedoptions"] => some .requestedOptions
  | ["dns"] => some .dns | ["domainsearchlist"] => some .domainSearchList
  | ["bootfileurl"] => some .bootFileURL | ["bootfileparam"] => some .bootFileParam
  | ["userclasses"] => some .userClasses | ["vendorclasses"] => some .vendorClasses
  | ["vendorclass", n] => n.toNat?.map .vendorClass
  | ["vendoropts"] => some .vendorOpts
  | ["vendoropt", n] => n.toNat?.map .vendorOpt
  | ["elapsedtime"] => some .elapsedTime
  | ["informationrefreshtime", d] => d.toInt?.map .informationRefreshTime
  | ["fqdn"] => some .fqdn | ["dhcp4o6server"] => some .dhcp4o6Server | ["ntpservers"] => some .ntpServers
  | ["relaymessage"] => some .relayMessage | ["interfaceid"] => some .interfaceID
  | ["remoteid"] => some .remoteID | ["clientlinklayeraddress"] => some .clientLinkLayerAddress
  | ["addresses"] => some .addresses | ["oneaddress"] => some .oneAddress | ["iastatus"] => some .iaStatus
  | ["addrstatus"] => some .addrStatus | ["pfxstatus"] => some .pfxStatus
  | ["prefixes"] => some .prefixes | ["pdstatus"] => some .pdStatus
  | ["maprules"] => some .mapRules | ["nonmaprule"] => some .nonMapRule
  | _ => none

def pathOf (s : String) : Option (List Nat) :=
  if s == "-" then some [] else (s.splitOn ".").mapM (·.toNat?)

def stepV6Acc (op : String) (args : List String) : Option String :=
  match op, args with
  | "v6acc", [a, p, m] => do
    let a ← accOfName a
    let p ← pathOf p
    let m ← ofSxMsg (← Sx.parse m)
    match accessAt m p a with
    | none => pure "badtype"
    | some r => pure (showR sxVal r)
  | _, _ => none

end Dhcp.Driver

import Dhcp.Go.Lexer
/-
  Model of `dhcpv4.DHCPv4`, `dhcpv4.Options`, `(*DHCPv4).ToBytes`,
  `dhcpv4.FromBytes`, `Options.Marshal`, `Options.fromBytesCheckEnd`
  (dhcpv4/dhcpv4.go, dhcpv4/options.go).

  `Options` is a Go `map[uint8][]byte`.  In the model it is a total function
  `UInt8 → Option Bytes`: extensional equality is `=` (via `funext`) and map
  iteration order is absent by construction — whether the code depends on it
  is what the correspondence check observes.
  A Go nil and an empty non-nil option value are identified (both `some []`).
-/
namespace Dhcp.V4
open Dhcp

/-! ### Constants of the wire format (re-checked against the source on every
run by `DhcpProofs/Props/Instantiate.lean` via the regenerated facts) -/
def chunkMax : Nat := 255          -- math.MaxUint8 in Options.Marshal
def bootpMinLen : Nat := 300       -- dhcpv4.bootpMinLen
def minPacketLen : Nat := 236      -- dhcpv4.minPacketLen (only a capacity hint in ToBytes)
def magicCookie : Bytes := [99, 130, 83, 99]
def optPad : UInt8 := 0
def optAgentInfo : UInt8 := 82
def optEnd : UInt8 := 255
def snameCap : Nat := 64
def fileCap : Nat := 128
def chaddrLen : Nat := 16

/-- `dhcpv4.Options`.  A structure around the lookup function (rather than a
bare function type) so that compiled code computes updated values once, at
update time, instead of re-evaluating them at every lookup. -/
structure Opts where
  f : UInt8 → Option Bytes

namespace Opts
@[ext] theorem ext' {a b : Opts} (h : ∀ c, a.f c = b.f c) : a = b := by
  cases a; cases b; congr; funext c; exact h c
def empty : Opts := ⟨fun _ => none⟩
def get (o : Opts) (c : UInt8) : Option Bytes := o.f c
def set (o : Opts) (c : UInt8) (v : Bytes) : Opts := ⟨fun k => if k = c then some v else o.f k⟩
def del (o : Opts) (c : UInt8) : Opts := ⟨fun k => if k = c then none else o.f k⟩
/-- `o[c] = append(o[c], v...)` -/
def app (o : Opts) (c : UInt8) (v : Bytes) : Opts := o.set c ((o.f c).getD [] ++ v)
def has (o : Opts) (c : UInt8) : Bool := (o.f c).isSome
def allCodes : List UInt8 := (List.range 256).map UInt8.ofNat
/-- all keys in ascending order -/
def keys (o : Opts) : List UInt8 := allCodes.filter (fun k => (o.f k).isSome)
def toList (o : Opts) : List (UInt8 × Bytes) :=
  allCodes.filterMap (fun k => (o.f k).map (fun v => (k, v)))
def ofList (kvs : List (UInt8 × Bytes)) : Opts := kvs.foldl (fun o kv => o.set kv.1 kv.2) empty
end Opts

/-- `net.IP`: `none` is the nil slice, otherwise the raw bytes (any length). -/
abbrev IP := Option Bytes

/-- `net.IP.To4`: 4-byte form of an IPv4 or IPv4-mapped address, else nil. -/
def to4 (ip : Bytes) : Option Bytes :=
  if ip.length = 4 then some ip
  else if ip.length = 16 ∧ ip.take 10 = zeros 10 ∧ (ip.drop 10).take 2 = [255, 255] then some (ip.drop 12)
  else none

structure Pkt4 where
  op     : UInt8
  htype  : Nat        -- iana.HWType is a uint16; only the low byte is encoded
  hw     : Bytes      -- ClientHWAddr
  hops   : UInt8
  xid    : Bytes      -- [4]byte
  secs   : Nat        -- uint16
  flags  : Nat        -- uint16
  ciaddr : IP
  yiaddr : IP
  siaddr : IP
  giaddr : IP
  sname  : Bytes      -- ServerHostName (Go string)
  file   : Bytes      -- BootFileName
  opts   : Opts

/-! ### Encoding -/

/-- `sortedKeys`: ascending codes, then 82, then 255. -/
def sortedKeys (o : Opts) : List UInt8 :=
  (o.keys.filter (fun k => k != optAgentInfo && k != optEnd))
    ++ (if o.has optAgentInfo then [optAgentInfo] else [])
    ++ (if o.has optEnd then [optEnd] else [])

/-! #### `sortedKeys` as the code computes it: from a map iteration order

Go yields the keys of a map in an unspecified order that differs from run to
run.  `sortedKeysFrom it o` is `sortedKeys` executed when `for k := range o`
yields the keys in the order `it` (any permutation of the key set): the codes
other than 82 and 255 are collected in that order, `sort.Ints` sorts them
(`sortCodes`: insertion sort — any correct sort gives the same list,
`sortCodes_eq_of_perm`), then 82 and 255 are appended if present.
`sortedKeysFrom_eq` (Lemmas/V4MapOrder.lean): the result does not depend on
`it` and is `sortedKeys o`. -/

def insertCode (x : UInt8) : List UInt8 → List UInt8
  | [] => [x]
  | y :: ys => if x.toNat ≤ y.toNat then x :: y :: ys else y :: insertCode x ys

/-- `sort.Ints` on the collected codes -/
def sortCodes (l : List UInt8) : List UInt8 := l.foldr insertCode []

def sortedKeysFrom (it : List UInt8) : List UInt8 :=
  sortCodes (it.filter (fun k => k != optAgentInfo && k != optEnd))
    ++ (if it.contains optAgentInfo then [optAgentInfo] else [])
    ++ (if it.contains optEnd then [optEnd] else [])

/-- inner `for len(data) > 0` loop of `Options.Marshal` (RFC 3396 split).
`fuel` bounds the recursion structurally; `data.length` suffices. -/
def chunksAux (code : UInt8) : Nat → Bytes → Bytes
  | 0, _ => []
  | fuel + 1, data =>
    if data.length = 0 then []
    else
      let n := if data.length > chunkMax then chunkMax else data.length
      code :: UInt8.ofNat n :: (data.take n ++ chunksAux code fuel (data.drop n))

def chunks (code : UInt8) (data : Bytes) : Bytes :=
  if data.length = 0 then [code, 0] else chunksAux code data.length data

/-- `Options.Marshal` -/
def marshalOpts (o : Opts) : Bytes :=
  ((sortedKeys o).filter (fun c => c != optEnd && c != optPad)).flatMap
    (fun c => chunks c ((o.f c).getD []))

/-- `Options.Marshal` when the runtime yields the map's keys in the order `it` -/
def marshalOptsFrom (it : List UInt8) (o : Opts) : Bytes :=
  ((sortedKeysFrom it).filter (fun c => c != optEnd && c != optPad)).flatMap
    (fun c => chunks c ((o.f c).getD []))

/-- `writeIP`: nil → zeros; otherwise `ip.To4()[:4]`, which panics when
`To4` returns nil. -/
def writeIP (ip : IP) : Res Bytes :=
  match ip with
  | none => .ok (zeros 4)
  | some b =>
    match to4 b with
    | some v => .ok (v.take 4)
    | none => .panic

/-- `var buf [cap]byte; copy(buf[:cap-1], s); write buf[:]` — a name field:
at most `cap-1` bytes of the string, NUL padded to `cap`. -/
def nameField (cap : Nat) (s : Bytes) : Bytes := copyInto (cap - 1) s ++ [0]

/-- `(*DHCPv4).ToBytes` -/
def enc4 (p : Pkt4) : Res Bytes := do
  let ci ← writeIP p.ciaddr
  let yi ← writeIP p.yiaddr
  let si ← writeIP p.siaddr
  let gi ← writeIP p.giaddr
  let body : Bytes :=
    [p.op, UInt8.ofNat p.htype, UInt8.ofNat p.hw.length, p.hops] ++ copyInto 4 p.xid
      ++ be16 p.secs ++ be16 p.flags ++ ci ++ yi ++ si ++ gi
      ++ copyInto chaddrLen p.hw
      ++ nameField snameCap p.sname
      ++ nameField fileCap p.file
      ++ magicCookie ++ marshalOpts p.opts ++ [optEnd]
  pure (body ++ zeros (bootpMinLen - body.length))

/-! ### Decoding -/

/-- the `for buf.Len() >= 1` loop of `fromBytesCheckEnd`.
Returns `none` on error, else the map and whether End was seen. -/
def optsLoop : Nat → Lexer → Opts → Option (Opts × Bool)
  | 0, _, o => some (o, false)            -- unreachable with fuel = len+1
  | fuel + 1, l, o =>
    if l.len ≥ 1 then
      let (code, l) := l.read8
      if code = optPad then optsLoop fuel l o
      else if code = optEnd then some (o, true)
      else
        let (length, l) := l.read8
        match l.consume length.toNat with
        | (none, _) => none
        | (some d, l) =>
          -- `data == nil || buf.Error() != nil`: a missing length byte left the
          -- sticky error set although `Consume(0)` succeeded
          if l.err then none else optsLoop fuel l (o.app code d)
    else some (o, false)

/-- `Options.fromBytesCheckEnd(data, checkEnd)` starting from map `o`. -/
def optsFromBytes (o : Opts) (data : Bytes) (checkEnd : Bool) : Option Opts :=
  if data.length = 0 then some o
  else
    match optsLoop (data.length + 1) (Lexer.new data) o with
    | none => none
    | some (o', endSeen) => if !endSeen && checkEnd then none else some o'

/-- `dhcpv4.FromBytes` -/
def dec4 (q : Bytes) : Res Pkt4 :=
  let l := Lexer.new q
  let (op, l) := l.read8
  let (htype, l) := l.read8
  let (hlen, l) := l.read8
  let (hops, l) := l.read8
  let (xid, l) := l.readBytes 4
  let (secs, l) := l.read16
  let (flags, l) := l.read16
  let (ci, l) := l.copyN 4
  let (yi, l) := l.copyN 4
  let (si, l) := l.copyN 4
  let (gi, l) := l.copyN 4
  let hlen' := if hlen.toNat > 16 then 16 else hlen.toNat
  let (hw, l) := l.readBytes 16
  let (sname, l) := l.readBytes 64
  let (file, l) := l.readBytes 128
  let (cookie, l) := l.readBytes 4
  if l.error then .err
  else if cookie ≠ magicCookie then .err
  else
    match optsFromBytes Opts.empty l.data true with
    | none => .err
    | some o =>
      .ok { op := op, htype := htype.toNat, hw := hw.take hlen', hops := hops, xid := xid,
            secs := secs, flags := flags, ciaddr := ci, yiaddr := yi, siaddr := si, giaddr := gi,
            sname := cutNul sname, file := cutNul file, opts := o }

end Dhcp.V4

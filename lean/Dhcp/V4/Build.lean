import Dhcp.V4.Packet
/-
  Model of the DHCPv4 packet builders and modifiers
  (dhcpv4/dhcpv4.go: New, newDHCPv4, PrependModifiers, NewDiscovery, NewInform,
  NewRequestFromOffer, NewRenewFromAck, NewReplyFromRequest, NewReleaseFromACK;
  dhcpv4/modifiers.go and dhcpv4/option_ips.go: every exported `With*`).

  A Go `Modifier` is a closure `func(*DHCPv4)`.  Here it is a value of the
  inductive `Modifier` (one constructor per exported `With*` function, with its
  arguments) and `apply` is what calling the closure does to the packet.
  Values are copied, never shared (the Go code stores the caller's slices; that
  is C08's business, not C15's).  The transaction id `New` draws at random is
  a parameter of the model.

  As everywhere in the v4 model a nil and an empty non-nil option value are
  identified; `WithOptionCopied` tests `len(val) > 0`, `ParameterRequestList`
  decodes nil and empty alike, so no builder distinguishes them.
-/
namespace Dhcp.V4
open Dhcp

/-! ### Constants (re-checked against the source by `DhcpProofs/Facts/V4Build.lean`) -/
def opBootRequest : UInt8 := 1
def opBootReply : UInt8 := 2
def hwEthernet : Nat := 1
def mtDiscover : UInt8 := 1
def mtRequest : UInt8 := 3
def mtRelease : UInt8 := 7
def mtInform : UInt8 := 8
def optSubnetMask : UInt8 := 1
def optRouter : UInt8 := 3
def optDNS : UInt8 := 6
def optDomainName : UInt8 := 15
def optRequestedIP : UInt8 := 50
def optLeaseTime : UInt8 := 51
def optMessageType : UInt8 := 53
def optServerID : UInt8 := 54
def optParamList : UInt8 := 55
def optClientID : UInt8 := 61
def optTFTPServerName : UInt8 := 66
def optBootfileName : UInt8 := 67
def optUserClass : UInt8 := 77
def optIPv6Only : UInt8 := 108
def optDomainSearch : UInt8 := 119
def broadcastMask : Nat := 0x8000
def unicastMask : Nat := 0x7FFF        -- ^uint16(0x8000)

/-- `net.IPv4zero`: `net.IPv4(0,0,0,0)`, the 16-byte IPv4-mapped form. -/
def ipv4zero : Bytes := zeros 10 ++ [255, 255] ++ zeros 4

/-- `[]byte(ip.To4())`: the 4 bytes of an IPv4 / IPv4-mapped address, nothing
for a nil or non-IPv4 value (what `dhcpv4.IP.ToBytes` and each element of
`dhcpv4.IPs.ToBytes` write). -/
def ipTo4Bytes (ip : IP) : Bytes :=
  match ip with
  | none => []
  | some b => (to4 b).getD []

/-- A `dhcpv4.OptionCode` interface value: its code and whether its dynamic
type is `GenericOptionCode` (`generic = true`) or the package's own
`optionCode` (the exported `Option…` constants and every code decoded from a
packet).  `OptionCodeList.Has` compares interface values with `==`, so two
values are the same only when BOTH the type and the code agree: merging
`GenericOptionCode(3)` into a list holding `OptionRouter` adds a second 3. -/
structure OptCode where
  generic : Bool
  code : UInt8
  deriving DecidableEq

/-- a code of the package's own type (an `Option…` constant) -/
def OptCode.named (c : UInt8) : OptCode := ⟨false, c⟩

/-- `OptionCodeList.Add`: append every code value not yet in the list (a value
given twice in `cs` is added once; duplicates already in `l` stay). -/
def addCodes (l : List OptCode) (cs : List OptCode) : List OptCode :=
  cs.foldl (fun l c => if l.contains c then l else l ++ [c]) l

/-- A `dhcpv4.Option` as built by the typed constructors the builders (and the
harness) use. -/
inductive OptVal where
  | generic (c : UInt8) (v : Bytes)     -- OptGeneric(code, value)
  | messageType (m : UInt8)             -- OptMessageType(m)
  | requestedIP (ip : IP)               -- OptRequestedIPAddress(ip)
  | serverID (ip : IP)                  -- OptServerIdentifier(ip)
  | paramList (cs : List UInt8)         -- OptParameterRequestList(cs...)

namespace OptVal
def code : OptVal → UInt8
  | generic c _ => c
  | messageType _ => optMessageType
  | requestedIP _ => optRequestedIP
  | serverID _ => optServerID
  | paramList _ => optParamList
/-- `opt.Value.ToBytes()` -/
def bytes : OptVal → Bytes
  | generic _ v => v
  | messageType m => [m]
  | requestedIP ip => ipTo4Bytes ip
  | serverID ip => ipTo4Bytes ip
  | paramList cs => cs
end OptVal

/-- One constructor per exported `With*` function. -/
inductive Modifier where
  | withTransactionID (x : Bytes)
  | withClientIP (ip : IP)
  | withYourIP (ip : IP)
  | withServerIP (ip : IP)
  | withGatewayIP (ip : IP)
  | withOptionCopied (req : Pkt4) (c : UInt8)
  | withReply (req : Pkt4)
  | withHWType (h : Nat)
  | withBroadcast (b : Bool)
  | withHwAddr (hw : Bytes)
  | withOption (o : OptVal)
  | withoutOption (c : UInt8)
  | withUserClass (uc : Bytes) (rfc : Bool)
  | withNetboot
  | withMessageType (m : UInt8)
  | withRequestedOptions (cs : List OptCode)
  | withRelay (ip : IP)
  | withNetmask (mask : Bytes)
  | withLeaseTime (secs : Nat)            -- uint32
  | withIPv6OnlyPreferred (secs : Nat)    -- uint32
  | withDomainSearchList (encoded : Bytes) -- rfc1035label.Labels.ToBytes() of the list
  | withGeneric (c : UInt8) (v : Bytes)
  | withRouter (ips : List IP)
  | withDNS (ips : List IP)

/-- name of the Go function a constructor stands for (used by the facts) -/
def Modifier.name : Modifier → String
  | .withTransactionID _ => "WithTransactionID"
  | .withClientIP _ => "WithClientIP"
  | .withYourIP _ => "WithYourIP"
  | .withServerIP _ => "WithServerIP"
  | .withGatewayIP _ => "WithGatewayIP"
  | .withOptionCopied _ _ => "WithOptionCopied"
  | .withReply _ => "WithReply"
  | .withHWType _ => "WithHWType"
  | .withBroadcast _ => "WithBroadcast"
  | .withHwAddr _ => "WithHwAddr"
  | .withOption _ => "WithOption"
  | .withoutOption _ => "WithoutOption"
  | .withUserClass _ _ => "WithUserClass"
  | .withNetboot => "WithNetboot"
  | .withMessageType _ => "WithMessageType"
  | .withRequestedOptions _ => "WithRequestedOptions"
  | .withRelay _ => "WithRelay"
  | .withNetmask _ => "WithNetmask"
  | .withLeaseTime _ => "WithLeaseTime"
  | .withIPv6OnlyPreferred _ => "WithIPv6OnlyPreferred"
  | .withDomainSearchList _ => "WithDomainSearchList"
  | .withGeneric _ _ => "WithGeneric"
  | .withRouter _ => "WithRouter"
  | .withDNS _ => "WithDNS"

/-! ### Packet methods the modifiers call -/

/-- `d.UpdateOption(opt)`: `d.Options[code] = value` -/
def setOpt (p : Pkt4) (c : UInt8) (v : Bytes) : Pkt4 := { p with opts := p.opts.set c v }
/-- `d.DeleteOption(code)` -/
def delOpt (p : Pkt4) (c : UInt8) : Pkt4 := { p with opts := p.opts.del c }
/-- `d.IsBroadcast()`: `Flags&0x8000 == 0x8000` -/
def isBroadcast (p : Pkt4) : Bool := p.flags &&& broadcastMask == broadcastMask
/-- `d.SetBroadcast()`: `Flags |= 0x8000` -/
def setBroadcast (p : Pkt4) : Pkt4 := { p with flags := p.flags ||| broadcastMask }
/-- `d.SetUnicast()`: `Flags &= ^uint16(0x8000)` -/
def setUnicast (p : Pkt4) : Pkt4 := { p with flags := p.flags &&& unicastMask }
/-- `d.ParameterRequestList()`: the codes of option 55 (nil when absent; the
decoder accepts every byte string), each of the package's own code type. -/
def paramRequestList (p : Pkt4) : List OptCode := ((p.opts.get optParamList).getD []).map OptCode.named

/-- `WithRequestedOptions(cs...)(d)`: decode option 55, `Add`, re-encode -/
def requestOptions (p : Pkt4) (cs : List OptCode) : Pkt4 :=
  setOpt p optParamList ((addCodes (paramRequestList p) cs).map (·.code))

/-- `Duration.ToBytes` of `time.Duration(secs) * time.Second` for a uint32. -/
def durationBytes (secs : Nat) : Bytes := be32 secs

/-- Calling the modifier on the packet. -/
def apply (m : Modifier) (p : Pkt4) : Pkt4 :=
  match m with
  | .withTransactionID x => { p with xid := x }
  | .withClientIP ip => { p with ciaddr := ip }
  | .withYourIP ip => { p with yiaddr := ip }
  | .withServerIP ip => { p with siaddr := ip }
  | .withGatewayIP ip => { p with giaddr := ip }
  | .withOptionCopied req c =>
    -- `if val := request.Options.Get(opt); len(val) > 0 { d.UpdateOption(OptGeneric(opt, val)) }`
    match req.opts.get c with
    | some v => if v.length > 0 then setOpt p c v else p
    | none => p
  | .withReply req =>
    { p with op := if req.op = opBootRequest then opBootReply else opBootRequest,
             htype := req.htype, xid := req.xid, hw := req.hw, flags := req.flags }
  | .withHWType h => { p with htype := h }
  | .withBroadcast b => if b then setBroadcast p else setUnicast p
  | .withHwAddr hw => { p with hw := hw }
  | .withOption o => setOpt p o.code o.bytes
  | .withoutOption c => delOpt p c
  | .withUserClass uc rfc =>
    -- rfc: Strings{uc}.ToBytes() = uint8(len) ++ uc; else String(uc)
    setOpt p optUserClass (if rfc then UInt8.ofNat uc.length :: uc else uc)
  | .withNetboot => requestOptions p [.named optTFTPServerName, .named optBootfileName]
  | .withMessageType t => setOpt p optMessageType [t]
  | .withRequestedOptions cs => requestOptions p cs
  | .withRelay ip =>
    let q := setUnicast p
    { q with giaddr := ip, hops := q.hops + 1 }
  | .withNetmask mask => setOpt p optSubnetMask (mask.take 4)
  | .withLeaseTime s => setOpt p optLeaseTime (durationBytes s)
  | .withIPv6OnlyPreferred s => setOpt p optIPv6Only (durationBytes s)
  | .withDomainSearchList enc => setOpt p optDomainSearch enc
  | .withGeneric c v => setOpt p c v
  | .withRouter ips => setOpt p optRouter (ips.flatMap ipTo4Bytes)
  | .withDNS ips => setOpt p optDNS (ips.flatMap ipTo4Bytes)

/-- running a modifier list in order: `for _, mod := range modifiers { mod(&d) }` -/
def applyAll (ms : List Modifier) (p : Pkt4) : Pkt4 := ms.foldl (fun p m => apply m p) p

/-- the struct literal of `newDHCPv4` -/
def basePkt (xid : Bytes) : Pkt4 :=
  { op := opBootRequest, htype := hwEthernet, hw := zeros 6, hops := 0, xid := xid, secs := 0,
    flags := 0, ciaddr := some ipv4zero, yiaddr := some ipv4zero, siaddr := some ipv4zero,
    giaddr := some ipv4zero, sname := [], file := [], opts := Opts.empty }

/-- `newDHCPv4(xid, modifiers...)` (= `New(modifiers...)` with the drawn xid) -/
def newDHCPv4 (xid : Bytes) (mods : List Modifier) : Pkt4 := applyAll mods (basePkt xid)

/-- `PrependModifiers(m, other...)`: `append(other, m...)` -/
def prependModifiers (m : List Modifier) (other : List Modifier) : List Modifier := other ++ m

/-- the parameter request list every requesting builder asks for:
subnet mask, router, domain name, DNS -/
def stdRequested : List OptCode :=
  [.named optSubnetMask, .named optRouter, .named optDomainName, .named optDNS]

/-- The exported builders and what they are given. -/
inductive Builder where
  | new
  | discovery (hw : Bytes)
  | inform (hw : Bytes) (localIP : IP)
  | requestFromOffer (offer : Pkt4)
  | renewFromAck (ack : Pkt4)
  | replyFromRequest (req : Pkt4)
  | releaseFromAck (ack : Pkt4)

/-- the modifiers each builder passes as `other` to `PrependModifiers` -/
def Builder.defaults : Builder → List Modifier
  | .new => []
  | .discovery hw =>
    [.withHwAddr hw, .withRequestedOptions stdRequested, .withMessageType mtDiscover]
  | .inform hw ip =>
    [.withHwAddr hw, .withMessageType mtInform, .withClientIP ip]
  | .requestFromOffer offer =>
    [.withReply offer, .withMessageType mtRequest, .withClientIP offer.ciaddr,
     .withOption (.requestedIP offer.yiaddr), .withOptionCopied offer optServerID,
     .withRequestedOptions stdRequested]
  | .renewFromAck ack =>
    [.withReply ack, .withMessageType mtRequest, .withClientIP ack.yiaddr, .withBroadcast false,
     .withRequestedOptions stdRequested]
  | .replyFromRequest req =>
    [.withReply req, .withGatewayIP req.giaddr, .withOptionCopied req optAgentInfo,
     .withOptionCopied req optClientID]
  | .releaseFromAck ack =>
    [.withMessageType mtRelease, .withClientIP ack.yiaddr, .withHwAddr ack.hw, .withBroadcast false,
     .withOptionCopied ack optServerID]

/-- `New(PrependModifiers(modifiers, defaults...)...)` -/
def build (b : Builder) (xid : Bytes) (user : List Modifier) : Pkt4 :=
  newDHCPv4 xid (prependModifiers user b.defaults)

def newDiscovery (xid hw : Bytes) (user : List Modifier) : Pkt4 := build (.discovery hw) xid user
def newInform (xid hw : Bytes) (localIP : IP) (user : List Modifier) : Pkt4 :=
  build (.inform hw localIP) xid user
def newRequestFromOffer (xid : Bytes) (offer : Pkt4) (user : List Modifier) : Pkt4 :=
  build (.requestFromOffer offer) xid user
def newRenewFromAck (xid : Bytes) (ack : Pkt4) (user : List Modifier) : Pkt4 :=
  build (.renewFromAck ack) xid user
def newReplyFromRequest (xid : Bytes) (req : Pkt4) (user : List Modifier) : Pkt4 :=
  build (.replyFromRequest req) xid user
def newReleaseFromAck (xid : Bytes) (ack : Pkt4) (user : List Modifier) : Pkt4 :=
  build (.releaseFromAck ack) xid user

/-! ### What a modifier can write (frame conditions)

`m.writes f = false` means applying `m` leaves field `f` as it was, for every
packet (`apply_frame` in Lemmas/V4Build.lean).  The property theorems say
"the builder's default survives every user modifier list none of whose
members writes that field". -/
inductive Field where
  | op | htype | hw | hops | xid | flags | ciaddr | yiaddr | siaddr | giaddr
  | opt (c : UInt8)
  deriving DecidableEq

def Modifier.writes (m : Modifier) (f : Field) : Bool :=
  match m, f with
  | .withTransactionID _, .xid => true
  | .withClientIP _, .ciaddr => true
  | .withYourIP _, .yiaddr => true
  | .withServerIP _, .siaddr => true
  | .withGatewayIP _, .giaddr => true
  | .withOptionCopied _ c, .opt k => k == c
  | .withReply _, .op => true
  | .withReply _, .htype => true
  | .withReply _, .xid => true
  | .withReply _, .hw => true
  | .withReply _, .flags => true
  | .withHWType _, .htype => true
  | .withBroadcast _, .flags => true
  | .withHwAddr _, .hw => true
  | .withOption o, .opt k => k == o.code
  | .withoutOption c, .opt k => k == c
  | .withUserClass _ _, .opt k => k == optUserClass
  | .withNetboot, .opt k => k == optParamList
  | .withMessageType _, .opt k => k == optMessageType
  | .withRequestedOptions _, .opt k => k == optParamList
  | .withRelay _, .flags => true
  | .withRelay _, .giaddr => true
  | .withRelay _, .hops => true
  | .withNetmask _, .opt k => k == optSubnetMask
  | .withLeaseTime _, .opt k => k == optLeaseTime
  | .withIPv6OnlyPreferred _, .opt k => k == optIPv6Only
  | .withDomainSearchList _, .opt k => k == optDomainSearch
  | .withGeneric c _, .opt k => k == c
  | .withRouter _, .opt k => k == optRouter
  | .withDNS _, .opt k => k == optDNS
  | _, _ => false

/-- no member of the list writes field `f` -/
def NoWrite (ms : List Modifier) (f : Field) : Prop := ∀ m ∈ ms, m.writes f = false

instance (ms : List Modifier) (f : Field) : Decidable (NoWrite ms f) := by
  unfold NoWrite; infer_instance

/-- the value of a field, for stating frame conditions uniformly -/
inductive FieldVal where
  | byte (b : UInt8) | nat (n : Nat) | bytes (b : Bytes) | ip (ip : IP) | optv (v : Option Bytes)

def Pkt4.field (p : Pkt4) : Field → FieldVal
  | .op => .byte p.op
  | .htype => .nat p.htype
  | .hw => .bytes p.hw
  | .hops => .byte p.hops
  | .xid => .bytes p.xid
  | .flags => .nat p.flags
  | .ciaddr => .ip p.ciaddr
  | .yiaddr => .ip p.yiaddr
  | .siaddr => .ip p.siaddr
  | .giaddr => .ip p.giaddr
  | .opt c => .optv (p.opts.get c)

end Dhcp.V4

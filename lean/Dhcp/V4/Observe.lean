import Dhcp.V4.Values
import Dhcp.Client.Lease
import Dhcp.Go.Strings
/-
  Read-only observers of a DHCPv4 packet outside package dhcpv4 (C03):
  * dhcpv4/ztpv4 `parseClassIdentifier`, `parseVIVC`, `ParseVendorData`,
    `ParseCircuitID` (regular expressions abstracted);
  * netboot `GetNetConfFromPacketv4`, `ConversationToNetconfv4`.
  They read the packet through the typed accessors modelled for C17
  (`Acc.*` over `GOpts`, Dhcp/V4/Values.lean); a decoded packet `p` is seen as
  `toG p.opts` (an empty value is the nil slice, what `FromBytes` produces).
  Every index into a `strings.Split` result is an explicit guard (`idx`).
  Nil and empty slices are identified in the results.
-/
namespace Dhcp.V4.Obs
open Dhcp Dhcp.V4 Dhcp.Str Dhcp.Client.Lease

/-! ### ztpv4 -/

structure VendorData where
  vendor : Bytes
  model : Bytes
  serial : Bytes
  deriving DecidableEq, Repr

def pfxArista : Bytes := ascii ['A', 'r', 'i', 's', 't', 'a', ';']
def pfxZPE : Bytes := ascii ['Z', 'P', 'E', 'S', 'y', 's', 't', 'e', 'm', 's', ':']
def pfxJuniperDash : Bytes := ascii ['J', 'u', 'n', 'i', 'p', 'e', 'r', '-']
def pfxJuniperColon : Bytes := ascii ['J', 'u', 'n', 'i', 'p', 'e', 'r', ':']
/-- `strconv.Itoa(int(iana.EnterpriseIDCienaCorporation))` -/
def pfxCiena : Bytes := ascii ['1', '2', '7', '1']
def fpr4100 : Bytes := ascii ['F', 'P', 'R', '4', '1', '0', '0']
def fpr9300 : Bytes := ascii ['F', 'P', 'R', '9', '3', '0', '0']
def nameCiena : Bytes := ascii "Ciena Corporation".toList
def nameCisco : Bytes := ascii "Cisco Systems".toList
def sepSemi : Bytes := ascii [';']
def sepColon : Bytes := ascii [':']
def sepDash : Bytes := ascii ['-']
def keySN : Bytes := ascii ['S', 'N']
def keyPID : Bytes := ascii ['P', 'I', 'D']
/-- `dhcpv4.OptionClientIdentifier` -/
def clientIdentifier : UInt8 := 61
/-- `iana.EnterpriseIDCiscoSystems` -/
def entCisco : Nat := 9

/-- `parseClassIdentifier(packet)`: `ok none` is the `(nil, nil)` return -/
def parseClassIdentifier (o : GOpts) : Res (Option VendorData) :=
  let vc := Acc.classIdentifier o
  if hasPrefix vc pfxArista then
    let p := split vc sepSemi
    if p.length < 4 then .err
    else (idx p 0).bind fun v => (idx p 1).bind fun m => (idx p 3).bind fun s => .ok (some ⟨v, m, s⟩)
  else if hasPrefix vc pfxZPE then
    let p := split vc sepColon
    if p.length < 3 then .err
    else (idx p 0).bind fun v => (idx p 1).bind fun m => (idx p 2).bind fun s => .ok (some ⟨v, m, s⟩)
  else if hasPrefix vc pfxJuniperDash then
    let p := split vc sepDash
    let ms : Res (Bytes × Bytes) :=
      if p.length < 3 then
        -- `vd.Model = p[1]`: no length test in the source (the prefix guarantees two pieces)
        (idx p 1).bind fun m =>
          let serial := Acc.hostName o
          if serial.isEmpty then .err else .ok (m, serial)
      else
        -- `p[1:len(p)-1]` and `p[len(p)-1]`, `len(p) ≥ 3` here
        (idx p (p.length - 1)).bind fun s => .ok (join sepDash ((p.take (p.length - 1)).drop 1), s)
    ms.bind fun (m, s) => (idx p 0).bind fun v => .ok (some ⟨v, m, s⟩)
  else if hasPrefix vc pfxJuniperColon then
    let p := split vc sepColon
    if p.length = 3 then
      (idx p 0).bind fun v => (idx p 1).bind fun m => (idx p 2).bind fun s => .ok (some ⟨v, m, s⟩)
    else .err
  else if hasPrefix vc pfxCiena then
    let v := split vc sepDash
    if v.length ≠ 3 then .err
    else
      (idx v 1).bind fun a => (idx v 2).bind fun b =>
        let serial := getString clientIdentifier o
        if serial.isEmpty then .err else .ok (some ⟨nameCiena, a ++ sepDash ++ b, serial⟩)
  else if vc = fpr4100 ∨ vc = fpr9300 then
    let serial := getString clientIdentifier o
    if serial.isEmpty then .err else .ok (some ⟨nameCisco, vc, serial⟩)
  else .ok none

/-- the loop over `bytes.Split(id.Data, ";")` of `parseVIVC`: (serial, model) -/
def vivcFields : List Bytes → Bytes × Bytes → Res (Bytes × Bytes)
  | [], acc => .ok acc
  | f :: rest, acc =>
    let p := split f sepColon
    if p.length ≠ 2 then .err
    else
      (idx p 0).bind fun k => (idx p 1).bind fun v =>
        vivcFields rest (if k = keySN then (v, acc.2) else if k = keyPID then (acc.1, v) else acc)

/-- `parseVIVC(packet)`: the first identifier of enterprise Cisco Systems decides -/
def parseVIVC (o : GOpts) : Res (Option VendorData) :=
  match ((Acc.vivc o).getD []).find? (fun i => i.entID = entCisco) with
  | none => .ok none
  | some i => (vivcFields (split i.data sepSemi) ([], [])).map fun sm => some ⟨nameCisco, sm.2, sm.1⟩

/-- `ztpv4.ParseVendorData(packet)` -/
def parseVendorData (o : GOpts) : Res VendorData :=
  match parseClassIdentifier o with
  | .panic => .panic
  | .err => .err
  | .ok (some vd) => .ok vd
  | .ok none =>
    match parseVIVC o with
    | .panic => .panic
    | .err => .err
    | .ok (some vd) => .ok vd
    | .ok none => .err

/-- `dhcpv4.AgentCircuitIDSubOption` -/
def agentCircuitID : UInt8 := 1

/-- `ztpv4.ParseCircuitID(packet)`, `matchCircuitID` (eleven regular expressions,
`match[i]` for `i` ranging over `re.SubexpNames()`) abstracted as a total `mc` -/
def parseCircuitID {γ : Type} (mc : Bytes → Option γ) (o : GOpts) : Res γ :=
  match Acc.relayAgentInfo o with
  | none => .err
  | some ro =>
    let s := (ro.get agentCircuitID).getD []
    if s.isEmpty then .err
    else match mc s with
      | some c => .ok c
      | none => .err

/-! ### netboot (DHCPv4) -/

/-- the number of leading ones of a mask octet `1…10…0`, `none` otherwise -/
def byteOnes (v : UInt8) : Option Nat :=
  if v = 0 then some 0 else if v = 0x80 then some 1 else if v = 0xc0 then some 2
  else if v = 0xe0 then some 3 else if v = 0xf0 then some 4 else if v = 0xf8 then some 5
  else if v = 0xfc then some 6 else if v = 0xfe then some 7 else none

/-- `net.simpleMaskLength`: `none` = -1 (not a run of ones followed by zeros) -/
def simpleMaskLength : Bytes → Option Nat
  | [] => some 0
  | v :: rest =>
    if v = 0xff then (simpleMaskLength rest).map (· + 8)
    else
      match byteOnes v with
      | none => none
      | some k => if rest.all (· == 0) then some k else none

/-- `ones, _ := netmask.Size()` -/
def maskOnes (m : Bytes) : Nat := (simpleMaskLength m).getD 0

/-- `net.IPv4zero` (16-byte form) -/
def ipv4zero : IP := some (v4InV6Prefix ++ [0, 0, 0, 0])

structure NetConf4 where
  ip : IP
  mask : Bytes
  lease : Int
  dns : List IP
  search : List Bytes
  routers : List IP
  ntp : List IP
  deriving DecidableEq, Repr

/-- `GetNetConfFromPacketv4(d)` for a non-nil `d` -/
def getNetConfFromPacketv4 (yiaddr : IP) (o : GOpts) : Res NetConf4 :=
  if yiaddr = none ∨ ipEqual yiaddr ipv4zero then .err
  else
    match Acc.subnetMask o with
    | none => .err
    | some m =>
      if maskOnes m = 0 then .err
      else
        match Acc.domainSearch o with
        | .panic => .panic
        | .err => .err
        | .ok ds =>
          let search : Option (List Bytes) :=
            match ds with
            | none => some []
            | some l => if l.labels.isEmpty then none else some l.labels
          match search with
          | none => .err
          | some search =>
            let routers := (Acc.router o).getD []
            if routers.isEmpty then .err
            else .ok { ip := yiaddr, mask := m, lease := Acc.ipAddressLeaseTime o 0,
                       dns := (Acc.dns o).getD [], search := search, routers := routers,
                       ntp := (Acc.ntpServers o).getD [] }

/-- `dhcpv4.OpcodeBootReply`, `dhcpv4.MessageTypeOffer` -/
def opBootReply : UInt8 := 2
def mtOffer : UInt8 := 2

structure BootConf4 where
  net : NetConf4
  url : Bytes
  deriving DecidableEq, Repr

/-- `ConversationToNetconfv4(conversation)` over decoded packets (no nil
pointers in the list): the first BOOTREPLY of type OFFER -/
def conversationToNetconfv4 (conv : List Pkt4) : Res BootConf4 :=
  match conv.find? (fun p => p.op = opBootReply && messageType p = mtOffer) with
  | none => .err
  | some reply =>
    (getNetConfFromPacketv4 reply.yiaddr (toG reply.opts)).map fun nc => { net := nc, url := reply.file }

end Dhcp.V4.Obs

import Dhcp.V4.Packet
/-
  The encodable domain of C01/C07 as an explicit predicate, and the
  normalisation the round trip performs (IP addresses come back in 4-byte
  form, nil as 0.0.0.0).  Nothing else is normalised.
-/
namespace Dhcp.V4
open Dhcp

def ipOK (ip : IP) : Prop :=
  match ip with
  | none => True
  | some b => (to4 b).isSome

instance (ip : IP) : Decidable (ipOK ip) := by
  unfold ipOK; cases ip <;> infer_instance

/-- the 4 bytes `writeIP` emits for an address of the domain -/
def ip4 (ip : IP) : Bytes :=
  match ip with
  | none => zeros 4
  | some b => (to4 b).getD []

/-- The encodable domain of C01: hardware type ≤ 255, hardware address of
0..16 bytes, 4-byte transaction id, 16-bit seconds/flags, addresses nil /
4-byte / IPv4-mapped, server name ≤ 63 and boot file ≤ 127 bytes without NUL,
option codes 1..254 (no bound on their number or on value lengths). -/
structure Encodable (p : Pkt4) : Prop where
  htype : p.htype ≤ 255
  hw : p.hw.length ≤ 16
  xid : p.xid.length = 4
  secs : p.secs < 65536
  flags : p.flags < 65536
  ci : ipOK p.ciaddr
  yi : ipOK p.yiaddr
  si : ipOK p.siaddr
  gi : ipOK p.giaddr
  sname_len : p.sname.length ≤ 63
  sname_nul : ∀ b ∈ p.sname, b ≠ 0
  file_len : p.file.length ≤ 127
  file_nul : ∀ b ∈ p.file, b ≠ 0
  no_pad : p.opts.f 0 = none
  no_end : p.opts.f 255 = none

/-- What decode∘encode returns: the same packet with addresses in 4-byte form. -/
def norm (p : Pkt4) : Pkt4 :=
  { p with ciaddr := some (ip4 p.ciaddr), yiaddr := some (ip4 p.yiaddr),
           siaddr := some (ip4 p.siaddr), giaddr := some (ip4 p.giaddr) }

end Dhcp.V4

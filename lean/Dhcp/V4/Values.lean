import Dhcp.V4.Packet
import Dhcp.Label
/-
  Model of the DHCPv4 option *value types* (dhcpv4/option_*.go, dhcpv4/types.go,
  iana/archtype.go) and of the typed accessors on `*DHCPv4`
  (dhcpv4/dhcpv4.go, `BroadcastAddress` … `VIVC`).

  Every `FromBytes` is written against the Lexer model exactly as the Go code
  is written against `uio.Lexer` (same reads in the same order, same loop
  guards, same final `FinError`/`Error`).  A `FromBytes` model returns
  `none` when the Go method returns a non-nil error; every caller in scope
  discards the receiver in that case, so its partially filled contents are
  not modelled.

  The accessors only read `d.Options`, and they branch on `v == nil` where `v`
  is `Options.Get(code)`, i.e. `o[code]`: nil for a missing key *and* for a key
  holding a nil slice, but not for an empty non-nil slice.  `Dhcp.V4.Opts`
  identifies nil and empty values, which is too coarse here, so the accessors
  are modelled on `GOpts`, the same map with the nil-ness of values kept.
  (`RelayOptions` *results* are `Opts`: nothing branches on the nil-ness of a
  sub-option value.)

  `DomainSearch` uses the rfc1035label model of `Dhcp/Label.lean` (C19).
-/
namespace Dhcp.V4
open Dhcp

/-- a Go `[]byte`: `none` is the nil slice -/
abbrev GoBytes := Option Bytes

/-- what a `uio` write buffer that started as `NewBigEndianBuffer(nil)` returns
from `Data()`: nil unless at least one byte was appended -/
def goBuf (b : Bytes) : GoBytes := if b.isEmpty then none else some b

/-- a Go slice variable that starts nil and is only ever `append`ed to -/
def goSlice {α} (xs : List α) : Option (List α) := if xs.isEmpty then none else some xs

/-- `dhcpv4.Options` (`map[uint8][]byte`) keeping the nil-ness of values:
outer `none` = key absent, `some none` = key present holding a nil slice. -/
structure GOpts where
  f : UInt8 → Option GoBytes

namespace GOpts
def empty : GOpts := ⟨fun _ => none⟩
/-- `Options.Get(code)` = `o[code]` -/
def get (o : GOpts) (c : UInt8) : GoBytes :=
  match o.f c with
  | some v => v
  | none => none
/-- `Options.Update(Option{code, value})`: `o[code] = value.ToBytes()` -/
def update (o : GOpts) (c : UInt8) (v : GoBytes) : GOpts := ⟨fun k => if k = c then some v else o.f k⟩
end GOpts

/-! ### Option codes the accessors read (re-checked against the source on
every run: `DhcpProofs/Facts/V4Acc.lean`) -/
namespace Code
def subnetMask : UInt8 := 1
def router : UInt8 := 3
def dns : UInt8 := 6
def hostName : UInt8 := 12
def domainName : UInt8 := 15
def rootPath : UInt8 := 17
def broadcastAddress : UInt8 := 28
def ntpServers : UInt8 := 42
def netBIOSNameServers : UInt8 := 44
def requestedIPAddress : UInt8 := 50
def ipAddressLeaseTime : UInt8 := 51
def messageType : UInt8 := 53
def serverIdentifier : UInt8 := 54
def parameterRequestList : UInt8 := 55
def message : UInt8 := 56
def maxMessageSize : UInt8 := 57
def renewalTime : UInt8 := 58
def rebindingTime : UInt8 := 59
def classIdentifier : UInt8 := 60
def tftpServerName : UInt8 := 66
def bootfileName : UInt8 := 67
def userClass : UInt8 := 77
def relayAgentInfo : UInt8 := 82
def clientArch : UInt8 := 93
def ipv6OnlyPreferred : UInt8 := 108
def autoConfigure : UInt8 := 116
def domainSearch : UInt8 := 119
def classlessStaticRoute : UInt8 := 121
def vivc : UInt8 := 124
end Code

/-- accessor ↦ (option code it reads, "Name:Kind") where Kind is the getter or
value type the accessor parses with (`+TrimRight` when trailing NULs are
trimmed), sorted by name.  The regenerated fact `Gen.v4accCodes` (every method
of `*DHCPv4` that reads `d.Options` with a constant code) must equal it, so an
accessor that reads another code, parses with another type, or a new accessor
the model does not know breaks the obligation. -/
def accTable : List (Nat × String) :=
  [ (Code.autoConfigure.toNat, "AutoConfigure:GetByte"),
    (Code.bootfileName.toNat, "BootFileNameOption:GetString+TrimRight"),
    (Code.broadcastAddress.toNat, "BroadcastAddress:GetIP"),
    (Code.classIdentifier.toNat, "ClassIdentifier:GetString"),
    (Code.classlessStaticRoute.toNat, "ClasslessStaticRoute:Routes"),
    (Code.clientArch.toNat, "ClientArch:iana.Archs"),
    (Code.dns.toNat, "DNS:GetIPs"),
    (Code.domainName.toNat, "DomainName:GetString+TrimRight"),
    (Code.domainSearch.toNat, "DomainSearch:rfc1035label.FromBytes"),
    (Code.hostName.toNat, "HostName:GetString+TrimRight"),
    (Code.ipAddressLeaseTime.toNat, "IPAddressLeaseTime:Duration"),
    (Code.rebindingTime.toNat, "IPAddressRebindingTime:Duration"),
    (Code.renewalTime.toNat, "IPAddressRenewalTime:Duration"),
    (Code.ipv6OnlyPreferred.toNat, "IPv6OnlyPreferred:Duration"),
    (Code.maxMessageSize.toNat, "MaxMessageSize:GetUint16"),
    (Code.message.toNat, "Message:GetString+TrimRight"),
    (Code.messageType.toNat, "MessageType:MessageType"),
    (Code.ntpServers.toNat, "NTPServers:GetIPs"),
    (Code.netBIOSNameServers.toNat, "NetBIOSNameServers:GetIPs"),
    (Code.parameterRequestList.toNat, "ParameterRequestList:OptionCodeList"),
    (Code.relayAgentInfo.toNat, "RelayAgentInfo:RelayOptions"),
    (Code.requestedIPAddress.toNat, "RequestedIPAddress:GetIP"),
    (Code.rootPath.toNat, "RootPath:GetString+TrimRight"),
    (Code.router.toNat, "Router:GetIPs"),
    (Code.serverIdentifier.toNat, "ServerIdentifier:GetIP"),
    (Code.subnetMask.toNat, "SubnetMask:IPMask"),
    (Code.tftpServerName.toNat, "TFTPServerName:GetString+TrimRight"),
    (Code.userClass.toNat, "UserClass:Strings"),
    (Code.vivc.toNat, "VIVC:VIVCIdentifiers") ]

/-! ### IP (option_ip.go) -/

/-- `(*IP).FromBytes`: `*i = IP(buf.CopyN(4)); return buf.FinError()` -/
def ipFromBytes (data : Bytes) : Option IP :=
  let (ip, l) := (Lexer.new data).copyN 4
  if l.finError then none else some ip

/-- `IP.ToBytes`: `[]byte(net.IP(i).To4())` -/
def ipToBytes (ip : IP) : GoBytes :=
  match ip with
  | none => none
  | some b => to4 b

/-- `GetIP(code, o)` -/
def getIP (c : UInt8) (o : GOpts) : IP :=
  match o.get c with
  | none => none
  | some v =>
    match ipFromBytes v with
    | none => none
    | some ip => ip

/-! ### IPs (option_ips.go) -/

/-- `for buf.Has(4) { *i = append(*i, net.IP(buf.CopyN(4))) }` -/
def ipsLoop : Nat → Lexer → List IP × Lexer
  | 0, l => ([], l)
  | fuel + 1, l =>
    if l.has 4 then
      let (ip, l) := l.copyN 4
      let (rest, l) := ipsLoop fuel l
      (ip :: rest, l)
    else ([], l)

/-- `(*IPs).FromBytes` -/
def ipsFromBytes (data : Bytes) : Option (List IP) :=
  let l := Lexer.new data
  if l.len = 0 then none
  else
    let (xs, l) := ipsLoop (data.length + 1) l
    if l.finError then none else some xs

/-- `IPs.ToBytes`: `buf.WriteBytes(ip.To4())` for each address (an address
whose `To4` is nil writes nothing) -/
def ipsToBytes (ips : List IP) : GoBytes :=
  goBuf (ips.flatMap (fun ip => (ipToBytes ip).getD []))

/-- `GetIPs(code, o)` -/
def getIPs (c : UInt8) (o : GOpts) : Option (List IP) :=
  match o.get c with
  | none => none
  | some v => ipsFromBytes v

/-! ### IPMask (option_subnet_mask.go) -/

def maskFromBytes (data : Bytes) : Option GoBytes :=
  let (m, l) := (Lexer.new data).copyN 4
  if l.finError then none else some m

/-- `IPMask.ToBytes`: `if len(im) > 4 { return im[:4] }; return im` -/
def maskToBytes (m : GoBytes) : GoBytes :=
  match m with
  | none => none
  | some b => if b.length > 4 then some (b.take 4) else some b

/-! ### Duration (option_duration.go): `time.Duration` is `Int` nanoseconds -/

def second : Int := 1000000000

/-- `*d = Duration(time.Duration(buf.Read32()) * time.Second); return buf.FinError()`
(`2^32 · 10^9 < 2^63`: the multiplication cannot overflow) -/
def durationFromBytes (data : Bytes) : Option Int :=
  let (n, l) := (Lexer.new data).read32
  if l.finError then none else some ((n : Int) * second)

/-- `buf.Write32(uint32(time.Duration(d) / time.Second))`: Go's `/` truncates
towards zero, the conversion keeps the low 32 bits. -/
def durationToBytes (d : Int) : GoBytes :=
  some (be32 ((Int.tdiv d second) % 4294967296).toNat)

/-- `IPAddressLeaseTime(def)`, `IPAddressRenewalTime(def)`, `IPAddressRebindingTime(def)` -/
def getDuration (c : UInt8) (o : GOpts) (dflt : Int) : Int :=
  match o.get c with
  | none => dflt
  | some v =>
    match durationFromBytes v with
    | none => dflt
    | some d => d

/-! ### String (option_string.go); Go strings are byte strings -/

/-- `GetString(code, o)`: `""` when `o[code] == nil`, else `string(v)` -/
def getString (c : UInt8) (o : GOpts) : Bytes :=
  match o.get c with
  | none => []
  | some v => v

/-- `strings.TrimRight(name, "\x00")` -/
def trimRightNul (s : Bytes) : Bytes := (s.reverse.dropWhile (· == 0)).reverse

/-- `String.ToBytes`: `[]byte(o)`, non-nil even for the empty string -/
def stringToBytes (s : Bytes) : GoBytes := some s

/-! ### Strings (option_strings.go, RFC 3004) -/

/-- `for buf.Has(1) { ucLen := buf.Read8(); if ucLen == 0 { return err };
*o = append(*o, string(buf.CopyN(int(ucLen)))) }`. `none` = the early return.
A short `CopyN` appends `""`, sets the sticky error and does not advance. -/
def stringsLoop : Nat → Lexer → Option (List Bytes × Lexer)
  | 0, l => some ([], l)
  | fuel + 1, l =>
    if l.has 1 then
      let (n, l) := l.read8
      if n = 0 then none
      else
        let (s, l) := l.copyN n.toNat
        match stringsLoop fuel l with
        | none => none
        | some (rest, l) => some (s.getD [] :: rest, l)
    else some ([], l)

/-- `(*Strings).FromBytes` -/
def stringsFromBytes (data : Bytes) : Option (List Bytes) :=
  let l := Lexer.new data
  if l.len = 0 then none
  else
    match stringsLoop (data.length + 1) l with
    | none => none
    | some (xs, l) => if l.finError then none else some xs

/-- `Strings.ToBytes`: `Write8(uint8(len(uc))); WriteBytes(uc)` for each -/
def stringsToBytes (xs : List Bytes) : GoBytes :=
  goBuf (xs.flatMap (fun s => UInt8.ofNat s.length :: s))

/-! ### Uint16 (option_maximum_dhcp_message_size.go) -/

def uint16FromBytes (data : Bytes) : Option Nat :=
  let (n, l) := (Lexer.new data).read16
  if l.finError then none else some n

def uint16ToBytes (n : Nat) : GoBytes := some (be16 n)

/-- `GetUint16(code, o)`: `(value, nil)` or `(0, err)` -/
def getUint16 (c : UInt8) (o : GOpts) : Res Nat :=
  match o.get c with
  | none => .err
  | some v =>
    match uint16FromBytes v with
    | none => .err
    | some n => .ok n

/-! ### single bytes: GetByte / AutoConfiguration (option_autoconfigure.go),
MessageType (types.go) -/

/-- `GetByte(code, o)`: `data[0]` is guarded by `len(data) != 1` -/
def getByte (c : UInt8) (o : GOpts) : Res UInt8 :=
  match o.get c with
  | none => .err
  | some [b] => .ok b
  | some _ => .err

/-- `(*MessageType).FromBytes`: `*m = MessageType(buf.Read8()); return buf.FinError()` -/
def messageTypeFromBytes (data : Bytes) : Option UInt8 :=
  let (m, l) := (Lexer.new data).read8
  if l.finError then none else some m

/-! ### OptionCodeList (option_parameter_request_list.go) -/

/-- `for buf.Has(1) { *ol = append(*ol, optionCode(buf.Read8())) }` -/
def codesLoop : Nat → Lexer → List UInt8 × Lexer
  | 0, l => ([], l)
  | fuel + 1, l =>
    if l.has 1 then
      let (c, l) := l.read8
      let (rest, l) := codesLoop fuel l
      (c :: rest, l)
    else ([], l)

/-- `(*OptionCodeList).FromBytes`; `*ol = make(OptionCodeList, 0, n)` makes the
result non-nil even when empty -/
def codesFromBytes (data : Bytes) : Option (List UInt8) :=
  let (xs, l) := codesLoop (data.length + 1) (Lexer.new data)
  if l.finError then none else some xs

def codesToBytes (cs : List UInt8) : GoBytes := goBuf cs

/-! ### Routes (option_routes.go, RFC 3442) -/

/-- `dhcpv4.Route` as decoded: `Dest.IP` (4 bytes), `Dest.Mask =
CIDRMask(width, 32)`, `Router`. -/
structure Route where
  dest : Bytes
  width : Nat
  router : IP
  deriving Repr, DecidableEq

/-- `(*Route).Unmarshal`; `none` = an error is returned. `r.Dest.IP[:dstLen]`
cannot be out of range: `maskSize ≤ 32` was checked, so `dstLen ≤ 4`. -/
def routeUnmarshal (l : Lexer) : Option (Route × Lexer) :=
  let (w, l) := l.read8
  if w.toNat > 32 then none
  else
    let dstLen := (w.toNat + 7) / 8
    let (d, l) := l.readBytes dstLen
    let (r, l) := l.copyN 4
    if l.error then none
    else some ({ dest := d ++ zeros (4 - dstLen), width := w.toNat, router := r }, l)

/-- `for buf.Has(1) { if err := route.Unmarshal(buf); err != nil { return err };
*r = append(*r, &route) }` -/
def routesLoop : Nat → Lexer → Option (List Route × Lexer)
  | 0, l => some ([], l)
  | fuel + 1, l =>
    if l.has 1 then
      match routeUnmarshal l with
      | none => none
      | some (r, l) =>
        match routesLoop fuel l with
        | none => none
        | some (rs, l) => some (r :: rs, l)
    else some ([], l)

/-- `(*Routes).FromBytes` on a nil receiver: the result is the nil slice when
no route was appended. -/
def routesFromBytes (data : Bytes) : Option (Option (List Route)) :=
  match routesLoop (data.length + 1) (Lexer.new data) with
  | none => none
  | some (rs, l) => if l.finError then none else some (goSlice rs)

/-- argument of `OptClasslessStaticRoute` as the harness builds it:
`&Route{Dest: &net.IPNet{IP: dest, Mask: net.CIDRMask(width, 32)}, Router: router}` -/
structure RouteArg where
  dest : IP
  width : Nat
  router : IP

/-- `Route.Marshal`. `CIDRMask(w, 32)` is nil for `w > 32` and `Size()` of a
nil mask is `(0, 0)`. `r.Dest.IP.To4()[:dstLen]` panics when `To4` is nil and
`dstLen > 0`. -/
def routeMarshal (r : RouteArg) : Res Bytes :=
  let ones := if r.width ≤ 32 then r.width else 0
  let dstLen := (ones + 7) / 8
  let rt := (ipToBytes r.router).getD []
  match ipToBytes r.dest with
  | none => if dstLen = 0 then .ok (UInt8.ofNat ones :: rt) else .panic
  | some d => .ok (UInt8.ofNat ones :: (d.take dstLen ++ rt))

def routesMarshal : List RouteArg → Res Bytes
  | [] => .ok []
  | r :: rs => do
    let a ← routeMarshal r
    let b ← routesMarshal rs
    pure (a ++ b)

def routesToBytes (rs : List RouteArg) : Res GoBytes := (routesMarshal rs).map goBuf

/-! ### VIVCIdentifiers (option_vivc.go, RFC 3925) -/

/-- `VIVCIdentifier`; the nil-ness of `Data` is not modelled -/
structure VIVCId where
  entID : Nat
  data : Bytes
  deriving Repr, DecidableEq

/-- `for buf.Has(5) { entID := buf.Read32(); idLen := int(buf.Read8());
*ids = append(*ids, VIVCIdentifier{entID, buf.CopyN(idLen)}) }` -/
def vivcLoop : Nat → Lexer → List VIVCId × Lexer
  | 0, l => ([], l)
  | fuel + 1, l =>
    if l.has 5 then
      let (e, l) := l.read32
      let (n, l) := l.read8
      let (d, l) := l.copyN n.toNat
      let (rest, l) := vivcLoop fuel l
      (⟨e, d.getD []⟩ :: rest, l)
    else ([], l)

/-- `(*VIVCIdentifiers).FromBytes` on a nil receiver -/
def vivcFromBytes (data : Bytes) : Option (Option (List VIVCId)) :=
  let (ids, l) := vivcLoop (data.length + 1) (Lexer.new data)
  if l.finError then none else some (goSlice ids)

/-- `VIVCIdentifiers.ToBytes`: `Write32(uint32(EntID)); Write8(uint8(len(Data)));
WriteBytes(Data)` -/
def vivcToBytes (ids : List VIVCId) : GoBytes :=
  goBuf (ids.flatMap (fun i => be32 i.entID ++ UInt8.ofNat i.data.length :: i.data))

/-! ### iana.Archs (iana/archtype.go, RFC 4578) -/

/-- `for buf.Has(2) { *a = append(*a, Arch(buf.Read16())) }` -/
def archsLoop : Nat → Lexer → List Nat × Lexer
  | 0, l => ([], l)
  | fuel + 1, l =>
    if l.has 2 then
      let (a, l) := l.read16
      let (rest, l) := archsLoop fuel l
      (a :: rest, l)
    else ([], l)

def archsFromBytes (data : Bytes) : Option (List Nat) :=
  let l := Lexer.new data
  if l.len = 0 then none
  else
    let (xs, l) := archsLoop (data.length + 1) l
    if l.finError then none else some xs

def archsToBytes (as : List Nat) : GoBytes := goBuf (as.flatMap be16)

/-! ### RelayOptions (option_relay_agent_information.go, RFC 3046) -/

/-- `r.Options = make(Options); return r.Options.FromBytes(data)`, i.e.
`fromBytesCheckEnd(data, false)` on an empty map -/
def relayFromBytes (data : Bytes) : Option Opts := optsFromBytes Opts.empty data false

/-- `RelayOptions{OptionsFromList(o...)}.ToBytes()` = `uio.ToBigEndian(o)` =
`Options.Marshal` into a nil buffer -/
def relayToBytes (o : Opts) : GoBytes := goBuf (marshalOpts o)

/-! ### rfc1035label.Labels as an option value (option_misc.go, RFC 3397) -/

/-- `(*Labels).ToBytes()` with the nil-ness of the result: `l.original` is
returned as it is (nil or not); `labelsToBytes` appends to a nil slice, so it
is nil when nothing was written.  Same case analysis as `Label.Labels.toBytesR`. -/
def labelsGoBytes (l : Label.Labels) : Res GoBytes :=
  match Label.labelsFromBytes (Label.goBytes l.original) with
  | .panic => .panic
  | .err => .ok l.original
  | .ok originalLabels =>
    if l.original ≠ none ∧ originalLabels = l.labels then .ok l.original
    else .ok (goBuf (Label.labelsToBytes l.labels))

/-- the packet after `ToBytes` then `FromBytes`, as far as the accessors can
see: a value that is nil or empty comes back as a nil slice under its key
(`[code, 0]` on the wire, `append(nil, empty...)` in the option loop), any
other value unchanged (split and re-joined when longer than 255). -/
def GOpts.wire (o : GOpts) : GOpts :=
  ⟨fun c => match o.f c with
    | some (some (b :: bs)) => some (some (b :: bs))
    | some _ => some none
    | none => none⟩

/-! ### the `Options` map `dhcpv4.FromBytes` builds, with the nil-ness of its values

The packet codec model (`Opts`, `optsLoop`, `dec4`) identifies nil and empty
option values; the accessors branch on nil-ness.  The loop is therefore
modelled a second time on `GOpts`, statement for statement, with Go's `append`
on a possibly nil slice.  `DhcpProofs/Lemmas/V4ValDecoded.lean` proves that it
builds exactly `Opts.toG` of what `optsLoop` builds: a key whose instances are
all zero-length holds a NIL slice (`append(nil, empty...)` is nil), every other
key its non-empty concatenation — decoding never yields an empty non-nil value. -/

/-- `append(x, d...)` for a possibly nil `x`: appending nothing to nil leaves nil -/
def gAppend (x : GoBytes) (d : Bytes) : GoBytes :=
  match x with
  | none => goBuf d
  | some a => some (a ++ d)

/-- `o[code] = append(o[code], data...)` -/
def GOpts.app (o : GOpts) (c : UInt8) (d : Bytes) : GOpts :=
  ⟨fun k => if k = c then some (gAppend (o.get c) d) else o.f k⟩

/-- the `for buf.Len() >= 1` loop of `fromBytesCheckEnd` (as `optsLoop`) on the
map with nil-ness -/
def optsLoopG : Nat → Lexer → GOpts → Option (GOpts × Bool)
  | 0, _, o => some (o, false)
  | fuel + 1, l, o =>
    if l.len ≥ 1 then
      let (code, l) := l.read8
      if code = optPad then optsLoopG fuel l o
      else if code = optEnd then some (o, true)
      else
        let (length, l) := l.read8
        match l.consume length.toNat with
        | (none, _) => none
        | (some d, l) =>
          if l.err then none else optsLoopG fuel l (o.app code d)
    else some (o, false)

/-- `Options.fromBytesCheckEnd(data, checkEnd)` (as `optsFromBytes`) on the map with nil-ness -/
def optsFromBytesG (o : GOpts) (data : Bytes) (checkEnd : Bool) : Option GOpts :=
  if data.length = 0 then some o
  else
    match optsLoopG (data.length + 1) (Lexer.new data) o with
    | none => none
    | some (o', endSeen) => if !endSeen && checkEnd then none else some o'

/-- the `Options` of the packet `dhcpv4.FromBytes(q)` returns (it returns one
exactly when `dec4 q = .ok _`): the option loop run on what follows the
240-octet header and cookie -/
def decOptsG (q : Bytes) : Option GOpts := optsFromBytesG GOpts.empty (q.drop 240) true

/-- an `Opts` value read as the Go map a decoder leaves behind: an empty value is
a nil slice under its key -/
def Opts.toG (o : Opts) : GOpts := ⟨fun c => (o.f c).map goBuf⟩

/-- `net.IPv4(a, b, c, d)`: the 16-byte IPv4-mapped form -/
def ipv4 (a b c d : UInt8) : Bytes := zeros 10 ++ [255, 255, a, b, c, d]

/-! ### The typed accessors of `*DHCPv4` -/
namespace Acc

/-- `DomainSearch() *rfc1035label.Labels`: `none` is the nil pointer; a panic
inside the label decoder would propagate (C19: there is none). -/
def domainSearch (o : GOpts) : Res (Option Label.Labels) :=
  match o.get Code.domainSearch with
  | none => .ok none
  | some v =>
    match Label.fromBytes v with
    | .ok l => .ok (some l)
    | .err => .ok none
    | .panic => .panic

def broadcastAddress (o : GOpts) : IP := getIP Code.broadcastAddress o
def requestedIPAddress (o : GOpts) : IP := getIP Code.requestedIPAddress o
def serverIdentifier (o : GOpts) : IP := getIP Code.serverIdentifier o

def router (o : GOpts) : Option (List IP) := getIPs Code.router o
def ntpServers (o : GOpts) : Option (List IP) := getIPs Code.ntpServers o
def netBIOSNameServers (o : GOpts) : Option (List IP) := getIPs Code.netBIOSNameServers o
def dns (o : GOpts) : Option (List IP) := getIPs Code.dns o

def domainName (o : GOpts) : Bytes := trimRightNul (getString Code.domainName o)
def hostName (o : GOpts) : Bytes := trimRightNul (getString Code.hostName o)
def rootPath (o : GOpts) : Bytes := trimRightNul (getString Code.rootPath o)
def bootFileNameOption (o : GOpts) : Bytes := trimRightNul (getString Code.bootfileName o)
def tftpServerName (o : GOpts) : Bytes := trimRightNul (getString Code.tftpServerName o)
/-- option 60 is opaque octets, not NVT ASCII: returned as sent, NULs included -/
def classIdentifier (o : GOpts) : Bytes := getString Code.classIdentifier o
def message (o : GOpts) : Bytes := trimRightNul (getString Code.message o)

def ipAddressLeaseTime (o : GOpts) (dflt : Int) : Int := getDuration Code.ipAddressLeaseTime o dflt
def ipAddressRenewalTime (o : GOpts) (dflt : Int) : Int := getDuration Code.renewalTime o dflt
def ipAddressRebindingTime (o : GOpts) (dflt : Int) : Int := getDuration Code.rebindingTime o dflt

/-- `IPv6OnlyPreferred() (time.Duration, bool)` -/
def ipv6OnlyPreferred (o : GOpts) : Int × Bool :=
  match o.get Code.ipv6OnlyPreferred with
  | none => (0, false)
  | some v =>
    match durationFromBytes v with
    | none => (0, false)
    | some d => (d, true)

/-- `MaxMessageSize() (uint16, error)` -/
def maxMessageSize (o : GOpts) : Res Nat := getUint16 Code.maxMessageSize o

/-- `AutoConfigure() (AutoConfiguration, bool)`: `v, err := GetByte(...);
return AutoConfiguration(v), err == nil` -/
def autoConfigure (o : GOpts) : UInt8 × Bool :=
  match getByte Code.autoConfigure o with
  | .ok b => (b, true)
  | _ => (0, false)

/-- `MessageType()`; `MessageTypeNone = 0` -/
def messageType (o : GOpts) : UInt8 :=
  match o.get Code.messageType with
  | none => 0
  | some v =>
    match messageTypeFromBytes v with
    | none => 0
    | some m => m

def subnetMask (o : GOpts) : GoBytes :=
  match o.get Code.subnetMask with
  | none => none
  | some v =>
    match maskFromBytes v with
    | none => none
    | some m => m

def classlessStaticRoute (o : GOpts) : Option (List Route) :=
  match o.get Code.classlessStaticRoute with
  | none => none
  | some v =>
    match routesFromBytes v with
    | none => none
    | some rs => rs

def parameterRequestList (o : GOpts) : Option (List UInt8) :=
  match o.get Code.parameterRequestList with
  | none => none
  | some v => codesFromBytes v

/-- `RelayAgentInfo() *RelayOptions`: `none` is the nil pointer -/
def relayAgentInfo (o : GOpts) : Option Opts :=
  match o.get Code.relayAgentInfo with
  | none => none
  | some v => relayFromBytes v

/-- `UserClass()`: a value that is not RFC 3004 is returned whole, as one class -/
def userClass (o : GOpts) : Option (List Bytes) :=
  match o.get Code.userClass with
  | none => none
  | some v =>
    match stringsFromBytes v with
    | none => some [getString Code.userClass o]
    | some xs => some xs

def vivc (o : GOpts) : Option (List VIVCId) :=
  match o.get Code.vivc with
  | none => none
  | some v =>
    match vivcFromBytes v with
    | none => none
    | some ids => ids

def clientArch (o : GOpts) : Option (List Nat) :=
  match o.get Code.clientArch with
  | none => none
  | some v => archsFromBytes v

end Acc
end Dhcp.V4

import Dhcp.Client.Timed
import Dhcp.Client.Lease
/-
  The bridge between the two client models used by C13 and C10–C12.

  * `Dhcp.Client.Lease` (C13) describes the lease exchanges over an ABSTRACT
    call: `sendAndRead stream match = stream.find? match`, where `stream` is
    what the routed channel delivers to the call, in arrival order.
  * `Dhcp.Client.Timed` (C11/C12) is the timed machine of ONE `SendAndRead`
    call: `runObs T n obs H` for the sequence `obs` of stimuli the calling
    goroutine observes, each with its instant.

  This file only DEFINES how a routed stream with arrival instants is an
  observation sequence of the timed machine, how the machine's return is read
  back as a packet, and the exchanges of `Dhcp.Client.Lease` with every
  abstract call replaced by a run of the timed machine.  The theorems
  (`sendAndRead_refines*` in DhcpProofs/Lemmas/ClientRefine.lean, `C13_call_*`,
  `C13_*_timed` in DhcpProofs/Props/C13.lean) say that the machine's return IS
  the abstract call's answer.

  Routed stream = the datagrams the receive loop hands to the call's
  registrations (same transaction id, decodable, BOOTREPLY, the client's
  hardware address: C10), each with the instant at which the caller's `select`
  receives it, counted from the start of the call.  Datagrams the caller never
  sees (other transaction id, dropped by the filters, lost in the hand-over
  between two tries) are NOT in the routed stream: in the timed machine they
  are `irr` observations, which never change a result
  (`refines_with_irrelevant` in the lemmas, `C13_call_unseen_ignored`).
-/
namespace Dhcp.Client.Refine
open Dhcp.Client.Timed

variable {α : Type}

/-- What the caller's `select` sees of one routed packet: `match == nil ||
match(packet)` decides between `acc` and `rej`. -/
def kindOf (m : α → Bool) (p : α) : Kind := if m p then .acc else .rej

/-- The observation sequence of a routed stream: arrival number `i` (0-based
position in the stream, counted from `i0`) at instant `t` carrying `p` is the
observation `⟨t, acc | rej, i, fl i⟩`.  The tag is the POSITION, so the
machine's `.resp i` names one arrival unambiguously (equal packets arriving
twice are told apart).  `fl i` is the model's quiescence flag of that arrival
(`true`: a per-try deadline falling on exactly `t` fired first; `false`: the
datagram raced with it and won); the theorems hold for EVERY `fl` unless they
say otherwise. -/
def obsFrom (m : α → Bool) (fl : Nat → Bool) : Nat → List (Int × α) → List Obs
  | _, [] => []
  | i, a :: rest => ⟨a.1, kindOf m a.2, i, fl i⟩ :: obsFrom m fl (i + 1) rest

def obsOf (m : α → Bool) (fl : Nat → Bool) (arr : List (Int × α)) : List Obs := obsFrom m fl 0 arr

/-- every arrival applied at quiescence (what the correspondence streams do) -/
def quiescent : Nat → Bool := fun _ => true

/-- The packets of the routed stream, in arrival order: the `stream` argument
of the abstract call. -/
def streamOf (arr : List (Int × α)) : List α := arr.map (·.2)

/-- Reading the machine's return back as the packet handed to the caller:
`.resp i` is arrival number `i`; every other outcome (no-response error,
context error, write error) and a call still running carry no packet. -/
def answer (arr : List (Int × α)) : Option (Int × Outcome) → Option α
  | some (_, .resp i) => (arr[i]?).map (·.2)
  | _ => none

/-- The retry budget `T·(2^n − 1)` of a call with `n ≥ 0` tries: the instant at
which the last per-try deadline fires. -/
def callBudget (T n : Int) : Int := T * (2 ^ n.toNat - 1)

/-- Arrival instants are counted from the start of the call and never go back. -/
def Ordered (arr : List (Int × α)) : Prop := (∀ a ∈ arr, 0 ≤ a.1) ∧ arr.Pairwise (fun a b => a.1 ≤ b.1)

/-- Every arrival is strictly before the budget (no condition when `n < 0`:
the call retries for ever). -/
def InBudget (T n : Int) (arr : List (Int × α)) : Prop := 0 ≤ n → ∀ a ∈ arr, a.1 < callBudget T n

/-- ONE `SendAndRead` call run on the timed machine: timeout `T`, `n` tries,
matcher `m`, the routed stream `arr` with its instants (all applied at
quiescence), observed up to the horizon `H`; the packet returned, `none` for
any error or a call that is still running at `H`. -/
def timedCall (T n : Int) (m : α → Bool) (arr : List (Int × α)) (H : Int) : Option α :=
  answer arr (runObs T n (obsOf m quiescent arr) H).ret

/-- The script of external events (layer 2 of the timed model, what the
`client4`/`client6` streams feed the real clients with) that injects the routed
stream: datagram number `i` (counted from `i0`) applied at quiescence iff
`sy i`. -/
def scriptFrom (m : α → Bool) (sy : Nat → Bool) : Nat → List (Int × α) → List Event
  | _, [] => []
  | i, a :: rest => ⟨a.1, if m a.2 then .acc else .rej, sy i⟩ :: scriptFrom m sy (i + 1) rest

/-- every datagram applied at quiescence -/
def scriptOf (m : α → Bool) (arr : List (Int × α)) : List Event := scriptFrom m quiescent 0 arr

/-- What the caller observes of a script of datagram injections when nothing
races: event number `i` at its effective instant (the script clock never goes
back: `max e.t clk`), any deadline falling on that instant having fired first. -/
def scriptObsFrom (clk : Int) (i : Nat) : List Event → List Obs
  | [] => []
  | e :: es => ⟨max e.t clk, obsKind e.kind, i, true⟩ :: scriptObsFrom (max e.t clk) (i + 1) es

def scriptObs (evs : List Event) : List Obs := scriptObsFrom 0 0 evs

/-- a script that only injects datagrams (no cancel, no Close) -/
def ArrivalsOnly (evs : List Event) : Prop := ∀ e ∈ evs, isArrival e.kind = true

/-- what a group of the script looks like to the caller when nothing races -/
def viewOf (g : Int × Bool × Group) : List Obs := toObs g.1 true g.2.2

/-! ### The exchanges of `Dhcp.Client.Lease` over the timed machine

Same code as `discoverOffer`, `requestFromOffer`, `request`, `renew`, `inform`
and `call6` of Dhcp/Client/Lease.lean with `sendAndRead stream match` replaced
by `timedCall T n match arrivals H`: every call has its own clock (instants
count from the start of THAT call), the client's `T` and `n` are the same for
all calls of an exchange, `H` is a horizon past the budget. -/

open Dhcp Dhcp.V4 Dhcp.Client.Lease

def discoverOfferTimed (T n : Int) (xid hw : Bytes) (user : List Modifier) (a : List (Int × Pkt4)) (H : Int) :
    Run (Option Pkt4) :=
  ⟨[discoverPkt xid hw user], timedCall T n offerMatcher a H⟩

def requestFromOfferTimed (T n : Int) (xid : Bytes) (offer : Pkt4) (user : List Modifier)
    (a : List (Int × Pkt4)) (H : Int) : Run LeaseResult :=
  ⟨[requestPkt xid offer user], completion offer (timedCall T n (ackNakMatcher offer) a H)⟩

def requestTimed (T n : Int) (xid xid2 hw : Bytes) (user : List Modifier) (a1 a2 : List (Int × Pkt4)) (H : Int) :
    Run LeaseResult :=
  let d := discoverOfferTimed T n xid hw user a1 H
  match d.res with
  | none => ⟨d.sent, .errNoResponse⟩
  | some offer =>
    let r := requestFromOfferTimed T n xid2 offer user a2 H
    ⟨d.sent ++ r.sent, r.res⟩

def renewTimed (T n : Int) (xid : Bytes) (l : Lease) (user : List Modifier) (a : List (Int × Pkt4)) (H : Int) :
    Run LeaseResult :=
  ⟨[renewPkt xid l user], completion l.offer (timedCall T n (ackNakMatcher l.offer) a H)⟩

def informTimed (T n : Int) (xid hw : Bytes) (localIP : IP) (user : List Modifier) (a : List (Int × Pkt4)) (H : Int) :
    Run (Option Pkt4) :=
  ⟨[newInform xid hw localIP user], timedCall T n (isMessageType mtAck []) a H⟩

open Dhcp.V6 in
/-- the matcher function of a `nclient6.Matcher` (`match == nil || match(packet)`) -/
def matcher6 : Matcher6 → Msg6 → Bool
  | none => fun _ => true
  | some m => m

open Dhcp.V6 in
/-- `call6` over the timed machine -/
def call6Timed (T n : Int) (built : Res Msg6) (a : List (Int × Msg6)) (mtch : Matcher6) (H : Int) : Run6 :=
  match built with
  | .ok m =>
    ⟨[m], match timedCall T n (matcher6 mtch) a H with
          | some r => .msg r
          | none => .errNoResponse⟩
  | .err => ⟨[], .errBuild⟩
  | .panic => ⟨[], .panic⟩

end Dhcp.Client.Refine

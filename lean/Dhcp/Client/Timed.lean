/-
  Timed sequential model of ONE `SendAndRead` call of nclient4 / nclient6
  (identical code in both: /repo/dhcpv4/nclient4/client.go:610-669,
  /repo/dhcpv6/nclient6/client.go:444-503) under virtual time.

  Go code being modelled (current tree, after the three client fixes):

      func (c *Client) retryFn(fn func(timeout time.Duration) error) error {
          timeout := c.timeout
          for i := 0; i < c.retry || c.retry < 0; i++ {
              switch err := fn(timeout); err {
              case nil:                 return nil
              case errDeadlineExceeded: timeout *= 2
              default:                  return err
              }
          }
          return errDeadlineExceeded          // SendAndRead maps it to ErrNoResponse
      }
      fn = func(timeout) error {
          ch, rem, err := c.send(dest, p)     // register xid, WriteTo(p.ToBytes(), dest)
          defer rem()
          deadline := time.After(timeout)     // armed ONCE per try
          for { select {
              case <-c.done:     return ErrNoResponse
              case <-deadline:   return errDeadlineExceeded
              case <-ctx.Done(): return ctx.Err()
              case packet := <-ch: if match == nil || match(packet) { response = packet; return nil }
          } }
      }

  Two layers.

  * Layer 1, `runObs`: a deterministic machine fed with the sequence of stimuli
    *as the calling goroutine observes them* (`Obs`): a same-xid datagram the
    matcher rejects / accepts, the context ending, the client being closed,
    or something the caller never sees (`irr`: datagram dropped by the receive
    loop, or lost).  Between two observations the per-try deadlines that fall
    strictly before the observation's instant fire; a deadline falling exactly
    ON that instant fires first iff the observation is flagged `afterTimer`.
    All property theorems (C11 timing part, C12) are statements about `runObs`
    for EVERY observation sequence, so they cover every way of resolving a
    coincidence.

  * Layer 2, `runCall`: what a *script* of time-stamped external events
    (datagram injected / ctx cancelled / Close called, each either applied
    after the system is quiescent — `sync` — or right away) can make the
    caller observe.  Where several `select` cases can be ready at the same
    virtual instant the Go runtime picks one at random, so the answer is a SET
    of results: `runCall` returns the list of all of them (see `groupViews`
    for exactly which orders are considered possible).  The correspondence
    stream checks that the real client's result is a member.

  Time is `Int` nanoseconds from the start of the call; `time.Duration`
  overflow of `timeout *= 2` is not modelled (explicit hypothesis
  `NoOverflow` in the theorems that talk about the code's schedule).
-/
namespace Dhcp.Client.Timed

/-- What the calling goroutine can observe in its `select`. -/
inductive Kind where
  | irr      -- nothing reaches the caller (dropped by the receive loop / lost)
  | rej      -- `<-ch` yields a packet, `match` returns false
  | acc      -- `<-ch` yields a packet, `match == nil || match(packet)`
  | ctx      -- `<-ctx.Done()`
  | closed   -- `<-c.done`
  deriving DecidableEq, Repr, Inhabited

structure Obs where
  t : Int
  kind : Kind
  /-- identifies the datagram (index of the script event that injected it) -/
  tag : Nat := 0
  /-- a per-try deadline falling on exactly `t` has already fired -/
  afterTimer : Bool := true
  deriving DecidableEq, Repr, Inhabited

inductive Outcome where
  | resp (tag : Nat)   -- (response, nil)
  | noResp             -- ErrNoResponse
  | ctxErr             -- ctx.Err()
  | writeErr           -- "error writing packet to connection" (WriteTo failed, client not closed)
  deriving DecidableEq, Repr, Inhabited

/-- State of a call that is parked in the `select` of try `k`. -/
structure Wait where
  k : Nat            -- 0-based try index (`i` of retryFn)
  start : Int        -- instant at which this try transmitted
  timeout : Int      -- this try's timeout (`timeout` of retryFn)
  txs : List Int     -- instants of all transmissions so far, oldest first
  clk : Int          -- script clock: instant of the last observation processed
  deriving DecidableEq, Repr, Inhabited

inductive CState where
  | waiting (w : Wait)
  | done (txs : List Int) (t : Int) (o : Outcome)
  deriving DecidableEq, Repr, Inhabited

/-- `timeout *= 2` in retryFn (fact-checked against the source, Facts/Client.lean). -/
def backoffMul : Int := 2

/-- Defaults of both clients (not used by the model, whose `T`, `n` are
parameters; fact-checked so that the grid of the streams contains them). -/
def defaultTimeoutNs : Nat := 5000000000
def defaultRetries : Nat := 3
def defaultBufferCap : Nat := 5

/-- Call entry at instant 0: `i := 0; i < retry || retry < 0` then `send`. -/
def begin (T n : Int) : CState :=
  if n = 0 then .done [] 0 .noResp
  else .waiting { k := 0, start := 0, timeout := T, txs := [0], clk := 0 }

/-- The deadline of the current try fires: `return errDeadlineExceeded`,
`rem()`, `timeout *= 2`, `i++`, loop condition, next `send` (all at the same
virtual instant). -/
def fire (n : Int) (w : Wait) : CState :=
  let d := w.start + w.timeout
  if n < 0 ∨ ((w.k : Int) + 1 < n) then
    .waiting { k := w.k + 1, start := d, timeout := backoffMul * w.timeout, txs := w.txs ++ [d], clk := w.clk }
  else .done w.txs d .noResp

/-- Let virtual time run up to `t`: every deadline strictly before `t` fires,
and one falling exactly on `t` too when `incl`.  `fuel` bounds the number of
deadlines (see `advanceFuel`; `advance_fuel_irrelevant` in the lemmas). -/
def advance (n : Int) (t : Int) (incl : Bool) : Nat → CState → CState
  | 0, st => st
  | _, .done txs t' o => .done txs t' o
  | fuel + 1, .waiting w =>
    let d := w.start + w.timeout
    if d < t ∨ (incl = true ∧ d = t) then advance n t incl fuel (fire n w) else .waiting w

/-- Enough fuel to reach `t` from a try that started at `start`, when every
timeout is at least 1 ns. -/
def advanceFuel (start t : Int) : Nat := (t - start).toNat + 1

/-- One observation. Its effective instant is `max o.t clk` (the script
sleeps until `o.t` only if that is in the future). -/
def stepObs (n : Int) (st : CState) (o : Obs) : CState :=
  match st with
  | .done txs t out => .done txs t out
  | .waiting w =>
    let t := max o.t w.clk
    match advance n t o.afterTimer (advanceFuel w.start t) (.waiting w) with
    | .done txs t' out => .done txs t' out
    | .waiting w' =>
      match o.kind with
      | .irr | .rej => .waiting { w' with clk := t }
      | .acc => .done w'.txs t (.resp o.tag)
      | .ctx => .done w'.txs t .ctxErr
      | .closed => .done w'.txs t .noResp

structure Result where
  txs : List Int
  /-- `none`: the call is still waiting at the horizon -/
  ret : Option (Int × Outcome)
  deriving DecidableEq, Repr, Inhabited

/-- Observe up to the horizon `H` (deadlines falling on `H` included). -/
def finish (n : Int) (H : Int) (st : CState) : Result :=
  match st with
  | .done txs t o => ⟨txs, some (t, o)⟩
  | .waiting w =>
    match advance n H true (advanceFuel w.start H) (.waiting w) with
    | .done txs t o => ⟨txs, some (t, o)⟩
    | .waiting w' => ⟨w'.txs, none⟩

def runFrom (n : Int) (st : CState) (obs : List Obs) : CState := obs.foldl (stepObs n) st

/-- Layer 1: the call's result for a given sequence of caller observations. -/
def runObs (T n : Int) (obs : List Obs) (H : Int) : Result :=
  finish n H (runFrom n (begin T n) obs)

/-- The schedule of the property: transmission `k` is at `T·(2^k − 1)`. -/
def sched (T : Int) (m : Nat) : List Int := (List.range m).map (fun k => T * (2 ^ k - 1))

/-- `timeout *= 2` stays inside int64 for the tries that are made. -/
def NoOverflow (T : Int) (tries : Nat) : Prop := T * 2 ^ tries < 2 ^ 63

/-! ### Layer 2: scripts of external events -/

inductive EvKind where
  | irr | rej | acc | cancel | close
  deriving DecidableEq, Repr, Inhabited

structure Event where
  t : Int
  kind : EvKind
  /-- the harness waits for quiescence (`synctest.Wait`) before applying it -/
  sync : Bool
  deriving DecidableEq, Repr, Inhabited

/-- All ways of inserting `x` into `l`. -/
def insertions {α} (x : α) : List α → List (List α)
  | [] => [[x]]
  | y :: ys => (x :: y :: ys) :: (insertions x ys).map (y :: ·)

/-- A group = the events applied at one virtual instant without waiting for
quiescence in between. `(tag, kind)` in script order. -/
abbrev Group := List (Nat × EvKind)

def isArrival : EvKind → Bool
  | .irr | .rej | .acc => true
  | _ => false

def obsKind : EvKind → Kind
  | .irr => .irr | .rej => .rej | .acc => .acc | .cancel => .ctx | .close => .closed

/-- Orders in which the caller may observe a group's stimuli: datagrams in
arrival order (one receive loop, FIFO channel); the context's end and Close at
any position relative to them (a `select` entered with several ready cases
picks any of them; a parked one is committed by whichever goroutine gets to
it first). -/
def mergeOrders (g : Group) : List Group :=
  let arr := g.filter (fun e => isArrival e.2)
  let withC := match g.find? (fun e => e.2 = .cancel) with
    | some c => insertions c arr
    | none => [arr]
  match g.find? (fun e => e.2 = .close) with
  | some x => withC.flatMap (insertions x)
  | none => withC

/-- Turn the first `j` arrivals of `l` into `irr` (lost: delivered to the
registration being torn down, or dropped between `cancel` and the next
`send`). -/
def lose : Nat → Group → Group
  | 0, l => l
  | _, [] => []
  | j + 1, (i, k) :: l => if isArrival k then (i, .irr) :: lose j l else (i, k) :: lose (j + 1) l

def countArrivals (l : Group) : Nat := (l.filter (fun e => isArrival e.2)).length

def toObs (t : Int) (after : Bool) (l : Group) : List Obs :=
  l.map (fun e => { t := t, kind := obsKind e.2, tag := e.1, afterTimer := after })

/-- Possible observation sequences for a group at instant `t`.
`race = false`: any deadline on `t` fired before the group (the harness
waited for quiescence after waking up).  `race = true`: the group's first
event was applied right after the script's sleep ended, concurrently with a
deadline falling on the same instant: the deadline may be observed at any
position `p`; stimuli before it are seen by the old try, and a prefix of the
datagrams after it may be lost in the hand-over to the next try. -/
def groupViews (t : Int) (race : Bool) (g : Group) : List (List Obs) :=
  let ms := mergeOrders g
  if race then
    ms.flatMap (fun m =>
      (List.range (m.length + 1)).flatMap (fun p =>
        let pre := m.take p
        let post := m.drop p
        (List.range (countArrivals post + 1)).map (fun j =>
          toObs t false pre ++ toObs t true (lose j post))))
  else ms.map (toObs t true)

/-- `a :: l` unless already present. -/
def addNew {α} [DecidableEq α] (a : α) (l : List α) : List α := if a ∈ l then l else a :: l

def dedup {α} [DecidableEq α] (l : List α) : List α := l.foldr addNew []

/-- Does a deadline fall exactly on `t` (once those before `t` have fired)? -/
def deadlineAt (n : Int) (st : CState) (t : Int) : Bool :=
  match st with
  | .waiting w =>
    match advance n t false (advanceFuel w.start t) (.waiting w) with
    | .waiting w' => w'.start + w'.timeout = t
    | _ => false
  | _ => false

/-- All states reachable through one group. -/
def stepGroup (n : Int) (t : Int) (race : Bool) (g : Group) (sts : List CState) : List CState :=
  dedup (sts.flatMap (fun st =>
    (groupViews t (race && deadlineAt n st t) g).map (fun v => runFrom n st v)))

/-- Split a script into groups: a new group starts at an event that is `sync`
or lies in the script's future (the sleep lets everything settle). Returns
`(instant, race, group)` in order.  `race` = the first event is not `sync`. -/
def groupsAux : Int → Nat → List Event → Option (Int × Bool × Group) → List (Int × Bool × Group)
  | _, _, [], cur => match cur with | some c => [c] | none => []
  | clk, i, e :: es, cur =>
    let fresh := e.sync || decide (e.t > clk)
    let t := max e.t clk
    match cur, fresh with
    | some (tg, r, g), false => groupsAux t (i + 1) es (some (tg, r, g ++ [(i, e.kind)]))
    | some c, true => c :: groupsAux t (i + 1) es (some (t, !e.sync, [(i, e.kind)]))
    | none, _ => groupsAux t (i + 1) es (some (t, !e.sync, [(i, e.kind)]))

def groups (evs : List Event) : List (Int × Bool × Group) := groupsAux 0 0 evs none

/-- Layer 2: the set (as a duplicate-free list) of results the script allows. -/
def runCall (T n : Int) (evs : List Event) (H : Int) : List Result :=
  let sts := (groups evs).foldl (fun sts (g : Int × Bool × Group) => stepGroup n g.1 g.2.1 g.2.2 sts) [begin T n]
  dedup (sts.map (finish n H))

/-- Write fault: the `k`-th `WriteTo` of the call (0-based) fails while the
client is open. `send` unregisters (`cancel()`) and returns the write error,
`retryFn` aborts on any error other than its own deadline error, so the call
returns at the instant of that write, `T·(2^k − 1)`, having completed `k`
transmissions. The run up to that instant is the fault-free one: a result in
which the `k`-th transmission takes place is cut there, any other is kept. -/
def applyWriteFault (T : Int) (k : Nat) (r : Result) : Result :=
  if k < r.txs.length then ⟨r.txs.take k, some (T * (2 ^ k - 1), .writeErr)⟩ else r

/-- Instant at which `Close` is called (it returns at the same instant). -/
def closeTime (evs : List Event) : Option Int :=
  let rec go (clk : Int) : List Event → Option Int
    | [] => none
    | e :: es => let t := max e.t clk; if e.kind = .close then some t else go t es
  go 0 evs

/-! ### What is transmitted: bytes and destination

`send()` of both clients ends in `c.conn.WriteTo(msg.ToBytes(), dest)`
(/repo/dhcpv4/nclient4/client.go:598, /repo/dhcpv6/nclient6/client.go:435) and
is entered once per try: the request is encoded AGAIN on every try, from the
value the caller's `*msg` holds at that moment, and written to the `dest`
argument of `SendAndRead`, which the loop never changes.

The machine below is the machine above with the transmission instants replaced
by transmission records.  The call is described by `Call`: an abstract
encoding function (`ToBytes`), the destination, and `reqAt k`, the value of the
request when try `k` (0-based) runs `send` — constant when the caller leaves
the request alone during the call, which is the property's domain; any other
function describes a caller that changes the message between tries.
`BState.erase` forgets bytes and destinations; `runObsB_erase`
(Lemmas/ClientBytes.lean) shows the erased machine IS the machine above, so
every theorem about instants carries over. -/

/-- One `conn.WriteTo(bytes, dest)` made by the call, at virtual instant `t`. -/
structure Tx (Dest : Type) where
  t : Int
  bytes : List UInt8
  dest : Dest
  deriving DecidableEq, Repr

/-- What `SendAndRead(ctx, dest, msg, match)` was given, as far as the bytes on
the wire go. -/
structure Call (Req Dest : Type) where
  /-- `(*DHCPv4).ToBytes` / `(*Message).ToBytes` -/
  enc : Req → List UInt8
  /-- the value `*msg` holds when try `k` calls `send` -/
  reqAt : Nat → Req
  /-- the `dest` argument -/
  dest : Dest

/-- the `WriteTo` of try `k`, made at instant `t` -/
def Call.tx {Req Dest} (c : Call Req Dest) (k : Nat) (t : Int) : Tx Dest :=
  ⟨t, c.enc (c.reqAt k), c.dest⟩

/-- `Wait` with the transmissions in full -/
structure WaitB (Dest : Type) where
  k : Nat
  start : Int
  timeout : Int
  sent : List (Tx Dest)
  clk : Int

inductive BState (Dest : Type) where
  | waiting (w : WaitB Dest)
  | done (sent : List (Tx Dest)) (t : Int) (o : Outcome)

def WaitB.erase {Dest} (w : WaitB Dest) : Wait :=
  { k := w.k, start := w.start, timeout := w.timeout, txs := w.sent.map (·.t), clk := w.clk }

def BState.erase {Dest} : BState Dest → CState
  | .waiting w => .waiting w.erase
  | .done sent t o => .done (sent.map (·.t)) t o

/-- `begin`: try 0 encodes the request as it is at call entry -/
def beginB {Req Dest} (c : Call Req Dest) (T n : Int) : BState Dest :=
  if n = 0 then .done [] 0 .noResp
  else .waiting { k := 0, start := 0, timeout := T, sent := [c.tx 0 0], clk := 0 }

/-- `fire`: the next try, `w.k + 1`, runs `send` again: `msg.ToBytes()` of the
request as it is THEN, to the same `dest` -/
def fireB {Req Dest} (c : Call Req Dest) (n : Int) (w : WaitB Dest) : BState Dest :=
  let d := w.start + w.timeout
  if n < 0 ∨ ((w.k : Int) + 1 < n) then
    .waiting { k := w.k + 1, start := d, timeout := backoffMul * w.timeout,
               sent := w.sent ++ [c.tx (w.k + 1) d], clk := w.clk }
  else .done w.sent d .noResp

def advanceB {Req Dest} (c : Call Req Dest) (n : Int) (t : Int) (incl : Bool) :
    Nat → BState Dest → BState Dest
  | 0, st => st
  | _, .done sent t' o => .done sent t' o
  | fuel + 1, .waiting w =>
    let d := w.start + w.timeout
    if d < t ∨ (incl = true ∧ d = t) then advanceB c n t incl fuel (fireB c n w) else .waiting w

def stepObsB {Req Dest} (c : Call Req Dest) (n : Int) (st : BState Dest) (o : Obs) : BState Dest :=
  match st with
  | .done sent t out => .done sent t out
  | .waiting w =>
    let t := max o.t w.clk
    match advanceB c n t o.afterTimer (advanceFuel w.start t) (.waiting w) with
    | .done sent t' out => .done sent t' out
    | .waiting w' =>
      match o.kind with
      | .irr | .rej => .waiting { w' with clk := t }
      | .acc => .done w'.sent t (.resp o.tag)
      | .ctx => .done w'.sent t .ctxErr
      | .closed => .done w'.sent t .noResp

structure ResultB (Dest : Type) where
  sent : List (Tx Dest)
  ret : Option (Int × Outcome)

def ResultB.erase {Dest} (r : ResultB Dest) : Result := ⟨r.sent.map (·.t), r.ret⟩

def finishB {Req Dest} (c : Call Req Dest) (n : Int) (H : Int) (st : BState Dest) : ResultB Dest :=
  match st with
  | .done sent t o => ⟨sent, some (t, o)⟩
  | .waiting w =>
    match advanceB c n H true (advanceFuel w.start H) (.waiting w) with
    | .done sent t o => ⟨sent, some (t, o)⟩
    | .waiting w' => ⟨w'.sent, none⟩

def runFromB {Req Dest} (c : Call Req Dest) (n : Int) (st : BState Dest) (obs : List Obs) : BState Dest :=
  obs.foldl (stepObsB c n) st

/-- Layer 1 with bytes: every `WriteTo` of the call (instant, bytes,
destination) and its return, for a given sequence of caller observations. -/
def runObsB {Req Dest} (c : Call Req Dest) (T n : Int) (obs : List Obs) (H : Int) : ResultB Dest :=
  finishB c n H (runFromB c n (beginB c T n) obs)

/-- closed form: the `j`-th transmission of a call is made by try `j` -/
def wireFrom {Req Dest} (c : Call Req Dest) : Nat → List Int → List (Tx Dest)
  | _, [] => []
  | j, t :: ts => c.tx j t :: wireFrom c (j + 1) ts

/-- the transmission records that go with a list of transmission instants
(`runObsB_sent`: this is what `runObsB` computes; the driver prints it for the
results of `runCall`) -/
def wire {Req Dest} (c : Call Req Dest) (txs : List Int) : List (Tx Dest) := wireFrom c 0 txs

/-- a caller that does not touch the request during the call -/
def Call.const {Req Dest} (enc : Req → List UInt8) (r : Req) (dest : Dest) : Call Req Dest :=
  ⟨enc, fun _ => r, dest⟩

/-- a caller that replaces the request `r` by `r'` while try `k` is waiting
(after its `send`, before the next one) -/
def Call.mutatedAfter {Req Dest} (enc : Req → List UInt8) (r r' : Req) (k : Nat) (dest : Dest) : Call Req Dest :=
  ⟨enc, fun j => if j ≤ k then r else r', dest⟩

end Dhcp.Client.Timed

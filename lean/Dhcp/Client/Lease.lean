import Dhcp.V4.Build
import Dhcp.V4.Values
import Dhcp.V6.Build
/-
  Model of the lease-acquisition exchange logic of the two clients
  (C13):

    /repo/dhcpv4/nclient4/client.go   IsMessageType, IsCorrectServer, IsAll,
                                      DiscoverOffer, Request, Inform, ErrNak,
                                      RequestFromOffer
    /repo/dhcpv4/nclient4/lease.go    Lease, Release, Renew
    /repo/dhcpv6/nclient6/client.go   IsMessageType, RapidSolicit, Solicit, Request

  THE ABSTRACT CALL.  Every exchange function is a straight-line composition
  of a packet builder (C15 / C16 models), ONE OR TWO `SendAndRead` calls and a
  case split on the answer.  `SendAndRead(ctx, dest, p, match)` is modelled by

      sendAndRead stream match = stream.find? match

  where `stream` is *what the routed channel delivers to this call*: the
  datagrams, in arrival order, that the receive loop hands to the call's
  registration while it is waiting — already decoded, already filtered by
  transaction id, BOOTREPLY opcode and client hardware address.  That the
  real call returns exactly the first packet of that sub-stream which `match`
  accepts, and the no-response error when there is none before the retry
  budget ends, is what C10 (`C10_own`, `C10_first`: routing and "first
  acceptable in arrival order"), C11 (the call completes) and C12 (how often
  and when the request is retransmitted) establish.  The connection is a
  theorem: Dhcp/Client/Refine.lean turns a routed stream with arrival instants
  into an observation sequence of C11/C12's timed machine, and
  `C13_call_refines_timed` (Props/C13.lean) proves that the machine returns
  exactly `stream.find? match`, at that packet's arrival instant, and the
  no-response error at the budget when there is none.
  `none` is `ErrNoResponse` (any error of `SendAndRead`: the exchange functions
  only wrap it).  A context that ends or a Close are C11's subject.

  Transaction ids the Go code draws at random (`dhcpv4.New`,
  `dhcpv6.NewMessage`) are parameters, so is `GetTime()` in `NewSolicit`.

  As everywhere in the v4 model a nil and an empty non-nil option value are
  identified (`Opts`); the two typed accessors used here (`MessageType`,
  `ServerIdentifier`) do not distinguish them (`Acc.*_toG` lemmas in
  DhcpProofs/Lemmas/Lease.lean).
-/
namespace Dhcp.Client.Lease
open Dhcp Dhcp.V4

/-! ### DHCPv4: the abstract call and the matchers -/

/-- `nclient4.Matcher` -/
abbrev Matcher := Pkt4 → Bool

/-- `SendAndRead` over the routed stream of one call (see the header). -/
def sendAndRead (stream : List Pkt4) (mtch : Matcher) : Option Pkt4 := stream.find? mtch

/-- the option map as the typed accessors see it: an empty value is the nil
slice (what `FromBytes` produces), any other value itself -/
def toG (o : Opts) : GOpts := ⟨fun c => (o.f c).map goBuf⟩

/-- `p.MessageType()`: option 53 through the typed accessor (0 = none when the
option is absent or not exactly one byte) -/
def messageType (p : Pkt4) : UInt8 := Acc.messageType (toG p.opts)

/-- `p.ServerIdentifier()`: option 54 through `GetIP`: nil unless the value is
exactly four bytes -/
def serverIdentifier (p : Pkt4) : IP := Acc.serverIdentifier (toG p.opts)

/-- `v4InV6Prefix` -/
def v4InV6Prefix : Bytes := zeros 10 ++ [255, 255]

/-- `len(ip)` of a `net.IP` (nil has length 0) -/
def ipLen (ip : IP) : Nat := (ip.getD []).length

/-- `net.IP.Equal`: equal lengths compare bytewise (so nil, and empty, equal
nil); a 4-byte address equals its 16-byte IPv4-mapped form; anything else is
different. -/
def ipEqual (ip x : IP) : Bool :=
  let a := ip.getD []
  let b := x.getD []
  if a.length = b.length then a == b
  else if a.length = 4 ∧ b.length = 16 then b.take 12 == v4InV6Prefix && a == b.drop 12
  else if a.length = 16 ∧ b.length = 4 then a.take 12 == v4InV6Prefix && a.drop 12 == b
  else false

/-- `IsMessageType(t, tt...)` -/
def isMessageType (t : UInt8) (tt : List UInt8) : Matcher :=
  fun p => messageType p == t || tt.any (fun mt => messageType p == mt)

/-- `IsCorrectServer(s)`: `p.ServerIdentifier().Equal(s)` -/
def isCorrectServer (s : IP) : Matcher := fun p => ipEqual (serverIdentifier p) s

/-- `IsAll(ms...)` -/
def isAll (ms : List Matcher) : Matcher := fun p => ms.all (fun m => m p)

/-! ### DHCPv4: constants of nclient4 (Facts/Lease.lean) -/

/-- `nclient4.MaxMessageSize` -/
def maxMessageSize : Nat := 1500
/-- `nclient4.ServerPort` -/
def serverPort : Nat := 67
/-- `dhcpv4.WithOption(dhcpv4.OptMaxMessageSize(MaxMessageSize))`, the modifier
the client puts in front of the caller's -/
def mmsMod : Modifier := .withOption (.maxMessageSize maxMessageSize)

/-- `DefaultServers`: `net.IPv4bcast` (16-byte form), port 67 -/
def defaultServers : IP × Nat := (some (zeros 10 ++ [255, 255, 255, 255, 255, 255]), serverPort)

/-! ### DHCPv4: exchanges

`sent` lists the datagrams handed to `SendAndRead` / `WriteTo`, one per call
(retransmissions of the same datagram are C12's subject). -/

structure Run (ρ : Type) where
  sent : List Pkt4
  res : ρ

/-- `nclient4.Lease` (without the wall-clock `CreationTime`) -/
structure Lease where
  offer : Pkt4
  ack : Pkt4

/-- `(*Lease, error)` of `RequestFromOffer` / `Renew` / `Request` -/
inductive LeaseResult where
  /-- `&Lease{Offer: offer, ACK: response}` -/
  | lease (offer ack : Pkt4)
  /-- `&ErrNak{Offer: offer, Nak: response}` -/
  | errNak (offer nak : Pkt4)
  /-- the error of `SendAndRead` (wrapped) -/
  | errNoResponse

/-- the DISCOVER of `DiscoverOffer`:
`NewDiscovery(hw, PrependModifiers(modifiers, WithOption(OptMaxMessageSize(1500)))...)` -/
def discoverPkt (xid hw : Bytes) (user : List Modifier) : Pkt4 :=
  newDiscovery xid hw (prependModifiers user [mmsMod])

/-- `IsMessageType(MessageTypeOffer)` -/
def offerMatcher : Matcher := isMessageType mtOffer []

/-- `DiscoverOffer(ctx, modifiers...)` -/
def discoverOffer (xid hw : Bytes) (user : List Modifier) (stream : List Pkt4) : Run (Option Pkt4) :=
  ⟨[discoverPkt xid hw user], sendAndRead stream offerMatcher⟩

/-- the REQUEST of `RequestFromOffer`:
`NewRequestFromOffer(offer, PrependModifiers(modifiers, WithOption(OptMaxMessageSize(1500)))...)` -/
def requestPkt (xid : Bytes) (offer : Pkt4) (user : List Modifier) : Pkt4 :=
  newRequestFromOffer xid offer (prependModifiers user [mmsMod])

/-- the matcher of `RequestFromOffer` and `Renew`:
`IsAll(IsCorrectServer(offer.ServerIdentifier()), IsMessageType(Ack, Nak))` -/
def ackNakMatcher (offer : Pkt4) : Matcher :=
  isAll [isCorrectServer (serverIdentifier offer), isMessageType mtAck [mtNak]]

/-- what `RequestFromOffer` / `Renew` make of the answer -/
def completion (offer : Pkt4) (answer : Option Pkt4) : LeaseResult :=
  match answer with
  | none => .errNoResponse
  | some r => if messageType r == mtNak then .errNak offer r else .lease offer r

/-- `RequestFromOffer(ctx, offer, modifiers...)` -/
def requestFromOffer (xid : Bytes) (offer : Pkt4) (user : List Modifier) (stream : List Pkt4) :
    Run LeaseResult :=
  ⟨[requestPkt xid offer user], completion offer (sendAndRead stream (ackNakMatcher offer))⟩

/-- `Request(ctx, modifiers...)`: `DiscoverOffer` then `RequestFromOffer` with
THE SAME caller modifiers; `s1` / `s2` are the streams routed to the first /
second call, `xid2` the id `New` draws for the REQUEST (then overwritten by
`WithReply(offer)`). -/
def request (xid xid2 hw : Bytes) (user : List Modifier) (s1 s2 : List Pkt4) : Run LeaseResult :=
  let d := discoverOffer xid hw user s1
  match d.res with
  | none => ⟨d.sent, .errNoResponse⟩
  | some offer =>
    let r := requestFromOffer xid2 offer user s2
    ⟨d.sent ++ r.sent, r.res⟩

/-- the REQUEST of `Renew`:
`NewRenewFromAck(lease.ACK, PrependModifiers(modifiers, WithOption(OptMaxMessageSize(1500)))...)` -/
def renewPkt (xid : Bytes) (l : Lease) (user : List Modifier) : Pkt4 :=
  newRenewFromAck xid l.ack (prependModifiers user [mmsMod])

/-- `Renew(ctx, lease, modifiers...)` for a non-nil lease with non-nil Offer and
ACK: the matcher uses the server identifier of the lease's OFFER, a NAK is
reported with that offer, an ACK replaces the lease's ACK. -/
def renew (xid : Bytes) (l : Lease) (user : List Modifier) (stream : List Pkt4) : Run LeaseResult :=
  ⟨[renewPkt xid l user], completion l.offer (sendAndRead stream (ackNakMatcher l.offer))⟩

/-- the RELEASE of `Release`: `NewReleaseFromACK(lease.ACK, modifiers...)` (no
maximum-message-size option here) -/
def releasePkt (xid : Bytes) (l : Lease) (user : List Modifier) : Pkt4 :=
  newReleaseFromAck xid l.ack user

/-- `net.IP(lease.ACK.Options.Get(OptionServerIdentifier))`: the RAW option
value (any length), nil when absent or empty -/
def releaseDestIP (l : Lease) : IP :=
  match l.ack.opts.get optServerID with
  | some v => if v.isEmpty then none else some v
  | none => none

/-- `Release(lease, modifiers...)` for a non-nil lease: ONE `WriteTo`, no read:
the datagram and its destination `&net.UDPAddr{IP: …, Port: ServerPort}` -/
def release (xid : Bytes) (l : Lease) (user : List Modifier) : List (Pkt4 × (IP × Nat)) :=
  [(releasePkt xid l user, (releaseDestIP l, serverPort))]

/-- `Inform(ctx, localIP, modifiers...)`: `NewInform(hw, localIP, modifiers...)`,
answer = first ACK (no server check, no maximum-message-size option) -/
def inform (xid hw : Bytes) (localIP : IP) (user : List Modifier) (stream : List Pkt4) :
    Run (Option Pkt4) :=
  ⟨[newInform xid hw localIP user], sendAndRead stream (isMessageType mtAck [])⟩

/-! ### DHCPv6 -/

open Dhcp.V6 in
/-- `nclient6.Matcher`; `none` is the nil matcher -/
abbrev Matcher6 := Option (Msg6 → Bool)

open Dhcp.V6 in
/-- `SendAndRead` of nclient6 over the stream routed to one call (decoded
`*Message`s carrying the call's transaction id, in arrival order):
`match == nil || match(packet)` -/
def sendAndRead6 (stream : List Msg6) (mtch : Matcher6) : Option Msg6 :=
  match mtch with
  | none => stream.head?
  | some m => stream.find? m

open Dhcp.V6 in
/-- nclient6 `IsMessageType(t, tt...)`: on the header's message type -/
def isMessageType6 (t : UInt8) (tt : List UInt8) : Msg6 → Bool :=
  fun p => p.typ == t || tt.any (fun mt => p.typ == mt)

open Dhcp.V6 in
/-- result of a v6 exchange -/
inductive Result6 where
  /-- `(msg, nil)` -/
  | msg (m : Msg6)
  /-- error of `SendAndRead` -/
  | errNoResponse
  /-- error returned by the builder (`NewSolicit` / `NewRequestFromAdvertise`):
  nothing is sent by that call -/
  | errBuild
  /-- the builder panicked (unchecked type assertion on a hand-built option) -/
  | panic

open Dhcp.V6 in
structure Run6 where
  sent : List Msg6
  res : Result6

open Dhcp.V6 in
/-- what a call makes of a built message and its routed stream -/
def call6 (built : Res Msg6) (stream : List Msg6) (mtch : Matcher6) : Run6 :=
  match built with
  | .ok m =>
    ⟨[m], match sendAndRead6 stream mtch with
          | some r => .msg r
          | none => .errNoResponse⟩
  | .err => ⟨[], .errBuild⟩
  | .panic => ⟨[], .panic⟩

open Dhcp.V6 in
/-- `Solicit(ctx, modifiers...)`: answer = first ADVERTISE -/
def solicit (xid : Bytes) (time : Nat) (hw : Bytes) (mods : List Mod6) (stream : List Msg6) : Run6 :=
  call6 (newSolicit xid time hw mods) stream (some (isMessageType6 mtAdvertise []))

open Dhcp.V6 in
/-- nclient6 `Request(ctx, advertise, modifiers...)`: answer = first REPLY
(`IsMessageType(MessageTypeReply)`; before /repo commit 80184de the matcher was
nil and the first routed message of any type was returned) -/
def request6 (xid : Bytes) (adv : Msg6) (mods : List Mod6) (stream : List Msg6) : Run6 :=
  call6 (newRequestFromAdvertise xid adv mods) stream (some (isMessageType6 mtReply []))

open Dhcp.V6 in
/-- `RapidSolicit(ctx, modifiers...)`: SOLICIT built with
`append(modifiers, WithRapidCommit)`; first REPLY or ADVERTISE; a REPLY is
returned as it is (whether or not it carries a rapid-commit option), an
ADVERTISE goes to `Request` with the caller's modifiers (without
`WithRapidCommit`). -/
def rapidSolicit (xid xid2 : Bytes) (time : Nat) (hw : Bytes) (mods : List Mod6)
    (s1 s2 : List Msg6) : Run6 :=
  let a := call6 (newSolicit xid time hw (mods ++ [.rapidCommit])) s1
    (some (isMessageType6 mtReply [mtAdvertise]))
  match a.res with
  | .msg m =>
    if m.typ == mtReply then a
    else if m.typ == mtAdvertise then
      let r := request6 xid2 m mods s2
      ⟨a.sent ++ r.sent, r.res⟩
    else ⟨a.sent, .errBuild⟩   -- `default: "cannot happen"` (unreachable: see C13_v6_rapid)
  | _ => a

end Dhcp.Client.Lease

/-
  Interleaving model of the nclient4 / nclient6 client: an executable labelled
  transition system `step : Cfg → State → Label → Option State` (enabled =
  `some`) for any number of concurrent `SendAndRead` callers, the receive-loop
  goroutine, `Close`, and the environment (datagrams, timers, contexts).

  Source (identical structure in both clients; line numbers of
  /repo/dhcpv4/nclient4/client.go, in brackets /repo/dhcpv6/nclient6/client.go):

    receiveLoop  256-303 [205-251]     send / cancel   565-599 [401-435]
    Close        228-250 [175-197]     SendAndRead     610-647 [444-481]
    retryFn      649-669 [483-503]

  The labels that run inside a `pendingMu` region carry the guard "the mutex
  is owned by the acting process" (so `pending` is only ever read or written
  by the mutex owner, by construction); invariant `MutexInv` shows the guard
  is implied by the program counter, i.e. it never disables anything.

  Granularity = the Go code's atomic regions: every channel operation, every
  `pendingMu.Lock()`, and every maximal lock-protected straight-line region is
  one label; the label comments below name the statements each stands for.
  The mutex has an explicit owner, the per-transaction channel is a bounded
  FIFO, `done` channels are booleans (closed or not).

  Ghost (history) variables, never read by a guard: `hist` (datagrams in the
  order ReadFrom returned them; a packet's `seq` is its index), `processed`
  (datagrams the loop has finished with), per registration `routed` (every
  packet ever sent on its channel), `rejected` (those its owner received and
  its matcher refused), `hand` (the one its owner is looking at) and `bornAt`
  (`processed` when it was registered),
  per caller `startProc`/`lastReg`/`tries`/`tstart`, and the clock `now`.

  Two deliberate abstractions, both supersets of the Go behaviour:
  * a timer may fire at any moment of a try (`timerFire`), time is not
    measured here (Dhcp.Client.Timed does that for one call);
  * a send on an unbuffered/full channel to a receiver that is at its `select`
    is modelled as depositing the packet for it (`rxDeliver` enabled when
    `buf = []` and the owner is `waiting`); if the owner then leaves through
    another ready case the packet is lost in the abandoned channel, which is
    also what happens to it in Go (the loop's send does not complete and it
    goes through `rxDoneDrop` instead). Go's hand-off rule (a send to a parked
    select commits that case) would only remove behaviours.

  `Cfg.cancelChecksOwner` selects the current `cancel` (`p == entry`) or the
  one before the fix (removes whatever is pending under the xid).
-/
namespace Dhcp.Client.LTS

/-! ### Finite maps with `Nat` keys (canonical: sorted, unique keys) -/

structure FMap (β : Type) where
  l : List (Nat × β)
  deriving DecidableEq, Hashable, Repr

namespace FMap
variable {β : Type}

def empty : FMap β := ⟨[]⟩
instance : Inhabited (FMap β) := ⟨empty⟩

def getL (k : Nat) : List (Nat × β) → Option β
  | [] => none
  | (k', v) :: t => if k = k' then some v else getL k t

def insL (k : Nat) (v : β) : List (Nat × β) → List (Nat × β)
  | [] => [(k, v)]
  | (k', v') :: t =>
    if k < k' then (k, v) :: (k', v') :: t
    else if k = k' then (k, v) :: t
    else (k', v') :: insL k v t

def delL (k : Nat) : List (Nat × β) → List (Nat × β)
  | [] => []
  | (k', v') :: t => if k = k' then delL k t else (k', v') :: delL k t

def get (m : FMap β) (k : Nat) : Option β := getL k m.l
def set (m : FMap β) (k : Nat) (v : β) : FMap β := ⟨insL k v m.l⟩
def erase (m : FMap β) (k : Nat) : FMap β := ⟨delL k m.l⟩
/-- total lookup: absent keys read as the default value -/
def val [Inhabited β] (m : FMap β) (k : Nat) : β := (m.get k).getD default
end FMap

/-! ### Data -/

/-- An incoming datagram, as far as the client can tell things apart. -/
structure Dgram where
  /-- transaction id (meaningful when `ok`) -/
  xid : Nat
  /-- passes the receive loop's filters: decodes; DHCPv4 also: BOOTREPLY and
  the client's hardware address -/
  ok : Bool
  /-- everything else a matcher may look at -/
  tag : Nat
  deriving DecidableEq, Hashable, Repr, Inhabited

/-- A datagram returned by `ReadFrom`, with its position in `hist`. -/
structure Pkt where
  seq : Nat
  d : Dgram
  deriving DecidableEq, Hashable, Repr, Inhabited

/-- Why `fn` (one try) returned. -/
inductive Why where
  | resp (p : Option Pkt)   -- `response = packet; return nil` (`none` = nil received from a closed channel)
  | deadline                -- errDeadlineExceeded
  | ctx                     -- ctx.Err()
  | closed                  -- ErrNoResponse via <-c.done
  | txfail                  -- WriteTo failed, client closed
  | txerr                   -- WriteTo failed, client open
  deriving DecidableEq, Hashable, Repr, Inhabited

/-- Result of `SendAndRead`. `ok none` is `(nil, nil)`. -/
inductive Ret where
  | ok (p : Option Pkt)
  | noResp
  | ctxErr
  | inUse
  | writeErr                 -- "error writing packet to connection"
  | crash                    -- matcher called with a nil packet
  deriving DecidableEq, Hashable, Repr, Inhabited

/-- Program counter of a caller. `r` is the registration (entry) of the current try. -/
inductive CPc where
  | idle                                   -- SendAndRead not called
  | start                                  -- retryFn loop body entry: send() about to Lock
  | regLocked                              -- send(): holds pendingMu
  | registered (r : Nat)                   -- entry inserted and unlocked; WriteTo next
  | waiting (r : Nat)                      -- at the select of the wait loop
  | matching (r : Nat) (p : Option Pkt)    -- `packet := <-ch` done, evaluating `match(packet)`
  | leaving (r : Nat) (w : Why)            -- fn returns / WriteTo failed: cancel() next: close(done)
  | leaving2 (r : Nat) (w : Why)           -- done closed; pendingMu.Lock next
  | cancelLocked (r : Nat) (w : Why)       -- cancel(): holds pendingMu
  | after (w : Why)                        -- back in retryFn with fn's result
  | returned (res : Ret)
  deriving DecidableEq, Hashable, Repr, Inhabited

structure Caller where
  pc : CPc := .idle
  /-- tries the loop condition still allows, `none` = unbounded (retry < 0) -/
  triesLeft : Option Nat := none
  timerFired : Bool := false
  ctxDone : Bool := false
  startProc : Nat := 0
  lastReg : Nat := 0
  tries : Nat := 0
  tstart : Nat := 0
  deriving DecidableEq, Hashable, Repr

instance : Inhabited Caller := ⟨{}⟩

/-- One `pendingCh` entry with its two channels. -/
structure Reg where
  xid : Nat
  owner : Nat
  cap : Nat
  buf : List Pkt := []
  chClosed : Bool := false
  doneClosed : Bool := false
  routed : List Pkt := []
  rejected : List Pkt := []
  hand : Option Pkt := none
  bornAt : Nat := 0
  deriving DecidableEq, Hashable, Repr, Inhabited

inductive Proc where
  | rx
  | caller (i : Nat)
  deriving DecidableEq, Hashable, Repr, Inhabited

/-- Program counter of the receive loop. -/
inductive RPc where
  | idle                          -- in / about to call conn.ReadFrom
  | got (p : Pkt)                 -- ReadFrom returned; decode and filters next
  | passed (p : Pkt)              -- filters passed; pendingMu.Lock next
  | sending (p : Pkt) (r : Nat)   -- holds pendingMu; in `select { <-p.done ; p.ch <- msg }` for entry r
  | unlocking                     -- holds pendingMu; Unlock next
  | exited
  deriving DecidableEq, Hashable, Repr, Inhabited

/-- Go runtime panics this protocol could hit. -/
inductive Fault where
  | closeOfClosedChannel
  | sendOnClosedChannel
  deriving DecidableEq, Hashable, Repr, Inhabited

structure State where
  callers : FMap Caller := FMap.empty
  regs : FMap Reg := FMap.empty
  nregs : Nat := 0
  /-- `c.pending`: transaction id ↦ entry -/
  pending : FMap Nat := FMap.empty
  mutex : Option Proc := none
  rx : RPc := .idle
  /-- the socket's receive queue -/
  inq : List Dgram := []
  hist : List Dgram := []
  processed : Nat := 0
  /-- `c.closed` / `c.done` closed / conn closed -/
  closed : Bool := false
  closeReturned : Bool := false
  fault : Option Fault := none
  now : Nat := 0
  deriving DecidableEq, Hashable, Repr, Inhabited

structure CallerCfg where
  xid : Nat
  /-- `match == nil` -/
  matchNil : Bool
  accepts : Dgram → Bool
  /-- `c.retry` -/
  retry : Int

structure Cfg where
  caller : Nat → CallerCfg
  /-- `c.bufferCap` -/
  cap : Nat
  cancelChecksOwner : Bool := true

inductive Label where
  -- environment
  | arrive (d : Dgram)    -- a datagram reaches the socket
  | call (i : Nat)        -- caller i invokes SendAndRead
  | timerFire (i : Nat)   -- the `time.After(timeout)` channel of i's current try becomes ready
  | ctxDone (i : Nat)     -- i's context ends
  | close                 -- Close(): CAS on c.closed, conn.Close(), close(c.done)       [228-245]
  | advance (t : Nat)     -- ghost clock
  -- receive loop                                                                        [256-303]
  | rxRead                -- ReadFrom returns the next datagram                           263
  | rxExit                -- ReadFrom fails (conn closed): return                         264-268
  | rxDrop                -- decode error / not BOOTREPLY / other hwaddr: continue        271-288
  | rxPass                -- filters passed
  | rxLock                -- pendingMu.Lock(); p, ok := c.pending[xid]                    290-291
  | rxDeliver             -- select: case p.ch <- msg                                     298
  | rxDoneDrop            -- select: case <-p.done: close(p.ch); delete(c.pending, xid)   294-296
  | rxUnlock              -- pendingMu.Unlock()                                           301
  | closeReturn           -- c.wg.Wait() returns                                          247-249
  -- caller i
  | lock (i : Nat)        -- pendingMu.Lock() in send (566) or in cancel (585)
  | register (i : Nat)    -- xid not pending: make channels, insert entry, Unlock         567-576
  | refuse (i : Nat)      -- xid pending: Unlock, return ErrTransactionIDInUse            567-570
  | transmit (i : Nat)    -- conn.WriteTo succeeds; `deadline := time.After(timeout)`     594, 631
  | transmitFail (i : Nat) -- conn.WriteTo fails (conn closed)                            594-595
  | transmitErr (i : Nat) -- conn.WriteTo fails although the client is open (I/O fault)   594-601
  | take (i : Nat)        -- select: case packet := <-ch                                  642
  | accept (i : Nat)      -- match == nil || match(packet): response = packet; return nil 643-646
  | reject (i : Nat)      -- match(packet) false: loop                                    643
  | giveUp (i : Nat)      -- select: case <-deadline                                      636
  | giveUpCtx (i : Nat)   -- select: case <-ctx.Done()                                    639
  | giveUpClosed (i : Nat) -- select: case <-c.done                                       633
  | cancel1 (i : Nat)     -- cancel(): close(done)                                        583
  | cancel2 (i : Nat)     -- cancel(): [if pending[xid] == entry] close(ch); delete; Unlock  589-593
  | nextTry (i : Nat)     -- retryFn: timeout *= 2; i++; condition true                   662-664, 654
  | ret (i : Nat)         -- retryFn / SendAndRead return                                 657-668, 648-655
  deriving DecidableEq, Repr, Inhabited

def isEnv : Label → Bool
  | .arrive _ | .call _ | .timerFire _ | .ctxDone _ | .close | .advance _ => true
  | _ => false

/-! ### Accessors -/

abbrev getC (s : State) (i : Nat) : Caller := s.callers.val i
abbrev setC (s : State) (i : Nat) (c : Caller) : State := { s with callers := s.callers.set i c }
abbrev getR (s : State) (r : Nat) : Reg := s.regs.val r
abbrev setR (s : State) (r : Nat) (g : Reg) : State := { s with regs := s.regs.set r g }

def accepted (cc : CallerCfg) (d : Dgram) : Bool := cc.matchNil || cc.accepts d

def retOf : Why → Ret
  | .resp p => .ok p
  | .deadline => .noResp
  | .ctx => .ctxErr
  | .closed => .noResp
  | .txfail => .noResp
  | .txerr => .writeErr

/-- tries left after one more has been used -/
def decTries : Option Nat → Option Nat
  | none => none
  | some n => some (n - 1)

/-! ### The transition function -/

def step (cfg : Cfg) (s : State) : Label → Option State
  | .arrive d => some { s with inq := s.inq ++ [d] }
  | .advance t => if s.now ≤ t then some { s with now := t } else none
  | .call i =>
    let c := getC s i
    if c.pc = .idle then
      let cc := cfg.caller i
      if cc.retry = 0 then some (setC s i { c with pc := .returned .noResp, startProc := s.processed })
      else some (setC s i { c with pc := .start, startProc := s.processed,
                                   triesLeft := if cc.retry < 0 then none else some cc.retry.toNat })
    else none
  | .timerFire i =>
    let c := getC s i
    match c.pc with
    | .waiting _ | .matching _ _ => if c.timerFired then none else some (setC s i { c with timerFired := true })
    | _ => none
  | .ctxDone i =>
    let c := getC s i
    if c.ctxDone then none else some (setC s i { c with ctxDone := true })
  | .close => if s.closed then none else some { s with closed := true }
  | .closeReturn =>
    if s.closed ∧ s.rx = .exited ∧ ¬ s.closeReturned then some { s with closeReturned := true } else none
  -- receive loop
  | .rxRead =>
    match s.rx, s.inq with
    | .idle, d :: rest => some { s with rx := .got ⟨s.hist.length, d⟩, hist := s.hist ++ [d], inq := rest }
    | _, _ => none
  | .rxExit => if s.rx = .idle ∧ s.closed then some { s with rx := .exited } else none
  | .rxDrop =>
    match s.rx with
    | .got p => if p.d.ok then none else some { s with rx := .idle, processed := s.processed + 1 }
    | _ => none
  | .rxPass =>
    match s.rx with
    | .got p => if p.d.ok then some { s with rx := .passed p } else none
    | _ => none
  | .rxLock =>
    match s.rx, s.mutex with
    | .passed p, none =>
      some { s with mutex := some .rx,
                    rx := match s.pending.get p.d.xid with
                          | some r => .sending p r
                          | none => .unlocking }
    | _, _ => none
  | .rxDeliver =>
    match s.rx with
    | .sending p r =>
      if s.mutex ≠ some .rx then none else
      let g := getR s r
      if g.buf.length < g.cap ∨ (g.buf = [] ∧ (getC s g.owner).pc = .waiting r) then
        if g.chClosed then some { s with fault := some .sendOnClosedChannel }
        else some { setR s r { g with buf := g.buf ++ [p], routed := g.routed ++ [p] } with rx := .unlocking }
      else none
    | _ => none
  | .rxDoneDrop =>
    match s.rx with
    | .sending p r =>
      if s.mutex ≠ some .rx then none else
      let g := getR s r
      if g.doneClosed then
        if g.chClosed then some { s with fault := some .closeOfClosedChannel }
        else some { setR s r { g with chClosed := true } with pending := s.pending.erase p.d.xid, rx := .unlocking }
      else none
    | _ => none
  | .rxUnlock =>
    match s.rx with
    | .unlocking => if s.mutex ≠ some .rx then none
                    else some { s with mutex := none, rx := .idle, processed := s.processed + 1 }
    | _ => none
  -- callers
  | .lock i =>
    let c := getC s i
    match s.mutex, c.pc with
    | none, .start => some { setC s i { c with pc := .regLocked } with mutex := some (.caller i) }
    | none, .leaving2 r w => some { setC s i { c with pc := .cancelLocked r w } with mutex := some (.caller i) }
    | _, _ => none
  | .register i =>
    let c := getC s i
    let x := (cfg.caller i).xid
    if c.pc = .regLocked ∧ s.mutex = some (.caller i) ∧ s.pending.get x = none then
      let r := s.nregs
      let s1 := setR s r { xid := x, owner := i, cap := cfg.cap, bornAt := s.processed }
      some { setC s1 i { c with pc := .registered r, timerFired := false, lastReg := r } with
               nregs := r + 1, pending := s.pending.set x r, mutex := none }
    else none
  | .refuse i =>
    let c := getC s i
    let x := (cfg.caller i).xid
    if c.pc = .regLocked ∧ s.mutex = some (.caller i) ∧ (s.pending.get x).isSome then
      some { setC s i { c with pc := .returned .inUse } with mutex := none }
    else none
  | .transmit i =>
    let c := getC s i
    match c.pc with
    | .registered r => if s.closed then none
                       else some (setC s i { c with pc := .waiting r, tries := c.tries + 1, tstart := s.now })
    | _ => none
  | .transmitFail i =>
    let c := getC s i
    match c.pc with
    | .registered r => if s.closed then some (setC s i { c with pc := .leaving r .txfail }) else none
    | _ => none
  | .transmitErr i =>
    let c := getC s i
    match c.pc with
    | .registered r => if s.closed then none else some (setC s i { c with pc := .leaving r .txerr })
    | _ => none
  | .take i =>
    let c := getC s i
    match c.pc with
    | .waiting r =>
      let g := getR s r
      match g.buf with
      | p :: rest => some (setC (setR s r { g with buf := rest, hand := some p }) i
                             { c with pc := .matching r (some p) })
      | [] => if g.chClosed then some (setC s i { c with pc := .matching r none }) else none
    | _ => none
  | .accept i =>
    let c := getC s i
    let cc := cfg.caller i
    match c.pc with
    | .matching r (some p) => if accepted cc p.d then some (setC s i { c with pc := .leaving r (.resp (some p)) }) else none
    | .matching r none => if cc.matchNil then some (setC s i { c with pc := .leaving r (.resp none) })
                          else some (setC s i { c with pc := .returned .crash })
    | _ => none
  | .reject i =>
    let c := getC s i
    match c.pc with
    | .matching r (some p) =>
      if accepted (cfg.caller i) p.d then none
      else
        let g := getR s r
        some (setC (setR s r { g with rejected := g.rejected ++ [p], hand := none }) i { c with pc := .waiting r })
    | _ => none
  | .giveUp i =>
    let c := getC s i
    match c.pc with
    | .waiting r => if c.timerFired then some (setC s i { c with pc := .leaving r .deadline }) else none
    | _ => none
  | .giveUpCtx i =>
    let c := getC s i
    match c.pc with
    | .waiting r => if c.ctxDone then some (setC s i { c with pc := .leaving r .ctx }) else none
    | _ => none
  | .giveUpClosed i =>
    let c := getC s i
    match c.pc with
    | .waiting r => if s.closed then some (setC s i { c with pc := .leaving r .closed }) else none
    | _ => none
  | .cancel1 i =>
    let c := getC s i
    match c.pc with
    | .leaving r w =>
      let g := getR s r
      if g.doneClosed then some { s with fault := some .closeOfClosedChannel }
      else some (setC (setR s r { g with doneClosed := true }) i { c with pc := .leaving2 r w })
    | _ => none
  | .cancel2 i =>
    let c := getC s i
    let x := (cfg.caller i).xid
    match c.pc with
    | .cancelLocked r w =>
      if s.mutex ≠ some (.caller i) then none else
      let s1 := { setC s i { c with pc := .after w } with mutex := none }
      match s.pending.get x with
      | some r' =>
        if !cfg.cancelChecksOwner || r' = r then
          let g := getR s r'
          if g.chClosed then some { s with fault := some .closeOfClosedChannel }
          else some { setR s1 r' { g with chClosed := true } with pending := s.pending.erase x }
        else some s1
      | none => some s1
    | _ => none
  | .nextTry i =>
    let c := getC s i
    match c.pc with
    | .after .deadline =>
      let left := decTries c.triesLeft
      if left = some 0 then none else some (setC s i { c with pc := .start, triesLeft := left })
    | _ => none
  | .ret i =>
    let c := getC s i
    match c.pc with
    | .after w =>
      if w = .deadline ∧ decTries c.triesLeft ≠ some 0 then none
      else some (setC s i { c with pc := .returned (retOf w) })
    | _ => none

def init : State := {}

/-- Run a label list; `none` as soon as a label is not enabled. -/
def run (cfg : Cfg) : State → List Label → Option State
  | s, [] => some s
  | s, l :: ls => match step cfg s l with
    | some s' => run cfg s' ls
    | none => none

/-- Reachable from `init`. -/
def Reachable (cfg : Cfg) (s : State) : Prop := ∃ ls, run cfg init ls = some s

end Dhcp.Client.LTS

import Dhcp.Go.Lexer
/-
  Model of the raw broadcast connection of `dhcpv4/nclient4`:
    ipv4.go       checksum, checksumCombine, pseudoHeaderchecksum, the ipv4/udp
                  accessors and encoders, isValid, udp4pkt
    conn_unix.go  udpMatch, BroadcastRawUDPConn.WriteTo / ReadFrom
  It renders what the code DOES.  uint32/uint16/uint8 arithmetic is modelled on
  `Nat` with explicit wrap-around (`u32`, `u16`, `u8`); every index, slice and
  `Consume` with a computed bound is a guard that yields `Res.panic` when Go
  would panic (negative `Consume` included).  Core Lean only.
-/
namespace Dhcp.Raw
open Dhcp

/-! ### constants of ipv4.go (tied to the source by `DhcpProofs/Facts/Raw.lean`) -/

def versIHL : Nat := 0
def tosOff : Nat := 1
def totalLenOff : Nat := 2
def idOff : Nat := 4
def flagsFOOff : Nat := 6
def ttlOff : Nat := 8
def protocolOff : Nat := 9
def checksumOff : Nat := 10
def srcAddrOff : Nat := 12
def dstAddrOff : Nat := 16
def ipv4MinimumSize : Nat := 20
def ipv4MaximumHeaderSize : Nat := 60
def ipv4AddressSize : Nat := 4
def ipv4Version : Nat := 4
def ipVersionShift : Nat := 4
def udpSrcPortOff : Nat := 0
def udpDstPortOff : Nat := 2
def udpLengthOff : Nat := 4
def udpChecksumOff : Nat := 6
def udpMinimumSize : Nat := 8
def udpProtocolNumber : Nat := 17
/-- `TTL: 64` in `udp4pkt`. -/
def ttlValue : Nat := 64

/-! ### fixed-width arithmetic -/

def u8 (n : Nat) : Nat := n % 256
def u16 (n : Nat) : Nat := n % 65536
def u32 (n : Nat) : Nat := n % 4294967296
/-- `^x` on a `uint16`. -/
def compl16 (x : Nat) : Nat := 65535 - u16 x

/-! ### net.IP -/

/-- `net.IP`: `none` is the nil slice, otherwise the raw bytes (any length). -/
abbrev GoIP := Option Bytes

def v4InV6Prefix : Bytes := [0, 0, 0, 0, 0, 0, 0, 0, 0, 0, 0xff, 0xff]

/-- `net.IP.To4`. -/
def to4 : GoIP → GoIP
  | none => none
  | some ip =>
    if ip.length = 4 then some ip
    else if ip.length = 16 ∧ ip.take 12 = v4InV6Prefix then some (ip.drop 12)
    else none

/-- `[]byte(ip)`: the nil IP is the empty byte string. -/
def ipBytes : GoIP → Bytes
  | none => []
  | some b => b

/-- `ip.Equal(x)` for a 4-byte `x` (the only use here: `x` is a 4-byte slice
of the received header). -/
def ipEqual4 (ip : Bytes) (x : Bytes) : Bool :=
  if ip.length = x.length then ip == x
  else if ip.length = 16 ∧ x.length = 4 then ip.take 12 == v4InV6Prefix && ip.drop 12 == x
  else false

/-- `*net.UDPAddr`: IP and port (a Go `int`; the modelled domain is `≥ 0`). -/
structure Addr where
  ip   : GoIP
  port : Nat
  deriving Repr, DecidableEq

/-! ### checksums (ipv4.go:285-330) -/

/-- `checksumCombine(a, b uint16) uint16`: `v := uint32(a)+uint32(b); uint16(v + v>>16)`. -/
def checksumCombine (a b : Nat) : Nat :=
  let v := u32 (a + b)
  u16 (u32 (v + v / 65536))

/-- the `for i := 0; i < l; i += 2` loop of `calculateChecksum` over an even
number of bytes, `v` being the `uint32` accumulator (wraps). -/
def sumPairs : Bytes → Nat → Nat
  | a :: b :: rest, v => sumPairs rest (u32 (v + u32 (u32 (a.toNat * 256) + b.toNat)))
  | _, v => v

/-- `calculateChecksum(buf []byte, initial uint32) uint16`.  `buf[l]` for the
odd byte is in range by construction (`l = len-1`), which the index proof
records. -/
def calculateChecksum (buf : Bytes) (initial : Nat) : Nat :=
  if h : buf.length % 2 = 1 then
    let v := u32 (initial + u32 ((buf[buf.length - 1]'(by omega)).toNat * 256))
    let v := sumPairs (buf.take (buf.length - 1)) v
    checksumCombine (u16 v) (u16 (v / 65536))
  else
    let v := sumPairs buf initial
    checksumCombine (u16 v) (u16 (v / 65536))

/-- `checksum(buf []byte, initial uint16) uint16`. -/
def checksum (buf : Bytes) (initial : Nat) : Nat := calculateChecksum buf (u32 initial)

/-- `pseudoHeaderchecksum(protocol, srcAddr, dstAddr)`. -/
def pseudoHeaderchecksum (protocol : Nat) (src dst : GoIP) : Nat :=
  let xsum := checksum (ipBytes src) 0
  let xsum := checksum (ipBytes dst) xsum
  checksum [0, UInt8.ofNat (u8 protocol)] xsum

/-! ### guarded slice primitives -/

/-- `b[i]` -/
def idx (b : Bytes) (i : Nat) : Res UInt8 :=
  match b[i]? with
  | some x => .ok x
  | none => .panic

/-- `b[:n]` (within the length; the code never relies on spare capacity for a
prefix it then reads). -/
def slicePrefix (b : Bytes) (n : Nat) : Res Bytes :=
  if n ≤ b.length then .ok (b.take n) else .panic

/-- `b[lo:hi]` -/
def slice (b : Bytes) (lo hi : Nat) : Res Bytes :=
  if lo ≤ hi ∧ hi ≤ b.length then .ok ((b.take hi).drop lo) else .panic

/-- `binary.BigEndian.Uint16(b[off:])` -/
def get16 (b : Bytes) (off : Nat) : Res Nat :=
  if off + 2 ≤ b.length then .ok (beNat ((b.drop off).take 2)) else .panic

/-- `b[off] = v` -/
def put8 (b : Bytes) (off : Nat) (v : Nat) : Res Bytes :=
  if off < b.length then .ok (b.set off (UInt8.ofNat v)) else .panic

/-- `binary.BigEndian.PutUint16(b[off:], v)` -/
def put16 (b : Bytes) (off : Nat) (v : Nat) : Res Bytes :=
  if off + 2 ≤ b.length then .ok (b.take off ++ be16 v ++ b.drop (off + 2)) else .panic

/-- `copy(b[lo:hi], src)`: overwrites `min (hi-lo) |src|` bytes. -/
def copyAt (b : Bytes) (lo hi : Nat) (src : Bytes) : Res Bytes :=
  if lo ≤ hi ∧ hi ≤ b.length then
    let k := min (hi - lo) src.length
    .ok (b.take lo ++ src.take k ++ b.drop (lo + k))
  else .panic

/-! ### ipv4 / udp accessors -/

/-- `(b[versIHL] & 0xf) * 4` in `uint8`. -/
def headerLength (b : Bytes) : Res Nat := do
  let x ← idx b versIHL
  pure (u8 ((x.toNat &&& 0xf) * 4))

def totalLength (b : Bytes) : Res Nat := get16 b totalLenOff

/-- `b.totalLength() - uint16(b.headerLength())` in `uint16`. -/
def payloadLength (b : Bytes) : Res Nat := do
  let t ← totalLength b
  let h ← headerLength b
  pure (u16 (t + 65536 - u16 h))

/-- `ipVersion(b []byte) int`: `-1` (here `none`) when empty. -/
def ipVersion (b : Bytes) : Option Nat :=
  match b with
  | [] => none
  | x :: _ => some (x.toNat >>> ipVersionShift)

/-- `ipv4.isValid(pktSize)`. -/
def isValid (b : Bytes) (pktSize : Nat) : Res Bool :=
  if b.length < ipv4MinimumSize then .ok false
  else do
    let hlen ← headerLength b
    let tlen ← totalLength b
    if hlen < ipv4MinimumSize ∨ hlen > tlen ∨ tlen > pktSize then pure false
    else if ipVersion b ≠ some ipv4Version then pure false
    else pure true

/-- the fields `udp4pkt` sets in `ipv4Fields`; the others keep Go's zero value. -/
structure Ipv4Fields where
  ihl : Nat := 0
  tos : Nat := 0
  totalLength : Nat := 0
  id : Nat := 0
  flags : Nat := 0
  fragmentOffset : Nat := 0
  ttl : Nat := 0
  protocol : Nat := 0
  checksum : Nat := 0
  src : GoIP := none
  dst : GoIP := none

/-- `ipv4.encode(i)` on the slice `b`. -/
def ipv4Encode (b : Bytes) (i : Ipv4Fields) : Res Bytes := do
  let b ← put8 b versIHL (u8 ((4 <<< 4) ||| ((u8 i.ihl / 4) &&& 0xf)))
  let b ← put8 b tosOff i.tos
  let b ← put16 b totalLenOff i.totalLength
  let b ← put16 b idOff i.id
  let b ← put16 b flagsFOOff (u16 ((u16 (u8 i.flags <<< 13)) ||| (u16 i.fragmentOffset >>> 3)))
  let b ← put8 b ttlOff i.ttl
  let b ← put8 b protocolOff i.protocol
  let b ← put16 b checksumOff i.checksum
  let b ← copyAt b srcAddrOff (srcAddrOff + ipv4AddressSize) (ipBytes i.src)
  copyAt b dstAddrOff (dstAddrOff + ipv4AddressSize) (ipBytes i.dst)

structure UdpFields where
  srcPort : Nat := 0
  dstPort : Nat := 0
  length : Nat := 0
  checksum : Nat := 0

def udpEncode (b : Bytes) (u : UdpFields) : Res Bytes := do
  let b ← put16 b udpSrcPortOff u.srcPort
  let b ← put16 b udpDstPortOff u.dstPort
  let b ← put16 b udpLengthOff u.length
  put16 b udpChecksumOff u.checksum

/-! ### udp4pkt (ipv4.go:332-366) -/

def udp4pkt (packet : Bytes) (dest src : Addr) : Res Bytes := do
  let ipLen := ipv4MinimumSize
  let udpLen := udpMinimumSize
  let f : Ipv4Fields :=
    { ihl := ipv4MinimumSize, totalLength := u16 (ipLen + udpLen + packet.length), ttl := ttlValue,
      protocol := u8 udpProtocolNumber, src := to4 src.ip, dst := to4 dest.ip }
  -- ipv4hdr := ipv4(hdr.WriteN(ipLen)); ipv4hdr.encode(ipv4fields)
  let ipv4hdr ← ipv4Encode (zeros ipLen) f
  -- ipv4hdr.setChecksum(^ipv4hdr.calculateChecksum())  with  checksum(b[:b.headerLength()], 0)
  let hl ← headerLength ipv4hdr
  let pre ← slicePrefix ipv4hdr hl
  let ipv4hdr ← put16 ipv4hdr checksumOff (compl16 (checksum pre 0))
  -- udphdr := udp(hdr.WriteN(udpLen)); udphdr.encode(...)
  let udphdr ← udpEncode (zeros udpLen)
    { srcPort := u16 src.port, dstPort := u16 dest.port, length := u16 (udpLen + packet.length) }
  -- xsum := checksum(packet, pseudoHeaderchecksum(ipv4hdr.transportProtocol(), SrcAddr, DstAddr))
  let proto ← idx ipv4hdr protocolOff
  let xsum := checksum packet (pseudoHeaderchecksum proto.toNat f.src f.dst)
  -- udphdr.setChecksum(^udphdr.calculateChecksum(xsum, udphdr.length()))
  let ulen ← get16 udphdr udpLengthOff
  let xsum := checksum (be16 ulen) xsum
  let pre ← slicePrefix udphdr udpMinimumSize
  let udphdr ← put16 udphdr udpChecksumOff (compl16 (checksum pre xsum))
  -- hdr.WriteBytes(packet); return hdr.Data()
  pure (ipv4hdr ++ udphdr ++ packet)

/-- `BroadcastRawUDPConn.WriteTo(b, addr)` for a `*net.UDPAddr` destination:
the frame handed to the underlying connection.  `upc.boundAddr` is passed as
the source; a nil bound address is dereferenced (`src.IP`) and panics. -/
def writeTo (bound : Option Addr) (packet : Bytes) (dest : Addr) : Res Bytes :=
  match bound with
  | none => .panic
  | some src => udp4pkt packet dest src

/-- Several `WriteTo` calls on one connection, whatever their interleaving.
`WriteTo` assigns no field of `BroadcastRawUDPConn` and `udp4pkt` allocates its
own buffer (both re-checked as facts, `Facts/Raw.lean`), so in the model a
write has no effect on the connection: the frame handed to the underlying
socket for each datagram is `writeTo` of that datagram alone, and stays what it
is while other writes proceed.  (That the Go code shares no mutable memory
between concurrent calls is NOT a consequence of this definition: it is
checked on the real code by the concurrent-writer scenarios of the harness and
by the race detector.) -/
def writeAll (bound : Option Addr) : List (Bytes × Addr) → Res (List Bytes)
  | [] => .ok []
  | (p, d) :: rest => do
    let f ← writeTo bound p d
    let fs ← writeAll bound rest
    pure (f :: fs)

/-! ### ReadFrom (conn_unix.go:83-141) -/

/-- `udpMatch(addr, bound)`; `addr.IP` is the 4-byte destination of the frame. -/
def udpMatch (dstIP : Bytes) (dstPort : Nat) (bound : Option Addr) : Bool :=
  match bound with
  | none => true
  | some b =>
    match b.ip with
    | some ip => if ipEqual4 ip dstIP then b.port == dstPort else false
    | none => b.port == dstPort

/-- `Lexer.Consume(n int)`: a negative `n` passes `Has` and panics in
`b.data[:n]`; a short read returns nil (`none`) and sets the sticky error. -/
def consumeI (l : Lexer) (n : Int) : Res (Option Bytes × Lexer) :=
  if n < 0 then .panic else .ok (l.consume n.toNat)

/-- What one iteration of the `for` loop of `ReadFrom` does with one frame. -/
inductive Step where
  /-- `return n, srcAddr, nil`: the bytes copied into the caller's buffer and
  the source address (IP, port). -/
  | deliver (payload : Bytes) (srcIP : Bytes) (srcPort : Nat)
  /-- `return 0, nil, io.EOF` (the underlying read returned `n == 0`). -/
  | eof
  /-- `continue` -/
  | skip
  deriving Repr, DecidableEq

/-- a nil slice (failed `Consume`) has no elements: every index panics. -/
def orNil : Option Bytes → Bytes
  | some b => b
  | none => []

/-- One loop iteration once the underlying `ReadFrom(pkt)` has returned `n`
bytes: `pkt` is `pkt[:n]`.  `buflen = len(b)` of the caller's buffer. -/
def readPkt (bound : Option Addr) (buflen : Nat) (pkt : Bytes) : Res Step := do
  let udpHdrLen := udpMinimumSize
  let n := pkt.length
  if n = 0 then pure .eof
  else
    -- buf := NewBigEndianBuffer(pkt); ipHdr := ipv4(buf.Data())
    let buf := Lexer.new pkt
    let ipHdr := buf.data
    if !(← isValid ipHdr n) then pure .skip
    else
      let hl ← headerLength ipHdr
      let (c, buf) ← consumeI buf (Int.ofNat hl)
      let ipHdr := orNil c
      let proto ← idx ipHdr protocolOff
      if proto.toNat ≠ udpProtocolNumber then pure .skip
      else
        -- !buf.Has(udpHdrLen) || int(ipHdr.payloadLength()) < udpHdrLen   (short-circuit)
        if !buf.has udpHdrLen then pure .skip
        else if (← payloadLength ipHdr) < udpHdrLen then pure .skip
        else
          let (c, buf) ← consumeI buf (Int.ofNat udpHdrLen)
          let udpHdr := orNil c
          let dstIP ← slice ipHdr dstAddrOff (dstAddrOff + ipv4AddressSize)
          let dstPort ← get16 udpHdr udpDstPortOff
          if !udpMatch dstIP dstPort bound then pure .skip
          else
            let srcIP ← slice ipHdr srcAddrOff (srcAddrOff + ipv4AddressSize)
            let srcPort ← get16 udpHdr udpSrcPortOff
            let pl ← payloadLength ipHdr
            let dhcpLen : Int := Int.ofNat pl - Int.ofNat udpHdrLen
            let (c, _) ← consumeI buf dhcpLen
            -- copy(b, <consumed>) : at most len(b) bytes
            pure (.deliver ((orNil c).take buflen) srcIP srcPort)

/-- One loop iteration on the frame the underlying `PacketConn` has next: the
underlying `ReadFrom(pkt)` fills at most `len(pkt) = 60 + 8 + len(b)` bytes
(datagram semantics: the rest of the frame is discarded). -/
def readFrame (bound : Option Addr) (buflen : Nat) (frame : Bytes) : Res Step :=
  readPkt bound buflen (frame.take (ipv4MaximumHeaderSize + udpMinimumSize + buflen))

/-- One `ReadFrom` call on the frames still queued: skips frames until one is
delivered or reported as EOF; `none` when the queue runs dry (the underlying
connection then returns its error). Result and the frames left. -/
def readFrom (bound : Option Addr) (buflen : Nat) : List Bytes → Res (Option Step × List Bytes)
  | [] => .ok (none, [])
  | f :: rest =>
    match readFrame bound buflen f with
    | .ok .skip => readFrom bound buflen rest
    | .ok s => .ok (some s, rest)
    | .err => .err
    | .panic => .panic

/-- Repeated `ReadFrom` until the underlying connection has no frame left:
every non-skip outcome, in order (a caller that keeps reading after `io.EOF`;
`nclient4`'s receive loop stops at the first one). -/
def readFrames (bound : Option Addr) (buflen : Nat) : List Bytes → Res (List Step)
  | [] => .ok []
  | f :: rest =>
    match readFrame bound buflen f with
    | .ok .skip => readFrames bound buflen rest
    | .ok s => (readFrames bound buflen rest).map (s :: ·)
    | .err => .err
    | .panic => .panic

end Dhcp.Raw

import Dhcp.Go.Basic
/-
  The few functions of Go's `strings` / `bytes` packages the ZTP parsers use,
  over byte strings (Go strings are byte strings), and slice indexing with its
  panic.
-/
namespace Dhcp.Str
open Dhcp

/-- ASCII literal as a Go string -/
def ascii (cs : List Char) : Bytes := cs.map (fun c => UInt8.ofNat c.toNat)

/-- `strings.HasPrefix(s, p)` -/
def hasPrefix (s p : Bytes) : Bool := p.isPrefixOf s

/-- the loop of `strings.Split(s, sep)` for a non-empty `sep`: `cur` is the
piece being collected (reversed); at an occurrence of `sep` the piece is closed
and the scan continues behind it (non-overlapping, leftmost first) -/
def splitGo (sep : Bytes) : Nat → Bytes → Bytes → List Bytes
  | 0, _, cur => [cur.reverse]
  | _ + 1, [], cur => [cur.reverse]
  | n + 1, c :: rest, cur =>
    if sep.isPrefixOf (c :: rest) then cur.reverse :: splitGo sep n ((c :: rest).drop sep.length) []
    else splitGo sep n rest (c :: cur)

/-- `strings.Split(s, sep)` / `bytes.Split(s, sep)`, `sep` non-empty (all call
sites pass a literal) -/
def split (s sep : Bytes) : List Bytes := splitGo sep (s.length + 1) s []

/-- `strings.Join(xs, sep)` -/
def join (sep : Bytes) : List Bytes → Bytes
  | [] => []
  | [x] => x
  | x :: y :: rest => x ++ sep ++ join sep (y :: rest)

/-- `p[i]` on a `[]string`: out of range panics -/
def idx {α} (p : List α) (i : Nat) : Res α :=
  match p[i]? with
  | some x => .ok x
  | none => .panic

end Dhcp.Str

import Dhcp.Go.Basic
/-
  Model of `github.com/u-root/uio/uio.Lexer` (reading side) as used by every
  decoder in insomniacslk/dhcp: a cursor over a byte slice with a *sticky*
  error.  A short read returns nil/zero, records an error and does NOT
  advance.  `finError` additionally fails on unread bytes.
  This is dependency code: modelled, tied by the `lexer` correspondence
  stream, not verified.
-/
namespace Dhcp

structure Lexer where
  data : Bytes
  err  : Bool := false
  deriving Repr, DecidableEq

namespace Lexer

def new (b : Bytes) : Lexer := { data := b, err := false }

def len (l : Lexer) : Nat := l.data.length
def has (l : Lexer) (n : Nat) : Bool := n ≤ l.data.length

/-- `Consume(n)` for `n ≥ 0`: `none` models the nil slice returned on a short
read. (Negative `n` panics in Go; callers that can pass a negative value are
modelled with an explicit guard, see `Raw`.) -/
def consume (l : Lexer) (n : Nat) : Option Bytes × Lexer :=
  if n ≤ l.data.length then (some (l.data.take n), { l with data := l.data.drop n })
  else (none, { l with err := true })

def read8 (l : Lexer) : UInt8 × Lexer :=
  match l.consume 1 with
  | (some (b :: _), l') => (b, l')
  | (_, l') => (0, l')

def read16 (l : Lexer) : Nat × Lexer :=
  match l.consume 2 with
  | (some bs, l') => (beNat bs, l')
  | (none, l') => (0, l')

def read32 (l : Lexer) : Nat × Lexer :=
  match l.consume 4 with
  | (some bs, l') => (beNat bs, l')
  | (none, l') => (0, l')

def read64 (l : Lexer) : Nat × Lexer :=
  match l.consume 8 with
  | (some bs, l') => (beNat bs, l')
  | (none, l') => (0, l')

/-- `CopyN(n)`: same bytes as `Consume`, freshly allocated (ownership is
tracked in `Instr.Prov`, not here). -/
def copyN (l : Lexer) (n : Nat) : Option Bytes × Lexer := l.consume n

/-- `ReadAll()` = `CopyN(Len())`; never fails. Returns the remaining bytes. -/
def readAll (l : Lexer) : Bytes × Lexer := (l.data, { l with data := [] })

/-- `ReadBytes(p)` with `len(p) = n` into a zeroed destination: on a short
read the destination stays zero. -/
def readBytes (l : Lexer) (n : Nat) : Bytes × Lexer :=
  match l.consume n with
  | (some bs, l') => (bs, l')
  | (none, l') => (zeros n, l')

def error (l : Lexer) : Bool := l.err
def finError (l : Lexer) : Bool := l.err || l.data.length > 0

end Lexer
end Dhcp

/-
  Basic Go-level vocabulary shared by the whole model: byte strings, the
  three-way outcome of a Go call (value / error / panic), big-endian integers.
  Core Lean only (no Mathlib) so that the driver links as a `lean_exe`.
-/
namespace Dhcp

abbrev Bytes := List UInt8

/-- Outcome of a Go function that returns `(T, error)` and may panic. -/
inductive Res (α : Type) where
  | ok (a : α)
  | err
  | panic
  deriving Repr, DecidableEq, Inhabited

namespace Res
def bind {α β} (r : Res α) (f : α → Res β) : Res β :=
  match r with
  | ok a => f a
  | err => err
  | panic => panic
def map {α β} (f : α → β) (r : Res α) : Res β := r.bind (fun a => ok (f a))
def isOk {α} : Res α → Bool | ok _ => true | _ => false
def isPanic {α} : Res α → Bool | panic => true | _ => false
def toOption {α} : Res α → Option α | ok a => some a | _ => none
instance : Monad Res where
  pure := Res.ok
  bind := Res.bind
end Res

/-! ### Big-endian integers as byte lists (encoding/binary.BigEndian) -/

def be16 (v : Nat) : Bytes := [UInt8.ofNat (v / 256), UInt8.ofNat v]
def be32 (v : Nat) : Bytes :=
  [UInt8.ofNat (v / 16777216), UInt8.ofNat (v / 65536), UInt8.ofNat (v / 256), UInt8.ofNat v]

def beNat (bs : Bytes) : Nat := bs.foldl (fun acc b => acc * 256 + b.toNat) 0

def zeros (n : Nat) : Bytes := List.replicate n 0

/-- Go's `copy(dst, src)` into a zeroed destination of length `n`: the first
`min n |src|` bytes of `src`, zero padded to `n`. -/
def copyInto (n : Nat) (src : Bytes) : Bytes :=
  let s := src.take n
  s ++ zeros (n - s.length)

/-- `strings.Index(s, "\x00")` cut: bytes before the first NUL (all if none). -/
def cutNul (bs : Bytes) : Bytes := bs.takeWhile (· != 0)

end Dhcp

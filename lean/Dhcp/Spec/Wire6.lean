import Dhcp.V6.Codec
/-
  RFC 8415 framing grammar of DHCPv6 messages, declaratively (no Lexer, no
  fuel, no sticky error): a message is a fixed header followed by options that
  TILE the remainder exactly as code/length/value triples; the options that
  contain options (IA_NA, IA_TA, IAADDR, IA_PD, IAPREFIX, S46 4rd container,
  relay message) have a fixed part followed by a tiling of their own
  remainder, recursively.  The layout of the remaining ("leaf") options is
  delegated HERE to `decSimple`/`decDUID`; Dhcp/Spec/Wire6Rfc.lean is the same
  grammar with those delegations replaced by the declarative per-option RFC
  layouts `PLeaf`/`PDUID` of Dhcp/Spec/Leaf6.lean, and
  DhcpProofs/Lemmas/V6LeafIff.lean proves the two grammars equivalent
  (`C05_exact_rfc` in DhcpProofs/Props/C05.lean).
-/
namespace Dhcp.Spec
open Dhcp Dhcp.V6

/-- exact tiling of a buffer by code/length/value triples, in wire order -/
inductive Tiles {α : Type} (P : Nat → Bytes → α → Prop) : Bytes → List α → Prop where
  | nil : Tiles P [] []
  | cons {code : Nat} {v rest : Bytes} {o : α} {os : List α} :
      code < 65536 → v.length < 65536 → P code v o → Tiles P rest os →
      Tiles P (tlv code v ++ rest) (o :: os)

/-- codes whose value contains an option list or a message -/
def containerCodes : List Nat := [1, 2, 3, 4, 5, 9, 25, 26, 97]

mutual
/-- `POpt code value o`: `value` is a well-formed value of option `code`, read as `o` -/
inductive POpt : Nat → Bytes → Opt6 → Prop where
  | leaf {c : Nat} {v : Bytes} {o : Opt6} : c ∉ containerCodes → decSimple c v = .ok o → POpt c v o
  | clientID {v : Bytes} {d : DUID} : decDUID v = .ok d → POpt 1 v (.clientID d)
  | serverID {v : Bytes} {d : DUID} : decDUID v = .ok d → POpt 2 v (.serverID d)
  | iana {iaid sub : Bytes} {s1 s2 : Nat} {os : List Opt6} :
      iaid.length = 4 → s1 < 4294967296 → s2 < 4294967296 → POpts sub os →
      POpt 3 (iaid ++ (be32 s1 ++ (be32 s2 ++ sub))) (.iana iaid (s1 * second) (s2 * second) os)
  | iata {iaid sub : Bytes} {os : List Opt6} :
      iaid.length = 4 → POpts sub os → POpt 4 (iaid ++ sub) (.iata iaid os)
  | iaaddr {ip sub : Bytes} {s1 s2 : Nat} {os : List Opt6} :
      ip.length = 16 → s1 < 4294967296 → s2 < 4294967296 → POpts sub os →
      POpt 5 (ip ++ (be32 s1 ++ (be32 s2 ++ sub))) (.iaaddr (some ip) (s1 * second) (s2 * second) os)
  | relayMsg {v : Bytes} {m : Msg6} : PMsg v m → POpt 9 v (.relayMsg m)
  | iapd {iaid sub : Bytes} {s1 s2 : Nat} {os : List Opt6} :
      iaid.length = 4 → s1 < 4294967296 → s2 < 4294967296 → POpts sub os →
      POpt 25 (iaid ++ (be32 s1 ++ (be32 s2 ++ sub))) (.iapd iaid (s1 * second) (s2 * second) os)
  | iaprefix {ip sub : Bytes} {s1 s2 : Nat} {len : UInt8} {os : List Opt6} :
      s1 < 4294967296 → s2 < 4294967296 → len.toNat ≤ 128 → ip.length = 16 → POpts sub os →
      POpt 26 (be32 s1 ++ (be32 s2 ++ (len :: (ip ++ sub))))
        (.iaprefix (s1 * second) (s2 * second) (if len = 0 then none else some (len.toNat, some ip)) os)
  | fourRD {v : Bytes} {os : List Opt6} : POpts v os → POpt 97 v (.fourRD os)
/-- an option list tiles its buffer -/
inductive POpts : Bytes → List Opt6 → Prop where
  | nil : POpts [] []
  | cons {code : Nat} {v rest : Bytes} {o : Opt6} {os : List Opt6} :
      code < 65536 → v.length < 65536 → POpt code v o → POpts rest os →
      POpts (tlv code v ++ rest) (o :: os)
/-- a message: 4-byte header, or 34-byte header for relay types 12 and 13 -/
inductive PMsg : Bytes → Msg6 → Prop where
  | msg {t : UInt8} {xid rest : Bytes} {os : List Opt6} :
      isRelayType t = false → xid.length = 3 → POpts rest os →
      PMsg (t :: (xid ++ rest)) (.msg t xid os)
  | relay {t h : UInt8} {link peer rest : Bytes} {os : List Opt6} :
      isRelayType t = true → link.length = 16 → peer.length = 16 → POpts rest os →
      PMsg (t :: h :: (link ++ (peer ++ rest))) (.relay t h (some link) (some peer) os)
end

/-- the option codes of a buffer in wire order: walk the code/length/value
triples (stops at the first incomplete header; `n` bounds the number of steps) -/
def wireCodesN : Nat → Bytes → List Nat
  | 0, _ => []
  | n + 1, a :: b :: c :: e :: rest => beNat [a, b] :: wireCodesN n (rest.drop (beNat [c, e]))
  | _ + 1, _ => []

def wireCodes (d : Bytes) : List Nat := wireCodesN d.length d

end Dhcp.Spec

import Dhcp.V4.Packet
/-
  RFC 2131 section 4.4.1, Table 5 ("Fields and options used by DHCP clients")
  and sections 4.3.6 / 4.4.4 / 4.4.5 / 4.4.6, written down declaratively for
  the client messages the library builds.  This is a specification: it shares
  no code with the builder model (Dhcp/V4/Build.lean) and only reads the
  fields of a packet.

    field / option      DISCOVER   INFORM      REQUEST(selecting)  REQUEST(renewing)  RELEASE
    op                  BOOTREQUEST everywhere
    ciaddr              0          client's    0                   client's           client's
    message type (53)   1          8           3                   3                  7
    requested IP (50)   MAY        MUST NOT    MUST                MUST NOT           MUST NOT
    server id (54)      MUST NOT   MUST NOT    MUST                MUST NOT           MUST
    sent                broadcast  -           broadcast           unicast            unicast
-/
namespace Dhcp.Spec.V4Client
open Dhcp Dhcp.V4

inductive Msg where
  | discover | inform | requestSelecting | requestRenewing | release
  deriving DecidableEq

/-- RFC 2132 section 9.6 -/
def Msg.typeByte : Msg → UInt8
  | .discover => 1
  | .inform => 8
  | .requestSelecting => 3
  | .requestRenewing => 3
  | .release => 7

/-- the address field is 0.0.0.0 (as a nil, 4-byte or IPv4-mapped value) -/
def IsZeroAddr (ip : IP) : Prop :=
  ip = none ∨ ip = some [0, 0, 0, 0] ∨ ip = some [0, 0, 0, 0, 0, 0, 0, 0, 0, 0, 255, 255, 0, 0, 0, 0]

/-- `p` is a message of kind `m` from a client whose address is `clientAddr`,
naming the server `serverId`, laid out as Table 5 requires. -/
structure Conforms (m : Msg) (p : Pkt4) (clientAddr : IP) (serverId : Bytes) : Prop where
  op : p.op = 1
  msgType : p.opts.f 53 = some [m.typeByte]
  ciaddr : match m with
    | .discover | .requestSelecting => IsZeroAddr p.ciaddr
    | .inform | .requestRenewing | .release => p.ciaddr = clientAddr
  requestedIP : match m with
    | .discover => True
    | .requestSelecting => ∃ v, p.opts.f 50 = some v
    | .inform | .requestRenewing | .release => p.opts.f 50 = none
  serverID : match m with
    | .requestSelecting | .release => p.opts.f 54 = some serverId ∧ serverId ≠ []
    | .discover | .inform | .requestRenewing => p.opts.f 54 = none
  unicast : match m with
    | .requestRenewing | .release => p.flags / 32768 % 2 = 0     -- broadcast bit (bit 15) clear
    | .discover | .inform | .requestSelecting => True

end Dhcp.Spec.V4Client

import Dhcp.Go.Basic
/-
  Independent specification used by property C18: the Internet checksum
  (RFC 1071), the IPv4 header (RFC 791) and UDP with its pseudo header
  (RFC 768), read off a frame as the bytes a receiver sees.  Declarative,
  total (`getD`-style accessors are fine in a specification), and sharing no
  definition with the model in `Dhcp/Raw.lean`.
-/
namespace Dhcp.Spec.Inet
open Dhcp

/-! ### RFC 1071 -/

/-- "Adjacent octets to be checksummed are paired to form 16-bit integers";
an odd trailing octet is padded with a zero octet on the right. -/
def words : Bytes → List Nat
  | [] => []
  | [a] => [a.toNat * 256]
  | a :: b :: rest => (a.toNat * 256 + b.toNat) :: words rest

/-- One's-complement addition of two 16-bit values (end-around carry). -/
def ocAdd (a b : Nat) : Nat := if 65536 ≤ a + b then a + b - 65535 else a + b

/-- One's-complement sum of 16-bit words.  (Semantics mod 65535: it is `0` only
for an all-zero input, otherwise the representative of the integer sum in
`1..65535`, see `Lemmas/RawArith.lean: ocSumW_eq`.) -/
def ocSumW (ws : List Nat) : Nat := ws.foldl ocAdd 0

/-- One's-complement sum of a byte string. -/
def ocSum (bs : Bytes) : Nat := ocSumW (words bs)

/-- The plain integer sum of the 16-bit words (used to state results mod 65535). -/
def wordSum (bs : Bytes) : Nat := (words bs).sum

/-! ### RFC 791 / RFC 768 field accessors on a received frame -/

def byteAt (f : Bytes) (i : Nat) : Nat := (f.getD i 0).toNat
def wordAt (f : Bytes) (i : Nat) : Nat := byteAt f i * 256 + byteAt f (i + 1)

def version (f : Bytes) : Nat := byteAt f 0 / 16
/-- Internet Header Length, in 32-bit words. -/
def ihl (f : Bytes) : Nat := byteAt f 0 % 16
def hdrLen (f : Bytes) : Nat := 4 * ihl f
def totalLen (f : Bytes) : Nat := wordAt f 2
/-- flags (3 bits) and fragment offset (13 bits) -/
def flagsFrag (f : Bytes) : Nat := wordAt f 6
def ttl (f : Bytes) : Nat := byteAt f 8
def proto (f : Bytes) : Nat := byteAt f 9
def hdrChecksum (f : Bytes) : Nat := wordAt f 10
def srcAddr (f : Bytes) : Bytes := (f.drop 12).take 4
def dstAddr (f : Bytes) : Bytes := (f.drop 16).take 4
/-- The IP payload: what lies between the header and the total length.  Bytes
of the frame beyond the total length are link-layer padding. -/
def ipPayload (f : Bytes) : Bytes := (f.take (totalLen f)).drop (hdrLen f)

def srcPort (f : Bytes) : Nat := wordAt (ipPayload f) 0
def dstPort (f : Bytes) : Nat := wordAt (ipPayload f) 2
def udpLen (f : Bytes) : Nat := wordAt (ipPayload f) 4
def udpChecksum (f : Bytes) : Nat := wordAt (ipPayload f) 6
def udpData (f : Bytes) : Bytes := (ipPayload f).drop 8

/-! ### checksum verification, as a receiver does it -/

/-- RFC 791: the header checksum is right when the one's-complement sum of all
header words, checksum field included, is all ones. -/
def IPHeaderVerifies (f : Bytes) : Prop := ocSum (f.take (hdrLen f)) = 0xFFFF

/-- RFC 768 pseudo header: source address, destination address, zero+protocol,
UDP length. -/
def pseudoWords (f : Bytes) : List Nat :=
  words (srcAddr f) ++ words (dstAddr f) ++ [proto f, udpLen f]

/-- The sum over pseudo header, UDP header (checksum field included) and data
is all ones. -/
def UDPSumVerifies (f : Bytes) : Prop := ocSumW (pseudoWords f ++ words (ipPayload f)) = 0xFFFF

/-- RFC 768 receiver: "an all zero transmitted checksum value means that the
transmitter generated no checksum"; otherwise the sum must verify. -/
def UDPVerifies (f : Bytes) : Prop := udpChecksum f = 0 ∨ UDPSumVerifies f

/-- RFC 768 sender: "if the computed checksum is zero, it is transmitted as all
ones", so a sender that checksums never emits a zero field. -/
def UDPSenderRule (f : Bytes) : Prop := udpChecksum f ≠ 0

/-! ### frames the raw connection must deliver -/

/-- A complete IPv4 datagram carrying a whole UDP header: version 4, IHL 5..15,
total length within the received bytes (anything beyond is padding) and large
enough for header + 8, protocol 17. -/
def WellFormed (f : Bytes) : Prop :=
  20 ≤ f.length ∧ version f = 4 ∧ 5 ≤ ihl f ∧ totalLen f ≤ f.length ∧
    hdrLen f + 8 ≤ totalLen f ∧ proto f = 17

/-- `ip` denotes the IPv4 address `a` (4 bytes): as is, or in the 16-byte
IPv4-mapped form `::ffff:a`. -/
def AddrIs (ip a : Bytes) : Prop := ip = a ∨ ip = [0, 0, 0, 0, 0, 0, 0, 0, 0, 0, 255, 255] ++ a

/-- The bound address: `none` = not bound at all; otherwise an optional IP
(`none` = any address) and a port. -/
abbrev Bound := Option (Option Bytes × Nat)

def ForMe (f : Bytes) : Bound → Prop
  | none => True
  | some (none, port) => dstPort f = port
  | some (some ip, port) => dstPort f = port ∧ AddrIs ip (dstAddr f)

def WellFormedForMe (f : Bytes) (bound : Bound) : Prop := WellFormed f ∧ ForMe f bound

instance (f : Bytes) : Decidable (WellFormed f) := by unfold WellFormed; exact inferInstance
instance (ip a : Bytes) : Decidable (AddrIs ip a) := by unfold AddrIs; exact inferInstance
instance (f : Bytes) (b : Bound) : Decidable (ForMe f b) := by
  unfold ForMe; split <;> exact inferInstance
instance (f : Bytes) (b : Bound) : Decidable (WellFormedForMe f b) := by
  unfold WellFormedForMe; exact inferInstance

/-- What a reader owes its caller for a well-formed frame: the UDP data and
the sender (address, port). -/
def payloadAndSrc (f : Bytes) : Bytes × Bytes × Nat := (udpData f, srcAddr f, srcPort f)

end Dhcp.Spec.Inet

import Dhcp.Go.Basic
import Dhcp.Spec.Name
/-
  RFC interpretations of DHCPv4 option *values* (C17), written as independent
  partial functions on bytes: `none` = the value is malformed for the type.
  Nothing here mentions the Lexer or any definition of the model
  (`Dhcp.V4.*`); only `Bytes` (= `List UInt8`) is shared.

  Where the library's documented behaviour is deliberately laxer or stricter
  than the RFC the documented behaviour is encoded and the deviation is
  spelled out in the comment of the definition.
-/
namespace Dhcp.Spec.Val4
open Dhcp

/-- RFC 2132 §5.3, §9.1, §9.7 (broadcast address, requested address, server
identifier): exactly four octets. -/
def ip : Bytes → Option Bytes
  | [a, b, c, d] => some [a, b, c, d]
  | _ => none

/-- RFC 2132 §3.3 subnet mask: exactly four octets. -/
def mask : Bytes → Option Bytes
  | [a, b, c, d] => some [a, b, c, d]
  | _ => none

/-- a value cut into 4-octet addresses; `none` if the length is not a multiple of 4 -/
def addrs : Bytes → Option (List Bytes)
  | [] => some []
  | a :: b :: c :: d :: rest => (addrs rest).map (fun t => [a, b, c, d] :: t)
  | _ => none

/-- RFC 2132 §3.5, §3.8, §8.3, §8.5 (router, DNS, NTP, NetBIOS name servers):
"the minimum length is 4 octets, and the length MUST be a multiple of 4". -/
def ips (v : Bytes) : Option (List Bytes) :=
  match v with
  | [] => none
  | _ => addrs v

/-- 32-bit unsigned integer, network byte order, exactly four octets -/
def u32 : Bytes → Option Nat
  | [a, b, c, d] => some (((a.toNat * 256 + b.toNat) * 256 + c.toNat) * 256 + d.toNat)
  | _ => none

/-- RFC 2132 §9.2, §9.11, §9.12, RFC 8925 §3.1: "units of seconds, specified as
a 32-bit unsigned integer", rendered as the library renders durations
(nanoseconds). -/
def seconds (v : Bytes) : Option Int := (u32 v).map (fun s => (s : Int) * 1000000000)

/-- RFC 2132 §9.10 maximum message size: 16-bit unsigned integer, exactly two octets.
(The RFC's minimum legal value 576 is not enforced by the library.) -/
def u16 : Bytes → Option Nat
  | [a, b] => some (a.toNat * 256 + b.toNat)
  | _ => none

/-- RFC 2132 §9.6 message type, RFC 2563 §2 auto-configure: exactly one octet.
The library reports any octet value (the RFCs define 1–8, resp. 0–1; the
accessors' types `MessageType`/`AutoConfiguration` print others as unknown). -/
def u8 : Bytes → Option UInt8
  | [a] => some a
  | _ => none

/-- RFC 2132 §9.13 vendor class identifier (option 60): "n octets, interpreted
by servers"; opaque octets, not NVT ASCII, so nothing is deleted — the accessor
returns the octets exactly as sent, NULs included. -/
def str (v : Bytes) : Option Bytes := some v

/-- remove every trailing NUL -/
def stripNul : Bytes → Bytes
  | [] => []
  | b :: rest =>
    match stripNul rest with
    | [] => if b = 0 then [] else [b]
    | t => b :: t

/-- RFC 2132 §2: "Options containing NVT ASCII data SHOULD NOT include a
trailing NULL; however, the receiver of such options MUST be prepared to
delete trailing nulls if they exist." The NVT-ASCII options with a typed
accessor: host name 12 (§3.14), domain name 15 (§3.17), root path 17 (§3.19),
message 56 (§9.9), TFTP server name 66 (§9.4), boot file name 67 (§9.5). -/
def strTrim (v : Bytes) : Option Bytes := some (stripNul v)

/-- RFC 2132 §9.8 parameter request list: a list of option codes, one octet
each. The RFC's minimum length 1 is not enforced by the library: an empty
(non-nil) value reads as the empty list. -/
def codes (v : Bytes) : Option (List UInt8) := some v

/-- (length ≥ 1, data) instances tiling the value exactly -/
def classes : Bytes → Option (List Bytes)
  | [] => some []
  | n :: rest =>
    if n = 0 ∨ rest.length < n.toNat then none
    else (classes (rest.drop n.toNat)).map (fun t => rest.take n.toNat :: t)
termination_by b => b.length
decreasing_by simp; omega

/-- RFC 3004 §4 user class: "one or more instances of user class data. Each
instance of user class data is formatted as" UC_Len (≥ 1) then that many
octets. -/
def userClasses (v : Bytes) : Option (List Bytes) :=
  match v with
  | [] => none
  | _ => classes v

/-- RFC 3442 destination descriptor + router. `dest` is the subnet number
padded with zero octets to four; `width` the number of one bits of the mask. -/
structure Route where
  dest : Bytes
  width : Nat
  router : Bytes
  deriving Repr, DecidableEq

/-- RFC 3442: each route is the width of the subnet mask (0..32), the
significant octets of the subnet number (⌈width/8⌉ of them), and the router
(4 octets); the routes tile the value exactly. Bits of the last significant
octet beyond the mask are returned as sent (neither RFC nor library mask
them). -/
def routeList : Bytes → Option (List Route)
  | [] => some []
  | w :: rest =>
    let k := (w.toNat + 7) / 8
    if w.toNat > 32 ∨ rest.length < k + 4 then none
    else
      (routeList (rest.drop (k + 4))).map (fun t =>
        { dest := rest.take k ++ List.replicate (4 - k) 0, width := w.toNat,
          router := (rest.drop k).take 4 } :: t)
termination_by b => b.length
decreasing_by simp; omega

/-- RFC 3442: "the minimum length of this option is 5 bytes" — at least one route. -/
def routes (v : Bytes) : Option (List Route) :=
  match v with
  | [] => none
  | _ => routeList v

/-- pairs of octets as 16-bit big-endian numbers -/
def pairs : Bytes → Option (List Nat)
  | [] => some []
  | a :: b :: rest => (pairs rest).map (fun t => (a.toNat * 256 + b.toNat) :: t)
  | _ => none

/-- RFC 4578 §2.1 client system architecture: "a list of one or more
architecture types", 16 bits each. -/
def archs (v : Bytes) : Option (List Nat) :=
  match v with
  | [] => none
  | _ => pairs v

/-- (enterprise number: 4 octets, data-len: 1 octet, data) instances tiling the value -/
def vendorClasses : Bytes → Option (List (Nat × Bytes))
  | [] => some []
  | a :: b :: c :: d :: n :: rest =>
    if rest.length < n.toNat then none
    else
      (vendorClasses (rest.drop n.toNat)).map (fun t =>
        ((((a.toNat * 256 + b.toNat) * 256 + c.toNat) * 256 + d.toNat), rest.take n.toNat) :: t)
  | _ => none
termination_by b => b.length
decreasing_by simp; omega

/-- RFC 3925 §3 vendor-identifying vendor class: one or more instances. -/
def vivc (v : Bytes) : Option (List (Nat × Bytes)) :=
  match v with
  | [] => none
  | _ => vendorClasses v

/-- RFC 3046 §2.0 agent information field: "a sequence of SubOpt/Length/Value
tuples" tiling the field exactly. RFC 3046 defines no pad and no end code in
the sub-option space: 0 and 255 are ordinary sub-option codes. Returns the
tuples in wire order. -/
def subOptions : Bytes → Option (List (UInt8 × Bytes))
  | [] => some []
  | [_] => none
  | c :: n :: rest =>
    if rest.length < n.toNat then none
    else (subOptions (rest.drop n.toNat)).map (fun t => (c, rest.take n.toNat) :: t)
termination_by b => b.length
decreasing_by simp; omega

/-- value of sub-option `c` in a tuple list: absent if no tuple carries the
code, else the concatenation of all its instances (RFC 3396 §7 style, as the
library's doc comment on the option loop says). -/
def subOptionValue (tuples : List (UInt8 × Bytes)) (c : UInt8) : Option Bytes :=
  match tuples.filter (fun t => t.1 = c) with
  | [] => none
  | ts => some (ts.flatMap (fun t => t.2))

/-- RFC 3046 relay agent information as a finite map code ↦ value. -/
def relay (v : Bytes) : Option (UInt8 → Option Bytes) :=
  (subOptions v).map subOptionValue

/-- the values on which the known finding `acc-RelayAgentInfo-pad-end` cannot
show: walking the tuples as far as they go, no octet in sub-option code
position is 0 or 255. -/
def noPadEndCodes : Bytes → Bool
  | [] => true
  | [c] => c != 0 && c != 255
  | c :: n :: rest =>
    c != 0 && c != 255 &&
      (if rest.length < n.toNat then true else noPadEndCodes (rest.drop n.toNat))
termination_by b => b.length
decreasing_by simp; omega

/-! #### NOT the RFC: the grammar the library applies to option 82

`RelayOptions.FromBytes` parses the field with the DHCP *options field*
grammar (`Options.FromBytes`): an octet 0 in code position is a one-octet pad,
an octet 255 in code position ends the list and whatever follows is ignored.
It is written down here only to state exactly what the accessor computes
(`C17_RelayAgentInfo_padend_*`) next to what RFC 3046 says (`relay`); the
difference is the known finding `acc-RelayAgentInfo-pad-end`. -/

def subOptionsPadEnd : Bytes → Option (List (UInt8 × Bytes))
  | [] => some []
  | c :: rest =>
    if c = 0 then subOptionsPadEnd rest
    else if c = 255 then some []
    else
      match rest with
      | [] => none
      | n :: rest' =>
        if rest'.length < n.toNat then none
        else (subOptionsPadEnd (rest'.drop n.toNat)).map (fun t => (c, rest'.take n.toNat) :: t)
termination_by b => b.length
decreasing_by all_goals (simp; try omega)

def relayPadEnd (v : Bytes) : Option (UInt8 → Option Bytes) :=
  (subOptionsPadEnd v).map subOptionValue

/-- RFC 3397 §2 domain search list: "the searchstring … a list of domain
names, encoded as in RFC 1035 §4.1.4", compression pointers being offsets
into the option value itself.  This is exactly the relation `Name.DecodesTo`
(Dhcp/Spec/Name.lean, written for C19 independently of the label model):
names in dotted form, in order.  As the library documents, a last name
without its terminating zero octet is accepted as well (RFC 4704 §4.2
partial name); RFC 3397 itself does not provide for it. -/
def searchList (v : Bytes) (names : List Bytes) : Prop := Name.DecodesTo v names

end Dhcp.Spec.Val4

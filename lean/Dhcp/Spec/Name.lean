import Dhcp.Go.Basic
/-
  Declarative reading of RFC 1035 §3.1 / §4.1.4 and RFC 4704 §4.2 for a
  buffer holding a *list* of domain names (DHCP domain search lists, DHCPv6
  FQDN / domain-list options).  Written independently of the model in
  `Dhcp/Label.lean`: it shares no definition with it.

  ## What `DecodesTo msg names` accepts, exactly

  `msg` is read from offset 0 as a sequence of names laid end to end; `names`
  lists them in order, each in dotted presentation form (labels joined by the
  byte 0x2e, no escaping, no trailing dot; the root name is the empty string).
  One name is

    * zero or more **labels** — a length octet `n` with `1 ≤ n ≤ 63` (top two
      bits 00) followed by exactly `n` octets, all of them inside the buffer —
      followed by one of
    * (a) a **zero octet** (§3.1): the name is complete; or
    * (b) a **compression pointer** (§4.1.4): two octets `11xxxxxx yyyyyyyy`
      giving the 14-bit offset `xxxxxxyyyyyyyy`, which must lie *inside* the
      buffer (`< |msg|`, backward or forward, start or middle of anything —
      bytes are bytes).  At that offset there must be zero or more labels and
      then a zero octet, all inside the buffer: **one level only**, the target
      may not itself contain a pointer.  The name is the labels before the
      pointer followed by the target's labels; reading continues with the next
      name right after the two pointer octets; or
    * (c) the **end of the buffer** after at least one label (RFC 4704 §4.2
      partial name); this can only be the last name.
  The dotted form of every name is at most 253 bytes long (= 255 octets on
  the wire, RFC 1035 §2.3.4).  The empty buffer decodes to the empty list.

  Nothing else has a reading: a length octet with top bits 01 or 10, a label
  or pointer cut short by the end of the buffer, a pointer to an offset
  `≥ |msg|`, a pointer whose target runs into another pointer, a reserved
  octet or the end of the buffer before its zero octet, and names longer than
  253 bytes all make `DecodesTo msg _` empty.
-/
namespace Dhcp.Spec.Name
open Dhcp

/-- presentation form of a list of labels -/
def dotted : List Bytes → Bytes
  | [] => []
  | [l] => l
  | l :: l' :: ls => l ++ 46 :: dotted (l' :: ls)

/-- `LabelSeq bs ls rest`: `bs` starts with the wire form of the labels `ls`
(each `1..63` octets, preceded by its length octet) and continues with `rest`. -/
inductive LabelSeq : Bytes → List Bytes → Bytes → Prop
  | nil (rest : Bytes) : LabelSeq rest [] rest
  | cons (l : Bytes) (ls : List Bytes) (tail rest : Bytes) :
      1 ≤ l.length → l.length ≤ 63 → LabelSeq tail ls rest →
      LabelSeq (UInt8.ofNat l.length :: (l ++ tail)) (l :: ls) rest

/-- a pointer's first octet: top two bits 11 -/
def IsPtr (b : UInt8) : Prop := 192 ≤ b.toNat

/-- the 14-bit offset of the pointer `b0 b1` -/
def ptrOffset (b0 b1 : UInt8) : Nat := (b0.toNat - 192) * 256 + b1.toNat

/-- longest dotted name -/
def maxDotted : Nat := 253

/-- `Names msg bs ns`: the suffix `bs` of the message `msg` is a sequence of
names whose dotted forms are `ns`. -/
inductive Names (msg : Bytes) : Bytes → List Bytes → Prop
  | done : Names msg [] []
  | partialName (bs : Bytes) (ls : List Bytes) :
      ls ≠ [] → LabelSeq bs ls [] → (dotted ls).length ≤ maxDotted →
      Names msg bs [dotted ls]
  | plain (bs : Bytes) (ls : List Bytes) (rest : Bytes) (ns : List Bytes) :
      LabelSeq bs ls (0 :: rest) → (dotted ls).length ≤ maxDotted →
      Names msg rest ns → Names msg bs (dotted ls :: ns)
  | ptr (bs : Bytes) (ls : List Bytes) (b0 b1 : UInt8) (rest : Bytes)
      (ls' : List Bytes) (rest' : Bytes) (ns : List Bytes) :
      LabelSeq bs ls (b0 :: b1 :: rest) → IsPtr b0 →
      ptrOffset b0 b1 < msg.length →
      LabelSeq (msg.drop (ptrOffset b0 b1)) ls' (0 :: rest') →
      (dotted (ls ++ ls')).length ≤ maxDotted →
      Names msg rest ns → Names msg bs (dotted (ls ++ ls') :: ns)

/-- **The specification.** -/
def DecodesTo (msg : Bytes) (names : List Bytes) : Prop := Names msg msg names

/-! ### Valid names (the domain of the encoder round trip) -/

/-- the labels of a dotted name: split at every 0x2e -/
def nameLabels : Bytes → List Bytes
  | [] => [[]]
  | b :: t =>
    if b = 46 then [] :: nameLabels t
    else match nameLabels t with
      | [] => [[b]]
      | p :: ps => (b :: p) :: ps

/-- A valid name: at most 253 bytes, and either empty (the root name) or made
of labels of 1..63 bytes (which by construction contain no 0x2e). -/
def ValidName (n : Bytes) : Prop :=
  n.length ≤ maxDotted ∧ (n = [] ∨ ∀ l ∈ nameLabels n, 1 ≤ l.length ∧ l.length ≤ 63)

instance (n : Bytes) : Decidable (ValidName n) := by unfold ValidName; exact inferInstance

def ValidNames (ns : List Bytes) : Prop := ∀ n ∈ ns, ValidName n

instance (ns : List Bytes) : Decidable (ValidNames ns) := by unfold ValidNames; exact inferInstance

end Dhcp.Spec.Name

import Dhcp.V6.Build
/-
  Vocabulary for stating C16 (shares no code with the functions it is about):
  * `encapAll m hs`  — `EncapsulateRelay` applied once per header of `hs`
    (the LAST header first, so `hs` lists the levels outermost first);
  * `Chain c lvls inner` — `c` is a relay message whose relay-message options
    lead, level by level (`lvls`, outermost first), to the non-relay `inner`;
  * `Broken c` — some level on that path has no (usable) relay-message option;
  * `replyOf msg lvls` — the relay-reply the property text describes for a
    relay-forward chain with levels `lvls` and the reply `msg`.
-/
namespace Dhcp.Spec
open Dhcp Dhcp.V6

/-- what `EncapsulateRelay` is given for one level -/
structure Hdr where
  typ : UInt8
  link : IP
  peer : IP

/-- n-fold encapsulation: `encapAll m [h₁,…,hₙ]` wraps `m` in `hₙ` first and `h₁` last -/
def encapAll (m : Msg6) : List Hdr → Res Msg6
  | [] => .ok m
  | h :: rest => (encapAll m rest).bind (fun c => encapsulateRelay c h.typ h.link h.peer)

/-- one relay level of an existing chain: header fields and the level's options -/
structure RLevel where
  typ : UInt8
  hops : UInt8
  link : IP
  peer : IP
  opts : List Opt6

/-- `Chain c lvls inner`: following `RelayOptions.RelayMessage()` from `c`
passes exactly the relay levels `lvls` (outermost first) and ends at the
non-relay message `inner`. -/
inductive Chain : Msg6 → List RLevel → Msg6 → Prop
  | last {t h l p os inner} :
      relayMessageOf os = some inner → inner.isRelay = false →
      Chain (.relay t h l p os) [⟨t, h, l, p, os⟩] inner
  | cons {t h l p os r lvls inner} :
      relayMessageOf os = some r → Chain r lvls inner →
      Chain (.relay t h l p os) (⟨t, h, l, p, os⟩ :: lvls) inner

/-- some relay level on the path has no relay-message option (or its first
option with code 9 is not a relay-message option) -/
inductive Broken : Msg6 → Prop
  | here {t h l p os} : relayMessageOf os = none → Broken (.relay t h l p os)
  | deeper {t h l p os r} : relayMessageOf os = some r → Broken r → Broken (.relay t h l p os)

/-- the relay-reply for forward levels `lvls` (outermost first) carrying `msg`:
per level type RELAY-REPL, the level's link and peer address, the hop count
`EncapsulateRelay` assigns (0 innermost, +1 per level outwards, uint8), and as
options the relay message followed by the level's first interface-id and first
remote-id option when present -/
def replyOf (msg : Msg6) : List RLevel → Msg6
  | [] => msg
  | lv :: rest =>
    .relay relayReply (UInt8.ofNat rest.length) lv.link lv.peer
      ([Opt6.relayMsg (replyOf msg rest)] ++ (getOne ocInterfaceID lv.opts).toList ++
        (getOne ocRemoteID lv.opts).toList)

/-- the levels of `replyOf msg lvls` -/
def replyLevels (msg : Msg6) : List RLevel → List RLevel
  | [] => []
  | lv :: rest =>
    ⟨relayReply, UInt8.ofNat rest.length, lv.link, lv.peer,
      [Opt6.relayMsg (replyOf msg rest)] ++ (getOne ocInterfaceID lv.opts).toList ++
        (getOne ocRemoteID lv.opts).toList⟩ :: replyLevels msg rest

end Dhcp.Spec

import Dhcp.Spec.Leaf6
/-
  The complete declarative grammar of DHCPv6 messages: the RFC 8415 framing
  of Dhcp/Spec/Wire6.lean (header, options tiling the remainder exactly as
  code/length/value triples, recursively through the options that contain
  options) with the value layout of every leaf option and DUID given by the
  declarative relations `PLeaf` / `PDUID` of Dhcp/Spec/Leaf6.lean instead of the
  model's own leaf decoders.  This file and its imports use no definition of
  the decoder model (no Lexer, no fuel, no `Dhcp.V6.Codec`): the option framing
  `code(2) length(2) value` and the seconds→`time.Duration` conversion are
  written out.

  `DhcpProofs/Lemmas/V6LeafIff.lean` proves `PMsg b m ↔ PMsg' b m` (and the same
  for single options and option lists); `DhcpProofs/Props/C05.lean` states
  `C05_exact_rfc : dec6 b = .ok m ↔ PMsg' b m`.
-/
namespace Dhcp.Spec
open Dhcp Dhcp.V6

mutual
/-- `POpt' code value o`: `value` is a well-formed value of option `code`, read as `o` -/
inductive POpt' : Nat → Bytes → Opt6 → Prop where
  /-- every option that holds no DHCPv6 options: its RFC layout -/
  | leaf {c : Nat} {v : Bytes} {o : Opt6} : PLeaf c v o → POpt' c v o
  /-- 1 OPTION_CLIENTID, RFC 8415 §21.2: a DUID -/
  | clientID {v : Bytes} {d : DUID} : PDUID v d → POpt' 1 v (.clientID d)
  /-- 2 OPTION_SERVERID, §21.3: a DUID -/
  | serverID {v : Bytes} {d : DUID} : PDUID v d → POpt' 2 v (.serverID d)
  /-- 3 OPTION_IA_NA, §21.4: IAID(4) T1(4) T2(4) options -/
  | iana {iaid sub : Bytes} {s1 s2 : Nat} {os : List Opt6} :
      iaid.length = 4 → s1 < 4294967296 → s2 < 4294967296 → POpts' sub os →
      POpt' 3 (iaid ++ (be32 s1 ++ (be32 s2 ++ sub)))
        (.iana iaid (s1 * nsPerSecond) (s2 * nsPerSecond) os)
  /-- 4 OPTION_IA_TA, §21.5: IAID(4) options -/
  | iata {iaid sub : Bytes} {os : List Opt6} :
      iaid.length = 4 → POpts' sub os → POpt' 4 (iaid ++ sub) (.iata iaid os)
  /-- 5 OPTION_IAADDR, §21.6: address(16) preferred(4) valid(4) options -/
  | iaaddr {ip sub : Bytes} {s1 s2 : Nat} {os : List Opt6} :
      ip.length = 16 → s1 < 4294967296 → s2 < 4294967296 → POpts' sub os →
      POpt' 5 (ip ++ (be32 s1 ++ (be32 s2 ++ sub)))
        (.iaaddr (some ip) (s1 * nsPerSecond) (s2 * nsPerSecond) os)
  /-- 9 OPTION_RELAY_MSG, §21.10: a whole message -/
  | relayMsg {v : Bytes} {m : Msg6} : PMsg' v m → POpt' 9 v (.relayMsg m)
  /-- 25 OPTION_IA_PD, §21.21: IAID(4) T1(4) T2(4) options -/
  | iapd {iaid sub : Bytes} {s1 s2 : Nat} {os : List Opt6} :
      iaid.length = 4 → s1 < 4294967296 → s2 < 4294967296 → POpts' sub os →
      POpt' 25 (iaid ++ (be32 s1 ++ (be32 s2 ++ sub)))
        (.iapd iaid (s1 * nsPerSecond) (s2 * nsPerSecond) os)
  /-- 26 OPTION_IAPREFIX, §21.22: preferred(4) valid(4) prefix-length(1)
  prefix(16) options; prefix-length at most 128; length 0 reads as "no prefix" -/
  | iaprefix {ip sub : Bytes} {s1 s2 : Nat} {len : UInt8} {os : List Opt6} :
      s1 < 4294967296 → s2 < 4294967296 → len.toNat ≤ 128 → ip.length = 16 → POpts' sub os →
      POpt' 26 (be32 s1 ++ (be32 s2 ++ (len :: (ip ++ sub))))
        (.iaprefix (s1 * nsPerSecond) (s2 * nsPerSecond)
          (if len = 0 then none else some (len.toNat, some ip)) os)
  /-- 97 OPTION_4RD, RFC 7600 §4.9: encapsulated options -/
  | fourRD {v : Bytes} {os : List Opt6} : POpts' v os → POpt' 97 v (.fourRD os)
/-- an option list tiles its buffer: option-code(2) option-len(2) option-data, §21.1 -/
inductive POpts' : Bytes → List Opt6 → Prop where
  | nil : POpts' [] []
  | cons {code : Nat} {v rest : Bytes} {o : Opt6} {os : List Opt6} :
      code < 65536 → v.length < 65536 → POpt' code v o → POpts' rest os →
      POpts' (be16 code ++ (be16 v.length ++ (v ++ rest))) (o :: os)
/-- a message: msg-type(1) transaction-id(3) options (§8), or for the relay
types 12 and 13 msg-type(1) hop-count(1) link-address(16) peer-address(16)
options (§9) -/
inductive PMsg' : Bytes → Msg6 → Prop where
  | msg {t : UInt8} {xid rest : Bytes} {os : List Opt6} :
      isRelayType t = false → xid.length = 3 → POpts' rest os →
      PMsg' (t :: (xid ++ rest)) (.msg t xid os)
  | relay {t h : UInt8} {link peer rest : Bytes} {os : List Opt6} :
      isRelayType t = true → link.length = 16 → peer.length = 16 → POpts' rest os →
      PMsg' (t :: h :: (link ++ (peer ++ rest))) (.relay t h (some link) (some peer) os)
end

end Dhcp.Spec

import Dhcp.V6.Types
import Dhcp.Spec.Name
import Dhcp.Spec.Wire4
/-
  RFC value layouts of the DHCPv6 options that do not contain DHCPv6 options
  ("leaf" options) and of DUIDs, declaratively: for every option code a
  statement "the value bytes ARE this concatenation of fields, and denote this
  value".  No Lexer, no fuel, no sticky error, no decoder of the model: this
  file imports only the value types (`Opt6`, `DUID`, `NTPSub`, `Label.Labels`,
  `Pkt4`), the big-endian vocabulary of Dhcp/Go/Basic.lean (`be16`, `be32`), the
  domain-name specification `Spec.Name.DecodesTo` and the DHCPv4 packet
  specification `Spec.Parses4`.

  The acceptance boundary stated here is the LIBRARY's (insomniacslk/dhcp).
  Wherever it differs from the RFC text the clause carries a
  `-- library deviation:` comment with the RFC reference; the names in
  brackets are the entries of `ref6Deviations` in harness/cmd/harness/ref6.go
  (the independent Go reference decoder of oracle c05), which documents the
  library-side justification of each.

  `DhcpProofs/Lemmas/V6LeafIff.lean` proves
     c ∉ containerCodes → (decSimple c v = .ok o ↔ PLeaf c v o)      and
     decDUID v = .ok d ↔ PDUID v d                                      .
-/
namespace Dhcp.Spec
open Dhcp Dhcp.V6

/-! ### units -/

/-- one second, in the unit of the value type (`time.Duration`, nanoseconds) -/
def nsPerSecond : Int := 1000000000
/-- one hundredth of a second (RFC 8415 §21.9), in nanoseconds -/
def nsPerCentisecond : Int := 10000000

/-! ### repeated fields -/

/-- `v` is the concatenation of the 16-bit big-endian forms of `ns` -/
def U16s (v : Bytes) (ns : List Nat) : Prop :=
  (∀ n ∈ ns, n < 65536) ∧ v = ns.flatMap be16

/-- `v` is a sequence of items, each preceded by its 16-bit length -/
def Items (v : Bytes) (xs : List Bytes) : Prop :=
  (∀ x ∈ xs, x.length < 65536) ∧ v = xs.flatMap (fun x => be16 x.length ++ x)

/-- `v` is a sequence of 16-octet IPv6 addresses -/
inductive Addrs : Bytes → List IP → Prop where
  | nil : Addrs [] []
  | cons {a rest : Bytes} {ips : List IP} :
      a.length = 16 → Addrs rest ips → Addrs (a ++ rest) (some a :: ips)

/-- `v` is tiled exactly by sub-option triples code(2) length(2) data(length),
each read by `P`, in wire order -/
inductive SubOpts {α : Type} (P : Nat → Bytes → α → Prop) : Bytes → List α → Prop where
  | nil : SubOpts P [] []
  | cons {code : Nat} {d rest : Bytes} {x : α} {xs : List α} :
      code < 65536 → d.length < 65536 → P code d x → SubOpts P rest xs →
      SubOpts P (be16 code ++ (be16 d.length ++ (d ++ rest))) (x :: xs)

/-- A domain-name field (RFC 1035 §3.1 names laid end to end) and its value:
the library keeps the field octets and the list of names in dotted form.
-- library deviation: [name-compression] RFC 8415 §10 forbids compression in
   DHCPv6; `Spec.Name.DecodesTo` (the rfc1035label package's documented
   behaviour) follows one level of RFC 1035 §4.1.4 pointers.
-- library deviation: [name-unterminated] a field may end inside its last
   name (RFC 4704 §4.2 partial name) in EVERY name-carrying option, not only
   in the client FQDN option. -/
def NameField (v : Bytes) (l : Label.Labels) : Prop :=
  l.original = some v ∧ Name.DecodesTo v l.labels

/-- the first occurrence of every code, in order of first appearance -/
def keepFirst : List Nat → List Nat
  | [] => []
  | c :: cs => c :: (keepFirst cs).filter (fun x => x != c)

/-! ### NTP server sub-options (RFC 5908 §4) -/

inductive PNTPSub : Nat → Bytes → NTPSub → Prop where
  /-- §4.1 NTP_SUBOPTION_SRV_ADDR: one IPv6 address -/
  | srvAddr {a : Bytes} : a.length = 16 → PNTPSub 1 a (.srvAddr (some a))
  /-- §4.2 NTP_SUBOPTION_MC_ADDR: one IPv6 multicast address -/
  | mcAddr {a : Bytes} : a.length = 16 → PNTPSub 2 a (.mcAddr (some a))
  /-- §4.3 NTP_SUBOPTION_SRV_FQDN: exactly one name (the count is enforced;
  compression and a missing zero label are tolerated as in every `NameField`) -/
  | srvFQDN {d : Bytes} {l : Label.Labels} :
      NameField d l → l.labels.length = 1 → PNTPSub 3 d (.srvFQDN l)
  /-- any other sub-option code: payload verbatim -/
  | other {c : Nat} {d : Bytes} : c ≠ 1 → c ≠ 2 → c ≠ 3 → PNTPSub c d (.generic c d)

/-! ### DUIDs (RFC 8415 §11, RFC 6355) -/

/-- `PDUID v d`: the octets `v` are a DUID, read as `d`.  §11.1: the type code is
followed by 1 to 128 octets. -/
inductive PDUID : Bytes → DUID → Prop where
  /-- §11.2 DUID-LLT: hardware type(2) time(4) link-layer address -/
  | llt {ht t : Nat} {a : Bytes} : ht < 65536 → t < 4294967296 → 6 + a.length ≤ 128 →
      PDUID (be16 1 ++ (be16 ht ++ (be32 t ++ a))) (.llt ht t a)
  /-- §11.3 DUID-EN: enterprise-number(4) identifier -/
  | en {n : Nat} {i : Bytes} : n < 4294967296 → 4 + i.length ≤ 128 →
      PDUID (be16 2 ++ (be32 n ++ i)) (.en n i)
  /-- §11.4 DUID-LL: hardware type(2) link-layer address -/
  | ll {ht : Nat} {a : Bytes} : ht < 65536 → 2 + a.length ≤ 128 →
      PDUID (be16 3 ++ (be16 ht ++ a)) (.ll ht a)
  /-- §11.5 / RFC 6355 DUID-UUID: exactly 16 octets -/
  | uuid {u : Bytes} : u.length = 16 → PDUID (be16 4 ++ u) (.uuid u)
  /-- any other type: opaque, 1..128 octets -/
  | opaque {t : Nat} {d : Bytes} : t < 65536 → t ≠ 1 → t ≠ 2 → t ≠ 3 → t ≠ 4 →
      1 ≤ d.length → d.length ≤ 128 → PDUID (be16 t ++ d) (.opaque t d)

/-! ### leaf options -/

/-- the option codes that have a layout of their own (here or, for the nine
container codes 1 2 3 4 5 9 25 26 97, in the framing grammar); the same list as
the `ParseOption` switch, re-checked against the source by Facts/V6Table.lean -/
def layoutCodes : List Nat :=
  [1, 2, 3, 4, 5, 6, 8, 9, 13, 15, 16, 17, 18, 23, 24, 25, 26, 32, 37, 39, 56, 59, 60, 61, 62, 79,
   87, 88, 97, 98, 99, 135]

/-- `PLeaf code v o`: `v` is a well-formed value of the leaf option `code`,
read as `o`. -/
inductive PLeaf : Nat → Bytes → Opt6 → Prop where
  /-- 6 OPTION_ORO, RFC 8415 §21.7: a sequence of 16-bit option codes.
  -- library deviation: the value is NORMALISED on decode — `OptionCodes.Add`
     (dhcpv6/option_requestedoption.go) drops every repetition of a code, the
     first occurrence stays (`keepFirst`).  The RFC reading is `cs`. -/
  | oro {v : Bytes} {cs : List Nat} : U16s v cs → PLeaf 6 v (.oro (keepFirst cs))
  /-- 8 OPTION_ELAPSED_TIME, §21.9: 2 octets, hundredths of a second -/
  | elapsed {t : Nat} : t < 65536 → PLeaf 8 (be16 t) (.elapsed (t * nsPerCentisecond))
  /-- 13 OPTION_STATUS_CODE, §21.13: status-code(2) status-message.
  -- library deviation: the message is kept as opaque octets (the RFC says
     UTF-8 text, not NUL terminated; neither is checked). -/
  | status {c : Nat} {m : Bytes} : c < 65536 → PLeaf 13 (be16 c ++ m) (.status c m)
  /-- 15 OPTION_USER_CLASS, §21.15: one or more user-class-len(2) data -/
  | userClass {v : Bytes} {cls : List Bytes} : Items v cls → cls ≠ [] → PLeaf 15 v (.userClass cls)
  /-- 16 OPTION_VENDOR_CLASS, §21.16: enterprise-number(4), then
  vendor-class-len(2) data items.
  -- library deviation: [vendorclass-no-data] the RFC gives no minimum number
     of items; the library rejects a value without any. -/
  | vendorClass {en : Nat} {v : Bytes} {ds : List Bytes} : en < 4294967296 → Items v ds → ds ≠ [] →
      PLeaf 16 (be32 en ++ v) (.vendorClass en ds)
  /-- 17 OPTION_VENDOR_OPTS, §21.17: enterprise-number(4), then sub-options
  code(2) len(2) data tiling the rest, kept opaque -/
  | vendorOpts {en : Nat} {v : Bytes} {os : List (Nat × Bytes)} : en < 4294967296 →
      SubOpts (fun c d x => x = (c, d)) v os → PLeaf 17 (be32 en ++ v) (.vendorOpts en os)
  /-- 18 OPTION_INTERFACE_ID, §21.18: opaque -/
  | interfaceID {v : Bytes} : PLeaf 18 v (.interfaceID v)
  /-- 23 OPTION_DNS_SERVERS, RFC 3646 §3: IPv6 addresses, 16 octets each -/
  | dns {v : Bytes} {ips : List IP} : Addrs v ips → PLeaf 23 v (.dns ips)
  /-- 24 OPTION_DOMAIN_LIST, RFC 3646 §4: a list of domain names
  (deviations: see `NameField`) -/
  | domainSearch {v : Bytes} {l : Label.Labels} : NameField v l → PLeaf 24 v (.domainSearch l)
  /-- 32 OPTION_INFORMATION_REFRESH_TIME, RFC 8415 §21.23: 4 octets, seconds -/
  | infoRefresh {s : Nat} : s < 4294967296 → PLeaf 32 (be32 s) (.infoRefresh (s * nsPerSecond))
  /-- 37 OPTION_REMOTE_ID, RFC 4649 §3: enterprise-number(4) remote-id.
  -- library deviation: [remoteid-empty] RFC 4649 §3 says "the minimum
     option-len is 5 octets"; the library accepts an empty remote-id. -/
  | remoteID {en : Nat} {id : Bytes} : en < 4294967296 → PLeaf 37 (be32 en ++ id) (.remoteID en id)
  /-- 39 OPTION_CLIENT_FQDN, RFC 4704 §4: flags(1) domain-name.
  -- library deviation: [fqdn-extra-names] RFC 4704 §4.2: the field holds ONE
     name (complete, partial or empty); the library reads a list of names.
     All eight flag bits are kept (the MBZ bits are not checked). -/
  | fqdn {f : UInt8} {v : Bytes} {l : Label.Labels} : NameField v l → PLeaf 39 (f :: v) (.fqdn f l)
  /-- 56 OPTION_NTP_SERVER, RFC 5908 §4: sub-options tiling the value -/
  | ntp {v : Bytes} {subs : List NTPSub} : SubOpts PNTPSub v subs → PLeaf 56 v (.ntp subs)
  /-- 59 OPT_BOOTFILE_URL, RFC 5970 §3.1: the URL octets (not NUL terminated).
  -- library deviation: not checked to be an RFC 3986 URL. -/
  | bootfileURL {v : Bytes} : PLeaf 59 v (.bootfileURL v)
  /-- 60 OPT_BOOTFILE_PARAM, RFC 5970 §3.2: param-len(2) parameter items
  (possibly none) -/
  | bootfileParam {v : Bytes} {ps : List Bytes} : Items v ps → PLeaf 60 v (.bootfileParam ps)
  /-- 61 OPTION_CLIENT_ARCH_TYPE, RFC 5970 §3.3: one or more 16-bit
  architecture types -/
  | archType {v : Bytes} {as : List Nat} : U16s v as → as ≠ [] → PLeaf 61 v (.archType as)
  /-- 62 OPTION_NII, RFC 5970 §3.4: type(1) major(1) minor(1) -/
  | nii {t ma mi : UInt8} : PLeaf 62 [t, ma, mi] (.nii t ma mi)
  /-- 79 OPTION_CLIENT_LINKLAYER_ADDR, RFC 6939 §4: link-layer type(2) address -/
  | clientLLA {ht : Nat} {a : Bytes} : ht < 65536 → PLeaf 79 (be16 ht ++ a) (.clientLLA ht a)
  /-- 87 OPTION_DHCPV4_MSG, RFC 7341 §7.1: a whole DHCPv4 message, with the
  RFC 2131/2132/3396 reading of `Spec.Parses4` (Dhcp/Spec/Wire4.lean) -/
  | dhcpv4Msg {v : Bytes} {p : V4.Pkt4} : Parses4 v p → PLeaf 87 v (.dhcpv4Msg p)
  /-- 88 OPTION_DHCP4_O_DHCP6_SERVER, RFC 7341 §7.2: IPv6 addresses (possibly none) -/
  | dhcp4o6Server {v : Bytes} {ips : List IP} : Addrs v ips → PLeaf 88 v (.dhcp4o6Server ips)
  /-- 98 OPTION_4RD_MAP_RULE, RFC 7600 §4.9: prefix4-len(1) prefix6-len(1)
  ea-len(1) W|reserved(1) rule-ipv4-prefix(4) rule-ipv6-prefix(16); the
  prefix lengths are at most 32 and 128; W is the top bit of the fourth octet.
  -- library deviation: [4rd-ea-len-over-48] ea-len > 48 is read like any other
     value (a value-range rule, not layout); the reserved bits are dropped. -/
  | fourRDMapRule {p4len p6len ea fl : UInt8} {p4 p6 : Bytes} :
      p4len.toNat ≤ 32 → p6len.toNat ≤ 128 → p4.length = 4 → p6.length = 16 →
      PLeaf 98 (p4len :: p6len :: ea :: fl :: (p4 ++ p6))
        (.fourRDMapRule p4len.toNat (some p4) p6len.toNat (some p6) ea (decide (128 ≤ fl.toNat)))
  /-- 99 OPTION_4RD_NON_MAP_RULE, RFC 7600 §4.9: H|0(6)|T (1) traffic-class(1)
  domain-pmtu(2); H is the top bit and T the low bit of the first octet; the
  traffic class is present in the value only when T is set.
  -- library deviation: [4rd-pmtu-under-1280] domain-pmtu < 1280 is read like
     any other value (a value-range rule, not layout). -/
  | fourRDNonMapRule {fl tc : UInt8} {pmtu : Nat} : pmtu < 65536 →
      PLeaf 99 (fl :: tc :: be16 pmtu)
        (.fourRDNonMapRule (decide (128 ≤ fl.toNat))
          (if fl.toNat % 2 = 1 then some tc else none) pmtu)
  /-- 135 OPTION_RELAY_PORT, RFC 8357 §5.2: 2 octets -/
  | relayPort {p : Nat} : p < 65536 → PLeaf 135 (be16 p) (.relayPort p)
  /-- every other code: the payload verbatim.
  -- library deviation: this includes the codes whose RFC layout the library
     does not implement (7 preference = 1 octet, 14 rapid commit = empty,
     12 server unicast = 16 octets, 11 authentication, 19 reconfigure message,
     20 reconfigure accept, 82/83 SOL_MAX_RT/INF_MAX_RT, …): any length is
     accepted for them and the octets are kept opaque. -/
  | generic {c : Nat} {v : Bytes} : c ∉ layoutCodes → PLeaf c v (.generic c v)

end Dhcp.Spec

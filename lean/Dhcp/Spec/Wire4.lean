import Dhcp.V4.Packet
/-
  RFC 2131 §2 / RFC 2132 §2 / RFC 3396 wire grammar of a DHCPv4 packet,
  written declaratively over the byte list.  It plays the role of the
  "independent reference decoder" of C04/C06/C07: no Lexer, no fuel, no
  sticky error — positions and an inductive relation for the options area.
  (It reuses only the value types `Pkt4`/`Opts` of the model.)
-/
namespace Dhcp.Spec
open Dhcp Dhcp.V4

/-- bytes `[i, j)` of `b` -/
def slice (b : Bytes) (i j : Nat) : Bytes := (b.drop i).take (j - i)

/-- A well-formed options run terminated by End: pad bytes and
code/length/value instances (value inside the buffer), then End, then
anything.  Yields the instances in order of appearance. -/
inductive RunEnd : Bytes → List (UInt8 × Bytes) → Prop where
  | fin (tail : Bytes) : RunEnd (255 :: tail) []
  | pad {rest : Bytes} {is : List (UInt8 × Bytes)} : RunEnd rest is → RunEnd (0 :: rest) is
  | opt {rest : Bytes} {is : List (UInt8 × Bytes)} (c len : UInt8) (v : Bytes) :
      c ≠ 0 → c ≠ 255 → v.length = len.toNat → RunEnd rest is →
      RunEnd (c :: len :: (v ++ rest)) ((c, v) :: is)

/-- the options area is empty, or a run terminated by End -/
def Area (a : Bytes) (is : List (UInt8 × Bytes)) : Prop :=
  (a = [] ∧ is = []) ∨ RunEnd a is

/-- RFC 3396: the value of code `c` is the concatenation of its instances in
order of appearance; absent when there is no instance. -/
def valueOf (is : List (UInt8 × Bytes)) (c : UInt8) : Option Bytes :=
  let mine := is.filter (fun i => i.1 = c)
  if mine.isEmpty then none else some (mine.flatMap (·.2))

/-- `b` is a well-formed DHCPv4 packet whose RFC reading is `p`. -/
structure Parses4 (b : Bytes) (p : Pkt4) : Prop where
  len    : 240 ≤ b.length
  cookie : slice b 236 240 = [99, 130, 83, 99]
  op     : [p.op] = slice b 0 1
  htype  : [UInt8.ofNat p.htype] = slice b 1 2 ∧ p.htype < 256
  hw     : p.hw = (slice b 28 44).take (min (beNat (slice b 2 3)) 16)
  hops   : [p.hops] = slice b 3 4
  xid    : p.xid = slice b 4 8
  secs   : p.secs = beNat (slice b 8 10)
  flags  : p.flags = beNat (slice b 10 12)
  ci     : p.ciaddr = some (slice b 12 16)
  yi     : p.yiaddr = some (slice b 16 20)
  si     : p.siaddr = some (slice b 20 24)
  gi     : p.giaddr = some (slice b 24 28)
  sname  : p.sname = (slice b 44 108).takeWhile (· != 0)
  file   : p.file = (slice b 108 236).takeWhile (· != 0)
  opts   : ∃ is, Area (b.drop 240) is ∧ ∀ c, p.opts.f c = valueOf is c

end Dhcp.Spec

import Dhcp.V6.Codec
/-
  Cost measures over the EXISTING pure models (property C09).  Nothing here
  re-implements a decoder: every function below is a plain structural measure
  of a decoded value (and, for `work6`, of the input length).

  * `size4`, `sizeOpt`/`sizeOpts`/`size6`, `sizeLabels`: bytes retained by a
    decoded value = payload bytes of every variable-length leaf + the fixed
    constant `nodeC` for every node (option struct, list item, map entry,
    label string, the message itself).  Fixed-width fields (durations, codes,
    enterprise numbers, flags) live inside the node constant.  A label set
    counts its private copy of the wire bytes (`original`) and every name.
  * `depth6`: nesting depth of option lists — the top-level list is level 1;
    IA_NA / IA_TA / IA_PD / IAAddr / IAPrefix / 4RD add one level for their
    inner list, a relay-message option adds the levels of the message it
    carries, vendor-opts and NTP add one level for their sub-options.
  * `nest6`: Σ over every option at every level of the length of its encoded
    value — what `ToBytes` writes: each option value is built in its own
    buffer and then copied into the buffer of the enclosing list, so a byte is
    written once per enclosing level.
  * `work6 m b = |b|·(depth6 m + c1) + c2·size6 m`: the allocation envelope
    the C09 work theorem is about (see DhcpProofs/Props/C09.lean for how it
    relates to what the Go code allocates).
-/
namespace Dhcp.Cost
open Dhcp Dhcp.V6

/-- fixed per-node constant (Go: struct + slice/string/interface headers) -/
def nodeC : Nat := 32

/-- a possibly nil byte slice (net.IP) held in a fixed field -/
def szIP (ip : Option Bytes) : Nat := (ip.getD []).length

/-- a list of byte strings: one node per item -/
def szItems : List Bytes → Nat
  | [] => 0
  | x :: xs => nodeC + x.length + szItems xs

/-- a list of possibly-nil IPs: one node per item -/
def szIPs : List (Option Bytes) → Nat
  | [] => 0
  | x :: xs => nodeC + szIP x + szIPs xs

/-- `rfc1035label.Labels`: private copy of the wire form + every name -/
def sizeLabels (l : Label.Labels) : Nat :=
  nodeC + (l.original.getD []).length + szItems l.labels

/-! ### DHCPv4 -/

/-- one map entry -/
def szEntry : Option Bytes → Nat
  | some v => nodeC + v.length
  | none => 0

def sizeOpts4 (o : V4.Opts) : Nat := (V4.Opts.allCodes.map (fun k => szEntry (o.f k))).sum

def size4 (p : V4.Pkt4) : Nat :=
  nodeC + p.hw.length + p.xid.length + szIP p.ciaddr + szIP p.yiaddr + szIP p.siaddr + szIP p.giaddr
    + p.sname.length + p.file.length + sizeOpts4 p.opts

/-! ### DHCPv6 -/

def sizeDUID : DUID → Nat
  | .llt _ _ a => nodeC + a.length
  | .en _ i => nodeC + i.length
  | .ll _ a => nodeC + a.length
  | .uuid u => nodeC + u.length
  | .opaque _ d => nodeC + d.length

def sizeNTPSub : NTPSub → Nat
  | .srvAddr ip => nodeC + szIP ip
  | .mcAddr ip => nodeC + szIP ip
  | .srvFQDN l => nodeC + sizeLabels l
  | .generic _ d => nodeC + d.length

def sizeNTPSubs : List NTPSub → Nat
  | [] => 0
  | s :: ss => sizeNTPSub s + sizeNTPSubs ss

/-- vendor sub-options `(code, data)` -/
def szVend : List (Nat × Bytes) → Nat
  | [] => 0
  | x :: xs => nodeC + x.2.length + szVend xs

mutual
def sizeOpt : Opt6 → Nat
  | .clientID d => nodeC + sizeDUID d
  | .serverID d => nodeC + sizeDUID d
  | .iana iaid _ _ os => nodeC + iaid.length + sizeOpts os
  | .iata iaid os => nodeC + iaid.length + sizeOpts os
  | .iaaddr ip _ _ os => nodeC + szIP ip + sizeOpts os
  | .oro cs => nodeC + 2 * cs.length
  | .elapsed _ => nodeC
  | .relayMsg m => nodeC + size6 m
  | .status _ m => nodeC + m.length
  | .userClass cls => nodeC + szItems cls
  | .vendorClass _ ds => nodeC + szItems ds
  | .vendorOpts _ os => nodeC + szVend os
  | .interfaceID id => nodeC + id.length
  | .dns ips => nodeC + szIPs ips
  | .domainSearch l => nodeC + sizeLabels l
  | .iapd iaid _ _ os => nodeC + iaid.length + sizeOpts os
  | .iaprefix _ _ pfx os => nodeC + (match pfx with | some (_, ip) => szIP ip | none => 0) + sizeOpts os
  | .infoRefresh _ => nodeC
  | .remoteID _ id => nodeC + id.length
  | .fqdn _ n => nodeC + sizeLabels n
  | .ntp subs => nodeC + sizeNTPSubs subs
  | .bootfileURL u => nodeC + u.length
  | .bootfileParam ps => nodeC + szItems ps
  | .archType as => nodeC + 2 * as.length
  | .nii _ _ _ => nodeC
  | .clientLLA _ a => nodeC + a.length
  | .dhcpv4Msg p => nodeC + size4 p
  | .dhcp4o6Server ips => nodeC + szIPs ips
  | .fourRD os => nodeC + sizeOpts os
  | .fourRDMapRule _ p4 _ p6 _ _ => nodeC + szIP p4 + szIP p6
  | .fourRDNonMapRule _ _ _ => nodeC
  | .relayPort _ => nodeC
  | .generic _ d => nodeC + d.length
def sizeOpts : List Opt6 → Nat
  | [] => 0
  | o :: os => sizeOpt o + sizeOpts os
def size6 : Msg6 → Nat
  | .msg _ xid os => nodeC + xid.length + sizeOpts os
  | .relay _ _ link peer os => nodeC + szIP link + szIP peer + sizeOpts os
end

mutual
def depthOpt : Opt6 → Nat
  | .iana _ _ _ os => 1 + depthOpts os
  | .iata _ os => 1 + depthOpts os
  | .iaaddr _ _ _ os => 1 + depthOpts os
  | .iapd _ _ _ os => 1 + depthOpts os
  | .iaprefix _ _ _ os => 1 + depthOpts os
  | .fourRD os => 1 + depthOpts os
  | .relayMsg m => depth6 m
  | .vendorOpts _ _ => 1
  | .ntp _ => 1
  | .clientID _ => 0 | .serverID _ => 0 | .oro _ => 0 | .elapsed _ => 0 | .status _ _ => 0
  | .userClass _ => 0 | .vendorClass _ _ => 0 | .interfaceID _ => 0 | .dns _ => 0
  | .domainSearch _ => 0 | .infoRefresh _ => 0 | .remoteID _ _ => 0 | .fqdn _ _ => 0
  | .bootfileURL _ => 0 | .bootfileParam _ => 0 | .archType _ => 0 | .nii _ _ _ => 0
  | .clientLLA _ _ => 0 | .dhcpv4Msg _ => 0 | .dhcp4o6Server _ => 0
  | .fourRDMapRule _ _ _ _ _ _ => 0 | .fourRDNonMapRule _ _ _ => 0 | .relayPort _ => 0
  | .generic _ _ => 0
def depthOpts : List Opt6 → Nat
  | [] => 0
  | o :: os => max (depthOpt o) (depthOpts os)
/-- nesting depth of a message; the top-level option list is level 1 -/
def depth6 : Msg6 → Nat
  | .msg _ _ os => 1 + depthOpts os
  | .relay _ _ _ _ os => 1 + depthOpts os
end

mutual
/-- Σ over the option and all options below it of the encoded value length -/
def nestOpt : Opt6 → Nat
  | .iana i a b os => (encOpt (.iana i a b os)).length + nestOpts os
  | .iata i os => (encOpt (.iata i os)).length + nestOpts os
  | .iaaddr i a b os => (encOpt (.iaaddr i a b os)).length + nestOpts os
  | .iapd i a b os => (encOpt (.iapd i a b os)).length + nestOpts os
  | .iaprefix a b p os => (encOpt (.iaprefix a b p os)).length + nestOpts os
  | .fourRD os => (encOpt (.fourRD os)).length + nestOpts os
  | .relayMsg m => nest6 m
  | .clientID d => (encOpt (.clientID d)).length
  | .serverID d => (encOpt (.serverID d)).length
  | .oro x => (encOpt (.oro x)).length
  | .elapsed x => (encOpt (.elapsed x)).length
  | .status x y => (encOpt (.status x y)).length
  | .userClass x => (encOpt (.userClass x)).length
  | .vendorClass x y => (encOpt (.vendorClass x y)).length
  | .vendorOpts x y => 2 * (encOpt (.vendorOpts x y)).length
  | .interfaceID x => (encOpt (.interfaceID x)).length
  | .dns x => (encOpt (.dns x)).length
  | .domainSearch x => (encOpt (.domainSearch x)).length
  | .infoRefresh x => (encOpt (.infoRefresh x)).length
  | .remoteID x y => (encOpt (.remoteID x y)).length
  | .fqdn x y => (encOpt (.fqdn x y)).length
  | .ntp x => 2 * (encOpt (.ntp x)).length
  | .bootfileURL x => (encOpt (.bootfileURL x)).length
  | .bootfileParam x => (encOpt (.bootfileParam x)).length
  | .archType x => (encOpt (.archType x)).length
  | .nii x y z => (encOpt (.nii x y z)).length
  | .clientLLA x y => (encOpt (.clientLLA x y)).length
  | .dhcpv4Msg p => (encOpt (.dhcpv4Msg p)).length
  | .dhcp4o6Server x => (encOpt (.dhcp4o6Server x)).length
  | .fourRDMapRule a b c d e f => (encOpt (.fourRDMapRule a b c d e f)).length
  | .fourRDNonMapRule a b c => (encOpt (.fourRDNonMapRule a b c)).length
  | .relayPort x => (encOpt (.relayPort x)).length
  | .generic c d => (encOpt (.generic c d)).length
def nestOpts : List Opt6 → Nat
  | [] => 0
  | o :: os => 4 + nestOpt o + nestOpts os
/-- bytes written by `ToBytes` of the message, every level's buffer counted -/
def nest6 : Msg6 → Nat
  | .msg t x os => (encMsg (.msg t x os)).length + nestOpts os
  | .relay t h l p os => (encMsg (.relay t h l p os)).length + nestOpts os
end

/-- coefficient of the per-byte linear term of `work6` -/
def c1 : Nat := 8
/-- coefficient of the retained size in `work6` -/
def c2 : Nat := 4

/-- Allocation envelope of decoding `b` to `m` and re-encoding `m`: one copy
of the input per nesting level, a fixed multiple of the input, a fixed
multiple of the retained value. -/
def work6 (m : Msg6) (b : Bytes) : Nat := b.length * (depth6 m + c1) + c2 * size6 m

/-- DHCPv4 has no nesting: the envelope is linear. -/
def work4 (p : V4.Pkt4) (b : Bytes) : Nat := c1 * b.length + c2 * size4 p

end Dhcp.Cost

import Dhcp.V6.Codec
/-
  Cost measures over the EXISTING pure models (property C09).  Nothing here
  re-implements a decoder: every function below is a plain structural measure
  of a decoded value (and, for `work6`, of the input length).

  * `size4`, `sizeOpt`/`sizeOpts`/`size6`, `sizeLabels`: bytes retained by a
    decoded value = payload bytes of every variable-length leaf + the fixed
    constant `nodeC` for every node (option struct, list item, map entry,
    label string, the message itself).  Fixed-width fields (durations, codes,
    enterprise numbers, flags) live inside the node constant.  A label set
    counts its private copy of the wire bytes (`original`) and every name.
  * `depth6`: nesting depth of option lists — the top-level list is level 1;
    IA_NA / IA_TA / IA_PD / IAAddr / IAPrefix / 4RD add one level for their
    inner list, a relay-message option adds the levels of the message it
    carries, vendor-opts and NTP add one level for their sub-options.
  * `nest6`: Σ over every option at every level of the length of its encoded
    value — what `ToBytes` writes: each option value is built in its own
    buffer and then copied into the buffer of the enclosing list, so a byte is
    written once per enclosing level.  Used by the `cost` stream only (the
    fine-grained side of the two-sided fit); `lenNest_fst` in
    DhcpProofs/Lemmas/Cost6.lean shows the lengths are those of `encOpt`.
  * `work6 m b = |b|·(depth6 m + c1) + c2·size6 m`: the allocation envelope
    the C09 work theorem is about (see DhcpProofs/Props/C09.lean for how it
    relates to what the Go code allocates).
-/
namespace Dhcp.Cost
open Dhcp Dhcp.V6

/-- fixed per-node constant (Go: struct + slice/string/interface headers) -/
def nodeC : Nat := 32

/-- a possibly nil byte slice (net.IP) held in a fixed field -/
def szIP (ip : Option Bytes) : Nat := (ip.getD []).length

/-- a list of byte strings: one node per item -/
def szItems : List Bytes → Nat
  | [] => 0
  | x :: xs => nodeC + x.length + szItems xs

/-- a list of possibly-nil IPs: one node per item -/
def szIPs : List (Option Bytes) → Nat
  | [] => 0
  | x :: xs => nodeC + szIP x + szIPs xs

/-- `rfc1035label.Labels`: private copy of the wire form + every name -/
def sizeLabels (l : Label.Labels) : Nat :=
  nodeC + (l.original.getD []).length + szItems l.labels

/-! ### DHCPv4 -/

/-- one map entry -/
def szEntry : Option Bytes → Nat
  | some v => nodeC + v.length
  | none => 0

def sizeOpts4 (o : V4.Opts) : Nat := (V4.Opts.allCodes.map (fun k => szEntry (o.f k))).sum

def size4 (p : V4.Pkt4) : Nat :=
  nodeC + p.hw.length + p.xid.length + szIP p.ciaddr + szIP p.yiaddr + szIP p.siaddr + szIP p.giaddr
    + p.sname.length + p.file.length + sizeOpts4 p.opts

/-! ### DHCPv6 -/

def sizeDUID : DUID → Nat
  | .llt _ _ a => nodeC + a.length
  | .en _ i => nodeC + i.length
  | .ll _ a => nodeC + a.length
  | .uuid u => nodeC + u.length
  | .opaque _ d => nodeC + d.length

def sizeNTPSub : NTPSub → Nat
  | .srvAddr ip => nodeC + szIP ip
  | .mcAddr ip => nodeC + szIP ip
  | .srvFQDN l => nodeC + sizeLabels l
  | .generic _ d => nodeC + d.length

def sizeNTPSubs : List NTPSub → Nat
  | [] => 0
  | s :: ss => sizeNTPSub s + sizeNTPSubs ss

/-- vendor sub-options `(code, data)` -/
def szVend : List (Nat × Bytes) → Nat
  | [] => 0
  | x :: xs => nodeC + x.2.length + szVend xs

mutual
def sizeOpt : Opt6 → Nat
  | .clientID d => nodeC + sizeDUID d
  | .serverID d => nodeC + sizeDUID d
  | .iana iaid _ _ os => nodeC + iaid.length + sizeOpts os
  | .iata iaid os => nodeC + iaid.length + sizeOpts os
  | .iaaddr ip _ _ os => nodeC + szIP ip + sizeOpts os
  | .oro cs => nodeC + 2 * cs.length
  | .elapsed _ => nodeC
  | .relayMsg m => nodeC + size6 m
  | .status _ m => nodeC + m.length
  | .userClass cls => nodeC + szItems cls
  | .vendorClass _ ds => nodeC + szItems ds
  | .vendorOpts _ os => nodeC + szVend os
  | .interfaceID id => nodeC + id.length
  | .dns ips => nodeC + szIPs ips
  | .domainSearch l => nodeC + sizeLabels l
  | .iapd iaid _ _ os => nodeC + iaid.length + sizeOpts os
  | .iaprefix _ _ pfx os => nodeC + (match pfx with | some (_, ip) => szIP ip | none => 0) + sizeOpts os
  | .infoRefresh _ => nodeC
  | .remoteID _ id => nodeC + id.length
  | .fqdn _ n => nodeC + sizeLabels n
  | .ntp subs => nodeC + sizeNTPSubs subs
  | .bootfileURL u => nodeC + u.length
  | .bootfileParam ps => nodeC + szItems ps
  | .archType as => nodeC + 2 * as.length
  | .nii _ _ _ => nodeC
  | .clientLLA _ a => nodeC + a.length
  | .dhcpv4Msg p => nodeC + size4 p
  | .dhcp4o6Server ips => nodeC + szIPs ips
  | .fourRD os => nodeC + sizeOpts os
  | .fourRDMapRule _ p4 _ p6 _ _ => nodeC + szIP p4 + szIP p6
  | .fourRDNonMapRule _ _ _ => nodeC
  | .relayPort _ => nodeC
  | .generic _ d => nodeC + d.length
def sizeOpts : List Opt6 → Nat
  | [] => 0
  | o :: os => sizeOpt o + sizeOpts os
def size6 : Msg6 → Nat
  | .msg _ xid os => nodeC + xid.length + sizeOpts os
  | .relay _ _ link peer os => nodeC + szIP link + szIP peer + sizeOpts os
end

mutual
def depthOpt : Opt6 → Nat
  | .iana _ _ _ os => 1 + depthOpts os
  | .iata _ os => 1 + depthOpts os
  | .iaaddr _ _ _ os => 1 + depthOpts os
  | .iapd _ _ _ os => 1 + depthOpts os
  | .iaprefix _ _ _ os => 1 + depthOpts os
  | .fourRD os => 1 + depthOpts os
  | .relayMsg m => depth6 m
  | .vendorOpts _ _ => 1
  | .ntp _ => 1
  | .clientID _ => 0 | .serverID _ => 0 | .oro _ => 0 | .elapsed _ => 0 | .status _ _ => 0
  | .userClass _ => 0 | .vendorClass _ _ => 0 | .interfaceID _ => 0 | .dns _ => 0
  | .domainSearch _ => 0 | .infoRefresh _ => 0 | .remoteID _ _ => 0 | .fqdn _ _ => 0
  | .bootfileURL _ => 0 | .bootfileParam _ => 0 | .archType _ => 0 | .nii _ _ _ => 0
  | .clientLLA _ _ => 0 | .dhcpv4Msg _ => 0 | .dhcp4o6Server _ => 0
  | .fourRDMapRule _ _ _ _ _ _ => 0 | .fourRDNonMapRule _ _ _ => 0 | .relayPort _ => 0
  | .generic _ _ => 0
def depthOpts : List Opt6 → Nat
  | [] => 0
  | o :: os => max (depthOpt o) (depthOpts os)
/-- nesting depth of a message; the top-level option list is level 1 -/
def depth6 : Msg6 → Nat
  | .msg _ _ os => 1 + depthOpts os
  | .relay _ _ _ _ os => 1 + depthOpts os
end

mutual
/-- `(encoded value length, Σ over the option and every option below it of the
encoded value length)`, in one pass: the length of an option that carries an
option list is its fixed part plus the lengths of the options in the list
(4-byte header each); leaves are measured on their encoding. -/
def lenNestOpt : Opt6 → Nat × Nat
  | .iana _ _ _ os => let r := lenNestOpts os; (12 + r.1, 12 + r.1 + r.2)
  | .iata _ os => let r := lenNestOpts os; (4 + r.1, 4 + r.1 + r.2)
  | .iaaddr _ _ _ os => let r := lenNestOpts os; (24 + r.1, 24 + r.1 + r.2)
  | .iapd _ _ _ os => let r := lenNestOpts os; (12 + r.1, 12 + r.1 + r.2)
  | .iaprefix _ _ _ os => let r := lenNestOpts os; (25 + r.1, 25 + r.1 + r.2)
  | .fourRD os => let r := lenNestOpts os; (r.1, r.1 + r.2)
  | .relayMsg m => lenNest6 m
  | .clientID d => let l := (encOpt (.clientID d)).length; (l, l)
  | .serverID d => let l := (encOpt (.serverID d)).length; (l, l)
  | .oro x => let l := (encOpt (.oro x)).length; (l, l)
  | .elapsed x => let l := (encOpt (.elapsed x)).length; (l, l)
  | .status x y => let l := (encOpt (.status x y)).length; (l, l)
  | .userClass x => let l := (encOpt (.userClass x)).length; (l, l)
  | .vendorClass x y => let l := (encOpt (.vendorClass x y)).length; (l, l)
  | .vendorOpts x y => let l := (encOpt (.vendorOpts x y)).length; (l, 2 * l)
  | .interfaceID x => let l := (encOpt (.interfaceID x)).length; (l, l)
  | .dns x => let l := (encOpt (.dns x)).length; (l, l)
  | .domainSearch x => let l := (encOpt (.domainSearch x)).length; (l, l)
  | .infoRefresh x => let l := (encOpt (.infoRefresh x)).length; (l, l)
  | .remoteID x y => let l := (encOpt (.remoteID x y)).length; (l, l)
  | .fqdn x y => let l := (encOpt (.fqdn x y)).length; (l, l)
  | .ntp x => let l := (encOpt (.ntp x)).length; (l, 2 * l)
  | .bootfileURL x => let l := (encOpt (.bootfileURL x)).length; (l, l)
  | .bootfileParam x => let l := (encOpt (.bootfileParam x)).length; (l, l)
  | .archType x => let l := (encOpt (.archType x)).length; (l, l)
  | .nii x y z => let l := (encOpt (.nii x y z)).length; (l, l)
  | .clientLLA x y => let l := (encOpt (.clientLLA x y)).length; (l, l)
  | .dhcpv4Msg p => let l := (encOpt (.dhcpv4Msg p)).length; (l, l)
  | .dhcp4o6Server x => let l := (encOpt (.dhcp4o6Server x)).length; (l, l)
  | .fourRDMapRule a b c d e f => let l := (encOpt (.fourRDMapRule a b c d e f)).length; (l, l)
  | .fourRDNonMapRule a b c => let l := (encOpt (.fourRDNonMapRule a b c)).length; (l, l)
  | .relayPort x => let l := (encOpt (.relayPort x)).length; (l, l)
  | .generic c d => let l := (encOpt (.generic c d)).length; (l, l)
def lenNestOpts : List Opt6 → Nat × Nat
  | [] => (0, 0)
  | o :: os =>
    let a := lenNestOpt o
    let b := lenNestOpts os
    (4 + a.1 + b.1, 4 + a.2 + b.2)
def lenNest6 : Msg6 → Nat × Nat
  | .msg _ _ os => let r := lenNestOpts os; (4 + r.1, 4 + r.1 + r.2)
  | .relay _ _ _ _ os => let r := lenNestOpts os; (34 + r.1, 34 + r.1 + r.2)
end

/-- bytes written by `ToBytes` of the message, every level's buffer counted -/
def nest6 (m : Msg6) : Nat := (lenNest6 m).2
def nestOpt (o : Opt6) : Nat := (lenNestOpt o).2

/-- coefficient of the per-byte linear term of `work6` -/
def c1 : Nat := 8
/-- coefficient of the retained size in `work6` -/
def c2 : Nat := 4

/-- Allocation envelope of decoding `b` to `m` and re-encoding `m`: one copy
of the input per nesting level, a fixed multiple of the input, a fixed
multiple of the retained value. -/
def work6 (m : Msg6) (b : Bytes) : Nat := b.length * (depth6 m + c1) + c2 * size6 m

/-- DHCPv4 has no nesting: the envelope is linear. -/
def work4 (p : V4.Pkt4) (b : Bytes) : Nat := c1 * b.length + c2 * size4 p

end Dhcp.Cost

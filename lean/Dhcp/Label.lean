import Dhcp.Go.Basic
/-
  TEMPORARY model of rfc1035label (to be replaced by the full model with its
  theorems from the C19 work): same API, same state machine.
-/
namespace Dhcp.Label
open Dhcp

structure Labels where
  original : Option Bytes
  labels : List Bytes
  deriving Repr, DecidableEq

def maxNameLength : Nat := 253

/-- the `for` loop of labelsFromBytes -/
def loop (buf : Bytes) : Nat → (pos oldPos : Nat) → (label : Bytes) → (hp : Bool) → List Bytes → Res (List Bytes)
  | 0, _, _, _, _, _ => .err
  | fuel + 1, pos, oldPos, label, hp, acc =>
    if pos ≥ buf.length then
      if hp then .err
      else .ok (if label ≠ [] then acc ++ [label] else acc)
    else
      let length := (buf.getD pos 0).toNat
      let pos := pos + 1
      if length = 0 then
        let acc := acc ++ [label]
        if hp then loop buf fuel oldPos oldPos [] false acc
        else loop buf fuel pos oldPos [] false acc
      else if length &&& 0xc0 = 0xc0 then
        if hp then .err
        else if pos + 1 > buf.length then .err
        else
          let off := ((buf.getD (pos - 1) 0).toNat &&& 0x3f) * 256 + (buf.getD pos 0).toNat
          loop buf fuel off (pos + 1) label true acc
      else if length &&& 0xc0 ≠ 0 then .err
      else
        if pos + length > buf.length then .err
        else
          let chunk := (buf.drop pos).take length
          let label := (if label ≠ [] then label ++ [46] else label) ++ chunk
          if label.length > maxNameLength then .err
          else loop buf fuel (pos + length) oldPos label hp acc

def labelsFromBytes (buf : Bytes) : Res (List Bytes) :=
  loop buf ((buf.length + 2) * (buf.length + 2)) 0 0 [] false []

/-- strings.Split(label, ".") -/
def splitDots (s : Bytes) : List Bytes :=
  let r := s.foldl (fun (acc : List Bytes × Bytes) b =>
    if b = 46 then (acc.1 ++ [acc.2], []) else (acc.1, acc.2 ++ [b])) ([], [])
  r.1 ++ [r.2]

def labelToBytes (label : Bytes) : Bytes :=
  if label.length = 0 then [0]
  else (splitDots label).flatMap (fun part => UInt8.ofNat part.length :: part) ++ [0]

def labelsToBytes (labels : List Bytes) : Bytes := labels.flatMap labelToBytes

def fromBytes (data : Bytes) : Res Labels :=
  match labelsFromBytes data with
  | .ok labs => .ok { original := some data, labels := labs }
  | .err => .err
  | .panic => .panic

def Labels.toBytes (l : Labels) : Bytes :=
  match labelsFromBytes (l.original.getD []) with
  | .ok orig =>
    if l.original.isSome && orig == l.labels then l.original.getD []
    else labelsToBytes l.labels
  | _ => l.original.getD []

end Dhcp.Label

import Dhcp.Go.Basic
/-
  Model of `github.com/insomniacslk/dhcp/rfc1035label` (label.go):
  `labelsFromBytes` (the pos/oldPos/label/handlingPointer state machine),
  `labelToBytes`, `labelsToBytes`, and `Labels` with `FromBytes`/`ToBytes`.

  Names are Go strings = byte lists (`Bytes`); no UTF-8 interpretation takes
  place anywhere in label.go.  The model renders what the code DOES:
    * a label is appended to the current name with a '.' in between, so a wire
      label that itself contains the byte 0x2e is indistinguishable afterwards
      from two labels;
    * a zero octet closes the current name even when it is empty (the root
      name "" is a name like any other: `00` decodes to [""]);
    * `byte(len(part))` in `labelToBytes` truncates modulo 256;
    * `strings.Split(label, ".")` yields empty parts for "a..b", ".a", "a.".
  Every Go index / slice expression is guarded: an out-of-range access makes
  the step return `Res.panic` (theorem `C19_no_panic` shows none is reachable).
  The `for { … }` loop runs on structural fuel; running out of fuel is reported
  as `none` by `loop` (theorem `C19_terminates` shows it does not happen with
  `fuelFor buf`).
-/
namespace Dhcp.Label
open Dhcp

/-- `maxNameLength` (label.go): longest dotted name accepted by the decoder. -/
def maxNameLength : Nat := 253

/-- Go `buf[lo:hi]` on a slice whose capacity is taken to be its length:
`none` = "slice bounds out of range" panic. -/
def slice? (buf : Bytes) (lo hi : Nat) : Option Bytes :=
  if lo ≤ hi ∧ hi ≤ buf.length then some ((buf.drop lo).take (hi - lo)) else none

/-- Local variables of `labelsFromBytes`. -/
structure St where
  pos    : Nat
  oldPos : Nat
  label  : Bytes          -- `label string`
  hp     : Bool           -- `handlingPointer`
  labels : List Bytes     -- `labels []string`

/-- One iteration of the `for` loop either returns or continues. -/
inductive Step where
  | done (r : Res (List Bytes))
  | next (s : St)

/-- One iteration of the `for { … }` loop of `labelsFromBytes`. -/
def step (buf : Bytes) (s : St) : Step :=
  if s.pos ≥ buf.length then
    if s.hp then .done .err                       -- pointer target not terminated inside the buffer
    else if s.label ≠ [] then .done (.ok (s.labels ++ [s.label]))   -- RFC 4704 partial name
    else .done (.ok s.labels)
  else
    match buf[s.pos]? with                        -- buf[pos]
    | none => .done .panic
    | some b =>
      let length := b.toNat                       -- int(buf[pos])
      let pos := s.pos + 1                        -- pos++
      if length = 0 then
        if s.hp then
          .next { s with pos := s.oldPos, hp := false, label := [], labels := s.labels ++ [s.label] }
        else
          .next { s with pos := pos, label := [], labels := s.labels ++ [s.label] }
      else if length &&& 0xc0 = 0xc0 then
        if s.hp then .done .err                   -- nested pointer
        else if pos + 1 > buf.length then .done .err
        else
          match buf[pos - 1]?, buf[pos]? with     -- buf[pos-1], buf[pos]
          | some b0, some b1 =>
            -- int(buf[pos-1]&^0xc0)<<8 + int(buf[pos])
            let off := (b0 &&& 0x3f).toNat * 256 + b1.toNat
            .next { s with pos := off, oldPos := pos + 1, hp := true }
          | _, _ => .done .panic
      else if length &&& 0xc0 ≠ 0 then .done .err -- reserved 01 / 10
      else if pos + length > buf.length then .done .err
      else
        match slice? buf pos (pos + length) with  -- buf[pos : pos+length]
        | none => .done .panic
        | some chunk =>
          let label := if s.label ≠ [] then s.label ++ [46] ++ chunk else s.label ++ chunk
          if label.length > maxNameLength then .done .err
          else .next { s with pos := pos + length, label := label }

/-- The loop on structural fuel; `none` = fuel exhausted. -/
def loop (buf : Bytes) : Nat → St → Option (Res (List Bytes))
  | 0, _ => none
  | fuel + 1, s =>
    match step buf s with
    | .done r => some r
    | .next s' => loop buf fuel s'

/-- Enough iterations for any buffer: outside a pointer the main position
strictly grows; one pointer excursion takes at most `len + 1` iterations. -/
def fuelFor (buf : Bytes) : Nat := (buf.length + 2) * (buf.length + 2)

def init : St := { pos := 0, oldPos := 0, label := [], hp := false, labels := [] }

/-- `labelsFromBytes(buf)`: `ok names` / `err` / `panic`.  Running out of fuel
(non-termination) is mapped to `panic`; it is unreachable. -/
def labelsFromBytes (buf : Bytes) : Res (List Bytes) :=
  match loop buf (fuelFor buf) init with
  | some r => r
  | none => .panic

/-! ### Encoding -/

/-- `strings.Split(s, ".")` on bytes: `cur` is the part being collected. -/
def splitAux (cur : Bytes) : Bytes → List Bytes
  | [] => [cur]
  | b :: t => if b = 46 then cur :: splitAux [] t else splitAux (cur ++ [b]) t

def splitDot (s : Bytes) : List Bytes := splitAux [] s

/-- `labelToBytes(label)` -/
def labelToBytes (label : Bytes) : Bytes :=
  if label.length = 0 then [0]
  else (splitDot label).flatMap (fun part => UInt8.ofNat part.length :: part) ++ [0]

/-- `labelsToBytes(labels)` -/
def labelsToBytes (labels : List Bytes) : Bytes := labels.flatMap labelToBytes

/-! ### `Labels` -/

/-- `rfc1035label.Labels`: `original = none` is the nil slice. -/
structure Labels where
  original : Option Bytes
  labels   : List Bytes
  deriving DecidableEq, Repr

/-- `NewLabels()` -/
def Labels.new : Labels := { original := none, labels := [] }

/-- bytes of a possibly-nil Go slice (`len(nil) = 0`) -/
def goBytes : Option Bytes → Bytes
  | none => []
  | some b => b

/-- `(*Labels).FromBytes(data)` / `FromBytes(data)`; `bytes.Clone` keeps
nil-ness. -/
def Labels.fromBytes (data : Option Bytes) : Res Labels :=
  match labelsFromBytes (goBytes data) with
  | .ok labs => .ok { original := data, labels := labs }
  | .err => .err
  | .panic => .panic

/-- `(*Labels).ToBytes()`, panic-aware: a panic of the inner
`labelsFromBytes` would propagate (theorem `C19_toBytes_total`: it never does,
and the result is `.ok l.toBytes`). -/
def Labels.toBytesR (l : Labels) : Res Bytes :=
  match labelsFromBytes (goBytes l.original) with
  | .panic => .panic
  | .err => .ok (goBytes l.original)
  | .ok originalLabels =>
    if l.original ≠ none ∧ originalLabels = l.labels then .ok (goBytes l.original)
    else .ok (labelsToBytes l.labels)

/-- `(*Labels).ToBytes()` as a plain function (for the codecs that embed label
sets): re-parse `original`; if that fails, or `original` is non-nil and its
names are still `labels`, return `original`; otherwise encode `labels`.
`toBytesR l = .ok (toBytes l)` for every `l` (`C19_toBytes_total`). -/
def Labels.toBytes (l : Labels) : Bytes :=
  match labelsFromBytes (goBytes l.original) with
  | .ok originalLabels =>
    if l.original ≠ none ∧ originalLabels = l.labels then goBytes l.original
    else labelsToBytes l.labels
  | _ => goBytes l.original

/-- `rfc1035label.FromBytes(data)` on a non-nil slice. -/
def fromBytes (data : Bytes) : Res Labels := Labels.fromBytes (some data)

end Dhcp.Label

/-
  C20 — reading or printing never changes a value.

  A purely functional model cannot mutate anything, so "reads do not write"
  would be vacuous in it.  Read operations are therefore STATE-PASSING: running
  an operation on a receiver returns its output AND the receiver afterwards.
  What the receiver is afterwards is decided by the regenerated effect table
  (`Gen.readMethodEffects`, extract/effects.go: does the Go method, transitively,
  write through its receiver?):

    * table says `false`  ->  the receiver is returned as it was;
    * table says `true`   ->  the receiver is passed through `scramble`, an
      ARBITRARY function of the model's world (an in-place sort, a field
      assignment, a map delete, an append into shared capacity, ...).

  Nothing is assumed about `Val`, `Out`, `result`, `scramble`: the theorems in
  DhcpProofs/Props/C20.lean hold for every world, and the non-vacuity theorems
  exhibit worlds in which a `true` entry does change the encoding.
-/
namespace Dhcp.ReadOnly

/-- A read operation, named like the Go method: `"dhcpv4.OptionCodeList.String"`. -/
structure ReadOp where
  name : String
deriving DecidableEq, Repr

/-- What the code does, abstractly: the value a method returns when run on a
    receiver, and what its writes (if it has any) turn the receiver into. -/
structure World (Val Out : Type) where
  result   : ReadOp → Val → Out
  scramble : ReadOp → Val → Val

variable {Val Out : Type}

/-- One call: the output and the receiver afterwards. -/
def read (effects : String → Bool) (w : World Val Out) (op : ReadOp) (v : Val) : Out × Val :=
  (w.result op v, if effects op.name then w.scramble op v else v)

/-- A sequence of calls on the same receiver, in order: all outputs and the final receiver. -/
def runReads (effects : String → Bool) (w : World Val Out) : Val → List ReadOp → List Out × Val
  | v, [] => ([], v)
  | v, op :: ops =>
    let r := read effects w op v
    let rest := runReads effects w r.2 ops
    (r.1 :: rest.1, rest.2)

/-- The effect function of a regenerated table; a method the table does not
    list is taken to write (nothing is read-only by omission). -/
def effectsOf (table : List (String × Bool)) (name : String) : Bool :=
  match table.lookup name with
  | some b => b
  | none => true

/-- In-place ascending sort (what `sort.Slice(ol, …)` did to the receiver of
    `OptionCodeList.String` before the fix); structural, so that it computes in proofs. -/
def insertSorted (x : Nat) : List Nat → List Nat
  | [] => [x]
  | y :: ys => if x ≤ y then x :: y :: ys else y :: insertSorted x ys

def isort : List Nat → List Nat
  | [] => []
  | x :: xs => insertSorted x (isort xs)

end Dhcp.ReadOnly

import Dhcp.V4.Packet
import Dhcp.V6.Codec
/-
  Model of the two serving loops, `(*server4.Server).Serve`
  (dhcpv4/server4/server.go) and `(*server6.Server).Serve`
  (dhcpv6/server6/server.go):

      defer s.Close()
      for {
          rbuf := make([]byte, 4096)
          n, peer, err := s.conn.ReadFrom(rbuf)
          if err != nil { return err }
          m, err := FromBytes(rbuf[:n])
          if err != nil { continue }
          // server4 only:
          upeer, ok := peer.(*net.UDPAddr)
          if !ok { continue }
          if upeer.IP == nil || upeer.IP.To4().Equal(net.IPv4zero) {
              upeer = &net.UDPAddr{IP: net.IPv4bcast, Port: upeer.Port}
          }
          go s.Handler(s.conn, upeer, m)
      }

  The socket is a list of read results; the output is the list of handler
  invocations (in the order of the `go` statements) and the way the loop
  ended.  The model is parametric in the decoder and in the peer rule so that
  the same fold serves DHCPv4 (`dec4`, `peer4`) and DHCPv6 (`dec6`, `peer6`).
-/
namespace Dhcp.Server
open Dhcp

/-- `make([]byte, 4096)`: at most this many bytes of a datagram reach the
decoder (`rbuf[:n]`, `n ≤ len(rbuf)`); a longer datagram is cut by the read. -/
def readBufLen : Nat := 4096

/-- `net.IPv4bcast` = `net.IPv4(255,255,255,255)` (the 16-byte form). -/
def ipv4bcast : Bytes := zeros 10 ++ [255, 255, 255, 255, 255, 255]
/-- `net.IPv4zero` as the 4 bytes `Equal` compares against. -/
def ipv4zero4 : Bytes := [0, 0, 0, 0]

/-- The `net.Addr` returned by `ReadFrom`, as far as the loops look at it. -/
inductive Peer where
  /-- a non-nil `*net.UDPAddr`; `ip = none` is the nil slice -/
  | udp (ip : Option Bytes) (port : Nat) (zone : Bytes)
  /-- the interface holds a nil `*net.UDPAddr` (no real socket returns this) -/
  | udpNilPtr
  /-- any other dynamic type (`*net.IPAddr`, `*net.UnixAddr`, …), told apart by `id` -/
  | other (id : Nat)
  /-- the nil interface -/
  | nilAddr
  deriving DecidableEq, Repr, Inhabited

inductive ReadResult where
  /-- `ReadFrom` delivered a datagram (possibly empty) from `peer` -/
  | datagram (bytes : Bytes) (peer : Peer)
  /-- `ReadFrom` returned an error (socket failure, or the server was closed) -/
  | readError
  deriving DecidableEq, Repr, Inhabited

def ReadResult.isDatagram : ReadResult → Bool
  | .datagram _ _ => true
  | .readError => false

/-- How the loop ended. -/
inductive Exit where
  /-- `Serve` returned the read error (after the deferred `Close`) -/
  | returned
  /-- `Serve` panicked (nil `*net.UDPAddr` dereferenced in server4) -/
  | panicked
  /-- the list of read results is exhausted: `Serve` is still blocked in `ReadFrom` -/
  | blocked
  deriving DecidableEq, Repr, Inhabited

/-- One `go s.Handler(s.conn, peer, msg)`; `idx` is the position of the
datagram in the sequence of reads. -/
structure Invocation (α : Type) where
  idx : Nat
  msg : α
  peer : Peer

structure Outcome (α : Type) where
  invocations : List (Invocation α)
  exit : Exit

/-- `upeer.IP.To4().Equal(net.IPv4zero)` for a non-nil `IP`. -/
def isZero4 (ip : Bytes) : Bool := V4.to4 ip == some ipv4zero4

/-- server4: the peer handed to the handler.  `.err` = "Not a UDP connection?"
(logged, `continue`, no invocation); `.panic` = the checked type assertion
succeeds on a nil `*net.UDPAddr` and `upeer.IP` dereferences it. -/
def peer4 : Peer → Res Peer
  | .udp none port _ => .ok (.udp (some ipv4bcast) port [])
  | .udp (some ip) port zone =>
    if isZero4 ip then .ok (.udp (some ipv4bcast) port []) else .ok (.udp (some ip) port zone)
  | .udpNilPtr => .panic
  | .other _ => .err
  | .nilAddr => .err

/-- server6: the peer is passed on untouched, whatever it is. -/
def peer6 (p : Peer) : Res Peer := .ok p

/-- What one iteration of the loop does with one read result. -/
inductive Step (α : Type) where
  | invoke (m : α) (p : Peer)
  | skip
  | stop (e : Exit)

section
variable {α : Type} (dec : Bytes → Option α) (rule : Peer → Res Peer)

def step : ReadResult → Step α
  | .readError => .stop .returned
  | .datagram b p =>
    match dec (b.take readBufLen) with
    | none => .skip
    | some m =>
      match rule p with
      | .ok p' => .invoke m p'
      | .err => .skip
      | .panic => .stop .panicked

/-- the loop, started at read number `i` -/
def serveFrom : Nat → List ReadResult → Outcome α
  | _, [] => ⟨[], .blocked⟩
  | i, r :: rest =>
    match step dec rule r with
    | .stop e => ⟨[], e⟩
    | .skip => serveFrom (i + 1) rest
    | .invoke m p =>
      let o := serveFrom (i + 1) rest
      ⟨⟨i, m, p⟩ :: o.invocations, o.exit⟩

def serve (rs : List ReadResult) : Outcome α := serveFrom dec rule 0 rs

/-- Specification vocabulary (not used by the loop): the handler call that
read result `r`, read at position `i`, is entitled to — its own decoding and
its own sender, nothing else. -/
def handlerCall (r : ReadResult) (i : Nat) : Option (Invocation α) :=
  match r with
  | .readError => none
  | .datagram b p =>
    match dec (b.take readBufLen), rule p with
    | some m, .ok p' => some ⟨i, m, p'⟩
    | _, _ => none

/-- what the handler saw, without the position -/
def Outcome.calls (o : Outcome α) : List (α × Peer) := o.invocations.map (fun v => (v.msg, v.peer))
end

/-- `dhcpv4.FromBytes` as an acceptance function (`dec4` never panics:
`DhcpProofs.Lemmas.Server.dec4_ne_panic`). -/
def decode4 (b : Bytes) : Option V4.Pkt4 := (V4.dec4 b).toOption

/-- `(*server4.Server).Serve` -/
def serve4 (rs : List ReadResult) : Outcome V4.Pkt4 := serve decode4 peer4 rs

/-- `(*server6.Server).Serve`, for a given model of `dhcpv6.FromBytes`. -/
def serve6 {α : Type} (dec6 : Bytes → Option α) (rs : List ReadResult) : Outcome α :=
  serve dec6 peer6 rs

/-- `dhcpv6.FromBytes` as an acceptance function (`dec6` never panics:
`Dhcp.V6.dec6_ne_panic`). -/
def decode6 (b : Bytes) : Option V6.Msg6 := (V6.dec6 b).toOption

/-- `(*server6.Server).Serve` with the DHCPv6 codec model as decoder -/
def serve6dec (rs : List ReadResult) : Outcome V6.Msg6 := serve6 decode6 rs

end Dhcp.Server

import Dhcp.V6.Build
import Dhcp.V6.Observe
/-
  The typed accessors of the DHCPv6 option sets that `Build.lean` and
  `Observe.lean` do not already model, so that EVERY accessor method of
  `MessageOptions`, `RelayOptions`, `IdentityOptions`, `AddressOptions`,
  `PDOptions`, `PrefixOptions` and `FourRDOptions` (dhcpv6message.go,
  dhcpv6relay.go, option_nontemporaryaddress.go, option_iaaddress.go,
  option_iapd.go, option_iaprefix.go, option_4rd.go) has a model:

    ArchTypes, FourRD, Status, UserClasses, VendorClasses, VendorClass(en),
    VendorOpts, VendorOpt(en), ElapsedTime, InformationRefreshTime(def), FQDN,
    DHCP4oDHCP6Server, Addresses, OneAddress, Prefixes, MapRules, NonMapRule

  An accessor is `GetOne(code)` / `Get(code)` on the option list followed by a type
  assertion.  Where the Go assertion is UNCHECKED (`opt.(*T)`: ArchTypes,
  Addresses - and ClientID, ServerID, IANA, IATA, IAPD in Build.lean) the model
  returns `Res.panic` for an option of that code with another dynamic type (in the
  model: `Opt6.generic` with a code of the parser table - the one way a value's
  Go type and its `Code()` can disagree without a custom `Option`
  implementation); where it is checked (`v, ok := opt.(*T)`) the documented
  absent value comes back.  Go nil and empty slices are identified.

  `Acc`/`Val`/`runAcc` give all accessors one name space and one result type for
  the line protocol (stream `v6acc`) and for the panic-freedom statement of C03.
-/
namespace Dhcp.V6
open Dhcp

def ocStatusCode : Nat := 13
def ocUserClass : Nat := 15
def ocElapsedTime : Nat := 8
def ocInformationRefreshTime : Nat := 32
def ocClientArchType : Nat := 61
def ocDHCP4oDHCP6Server : Nat := 88
def ocFourRD : Nat := 97
def ocFourRDMapRule : Nat := 98
def ocFourRDNonMapRule : Nat := 99
def ocIAPrefix : Nat := 26

/-- `MessageOptions.ArchTypes()`: unchecked assertion -/
def archTypesOf (os : List Opt6) : Res (List Nat) :=
  match getOne ocClientArchType os with
  | none => .ok []
  | some (.archType as) => .ok as
  | some _ => .panic

/-- `MessageOptions.FourRD()`: every `*Opt4RD` among the options of code 97 -/
def fourRDsOf (os : List Opt6) : List Opt6 :=
  (get ocFourRD os).filter (fun o => match o with | .fourRD _ => true | _ => false)

/-- `Status()` of every option set: the first option of code 13 if it is an
`*OptStatusCode`, else nil -/
def statusOf (os : List Opt6) : Option Opt6 :=
  match getOne ocStatusCode os with
  | some (.status c m) => some (.status c m)
  | _ => none

/-- `MessageOptions.UserClasses()` -/
def userClassesOf (os : List Opt6) : List Bytes :=
  match getOne ocUserClass os with
  | some (.userClass cs) => cs
  | _ => []

/-- `MessageOptions.VendorClasses()` -/
def vendorClassesOf (os : List Opt6) : List Opt6 :=
  (get ocVendorClass os).filter (fun o => match o with | .vendorClass .. => true | _ => false)

/-- `MessageOptions.VendorClass(en)`: data of the first vendor class with that number -/
def vendorClassOf (en : Nat) (os : List Opt6) : List Bytes :=
  match (vendorClassesOf os).find? (fun o => match o with | .vendorClass e _ => e == en | _ => false) with
  | some (.vendorClass _ d) => d
  | _ => []

/-- `MessageOptions.VendorOpts()` -/
def vendorOptsOf (os : List Opt6) : List Opt6 :=
  (get ocVendorOpts os).filter (fun o => match o with | .vendorOpts .. => true | _ => false)

/-- `MessageOptions.VendorOpt(en)`: sub-options of the first vendor option with that number -/
def vendorOptOf (en : Nat) (os : List Opt6) : List (Nat × Bytes) :=
  match (vendorOptsOf os).find? (fun o => match o with | .vendorOpts e _ => e == en | _ => false) with
  | some (.vendorOpts _ subs) => subs
  | _ => []

/-- `MessageOptions.ElapsedTime()` (0 when absent) -/
def elapsedTimeOf (os : List Opt6) : Dur :=
  match getOne ocElapsedTime os with
  | some (.elapsed d) => d
  | _ => 0

/-- `MessageOptions.InformationRefreshTime(def)` -/
def informationRefreshTimeOf (dflt : Dur) (os : List Opt6) : Dur :=
  match getOne ocInformationRefreshTime os with
  | some (.infoRefresh d) => d
  | _ => dflt

/-- `MessageOptions.FQDN()` -/
def fqdnOf (os : List Opt6) : Option Opt6 :=
  match getOne ocFQDN os with
  | some (.fqdn f n) => some (.fqdn f n)
  | _ => none

/-- `MessageOptions.DHCP4oDHCP6Server()` -/
def dhcp4o6ServerOf (os : List Opt6) : Option Opt6 :=
  match getOne ocDHCP4oDHCP6Server os with
  | some (.dhcp4o6Server ips) => some (.dhcp4o6Server ips)
  | _ => none

def Opt6.isIAAddr : Opt6 → Bool
  | .iaaddr .. => true
  | _ => false

/-- `IdentityOptions.Addresses()`: UNCHECKED assertion on every option of code 5 -/
def addressesOf (os : List Opt6) : Res (List Opt6) :=
  let xs := get ocIAAddr os
  if xs.all Opt6.isIAAddr then .ok xs else .panic

/-- `IdentityOptions.OneAddress()` -/
def oneAddressOf (os : List Opt6) : Res (Option Opt6) := (addressesOf os).map List.head?

/-- `PDOptions.Prefixes()` (checked) -/
def prefixesOf (os : List Opt6) : List Opt6 :=
  (get ocIAPrefix os).filter (fun o => match o with | .iaprefix .. => true | _ => false)

/-- `FourRDOptions.MapRules()` (checked) -/
def mapRulesOf (os : List Opt6) : List Opt6 :=
  (get ocFourRDMapRule os).filter (fun o => match o with | .fourRDMapRule .. => true | _ => false)

/-- `FourRDOptions.NonMapRule()` (checked) -/
def nonMapRuleOf (os : List Opt6) : Option Opt6 :=
  match getOne ocFourRDNonMapRule os with
  | some (.fourRDNonMapRule h t p) => some (.fourRDNonMapRule h t p)
  | _ => none

/-- `RelayOptions.RemoteID()` as the option itself -/
def remoteIDOptOf (os : List Opt6) : Option Opt6 :=
  match getOne ocRemoteID os with
  | some (.remoteID en id) => some (.remoteID en id)
  | _ => none

/-- `RelayOptions.ClientLinkLayerAddress()`: (hardware type, address); (0, nil) when absent -/
def clientLLAOf (os : List Opt6) : Nat × Bytes :=
  match getOne ocClientLinkLayerAddr os with
  | some (.clientLLA t a) => (t, a)
  | _ => (0, [])

/-! ### one name space for all accessors -/

/-- the option set an accessor method is defined on -/
inductive SetKind where
  | message | relay | identity | address | pd | pfx | fourRD
  deriving Repr, DecidableEq

/-- every accessor method of the seven option-set types -/
inductive Acc where
  -- MessageOptions
  | archTypes | clientID | serverID | iana | oneIANA | iata | oneIATA | iapd | oneIAPD | fourRD
  | status | requestedOptions | dns | domainSearchList | bootFileURL | bootFileParam
  | userClasses | vendorClasses | vendorClass (en : Nat) | vendorOpts | vendorOpt (en : Nat)
  | elapsedTime | informationRefreshTime (dflt : Dur) | fqdn | dhcp4o6Server | ntpServers
  -- RelayOptions
  | relayMessage | interfaceID | remoteID | clientLinkLayerAddress
  -- IdentityOptions
  | addresses | oneAddress | iaStatus
  -- AddressOptions / PrefixOptions
  | addrStatus | pfxStatus
  -- PDOptions
  | prefixes | pdStatus
  -- FourRDOptions
  | mapRules | nonMapRule
  deriving Repr, DecidableEq

def Acc.kind : Acc → SetKind
  | .relayMessage | .interfaceID | .remoteID | .clientLinkLayerAddress => .relay
  | .addresses | .oneAddress | .iaStatus => .identity
  | .addrStatus => .address
  | .pfxStatus => .pfx
  | .prefixes | .pdStatus => .pd
  | .mapRules | .nonMapRule => .fourRD
  | _ => .message

/-- result of an accessor -/
inductive Val where
  | nil
  | opt (o : Opt6)
  | opts (os : List Opt6)
  | msg (m : Msg6)
  | duid (d : DUID)
  | nats (l : List Nat)
  | ips (l : List IP)
  | strs (l : List Bytes)
  | bytes (b : Bytes)
  | dur (d : Dur)
  | labels (l : Label.Labels)
  | subs (l : List (Nat × Bytes))
  | lla (t : Nat) (a : Bytes)

def Val.ofOpt : Option Opt6 → Val
  | none => .nil
  | some o => .opt o

/-- run accessor `a` on the option list `os` (of the option set `a.kind`) -/
def runAcc (a : Acc) (os : List Opt6) : Res Val :=
  match a with
  | .archTypes => (archTypesOf os).map .nats
  | .clientID => (clientIDOf os).map (fun d => match d with | some d => .duid d | none => .nil)
  | .serverID => (serverIDOf os).map (fun d => match d with | some d => .duid d | none => .nil)
  | .iana => (ianasOf os).map .opts
  | .oneIANA => (oneIANAOf os).map Val.ofOpt
  | .iata => (iatasOf os).map .opts
  | .oneIATA => (oneIATAOf os).map Val.ofOpt
  | .iapd => (iapdsOf os).map .opts
  | .oneIAPD => (oneIAPDOf os).map Val.ofOpt
  | .fourRD => .ok (.opts (fourRDsOf os))
  | .status | .iaStatus | .addrStatus | .pfxStatus | .pdStatus => .ok (Val.ofOpt (statusOf os))
  | .requestedOptions => .ok (.nats (requestedOptionsOf os))
  | .dns => .ok (.ips (dnsOf os))
  | .domainSearchList => .ok (match domainSearchListOf os with | some l => .labels l | none => .nil)
  | .bootFileURL => .ok (.bytes (bootFileURLOf os))
  | .bootFileParam => .ok (.strs (bootFileParamOf os))
  | .userClasses => .ok (.strs (userClassesOf os))
  | .vendorClasses => .ok (.opts (vendorClassesOf os))
  | .vendorClass en => .ok (.strs (vendorClassOf en os))
  | .vendorOpts => .ok (.opts (vendorOptsOf os))
  | .vendorOpt en => .ok (.subs (vendorOptOf en os))
  | .elapsedTime => .ok (.dur (elapsedTimeOf os))
  | .informationRefreshTime d => .ok (.dur (informationRefreshTimeOf d os))
  | .fqdn => .ok (Val.ofOpt (fqdnOf os))
  | .dhcp4o6Server => .ok (Val.ofOpt (dhcp4o6ServerOf os))
  | .ntpServers => .ok (.ips (ntpServersOf os))
  | .relayMessage => .ok (match relayMessageOf os with | some m => .msg m | none => .nil)
  | .interfaceID => .ok (match interfaceIDOf os with | some b => .bytes b | none => .nil)
  | .remoteID => .ok (Val.ofOpt (remoteIDOptOf os))
  | .clientLinkLayerAddress => .ok (let (t, a) := clientLLAOf os; .lla t a)
  | .addresses => (addressesOf os).map .opts
  | .oneAddress => (oneAddressOf os).map Val.ofOpt
  | .prefixes => .ok (.opts (prefixesOf os))
  | .mapRules => .ok (.opts (mapRulesOf os))
  | .nonMapRule => .ok (Val.ofOpt (nonMapRuleOf os))

/-- the nested option set of an option, with its kind -/
def Opt6.subSet : Opt6 → Option (SetKind × List Opt6)
  | .iana _ _ _ os => some (.identity, os)
  | .iata _ os => some (.identity, os)
  | .iaaddr _ _ _ os => some (.address, os)
  | .iapd _ _ _ os => some (.pd, os)
  | .iaprefix _ _ _ os => some (.pfx, os)
  | .fourRD os => some (.fourRD, os)
  | _ => none

/-- the option set reached from a message by a path of option indices -/
def setAt : SetKind × List Opt6 → List Nat → Option (SetKind × List Opt6)
  | s, [] => some s
  | (_, os), i :: rest =>
    match os[i]? with
    | some o =>
      match o.subSet with
      | some s => setAt s rest
      | none => none
    | none => none

def Msg6.rootSet : Msg6 → SetKind × List Opt6
  | .msg _ _ os => (.message, os)
  | .relay _ _ _ _ os => (.relay, os)

/-- accessor `a` on the option set of `m` at `path`; `none` = no such set, or a set of
another kind (the method does not exist there) -/
def accessAt (m : Msg6) (path : List Nat) (a : Acc) : Option (Res Val) :=
  match setAt m.rootSet path with
  | some (k, os) => if k = a.kind then some (runAcc a os) else none
  | none => none

end Dhcp.V6

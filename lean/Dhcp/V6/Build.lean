import Dhcp.V6.Codec
/-
  Model of the DHCPv6 relay encapsulation functions and message builders:
  dhcpv6/dhcpv6.go (EncapsulateRelay, DecapsulateRelay, DecapsulateRelayIndex),
  dhcpv6/dhcpv6relay.go (RelayOptions accessors, GetInnerMessage,
  NewRelayReplFromRelayForw), dhcpv6/dhcpv6message.go (MessageOptions accessors,
  NewAdvertiseFromSolicit, NewRequestFromAdvertise, NewReplyFromMessage),
  dhcpv6/modifiers.go (the With* modifiers in `Mod6`), dhcpv6/iputils.go
  (GetMacAddressFromEUI64, ExtractMAC).

  Conventions.  `Msg6.msg` / `Msg6.relay` are the two dynamic Go types
  `*Message` / `*RelayMessage`; `IsRelay()` is true exactly for the latter, so
  the assertions `l.(*RelayMessage)` / `decap.(*RelayMessage)` that the Go code
  performs after an `IsRelay()` test cannot fail and need no guard.  The
  assertions that CAN fail are the unchecked ones on options found by code
  (`opt.(*optClientID)`, `o.(*OptIANA)`, …): an `OptionGeneric` carrying that
  code makes them panic, and the model returns `Res.panic` there.
  Functions whose Go parameter is `*Message` (resp. `*RelayMessage`) take a
  `Msg6`; the other constructor is not a value of the Go parameter type and is
  answered like the nil pointer (`err`).  A nil `Msg` inside a relay-message
  option and a nil DUID are not values of `Opt6` (decoding never produces them).
-/
namespace Dhcp.V6
open Dhcp

/-! ### message types and option codes used below (types.go) -/

def mtSolicit : UInt8 := 1
def mtAdvertise : UInt8 := 2
def mtRequest : UInt8 := 3
def mtConfirm : UInt8 := 4
def mtRenew : UInt8 := 5
def mtRebind : UInt8 := 6
def mtReply : UInt8 := 7
def mtRelease : UInt8 := 8
def mtInformationRequest : UInt8 := 11

def ocClientID : Nat := 1
def ocServerID : Nat := 2
def ocIANA : Nat := 3
def ocIATA : Nat := 4
def ocORO : Nat := 6
def ocRelayMsg : Nat := 9
def ocRapidCommit : Nat := 14
def ocVendorClass : Nat := 16
def ocInterfaceID : Nat := 18
def ocDNS : Nat := 23
def ocDomainSearchList : Nat := 24
def ocIAPD : Nat := 25
def ocRemoteID : Nat := 37
def ocFQDN : Nat := 39
def ocBootfileURL : Nat := 59
def ocBootfileParam : Nat := 60
def ocClientLinkLayerAddr : Nat := 79

/-! ### `Options.GetOne / Get / Add / Del / Update` and the message-level wrappers -/

/-- `Options.GetOne(code)`: first option with that code -/
def getOne (code : Nat) (os : List Opt6) : Option Opt6 := os.find? (fun o => o.code == code)

/-- `Options.Get(code)`: all options with that code, in order -/
def get (code : Nat) (os : List Opt6) : List Opt6 := os.filter (fun o => o.code == code)

/-- `Options.Update(o)`: replace the first option of the same code, else append -/
def update (o : Opt6) : List Opt6 → List Opt6
  | [] => [o]
  | x :: xs => if x.code == o.code then o :: xs else x :: update o xs

/-- `Options.Del(code)`: every option with that code is dropped, the others keep
their order (the Go loop copies the options whose `Code() != code`) -/
def del (code : Nat) (os : List Opt6) : List Opt6 := os.filter (fun o => o.code != code)

def Msg6.isRelay : Msg6 → Bool
  | .relay .. => true
  | .msg .. => false

def Msg6.typ : Msg6 → UInt8
  | .relay t .. => t
  | .msg t .. => t

def Msg6.opts : Msg6 → List Opt6
  | .relay _ _ _ _ os => os
  | .msg _ _ os => os

/-- `AddOption` -/
def Msg6.addOption (m : Msg6) (o : Opt6) : Msg6 :=
  match m with
  | .relay t h l p os => .relay t h l p (os ++ [o])
  | .msg t x os => .msg t x (os ++ [o])

/-- `UpdateOption` -/
def Msg6.updateOption (m : Msg6) (o : Opt6) : Msg6 :=
  match m with
  | .relay t h l p os => .relay t h l p (update o os)
  | .msg t x os => .msg t x (update o os)

/-- `m.Options.Del(code)` (`Options` is embedded in `MessageOptions` and in
`RelayOptions`, so the method is reachable on both message kinds) -/
def Msg6.delOption (m : Msg6) (code : Nat) : Msg6 :=
  match m with
  | .relay t h l p os => .relay t h l p (del code os)
  | .msg t x os => .msg t x (del code os)

/-! ### RelayOptions accessors (checked type assertions: a wrong dynamic type reads as absent) -/

/-- `RelayOptions.RelayMessage()` -/
def relayMessageOf (os : List Opt6) : Option Msg6 :=
  match getOne ocRelayMsg os with
  | some (.relayMsg m) => some m
  | _ => none

/-- `RelayOptions.InterfaceID()` (nil and absent identified) -/
def interfaceIDOf (os : List Opt6) : Option Bytes :=
  match getOne ocInterfaceID os with
  | some (.interfaceID id) => some id
  | _ => none

/-- `RelayOptions.RemoteID()` -/
def remoteIDOf (os : List Opt6) : Option (Nat × Bytes) :=
  match getOne ocRemoteID os with
  | some (.remoteID en id) => some (en, id)
  | _ => none

/-- `RelayOptions.ClientLinkLayerAddress()`: the address part -/
def clientLinkLayerAddressOf (os : List Opt6) : Option Bytes :=
  match getOne ocClientLinkLayerAddr os with
  | some (.clientLLA _ a) => some a
  | _ => none

/-! ### MessageOptions accessors (UNCHECKED assertions: a wrong dynamic type panics) -/

/-- `MessageOptions.ClientID()` -/
def clientIDOf (os : List Opt6) : Res (Option DUID) :=
  match getOne ocClientID os with
  | none => .ok none
  | some (.clientID d) => .ok (some d)
  | some _ => .panic

/-- `MessageOptions.ServerID()` -/
def serverIDOf (os : List Opt6) : Res (Option DUID) :=
  match getOne ocServerID os with
  | none => .ok none
  | some (.serverID d) => .ok (some d)
  | some _ => .panic

def Opt6.isIANA : Opt6 → Bool
  | .iana .. => true
  | _ => false

def Opt6.isIATA : Opt6 → Bool
  | .iata .. => true
  | _ => false

def Opt6.isIAPD : Opt6 → Bool
  | .iapd .. => true
  | _ => false

/-- `MessageOptions.IANA()`: every option with code 3 is asserted to be `*OptIANA` -/
def ianasOf (os : List Opt6) : Res (List Opt6) :=
  let xs := get ocIANA os
  if xs.all Opt6.isIANA then .ok xs else .panic

/-- `MessageOptions.OneIANA()` -/
def oneIANAOf (os : List Opt6) : Res (Option Opt6) := (ianasOf os).map List.head?

/-- `MessageOptions.IATA()`: every option with code 4 is asserted to be `*OptIATA` -/
def iatasOf (os : List Opt6) : Res (List Opt6) :=
  let xs := get ocIATA os
  if xs.all Opt6.isIATA then .ok xs else .panic

/-- `MessageOptions.OneIATA()` -/
def oneIATAOf (os : List Opt6) : Res (Option Opt6) := (iatasOf os).map List.head?

/-- `MessageOptions.IAPD()` -/
def iapdsOf (os : List Opt6) : Res (List Opt6) :=
  let xs := get ocIAPD os
  if xs.all Opt6.isIAPD then .ok xs else .panic

/-- `MessageOptions.OneIAPD()` -/
def oneIAPDOf (os : List Opt6) : Res (Option Opt6) := (iapdsOf os).map List.head?

/-- `MessageOptions.RequestedOptions()`: all ORO options merged (checked assertion) -/
def requestedOptionsOf (os : List Opt6) : List Nat :=
  (get ocORO os).flatMap (fun o => match o with | .oro cs => cs | _ => [])

/-! ### relay nesting depth (the fuel of the loops below) -/

mutual
/-- relay messages nested through this option -/
def optDepth : Opt6 → Nat
  | .relayMsg m => msgDepth m
  | _ => 0
def optsDepth : List Opt6 → Nat
  | [] => 0
  | o :: os => optDepth o + optsDepth os
/-- number of relay headers reachable from this message through relay-message
options of relay messages (an upper bound on every decapsulation chain) -/
def msgDepth : Msg6 → Nat
  | .msg .. => 0
  | .relay _ _ _ _ os => optsDepth os + 1
end

/-! ### EncapsulateRelay / DecapsulateRelay / DecapsulateRelayIndex / GetInnerMessage -/

/-- `EncapsulateRelay(d, mType, linkAddr, peerAddr)`; `HopCount` is a uint8:
`relay.HopCount + 1` wraps from 255 to 0 -/
def encapsulateRelay (d : Msg6) (t : UInt8) (link peer : IP) : Res Msg6 :=
  if isRelayType t then
    let hops : UInt8 :=
      match d with
      | .relay _ h _ _ _ => h + 1
      | .msg .. => 0
    .ok (.relay t hops link peer [.relayMsg d])
  else .err

/-- `DecapsulateRelay(l)` -/
def decapsulateRelay (l : Msg6) : Res Msg6 :=
  match l with
  | .msg .. => .ok l
  | .relay _ _ _ _ os =>
    match relayMessageOf os with
    | some m => .ok m
    | none => .err

/-- the `index == -1` loop of `DecapsulateRelayIndex`: the innermost RELAY message -/
def lastRelay : Nat → Msg6 → Res Msg6
  | 0, _ => .err
  | fuel + 1, l =>
    match decapsulateRelay l with
    | .ok d => if d.isRelay then lastRelay fuel d else .ok l
    | .err => .err
    | .panic => .panic

/-- the `for i := 0; i <= index; i++` loop of `DecapsulateRelayIndex` (`n = index + 1` rounds) -/
def decapN : Nat → Msg6 → Res Msg6
  | 0, l => .ok l
  | n + 1, l => (decapsulateRelay l).bind (decapN n)

/-- `DecapsulateRelayIndex(l, index)`: 0 = content of the outermost relay, …,
-1 = the innermost relay message itself (not its content) -/
def decapsulateRelayIndex (l : Msg6) (index : Int) : Res Msg6 :=
  if !l.isRelay then .ok l
  else if index < -1 then .err
  else if index = -1 then lastRelay (msgDepth l + 1) l
  else decapN (index.toNat + 1) l

/-- the loop of `(*RelayMessage).GetInnerMessage` -/
def innerLoop : Nat → Msg6 → Res Msg6
  | 0, _ => .err
  | fuel + 1, p =>
    match decapsulateRelay p with
    | .ok d => if d.isRelay then innerLoop fuel d else .ok d
    | .err => .err
    | .panic => .panic

/-- `DHCPv6.GetInnerMessage()` (both receivers) -/
def getInnerMessage (m : Msg6) : Res Msg6 :=
  match m with
  | .msg .. => .ok m
  | .relay .. => innerLoop (msgDepth m + 1) m

/-! ### NewRelayReplFromRelayForw -/

/-- what the first loop records per relay level -/
structure Level where
  link : IP
  peer : IP
  /-- `relay.GetOneOption(OptionInterfaceID)`: the option as found, whatever its type -/
  iid : Option Opt6
  /-- `relay.GetOneOption(OptionRemoteID)` -/
  rid : Option Opt6
  deriving Inhabited

/-- first loop: walk outward-in, one `Level` per relay header (argument = the
fields of the current `relay`) -/
def collectLevels : Nat → IP → IP → List Opt6 → Res (List Level)
  | 0, _, _, _ => .err
  | fuel + 1, link, peer, os =>
    let lv : Level := ⟨link, peer, getOne ocInterfaceID os, getOne ocRemoteID os⟩
    match relayMessageOf os with
    | none => .err
    | some (.relay _ _ l' p' os') => (collectLevels fuel l' p' os').map (lv :: ·)
    | some (.msg ..) => .ok [lv]

def addOpt? (m : Msg6) : Option Opt6 → Msg6
  | none => m
  | some o => m.addOption o

/-- second loop: rebuild inward-out (`levels` is outermost first, so the last
element is wrapped first) -/
def rebuild (msg : Msg6) : List Level → Res Msg6
  | [] => .ok msg
  | lv :: rest =>
    (rebuild msg rest).bind fun m =>
      (encapsulateRelay m relayReply lv.link lv.peer).map fun r => addOpt? (addOpt? r lv.iid) lv.rid

/-- `NewRelayReplFromRelayForw(relay, msg)` -/
def newRelayReplFromRelayForw (relay msg : Msg6) : Res Msg6 :=
  match relay with
  | .msg .. => .err
  | .relay t _ link peer os =>
    if t ≠ relayForward then .err
    else (collectLevels (optsDepth os + 1) link peer os).bind (rebuild msg)

/-! ### modifiers (modifiers.go) -/

/-- an `OptIAAddress` VALUE (the parameter type of `WithIANA` / `WithIATA`) -/
structure IAAddr where
  ip : IP
  pref : Dur
  valid : Dur
  opts : List Opt6

/-- `&addr` as an `Option` -/
def IAAddr.toOpt (a : IAAddr) : Opt6 := .iaaddr a.ip a.pref a.valid a.opts

/-- a non-nil `*OptIAPrefix` (the parameter type of `WithIAPD`) -/
structure IAPfx where
  pref : Dur
  valid : Dur
  pfx : Option (Nat × IP)
  opts : List Opt6

def IAPfx.toOpt (a : IAPfx) : Opt6 := .iaprefix a.pref a.valid a.pfx a.opts

/-- the exported `With*` modifiers of modifiers.go (all eighteen) -/
inductive Mod6 where
  /-- `WithOption(o)` -/
  | option (o : Opt6)
  /-- `WithClientID(duid)` -/
  | clientID (d : DUID)
  /-- `WithServerID(duid)` -/
  | serverID (d : DUID)
  /-- `WithRapidCommit` -/
  | rapidCommit
  /-- `WithUserClass(uc)` -/
  | userClass (uc : Bytes)
  /-- `WithArchType(at)` -/
  | archType (a : Nat)
  /-- `WithIAID(iaid)` -/
  | iaid (id : Bytes)
  /-- `WithDNS(ips...)` -/
  | dns (ips : List IP)
  /-- `WithRequestedOptions(codes...)` -/
  | requestedOptions (codes : List Nat)
  /-- `WithNetboot` -/
  | netboot
  /-- `WithInformationRefreshTime(d)` -/
  | infoRefresh (d : Dur)
  /-- `WithClientLinkLayerAddress(ht, lla)` -/
  | clientLLA (ht : Nat) (addr : Bytes)
  /-- `WithDHCP4oDHCP6Server(addrs...)` -/
  | dhcp4o6Server (ips : List IP)
  /-- `WithFQDN(flags, domainname)`: the option holds a FRESH label set
  (`original = nil`) with the one name -/
  | fqdn (flags : UInt8) (name : Bytes)
  /-- `WithDomainSearchList(names...)`: a fresh label set with the names -/
  | domainSearchList (names : List Bytes)
  /-- `WithIANA(addrs...)` -/
  | ianaAddrs (addrs : List IAAddr)
  /-- `WithIATA(iaid, addrs...)` -/
  | iata (id : Bytes) (addrs : List IAAddr)
  /-- `WithIAPD(iaid, prefixes...)` (non-nil prefixes) -/
  | iapd (id : Bytes) (pfxs : List IAPfx)

/-- `OptionCodes.Add` for each code in turn -/
def addCodes (acc : List Nat) : List Nat → List Nat
  | [] => acc
  | c :: cs => if acc.contains c then addCodes acc cs else addCodes (acc ++ [c]) cs

def withRequestedOptions (m : Msg6) (codes : List Nat) : Msg6 :=
  match m with
  | .relay .. => m
  | .msg _ _ os => m.updateOption (.oro (addCodes (requestedOptionsOf os) codes))

/-- apply one modifier -/
def applyMod (m : Msg6) : Mod6 → Res Msg6
  | .option o => .ok (m.updateOption o)
  | .clientID d => .ok (m.updateOption (.clientID d))
  | .serverID d => .ok (m.updateOption (.serverID d))
  | .rapidCommit => .ok (m.updateOption (.generic ocRapidCommit []))
  | .userClass uc => .ok (m.addOption (.userClass [uc]))
  | .archType a => .ok (m.addOption (.archType [a]))
  | .iaid id =>
    match m with
    | .relay .. => .ok m
    | .msg _ _ os =>
      match oneIANAOf os with
      | .ok none => .ok (m.updateOption (.iana (copyInto 4 id) 0 0 []))
      | .ok (some (.iana _ t1 t2 sub)) => .ok (m.updateOption (.iana (copyInto 4 id) t1 t2 sub))
      | _ => .panic
  | .dns ips => .ok (m.updateOption (.dns ips))
  | .requestedOptions codes => .ok (withRequestedOptions m codes)
  | .netboot => .ok (withRequestedOptions m [ocBootfileURL, ocBootfileParam])
  | .infoRefresh d => .ok (m.updateOption (.infoRefresh d))
  | .clientLLA ht a => .ok (m.updateOption (.clientLLA ht a))
  | .dhcp4o6Server ips => .ok (m.updateOption (.dhcp4o6Server ips))
  | .fqdn f name => .ok (m.updateOption (.fqdn f { original := none, labels := [name] }))
  | .domainSearchList names => .ok (m.updateOption (.domainSearch { original := none, labels := names }))
  | .ianaAddrs addrs =>
    -- `iana := msg.Options.OneIANA()` (unchecked assertions on every code-3
    -- option); `&OptIANA{}` when there is none; the addresses are appended to
    -- its sub-options; `UpdateOption` puts it (back) in first code-3 position
    match m with
    | .relay .. => .ok m
    | .msg _ _ os =>
      match oneIANAOf os with
      | .ok none => .ok (m.updateOption (.iana (zeros 4) 0 0 (addrs.map IAAddr.toOpt)))
      | .ok (some (.iana id t1 t2 sub)) =>
        .ok (m.updateOption (.iana id t1 t2 (sub ++ addrs.map IAAddr.toOpt)))
      | _ => .panic
  | .iata id addrs =>
    match m with
    | .relay .. => .ok m
    | .msg _ _ os =>
      match oneIATAOf os with
      | .ok none => .ok (m.updateOption (.iata (copyInto 4 id) (addrs.map IAAddr.toOpt)))
      | .ok (some (.iata _ sub)) =>
        .ok (m.updateOption (.iata (copyInto 4 id) (sub ++ addrs.map IAAddr.toOpt)))
      | _ => .panic
  | .iapd id pfxs =>
    match m with
    | .relay .. => .ok m
    | .msg _ _ os =>
      match oneIAPDOf os with
      | .ok none => .ok (m.updateOption (.iapd (copyInto 4 id) 0 0 (pfxs.map IAPfx.toOpt)))
      | .ok (some (.iapd _ t1 t2 sub)) =>
        .ok (m.updateOption (.iapd (copyInto 4 id) t1 t2 (sub ++ pfxs.map IAPfx.toOpt)))
      | _ => .panic

/-- `for _, mod := range modifiers { mod(m) }` -/
def applyMods (m : Msg6) : List Mod6 → Res Msg6
  | [] => .ok m
  | md :: rest => (applyMod m md).bind (fun m' => applyMods m' rest)

/-! ### message builders -/

/-- `iana.HWTypeEthernet` -/
def hwTypeEthernet : Nat := 1

/-- `NewSolicit(hwaddr, modifiers...)`; `xid` is the transaction id drawn by
`NewMessage()`, `time` the value of `GetTime()` (seconds since 2000-01-01, the
time field of the DUID-LLT).  The three options are added before the length of
the hardware address is tested; a short address is an error either way.
`WithIAID(last four octets)` runs before the caller's modifiers. -/
def newSolicit (xid : Bytes) (time : Nat) (hw : Bytes) (mods : List Mod6) : Res Msg6 :=
  if hw.length < 4 then .err
  else
    applyMods
      (.msg mtSolicit xid
        [.clientID (.llt hwTypeEthernet time hw), .oro [ocDNS, ocDomainSearchList], .elapsed 0])
      (.iaid (hw.drop (hw.length - 4)) :: mods)

/-- `NewAdvertiseFromSolicit(sol, modifiers...)` -/
def newAdvertiseFromSolicit (sol : Msg6) (mods : List Mod6) : Res Msg6 :=
  match sol with
  | .relay .. => .err
  | .msg t xid os =>
    if t ≠ mtSolicit then .err
    else
      match getOne ocClientID os with
      | none => .err
      | some cid => applyMods (.msg mtAdvertise xid [cid]) mods

/-- `NewRequestFromAdvertise(adv, modifiers...)`; `xid` is the transaction id
drawn by `NewMessage()` -/
def newRequestFromAdvertise (xid : Bytes) (adv : Msg6) (mods : List Mod6) : Res Msg6 :=
  match adv with
  | .relay .. => .err
  | .msg t _ os =>
    if t ≠ mtAdvertise then .err
    else
      match getOne ocClientID os with
      | none => .err
      | some cid =>
        match getOne ocServerID os with
        | none => .err
        | some sid =>
          match oneIANAOf os with
          | .panic => .panic
          | .err => .err
          | .ok none => .err
          | .ok (some iana) =>
            applyMods
              (.msg mtRequest xid
                ([cid, sid, .elapsed 0, iana] ++ (getOne ocIAPD os).toList ++
                  [.oro [ocDNS, ocDomainSearchList]] ++ (getOne ocVendorClass os).toList))
              mods

/-- message types `NewReplyFromMessage` answers without further condition -/
def replyableTypes : List UInt8 :=
  [mtRequest, mtConfirm, mtRenew, mtRebind, mtRelease, mtInformationRequest]

/-- the `switch msg.Type()` of `NewReplyFromMessage`: the modifier list to apply
(`WithRapidCommit` is prepended for a SOLICIT), `none` = error return -/
def replyMods (t : UInt8) (os : List Opt6) (mods : List Mod6) : Option (List Mod6) :=
  if t = mtSolicit then
    (if (getOne ocRapidCommit os).isNone then none else some (Mod6.rapidCommit :: mods))
  else if replyableTypes.contains t then some mods
  else none

/-- `NewReplyFromMessage(msg, modifiers...)` -/
def newReplyFromMessage (msg : Msg6) (mods : List Mod6) : Res Msg6 :=
  match msg with
  | .relay .. => .err
  | .msg t xid os =>
    match replyMods t os mods with
    | none => .err
    | some mods' =>
      match getOne ocClientID os with
      | none => .err
      | some cid => applyMods (.msg mtReply xid [cid]) mods'

/-! ### iputils.go -/

/-- `GetMacAddressFromEUI64(ip)`: `ip.To16() == nil` is tested, then the
ORIGINAL slice is indexed — a 4-byte address passes the test and `ip[11]` panics -/
def getMacAddressFromEUI64 (ip : IP) : Res Bytes :=
  match ip with
  | none => .err
  | some b =>
    if (to16 b).isNone then .err
    else
      match b[11]? with
      | none => .panic
      | some x =>
        if x ≠ 0xff then .err
        else
          match b[12]? with
          | none => .panic
          | some y =>
            if y ≠ 0xfe then .err
            else if b.length < 16 then .panic
            else
              match (b.drop 8).take 3 ++ (b.drop 13).take 3 with
              | m0 :: rest => .ok ((m0 ^^^ 2) :: rest)
              | [] => .panic

/-- `ExtractMAC(packet)` -/
def extractMAC (packet : Msg6) : Res Bytes :=
  let fromDUID (msg : Msg6) : Res Bytes :=
    match msg with
    | .relay .. => .panic
    | .msg _ _ os =>
      match clientIDOf os with
      | .panic => .panic
      | .err => .err
      | .ok none => .err
      | .ok (some (.ll _ a)) => .ok a
      | .ok (some (.llt _ _ a)) => .ok a
      | .ok (some _) => .err
  match packet with
  | .msg .. => fromDUID packet
  | .relay .. =>
    match decapsulateRelayIndex packet (-1) with
    | .err => .err
    | .panic => .panic
    | .ok (.msg ..) => .panic
    | .ok (.relay _ _ _ peer os) =>
      match clientLinkLayerAddressOf os with
      | some mac => .ok mac
      | none =>
        match getMacAddressFromEUI64 peer with
        | .ok mac => .ok mac
        | .panic => .panic
        | .err =>
          match getInnerMessage packet with
          | .ok m => fromDUID m
          | .err => .err
          | .panic => .panic

end Dhcp.V6

import Dhcp.V6.Types
/-
  Model of the DHCPv6 codec: `Options.ToBytes`/`FromBytesWithParser`,
  `ParseOption`, every `option_*.go` ToBytes/FromBytes pair, `duid.go`,
  `Message`/`RelayMessage` ToBytes and `FromBytes`/`MessageFromBytes`/
  `RelayMessageFromBytes` (dhcpv6/*.go).  Decoders are written against the
  Lexer model exactly as the Go code is written against uio.Lexer, sticky error
  included.
-/
namespace Dhcp.V6
open Dhcp

/-! ### helpers from net / time -/

/-- `net.IP.To16` -/
def to16 (ip : Bytes) : Option Bytes :=
  if ip.length = 4 then some (zeros 10 ++ [255, 255] ++ ip)
  else if ip.length = 16 then some ip
  else none

/-- `IP.To16()` on a possibly nil IP -/
def ipTo16 (ip : IP) : Option Bytes := ip.bind to16

/-- `write16(buf, ip)`: nil or non-IP → 16 zero bytes -/
def write16 (ip : IP) : Bytes := (ipTo16 ip).getD (zeros 16)

/-- `buf.WriteBytes(ip.To16())`: nil result writes nothing -/
def writeTo16 (ip : IP) : Bytes := (ipTo16 ip).getD []

def second : Int := 1000000000
def tenMs : Int := 10000000

/-- `time.Duration.Round(m)` for `m > 0` (away from zero on ties); overflow of
int64 is outside the model's domain. -/
def goRound (d m : Int) : Int :=
  let r := Int.tmod d m
  if d < 0 then
    let r := -r
    if r + r < m then d + r else d - m + r
  else
    if r + r < m then d - r else d + m - r

/-- `uint32(d.Round(time.Second) / time.Second)` -/
def durTo32 (d : Dur) : Nat := (Int.emod (Int.tdiv (goRound d second) second) 4294967296).toNat
/-- `uint16(d.Round(10ms) / 10ms)` -/
def durTo16 (d : Dur) : Nat := (Int.emod (Int.tdiv (goRound d tenMs) tenMs) 65536).toNat

def encDur (d : Dur) : Bytes := be32 (durTo32 d)

/-- code/length/value framing of one option -/
def tlv (code : Nat) (v : Bytes) : Bytes := be16 code ++ be16 v.length ++ v

/-- `uint16(len(x))`-prefixed byte strings -/
def lenPref (xs : List Bytes) : Bytes := xs.flatMap (fun x => be16 x.length ++ x)

/-! ### encoding -/

def encDUID : DUID → Bytes
  | .llt ht t a => be16 1 ++ be16 ht ++ be32 t ++ a
  | .en n i => be16 2 ++ be32 n ++ i
  | .ll ht a => be16 3 ++ be16 ht ++ a
  | .uuid u => be16 4 ++ copyInto 16 u
  | .opaque t d => be16 t ++ d

def NTPSub.code : NTPSub → Nat
  | .srvAddr _ => 1 | .mcAddr _ => 2 | .srvFQDN _ => 3 | .generic c _ => c

def encNTPSub : NTPSub → Bytes
  | .srvAddr ip => writeTo16 ip
  | .mcAddr ip => writeTo16 ip
  | .srvFQDN l => l.toBytes
  | .generic _ d => d

/-- bytes `(*DHCPv4).ToBytes` would return (empty if it panics; see `encPanics`) -/
def enc4Bytes (p : V4.Pkt4) : Bytes :=
  match V4.enc4 p with
  | .ok b => b
  | _ => []

/-- prefix-length octet and address of an IAPrefix (`Prefix == nil` writes 17 zero bytes) -/
def encPfx : Option (Nat × IP) → Bytes
  | some (ones, ip) => UInt8.ofNat ones :: write16 ip
  | none => 0 :: zeros 16

mutual
/-- the option's value bytes: its `ToBytes()` -/
def encOpt : Opt6 → Bytes
  | .clientID d => encDUID d
  | .serverID d => encDUID d
  | .iana iaid t1 t2 os => copyInto 4 iaid ++ encDur t1 ++ encDur t2 ++ encOpts os
  | .iata iaid os => copyInto 4 iaid ++ encOpts os
  | .iaaddr ip p v os => write16 ip ++ encDur p ++ encDur v ++ encOpts os
  | .oro cs => cs.flatMap be16
  | .elapsed d => be16 (durTo16 d)
  | .relayMsg m => encMsg m
  | .status c m => be16 c ++ m
  | .userClass cls => lenPref cls
  | .vendorClass en ds => be32 en ++ lenPref ds
  | .vendorOpts en os => be32 en ++ os.flatMap (fun o => tlv o.1 o.2)
  | .interfaceID id => id
  | .dns ips => ips.flatMap writeTo16
  | .domainSearch l => l.toBytes
  | .iapd iaid t1 t2 os => copyInto 4 iaid ++ encDur t1 ++ encDur t2 ++ encOpts os
  | .iaprefix p v pfx os =>
    encDur p ++ encDur v ++ encPfx pfx ++ encOpts os
  | .infoRefresh d => encDur d
  | .remoteID en id => be32 en ++ id
  | .fqdn f n => f :: n.toBytes
  | .ntp subs => subs.flatMap (fun s => tlv s.code (encNTPSub s))
  | .bootfileURL u => u
  | .bootfileParam ps => (ps.filter (fun p => p.length < 65536)).flatMap (fun p => be16 p.length ++ p)
  | .archType as => as.flatMap be16
  | .nii t ma mi => [t, ma, mi]
  | .clientLLA ht a => be16 ht ++ a
  | .dhcpv4Msg p => enc4Bytes p
  | .dhcp4o6Server ips => ips.flatMap writeTo16
  | .fourRD os => encOpts os
  | .fourRDMapRule p4len p4 p6len p6 ea wkp =>
    [UInt8.ofNat p4len, UInt8.ofNat p6len, ea, if wkp then 128 else 0] ++
      ((p4.bind V4.to4).getD (zeros 4)) ++ write16 p6
  | .fourRDNonMapRule hub tc pmtu =>
    [(if hub then 128 else 0) + (if tc.isSome then 1 else 0), tc.getD 0] ++ be16 pmtu
  | .relayPort p => be16 p
  | .generic _ d => d
/-- `Options.ToBytes` -/
def encOpts : List Opt6 → Bytes
  | [] => []
  | o :: os => tlv o.code (encOpt o) ++ encOpts os
/-- `(*Message).ToBytes` / `(*RelayMessage).ToBytes` -/
def encMsg : Msg6 → Bytes
  | .msg t xid os => t :: (copyInto 3 xid ++ encOpts os)
  | .relay t h link peer os => t :: h :: (write16 link ++ write16 peer ++ encOpts os)
end

/-! ### decoding -/

/-- `Options.FromBytesWithParser` for an arbitrary per-option parser -/
def tlvLoop {α : Type} (parse : Nat → Bytes → Res α) : Nat → Lexer → List α → Res (List α)
  | 0, _, _ => .err
  | fuel + 1, l, acc =>
    if l.has 4 then
      let (code, l) := l.read16
      let (len, l) := l.read16
      -- "Consume, but do not Copy"; a short read hands nil to the parser and
      -- leaves the sticky error set
      let (od, l) := l.consume len
      match parse code (od.getD []) with
      | .ok o => tlvLoop parse fuel l (acc ++ [o])
      | .err => .err
      | .panic => .panic
    else if l.finError then .err else .ok acc

def optionsFromBytes {α : Type} (parse : Nat → Bytes → Res α) (data : Bytes) : Res (List α) :=
  if data.length = 0 then .ok []
  else tlvLoop parse (data.length + 1) (Lexer.new data) []

def fin {α : Type} (l : Lexer) (a : α) : Res α := if l.finError then .err else .ok a

def decDur (l : Lexer) : Dur × Lexer :=
  let (t, l) := l.read32
  ((t : Int) * second, l)

def decDUID (data : Bytes) : Res DUID :=
  let l := Lexer.new data
  if !l.has 2 then .err
  else
    let (typ, l) := l.read16
    -- RFC 8415 §11.1: 1..128 octets after the type code
    if l.len < 1 || l.len > 128 then .err
    else if typ = 1 then
      let (ht, l) := l.read16
      let (t, l) := l.read32
      let (a, l) := l.readAll
      fin l (.llt ht t a)
    else if typ = 3 then
      let (ht, l) := l.read16
      let (a, l) := l.readAll
      fin l (.ll ht a)
    else if typ = 2 then
      let (n, l) := l.read32
      let (i, l) := l.readAll
      fin l (.en n i)
    else if typ = 4 then
      if l.data.length ≠ 16 then .err else .ok (.uuid l.data)
    else .ok (.opaque typ l.data)

/-- `for buf.Has(2) { n := Read16(); xs = append(xs, CopyN(n)) }` -/
def lenPrefLoop : Nat → Lexer → List Bytes → List Bytes × Lexer
  | 0, l, acc => (acc, l)
  | fuel + 1, l, acc =>
    if l.has 2 then
      let (n, l) := l.read16
      let (v, l) := l.copyN n
      lenPrefLoop fuel l (acc ++ [v.getD []])
    else (acc, l)

/-- `for buf.Has(2) { xs = append(xs, Read16()) }` -/
def u16Loop : Nat → Lexer → List Nat → List Nat × Lexer
  | 0, l, acc => (acc, l)
  | fuel + 1, l, acc =>
    if l.has 2 then
      let (n, l) := l.read16
      u16Loop fuel l (acc ++ [n])
    else (acc, l)

/-- `for buf.Has(16) { xs = append(xs, CopyN(16)) }` -/
def ip16Loop : Nat → Lexer → List IP → List IP × Lexer
  | 0, l, acc => (acc, l)
  | fuel + 1, l, acc =>
    if l.has 16 then
      let (v, l) := l.copyN 16
      ip16Loop fuel l (acc ++ [v])
    else (acc, l)

/-- `OptionCodes.Add` over the decoded codes: first occurrence kept -/
def dedup : List Nat → List Nat → List Nat
  | acc, [] => acc
  | acc, c :: cs => if acc.contains c then dedup acc cs else dedup (acc ++ [c]) cs

def parseNTPSub (code : Nat) (data : Bytes) : Res NTPSub :=
  if code = 1 then
    let (v, l) := (Lexer.new data).copyN 16
    fin l (.srvAddr v)
  else if code = 2 then
    let (v, l) := (Lexer.new data).copyN 16
    fin l (.mcAddr v)
  else if code = 3 then
    match Label.fromBytes data with
    | .ok lb => if lb.labels.length ≠ 1 then .err else .ok (.srvFQDN lb)  -- RFC 5908 §4.3: one FQDN
    | .err => .err
    | .panic => .panic
  else .ok (.generic code data)

/-- shared shape of IA_NA / IA_PD -/
def decIA (mk : Bytes → Dur → Dur → List Opt6 → Opt6) (decOpts : Bytes → Res (List Opt6))
    (data : Bytes) : Res Opt6 :=
  let l := Lexer.new data
  let (iaid, l) := l.readBytes 4
  let (t1, l) := decDur l
  let (t2, l) := decDur l
  let (rest, l) := l.readAll
  match decOpts rest with
  | .ok os => fin l (mk iaid t1 t2 os)
  | .err => .err
  | .panic => .panic

def decIATA (decOpts : Bytes → Res (List Opt6)) (data : Bytes) : Res Opt6 :=
  let l := Lexer.new data
  let (iaid, l) := l.readBytes 4
  let (rest, l) := l.readAll
  match decOpts rest with
  | .ok os => fin l (.iata iaid os)
  | .err => .err
  | .panic => .panic

def decIAAddr (decOpts : Bytes → Res (List Opt6)) (data : Bytes) : Res Opt6 :=
  let l := Lexer.new data
  let (ip, l) := l.copyN 16
  let (p, l) := decDur l
  let (v, l) := decDur l
  let (rest, l) := l.readAll
  match decOpts rest with
  | .ok os => fin l (.iaaddr ip p v os)
  | .err => .err
  | .panic => .panic

def decIAPrefix (decOpts : Bytes → Res (List Opt6)) (data : Bytes) : Res Opt6 :=
  let l := Lexer.new data
  let (p, l) := decDur l
  let (v, l) := decDur l
  let (len, l) := l.read8
  if len.toNat > 128 then .err
  else
    let (ip, l) := l.copyN 16
    let pfx : Option (Nat × IP) := if len = 0 then none else some (len.toNat, ip)
    let (rest, l) := l.readAll
    match decOpts rest with
    | .ok os => fin l (.iaprefix p v pfx os)
    | .err => .err
    | .panic => .panic

def decSimple (code : Nat) (data : Bytes) : Res Opt6 :=
  let l := Lexer.new data
  if code = 6 then
    let (cs, l) := u16Loop (data.length + 1) l []
    fin l (.oro (dedup [] cs))
  else if code = 8 then
    let (t, l) := l.read16
    fin l (.elapsed ((t : Int) * tenMs))
  else if code = 13 then
    let (c, l) := l.read16
    let (m, l) := l.readAll
    fin l (.status c m)
  else if code = 15 then
    if data.length = 0 then .err
    else
      let (cls, l) := lenPrefLoop (data.length + 1) l []
      fin l (.userClass cls)
  else if code = 16 then
    let (en, l) := l.read32
    let (ds, l) := lenPrefLoop (data.length + 1) l []
    if ds.length = 0 then .err else fin l (.vendorClass en ds)
  else if code = 17 then
    let (en, l) := l.read32
    let (rest, l) := l.readAll
    match optionsFromBytes (fun c d => Res.ok (c, d)) rest with
    | .ok os => fin l (.vendorOpts en os)
    | .err => .err
    | .panic => .panic
  else if code = 18 then .ok (.interfaceID data)
  else if code = 23 then
    let (ips, l) := ip16Loop (data.length + 1) l []
    fin l (.dns ips)
  else if code = 24 then
    match Label.fromBytes data with
    | .ok lb => .ok (.domainSearch lb)
    | .err => .err
    | .panic => .panic
  else if code = 32 then
    let (d, l) := decDur l
    fin l (.infoRefresh d)
  else if code = 37 then
    let (en, l) := l.read32
    let (id, l) := l.readAll
    fin l (.remoteID en id)
  else if code = 39 then
    let (f, l) := l.read8
    let (rest, l) := l.readAll
    match Label.fromBytes rest with
    | .ok lb => fin l (.fqdn f lb)
    | .err => .err
    | .panic => .panic
  else if code = 56 then
    match optionsFromBytes parseNTPSub data with
    | .ok subs => .ok (.ntp subs)
    | .err => .err
    | .panic => .panic
  else if code = 59 then .ok (.bootfileURL data)
  else if code = 60 then
    let (ps, l) := lenPrefLoop (data.length + 1) l []
    fin l (.bootfileParam ps)
  else if code = 61 then
    if data.length = 0 then .err
    else
      let (as, l) := u16Loop (data.length + 1) l []
      fin l (.archType as)
  else if code = 62 then
    let (t, l) := l.read8
    let (ma, l) := l.read8
    let (mi, l) := l.read8
    fin l (.nii t ma mi)
  else if code = 79 then
    let (ht, l) := l.read16
    let (a, l) := l.readAll
    fin l (.clientLLA ht a)
  else if code = 87 then
    match V4.dec4 data with
    | .ok p => .ok (.dhcpv4Msg p)
    | .err => .err
    | .panic => .panic
  else if code = 88 then
    let (ips, l) := ip16Loop (data.length + 1) l []
    fin l (.dhcp4o6Server ips)
  else if code = 98 then
    let (p4len, l) := l.read8
    let (p6len, l) := l.read8
    if p4len.toNat > 32 || p6len.toNat > 128 then .err
    else
      let (ea, l) := l.read8
      let (fl, l) := l.read8
      let (p4, l) := l.copyN 4
      let (p6, l) := l.copyN 16
      fin l (.fourRDMapRule p4len.toNat p4 p6len.toNat p6 ea (fl &&& 128 != 0))
  else if code = 99 then
    let (fl, l) := l.read8
    let (tc, l) := l.read8
    let (pmtu, l) := l.read16
    fin l (.fourRDNonMapRule (fl &&& 128 != 0) (if fl &&& 1 != 0 then some tc else none) pmtu)
  else if code = 135 then
    let (p, l) := l.read16
    fin l (.relayPort p)
  else .ok (.generic code data)

mutual
/-- `ParseOption(code, data)` -/
def parseOpt : Nat → Nat → Bytes → Res Opt6
  | 0, _, _ => .err
  | fuel + 1, code, data =>
    if code = 1 then (decDUID data).map .clientID
    else if code = 2 then (decDUID data).map .serverID
    else if code = 3 then decIA .iana (fun d => decOptsF fuel d) data
    else if code = 4 then decIATA (fun d => decOptsF fuel d) data
    else if code = 5 then decIAAddr (fun d => decOptsF fuel d) data
    else if code = 9 then (decMsgF fuel data).map .relayMsg
    else if code = 25 then decIA .iapd (fun d => decOptsF fuel d) data
    else if code = 26 then decIAPrefix (fun d => decOptsF fuel d) data
    else if code = 97 then (decOptsF fuel data).map .fourRD
    else decSimple code data
/-- `Options.FromBytes(data)` -/
def decOptsF : Nat → Bytes → Res (List Opt6)
  | 0, _ => .err
  | fuel + 1, data => optionsFromBytes (fun c d => parseOpt fuel c d) data
/-- `dhcpv6.FromBytes(data)` (dispatch + MessageFromBytes / RelayMessageFromBytes) -/
def decMsgF : Nat → Bytes → Res Msg6
  | 0, _ => .err
  | fuel + 1, data =>
    let l := Lexer.new data
    let (t, l1) := l.read8
    if l1.error then .err
    else if isRelayType t then
      let (hops, l) := l1.read8
      let (link, l) := l.copyN 16
      let (peer, l) := l.copyN 16
      if l.error then .err
      else (decOptsF fuel l.data).map (.relay t hops link peer)
    else
      let (xid, l) := l1.readBytes 3
      if l.error then .err
      else (decOptsF fuel l.data).map (.msg t xid)
end

/-- enough fuel for any nesting a buffer of that length can hold -/
def fuelFor (data : Bytes) : Nat := data.length + 2

def dec6 (data : Bytes) : Res Msg6 := decMsgF (fuelFor data) data
def parseOption (code : Nat) (data : Bytes) : Res Opt6 := parseOpt (fuelFor data) code data
def decOpts (data : Bytes) : Res (List Opt6) := decOptsF (fuelFor data) data

/-- `MessageFromBytes`: as `dec6` but relay types are rejected -/
def decMessage (data : Bytes) : Res Msg6 :=
  match dec6 data with
  | .ok (.msg t x o) => .ok (.msg t x o)
  | .ok (.relay ..) => .err
  | r => r

/-- `RelayMessageFromBytes` -/
def decRelay (data : Bytes) : Res Msg6 :=
  match dec6 data with
  | .ok (.relay t h l p o) => .ok (.relay t h l p o)
  | .ok (.msg ..) => .err
  | r => r

end Dhcp.V6

import Dhcp.Go.Lexer
import Dhcp.V4.Packet
import Dhcp.Label
/-
  Value types of the DHCPv6 model: `Opt6` has one constructor per entry of the
  `ParseOption` switch in dhcpv6/options.go (the list is re-checked against the
  source on every run by DhcpProofs/Facts/V6Table.lean) plus `generic`;
  `Msg6` is `*Message` / `*RelayMessage`.
  Durations are Go `time.Duration` values in nanoseconds (`Int`).
  `net.IP` is `Option Bytes` (`none` = nil slice).
-/
namespace Dhcp.V6
open Dhcp

abbrev IP := Option Bytes
abbrev Dur := Int

inductive DUID where
  | llt (hwType : Nat) (time : Nat) (addr : Bytes)
  | en (num : Nat) (id : Bytes)
  | ll (hwType : Nat) (addr : Bytes)
  | uuid (u : Bytes)
  | opaque (typ : Nat) (data : Bytes)
  deriving Repr, DecidableEq

inductive NTPSub where
  | srvAddr (ip : IP)
  | mcAddr (ip : IP)
  | srvFQDN (l : Label.Labels)
  | generic (code : Nat) (data : Bytes)
  deriving Repr, DecidableEq

mutual
inductive Opt6 where
  | clientID (d : DUID)
  | serverID (d : DUID)
  | iana (iaid : Bytes) (t1 t2 : Dur) (opts : List Opt6)
  | iata (iaid : Bytes) (opts : List Opt6)
  | iaaddr (ip : IP) (pref valid : Dur) (opts : List Opt6)
  | oro (codes : List Nat)
  | elapsed (d : Dur)
  | relayMsg (m : Msg6)
  | status (code : Nat) (msg : Bytes)
  | userClass (cls : List Bytes)
  | vendorClass (en : Nat) (data : List Bytes)
  | vendorOpts (en : Nat) (opts : List (Nat × Bytes))
  | interfaceID (id : Bytes)
  | dns (ips : List IP)
  | domainSearch (l : Label.Labels)
  | iapd (iaid : Bytes) (t1 t2 : Dur) (opts : List Opt6)
  /-- `prefix`: `none` = nil `*net.IPNet`; otherwise (ones of the 128-bit mask, IP) -/
  | iaprefix (pref valid : Dur) (pfx : Option (Nat × IP)) (opts : List Opt6)
  | infoRefresh (d : Dur)
  | remoteID (en : Nat) (id : Bytes)
  | fqdn (flags : UInt8) (name : Label.Labels)
  | ntp (subs : List NTPSub)
  | bootfileURL (url : Bytes)
  | bootfileParam (ps : List Bytes)
  | archType (archs : List Nat)
  | nii (typ major minor : UInt8)
  | clientLLA (hwType : Nat) (addr : Bytes)
  | dhcpv4Msg (p : V4.Pkt4)
  | dhcp4o6Server (ips : List IP)
  | fourRD (opts : List Opt6)
  /-- prefixes as (mask ones, IP) -/
  | fourRDMapRule (p4len : Nat) (p4 : IP) (p6len : Nat) (p6 : IP) (eaBits : UInt8) (wkp : Bool)
  | fourRDNonMapRule (hub : Bool) (tc : Option UInt8) (pmtu : Nat)
  | relayPort (port : Nat)
  | generic (code : Nat) (data : Bytes)
inductive Msg6 where
  | msg (typ : UInt8) (xid : Bytes) (opts : List Opt6)
  | relay (typ : UInt8) (hops : UInt8) (link peer : IP) (opts : List Opt6)
end

/-- option code of a value (`Code()` methods) -/
def Opt6.code : Opt6 → Nat
  | .clientID _ => 1 | .serverID _ => 2 | .iana .. => 3 | .iata .. => 4 | .iaaddr .. => 5
  | .oro _ => 6 | .elapsed _ => 8 | .relayMsg _ => 9 | .status .. => 13 | .userClass _ => 15
  | .vendorClass .. => 16 | .vendorOpts .. => 17 | .interfaceID _ => 18 | .dns _ => 23
  | .domainSearch _ => 24 | .iapd .. => 25 | .iaprefix .. => 26 | .infoRefresh _ => 32
  | .remoteID .. => 37 | .fqdn .. => 39 | .ntp _ => 56 | .bootfileURL _ => 59
  | .bootfileParam _ => 60 | .archType _ => 61 | .nii .. => 62 | .clientLLA .. => 79
  | .dhcpv4Msg _ => 87 | .dhcp4o6Server _ => 88 | .fourRD _ => 97 | .fourRDMapRule .. => 98
  | .fourRDNonMapRule .. => 99 | .relayPort _ => 135 | .generic c _ => c

/-- the codes `ParseOption` dispatches on (everything else is generic) -/
def knownCodes : List Nat :=
  [1, 2, 3, 4, 5, 6, 8, 9, 13, 15, 16, 17, 18, 23, 24, 25, 26, 32, 37, 39, 56, 59, 60, 61, 62, 79,
   87, 88, 97, 98, 99, 135]

def relayForward : UInt8 := 12
def relayReply : UInt8 := 13
def isRelayType (t : UInt8) : Bool := t = relayForward || t = relayReply

end Dhcp.V6

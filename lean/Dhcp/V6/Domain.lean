import Dhcp.V6.Codec
import Dhcp.V4.Domain
/-
  The round-trip domain of C02 as explicit predicates over the DHCPv6 model
  values ("each field ranging over its representable domain"), and the nesting
  measure used for decoder fuel.
-/
namespace Dhcp.V6
open Dhcp

/-- whole seconds below 2^32 (what the 32-bit lifetime fields can carry) -/
def DurOK (d : Dur) : Prop := ∃ s : Nat, s < 4294967296 ∧ d = (s : Int) * second
/-- 10 ms units below 2^16 (elapsed-time option) -/
def ElapsedOK (d : Dur) : Prop := ∃ k : Nat, k < 65536 ∧ d = (k : Int) * tenMs
/-- a 16-byte (non-nil) IPv6 address -/
def IP16 (ip : IP) : Prop := ∃ b, ip = some b ∧ b.length = 16
def IP4 (ip : IP) : Prop := ∃ b, ip = some b ∧ b.length = 4

/-- a label set in decoded form: `original` present and parsing to `labels`
(what `rfc1035label.FromBytes` returns; freshly built sets are covered through
the C19 round trip, see `C02_fresh_labels`) -/
def LabelsOK (l : Label.Labels) : Prop :=
  ∃ b, l.original = some b ∧ Label.labelsFromBytes b = .ok l.labels

/-- field ranges, and the RFC 8415 §11.1 limit of 1..128 octets after the type code -/
def DUIDOK : DUID → Prop
  | .llt ht t a => ht < 65536 ∧ t < 4294967296 ∧ a.length ≤ 122
  | .en n i => n < 4294967296 ∧ i.length ≤ 124
  | .ll ht a => ht < 65536 ∧ a.length ≤ 126
  | .uuid u => u.length = 16
  | .opaque t d => t < 65536 ∧ t ≠ 1 ∧ t ≠ 2 ∧ t ≠ 3 ∧ t ≠ 4 ∧ 1 ≤ d.length ∧ d.length ≤ 128

def NTPSubOK : NTPSub → Prop
  | .srvAddr ip => IP16 ip
  | .mcAddr ip => IP16 ip
  | .srvFQDN l => LabelsOK l ∧ l.labels.length = 1
  | .generic c _ => c < 65536 ∧ c ≠ 1 ∧ c ≠ 2 ∧ c ≠ 3

/-- every length-prefixed item fits its 16-bit length -/
def ItemsOK (xs : List Bytes) : Prop := ∀ x ∈ xs, x.length < 65536

/-- a prefix is absent (length 0 on the wire) or has length 1..128 and a 16-byte address -/
def PfxOK : Option (Nat × IP) → Prop
  | none => True
  | some (n, ip) => 1 ≤ n ∧ n ≤ 128 ∧ IP16 ip

mutual
/-- field-level well-formedness of one option (not counting its own value length) -/
def WFOpt : Opt6 → Prop
  | .clientID d => DUIDOK d
  | .serverID d => DUIDOK d
  | .iana i t1 t2 os => i.length = 4 ∧ DurOK t1 ∧ DurOK t2 ∧ WFOpts os
  | .iata i os => i.length = 4 ∧ WFOpts os
  | .iaaddr ip p v os => IP16 ip ∧ DurOK p ∧ DurOK v ∧ WFOpts os
  | .oro cs => (∀ c ∈ cs, c < 65536) ∧ cs.Nodup
  | .elapsed d => ElapsedOK d
  | .relayMsg m => WFMsg m
  | .status c _ => c < 65536
  | .userClass cls => cls ≠ [] ∧ ItemsOK cls
  | .vendorClass en ds => en < 4294967296 ∧ ds ≠ [] ∧ ItemsOK ds
  | .vendorOpts en os => en < 4294967296 ∧ ∀ o ∈ os, o.1 < 65536 ∧ o.2.length < 65536
  | .interfaceID _ => True
  | .dns ips => ∀ ip ∈ ips, IP16 ip
  | .domainSearch l => LabelsOK l
  | .iapd i t1 t2 os => i.length = 4 ∧ DurOK t1 ∧ DurOK t2 ∧ WFOpts os
  | .iaprefix p v pfx os =>
    DurOK p ∧ DurOK v ∧ PfxOK pfx ∧ WFOpts os
  | .infoRefresh d => DurOK d
  | .remoteID en _ => en < 4294967296
  | .fqdn _ n => LabelsOK n
  | .ntp subs => ∀ s ∈ subs, NTPSubOK s ∧ (encNTPSub s).length < 65536
  | .bootfileURL _ => True
  | .bootfileParam ps => ItemsOK ps
  | .archType as => as ≠ [] ∧ ∀ a ∈ as, a < 65536
  | .nii _ _ _ => True
  | .clientLLA ht _ => ht < 65536
  | .dhcpv4Msg p => V4.Encodable p ∧ V4.norm p = p
  | .dhcp4o6Server ips => ∀ ip ∈ ips, IP16 ip
  | .fourRD os => WFOpts os
  | .fourRDMapRule p4len p4 p6len p6 _ _ => p4len ≤ 32 ∧ IP4 p4 ∧ p6len ≤ 128 ∧ IP16 p6
  | .fourRDNonMapRule _ _ pmtu => pmtu < 65536
  | .relayPort p => p < 65536
  | .generic c _ => c < 65536 ∧ c ∉ knownCodes
/-- every option well-formed and framed by a 16-bit length -/
def WFOpts : List Opt6 → Prop
  | [] => True
  | o :: os => WFOpt o ∧ (encOpt o).length < 65536 ∧ WFOpts os
def WFMsg : Msg6 → Prop
  | .msg t xid os => isRelayType t = false ∧ xid.length = 3 ∧ WFOpts os
  | .relay t _ link peer os => isRelayType t = true ∧ IP16 link ∧ IP16 peer ∧ WFOpts os
end

mutual
/-- decoder fuel an option needs: 2 per nesting level -/
def fuelOpt : Opt6 → Nat
  | .iana _ _ _ os => fuelOpts os + 2
  | .iata _ os => fuelOpts os + 2
  | .iaaddr _ _ _ os => fuelOpts os + 2
  | .relayMsg m => fuelMsg m + 1
  | .iapd _ _ _ os => fuelOpts os + 2
  | .iaprefix _ _ _ os => fuelOpts os + 2
  | .fourRD os => fuelOpts os + 2
  | _ => 1
def fuelOpts : List Opt6 → Nat
  | [] => 0
  | o :: os => max (fuelOpt o) (fuelOpts os)
def fuelMsg : Msg6 → Nat
  | .msg _ _ os => fuelOpts os + 2
  | .relay _ _ _ _ os => fuelOpts os + 2
end

end Dhcp.V6

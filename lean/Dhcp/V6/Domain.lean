import Dhcp.V6.Codec
import Dhcp.V4.Domain
import Dhcp.Spec.Name
/-
  The round-trip domain of C02 as explicit predicates over the DHCPv6 model
  values ("each field ranging over its representable domain"), and the nesting
  measure used for decoder fuel.
-/
namespace Dhcp.V6
open Dhcp

/-- whole seconds below 2^32 (what the 32-bit lifetime fields can carry) -/
def DurOK (d : Dur) : Prop := ∃ s : Nat, s < 4294967296 ∧ d = (s : Int) * second
/-- 10 ms units below 2^16 (elapsed-time option) -/
def ElapsedOK (d : Dur) : Prop := ∃ k : Nat, k < 65536 ∧ d = (k : Int) * tenMs
/-- a 16-byte (non-nil) IPv6 address -/
def IP16 (ip : IP) : Prop := ∃ b, ip = some b ∧ b.length = 16
def IP4 (ip : IP) : Prop := ∃ b, ip = some b ∧ b.length = 4

/-- a label set in decoded form: `original` present and parsing to `labels`
(what `rfc1035label.FromBytes` returns; freshly built sets are covered through
the C19 round trip, see `C02_fresh_labels`) -/
def LabelsOK (l : Label.Labels) : Prop :=
  ∃ b, l.original = some b ∧ Label.labelsFromBytes b = .ok l.labels

/-- field ranges, and the RFC 8415 §11.1 limit of 1..128 octets after the type code -/
def DUIDOK : DUID → Prop
  | .llt ht t a => ht < 65536 ∧ t < 4294967296 ∧ a.length ≤ 122
  | .en n i => n < 4294967296 ∧ i.length ≤ 124
  | .ll ht a => ht < 65536 ∧ a.length ≤ 126
  | .uuid u => u.length = 16
  | .opaque t d => t < 65536 ∧ t ≠ 1 ∧ t ≠ 2 ∧ t ≠ 3 ∧ t ≠ 4 ∧ 1 ≤ d.length ∧ d.length ≤ 128

def NTPSubOK : NTPSub → Prop
  | .srvAddr ip => IP16 ip
  | .mcAddr ip => IP16 ip
  | .srvFQDN l => LabelsOK l ∧ l.labels.length = 1
  | .generic c _ => c < 65536 ∧ c ≠ 1 ∧ c ≠ 2 ∧ c ≠ 3

/-- every length-prefixed item fits its 16-bit length -/
def ItemsOK (xs : List Bytes) : Prop := ∀ x ∈ xs, x.length < 65536

/-- a prefix is absent (length 0 on the wire) or has length 1..128 and a 16-byte address -/
def PfxOK : Option (Nat × IP) → Prop
  | none => True
  | some (n, ip) => 1 ≤ n ∧ n ≤ 128 ∧ IP16 ip

mutual
/-- field-level well-formedness of one option (not counting its own value length) -/
def WFOpt : Opt6 → Prop
  | .clientID d => DUIDOK d
  | .serverID d => DUIDOK d
  | .iana i t1 t2 os => i.length = 4 ∧ DurOK t1 ∧ DurOK t2 ∧ WFOpts os
  | .iata i os => i.length = 4 ∧ WFOpts os
  | .iaaddr ip p v os => IP16 ip ∧ DurOK p ∧ DurOK v ∧ WFOpts os
  | .oro cs => (∀ c ∈ cs, c < 65536) ∧ cs.Nodup
  | .elapsed d => ElapsedOK d
  | .relayMsg m => WFMsg m
  | .status c _ => c < 65536
  | .userClass cls => cls ≠ [] ∧ ItemsOK cls
  | .vendorClass en ds => en < 4294967296 ∧ ds ≠ [] ∧ ItemsOK ds
  | .vendorOpts en os => en < 4294967296 ∧ ∀ o ∈ os, o.1 < 65536 ∧ o.2.length < 65536
  | .interfaceID _ => True
  | .dns ips => ∀ ip ∈ ips, IP16 ip
  | .domainSearch l => LabelsOK l
  | .iapd i t1 t2 os => i.length = 4 ∧ DurOK t1 ∧ DurOK t2 ∧ WFOpts os
  | .iaprefix p v pfx os =>
    DurOK p ∧ DurOK v ∧ PfxOK pfx ∧ WFOpts os
  | .infoRefresh d => DurOK d
  | .remoteID en _ => en < 4294967296
  | .fqdn _ n => LabelsOK n
  | .ntp subs => ∀ s ∈ subs, NTPSubOK s ∧ (encNTPSub s).length < 65536
  | .bootfileURL _ => True
  | .bootfileParam ps => ItemsOK ps
  | .archType as => as ≠ [] ∧ ∀ a ∈ as, a < 65536
  | .nii _ _ _ => True
  | .clientLLA ht _ => ht < 65536
  | .dhcpv4Msg p => V4.Encodable p ∧ V4.norm p = p
  | .dhcp4o6Server ips => ∀ ip ∈ ips, IP16 ip
  | .fourRD os => WFOpts os
  | .fourRDMapRule p4len p4 p6len p6 _ _ => p4len ≤ 32 ∧ IP4 p4 ∧ p6len ≤ 128 ∧ IP16 p6
  | .fourRDNonMapRule _ _ pmtu => pmtu < 65536
  | .relayPort p => p < 65536
  | .generic c _ => c < 65536 ∧ c ∉ knownCodes
/-- every option well-formed and framed by a 16-bit length -/
def WFOpts : List Opt6 → Prop
  | [] => True
  | o :: os => WFOpt o ∧ (encOpt o).length < 65536 ∧ WFOpts os
def WFMsg : Msg6 → Prop
  | .msg t xid os => isRelayType t = false ∧ xid.length = 3 ∧ WFOpts os
  | .relay t _ link peer os => isRelayType t = true ∧ IP16 link ∧ IP16 peer ∧ WFOpts os
end

/-! ### freshly built label sets

A label set a caller builds (`&rfc1035label.Labels{Labels: names}`, what
`WithFQDN` / `WithDomainSearchList` and `OptDomainSearchList` callers do) has
`original = nil`; what the decoder returns carries the bytes it was parsed from.
`normLabels` is that step on one label set, `normOpt / normOpts / normMsg` apply
it wherever a label set lives (domain search list, client FQDN, NTP server FQDN
suboption), through every container option and relay level.  `WFMsg'` is the
round-trip domain with fresh label sets of valid names allowed next to decoded
ones (`LabelsOK'`); everything else as `WFMsg`. -/

/-- a label set becomes what decoding its encoding returns: same names,
`original` = the bytes `ToBytes` emits for the set as it is now.  For a fresh set
(`original = nil`) and for a decoded set whose names were EDITED since, these
are `labelsToBytes names`; for a decoded, untouched set they are the bytes it
was parsed from (so the set stays as it is: `normLabels_of_LabelsOK`). -/
def normLabels (l : Label.Labels) : Label.Labels :=
  { original := some l.toBytes, labels := l.labels }

def normNTP : NTPSub → NTPSub
  | .srvFQDN l => .srvFQDN (normLabels l)
  | .srvAddr ip => .srvAddr ip
  | .mcAddr ip => .mcAddr ip
  | .generic c d => .generic c d

mutual
def normOpt : Opt6 → Opt6
  | .iana i t1 t2 os => .iana i t1 t2 (normOpts os)
  | .iata i os => .iata i (normOpts os)
  | .iaaddr ip p v os => .iaaddr ip p v (normOpts os)
  | .relayMsg m => .relayMsg (normMsg m)
  | .iapd i t1 t2 os => .iapd i t1 t2 (normOpts os)
  | .iaprefix p v pfx os => .iaprefix p v pfx (normOpts os)
  | .fourRD os => .fourRD (normOpts os)
  | .domainSearch l => .domainSearch (normLabels l)
  | .fqdn f n => .fqdn f (normLabels n)
  | .ntp subs => .ntp (subs.map normNTP)
  | .clientID d => .clientID d
  | .serverID d => .serverID d
  | .oro cs => .oro cs
  | .elapsed d => .elapsed d
  | .status c m => .status c m
  | .userClass cls => .userClass cls
  | .vendorClass en ds => .vendorClass en ds
  | .vendorOpts en os => .vendorOpts en os
  | .interfaceID id => .interfaceID id
  | .dns ips => .dns ips
  | .infoRefresh d => .infoRefresh d
  | .remoteID en id => .remoteID en id
  | .bootfileURL u => .bootfileURL u
  | .bootfileParam ps => .bootfileParam ps
  | .archType as => .archType as
  | .nii a b c => .nii a b c
  | .clientLLA ht a => .clientLLA ht a
  | .dhcpv4Msg p => .dhcpv4Msg p
  | .dhcp4o6Server ips => .dhcp4o6Server ips
  | .fourRDMapRule a b c d e f => .fourRDMapRule a b c d e f
  | .fourRDNonMapRule a b c => .fourRDNonMapRule a b c
  | .relayPort p => .relayPort p
  | .generic c d => .generic c d
def normOpts : List Opt6 → List Opt6
  | [] => []
  | o :: os => normOpt o :: normOpts os
def normMsg : Msg6 → Msg6
  | .msg t xid os => .msg t xid (normOpts os)
  | .relay t h link peer os => .relay t h link peer (normOpts os)
end

/-- decoded form; or valid names (C19's `ValidName`: 1..63-octet labels without
dots inside, at most 253 characters, not empty) in a set that is fresh
(`original = nil`) or was decoded from SOME bytes and had its names edited,
replaced, dropped or added since — every state of a `Labels` value reachable
through the exported API (`original` is unexported: it is nil or what a
successful `FromBytes` stored) with valid names in it -/
def LabelsOK' (l : Label.Labels) : Prop :=
  LabelsOK l ∨ (Spec.Name.ValidNames l.labels ∧
    (l.original = none ∨ ∃ b ns0, l.original = some b ∧ Label.labelsFromBytes b = .ok ns0))

def NTPSubOK' : NTPSub → Prop
  | .srvFQDN l => LabelsOK' l ∧ l.labels.length = 1
  | s => NTPSubOK s

mutual
/-- `WFOpt` with `LabelsOK'` in place of `LabelsOK` -/
def WFOpt' : Opt6 → Prop
  | .iana i t1 t2 os => i.length = 4 ∧ DurOK t1 ∧ DurOK t2 ∧ WFOpts' os
  | .iata i os => i.length = 4 ∧ WFOpts' os
  | .iaaddr ip p v os => IP16 ip ∧ DurOK p ∧ DurOK v ∧ WFOpts' os
  | .relayMsg m => WFMsg' m
  | .iapd i t1 t2 os => i.length = 4 ∧ DurOK t1 ∧ DurOK t2 ∧ WFOpts' os
  | .iaprefix p v pfx os => DurOK p ∧ DurOK v ∧ PfxOK pfx ∧ WFOpts' os
  | .fourRD os => WFOpts' os
  | .domainSearch l => LabelsOK' l
  | .fqdn _ n => LabelsOK' n
  | .ntp subs => ∀ s ∈ subs, NTPSubOK' s ∧ (encNTPSub s).length < 65536
  | .clientID d => WFOpt (.clientID d)
  | .serverID d => WFOpt (.serverID d)
  | .oro cs => WFOpt (.oro cs)
  | .elapsed d => WFOpt (.elapsed d)
  | .status c m => WFOpt (.status c m)
  | .userClass cls => WFOpt (.userClass cls)
  | .vendorClass en ds => WFOpt (.vendorClass en ds)
  | .vendorOpts en os => WFOpt (.vendorOpts en os)
  | .interfaceID id => WFOpt (.interfaceID id)
  | .dns ips => WFOpt (.dns ips)
  | .infoRefresh d => WFOpt (.infoRefresh d)
  | .remoteID en id => WFOpt (.remoteID en id)
  | .bootfileURL u => WFOpt (.bootfileURL u)
  | .bootfileParam ps => WFOpt (.bootfileParam ps)
  | .archType as => WFOpt (.archType as)
  | .nii a b c => WFOpt (.nii a b c)
  | .clientLLA ht a => WFOpt (.clientLLA ht a)
  | .dhcpv4Msg p => WFOpt (.dhcpv4Msg p)
  | .dhcp4o6Server ips => WFOpt (.dhcp4o6Server ips)
  | .fourRDMapRule a b c d e f => WFOpt (.fourRDMapRule a b c d e f)
  | .fourRDNonMapRule a b c => WFOpt (.fourRDNonMapRule a b c)
  | .relayPort p => WFOpt (.relayPort p)
  | .generic c d => WFOpt (.generic c d)
def WFOpts' : List Opt6 → Prop
  | [] => True
  | o :: os => WFOpt' o ∧ (encOpt o).length < 65536 ∧ WFOpts' os
def WFMsg' : Msg6 → Prop
  | .msg t xid os => isRelayType t = false ∧ xid.length = 3 ∧ WFOpts' os
  | .relay t _ link peer os => isRelayType t = true ∧ IP16 link ∧ IP16 peer ∧ WFOpts' os
end

mutual
/-- decoder fuel an option needs: 2 per nesting level -/
def fuelOpt : Opt6 → Nat
  | .iana _ _ _ os => fuelOpts os + 2
  | .iata _ os => fuelOpts os + 2
  | .iaaddr _ _ _ os => fuelOpts os + 2
  | .relayMsg m => fuelMsg m + 1
  | .iapd _ _ _ os => fuelOpts os + 2
  | .iaprefix _ _ _ os => fuelOpts os + 2
  | .fourRD os => fuelOpts os + 2
  | _ => 1
def fuelOpts : List Opt6 → Nat
  | [] => 0
  | o :: os => max (fuelOpt o) (fuelOpts os)
def fuelMsg : Msg6 → Nat
  | .msg _ _ os => fuelOpts os + 2
  | .relay _ _ _ _ os => fuelOpts os + 2
end

end Dhcp.V6

import Dhcp.V6.Build
import Dhcp.Go.Strings
/-
  Read-only observers of a DHCPv6 message outside package dhcpv6 (C03):
  * netboot/netconf.go `GetNetConfFromPacketv6`, netboot/netboot.go
    `ConversationToNetconf`;
  * dhcpv6/ztpv6 `ParseVendorData` (with mellanox.go) and `ParseRemoteID`.

  Conventions as in Dhcp/V6/Build.lean: `Msg6.msg` / `Msg6.relay` are the
  dynamic types `*Message` / `*RelayMessage`; every UNCHECKED type assertion
  (`m.(*dhcpv6.Message)`, `o.(*OptIANA)`, `o.(*OptIAAddress)`,
  `opt17.(*OptVendorOpts)`, `opt16.(*OptVendorClass)`), every index into the
  result of `strings.Split` and the one pointer the code dereferences after a
  nil test (`advertise`) is an explicit guard returning `Res.panic` / a case
  split on `none`.  Go strings are byte strings.  Nil and empty slices are
  identified in the RESULTS (`[]net.IP`, `[]string`): nothing branches on them.
  Not values of the model (decoding never produces them): a nil interface in
  the conversation, a nil `*Labels` inside a domain-search option, vendor
  sub-options of a type other than `*OptionGeneric`.
  `log.Printf` in the fallback branch is not modelled.
-/
namespace Dhcp.V6
open Dhcp Dhcp.Str

/-! ### MessageOptions / IdentityOptions accessors used here -/

def ocIAAddr : Nat := 5
def ocVendorOpts : Nat := 17
def ocNTPServer : Nat := 56

/-- `IdentityOptions.Addresses()`: every sub-option with code 5 is asserted to
be `*OptIAAddress`; the three fields netboot reads -/
structure AddrConf where
  ip : IP
  pref : Dur
  valid : Dur
  deriving DecidableEq, Repr

def addrConfs : List Opt6 → Res (List AddrConf)
  | [] => .ok []
  | .iaaddr ip p v _ :: rest => (addrConfs rest).map (⟨ip, p, v⟩ :: ·)
  | _ :: _ => .panic

/-- `MessageOptions.DNS()` (checked assertion) -/
def dnsOf (os : List Opt6) : List IP :=
  match getOne ocDNS os with
  | some (.dns ips) => ips
  | _ => []

/-- `MessageOptions.DomainSearchList()` then `.Labels` (nil pointer = absent) -/
def domainSearchListOf (os : List Opt6) : Option Label.Labels :=
  match getOne ocDomainSearchList os with
  | some (.domainSearch l) => some l
  | _ => none

/-- `MessageOptions.NTPServers()`: the server-address suboptions of every NTP
option, in order (both assertions checked) -/
def ntpServersOf (os : List Opt6) : List IP :=
  (get ocNTPServer os).flatMap fun o =>
    match o with
    | .ntp subs => subs.filterMap (fun s => match s with | .srvAddr ip => some ip | _ => none)
    | _ => []

/-- `MessageOptions.BootFileURL()` -/
def bootFileURLOf (os : List Opt6) : Bytes :=
  match getOne ocBootfileURL os with
  | some (.bootfileURL u) => u
  | _ => []

/-- `MessageOptions.BootFileParam()` -/
def bootFileParamOf (os : List Opt6) : List Bytes :=
  match getOne ocBootfileParam os with
  | some (.bootfileParam ps) => ps
  | _ => []

/-! ### netboot -/

structure NetConf6 where
  addrs : List AddrConf
  dns : List IP
  search : List Bytes
  ntp : List IP
  deriving DecidableEq, Repr

structure BootConf6 where
  net : NetConf6
  url : Bytes
  params : List Bytes
  deriving DecidableEq, Repr

/-- `GetNetConfFromPacketv6(d)` for a non-nil `d`; the argument is `d.Options` -/
def getNetConfFromPacketv6 (os : List Opt6) : Res NetConf6 :=
  match oneIANAOf os with
  | .panic => .panic
  | .err => .err
  | .ok none => .err
  | .ok (some (.iana _ _ _ sub)) =>
    (addrConfs (get ocIAAddr sub)).map fun as =>
      { addrs := as, dns := dnsOf os,
        search := (match domainSearchListOf os with | some l => l.labels | none => []),
        ntp := ntpServersOf os }
  | .ok (some _) => .panic

/-- the `for _, m := range conversation` loop: `advertise` / `reply` hold the
options of the last ADVERTISE / REPLY seen (`none` = nil pointer); a relay
message carrying one of the two types fails the assertion `m.(*dhcpv6.Message)` -/
def scanConversation : List Msg6 → Option (List Opt6) → Option (List Opt6) →
    Res (Option (List Opt6) × Option (List Opt6))
  | [], adv, rep => .ok (adv, rep)
  | m :: rest, adv, rep =>
    if m.typ = mtAdvertise then
      match m with
      | .msg _ _ os => scanConversation rest (some os) rep
      | .relay .. => .panic
    else if m.typ = mtReply then
      match m with
      | .msg _ _ os => scanConversation rest adv (some os)
      | .relay .. => .panic
    else scanConversation rest adv rep

/-- `ConversationToNetconf(conversation)` -/
def conversationToNetconf (conv : List Msg6) : Res BootConf6 :=
  match scanConversation conv none none with
  | .panic => .panic
  | .err => .err
  | .ok (_, none) => .err
  | .ok (adv, some rep) =>
    match getNetConfFromPacketv6 rep with
    | .panic => .panic
    | .err => .err
    | .ok nc =>
      let u := bootFileURLOf rep
      let (url, params) : Bytes × List Bytes :=
        if u.length > 0 then (u, bootFileParamOf rep)
        else
          match adv with
          | some aos =>
            let ua := bootFileURLOf aos
            if ua.length > 0 then (ua, bootFileParamOf aos) else ([], [])
          | none => ([], [])
      if url.length = 0 then .err else .ok { net := nc, url := url, params := params }

/-! ### ztpv6.ParseVendorData -/

structure VendorData where
  vendor : Bytes
  model : Bytes
  serial : Bytes
  deriving DecidableEq, Repr

def entMellanox : Nat := 33049
/-- `iana.EnterpriseIDMellanoxTechnologiesLTD.String()` -/
def nameMellanox : Bytes := ascii "Mellanox Technologies LTD".toList
/-- `iana.EnterpriseIDCienaCorporation.String()` -/
def nameCiena : Bytes := ascii "Ciena Corporation".toList
/-- `strconv.Itoa(int(iana.EnterpriseIDCienaCorporation))` -/
def pfxCiena : Bytes := ascii ['1', '2', '7', '1']
def pfxArista : Bytes := ascii ['A', 'r', 'i', 's', 't', 'a', ';']
def pfxCisco : Bytes := ascii ['C', 'i', 's', 'c', 'o', ';']
def pfxZPE : Bytes := ascii ['Z', 'P', 'E', 'S', 'y', 's', 't', 'e', 'm', 's', ':']
def pfxNVOS : Bytes := ascii ['N', 'V', 'O', 'S', '#', '#']
def sepSemi : Bytes := ascii [';']
def sepColon : Bytes := ascii [':']
def sepDash : Bytes := ascii ['-']
def sepHashes : Bytes := ascii ['#', '#']

/-- `getMellanoxVendorData`: sub-option 3 is the serial, 1 the model (the last
occurrence wins); both must be non-empty -/
def mellanoxVendorData (subs : List (Nat × Bytes)) : Res VendorData :=
  let step (acc : Bytes × Bytes) (o : Nat × Bytes) : Bytes × Bytes :=
    -- `MlnxSubOption(opt.Code())` is a uint16 conversion of a uint16 code
    if o.1 = 3 then (o.2, acc.2) else if o.1 = 1 then (acc.1, o.2) else acc
  let (serial, model) := subs.foldl step ([], [])
  if serial.isEmpty || model.isEmpty then .err else .ok ⟨nameMellanox, model, serial⟩

/-- the serial of the Ciena branch: the enterprise identifier of the innermost
message's client DUID when that is a DUID-EN (`packet.GetInnerMessage()`, then
`ClientID()` with its unchecked assertion, then a checked one) -/
def cienaSerial (packet : Msg6) : Res Bytes :=
  match getInnerMessage packet with
  | .panic => .panic
  | .err => .ok []
  | .ok inner =>
    match clientIDOf inner.opts with
    | .panic => .panic
    | .err => .err
    | .ok (some (.en _ id)) => .ok id
    | .ok _ => .ok []

/-- one iteration of `for _, d := range vData`: `none` = no case matched (next `d`) -/
def ztp6Case (packet : Msg6) (d : Bytes) : Option (Res VendorData) :=
  if hasPrefix d pfxArista || hasPrefix d pfxCisco then
    let p := split d sepSemi
    some (if p.length < 4 then .err
      else (idx p 0).bind fun v => (idx p 1).bind fun m => (idx p 3).bind fun s => .ok ⟨v, m, s⟩)
  else if hasPrefix d pfxZPE then
    let p := split d sepColon
    some (if p.length < 3 then .err
      else (idx p 0).bind fun v => (idx p 1).bind fun m => (idx p 2).bind fun s => .ok ⟨v, m, s⟩)
  else if hasPrefix d pfxNVOS then
    let p := split d sepHashes
    some (if p.length < 3 then .err
      else (idx p 0).bind fun v => (idx p 1).bind fun m => (idx p 2).bind fun s => .ok ⟨v, m, s⟩)
  else if hasPrefix d pfxCiena then
    let v := split d sepDash
    some (if v.length < 3 then .err
      else (idx v 1).bind fun a => (idx v 2).bind fun b =>
        (cienaSerial packet).bind fun s => .ok ⟨nameCiena, a ++ sepDash ++ b, s⟩)
  else none

def ztp6Scan (packet : Msg6) : List Bytes → Res VendorData
  | [] => .err
  | d :: rest =>
    match ztp6Case packet d with
    | some r => r
    | none => ztp6Scan packet rest

/-- `ztpv6.ParseVendorData(packet)`; `GetOneOption` is the same lookup on
`*Message` and `*RelayMessage`.  Option 17 wins over option 16. -/
def ztp6ParseVendorData (packet : Msg6) : Res VendorData :=
  match getOne ocVendorClass packet.opts, getOne ocVendorOpts packet.opts with
  | none, none => .err
  | _, some (.vendorOpts en subs) =>
    if en = entMellanox then mellanoxVendorData subs else ztp6Scan packet (subs.map (·.2))
  | _, some _ => .panic
  | some (.vendorClass _ data), none => ztp6Scan packet data
  | some _, none => .panic

/-! ### re-encoding a message (`ToBytes`) with its panic

`encMsg` (Dhcp/V6/Codec.lean) is a total function into byte strings: the Go
encoders of package dhcpv6 contain no panic-capable operation of their own
(`write16` tests its argument, every loop ranges over a slice) EXCEPT through an
embedded DHCPv4 message (option 87), whose `(*DHCPv4).ToBytes` panics in
`writeIP` on a header address that is not IPv4 (`V4.enc4 p = .panic`);
`enc4Bytes` maps that case to the empty string.  `msgEncPanics` finds that
case at any depth and `encMsgR` is `ToBytes` with its panic. -/

mutual
def optEncPanics : Opt6 → Bool
  | .dhcpv4Msg p => (V4.enc4 p).isPanic
  | .relayMsg m => msgEncPanics m
  | .iana _ _ _ os => optsEncPanics os
  | .iata _ os => optsEncPanics os
  | .iaaddr _ _ _ os => optsEncPanics os
  | .iapd _ _ _ os => optsEncPanics os
  | .iaprefix _ _ _ os => optsEncPanics os
  | .fourRD os => optsEncPanics os
  | _ => false
def optsEncPanics : List Opt6 → Bool
  | [] => false
  | o :: os => optEncPanics o || optsEncPanics os
def msgEncPanics : Msg6 → Bool
  | .msg _ _ os => optsEncPanics os
  | .relay _ _ _ _ os => optsEncPanics os
end

/-- `m.ToBytes()` -/
def encMsgR (m : Msg6) : Res Bytes := if msgEncPanics m then .panic else .ok (encMsg m)

/-! ### ztpv6.ParseRemoteID -/

/-- `CircuitID` as `FormatCircuitID` prints it -/
structure CircuitID where
  slot : Bytes
  module : Bytes
  port : Bytes
  subPort : Bytes
  vlan : Bytes
  deriving DecidableEq, Repr

/-- `ParseRemoteID(packet)`, the regular-expression matching of
`matchCircuitId` abstracted as a total function `mc` (Go's `regexp` does not
panic on a compiled pattern, and `FindStringSubmatch` returns one entry per
`SubexpNames()` entry — trusted) -/
def parseRemoteID (mc : Bytes → Option CircuitID) (packet : Msg6) : Res CircuitID :=
  match decapsulateRelayIndex packet (-1) with
  | .panic => .panic
  | .err => .err
  | .ok (.msg ..) => .err
  | .ok (.relay _ _ _ _ os) =>
    -- `iid != nil`: an empty Interface-ID decodes to the nil slice (`append([]byte(nil), data...)`)
    let viaIID : Res CircuitID :=
      match interfaceIDOf os with
      | some iid => if iid.isEmpty then .err else (match mc iid with | some c => .ok c | none => .err)
      | none => .err
    match remoteIDOf os with
    | some (_, rid) => (match mc rid with | some c => .ok c | none => viaIID)
    | none => viaIID

end Dhcp.V6

import Dhcp.Go.Basic
/-
  C08 — a small abstract memory model for "decoded messages own their memory;
  encoded output is fresh".

  Memory is the caller's input buffer plus a heap of allocations made by the
  library (decoder copies, encoder output buffers).  A decoded object is seen
  through its byte-valued leaves (every `[]byte`, `net.IP`, `string`, … stored
  somewhere in the object graph); each leaf has a provenance: it either OWNS a
  heap cell, or it is a VIEW (offset, length) of the input buffer — what
  `uio.Lexer.Consume`, `Buffer.Data` or the parameter itself yield, as opposed
  to `CopyN`, `ReadAll`, `append(nil, …)`, `bytes.Clone`, `string(…)`.

  Everything observable about the object — its fields, its printed form, its
  re-encoding, any accessor — is a function of the current contents of its
  leaves (scalar fields are part of that function).  `scribble` is the caller
  overwriting or reusing the input buffer; `writeCell` is the caller writing
  into a buffer an encoder returned.
-/
namespace Dhcp.Ownership
open Dhcp

/-- memory: the caller's input buffer and the library's own allocations -/
structure Mem where
  input : Bytes
  heap  : Nat → Bytes

/-- provenance of one byte-valued leaf of a decoded object -/
inductive Prov where
  | owned (cell : Nat)            -- a private allocation
  | view (off len : Nat)          -- a window of the input buffer
  deriving Repr, DecidableEq

def Prov.isOwned : Prov → Bool
  | .owned _ => true
  | .view _ _ => false

/-- current contents of a leaf -/
def read (m : Mem) : Prov → Bytes
  | .owned c => m.heap c
  | .view off len => (m.input.drop off).take len

/-- a decoded object graph, as the list of its byte-valued leaves -/
structure Obj where
  leaves : List Prov
  deriving Repr

def contents (m : Mem) (o : Obj) : List Bytes := o.leaves.map (read m)

/-- anything observable about the object: a function of its leaves' contents -/
abbrev Observer (α : Type) := List Bytes → α

def observe {α : Type} (f : Observer α) (m : Mem) (o : Obj) : α := f (contents m o)

/-- the caller overwrites / reuses the input buffer with arbitrary bytes -/
def scribble (m : Mem) (b : Bytes) : Mem := { m with input := b }

def AllOwned (o : Obj) : Prop := ∀ l ∈ o.leaves, l.isOwned = true

instance (o : Obj) : Decidable (AllOwned o) := by unfold AllOwned; exact inferInstance

/-! ### encoders -/

/-- the caller writes arbitrary bytes into heap cell `c` (a buffer an encoder returned) -/
def writeCell (m : Mem) (c : Nat) (b : Bytes) : Mem :=
  { m with heap := fun c' => if c' = c then b else m.heap c' }

/-- an encoder computes bytes from the object's leaves and returns them in heap cell `out` -/
structure Encoder where
  out : Nat
  compute : List Bytes → Bytes

/-- the returned buffer is not the storage of any leaf of the object -/
def Fresh (c : Nat) (o : Obj) : Prop := ∀ l ∈ o.leaves, l ≠ .owned c

instance (c : Nat) (o : Obj) : Decidable (Fresh c o) := by unfold Fresh; exact inferInstance

/-- run the encoder: the memory afterwards and the bytes returned -/
def encode (e : Encoder) (m : Mem) (o : Obj) : Mem × Bytes :=
  let b := e.compute (contents m o)
  (writeCell m e.out b, b)

/-! ### leaves tagged with the store site that created them (tie to the extracted table) -/

structure TaggedLeaf where
  site : String
  prov : Prov
  deriving Repr

/-- the extractor's table is sound for an object: every leaf was created at a
listed store site, and a site classified OWNED only creates owned leaves -/
def TableSound (tbl : List (String × Bool)) (ls : List TaggedLeaf) : Prop :=
  ∀ l ∈ ls, ∃ e ∈ tbl, e.1 = l.site ∧ (e.2 = true → l.prov.isOwned = true)

end Dhcp.Ownership

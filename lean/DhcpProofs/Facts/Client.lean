import Dhcp.Gen.Extracted
import Dhcp.Client.Timed
/-
  Fact obligations (regenerated tie) for the client models (C10, C11, C12):
  what the timed model and the LTS hard-code about nclient4 / nclient6 is what
  /repo's working tree says now. `Dhcp.Gen.*` is regenerated on every check.
  Operator codes: comparison 2 = `<`; assignment 1 = `*=`.
-/
namespace Dhcp.Facts.Client
open Dhcp Dhcp.Client

/-- `timeout *= 2` (both clients): the doubling of `Timed.fire`. -/
theorem fact_backoff4 : Gen.nclient4_backoff_mul = some Timed.backoffMul.toNat ∧ Gen.nclient4_backoff_op = some 1 := by decide
theorem fact_backoff6 : Gen.nclient6_backoff_mul = some Timed.backoffMul.toNat ∧ Gen.nclient6_backoff_op = some 1 := by decide

/-- `for i := 0; i < c.retry || c.retry < 0; i++`: the loop condition of `Timed.begin` / `Timed.fire`. -/
theorem fact_retry_loop4 : Gen.nclient4_retry_init = some 0 ∧ Gen.nclient4_retry_cond_op = some 2 ∧
    Gen.nclient4_retry_neg_op = some 2 ∧ Gen.nclient4_retry_neg_const = some 0 := by decide
theorem fact_retry_loop6 : Gen.nclient6_retry_init = some 0 ∧ Gen.nclient6_retry_cond_op = some 2 ∧
    Gen.nclient6_retry_neg_op = some 2 ∧ Gen.nclient6_retry_neg_const = some 0 := by decide

/-- defaults: 5 s, 3 tries, 5 buffered responses per transaction. -/
theorem fact_defaults4 : Gen.nclient4_default_timeout = some Timed.defaultTimeoutNs ∧
    Gen.nclient4_default_retry = some Timed.defaultRetries ∧
    Gen.nclient4_default_bufferCap = some Timed.defaultBufferCap := by decide
theorem fact_defaults6 : Gen.nclient6_default_timeout = some Timed.defaultTimeoutNs ∧
    Gen.nclient6_default_retry = some Timed.defaultRetries ∧
    Gen.nclient6_default_bufferCap = some Timed.defaultBufferCap := by decide

/-- the per-try deadline is armed once per try, outside the wait loop (the
timed model fires it at `start + timeout` whatever is received meanwhile). -/
theorem fact_deadline_once4 : Gen.nclient4_deadline_armed_once = some true := by decide
theorem fact_deadline_once6 : Gen.nclient6_deadline_armed_once = some true := by decide

/-- `defer rem()`: every try unregisters before the next one registers. -/
theorem fact_defer_rem4 : Gen.nclient4_defer_rem = some true := by decide
theorem fact_defer_rem6 : Gen.nclient6_defer_rem = some true := by decide

/-- `cancel` removes only its own entry (`p == entry`): the LTS is instantiated
with `cancelChecksOwner := true`. -/
theorem fact_cancel_owner4 : Gen.nclient4_cancel_checks_owner = some true := by decide
theorem fact_cancel_owner6 : Gen.nclient6_cancel_checks_owner = some true := by decide

/-- `send` inserts the entry into `c.pending` before it writes the datagram (LTS:
`register` precedes `transmit`; timed model: a reply that arrives at offset 0 of
a try belongs to that try). -/
theorem fact_register_before_write4 : Gen.nclient4_register_before_write = some true := by decide
theorem fact_register_before_write6 : Gen.nclient6_register_before_write = some true := by decide

/-- `Close` closes `c.done` and waits for the receive loop whatever the
connection's own `Close` returns (LTS label `close` is unconditional; timed
model: a waiting call observes `closed` at the instant of Close). -/
theorem fact_close_always_wakes4 : Gen.nclient4_close_always_wakes = some true := by decide
theorem fact_close_always_wakes6 : Gen.nclient6_close_always_wakes = some true := by decide

/-- a failed `WriteTo` runs `cancel()` first, whatever the reason of the failure
(LTS: `transmitFail` / `transmitErr` lead to `cancel1`, `cancel2`; timed model:
after a write error the call is over and holds nothing). -/
theorem fact_write_error_unregisters4 : Gen.nclient4_write_error_unregisters = some true := by decide
theorem fact_write_error_unregisters6 : Gen.nclient6_write_error_unregisters = some true := by decide

end Dhcp.Facts.Client

import Dhcp.Gen.Extracted
import Dhcp.Server
/-
  Fact obligations (regenerated tie) for the serving-loop model (C14): the
  constants and the loop shape `Dhcp.Server.serveFrom` / `peer4` were written
  for are the ones /repo's working tree has now.  `Dhcp.Gen.*` is regenerated
  by /verif/extract (extract/server.go) on every check run; an anchor it cannot
  find becomes `none` and the obligation fails.
  Block-exit codes: 1 = `return`, 2 = `continue`, 3 = `break`, 0 = falls through.
-/
namespace Dhcp.Facts.Server
open Dhcp Dhcp.Server

/-- `rbuf := make([]byte, 4096)` in both loops -/
theorem fact_srv4ReadBuf : Gen.srv4ReadBuf = some readBufLen := by decide
theorem fact_srv6ReadBuf : Gen.srv6ReadBuf = some readBufLen := by decide

/-- a failed read returns, a failed parse continues, a non-UDP sender continues (`step`) -/
theorem fact_srv4LoopShape :
    Gen.srv4ReadErrExit = some 1 ∧ Gen.srv4ParseErrExit = some 2 ∧ Gen.srv4NotUDPExit = some 2 := by decide
theorem fact_srv6LoopShape : Gen.srv6ReadErrExit = some 1 ∧ Gen.srv6ParseErrExit = some 2 := by decide

/-- the handler is called at exactly one place, a `go` statement at the end of the loop body -/
theorem fact_srv4Handler : Gen.srv4HandlerCalls = some 1 ∧ Gen.srv4HandlerGo = some 1 := by decide
theorem fact_srv6Handler : Gen.srv6HandlerCalls = some 1 ∧ Gen.srv6HandlerGo = some 1 := by decide

/-- `if upeer.IP == nil || upeer.IP.To4().Equal(net.IPv4zero) { upeer = &net.UDPAddr{IP: net.IPv4bcast, Port: upeer.Port} }`
with `net.IPv4zero = IPv4(0,0,0,0)` and `net.IPv4bcast = IPv4(255,255,255,255)` (16-byte form) -/
theorem fact_srv4Rewrite :
    Gen.srv4RewriteCond = some 1 ∧ Gen.srv4RewriteKeepsPort = some 1 ∧
    Gen.srv4RewriteIfIP = some (ipv4zero4.map UInt8.toNat) ∧
    Gen.srv4RewriteToIP.map (fun l => [0, 0, 0, 0, 0, 0, 0, 0, 0, 0, 255, 255] ++ l) =
      some (ipv4bcast.map UInt8.toNat) := by decide

end Dhcp.Facts.Server

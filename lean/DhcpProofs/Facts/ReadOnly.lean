import Dhcp.Gen.Extracted
import Dhcp.ReadOnly
import DhcpProofs.Props.C20
/-
  Fact obligations for C20.  `Gen.readMethodEffects` is regenerated from /repo
  on every check by extract/effects.go: one entry (qualified method name,
  writesReceiver) per exported method of dhcpv4, dhcpv6, rfc1035label, iana
  that is not a setter by design.  A method that starts to sort, assign,
  delete, copy or append through its receiver — directly or through the
  functions it calls — turns its entry to `true` and `fact_no_read_method_writes`
  stops checking; an extractor that finds nothing (or fails: `none`) fails the
  same obligation and the size bound.
-/
namespace Dhcp.Facts.ReadOnly
open Dhcp Dhcp.ReadOnly

/-- the regenerated table; a failed extraction counts as one writing method -/
def table : List (String × Bool) := Gen.readMethodEffects.getD [("<missing>", true)]

theorem fact_no_read_method_writes : ∀ e ∈ table, e.2 = false := by decide +kernel

/-- the extractor did find the read methods (a silent "nothing found" fails here) -/
theorem fact_read_table_size : 80 ≤ table.length := by decide +kernel

/-- spot checks: the methods the property names are in the table -/
theorem fact_read_table_mentions :
    table.lookup "dhcpv4.OptionCodeList.String" = some false ∧
    table.lookup "dhcpv4.(*DHCPv4).Summary" = some false ∧
    table.lookup "dhcpv4.(*DHCPv4).ToBytes" = some false ∧
    table.lookup "dhcpv4.Options.ToBytes" = some false ∧
    table.lookup "dhcpv6.(*Message).Summary" = some false ∧
    table.lookup "dhcpv6.(*RelayMessage).ToBytes" = some false ∧
    table.lookup "dhcpv6.OptionCodes.Contains" = some false ∧
    table.lookup "rfc1035label.(*Labels).ToBytes" = some false ∧
    table.lookup "iana.Archs.String" = some false := by decide +kernel

theorem lookup_mem {n : String} {b : Bool} : ∀ {t : List (String × Bool)}, t.lookup n = some b → (n, b) ∈ t
  | [], h => by simp [List.lookup] at h
  | (k, v) :: t, h => by
    by_cases hk : n = k
    · subst hk
      simp [List.lookup] at h
      subst h
      exact List.mem_cons_self ..
    · have : (n == k) = false := by simpa using hk
      simp [List.lookup, this] at h
      exact List.mem_cons_of_mem _ (lookup_mem h)

/-- every listed method has effect `false` under the table's effect function -/
theorem fact_effectsOf_table {n : String} (h : (table.lookup n).isSome) : effectsOf table n = false := by
  unfold effectsOf
  cases hl : table.lookup n with
  | none => rw [hl] at h; cases h
  | some b =>
    have := fact_no_read_method_writes _ (lookup_mem hl)
    simpa using this

/-- C20 for the code as it is now: any sequence of the listed read methods of
    /repo's working tree, any length and order, leaves the value, its encoding
    and every other read method's result unchanged — in every world. -/
theorem fact_C20_for_this_tree {Val Out : Type} (w : World Val Out) (ops : List ReadOp) (v : Val)
    (h : ∀ op ∈ ops, (table.lookup op.name).isSome) :
    (runReads (effectsOf table) w v ops).2 = v
    ∧ (∀ {Wire : Type} (enc : Val → Wire), enc (runReads (effectsOf table) w v ops).2 = enc v)
    ∧ (runReads (effectsOf table) w v ops).1 = ops.map (fun op => w.result op v) :=
  have hf : ∀ op ∈ ops, effectsOf table op.name = false := fun op ho => fact_effectsOf_table (h op ho)
  ⟨(Props.C20.C20_any_sequence _ w ops v hf).1, (Props.C20.C20_any_sequence _ w ops v hf).2.1,
   Props.C20.C20_outputs _ w ops v hf⟩

end Dhcp.Facts.ReadOnly

import Dhcp.Gen.Extracted
import DhcpProofs.Props.C08
/-
  Fact obligations for C08, over the tables the go/ssa provenance analysis
  (extract/provenance.go) regenerates from /repo's working tree on every check:

  * `Gen.decodeLeafProvenance` — one row per instruction, in code reachable
    from a decoding entry point, that stores a slice- or string-typed value
    into the decoded object (field / element / map store, boxing, direct
    return), with `true` = OWNED (the stored value cannot share memory with the
    caller's input in any calling context) and `false` = VIEW;
  * `Gen.topLevelEncodersFresh` — the message- and collection-level encoders,
    `true` = the returned slice and the receiver cannot reach one another;
  * `Gen.valueEncodersFresh` — every other `ToBytes`; the ones that return
    receiver memory by design are listed here by name.

  A `CopyN` turned into `Consume`, a dropped `bytes.Clone`, `append(nil, p...)`
  turned into `p`, a cached output buffer: a row flips to `false` and the
  obligation fails.  A table the extractor could not produce is `none` and
  fails too.
-/
namespace Dhcp.Facts.Ownership
open Dhcp Dhcp.Ownership

theorem fact_all_leaves_owned :
    ∀ e ∈ Gen.decodeLeafProvenance.getD [("<missing>", false)], e.2 = true := by decide

theorem fact_top_level_encoders_fresh :
    ∀ e ∈ Gen.topLevelEncodersFresh.getD [("<missing>", false)], e.2 = true := by decide

/-- the tables are not trivially small (an analysis that lost its roots would pass vacuously) -/
theorem fact_table_sizes :
    45 ≤ (Gen.decodeLeafProvenance.getD []).length ∧
    (Gen.topLevelEncodersFresh.getD []).length = 5 ∧
    45 ≤ (Gen.valueEncodersFresh.getD []).length ∧
    60 ≤ (Gen.decodeRoots.getD []).length := by decide

/-- store sites that must be in the table (the places where the library copies today) -/
theorem fact_key_leaves_listed :
    ∀ n ∈ ["rfc1035label.(*Labels).FromBytes: rfc1035label.Labels.original",
           "dhcpv4.Options.fromBytesCheckEnd: dhcpv4.Options[]",
           "dhcpv4.FromBytes: dhcpv4.DHCPv4.ClientHWAddr",
           "dhcpv6.(*OptionGeneric).FromBytes: dhcpv6.OptionGeneric.OptionData",
           "dhcpv6.vendParseOption: dhcpv6.OptionGeneric.OptionData",
           "dhcpv6.(*OptIAAddress).FromBytes: dhcpv6.OptIAAddress.IPv6Addr",
           "dhcpv6.(*OptRemoteID).FromBytes: dhcpv6.OptRemoteID.RemoteID",
           "dhcpv6.(*DUIDOpaque).FromBytes: dhcpv6.DUIDOpaque.Data",
           "dhcpv6.(*optInterfaceID).FromBytes: dhcpv6.optInterfaceID.ID",
           "dhcpv6.RelayMessageFromBytes: dhcpv6.RelayMessage.LinkAddr"],
      n ∈ (Gen.decodeLeafProvenance.getD []).map (·.1) := by decide

theorem fact_top_level_encoders_listed :
    (Gen.topLevelEncodersFresh.getD []).map (·.1) =
      ["dhcpv4.(*DHCPv4).ToBytes", "dhcpv4.Options.ToBytes", "dhcpv6.(*Message).ToBytes",
       "dhcpv6.(*RelayMessage).ToBytes", "dhcpv6.Options.ToBytes"] := by decide

theorem fact_entry_points_listed :
    ∀ n ∈ ["dhcpv4.FromBytes", "dhcpv4.Options.FromBytes", "dhcpv6.FromBytes", "dhcpv6.MessageFromBytes",
           "dhcpv6.RelayMessageFromBytes", "dhcpv6.ParseOption", "dhcpv6.DUIDFromBytes",
           "dhcpv6.(*Options).FromBytes", "rfc1035label.FromBytes", "rfc1035label.(*Labels).FromBytes",
           "iana.(*Archs).FromBytes"],
      n ∈ Gen.decodeRoots.getD [] := by decide

/-- value encoders that return receiver memory BY DESIGN (their callers — the
encoders of `fact_top_level_encoders_fresh` — copy it with `WriteBytes`).
A new one is reported; one that starts copying is fine. -/
def fieldReturning : List String :=
  ["dhcpv4.IP.ToBytes", "dhcpv4.IPMask.ToBytes", "dhcpv4.OptionGeneric.ToBytes",
   "dhcpv6.(*NTPSuboptionMCAddr).ToBytes", "dhcpv6.(*NTPSuboptionSrvAddr).ToBytes",
   "dhcpv6.(*NTPSuboptionSrvFQDN).ToBytes", "dhcpv6.(*OptionGeneric).ToBytes",
   "dhcpv6.(*optDomainSearchList).ToBytes", "dhcpv6.(*optInterfaceID).ToBytes",
   "rfc1035label.(*Labels).ToBytes"]

theorem fact_field_returning_encoders :
    ∀ e ∈ Gen.valueEncodersFresh.getD [("<missing>", false)], e.2 = false → e.1 ∈ fieldReturning := by decide

/-- C08 for the code's table: any decoded object whose leaves were created at the
listed store sites (soundness of the provenance analysis, checked at run time by
the pointer scan of oracle `c08`) is unaffected by every overwrite of the input. -/
theorem fact_C08_scribble_extracted {α : Type} (ls : List TaggedLeaf)
    (hs : TableSound (Gen.decodeLeafProvenance.getD [("<missing>", false)]) ls)
    (m : Mem) (b' : Bytes) (f : Observer α) :
    observe f (scribble m b') ⟨ls.map (·.prov)⟩ = observe f m ⟨ls.map (·.prov)⟩ :=
  Props.C08_scribble_of_table _ ls fact_all_leaves_owned hs m b' f

end Dhcp.Facts.Ownership

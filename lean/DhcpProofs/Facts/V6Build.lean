import Dhcp.Gen.Extracted
import Dhcp.V6.Build
/-
  Fact obligations for the C16 model (Dhcp/V6/Build.lean): the message types and
  option codes it names, the type each builder requires and the type it gives
  to what it builds, the default option lists, the EUI-64 marker bytes — read
  from /repo's working tree on every run.
-/
namespace Dhcp.Facts.V6Build
open Dhcp

private def u (x : UInt8) : Option Nat := some x.toNat

theorem fact_messageTypes :
    Gen.mtSolicit = u V6.mtSolicit ∧ Gen.mtAdvertise = u V6.mtAdvertise ∧ Gen.mtRequest = u V6.mtRequest ∧
    Gen.mtConfirm = u V6.mtConfirm ∧ Gen.mtRenew = u V6.mtRenew ∧ Gen.mtRebind = u V6.mtRebind ∧
    Gen.mtReply = u V6.mtReply ∧ Gen.mtRelease = u V6.mtRelease ∧
    Gen.mtInformationRequest = u V6.mtInformationRequest ∧
    Gen.msgTypeRelayForward = u V6.relayForward ∧ Gen.msgTypeRelayReply = u V6.relayReply := by decide

theorem fact_optionCodes :
    Gen.ocClientID = some V6.ocClientID ∧ Gen.ocServerID = some V6.ocServerID ∧ Gen.ocIANA = some V6.ocIANA ∧
    Gen.ocORO = some V6.ocORO ∧ Gen.ocRelayMsg = some V6.ocRelayMsg ∧ Gen.ocRapidCommit = some V6.ocRapidCommit ∧
    Gen.ocVendorClass = some V6.ocVendorClass ∧ Gen.ocInterfaceID = some V6.ocInterfaceID ∧
    Gen.ocDNS = some V6.ocDNS ∧ Gen.ocDomainSearchList = some V6.ocDomainSearchList ∧
    Gen.ocIAPD = some V6.ocIAPD ∧ Gen.ocRemoteID = some V6.ocRemoteID ∧
    Gen.ocBootfileURL = some V6.ocBootfileURL ∧ Gen.ocBootfileParam = some V6.ocBootfileParam ∧
    Gen.ocClientLinkLayerAddr = some V6.ocClientLinkLayerAddr ∧
    Gen.ocIATA = some V6.ocIATA ∧ Gen.ocFQDN = some V6.ocFQDN := by decide

/-- the model's option codes are the codes of the constructors it matches on -/
theorem fact_codesOfConstructors :
    (V6.Opt6.clientID (.en 0 [])).code = V6.ocClientID ∧ (V6.Opt6.serverID (.en 0 [])).code = V6.ocServerID ∧
    (V6.Opt6.iana [] 0 0 []).code = V6.ocIANA ∧ (V6.Opt6.iapd [] 0 0 []).code = V6.ocIAPD ∧
    (V6.Opt6.oro []).code = V6.ocORO ∧ (V6.Opt6.interfaceID []).code = V6.ocInterfaceID ∧
    (V6.Opt6.remoteID 0 []).code = V6.ocRemoteID ∧ (V6.Opt6.clientLLA 0 []).code = V6.ocClientLinkLayerAddr ∧
    (V6.Opt6.vendorClass 0 []).code = V6.ocVendorClass ∧ (V6.Opt6.dns []).code = V6.ocDNS ∧
    (V6.Opt6.iata [] []).code = V6.ocIATA ∧ (V6.Opt6.fqdn 0 ⟨none, []⟩).code = V6.ocFQDN ∧
    (V6.Opt6.domainSearch ⟨none, []⟩).code = V6.ocDomainSearchList := by decide

/-- `relay.Type() != RELAY-FORW`, `sol.Type() != SOLICIT`, `adv.MessageType != ADVERTISE` (op 1 is `!=`) -/
theorem fact_requiredTypes :
    Gen.relayReplRequiresType = u V6.relayForward ∧ Gen.relayReplRequiresType_op = some 1 ∧
    Gen.advertiseRequiresType = u V6.mtSolicit ∧ Gen.advertiseRequiresType_op = some 1 ∧
    Gen.requestRequiresType = u V6.mtAdvertise ∧ Gen.requestRequiresType_op = some 1 := by decide

/-- the `switch msg.Type()` of NewReplyFromMessage: SOLICIT, then the types answered unconditionally -/
theorem fact_replySwitch :
    Gen.replySwitchCases = some ((V6.mtSolicit :: V6.replyableTypes).map UInt8.toNat) := by decide

theorem fact_builtTypes :
    Gen.relayReplEncapType = some [V6.relayReply.toNat] ∧ Gen.advertiseSetsType = some [V6.mtAdvertise.toNat] ∧
    Gen.requestSetsType = some [V6.mtRequest.toNat] ∧ Gen.replySetsType = some [V6.mtReply.toNat] := by decide

theorem fact_defaultOptions :
    Gen.requestDefaultORO = some [V6.ocDNS, V6.ocDomainSearchList] ∧ Gen.requestElapsed = some [0] ∧
    Gen.netbootORO = some [V6.ocBootfileURL, V6.ocBootfileParam] ∧
    Gen.rapidCommitCode = some [V6.ocRapidCommit] := by decide

theorem fact_eui64 :
    Gen.eui64Byte11 = some 255 ∧ Gen.eui64Byte11_op = some 0 ∧
    Gen.eui64Byte12 = some 254 ∧ Gen.eui64Byte12_op = some 0 ∧
    Gen.encapTypeA = u V6.relayForward ∧ Gen.encapTypeA_op = some 1 := by decide

/-- the bodies `V6.update`, `V6.del`, `Msg6.addOption/updateOption` were written
from: `Options.Add` appends; `Options.Del` copies the options whose code differs
(`!=`) into a fresh slice; `Options.Update` overwrites the first option whose
code is equal (`==`) and RETURNS inside the loop, else calls `Add`; the four
message-level methods only forward -/
theorem fact_optionListOps :
    Gen.shape_Options_Add = some ["assign", "call:append"] ∧
    Gen.shape_Options_Del = some ["define", "call:make", "call:len", "range", "if", "binop:!=", "call:Code",
      "assign", "call:append", "assign"] ∧
    Gen.shape_Options_Update = some ["range", "if", "binop:==", "call:Code", "call:Code", "assign", "return",
      "call:Add"] ∧
    Gen.shape_Message_AddOption = some ["call:Add"] ∧ Gen.shape_Message_UpdateOption = some ["call:Update"] ∧
    Gen.shape_RelayMessage_AddOption = some ["call:Add"] ∧
    Gen.shape_RelayMessage_UpdateOption = some ["call:Update"] := by decide

/-- the bodies the five modifiers `Mod6.fqdn / domainSearchList / ianaAddrs / iata /
iapd` were written from: the two name modifiers build a label set literal and
call `UpdateOption` on whatever message kind they get; the three
identity-association modifiers act on `*Message` only (checked assertion), take
`One<IA>()`, fall back on an empty literal when it is nil, (`copy` the IAID for
IA_TA and IA_PD, not for IA_NA,) `Add` every argument to the sub-options and
call `UpdateOption`; `IATA()` / `IAPD()` assert the type of EVERY option of the
code without a check -/
theorem fact_modifierBodies :
    Gen.shape_WithFQDN = some ["return", "call:UpdateOption", "lit:OptFQDN", "lit:rfc1035label.Labels",
      "lit:[]string"] ∧
    Gen.shape_WithDomainSearchList = some ["return", "call:UpdateOption", "call:OptDomainSearchList",
      "lit:rfc1035label.Labels"] ∧
    Gen.shape_WithIANA = some ["return", "if", "define,ok", "assert:*Message", "define", "call:OneIANA", "if",
      "binop:==", "assign", "lit:OptIANA", "range", "call:Add", "call:UpdateOption"] ∧
    Gen.shape_WithIATA = some ["return", "if", "define,ok", "assert:*Message", "define", "call:OneIATA", "if",
      "binop:==", "assign", "lit:OptIATA", "call:copy", "range", "call:Add", "call:UpdateOption"] ∧
    Gen.shape_WithIAPD = some ["return", "if", "define,ok", "assert:*Message", "define", "call:OneIAPD", "if",
      "binop:==", "assign", "lit:OptIAPD", "call:copy", "range", "call:Add", "call:UpdateOption"] ∧
    Gen.shape_IATA = some ["define", "call:Get", "range", "assign", "call:append", "assert:*OptIATA", "return"] ∧
    Gen.shape_IAPD = some ["define", "call:Get", "range", "assign", "call:append", "assert:*OptIAPD", "return"] ∧
    Gen.shape_OneIATA = some ["define", "call:IATA", "if", "binop:==", "call:len", "return", "return"] ∧
    Gen.shape_OneIAPD = some ["define", "call:IAPD", "if", "binop:==", "call:len", "return", "return"] := by
  decide

end Dhcp.Facts.V6Build

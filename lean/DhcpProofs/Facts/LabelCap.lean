import Dhcp.Gen.Extracted
import Dhcp.Label
/-
  Fact obligation (regenerated tie) for C09: the decoding loop of
  rfc1035label still rejects a name as soon as `len(label) > 253`
  (comparison operator 4 = `>`).  The linear size bound of C09 (label
  expansion factor 144) is proved for exactly this cap; if the check
  disappears the extractor emits `none` and this obligation fails.
-/
namespace Dhcp.Facts.LabelCap
open Dhcp

theorem fact_labelCap : Gen.c09LabelCap = some Label.maxNameLength ∧ Gen.c09LabelCap_op = some 4 := by
  decide

end Dhcp.Facts.LabelCap

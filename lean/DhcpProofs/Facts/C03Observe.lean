import Dhcp.Gen.Extracted
import Dhcp.V6.Observe
import Dhcp.V4.Observe
/-
  Fact obligations for the C03 observer models (Dhcp/V6/Observe.lean,
  Dhcp/V4/Observe.lean), read from /repo's working tree on every run
  (extract/c03x.go): the vendor prefixes the ZTP parsers test and the
  separators they split on (each literal followed by a 0 octet, source order),
  the piece counts compared before indexing (`(op, n)` pairs, op 0 `==`,
  1 `!=`, 2 `<`), enterprise numbers, Mellanox sub-option codes, the message
  types of netboot's conversation switch, option codes.
-/
namespace Dhcp.Facts.C03Observe
open Dhcp

private def lits (xs : List Bytes) : Option (List Nat) := some (xs.flatMap (fun s => s.map UInt8.toNat ++ [0]))

/-- ztpv6.ParseVendorData: `HasPrefix` literals (the Ciena prefix is `strconv.Itoa` of the enterprise number) -/
theorem fact_ztp6_prefixes :
    Gen.ztp6HasPrefix = lits [V6.pfxArista, V6.pfxCisco, V6.pfxZPE, V6.pfxNVOS] ∧
    Gen.ztp6Split = lits [V6.sepSemi, V6.sepColon, V6.sepHashes, V6.sepDash] ∧
    Gen.ztp6LenCmp = some [2, 4, 2, 3, 2, 3, 2, 3] := by decide

theorem fact_ztp_enterprise :
    Gen.entMellanox = some V6.entMellanox ∧ Gen.entCiscoSystems = some V4.Obs.entCisco ∧
    Gen.entCienaCorporation = some 1271 ∧ V6.pfxCiena = Str.ascii ['1', '2', '7', '1'] ∧ V4.Obs.pfxCiena = V6.pfxCiena ∧
    Gen.mlnxSubOptionModel = some 1 ∧ Gen.mlnxSubOptionSerial = some 3 := by decide

/-- ztpv4.parseClassIdentifier and parseVIVC -/
theorem fact_ztp4_prefixes :
    Gen.ztp4HasPrefix = lits [V4.Obs.pfxArista, V4.Obs.pfxZPE, V4.Obs.pfxJuniperDash, V4.Obs.pfxJuniperColon] ∧
    Gen.ztp4Split = lits [V4.Obs.sepSemi, V4.Obs.sepColon, V4.Obs.sepDash, V4.Obs.sepColon, V4.Obs.sepDash] ∧
    Gen.ztp4LenCmp = some [2, 4, 2, 3, 2, 3, 0, 3, 1, 3] ∧
    Gen.ztp4VIVCSplit = lits [V4.Obs.sepSemi, V4.Obs.sepColon] ∧ Gen.ztp4VIVCLenCmp = some [1, 2] := by decide

/-- netboot: `switch m.Type()` of ConversationToNetconf; the OFFER test of ConversationToNetconfv4 -/
theorem fact_netboot :
    Gen.netbootConvSwitch = some [V6.mtAdvertise.toNat, V6.mtReply.toNat] ∧
    Gen.v4OpcodeBootReply = some V4.Obs.opBootReply.toNat ∧ Gen.v4MessageTypeOffer = some V4.Obs.mtOffer.toNat := by
  decide

theorem fact_codes :
    Gen.ocIAAddr = some V6.ocIAAddr ∧ Gen.ocVendorOpts = some V6.ocVendorOpts ∧ Gen.ocNTPServer = some V6.ocNTPServer ∧
    Gen.v4OptionClientIdentifier = some V4.Obs.clientIdentifier.toNat ∧
    Gen.v4AgentCircuitIDSubOption = some V4.Obs.agentCircuitID.toNat ∧
    (V6.Opt6.iaaddr none 0 0 []).code = V6.ocIAAddr ∧ (V6.Opt6.vendorOpts 0 []).code = V6.ocVendorOpts ∧
    (V6.Opt6.ntp []).code = V6.ocNTPServer := by decide

end Dhcp.Facts.C03Observe

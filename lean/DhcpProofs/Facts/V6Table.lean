import Dhcp.Gen.Extracted
import Dhcp.V6.Types
/-
  Fact obligations for the DHCPv6 codec: the `ParseOption` switch, the NTP
  sub-option switch and the DUID switch of /repo's working tree dispatch
  exactly the codes the model has constructors for, to the Go types the model's
  constructors stand for.  A new option type in the switch without a model
  constructor (or a code moved to another type) fails here.
-/
namespace Dhcp.Facts.V6Table
open Dhcp

/-- Go type each `Opt6` constructor models, by code (65536 marks `default`) -/
def modelled : List (Nat × String) :=
  [(1, "optClientID"), (2, "optServerID"), (3, "OptIANA"), (4, "OptIATA"), (5, "OptIAAddress"),
   (6, "optRequestedOption"), (8, "optElapsedTime"), (9, "optRelayMsg"), (13, "OptStatusCode"),
   (15, "OptUserClass"), (16, "OptVendorClass"), (17, "OptVendorOpts"), (18, "optInterfaceID"),
   (23, "optDNS"), (24, "optDomainSearchList"), (25, "OptIAPD"), (26, "OptIAPrefix"),
   (32, "optInformationRefreshTime"), (37, "OptRemoteID"), (39, "OptFQDN"), (56, "OptNTPServer"),
   (59, "optBootFileURL"), (60, "optBootFileParam"), (61, "optClientArchType"),
   (62, "OptNetworkInterfaceID"), (79, "optClientLinkLayerAddress"), (87, "OptDHCPv4Msg"),
   (88, "OptDHCP4oDHCP6Server"), (97, "Opt4RD"), (98, "Opt4RDMapRule"), (99, "Opt4RDNonMapRule"),
   (135, "optRelayPort"), (65536, "OptionGeneric")]

theorem fact_parseOptionTable : Gen.parseOptionTable = some modelled := by decide
theorem fact_knownCodes : (modelled.map (·.1)).filter (· < 65536) = V6.knownCodes := by decide
theorem fact_ntpTable : Gen.ntpSuboptionTable =
    some [(1, "NTPSuboptionSrvAddr"), (2, "NTPSuboptionMCAddr"), (3, "NTPSuboptionSrvFQDN"),
          (65536, "OptionGeneric")] := by decide
theorem fact_duidTable : Gen.duidTable =
    some [(1, "DUIDLLT"), (2, "DUIDEN"), (3, "DUIDLL"), (4, "DUIDUUID"), (65536, "DUIDOpaque")] := by decide
theorem fact_relayTypes : Gen.msgTypeRelayForward = some V6.relayForward.toNat ∧
    Gen.msgTypeRelayReply = some V6.relayReply.toNat ∧ Gen.relayHeaderSize = some 34 := by decide
theorem fact_iaprefixMaxLen : Gen.iaprefixMaxLen = some 128 ∧ Gen.iaprefixMaxLen_op = some 4 := by decide
theorem fact_optsLoopHas : Gen.optsLoopHas6 = some 4 := by decide

end Dhcp.Facts.V6Table

import DhcpProofs.Lemmas.V6Fuel
import DhcpProofs.Lemmas.LabelApi
/-
  C02 with freshly built label sets: the normalisation `normMsg` (fresh label
  set ↦ its decoded form, everywhere in a message) does not change the encoding,
  maps the extended domain `WFMsg'` into the round-trip domain `WFMsg`, and is
  the identity on `WFMsg`.  With `dec6_encMsg` this gives
  `dec6 (encMsg m) = ok (normMsg m)` on `WFMsg'`.
-/
namespace Dhcp.V6
open Dhcp

/-! ### one label set -/

theorem normLabels_labels (l : Label.Labels) : (normLabels l).labels = l.labels := rfl

/-- the normal form encodes to the same bytes — for ANY set: names valid or not,
`original` nil, parseable or garbage -/
theorem normLabels_toBytes (l : Label.Labels) : (normLabels l).toBytes = l.toBytes := by
  cases l with
  | mk orig ns =>
    simp only [normLabels]
    generalize ht : (Label.Labels.mk orig ns).toBytes = t
    -- the three ways `t` can arise
    have key : (Label.labelsFromBytes t = .ok ns) ∨ t = Label.labelsToBytes ns ∨
        (∀ ns', Label.labelsFromBytes t ≠ .ok ns') := by
      subst ht
      unfold Label.Labels.toBytes
      simp only
      cases hr : Label.labelsFromBytes (Label.goBytes orig) with
      | ok ns0 =>
        simp only
        by_cases hc : orig ≠ none ∧ ns0 = ns
        · rw [if_pos hc]; left; rw [hr, hc.2]
        · rw [if_neg hc]; right; left; rfl
      | err =>
        simp only
        right; right; intro ns' h; rw [hr] at h; cases h
      | panic => exact absurd hr (Label.labelsFromBytes_ne_panic _)
    unfold Label.Labels.toBytes
    simp only [Label.goBytes]
    rcases key with h | h | h
    · rw [h]; simp
    · cases hr : Label.labelsFromBytes t with
      | ok ns' => simp only; split <;> simp [h]
      | err => rfl
      | panic => rfl
    · cases hr : Label.labelsFromBytes t with
      | ok ns' => exact absurd hr (h ns')
      | err => rfl
      | panic => rfl

theorem normLabels_of_LabelsOK {l : Label.Labels} (h : LabelsOK l) : normLabels l = l := by
  obtain ⟨b, hb, hp⟩ := h
  cases l with
  | mk orig ns =>
    simp only at hb hp
    subst hb
    have : (Label.Labels.mk (some b) ns).toBytes = b := by
      simp [Label.Labels.toBytes, Label.goBytes, hp]
    simp only [normLabels, this]

theorem normLabels_idem (l : Label.Labels) : normLabels (normLabels l) = normLabels l := by
  show Label.Labels.mk (some (normLabels l).toBytes) (normLabels l).labels = _
  rw [normLabels_toBytes, normLabels_labels]; rfl

/-- what `ToBytes` emits for a set of the extended domain decodes to its names -/
theorem labelsFromBytes_toBytes_of_OK' {l : Label.Labels} (h : LabelsOK' l) :
    Label.labelsFromBytes l.toBytes = .ok l.labels := by
  cases l with
  | mk orig ns =>
    rcases h with ⟨b, hb, hp⟩ | ⟨hv, ho⟩
    · simp only at hb hp
      subst hb
      have : (Label.Labels.mk (some b) ns).toBytes = b := by
        simp [Label.Labels.toBytes, Label.goBytes, hp]
      rw [this]; exact hp
    · simp only at hv ho
      rcases ho with ho | ⟨b, ns0, ho, hp⟩
      · subst ho
        rw [Label.toBytes_original_none ⟨none, ns⟩ rfl]
        exact Label.labelsFromBytes_labelsToBytes ns hv
      · subst ho
        by_cases hc : ns0 = ns
        · subst hc
          have : (Label.Labels.mk (some b) ns0).toBytes = b := by
            simp [Label.Labels.toBytes, Label.goBytes, hp]
          rw [this]; exact hp
        · have : (Label.Labels.mk (some b) ns).toBytes = Label.labelsToBytes ns := by
            simp [Label.Labels.toBytes, Label.goBytes, hp, hc]
          rw [this]; exact Label.labelsFromBytes_labelsToBytes ns hv

/-- a set of the extended domain (fresh, or decoded and edited, valid names)
normalises to a decoded-form set (C19 round trip) -/
theorem LabelsOK_norm {l : Label.Labels} (h : LabelsOK' l) : LabelsOK (normLabels l) :=
  ⟨l.toBytes, rfl, labelsFromBytes_toBytes_of_OK' h⟩

/-! ### NTP suboptions -/

theorem normNTP_code (s : NTPSub) : (normNTP s).code = s.code := by cases s <;> rfl

theorem encNTPSub_norm (s : NTPSub) : encNTPSub (normNTP s) = encNTPSub s := by
  cases s <;> simp only [normNTP, encNTPSub, normLabels_toBytes]

theorem NTPSubOK_norm {s : NTPSub} (h : NTPSubOK' s) : NTPSubOK (normNTP s) := by
  cases s with
  | srvFQDN l =>
    simp only [NTPSubOK'] at h
    exact ⟨LabelsOK_norm h.1, by rw [normLabels_labels]; exact h.2⟩
  | srvAddr ip => exact h
  | mcAddr ip => exact h
  | generic c d => exact h

theorem normNTP_of_OK {s : NTPSub} (h : NTPSubOK s) : normNTP s = s := by
  cases s with
  | srvFQDN l => simp only [NTPSubOK] at h; simp only [normNTP, normLabels_of_LabelsOK h.1]
  | srvAddr ip => rfl
  | mcAddr ip => rfl
  | generic c d => rfl

theorem encNTP_list_norm (subs : List NTPSub) :
    (subs.map normNTP).flatMap (fun s => tlv s.code (encNTPSub s)) =
      subs.flatMap (fun s => tlv s.code (encNTPSub s)) := by
  induction subs with
  | nil => rfl
  | cons s ss ih => simp only [List.map_cons, List.flatMap_cons, normNTP_code, encNTPSub_norm, ih]

/-! ### the normalisation keeps codes and encodings -/

theorem normOpt_code (o : Opt6) : (normOpt o).code = o.code := by
  cases o <;> rfl

mutual
theorem encOpt_norm : (o : Opt6) → encOpt (normOpt o) = encOpt o
  | .iana i t1 t2 os => by simp only [normOpt, encOpt, encOpts_norm os]
  | .iata i os => by simp only [normOpt, encOpt, encOpts_norm os]
  | .iaaddr ip p v os => by simp only [normOpt, encOpt, encOpts_norm os]
  | .relayMsg m => by simp only [normOpt, encOpt, encMsg_norm m]
  | .iapd i t1 t2 os => by simp only [normOpt, encOpt, encOpts_norm os]
  | .iaprefix p v pfx os => by simp only [normOpt, encOpt, encOpts_norm os]
  | .fourRD os => by simp only [normOpt, encOpt, encOpts_norm os]
  | .domainSearch l => by simp only [normOpt, encOpt, normLabels_toBytes]
  | .fqdn f n => by simp only [normOpt, encOpt, normLabels_toBytes]
  | .ntp subs => by simp only [normOpt, encOpt, encNTP_list_norm]
  | .clientID _ | .serverID _ | .oro _ | .elapsed _ | .status .. | .userClass _ | .vendorClass ..
  | .vendorOpts .. | .interfaceID _ | .dns _ | .infoRefresh _ | .remoteID .. | .bootfileURL _
  | .bootfileParam _ | .archType _ | .nii .. | .clientLLA .. | .dhcpv4Msg _ | .dhcp4o6Server _
  | .fourRDMapRule .. | .fourRDNonMapRule .. | .relayPort _ | .generic .. => rfl
theorem encOpts_norm : (os : List Opt6) → encOpts (normOpts os) = encOpts os
  | [] => rfl
  | o :: os => by simp only [normOpts, encOpts, normOpt_code, encOpt_norm o, encOpts_norm os]
theorem encMsg_norm : (m : Msg6) → encMsg (normMsg m) = encMsg m
  | .msg t xid os => by simp only [normMsg, encMsg, encOpts_norm os]
  | .relay t h l p os => by simp only [normMsg, encMsg, encOpts_norm os]
end

/-! ### `WFMsg'` is mapped into `WFMsg` -/

mutual
theorem WFOpt_norm : (o : Opt6) → WFOpt' o → WFOpt (normOpt o)
  | .iana i t1 t2 os, h => by
    simp only [WFOpt'] at h; simp only [normOpt, WFOpt]
    exact ⟨h.1, h.2.1, h.2.2.1, WFOpts_norm os h.2.2.2⟩
  | .iata i os, h => by
    simp only [WFOpt'] at h; simp only [normOpt, WFOpt]
    exact ⟨h.1, WFOpts_norm os h.2⟩
  | .iaaddr ip p v os, h => by
    simp only [WFOpt'] at h; simp only [normOpt, WFOpt]
    exact ⟨h.1, h.2.1, h.2.2.1, WFOpts_norm os h.2.2.2⟩
  | .relayMsg m, h => by
    simp only [WFOpt'] at h; simp only [normOpt, WFOpt]
    exact WFMsg_norm m h
  | .iapd i t1 t2 os, h => by
    simp only [WFOpt'] at h; simp only [normOpt, WFOpt]
    exact ⟨h.1, h.2.1, h.2.2.1, WFOpts_norm os h.2.2.2⟩
  | .iaprefix p v pfx os, h => by
    simp only [WFOpt'] at h; simp only [normOpt, WFOpt]
    exact ⟨h.1, h.2.1, h.2.2.1, WFOpts_norm os h.2.2.2⟩
  | .fourRD os, h => by
    simp only [WFOpt'] at h; simp only [normOpt, WFOpt]
    exact WFOpts_norm os h
  | .domainSearch l, h => by
    simp only [WFOpt'] at h; simp only [normOpt, WFOpt]; exact LabelsOK_norm h
  | .fqdn f n, h => by
    simp only [WFOpt'] at h; simp only [normOpt, WFOpt]; exact LabelsOK_norm h
  | .ntp subs, h => by
    simp only [WFOpt'] at h; simp only [normOpt, WFOpt]
    intro s hs
    obtain ⟨s0, hs0, rfl⟩ := List.mem_map.mp hs
    exact ⟨NTPSubOK_norm (h s0 hs0).1, by rw [encNTPSub_norm]; exact (h s0 hs0).2⟩
  | .clientID _, h | .serverID _, h | .oro _, h | .elapsed _, h | .status .., h | .userClass _, h
  | .vendorClass .., h | .vendorOpts .., h | .interfaceID _, h | .dns _, h | .infoRefresh _, h
  | .remoteID .., h | .bootfileURL _, h | .bootfileParam _, h | .archType _, h | .nii .., h
  | .clientLLA .., h | .dhcpv4Msg _, h | .dhcp4o6Server _, h | .fourRDMapRule .., h
  | .fourRDNonMapRule .., h | .relayPort _, h | .generic .., h => by
    simp only [WFOpt'] at h; simp only [normOpt]; exact h
theorem WFOpts_norm : (os : List Opt6) → WFOpts' os → WFOpts (normOpts os)
  | [], _ => trivial
  | o :: os, h => by
    simp only [WFOpts'] at h; simp only [normOpts, WFOpts]
    exact ⟨WFOpt_norm o h.1, by rw [encOpt_norm]; exact h.2.1, WFOpts_norm os h.2.2⟩
theorem WFMsg_norm : (m : Msg6) → WFMsg' m → WFMsg (normMsg m)
  | .msg t xid os, h => by
    simp only [WFMsg'] at h; simp only [normMsg, WFMsg]
    exact ⟨h.1, h.2.1, WFOpts_norm os h.2.2⟩
  | .relay t hc l p os, h => by
    simp only [WFMsg'] at h; simp only [normMsg, WFMsg]
    exact ⟨h.1, h.2.1, h.2.2.1, WFOpts_norm os h.2.2.2⟩
end

/-! ### on `WFMsg` nothing changes: `WFMsg ⊆ WFMsg'`, `normMsg = id` there -/

theorem map_normNTP_of_OK (subs : List NTPSub) (h : ∀ s ∈ subs, NTPSubOK s) : subs.map normNTP = subs := by
  induction subs with
  | nil => rfl
  | cons s ss ih =>
    simp only [List.map_cons, normNTP_of_OK (h s (by simp)), ih (fun x hx => h x (by simp [hx]))]

mutual
theorem normOpt_of_WF : (o : Opt6) → WFOpt o → normOpt o = o
  | .iana i t1 t2 os, h => by
    simp only [WFOpt] at h; simp only [normOpt, normOpts_of_WF os h.2.2.2]
  | .iata i os, h => by
    simp only [WFOpt] at h; simp only [normOpt, normOpts_of_WF os h.2]
  | .iaaddr ip p v os, h => by
    simp only [WFOpt] at h; simp only [normOpt, normOpts_of_WF os h.2.2.2]
  | .relayMsg m, h => by
    simp only [WFOpt] at h; simp only [normOpt, normMsg_of_WF m h]
  | .iapd i t1 t2 os, h => by
    simp only [WFOpt] at h; simp only [normOpt, normOpts_of_WF os h.2.2.2]
  | .iaprefix p v pfx os, h => by
    simp only [WFOpt] at h; simp only [normOpt, normOpts_of_WF os h.2.2.2]
  | .fourRD os, h => by
    simp only [WFOpt] at h; simp only [normOpt, normOpts_of_WF os h]
  | .domainSearch l, h => by
    simp only [WFOpt] at h; simp only [normOpt, normLabels_of_LabelsOK h]
  | .fqdn f n, h => by
    simp only [WFOpt] at h; simp only [normOpt, normLabels_of_LabelsOK h]
  | .ntp subs, h => by
    simp only [WFOpt] at h
    simp only [normOpt, map_normNTP_of_OK subs (fun s hs => (h s hs).1)]
  | .clientID _, _ | .serverID _, _ | .oro _, _ | .elapsed _, _ | .status .., _ | .userClass _, _
  | .vendorClass .., _ | .vendorOpts .., _ | .interfaceID _, _ | .dns _, _ | .infoRefresh _, _
  | .remoteID .., _ | .bootfileURL _, _ | .bootfileParam _, _ | .archType _, _ | .nii .., _
  | .clientLLA .., _ | .dhcpv4Msg _, _ | .dhcp4o6Server _, _ | .fourRDMapRule .., _
  | .fourRDNonMapRule .., _ | .relayPort _, _ | .generic .., _ => rfl
theorem normOpts_of_WF : (os : List Opt6) → WFOpts os → normOpts os = os
  | [], _ => rfl
  | o :: os, h => by
    simp only [WFOpts] at h
    simp only [normOpts, normOpt_of_WF o h.1, normOpts_of_WF os h.2.2]
theorem normMsg_of_WF : (m : Msg6) → WFMsg m → normMsg m = m
  | .msg t xid os, h => by
    simp only [WFMsg] at h; simp only [normMsg, normOpts_of_WF os h.2.2]
  | .relay t hc l p os, h => by
    simp only [WFMsg] at h; simp only [normMsg, normOpts_of_WF os h.2.2.2]
end

theorem NTPSubOK'_of_OK {s : NTPSub} (h : NTPSubOK s) : NTPSubOK' s := by
  cases s with
  | srvFQDN l => simp only [NTPSubOK] at h; exact ⟨.inl h.1, h.2⟩
  | srvAddr ip => exact h
  | mcAddr ip => exact h
  | generic c d => exact h

mutual
theorem WFOpt'_of_WF : (o : Opt6) → WFOpt o → WFOpt' o
  | .iana i t1 t2 os, h => by
    simp only [WFOpt] at h; simp only [WFOpt']
    exact ⟨h.1, h.2.1, h.2.2.1, WFOpts'_of_WF os h.2.2.2⟩
  | .iata i os, h => by
    simp only [WFOpt] at h; simp only [WFOpt']
    exact ⟨h.1, WFOpts'_of_WF os h.2⟩
  | .iaaddr ip p v os, h => by
    simp only [WFOpt] at h; simp only [WFOpt']
    exact ⟨h.1, h.2.1, h.2.2.1, WFOpts'_of_WF os h.2.2.2⟩
  | .relayMsg m, h => by
    simp only [WFOpt] at h; simp only [WFOpt']
    exact WFMsg'_of_WF m h
  | .iapd i t1 t2 os, h => by
    simp only [WFOpt] at h; simp only [WFOpt']
    exact ⟨h.1, h.2.1, h.2.2.1, WFOpts'_of_WF os h.2.2.2⟩
  | .iaprefix p v pfx os, h => by
    simp only [WFOpt] at h; simp only [WFOpt']
    exact ⟨h.1, h.2.1, h.2.2.1, WFOpts'_of_WF os h.2.2.2⟩
  | .fourRD os, h => by
    simp only [WFOpt] at h; simp only [WFOpt']
    exact WFOpts'_of_WF os h
  | .domainSearch l, h => by
    simp only [WFOpt] at h; simp only [WFOpt']; exact .inl h
  | .fqdn f n, h => by
    simp only [WFOpt] at h; simp only [WFOpt']; exact .inl h
  | .ntp subs, h => by
    simp only [WFOpt] at h; simp only [WFOpt']
    exact fun s hs => ⟨NTPSubOK'_of_OK (h s hs).1, (h s hs).2⟩
  | .clientID _, h | .serverID _, h | .oro _, h | .elapsed _, h | .status .., h | .userClass _, h
  | .vendorClass .., h | .vendorOpts .., h | .interfaceID _, h | .dns _, h | .infoRefresh _, h
  | .remoteID .., h | .bootfileURL _, h | .bootfileParam _, h | .archType _, h | .nii .., h
  | .clientLLA .., h | .dhcpv4Msg _, h | .dhcp4o6Server _, h | .fourRDMapRule .., h
  | .fourRDNonMapRule .., h | .relayPort _, h | .generic .., h => by
    simp only [WFOpt']; exact h
theorem WFOpts'_of_WF : (os : List Opt6) → WFOpts os → WFOpts' os
  | [], _ => trivial
  | o :: os, h => by
    simp only [WFOpts] at h; simp only [WFOpts']
    exact ⟨WFOpt'_of_WF o h.1, h.2.1, WFOpts'_of_WF os h.2.2⟩
theorem WFMsg'_of_WF : (m : Msg6) → WFMsg m → WFMsg' m
  | .msg t xid os, h => by
    simp only [WFMsg] at h; simp only [WFMsg']
    exact ⟨h.1, h.2.1, WFOpts'_of_WF os h.2.2⟩
  | .relay t hc l p os, h => by
    simp only [WFMsg] at h; simp only [WFMsg']
    exact ⟨h.1, h.2.1, h.2.2.1, WFOpts'_of_WF os h.2.2.2⟩
end

/-! ### the round trip with fresh label sets -/

theorem dec6_encMsg_fresh (m : Msg6) (h : WFMsg' m) : dec6 (encMsg m) = .ok (normMsg m) := by
  rw [← encMsg_norm m]
  exact dec6_encMsg (normMsg m) (WFMsg_norm m h)

theorem parseOption_encOpt_fresh (o : Opt6) (h : WFOpt' o) :
    parseOption o.code (encOpt o) = .ok (normOpt o) := by
  rw [← encOpt_norm o, ← normOpt_code o]
  exact parseOption_encOpt (normOpt o) (WFOpt_norm o h)

/-- the normal form is a fixed point: decoding its encoding returns it unchanged -/
theorem normMsg_idem (m : Msg6) (h : WFMsg' m) : normMsg (normMsg m) = normMsg m :=
  normMsg_of_WF _ (WFMsg_norm m h)

end Dhcp.V6

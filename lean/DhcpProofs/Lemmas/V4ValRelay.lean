import DhcpProofs.Lemmas.V4ValRoutes
import DhcpProofs.Lemmas.V4Dec
/-
  C17 helper lemmas, part 4: relay agent information (RFC 3046): the shared
  option loop with `checkEnd = false` computes the spec's tuple list, folded
  into a map by concatenating repeated codes.
-/
namespace Dhcp.V4
open Dhcp List
open Dhcp.Spec

/-- apply a tuple list to a map the way the option loop does -/
def applyTuples (o : Opts) (ts : List (UInt8 × Bytes)) : Opts :=
  ts.foldl (fun o t => o.app t.1 t.2) o

theorem optsLoop'_code_only (c : UInt8) (hc0 : c ≠ 0) (hc255 : c ≠ 255) (o : Opts) :
    optsLoop' ⟨[c], false⟩ o = none := by
  simp [optsLoop', optsLoop, Lexer.len, optPad, optEnd, hc0, hc255, Lexer.read8_nil, Lexer.consume]

theorem optsLoop'_short (c n : UInt8) (hc0 : c ≠ 0) (hc255 : c ≠ 255) (r : Bytes)
    (h : r.length < n.toNat) (o : Opts) :
    optsLoop' ⟨c :: n :: r, false⟩ o = none := by
  have : ¬ n.toNat ≤ r.length := by omega
  simp [optsLoop', optsLoop, Lexer.len, optPad, optEnd, hc0, hc255, Lexer.consume, this]

theorem optsLoop'_subOptionsPadEnd (m : Nat) : ∀ (d : Bytes) (o : Opts), d.length ≤ m →
    (optsLoop' ⟨d, false⟩ o).map (·.1) = (Val4.subOptionsPadEnd d).map (applyTuples o) := by
  induction m with
  | zero =>
    intro d o h
    have : d = [] := List.eq_nil_of_length_eq_zero (by omega)
    subst this
    simp [optsLoop'_nil, Val4.subOptionsPadEnd, applyTuples]
  | succ m ih =>
    intro d o h
    match d with
    | [] => simp [optsLoop'_nil, Val4.subOptionsPadEnd, applyTuples]
    | c :: rest =>
      have hrest : rest.length ≤ m := by simp at h; omega
      rw [Val4.subOptionsPadEnd.eq_def]
      simp only []
      by_cases hc0 : c = 0
      · subst hc0
        simp only [if_true]
        rw [optsLoop'_pad]
        exact ih rest o hrest
      · simp only [hc0, if_false]
        by_cases hc255 : c = 255
        · subst hc255
          simp [optsLoop'_end, applyTuples]
        · simp only [hc255, if_false]
          match rest with
          | [] => simp [optsLoop'_code_only c hc0 hc255]
          | n :: r =>
            by_cases hl : r.length < n.toNat
            · simp [hl, optsLoop'_short c n hc0 hc255 r hl]
            · simp only [hl, if_false]
              have hle : n.toNat ≤ r.length := by omega
              have hlen : (r.take n.toNat).length = n.toNat := by simp [List.length_take]; omega
              have hn : UInt8.ofNat (r.take n.toNat).length = n := by rw [hlen]; simp
              have hsplit : c :: n :: r =
                  c :: UInt8.ofNat (r.take n.toNat).length :: (r.take n.toNat ++ r.drop n.toNat) := by
                rw [hn, List.take_append_drop]
              rw [hsplit, optsLoop'_tlv c hc0 hc255 (r.take n.toNat) (r.drop n.toNat)
                (by rw [hlen]; exact n.toNat_lt) o]
              have hd : (r.drop n.toNat).length ≤ m := by simp at hrest ⊢; omega
              rw [ih (r.drop n.toNat) (o.app c (r.take n.toNat)) hd]
              cases Val4.subOptionsPadEnd (r.drop n.toNat) <;> simp [applyTuples]

theorem applyTuples_f (ts : List (UInt8 × Bytes)) : ∀ (o : Opts) (c : UInt8),
    (applyTuples o ts).f c =
      (match ts.filter (fun t => t.1 = c) with
       | [] => o.f c
       | us => some ((o.f c).getD [] ++ us.flatMap (fun t => t.2))) := by
  induction ts with
  | nil => intro o c; simp [applyTuples]
  | cons t ts ih =>
    intro o c
    have hfold : applyTuples o (t :: ts) = applyTuples (o.app t.1 t.2) ts := rfl
    rw [hfold, ih]
    by_cases htc : t.1 = c
    · subst htc
      simp only [List.filter_cons, decide_true, if_true, Opts.app_f_same]
      cases ts.filter (fun u => decide (u.1 = t.1)) with
      | nil => simp
      | cons u us => simp [List.append_assoc]
    · have hne : c ≠ t.1 := fun h => htc h.symm
      simp only [List.filter_cons, htc, decide_false, Opts.app_f_ne o t.2 hne]
      simp

theorem applyTuples_empty (ts : List (UInt8 × Bytes)) :
    applyTuples Opts.empty ts = ⟨Val4.subOptionValue ts⟩ := by
  apply Opts.ext'
  intro c
  rw [applyTuples_f]
  simp only [Val4.subOptionValue, Opts.empty]
  cases ts.filter (fun t => decide (t.1 = c)) <;> simp

/-- `RelayOptions.FromBytes` accepts exactly the values of the options-field
grammar (pad 0 / end 255) and returns that grammar's map. -/
theorem relayFromBytes_eq (v : Bytes) : relayFromBytes v = (Val4.relayPadEnd v).map Opts.mk := by
  unfold relayFromBytes Val4.relayPadEnd
  rw [optsFromBytes_eq]
  by_cases hv : v.length = 0
  · have : v = [] := List.eq_nil_of_length_eq_zero hv
    subst this
    simp only [List.length_nil, if_true, Val4.subOptionsPadEnd, Option.map_some]
    rfl
  · simp only [hv, if_false, Lexer.new]
    have := optsLoop'_subOptionsPadEnd v.length v Opts.empty (Nat.le_refl _)
    cases hs : Val4.subOptionsPadEnd v with
    | none =>
      rw [hs] at this
      cases hq : optsLoop' ⟨v, false⟩ Opts.empty with
      | none => simp
      | some p => rw [hq] at this; simp at this
    | some ts =>
      rw [hs] at this
      cases hq : optsLoop' ⟨v, false⟩ Opts.empty with
      | none => rw [hq] at this; simp at this
      | some p =>
        obtain ⟨o', e⟩ := p
        rw [hq] at this
        simp only [Option.map_some, Option.some.injEq] at this
        simp [this, applyTuples_empty]

/-- where no octet in code position is 0 or 255 the options-field grammar and
RFC 3046 agree -/
theorem subOptionsPadEnd_eq_strict (m : Nat) : ∀ (d : Bytes), d.length ≤ m →
    Val4.noPadEndCodes d = true → Val4.subOptionsPadEnd d = Val4.subOptions d := by
  induction m with
  | zero =>
    intro d h _
    have : d = [] := List.eq_nil_of_length_eq_zero (by omega)
    subst this
    simp [Val4.subOptionsPadEnd, Val4.subOptions]
  | succ m ih =>
    intro d h hok
    match d with
    | [] => simp [Val4.subOptionsPadEnd, Val4.subOptions]
    | [c] =>
      simp only [Val4.noPadEndCodes, Bool.and_eq_true, bne_iff_ne, ne_eq] at hok
      rw [Val4.subOptionsPadEnd.eq_def]
      simp [hok.1, hok.2, Val4.subOptions]
    | c :: n :: r =>
      rw [Val4.noPadEndCodes] at hok
      simp only [Bool.and_eq_true, bne_iff_ne, ne_eq] at hok
      obtain ⟨⟨hc0, hc255⟩, hrest⟩ := hok
      rw [Val4.subOptionsPadEnd.eq_def, Val4.subOptions]
      simp only [hc0, hc255, if_false]
      by_cases hl : r.length < n.toNat
      · simp [hl]
      · simp only [hl, if_false] at hrest ⊢
        have hd : (r.drop n.toNat).length ≤ m := by simp at h ⊢; omega
        rw [ih _ hd hrest]

theorem relayPadEnd_eq_strict (v : Bytes) (h : Val4.noPadEndCodes v = true) :
    Val4.relayPadEnd v = Val4.relay v := by
  unfold Val4.relayPadEnd Val4.relay
  rw [subOptionsPadEnd_eq_strict v.length v (Nat.le_refl _) h]

end Dhcp.V4

import DhcpProofs.Lemmas.ClientTimed
/-
  C12, bytes and destination: the timed machine with transmission records
  (`runObsB`) erases to the machine with instants (`runObs`), and what it
  transmits is the closed form `wire`: transmission `j` is made by try `j`,
  carries the encoding of the request as it is at that try, and goes to the
  call's destination.
-/
namespace Dhcp.Client.Timed
open List

variable {Req Dest : Type}

/-! ### erasure: forgetting bytes and destinations gives the machine of instants -/

theorem erase_beginB (c : Call Req Dest) (T n : Int) : (beginB c T n).erase = begin T n := by
  unfold beginB begin
  split <;> rfl

theorem erase_fireB (c : Call Req Dest) (n : Int) (w : WaitB Dest) :
    (fireB c n w).erase = fire n w.erase := by
  by_cases h : n < 0 ∨ ((w.k : Int) + 1 < n)
  · simp [fireB, fire, h, BState.erase, WaitB.erase, Call.tx]
  · simp [fireB, fire, h, BState.erase, WaitB.erase]

theorem erase_advanceB (c : Call Req Dest) (n t : Int) (incl : Bool) :
    ∀ (fuel : Nat) (st : BState Dest),
      (advanceB c n t incl fuel st).erase = advance n t incl fuel st.erase := by
  intro fuel
  induction fuel with
  | zero => intro st; cases st <;> rfl
  | succ fuel ih =>
    intro st
    cases st with
    | done sent t' o => rfl
    | waiting w =>
      have hd : w.erase.start + w.erase.timeout = w.start + w.timeout := rfl
      by_cases h : w.start + w.timeout < t ∨ (incl = true ∧ w.start + w.timeout = t)
      · have e1 : advanceB c n t incl (fuel + 1) (.waiting w) = advanceB c n t incl fuel (fireB c n w) := by
          simp only [advanceB, h, if_true]
        have e2 : advance n t incl (fuel + 1) (.waiting w.erase) = advance n t incl fuel (fire n w.erase) := by
          simp only [advance, hd, h, if_true]
        show (advanceB c n t incl (fuel + 1) (.waiting w)).erase = advance n t incl (fuel + 1) (.waiting w.erase)
        rw [e1, e2, ih, erase_fireB]
      · have e1 : advanceB c n t incl (fuel + 1) (.waiting w) = .waiting w := by
          simp only [advanceB, h, if_false]
        have e2 : advance n t incl (fuel + 1) (.waiting w.erase) = .waiting w.erase := by
          simp only [advance, hd, h, if_false]
        show (advanceB c n t incl (fuel + 1) (.waiting w)).erase = advance n t incl (fuel + 1) (.waiting w.erase)
        rw [e1, e2]; rfl

theorem erase_stepObsB (c : Call Req Dest) (n : Int) (st : BState Dest) (o : Obs) :
    (stepObsB c n st o).erase = stepObs n st.erase o := by
  cases st with
  | done sent t out => rfl
  | waiting w =>
    have ha := erase_advanceB c n (max o.t w.clk) o.afterTimer (advanceFuel w.start (max o.t w.clk)) (.waiting w)
    simp only [BState.erase] at ha
    simp only [BState.erase, stepObs_waiting]
    have e1 : w.erase.clk = w.clk := rfl
    have e2 : w.erase.start = w.start := rfl
    rw [e1, e2, ← ha]
    simp only [stepObsB]
    cases advanceB c n (max o.t w.clk) o.afterTimer (advanceFuel w.start (max o.t w.clk)) (.waiting w) with
    | done sent t' out => rfl
    | waiting w' => cases o.kind <;> rfl

theorem erase_runFromB (c : Call Req Dest) (n : Int) (obs : List Obs) :
    ∀ st : BState Dest, (runFromB c n st obs).erase = runFrom n st.erase obs := by
  induction obs with
  | nil => intro st; rfl
  | cons o obs ih =>
    intro st
    show (runFromB c n (stepObsB c n st o) obs).erase = runFrom n (stepObs n st.erase o) obs
    rw [ih, erase_stepObsB]

theorem erase_finishB (c : Call Req Dest) (n H : Int) (st : BState Dest) :
    (finishB c n H st).erase = finish n H st.erase := by
  cases st with
  | done sent t o => rfl
  | waiting w =>
    have ha := erase_advanceB c n H true (advanceFuel w.start H) (.waiting w)
    simp only [BState.erase] at ha
    simp only [BState.erase, finish_waiting]
    have e2 : w.erase.start = w.start := rfl
    rw [e2, ← ha]
    simp only [finishB]
    cases advanceB c n H true (advanceFuel w.start H) (.waiting w) <;> rfl

/-- **projection**: the machine with bytes, bytes forgotten, is the machine of instants -/
theorem runObsB_erase (c : Call Req Dest) (T n : Int) (obs : List Obs) (H : Int) :
    (runObsB c T n obs H).erase = runObs T n obs H := by
  unfold runObsB runObs
  rw [erase_finishB, erase_runFromB, erase_beginB]

/-! ### the closed form `wire` -/

theorem wireFrom_append (c : Call Req Dest) : ∀ (l : List Int) (j : Nat) (t : Int),
    wireFrom c j (l ++ [t]) = wireFrom c j l ++ [c.tx (j + l.length) t] := by
  intro l
  induction l with
  | nil => intro j t; simp [wireFrom]
  | cons a l ih =>
    intro j t
    simp only [List.cons_append, wireFrom, ih, List.length_cons]
    have : j + 1 + l.length = j + (l.length + 1) := by omega
    rw [this]

theorem wireFrom_length (c : Call Req Dest) : ∀ (l : List Int) (j : Nat), (wireFrom c j l).length = l.length := by
  intro l
  induction l with
  | nil => intro j; rfl
  | cons a l ih => intro j; simp [wireFrom, ih]

theorem wireFrom_map_t (c : Call Req Dest) : ∀ (l : List Int) (j : Nat), (wireFrom c j l).map (·.t) = l := by
  intro l
  induction l with
  | nil => intro j; rfl
  | cons a l ih => intro j; simp [wireFrom, ih, Call.tx]

theorem wireFrom_getElem? (c : Call Req Dest) : ∀ (l : List Int) (j i : Nat),
    (wireFrom c j l)[i]? = (l[i]?).map (fun t => c.tx (j + i) t) := by
  intro l
  induction l with
  | nil => intro j i; simp [wireFrom]
  | cons a l ih =>
    intro j i
    cases i with
    | zero => simp [wireFrom]
    | succ i =>
      simp only [wireFrom, List.getElem?_cons_succ, ih]
      have : j + 1 + i = j + (i + 1) := by omega
      rw [this]

theorem wire_getElem? (c : Call Req Dest) (l : List Int) (i : Nat) :
    (wire c l)[i]? = (l[i]?).map (fun t => c.tx i t) := by
  have := wireFrom_getElem? c l 0 i
  simpa [wire] using this

theorem wire_map_t (c : Call Req Dest) (l : List Int) : (wire c l).map (·.t) = l := wireFrom_map_t c l 0

theorem wire_length (c : Call Req Dest) (l : List Int) : (wire c l).length = l.length := wireFrom_length c l 0

/-- `wire` of a mapped range (the form the schedule theorems use) -/
theorem wire_map_range (c : Call Req Dest) (f : Nat → Int) (m : Nat) :
    wire c ((List.range m).map f) = (List.range m).map (fun k => c.tx k (f k)) := by
  induction m with
  | zero => rfl
  | succ m ih =>
    rw [List.range_succ, List.map_append, List.map_append]
    show wireFrom c 0 (map f (range m) ++ [f m]) = _
    rw [wireFrom_append]
    show wire c (map f (range m)) ++ _ = _
    rw [ih]
    simp

/-! ### the machine's invariant: what has been sent is `wire` of its instants,
and a call parked in try `k` has made `k + 1` transmissions -/

def Wired (c : Call Req Dest) : BState Dest → Prop
  | .waiting w => w.sent = wire c (w.sent.map (·.t)) ∧ w.sent.length = w.k + 1
  | .done sent _ _ => sent = wire c (sent.map (·.t))

theorem beginB_wired (c : Call Req Dest) (T n : Int) : Wired c (beginB c T n) := by
  unfold beginB
  split
  · show ([] : List (Tx Dest)) = wire c _
    rfl
  · exact ⟨rfl, rfl⟩

theorem fireB_wired (c : Call Req Dest) (n : Int) (w : WaitB Dest) (h : Wired c (.waiting w)) :
    Wired c (fireB c n w) := by
  obtain ⟨hs, hl⟩ := h
  unfold fireB
  simp only []
  split
  · refine ⟨?_, by simp [hl]⟩
    show w.sent ++ [c.tx (w.k + 1) (w.start + w.timeout)] = wire c _
    rw [List.map_append]
    show _ = wireFrom c 0 (map (·.t) w.sent ++ [(c.tx (w.k + 1) (w.start + w.timeout)).t])
    rw [wireFrom_append]
    show _ = wire c (map (·.t) w.sent) ++ _
    rw [← hs]
    simp [hl, Call.tx]
  · exact hs

theorem advanceB_wired (c : Call Req Dest) (n t : Int) (incl : Bool) :
    ∀ (fuel : Nat) (st : BState Dest), Wired c st → Wired c (advanceB c n t incl fuel st) := by
  intro fuel
  induction fuel with
  | zero => intro st h; cases st <;> exact h
  | succ fuel ih =>
    intro st h
    cases st with
    | done sent t' o => exact h
    | waiting w =>
      simp only [advanceB]
      split
      · exact ih _ (fireB_wired c n w h)
      · exact h

theorem stepObsB_wired (c : Call Req Dest) (n : Int) (st : BState Dest) (o : Obs) (h : Wired c st) :
    Wired c (stepObsB c n st o) := by
  cases st with
  | done sent t out => exact h
  | waiting w =>
    have ha := advanceB_wired c n (max o.t w.clk) o.afterTimer (advanceFuel w.start (max o.t w.clk)) _ h
    simp only [stepObsB]
    cases hadv : advanceB c n (max o.t w.clk) o.afterTimer (advanceFuel w.start (max o.t w.clk)) (.waiting w) with
    | done sent t' out => rw [hadv] at ha; exact ha
    | waiting w' =>
      rw [hadv] at ha
      cases o.kind
      · exact ha
      · exact ha
      · exact ha.1
      · exact ha.1
      · exact ha.1

theorem runFromB_wired (c : Call Req Dest) (n : Int) (obs : List Obs) :
    ∀ st : BState Dest, Wired c st → Wired c (runFromB c n st obs) := by
  induction obs with
  | nil => intro st h; exact h
  | cons o obs ih => intro st h; exact ih _ (stepObsB_wired c n st o h)

theorem finishB_wired (c : Call Req Dest) (n H : Int) (st : BState Dest) (h : Wired c st) :
    (finishB c n H st).sent = wire c ((finishB c n H st).sent.map (·.t)) := by
  cases st with
  | done sent t o => exact h
  | waiting w =>
    have ha := advanceB_wired c n H true (advanceFuel w.start H) _ h
    simp only [finishB]
    cases hadv : advanceB c n H true (advanceFuel w.start H) (.waiting w) with
    | done sent t o => rw [hadv] at ha; exact ha
    | waiting w' => rw [hadv] at ha; exact ha.1

/-- **what is transmitted**: the records `runObsB` computes are `wire` of the
instants `runObs` computes, and the return is the same -/
theorem runObsB_sent (c : Call Req Dest) (T n : Int) (obs : List Obs) (H : Int) :
    (runObsB c T n obs H).sent = wire c (runObs T n obs H).txs ∧
    (runObsB c T n obs H).ret = (runObs T n obs H).ret := by
  have he := runObsB_erase c T n obs H
  have hw : (runObsB c T n obs H).sent = wire c ((runObsB c T n obs H).sent.map (·.t)) :=
    finishB_wired c n H _ (runFromB_wired c n obs _ (beginB_wired c T n))
  rw [← he]
  exact ⟨hw, rfl⟩

theorem runObsB_eq (c : Call Req Dest) (T n : Int) (obs : List Obs) (H : Int) :
    runObsB c T n obs H = ⟨wire c (runObs T n obs H).txs, (runObs T n obs H).ret⟩ := by
  obtain ⟨h1, h2⟩ := runObsB_sent c T n obs H
  cases hr : runObsB c T n obs H with
  | mk sent ret => rw [hr] at h1 h2; simp only at h1 h2; rw [h1, h2]

end Dhcp.Client.Timed

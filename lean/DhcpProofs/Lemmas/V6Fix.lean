import DhcpProofs.Lemmas.V6LeafInv
import DhcpProofs.Lemmas.V6Fuel
/-
  C06 for DHCPv6: every DECODED message lies in the round-trip domain `WFMsg`
  (after the one DHCPv4 normalisation `V4.cutNames` on embedded DHCPv4
  messages), hence decode → encode → decode is a fixpoint.

  What decoding does not guarantee, and is therefore a hypothesis (`FitsLen`):
  an option that contains an embedded DHCPv4 message (option 87, possibly
  nested in containers / relay messages) is re-encoded with the inner message
  re-padded to 300 bytes, so its new value length need not fit the 16-bit
  length field any more.  For options WITHOUT an embedded DHCPv4 message the
  re-encoded value is never longer than the original one (proved here), so
  nothing is assumed about them.
-/
namespace Dhcp.V6
open Dhcp List Dhcp.Spec

/-! ### the normalisation and the side condition -/

mutual
/-- `V4.cutNames` on every embedded DHCPv4 message of an option -/
def cutOpt : Opt6 → Opt6
  | .iana i t1 t2 os => .iana i t1 t2 (cutOpts os)
  | .iata i os => .iata i (cutOpts os)
  | .iaaddr ip p v os => .iaaddr ip p v (cutOpts os)
  | .relayMsg m => .relayMsg (cutNames6 m)
  | .iapd i t1 t2 os => .iapd i t1 t2 (cutOpts os)
  | .iaprefix p v pfx os => .iaprefix p v pfx (cutOpts os)
  | .fourRD os => .fourRD (cutOpts os)
  | .dhcpv4Msg p => .dhcpv4Msg (V4.cutNames p)
  | .clientID d => .clientID d
  | .serverID d => .serverID d
  | .oro cs => .oro cs
  | .elapsed d => .elapsed d
  | .status c m => .status c m
  | .userClass c => .userClass c
  | .vendorClass e d => .vendorClass e d
  | .vendorOpts e os => .vendorOpts e os
  | .interfaceID i => .interfaceID i
  | .dns ips => .dns ips
  | .domainSearch l => .domainSearch l
  | .infoRefresh d => .infoRefresh d
  | .remoteID e i => .remoteID e i
  | .fqdn f n => .fqdn f n
  | .ntp s => .ntp s
  | .bootfileURL u => .bootfileURL u
  | .bootfileParam ps => .bootfileParam ps
  | .archType a => .archType a
  | .nii a b c => .nii a b c
  | .clientLLA h a => .clientLLA h a
  | .dhcp4o6Server ips => .dhcp4o6Server ips
  | .fourRDMapRule a b c d e g => .fourRDMapRule a b c d e g
  | .fourRDNonMapRule a b c => .fourRDNonMapRule a b c
  | .relayPort p => .relayPort p
  | .generic c d => .generic c d
def cutOpts : List Opt6 → List Opt6
  | [] => []
  | o :: os => cutOpt o :: cutOpts os
/-- "names cut to their NUL-terminated capacity" in every embedded DHCPv4 message -/
def cutNames6 : Msg6 → Msg6
  | .msg t x os => .msg t x (cutOpts os)
  | .relay t h l p os => .relay t h l p (cutOpts os)
end

mutual
/-- does the option contain an embedded DHCPv4 message (option 87) at any depth? -/
def hasV4 : Opt6 → Bool
  | .iana _ _ _ os => hasV4L os
  | .iata _ os => hasV4L os
  | .iaaddr _ _ _ os => hasV4L os
  | .relayMsg m => hasV4M m
  | .iapd _ _ _ os => hasV4L os
  | .iaprefix _ _ _ os => hasV4L os
  | .fourRD os => hasV4L os
  | .dhcpv4Msg _ => true
  | .clientID _ | .serverID _ | .oro _ | .elapsed _ | .status .. | .userClass _ | .vendorClass ..
  | .vendorOpts .. | .interfaceID _ | .dns _ | .domainSearch _ | .infoRefresh _ | .remoteID ..
  | .fqdn .. | .ntp _ | .bootfileURL _ | .bootfileParam _ | .archType _ | .nii .. | .clientLLA ..
  | .dhcp4o6Server _ | .fourRDMapRule .. | .fourRDNonMapRule .. | .relayPort _ | .generic .. => false
def hasV4L : List Opt6 → Bool
  | [] => false
  | o :: os => hasV4 o || hasV4L os
def hasV4M : Msg6 → Bool
  | .msg _ _ os => hasV4L os
  | .relay _ _ _ _ os => hasV4L os
end

mutual
/-- **side condition (i)**: every option that contains an embedded DHCPv4
message still fits its 16-bit length field when re-encoded -/
def FitsLen : Opt6 → Prop
  | .iana _ _ _ os => FitsLenL os
  | .iata _ os => FitsLenL os
  | .iaaddr _ _ _ os => FitsLenL os
  | .relayMsg m => FitsLenM m
  | .iapd _ _ _ os => FitsLenL os
  | .iaprefix _ _ _ os => FitsLenL os
  | .fourRD os => FitsLenL os
  | .dhcpv4Msg _ | .clientID _ | .serverID _ | .oro _ | .elapsed _ | .status .. | .userClass _
  | .vendorClass .. | .vendorOpts .. | .interfaceID _ | .dns _ | .domainSearch _ | .infoRefresh _
  | .remoteID .. | .fqdn .. | .ntp _ | .bootfileURL _ | .bootfileParam _ | .archType _ | .nii ..
  | .clientLLA .. | .dhcp4o6Server _ | .fourRDMapRule .. | .fourRDNonMapRule .. | .relayPort _
  | .generic .. => True
def FitsLenL : List Opt6 → Prop
  | [] => True
  | o :: os => (hasV4 o = true → (encOpt o).length < 65536) ∧ FitsLen o ∧ FitsLenL os
def FitsLenM : Msg6 → Prop
  | .msg _ _ os => FitsLenL os
  | .relay _ _ _ _ os => FitsLenL os
end

mutual
/-- **side condition (ii)**: no embedded DHCPv4 message has a name filling its
whole field (64-byte sname / 128-byte file without NUL) -/
def NamesOK : Opt6 → Prop
  | .iana _ _ _ os => NamesOKL os
  | .iata _ os => NamesOKL os
  | .iaaddr _ _ _ os => NamesOKL os
  | .relayMsg m => NamesOKM m
  | .iapd _ _ _ os => NamesOKL os
  | .iaprefix _ _ _ os => NamesOKL os
  | .fourRD os => NamesOKL os
  | .dhcpv4Msg p => p.sname.length ≤ 63 ∧ p.file.length ≤ 127
  | .clientID _ | .serverID _ | .oro _ | .elapsed _ | .status .. | .userClass _
  | .vendorClass .. | .vendorOpts .. | .interfaceID _ | .dns _ | .domainSearch _ | .infoRefresh _
  | .remoteID .. | .fqdn .. | .ntp _ | .bootfileURL _ | .bootfileParam _ | .archType _ | .nii ..
  | .clientLLA .. | .dhcp4o6Server _ | .fourRDMapRule .. | .fourRDNonMapRule .. | .relayPort _
  | .generic .. => True
def NamesOKL : List Opt6 → Prop
  | [] => True
  | o :: os => NamesOK o ∧ NamesOKL os
def NamesOKM : Msg6 → Prop
  | .msg _ _ os => NamesOKL os
  | .relay _ _ _ _ os => NamesOKL os
end

/-- the side condition of the exact fixpoint -/
def Fits (o : Opt6) : Prop := FitsLen o ∧ NamesOK o
def FitsL (os : List Opt6) : Prop := FitsLenL os ∧ NamesOKL os
def FitsM (m : Msg6) : Prop := FitsLenM m ∧ NamesOKM m

/-! ### the normalisation is invisible to the encoder -/

theorem cutOpt_code (o : Opt6) : (cutOpt o).code = o.code := by
  cases o <;> simp only [cutOpt, Opt6.code]

theorem enc4Bytes_cutNames (p : V4.Pkt4) : enc4Bytes (V4.cutNames p) = enc4Bytes p := by
  simp only [enc4Bytes, V4.enc4_cutNames]

mutual
theorem encOpt_cut : (o : Opt6) → encOpt (cutOpt o) = encOpt o
  | .iana i t1 t2 os => by simp only [cutOpt, encOpt, encOpts_cut os]
  | .iata i os => by simp only [cutOpt, encOpt, encOpts_cut os]
  | .iaaddr ip p v os => by simp only [cutOpt, encOpt, encOpts_cut os]
  | .relayMsg m => by simp only [cutOpt, encOpt, encMsg_cut m]
  | .iapd i t1 t2 os => by simp only [cutOpt, encOpt, encOpts_cut os]
  | .iaprefix p v pfx os => by simp only [cutOpt, encOpt, encOpts_cut os]
  | .fourRD os => by simp only [cutOpt, encOpt, encOpts_cut os]
  | .dhcpv4Msg p => by simp only [cutOpt, encOpt, enc4Bytes_cutNames]
  | .clientID _ | .serverID _ | .oro _ | .elapsed _ | .status .. | .userClass _
  | .vendorClass .. | .vendorOpts .. | .interfaceID _ | .dns _ | .domainSearch _ | .infoRefresh _
  | .remoteID .. | .fqdn .. | .ntp _ | .bootfileURL _ | .bootfileParam _ | .archType _ | .nii ..
  | .clientLLA .. | .dhcp4o6Server _ | .fourRDMapRule .. | .fourRDNonMapRule .. | .relayPort _
  | .generic .. => by simp only [cutOpt]
theorem encOpts_cut : (os : List Opt6) → encOpts (cutOpts os) = encOpts os
  | [] => by simp only [cutOpts]
  | o :: os => by simp only [cutOpts, encOpts, cutOpt_code, encOpt_cut o, encOpts_cut os]
/-- cutting the names does not change the encoding -/
theorem encMsg_cut : (m : Msg6) → encMsg (cutNames6 m) = encMsg m
  | .msg t x os => by simp only [cutNames6, encMsg, encOpts_cut os]
  | .relay t h l p os => by simp only [cutNames6, encMsg, encOpts_cut os]
end

/-! ### the normalisation is the identity unless a name fills its field -/

mutual
theorem cutOpt_id : (o : Opt6) → NamesOK o → cutOpt o = o
  | .iana i t1 t2 os, h => by simp only [NamesOK] at h; simp only [cutOpt, cutOpts_id os h]
  | .iata i os, h => by simp only [NamesOK] at h; simp only [cutOpt, cutOpts_id os h]
  | .iaaddr ip p v os, h => by simp only [NamesOK] at h; simp only [cutOpt, cutOpts_id os h]
  | .relayMsg m, h => by simp only [NamesOK] at h; simp only [cutOpt, cutNames6_id m h]
  | .iapd i t1 t2 os, h => by simp only [NamesOK] at h; simp only [cutOpt, cutOpts_id os h]
  | .iaprefix p v pfx os, h => by simp only [NamesOK] at h; simp only [cutOpt, cutOpts_id os h]
  | .fourRD os, h => by simp only [NamesOK] at h; simp only [cutOpt, cutOpts_id os h]
  | .dhcpv4Msg p, h => by
    simp only [NamesOK] at h
    simp only [cutOpt, V4.cutNames_id_of_short p h.1 h.2]
  | .clientID _, _ | .serverID _, _ | .oro _, _ | .elapsed _, _ | .status .., _ | .userClass _, _
  | .vendorClass .., _ | .vendorOpts .., _ | .interfaceID _, _ | .dns _, _ | .domainSearch _, _
  | .infoRefresh _, _ | .remoteID .., _ | .fqdn .., _ | .ntp _, _ | .bootfileURL _, _
  | .bootfileParam _, _ | .archType _, _ | .nii .., _ | .clientLLA .., _ | .dhcp4o6Server _, _
  | .fourRDMapRule .., _ | .fourRDNonMapRule .., _ | .relayPort _, _ | .generic .., _ => by
    simp only [cutOpt]
theorem cutOpts_id : (os : List Opt6) → NamesOKL os → cutOpts os = os
  | [], _ => by simp only [cutOpts]
  | o :: os, h => by
    simp only [NamesOKL] at h
    simp only [cutOpts, cutOpt_id o h.1, cutOpts_id os h.2]
theorem cutNames6_id : (m : Msg6) → NamesOKM m → cutNames6 m = m
  | .msg t x os, h => by simp only [NamesOKM] at h; simp only [cutNames6, cutOpts_id os h]
  | .relay t hh l p os, h => by simp only [NamesOKM] at h; simp only [cutNames6, cutOpts_id os h]
end

/-! ### without option 87 there is no side condition at all -/

mutual
theorem noV4_fits : (o : Opt6) → hasV4 o = false → FitsLen o ∧ NamesOK o
  | .iana i t1 t2 os, h => by simp only [hasV4] at h; simpa only [FitsLen, NamesOK] using noV4_fitsL os h
  | .iata i os, h => by simp only [hasV4] at h; simpa only [FitsLen, NamesOK] using noV4_fitsL os h
  | .iaaddr ip p v os, h => by simp only [hasV4] at h; simpa only [FitsLen, NamesOK] using noV4_fitsL os h
  | .relayMsg m, h => by simp only [hasV4] at h; simpa only [FitsLen, NamesOK] using noV4_fitsM m h
  | .iapd i t1 t2 os, h => by simp only [hasV4] at h; simpa only [FitsLen, NamesOK] using noV4_fitsL os h
  | .iaprefix p v pfx os, h => by
    simp only [hasV4] at h; simpa only [FitsLen, NamesOK] using noV4_fitsL os h
  | .fourRD os, h => by simp only [hasV4] at h; simpa only [FitsLen, NamesOK] using noV4_fitsL os h
  | .dhcpv4Msg p, h => by simp [hasV4] at h
  | .clientID _, _ | .serverID _, _ | .oro _, _ | .elapsed _, _ | .status .., _ | .userClass _, _
  | .vendorClass .., _ | .vendorOpts .., _ | .interfaceID _, _ | .dns _, _ | .domainSearch _, _
  | .infoRefresh _, _ | .remoteID .., _ | .fqdn .., _ | .ntp _, _ | .bootfileURL _, _
  | .bootfileParam _, _ | .archType _, _ | .nii .., _ | .clientLLA .., _ | .dhcp4o6Server _, _
  | .fourRDMapRule .., _ | .fourRDNonMapRule .., _ | .relayPort _, _ | .generic .., _ => by
    simp only [FitsLen, NamesOK, and_self]
theorem noV4_fitsL : (os : List Opt6) → hasV4L os = false → FitsLenL os ∧ NamesOKL os
  | [], _ => by simp only [FitsLenL, NamesOKL, and_self]
  | o :: os, h => by
    simp only [hasV4L, Bool.or_eq_false_iff] at h
    have h1 := noV4_fits o h.1
    have h2 := noV4_fitsL os h.2
    simp only [FitsLenL, NamesOKL]
    exact ⟨⟨fun hv => (by rw [h.1] at hv; cases hv), h1.1, h2.1⟩, h1.2, h2.2⟩
theorem noV4_fitsM : (m : Msg6) → hasV4M m = false → FitsLenM m ∧ NamesOKM m
  | .msg t x os, h => by simp only [hasV4M] at h; simpa only [FitsLenM, NamesOKM] using noV4_fitsL os h
  | .relay t hh l p os, h => by
    simp only [hasV4M] at h; simpa only [FitsLenM, NamesOKM] using noV4_fitsL os h
end

/-! ### decoded values are in the round-trip domain -/

theorem leaf_cut {o : Opt6} (hs : isSimple o = true) (hn : ∀ p, o ≠ .dhcpv4Msg p) :
    cutOpt o = o ∧ hasV4 o = false := by
  cases o <;> first
    | (simp [isSimple] at hs; done)
    | exact absurd rfl (hn _)
    | exact ⟨by simp only [cutOpt], by simp only [hasV4]⟩

theorem durOK_nat (s : Nat) (h : s < 4294967296) : DurOK ((s : Int) * second) := ⟨s, h, rfl⟩

theorem pfxOK_decoded (len : UInt8) (ip : Bytes) (hl : len.toNat ≤ 128) (hip : ip.length = 16) :
    PfxOK (if len = 0 then none else some (len.toNat, some ip)) := by
  by_cases h0 : len = 0
  · simp only [h0, if_true, PfxOK]
  · simp only [h0, if_false, PfxOK]
    refine ⟨?_, hl, ip, rfl, hip⟩
    have : len.toNat ≠ 0 := by
      intro h; apply h0; apply UInt8.toNat_inj.mp; simpa using h
    omega

theorem encPfx_len (pfx : Option (Nat × IP)) (h : PfxOK pfx) : (encPfx pfx).length = 17 := by
  cases pfx with
  | none => simp [encPfx]
  | some q =>
    obtain ⟨n, ip⟩ := q
    obtain ⟨_, _, hip⟩ := h
    obtain ⟨b, rfl, hb, hw⟩ := write16_ip16 hip
    simp [encPfx, hw, hb]

mutual
/-- a decoded option is (after `cutNames` on embedded DHCPv4 messages) in the
round-trip domain, and without an embedded DHCPv4 message its re-encoding is
not longer than the value it was read from -/
theorem decoded_opt : {c : Nat} → {v : Bytes} → {o : Opt6} → POpt c v o → c < 65536 → FitsLen o →
    WFOpt (cutOpt o) ∧ (hasV4 o = false → (encOpt o).length ≤ v.length)
  | c, v, o, .leaf hcc hd, hc, _ => by
    rcases leaf_inv c v o hc hcc hd with ⟨hw, hl, hs, hn⟩ | ⟨p, rfl, hp⟩
    · obtain ⟨h1, _⟩ := leaf_cut hs hn
      rw [h1]
      exact ⟨hw, fun _ => hl⟩
    · refine ⟨?_, fun h => by simp [hasV4] at h⟩
      simp only [cutOpt, WFOpt]
      exact ⟨V4.decoded_encodable v p hp, V4.norm_decoded v p hp⟩
  | _, v, _, .clientID hd, _, _ => by
    obtain ⟨h1, h2⟩ := decDUID_inv v _ hd
    simp only [cutOpt, WFOpt, encOpt, h2]
    exact ⟨h1, fun _ => Nat.le_refl _⟩
  | _, v, _, .serverID hd, _, _ => by
    obtain ⟨h1, h2⟩ := decDUID_inv v _ hd
    simp only [cutOpt, WFOpt, encOpt, h2]
    exact ⟨h1, fun _ => Nat.le_refl _⟩
  | _, _, _, .iana (os := os) hi h1 h2 hs, _, hf => by
    simp only [FitsLen] at hf
    obtain ⟨hw, hl⟩ := decoded_opts hs hf
    simp only [cutOpt, WFOpt, hasV4, encOpt]
    refine ⟨⟨hi, durOK_nat _ h1, durOK_nat _ h2, hw⟩, fun hv => ?_⟩
    have := hl hv
    simp only [List.length_append, copyInto_length, encDur_length, be32_length, hi]; omega
  | _, _, _, .iata (os := os) hi hs, _, hf => by
    simp only [FitsLen] at hf
    obtain ⟨hw, hl⟩ := decoded_opts hs hf
    simp only [cutOpt, WFOpt, hasV4, encOpt]
    refine ⟨⟨hi, hw⟩, fun hv => ?_⟩
    have := hl hv
    simp only [List.length_append, copyInto_length, hi]; omega
  | _, _, _, .iaaddr (ip := ip) (os := os) hi h1 h2 hs, _, hf => by
    simp only [FitsLen] at hf
    obtain ⟨hw, hl⟩ := decoded_opts hs hf
    simp only [cutOpt, WFOpt, hasV4, encOpt]
    refine ⟨⟨⟨ip, rfl, hi⟩, durOK_nat _ h1, durOK_nat _ h2, hw⟩, fun hv => ?_⟩
    have := hl hv
    have hw16 : (write16 (some ip)).length = 16 := by simp [write16, ipTo16, to16, hi]
    simp only [List.length_append, hw16, encDur_length, be32_length, hi]; omega
  | _, _, _, .relayMsg hm, _, hf => by
    simp only [FitsLen] at hf
    obtain ⟨hw, hl⟩ := decoded_msg hm hf
    simp only [cutOpt, WFOpt, hasV4, encOpt]
    exact ⟨hw, hl⟩
  | _, _, _, .iapd (os := os) hi h1 h2 hs, _, hf => by
    simp only [FitsLen] at hf
    obtain ⟨hw, hl⟩ := decoded_opts hs hf
    simp only [cutOpt, WFOpt, hasV4, encOpt]
    refine ⟨⟨hi, durOK_nat _ h1, durOK_nat _ h2, hw⟩, fun hv => ?_⟩
    have := hl hv
    simp only [List.length_append, copyInto_length, encDur_length, be32_length, hi]; omega
  | _, _, _, .iaprefix (ip := ip) (len := len) (os := os) h1 h2 hlen hi hs, _, hf => by
    simp only [FitsLen] at hf
    obtain ⟨hw, hl⟩ := decoded_opts hs hf
    have hp := pfxOK_decoded len ip hlen hi
    simp only [cutOpt, WFOpt, hasV4, encOpt]
    refine ⟨⟨durOK_nat _ h1, durOK_nat _ h2, hp, hw⟩, fun hv => ?_⟩
    have := hl hv
    simp only [List.length_append, List.length_cons, encDur_length, be32_length, encPfx_len _ hp, hi]
    omega
  | _, _, _, .fourRD hs, _, hf => by
    simp only [FitsLen] at hf
    obtain ⟨hw, hl⟩ := decoded_opts hs hf
    simp only [cutOpt, WFOpt, hasV4, encOpt]
    exact ⟨hw, hl⟩
theorem decoded_opts : {d : Bytes} → {os : List Opt6} → POpts d os → FitsLenL os →
    WFOpts (cutOpts os) ∧ (hasV4L os = false → (encOpts os).length ≤ d.length)
  | _, _, .nil, _ => by simp [cutOpts, WFOpts, encOpts]
  | _, _, .cons (o := o) (os := os) (v := v) hc hv hp hs, hf => by
    simp only [FitsLenL] at hf
    obtain ⟨hfl, hfo, hfs⟩ := hf
    obtain ⟨hw, hl⟩ := decoded_opt hp hc hfo
    obtain ⟨hws, hls⟩ := decoded_opts hs hfs
    simp only [cutOpts, WFOpts, encOpt_cut, hasV4L, encOpts, Bool.or_eq_false_iff]
    refine ⟨⟨hw, ?_, hws⟩, fun hv4 => ?_⟩
    · cases h4 : hasV4 o with
      | true => exact hfl h4
      | false => have := hl h4; omega
    · have := hl hv4.1
      have := hls hv4.2
      simp only [List.length_append, tlv_length]; omega
theorem decoded_msg : {b : Bytes} → {m : Msg6} → PMsg b m → FitsLenM m →
    WFMsg (cutNames6 m) ∧ (hasV4M m = false → (encMsg m).length ≤ b.length)
  | _, _, .msg ht hx hs, hf => by
    simp only [FitsLenM] at hf
    obtain ⟨hw, hl⟩ := decoded_opts hs hf
    simp only [cutNames6, WFMsg, hasV4M, encMsg]
    refine ⟨⟨ht, hx, hw⟩, fun hv => ?_⟩
    have := hl hv
    simp only [List.length_cons, List.length_append, copyInto_length, hx]; omega
  | _, _, .relay (link := link) (peer := peer) ht h1 h2 hs, hf => by
    simp only [FitsLenM] at hf
    obtain ⟨hw, hl⟩ := decoded_opts hs hf
    simp only [cutNames6, WFMsg, hasV4M, encMsg]
    refine ⟨⟨ht, ⟨link, rfl, h1⟩, ⟨peer, rfl, h2⟩, hw⟩, fun hv => ?_⟩
    have := hl hv
    have hw1 : (write16 (some link)).length = 16 := by simp [write16, ipTo16, to16, h1]
    have hw2 : (write16 (some peer)).length = 16 := by simp [write16, ipTo16, to16, h2]
    simp only [List.length_cons, List.length_append, hw1, hw2, h1, h2]; omega
end

/-- **every decoded value is in the round-trip domain** (key lemma of C06/v6):
options, option lists and messages, under the side condition `Fits`. -/
theorem decoded_wf {c : Nat} {v d b : Bytes} {o : Opt6} {os : List Opt6} {m : Msg6} :
    (POpt c v o → c < 65536 → Fits o → WFOpt o) ∧ (POpts d os → FitsL os → WFOpts os) ∧
    (PMsg b m → FitsM m → WFMsg m) := by
  refine ⟨fun h hc hf => ?_, fun h hf => ?_, fun h hf => ?_⟩
  · have := (decoded_opt h hc hf.1).1; rwa [cutOpt_id o hf.2] at this
  · have := (decoded_opts h hf.1).1; rwa [cutOpts_id os hf.2] at this
  · have := (decoded_msg h hf.1).1; rwa [cutNames6_id m hf.2] at this

/-! ### the fixpoint -/

/-- **C06 (DHCPv6), normalised form**: re-encoding a decoded message gives
bytes that decode to the message with the names of its embedded DHCPv4 messages
cut to capacity, and encoding that again reproduces the same bytes. -/
theorem v6_fixpoint_norm (b : Bytes) (m : Msg6) (h : dec6 b = .ok m) (hf : FitsLenM m) :
    dec6 (encMsg m) = .ok (cutNames6 m) ∧ encMsg (cutNames6 m) = encMsg m := by
  have hw := (decoded_msg ((dec6_iff b m).mp h) hf).1
  have := dec6_encMsg (cutNames6 m) hw
  rw [encMsg_cut] at this
  exact ⟨this, encMsg_cut m⟩

/-- **C06 (DHCPv6), exact form** -/
theorem v6_fixpoint (b : Bytes) (m : Msg6) (h : dec6 b = .ok m) (hf : FitsM m) :
    dec6 (encMsg m) = .ok m := by
  have := (v6_fixpoint_norm b m h hf.1).1
  rwa [cutNames6_id m hf.2] at this

/-- both byte strings have the same reading under the declarative grammar -/
theorem v6_meaning (b : Bytes) (m : Msg6) (h : dec6 b = .ok m) (hf : FitsM m) :
    PMsg b m ∧ PMsg (encMsg m) m :=
  ⟨(dec6_iff b m).mp h, (dec6_iff _ m).mp (v6_fixpoint b m h hf)⟩

theorem v6_meaning_norm (b : Bytes) (m : Msg6) (h : dec6 b = .ok m) (hf : FitsLenM m) :
    PMsg b m ∧ PMsg (encMsg m) (cutNames6 m) :=
  ⟨(dec6_iff b m).mp h, (dec6_iff _ _).mp (v6_fixpoint_norm b m h hf).1⟩

/-- without option 87 anywhere in the message the fixpoint is unconditional,
and re-encoding never lengthens the message -/
theorem v6_fixpoint_noV4 (b : Bytes) (m : Msg6) (h : dec6 b = .ok m) (hv : hasV4M m = false) :
    dec6 (encMsg m) = .ok m ∧ (encMsg m).length ≤ b.length := by
  have hf := noV4_fitsM m hv
  exact ⟨v6_fixpoint b m h hf, (decoded_msg ((dec6_iff b m).mp h) hf.1).2 hv⟩

end Dhcp.V6

import DhcpProofs.Lemmas.ClientLTSProgress
/-
  One rank for the whole client after Close (C11): the per-caller variants
  `mu i` of ClientLTSProgress share the receive loop's potential `rxPot`; here
  the caller parts are summed over the (finite) set of callers that were ever
  started and `rxPot` is counted once.  A step of the client changes the caller
  part of at most ONE caller (`affected`): its own for a caller's step, that of
  the owner of the registration delivered into for `rxDeliver`.
-/
namespace Dhcp.Client.LTS

/-- the part of `mu i` that belongs to caller `i` alone -/
def cpart (i : Nat) (s : State) : Nat := crank (getC s i).pc + 2 * bufOf s (getC s i).pc

theorem mu_eq (i : Nat) (s : State) : mu i s = cpart i s + rxPot s := rfl

/-- the one caller whose part a step can change -/
def affected (s : State) : Label → Nat
  | .lock j | .register j | .refuse j | .transmit j | .transmitFail j | .transmitErr j | .take j | .accept j | .reject j
  | .giveUp j | .giveUpCtx j | .giveUpClosed j | .cancel1 j | .cancel2 j | .nextTry j | .ret j => j
  | .rxDeliver => match s.rx with | .sending _ r => (getR s r).owner | _ => 0
  | _ => 0

theorem movesFor_affected (s : State) (l : Label) (hl : isEnv l = false) : movesFor (affected s l) l = true := by
  cases l <;> simp_all [isEnv, movesFor, affected]

set_option maxHeartbeats 4000000 in
/-- a step leaves the part of every other caller alone -/
theorem cpart_frame (cfg : Cfg) (s s' : State) (l : Label) (i : Nat) (hw : WF cfg s)
    (hl : isEnv l = false) (h : step cfg s l = some s') (hi : i ≠ affected s l) : cpart i s' = cpart i s := by
  obtain ⟨hpend, hpcreg, hdopen, hdpend, hpowner, hrxsend, hnf, hnonil⟩ := hw
  lts_cases l h
  all_goals (first | (simp [isEnv] at hl; done) | skip)
  all_goals (simp_all [cpart, bufOf, getC, getR, affected])
  all_goals (try split)
  all_goals (first | (simp_all; done) | omega | grind | skip)

/-! ### finitely many callers -/

/-- an index above every caller that was ever started -/
def cbound (s : State) : Nat := (s.callers.l.map Prod.fst).foldr max 0 + 1

theorem getL_none_of_lt {β : Type} : ∀ (l : List (Nat × β)) (k : Nat),
    (l.map Prod.fst).foldr max 0 < k → FMap.getL k l = none
  | [], _, _ => rfl
  | (k', v) :: t, k, h => by
    simp only [List.map_cons, List.foldr_cons] at h
    have h1 : k' < k := by omega
    have h2 : (t.map Prod.fst).foldr max 0 < k := by omega
    simp only [FMap.getL]
    rw [if_neg (by omega)]
    exact getL_none_of_lt t k h2

theorem cpart_zero_of_bound (s : State) (i : Nat) (h : cbound s ≤ i) : cpart i s = 0 := by
  have hg : s.callers.get i = none := getL_none_of_lt s.callers.l i (by unfold cbound at h; omega)
  have hc : getC s i = default := by simp [getC, FMap.val, hg]
  simp [cpart, hc, bufOf]

/-- `f 0 + … + f (n-1)` -/
def sumTo (f : Nat → Nat) : Nat → Nat
  | 0 => 0
  | n + 1 => sumTo f n + f n

theorem sumTo_ext_zero (f : Nat → Nat) (n : Nat) : ∀ m, n ≤ m → (∀ i, n ≤ i → f i = 0) → sumTo f m = sumTo f n
  | 0, h, _ => by have : n = 0 := by omega
                  subst this; rfl
  | m + 1, h, hz => by
    by_cases hn : n = m + 1
    · subst hn; rfl
    · have : n ≤ m := by omega
      simp only [sumTo]
      rw [sumTo_ext_zero f n m this hz, hz m this]
      rfl

theorem sumTo_congr (f g : Nat → Nat) : ∀ n, (∀ i, i < n → f i = g i) → sumTo f n = sumTo g n
  | 0, _ => rfl
  | n + 1, h => by
    simp only [sumTo]
    rw [sumTo_congr f g n (fun i hi => h i (by omega)), h n (by omega)]

/-- two summands lists that agree everywhere but at `a` -/
theorem sumTo_except (f g : Nat → Nat) (a : Nat) : ∀ n, a < n → (∀ i, i ≠ a → f i = g i) →
    sumTo f n + g a = sumTo g n + f a
  | 0, h, _ => by omega
  | n + 1, h, he => by
    simp only [sumTo]
    by_cases hn : a = n
    · subst hn
      rw [sumTo_congr f g a (fun i hi => he i (by omega))]
      omega
    · have := sumTo_except f g a n (by omega) he
      rw [he n (by omega)]
      omega

set_option maxHeartbeats 2000000 in
/-- the receive loop's potential never grows on a step of the client -/
theorem rxPot_mono (cfg : Cfg) (s s' : State) (l : Label) (hw : WF cfg s)
    (hl : isEnv l = false) (h : step cfg s l = some s') : rxPot s' ≤ rxPot s := by
  obtain ⟨hpend, hpcreg, hdopen, hdpend, hpowner, hrxsend, hnf, hnonil⟩ := hw
  lts_cases l h
  all_goals (first | (simp [isEnv] at hl; done) | skip)
  all_goals (simp_all [rxPot, getC, getR])
  all_goals (try split)
  all_goals (first | (simp_all; done) | omega | grind | skip)

/-- THE rank of a closed client: the receive loop's potential once, plus the part of
every caller that was ever started -/
def rank (s : State) : Nat := rxPot s + sumTo (fun i => cpart i s) (cbound s)

theorem rank_eq (s : State) (m : Nat) (h : cbound s ≤ m) : rank s = rxPot s + sumTo (fun i => cpart i s) m := by
  unfold rank
  rw [sumTo_ext_zero (fun i => cpart i s) (cbound s) m h (fun i hi => cpart_zero_of_bound s i hi)]

/-- every step of the client itself, in a closed well-formed state, lowers the rank -/
theorem rank_decreases (cfg : Cfg) (s s' : State) (l : Label) (hc : s.closed = true) (hw : WF cfg s)
    (hl : isEnv l = false) (h : step cfg s l = some s') : rank s' < rank s := by
  let a := affected s l
  let m := max (max (cbound s) (cbound s')) (a + 1)
  have hs : rank s = rxPot s + sumTo (fun i => cpart i s) m := rank_eq s m (by omega)
  have hs' : rank s' = rxPot s' + sumTo (fun i => cpart i s') m := rank_eq s' m (by omega)
  have hex := sumTo_except (fun i => cpart i s') (fun i => cpart i s) a m (by omega)
    (fun i hi => cpart_frame cfg s s' l i hw hl h hi)
  have hst := mu_strict cfg s s' l a hc hw (movesFor_affected s l hl) h
  rw [mu_eq, mu_eq] at hst
  omega

end Dhcp.Client.LTS

import Dhcp.Spec.Wire6
import DhcpProofs.Lemmas.V6Frame
import DhcpProofs.Lemmas.V6Simple
import DhcpProofs.Lemmas.LabelApi
/-
  The model of `dhcpv6.FromBytes` / `ParseOption` / `Options.FromBytes` accepts
  exactly the declarative framing grammar of Dhcp/Spec/Wire6.lean
  (`PMsg`/`POpt`/`POpts`), for ALL byte strings and all fuel.
-/
namespace Dhcp.V6
open Dhcp List Dhcp.Spec
open Dhcp.V4 (LInv consume_inv read8_inv read16_inv readBytes_inv copyN_inv)

/-! ### byte-list helpers -/

theorem split_at (v : Bytes) (n : Nat) (h : n ≤ v.length) : ∃ a r, v = a ++ r ∧ a.length = n :=
  ⟨v.take n, v.drop n, (List.take_append_drop n v).symm, by simp [List.length_take]; omega⟩

theorem len4 {l : Bytes} (h : l.length = 4) : ∃ a b c d, l = [a, b, c, d] := by
  match l, h with
  | [a, b, c, d], _ => exact ⟨a, b, c, d, rfl⟩

theorem beNat_lt_four (a b c d : UInt8) : beNat [a, b, c, d] < 4294967296 := by
  simp only [beNat, List.foldl_cons, List.foldl_nil]
  have := UInt8.toNat_lt a; have := UInt8.toNat_lt b
  have := UInt8.toNat_lt c; have := UInt8.toNat_lt d
  omega

theorem be32_beNat (a b c d : UInt8) : be32 (beNat [a, b, c, d]) = [a, b, c, d] := by
  simp only [be32, beNat, List.foldl_cons, List.foldl_nil, Nat.zero_mul, Nat.zero_add]
  have ha := UInt8.toNat_lt a; have hb := UInt8.toNat_lt b
  have hc := UInt8.toNat_lt c; have hd := UInt8.toNat_lt d
  have e : ∀ (n : Nat) (x : UInt8), n % 256 = x.toNat → UInt8.ofNat n = x := by
    intro n x hx
    apply UInt8.toNat_inj.mp
    rw [UInt8.toNat_ofNat']; exact hx
  rw [e _ a (by omega), e _ b (by omega), e _ c (by omega), e _ d (by omega)]

/-- any four bytes are the big-endian form of a number below 2^32 -/
theorem exists_be32 {l : Bytes} (h : l.length = 4) : ∃ s, s < 4294967296 ∧ l = be32 s := by
  obtain ⟨a, b, c, d, rfl⟩ := len4 h
  exact ⟨beNat [a, b, c, d], beNat_lt_four a b c d, (be32_beNat a b c d).symm⟩

/-- a buffer of at least four bytes starts with a 32-bit big-endian number -/
theorem split_be32 (v : Bytes) (h : 4 ≤ v.length) :
    ∃ s r, s < 4294967296 ∧ v = be32 s ++ r ∧ r.length + 4 = v.length := by
  obtain ⟨a, r, rfl, ha⟩ := split_at v 4 h
  obtain ⟨s, hs, rfl⟩ := exists_be32 ha
  exact ⟨s, r, hs, rfl, by simp; omega⟩

/-! ### `Res` helpers -/

theorem Res.map_eq_ok {α β : Type} {r : Res α} {f : α → β} {b : β} (h : r.map f = .ok b) :
    ∃ a, r = .ok a ∧ b = f a := by
  cases r with
  | ok a => simp only [Res.map, Res.bind, Res.ok.injEq] at h; exact ⟨a, rfl, h.symm⟩
  | err => simp [Res.map, Res.bind] at h
  | panic => simp [Res.map, Res.bind] at h

theorem Res.map_ne_panic {α β : Type} {r : Res α} {f : α → β} (h : r ≠ .panic) : r.map f ≠ .panic := by
  cases r with
  | ok a => simp [Res.map, Res.bind]
  | err => simp [Res.map, Res.bind]
  | panic => exact absurd rfl h

theorem fin_err {α : Type} (l : Lexer) (a : α) (h : l.err = true) : fin l a = .err := by
  simp [fin, Lexer.finError, h]

theorem fin_eq_ok {α : Type} {l : Lexer} {a b : α} (h : fin l a = .ok b) : a = b := by
  unfold fin at h
  split at h
  · simp at h
  · simpa using h

theorem fin_ne_panic {α : Type} (l : Lexer) (a : α) : fin l a ≠ .panic := by
  unfold fin; split <;> simp

/-- the shared tail of the container decoders: nested list, then `FinError` -/
theorem tail_err {α : Type} (r : Res (List Opt6)) (l : Lexer) (k : List Opt6 → α) (h : l.err = true)
    (a : α) :
    (match r with
     | .ok os => fin l (k os)
     | .err => .err
     | .panic => .panic) ≠ .ok a := by
  cases r <;> simp [fin_err _ _ h]

theorem tail_ok {α : Type} (r : Res (List Opt6)) (k : List Opt6 → α) :
    (match r with
     | .ok os => fin ⟨[], false⟩ (k os)
     | .err => .err
     | .panic => .panic) = r.map k := by
  cases r <;> simp [fin_ok, Res.map, Res.bind]

/-! ### progress invariant for the remaining Lexer reads -/

theorem read32_inv (b : Bytes) (l : Lexer) (k : Nat) (h : LInv b l k) : LInv b l.read32.2 (k + 4) := by
  have := consume_inv b l k 4 h
  unfold Lexer.read32
  generalize l.consume 4 = r at this
  obtain ⟨v, l'⟩ := r
  cases v <;> exact this

theorem decDur_inv (b : Bytes) (l : Lexer) (k : Nat) (h : LInv b l k) : LInv b (decDur l).2 (k + 4) := by
  have := read32_inv b l k h
  unfold decDur
  generalize l.read32 = r at this
  obtain ⟨v, l'⟩ := r
  exact this

theorem LInv_new (b : Bytes) : LInv b (Lexer.new b) 0 := Or.inr (by simp [Lexer.new])

theorem LInv_err {b : Bytes} {l : Lexer} {k : Nat} (h : LInv b l k) (hk : b.length < k) : l.err = true := by
  rcases h with h | h
  · exact h
  · omega

theorem readAll_err (l : Lexer) (h : l.err = true) : l.readAll.2.err = true := h

theorem decDur_append (s : Nat) (h : s < 4294967296) (rest : Bytes) (e : Bool) :
    decDur ⟨be32 s ++ rest, e⟩ = ((s : Int) * second, ⟨rest, e⟩) := by
  unfold decDur
  rw [Lexer.read32_append s h]

/-! ### the container decoders in closed form, and their inversions -/

theorem decIA_closed (mk : Bytes → Dur → Dur → List Opt6 → Opt6) (decO : Bytes → Res (List Opt6))
    (iaid sub : Bytes) (s1 s2 : Nat) (hi : iaid.length = 4) (h1 : s1 < 4294967296)
    (h2 : s2 < 4294967296) :
    decIA mk decO (iaid ++ (be32 s1 ++ (be32 s2 ++ sub))) =
      (decO sub).map (mk iaid ((s1 : Int) * second) ((s2 : Int) * second)) := by
  unfold decIA
  simp only [Lexer.new]
  rw [Lexer.readBytes_append iaid _ false hi.symm]
  simp only [decDur_append s1 h1, decDur_append s2 h2, readAll_mk]
  exact tail_ok _ _

theorem decIA_short (mk : Bytes → Dur → Dur → List Opt6 → Opt6) (decO : Bytes → Res (List Opt6))
    (v : Bytes) (h : v.length < 12) (o : Opt6) : decIA mk decO v ≠ .ok o := by
  unfold decIA
  have i0 := LInv_new v
  generalize Lexer.new v = l0 at i0 ⊢
  dsimp only
  have i1 := readBytes_inv v l0 0 4 i0
  generalize l0.readBytes 4 = r1 at i1 ⊢
  obtain ⟨v1, l1⟩ := r1
  simp only at i1 ⊢
  have i2 := decDur_inv v l1 4 i1
  generalize decDur l1 = r2 at i2 ⊢
  obtain ⟨v2, l2⟩ := r2
  simp only at i2 ⊢
  have i3 := decDur_inv v l2 8 i2
  generalize decDur l2 = r3 at i3 ⊢
  obtain ⟨v3, l3⟩ := r3
  simp only at i3 ⊢
  have i4 := readAll_err l3 (LInv_err i3 (by omega))
  generalize l3.readAll = r4 at i4 ⊢
  obtain ⟨v4, l4⟩ := r4
  exact tail_err _ _ _ i4 o

theorem decIA_inv (mk : Bytes → Dur → Dur → List Opt6 → Opt6) (decO : Bytes → Res (List Opt6))
    (v : Bytes) (o : Opt6) (h : decIA mk decO v = .ok o) :
    ∃ iaid s1 s2 sub os, v = iaid ++ (be32 s1 ++ (be32 s2 ++ sub)) ∧ iaid.length = 4 ∧
      s1 < 4294967296 ∧ s2 < 4294967296 ∧ decO sub = .ok os ∧
      o = mk iaid ((s1 : Int) * second) ((s2 : Int) * second) os := by
  by_cases hl : v.length < 12
  · exact absurd h (decIA_short mk decO v hl o)
  · obtain ⟨iaid, r1, rfl, hi⟩ := split_at v 4 (by omega)
    simp only [List.length_append, hi] at hl
    obtain ⟨s1, r2, h1, rfl, hr2⟩ := split_be32 r1 (by omega)
    obtain ⟨s2, sub, h2, rfl, _⟩ := split_be32 r2 (by omega)
    rw [decIA_closed mk decO iaid sub s1 s2 hi h1 h2] at h
    obtain ⟨os, hos, rfl⟩ := Res.map_eq_ok h
    exact ⟨iaid, s1, s2, sub, os, rfl, hi, h1, h2, hos, rfl⟩

theorem decIATA_closed (decO : Bytes → Res (List Opt6)) (iaid sub : Bytes) (hi : iaid.length = 4) :
    decIATA decO (iaid ++ sub) = (decO sub).map (Opt6.iata iaid) := by
  unfold decIATA
  simp only [Lexer.new]
  rw [Lexer.readBytes_append iaid _ false hi.symm]
  simp only [readAll_mk]
  exact tail_ok _ _

theorem decIATA_short (decO : Bytes → Res (List Opt6)) (v : Bytes) (h : v.length < 4) (o : Opt6) :
    decIATA decO v ≠ .ok o := by
  unfold decIATA
  have i0 := LInv_new v
  generalize Lexer.new v = l0 at i0 ⊢
  dsimp only
  have i1 := readBytes_inv v l0 0 4 i0
  generalize l0.readBytes 4 = r1 at i1 ⊢
  obtain ⟨v1, l1⟩ := r1
  simp only at i1 ⊢
  have i4 := readAll_err l1 (LInv_err i1 (by omega))
  generalize l1.readAll = r4 at i4 ⊢
  obtain ⟨v4, l4⟩ := r4
  exact tail_err _ _ _ i4 o

theorem decIATA_inv (decO : Bytes → Res (List Opt6)) (v : Bytes) (o : Opt6)
    (h : decIATA decO v = .ok o) :
    ∃ iaid sub os, v = iaid ++ sub ∧ iaid.length = 4 ∧ decO sub = .ok os ∧ o = .iata iaid os := by
  by_cases hl : v.length < 4
  · exact absurd h (decIATA_short decO v hl o)
  · obtain ⟨iaid, sub, rfl, hi⟩ := split_at v 4 (by omega)
    rw [decIATA_closed decO iaid sub hi] at h
    obtain ⟨os, hos, rfl⟩ := Res.map_eq_ok h
    exact ⟨iaid, sub, os, rfl, hi, hos, rfl⟩

theorem decIAAddr_closed (decO : Bytes → Res (List Opt6)) (ip sub : Bytes) (s1 s2 : Nat)
    (hi : ip.length = 16) (h1 : s1 < 4294967296) (h2 : s2 < 4294967296) :
    decIAAddr decO (ip ++ (be32 s1 ++ (be32 s2 ++ sub))) =
      (decO sub).map (Opt6.iaaddr (some ip) ((s1 : Int) * second) ((s2 : Int) * second)) := by
  unfold decIAAddr
  simp only [Lexer.new]
  rw [Lexer.copyN_append ip _ false hi.symm]
  simp only [decDur_append s1 h1, decDur_append s2 h2, readAll_mk]
  exact tail_ok _ _

theorem decIAAddr_short (decO : Bytes → Res (List Opt6)) (v : Bytes) (h : v.length < 24) (o : Opt6) :
    decIAAddr decO v ≠ .ok o := by
  unfold decIAAddr
  have i0 := LInv_new v
  generalize Lexer.new v = l0 at i0 ⊢
  dsimp only
  have i1 := copyN_inv v l0 0 16 i0
  generalize l0.copyN 16 = r1 at i1 ⊢
  obtain ⟨v1, l1⟩ := r1
  simp only at i1 ⊢
  have i2 := decDur_inv v l1 16 i1
  generalize decDur l1 = r2 at i2 ⊢
  obtain ⟨v2, l2⟩ := r2
  simp only at i2 ⊢
  have i3 := decDur_inv v l2 20 i2
  generalize decDur l2 = r3 at i3 ⊢
  obtain ⟨v3, l3⟩ := r3
  simp only at i3 ⊢
  have i4 := readAll_err l3 (LInv_err i3 (by omega))
  generalize l3.readAll = r4 at i4 ⊢
  obtain ⟨v4, l4⟩ := r4
  exact tail_err _ _ _ i4 o

theorem decIAAddr_inv (decO : Bytes → Res (List Opt6)) (v : Bytes) (o : Opt6)
    (h : decIAAddr decO v = .ok o) :
    ∃ ip s1 s2 sub os, v = ip ++ (be32 s1 ++ (be32 s2 ++ sub)) ∧ ip.length = 16 ∧
      s1 < 4294967296 ∧ s2 < 4294967296 ∧ decO sub = .ok os ∧
      o = .iaaddr (some ip) ((s1 : Int) * second) ((s2 : Int) * second) os := by
  by_cases hl : v.length < 24
  · exact absurd h (decIAAddr_short decO v hl o)
  · obtain ⟨ip, r1, rfl, hi⟩ := split_at v 16 (by omega)
    simp only [List.length_append, hi] at hl
    obtain ⟨s1, r2, h1, rfl, hr2⟩ := split_be32 r1 (by omega)
    obtain ⟨s2, sub, h2, rfl, _⟩ := split_be32 r2 (by omega)
    rw [decIAAddr_closed decO ip sub s1 s2 hi h1 h2] at h
    obtain ⟨os, hos, rfl⟩ := Res.map_eq_ok h
    exact ⟨ip, s1, s2, sub, os, rfl, hi, h1, h2, hos, rfl⟩

theorem decIAPrefix_closed (decO : Bytes → Res (List Opt6)) (ip sub : Bytes) (s1 s2 : Nat) (len : UInt8)
    (hi : ip.length = 16) (h1 : s1 < 4294967296) (h2 : s2 < 4294967296) :
    decIAPrefix decO (be32 s1 ++ (be32 s2 ++ (len :: (ip ++ sub)))) =
      if len.toNat > 128 then .err
      else (decO sub).map (Opt6.iaprefix ((s1 : Int) * second) ((s2 : Int) * second)
        (if len = 0 then none else some (len.toNat, some ip))) := by
  unfold decIAPrefix
  simp only [Lexer.new, decDur_append s1 h1, decDur_append s2 h2, Lexer.read8_cons]
  by_cases hg : len.toNat > 128
  · simp only [hg, if_true]
  · simp only [hg, if_false]
    rw [Lexer.copyN_append ip _ false hi.symm]
    simp only [readAll_mk]
    exact tail_ok _ _

theorem decIAPrefix_short (decO : Bytes → Res (List Opt6)) (v : Bytes) (h : v.length < 25) (o : Opt6) :
    decIAPrefix decO v ≠ .ok o := by
  unfold decIAPrefix
  have i0 := LInv_new v
  generalize Lexer.new v = l0 at i0 ⊢
  dsimp only
  have i1 := decDur_inv v l0 0 i0
  generalize decDur l0 = r1 at i1 ⊢
  obtain ⟨v1, l1⟩ := r1
  simp only at i1 ⊢
  have i2 := decDur_inv v l1 4 i1
  generalize decDur l1 = r2 at i2 ⊢
  obtain ⟨v2, l2⟩ := r2
  simp only at i2 ⊢
  have i3 := read8_inv v l2 8 i2
  generalize l2.read8 = r3 at i3 ⊢
  obtain ⟨v3, l3⟩ := r3
  simp only at i3 ⊢
  split
  · simp
  · have i5 := copyN_inv v l3 9 16 i3
    generalize l3.copyN 16 = r5 at i5 ⊢
    obtain ⟨v5, l5⟩ := r5
    simp only at i5 ⊢
    have i4 := readAll_err l5 (LInv_err i5 (by omega))
    generalize l5.readAll = r4 at i4 ⊢
    obtain ⟨v4, l4⟩ := r4
    exact tail_err _ _ _ i4 o

theorem decIAPrefix_inv (decO : Bytes → Res (List Opt6)) (v : Bytes) (o : Opt6)
    (h : decIAPrefix decO v = .ok o) :
    ∃ s1 s2 len ip sub os, v = be32 s1 ++ (be32 s2 ++ (len :: (ip ++ sub))) ∧
      s1 < 4294967296 ∧ s2 < 4294967296 ∧ len.toNat ≤ 128 ∧ ip.length = 16 ∧ decO sub = .ok os ∧
      o = .iaprefix ((s1 : Int) * second) ((s2 : Int) * second)
        (if len = 0 then none else some (len.toNat, some ip)) os := by
  by_cases hl : v.length < 25
  · exact absurd h (decIAPrefix_short decO v hl o)
  · obtain ⟨s1, r1, h1, rfl, _⟩ := split_be32 v (by omega)
    simp only [List.length_append, be32_length] at hl
    obtain ⟨s2, r2, h2, rfl, _⟩ := split_be32 r1 (by omega)
    simp only [List.length_append, be32_length] at hl
    cases r2 with
    | nil => simp only [List.length_nil] at hl; omega
    | cons len r3 =>
      simp only [List.length_cons] at hl
      obtain ⟨ip, sub, rfl, hi⟩ := split_at r3 16 (by omega)
      rw [decIAPrefix_closed decO ip sub s1 s2 len hi h1 h2] at h
      by_cases hg : len.toNat > 128
      · simp [hg] at h
      · simp only [hg, if_false] at h
        obtain ⟨os, hos, rfl⟩ := Res.map_eq_ok h
        exact ⟨s1, s2, len, ip, sub, os, rfl, h1, h2, by omega, hi, hos, rfl⟩

/-! ### the message header -/

theorem decMsgF_nil (f : Nat) : decMsgF (f + 1) [] = .err := by
  simp [decMsgF, Lexer.new, Lexer.read8_nil, Lexer.error]

theorem decMsgF_msg (f : Nat) (t : UInt8) (xid rest : Bytes) (ht : isRelayType t = false)
    (hx : xid.length = 3) :
    decMsgF (f + 1) (t :: (xid ++ rest)) = (decOptsF f rest).map (Msg6.msg t xid) := by
  simp only [decMsgF, Lexer.new, Lexer.read8_cons, Lexer.error, Bool.false_eq_true, if_false, ht]
  rw [Lexer.readBytes_append xid _ false hx.symm]
  simp only [Bool.false_eq_true, if_false]

theorem decMsgF_relay (f : Nat) (t h : UInt8) (link peer rest : Bytes) (ht : isRelayType t = true)
    (hl : link.length = 16) (hp : peer.length = 16) :
    decMsgF (f + 1) (t :: h :: (link ++ (peer ++ rest))) =
      (decOptsF f rest).map (Msg6.relay t h (some link) (some peer)) := by
  simp only [decMsgF, Lexer.new, Lexer.read8_cons, Lexer.error, Bool.false_eq_true, if_false, ht,
    if_true]
  rw [Lexer.copyN_append link _ false hl.symm]
  simp only
  rw [Lexer.copyN_append peer _ false hp.symm]
  simp only [Bool.false_eq_true, if_false]

theorem decMsgF_msg_short (f : Nat) (t : UInt8) (r : Bytes) (ht : isRelayType t = false)
    (hr : r.length < 3) : decMsgF (f + 1) (t :: r) = .err := by
  have hc : Lexer.readBytes ⟨r, false⟩ 3 = (zeros 3, ⟨r, true⟩) := by
    have : ¬ 3 ≤ r.length := by omega
    simp [Lexer.readBytes, Lexer.consume, this]
  simp only [decMsgF, Lexer.new, Lexer.read8_cons, Lexer.error, Bool.false_eq_true, if_false, ht, hc,
    if_true]

theorem decMsgF_relay_short (f : Nat) (t : UInt8) (r : Bytes) (ht : isRelayType t = true)
    (hr : r.length < 33) : decMsgF (f + 1) (t :: r) = .err := by
  simp only [decMsgF, Lexer.new, Lexer.read8_cons, Lexer.error, Bool.false_eq_true, if_false, ht,
    if_true]
  have i0 : LInv r ⟨r, false⟩ 0 := Or.inr rfl
  generalize (⟨r, false⟩ : Lexer) = l0 at i0 ⊢
  have i1 := read8_inv r l0 0 i0
  generalize l0.read8 = r1 at i1 ⊢
  obtain ⟨v1, l1⟩ := r1
  simp only at i1 ⊢
  have i2 := copyN_inv r l1 1 16 i1
  generalize l1.copyN 16 = r2 at i2 ⊢
  obtain ⟨v2, l2⟩ := r2
  simp only at i2 ⊢
  have i3 := copyN_inv r l2 17 16 i2
  generalize l2.copyN 16 = r3 at i3 ⊢
  obtain ⟨v3, l3⟩ := r3
  simp only at i3 ⊢
  simp only [LInv_err i3 (by omega), if_true]

theorem decMsgF_inv (f : Nat) (b : Bytes) (m : Msg6) (h : decMsgF (f + 1) b = .ok m) :
    (∃ t xid rest os, b = t :: (xid ++ rest) ∧ isRelayType t = false ∧ xid.length = 3 ∧
      decOptsF f rest = .ok os ∧ m = .msg t xid os) ∨
    (∃ t hops link peer rest os, b = t :: hops :: (link ++ (peer ++ rest)) ∧ isRelayType t = true ∧
      link.length = 16 ∧ peer.length = 16 ∧ decOptsF f rest = .ok os ∧
      m = .relay t hops (some link) (some peer) os) := by
  match b with
  | [] => rw [decMsgF_nil] at h; simp at h
  | t :: r =>
    cases ht : isRelayType t with
    | false =>
      left
      by_cases hr : r.length < 3
      · rw [decMsgF_msg_short f t r ht hr] at h; simp at h
      · obtain ⟨xid, rest, rfl, hx⟩ := split_at r 3 (by omega)
        rw [decMsgF_msg f t xid rest ht hx] at h
        obtain ⟨os, hos, rfl⟩ := Res.map_eq_ok h
        exact ⟨t, xid, rest, os, rfl, ht, hx, hos, rfl⟩
    | true =>
      right
      by_cases hr : r.length < 33
      · rw [decMsgF_relay_short f t r ht hr] at h; simp at h
      · cases r with
        | nil => simp only [List.length_nil] at hr; omega
        | cons hops r1 =>
          simp only [List.length_cons] at hr
          obtain ⟨link, r2, rfl, hl⟩ := split_at r1 16 (by omega)
          simp only [List.length_append, hl] at hr
          obtain ⟨peer, rest, rfl, hp⟩ := split_at r2 16 (by omega)
          rw [decMsgF_relay f t hops link peer rest ht hl hp] at h
          obtain ⟨os, hos, rfl⟩ := Res.map_eq_ok h
          exact ⟨t, hops, link, peer, rest, os, rfl, ht, hl, hp, hos, rfl⟩

/-! ### what the leaf decoder can return -/

/-- codes with a dedicated branch in `decSimple` -/
def simpleCodes : List Nat :=
  [6, 8, 13, 15, 16, 17, 18, 23, 24, 32, 37, 39, 56, 59, 60, 61, 62, 79, 87, 88, 98, 99, 135]

/-- what `decSimple code value` can return -/
def Shape (c : Nat) (v : Bytes) (o : Opt6) : Prop :=
  isSimple o = true ∧ o.code = c ∧ (∀ c' d, o = .generic c' d → d = v ∧ c ∉ simpleCodes)

theorem shape_fin {c : Nat} {v : Bytes} {l : Lexer} {a o : Opt6} (h : fin l a = .ok o)
    (hs : Shape c v a) : Shape c v o := by
  rw [← fin_eq_ok h]; exact hs

theorem shape_ok {c : Nat} {v : Bytes} {a o : Opt6} (h : Res.ok a = .ok o)
    (hs : Shape c v a) : Shape c v o := by
  simp only [Res.ok.injEq] at h; rw [← h]; exact hs

theorem decSimple_other (c : Nat) (data : Bytes) (h : c ∉ simpleCodes) :
    decSimple c data = .ok (.generic c data) := by
  simp only [simpleCodes, List.mem_cons, List.mem_nil_iff, or_false, not_or] at h
  obtain ⟨h6, h8, h13, h15, h16, h17, h18, h23, h24, h32, h37, h39, h56, h59,
    h60, h61, h62, h79, h87, h88, h98, h99, h135⟩ := h
  simp only [decSimple, h6, h8, h13, h15, h16, h17, h18, h23, h24, h32, h37, h39, h56, h59, h60, h61,
    h62, h79, h87, h88, h98, h99, h135, if_false]

local macro "shape_branch" h:ident : tactic =>
  `(tactic| (try simp only [] at $h:ident
             try split at $h:ident
             all_goals first
               | exact shape_fin $h (by simp [Shape, isSimple, Opt6.code])
               | exact shape_ok $h (by simp [Shape, isSimple, Opt6.code])
               | (simp at $h:ident; done)))

theorem decSimple_shape (c : Nat) (v : Bytes) (o : Opt6) (h : decSimple c v = .ok o) : Shape c v o := by
  by_cases h6 : c = 6
  · subst h6; rw [decSimple_6] at h; shape_branch h
  by_cases h8 : c = 8
  · subst h8; rw [decSimple_8] at h; shape_branch h
  by_cases h13 : c = 13
  · subst h13; rw [decSimple_13] at h; shape_branch h
  by_cases h15 : c = 15
  · subst h15; rw [decSimple_15] at h; shape_branch h
  by_cases h16 : c = 16
  · subst h16; rw [decSimple_16] at h; shape_branch h
  by_cases h17 : c = 17
  · subst h17; rw [decSimple_17] at h; shape_branch h
  by_cases h18 : c = 18
  · subst h18; rw [decSimple_18] at h; shape_branch h
  by_cases h23 : c = 23
  · subst h23; rw [decSimple_23] at h; shape_branch h
  by_cases h24 : c = 24
  · subst h24; rw [decSimple_24] at h; shape_branch h
  by_cases h32 : c = 32
  · subst h32; rw [decSimple_32] at h; shape_branch h
  by_cases h37 : c = 37
  · subst h37; rw [decSimple_37] at h; shape_branch h
  by_cases h39 : c = 39
  · subst h39; rw [decSimple_39] at h; shape_branch h
  by_cases h56 : c = 56
  · subst h56; rw [decSimple_56] at h; shape_branch h
  by_cases h59 : c = 59
  · subst h59; rw [decSimple_59] at h; shape_branch h
  by_cases h60 : c = 60
  · subst h60; rw [decSimple_60] at h; shape_branch h
  by_cases h61 : c = 61
  · subst h61; rw [decSimple_61] at h; shape_branch h
  by_cases h62 : c = 62
  · subst h62; rw [decSimple_62] at h; shape_branch h
  by_cases h79 : c = 79
  · subst h79; rw [decSimple_79] at h; shape_branch h
  by_cases h87 : c = 87
  · subst h87; rw [decSimple_87] at h; shape_branch h
  by_cases h88 : c = 88
  · subst h88; rw [decSimple_88] at h; shape_branch h
  by_cases h98 : c = 98
  · subst h98; rw [decSimple_98] at h; shape_branch h
  by_cases h99 : c = 99
  · subst h99; rw [decSimple_99] at h; shape_branch h
  by_cases h135 : c = 135
  · subst h135; rw [decSimple_135] at h; shape_branch h
  have hn : c ∉ simpleCodes := by
    simp only [simpleCodes, List.mem_cons, List.mem_nil_iff, or_false, not_or]
    exact ⟨h6, h8, h13, h15, h16, h17, h18, h23, h24, h32, h37, h39, h56, h59,
      h60, h61, h62, h79, h87, h88, h98, h99, h135⟩
  rw [decSimple_other c v hn] at h
  refine shape_ok h ⟨rfl, rfl, ?_⟩
  intro c' d hg
  simp only [Opt6.generic.injEq] at hg
  exact ⟨hg.2.symm, hn⟩

/-! ### the dispatch of `parseOpt` -/

theorem parseOpt_leaf (f c : Nat) (d : Bytes) (h : c ∉ containerCodes) :
    parseOpt (f + 1) c d = decSimple c d := by
  simp only [containerCodes, List.mem_cons, List.mem_nil_iff, or_false, not_or] at h
  obtain ⟨h1, h2, h3, h4, h5, h9, h25, h26, h97⟩ := h
  simp only [parseOpt, h1, h2, h3, h4, h5, h9, h25, h26, h97, if_false]

/-! ### the mutual list relation is the generic tiling -/

theorem POpts_of_Tiles {d : Bytes} {os : List Opt6} (h : Tiles POpt d os) : POpts d os := by
  induction h with
  | nil => exact .nil
  | cons hc hv hp _ ih => exact .cons hc hv hp ih

theorem Tiles_of_POpts : {d : Bytes} → {os : List Opt6} → POpts d os → Tiles POpt d os
  | _, _, .nil => .nil
  | _, _, .cons hc hv hp hs => .cons hc hv hp (Tiles_of_POpts hs)

theorem POpts_iff_Tiles (d : Bytes) (os : List Opt6) : POpts d os ↔ Tiles POpt d os :=
  ⟨Tiles_of_POpts, POpts_of_Tiles⟩

theorem Tiles_and {α : Type} {P : Nat → Bytes → α → Prop} (Q : α → Prop) {d : Bytes} {os : List α}
    (h : Tiles P d os) (hq : ∀ o ∈ os, Q o) : Tiles (fun c v o => P c v o ∧ Q o) d os := by
  induction h with
  | nil => exact .nil
  | cons hc hv hp _ ih =>
    exact .cons hc hv ⟨hp, hq _ (by simp)⟩ (ih (fun o ho => hq o (by simp [ho])))

/-! ### soundness: whatever is accepted is in the grammar -/

theorem parseOpt_sound_step (f : Nat) (ihOs : ∀ d os, decOptsF f d = .ok os → POpts d os)
    (ihM : ∀ b m, decMsgF f b = .ok m → PMsg b m) (c : Nat) (v : Bytes) (o : Opt6)
    (h : parseOpt (f + 1) c v = .ok o) : POpt c v o := by
  by_cases h1 : c = 1
  · subst h1; rw [parseOpt_1] at h
    obtain ⟨d, hd, rfl⟩ := Res.map_eq_ok h
    exact .clientID hd
  by_cases h2 : c = 2
  · subst h2; rw [parseOpt_2] at h
    obtain ⟨d, hd, rfl⟩ := Res.map_eq_ok h
    exact .serverID hd
  by_cases h3 : c = 3
  · subst h3; rw [parseOpt_3] at h
    obtain ⟨iaid, s1, s2, sub, os, rfl, hi, hs1, hs2, hos, rfl⟩ := decIA_inv _ _ _ _ h
    exact .iana hi hs1 hs2 (ihOs _ _ hos)
  by_cases h4 : c = 4
  · subst h4; rw [parseOpt_4] at h
    obtain ⟨iaid, sub, os, rfl, hi, hos, rfl⟩ := decIATA_inv _ _ _ h
    exact .iata hi (ihOs _ _ hos)
  by_cases h5 : c = 5
  · subst h5; rw [parseOpt_5] at h
    obtain ⟨ip, s1, s2, sub, os, rfl, hi, hs1, hs2, hos, rfl⟩ := decIAAddr_inv _ _ _ h
    exact .iaaddr hi hs1 hs2 (ihOs _ _ hos)
  by_cases h9 : c = 9
  · subst h9; rw [parseOpt_9] at h
    obtain ⟨m, hm, rfl⟩ := Res.map_eq_ok h
    exact .relayMsg (ihM _ _ hm)
  by_cases h25 : c = 25
  · subst h25; rw [parseOpt_25] at h
    obtain ⟨iaid, s1, s2, sub, os, rfl, hi, hs1, hs2, hos, rfl⟩ := decIA_inv _ _ _ _ h
    exact .iapd hi hs1 hs2 (ihOs _ _ hos)
  by_cases h26 : c = 26
  · subst h26; rw [parseOpt_26] at h
    obtain ⟨s1, s2, len, ip, sub, os, rfl, hs1, hs2, hlen, hi, hos, rfl⟩ := decIAPrefix_inv _ _ _ h
    exact .iaprefix hs1 hs2 hlen hi (ihOs _ _ hos)
  by_cases h97 : c = 97
  · subst h97; rw [parseOpt_97] at h
    obtain ⟨os, hos, rfl⟩ := Res.map_eq_ok h
    exact .fourRD (ihOs _ _ hos)
  have hc : c ∉ containerCodes := by
    simp only [containerCodes, List.mem_cons, List.mem_nil_iff, or_false, not_or]
    exact ⟨h1, h2, h3, h4, h5, h9, h25, h26, h97⟩
  rw [parseOpt_leaf f c v hc] at h
  exact .leaf hc h

theorem decMsgF_sound_step (f : Nat) (ihOs : ∀ d os, decOptsF f d = .ok os → POpts d os)
    (b : Bytes) (m : Msg6) (h : decMsgF (f + 1) b = .ok m) : PMsg b m := by
  rcases decMsgF_inv f b m h with ⟨t, xid, rest, os, rfl, ht, hx, hos, rfl⟩ |
    ⟨t, hops, link, peer, rest, os, rfl, ht, hl, hp, hos, rfl⟩
  · exact .msg ht hx (ihOs _ _ hos)
  · exact .relay ht hl hp (ihOs _ _ hos)

/-- Soundness for every fuel: an accepted option value / option list / message
is derivable in the framing grammar. -/
theorem dec_sound : ∀ f,
    (∀ c v o, parseOpt f c v = .ok o → POpt c v o) ∧
    (∀ d os, decOptsF f d = .ok os → POpts d os) ∧
    (∀ b m, decMsgF f b = .ok m → PMsg b m) := by
  intro f
  induction f with
  | zero =>
    refine ⟨?_, ?_, ?_⟩
    · intro c v o h; simp [parseOpt] at h
    · intro d os h; simp [decOptsF] at h
    · intro b m h; simp [decMsgF] at h
  | succ f ih =>
    obtain ⟨ihO, ihOs, ihM⟩ := ih
    refine ⟨parseOpt_sound_step f ihOs ihM, ?_, decMsgF_sound_step f ihOs⟩
    intro d os h
    simp only [decOptsF] at h
    exact POpts_of_Tiles (optionsFromBytes_sound _ POpt ihO d os h)

/-! ### completeness: everything in the grammar is accepted, given fuel for its nesting -/

theorem fuelOpt_pos (o : Opt6) : 1 ≤ fuelOpt o := by
  cases o <;> simp [fuelOpt]

theorem fuelMsg_pos (m : Msg6) : 2 ≤ fuelMsg m := by
  cases m <;> simp [fuelMsg]

theorem dec_complete_fuel : ∀ f,
    (∀ c v o, POpt c v o → fuelOpt o ≤ f → parseOpt f c v = .ok o) ∧
    (∀ d os, POpts d os → fuelOpts os + 1 ≤ f → decOptsF f d = .ok os) ∧
    (∀ b m, PMsg b m → fuelMsg m ≤ f → decMsgF f b = .ok m) := by
  intro f
  induction f with
  | zero =>
    refine ⟨?_, ?_, ?_⟩
    · intro c v o _ hf; have := fuelOpt_pos o; omega
    · intro d os _ hf; omega
    · intro b m _ hf; have := fuelMsg_pos m; omega
  | succ f ih =>
    obtain ⟨ihO, ihOs, ihM⟩ := ih
    refine ⟨?_, ?_, ?_⟩
    · intro c v o h hf
      cases h with
      | leaf hc hd => rw [parseOpt_leaf f _ _ hc]; exact hd
      | clientID hd => rw [parseOpt_1, hd]; rfl
      | serverID hd => rw [parseOpt_2, hd]; rfl
      | iana hi h1 h2 hos =>
        simp only [fuelOpt] at hf
        rw [parseOpt_3, decIA_closed _ _ _ _ _ _ hi h1 h2, ihOs _ _ hos (by omega)]; rfl
      | iata hi hos =>
        simp only [fuelOpt] at hf
        rw [parseOpt_4, decIATA_closed _ _ _ hi, ihOs _ _ hos (by omega)]; rfl
      | iaaddr hi h1 h2 hos =>
        simp only [fuelOpt] at hf
        rw [parseOpt_5, decIAAddr_closed _ _ _ _ _ hi h1 h2, ihOs _ _ hos (by omega)]; rfl
      | relayMsg hm =>
        simp only [fuelOpt] at hf
        rw [parseOpt_9, ihM _ _ hm (by omega)]; rfl
      | iapd hi h1 h2 hos =>
        simp only [fuelOpt] at hf
        rw [parseOpt_25, decIA_closed _ _ _ _ _ _ hi h1 h2, ihOs _ _ hos (by omega)]; rfl
      | iaprefix h1 h2 hlen hi hos =>
        simp only [fuelOpt] at hf
        rw [parseOpt_26, decIAPrefix_closed _ _ _ _ _ _ hi h1 h2, if_neg (by omega),
          ihOs _ _ hos (by omega)]; rfl
      | fourRD hos =>
        simp only [fuelOpt] at hf
        rw [parseOpt_97, ihOs _ _ hos (by omega)]; rfl
    · intro d os h hf
      simp only [decOptsF]
      have ht := Tiles_and (fun o => fuelOpt o ≤ f) (Tiles_of_POpts h)
        (fun o ho => by have := fuelOpts_mem o ho; omega)
      exact optionsFromBytes_complete _ _ (fun c v o hp => ihO c v o hp.1 hp.2) d os ht
    · intro b m h hf
      cases h with
      | msg ht hx hos =>
        simp only [fuelMsg] at hf
        rw [decMsgF_msg f _ _ _ ht hx, ihOs _ _ hos (by omega)]; rfl
      | relay ht hl hp hos =>
        simp only [fuelMsg] at hf
        rw [decMsgF_relay f _ _ _ _ _ ht hl hp, ihOs _ _ hos (by omega)]; rfl

/-- Completeness: a derivation in the framing grammar is accepted with the
same value, given fuel for its nesting depth. -/
theorem dec_complete :
    (∀ c v o, POpt c v o → ∀ f, fuelOpt o ≤ f → parseOpt f c v = .ok o) ∧
    (∀ d os, POpts d os → ∀ f, fuelOpts os + 1 ≤ f → decOptsF f d = .ok os) ∧
    (∀ b m, PMsg b m → ∀ f, fuelMsg m ≤ f → decMsgF f b = .ok m) :=
  ⟨fun c v o h f hf => (dec_complete_fuel f).1 c v o h hf,
   fun d os h f hf => (dec_complete_fuel f).2.1 d os h hf,
   fun b m h f hf => (dec_complete_fuel f).2.2 b m h hf⟩

/-! ### nesting is bounded by the length: the fuel of `dec6` is always enough -/

theorem fuelOpt_simple {o : Opt6} (h : isSimple o = true) : fuelOpt o = 1 := by
  cases o <;> first | rfl | (simp [isSimple] at h)

mutual
theorem fuel_bound_opt : {c : Nat} → {v : Bytes} → {o : Opt6} → POpt c v o → fuelOpt o ≤ v.length + 2
  | _, _, _, .leaf _ hd => by rw [fuelOpt_simple (decSimple_shape _ _ _ hd).1]; omega
  | _, _, _, .clientID _ => by simp [fuelOpt]
  | _, _, _, .serverID _ => by simp [fuelOpt]
  | _, _, _, .iana _ _ _ h => by have := fuel_bound_opts h; simp [fuelOpt]; omega
  | _, _, _, .iata _ h => by have := fuel_bound_opts h; simp [fuelOpt]; omega
  | _, _, _, .iaaddr _ _ _ h => by have := fuel_bound_opts h; simp [fuelOpt]; omega
  | _, _, _, .relayMsg h => by have := fuel_bound_msg h; simp [fuelOpt]; omega
  | _, _, _, .iapd _ _ _ h => by have := fuel_bound_opts h; simp [fuelOpt]; omega
  | _, _, _, .iaprefix _ _ _ _ h => by have := fuel_bound_opts h; simp [fuelOpt]; omega
  | _, _, _, .fourRD h => by have := fuel_bound_opts h; simp [fuelOpt]; omega
theorem fuel_bound_opts : {d : Bytes} → {os : List Opt6} → POpts d os → fuelOpts os ≤ d.length
  | _, _, .nil => by simp [fuelOpts]
  | _, _, .cons _ _ h hs => by
    have := fuel_bound_opt h; have := fuel_bound_opts hs; simp [fuelOpts, tlv_length]; omega
theorem fuel_bound_msg : {b : Bytes} → {m : Msg6} → PMsg b m → fuelMsg m ≤ b.length
  | _, _, .msg _ hx h => by have := fuel_bound_opts h; simp [fuelMsg, hx]; omega
  | _, _, .relay _ h1 h2 h => by have := fuel_bound_opts h; simp [fuelMsg, h1, h2]; omega
end

/-- every nesting level costs at least a 4-byte option header -/
theorem fuel_bound {c : Nat} {v d b : Bytes} {o : Opt6} {os : List Opt6} {m : Msg6} :
    (POpt c v o → fuelOpt o ≤ v.length + 2) ∧ (POpts d os → fuelOpts os ≤ d.length) ∧
    (PMsg b m → fuelMsg m ≤ b.length) :=
  ⟨fuel_bound_opt, fuel_bound_opts, fuel_bound_msg⟩

/-! ### the entry points -/

/-- `dhcpv6.FromBytes` (model) accepts exactly the messages of the framing grammar -/
theorem dec6_iff (b : Bytes) (m : Msg6) : dec6 b = .ok m ↔ PMsg b m := by
  constructor
  · exact (dec_sound _).2.2 b m
  · intro h
    exact dec_complete.2.2 b m h _ (by have := fuel_bound_msg h; simp only [fuelFor]; omega)

/-- `ParseOption(code, data)` (model) accepts exactly the option values of the grammar -/
theorem parseOption_iff (code : Nat) (data : Bytes) (o : Opt6) :
    parseOption code data = .ok o ↔ POpt code data o := by
  constructor
  · exact (dec_sound _).1 code data o
  · intro h
    exact dec_complete.1 code data o h _ (by have := fuel_bound_opt h; simp only [fuelFor]; omega)

/-- `Options.FromBytes(data)` (model) accepts exactly the tilings of `data` by options -/
theorem decOpts_iff (data : Bytes) (os : List Opt6) : decOpts data = .ok os ↔ POpts data os := by
  constructor
  · exact (dec_sound _).2.1 data os
  · intro h
    exact dec_complete.2.1 data os h _ (by have := fuel_bound_opts h; simp only [fuelFor]; omega)

/-! ### no decoder panics -/

theorem tail_ne_panic {α : Type} (r : Res (List Opt6)) (l : Lexer) (k : List Opt6 → α)
    (h : r ≠ .panic) :
    (match r with
     | .ok os => fin l (k os)
     | .err => .err
     | .panic => .panic) ≠ .panic := by
  cases r with
  | ok os => exact fin_ne_panic _ _
  | err => simp
  | panic => exact absurd rfl h

theorem tlvLoop_ne_panic {α : Type} (parse : Nat → Bytes → Res α) (hp : ∀ c v, parse c v ≠ .panic) :
    ∀ (fuel : Nat) (l : Lexer) (acc : List α), tlvLoop parse fuel l acc ≠ .panic := by
  intro fuel
  induction fuel with
  | zero => intro l acc; simp [tlvLoop]
  | succ fuel ih =>
    intro l acc
    unfold tlvLoop
    split
    · dsimp only
      split
      · exact ih _ _
      · simp
      · rename_i h; exact absurd h (hp _ _)
    · split <;> simp

theorem optionsFromBytes_ne_panic {α : Type} (parse : Nat → Bytes → Res α)
    (hp : ∀ c v, parse c v ≠ .panic) (d : Bytes) : optionsFromBytes parse d ≠ .panic := by
  unfold optionsFromBytes
  split
  · simp
  · exact tlvLoop_ne_panic parse hp _ _ _

theorem decDUID_ne_panic (d : Bytes) : decDUID d ≠ .panic := by
  unfold decDUID
  dsimp only
  repeat' split
  all_goals first
    | exact fin_ne_panic _ _
    | simp

theorem parseNTPSub_ne_panic (c : Nat) (d : Bytes) : parseNTPSub c d ≠ .panic := by
  unfold parseNTPSub
  dsimp only
  split
  · exact fin_ne_panic _ _
  split
  · exact fin_ne_panic _ _
  split
  · split
    · split <;> simp
    · simp
    · rename_i h; exact absurd h (Label.fromBytes_ne_panic _)
  · simp

local macro "np_branch" : tactic =>
  `(tactic| (try dsimp only
             repeat' split
             all_goals first
               | exact fin_ne_panic _ _
               | simp))

theorem decSimple_ne_panic (c : Nat) (v : Bytes) : decSimple c v ≠ .panic := by
  by_cases h6 : c = 6
  · subst h6; rw [decSimple_6]; np_branch
  by_cases h8 : c = 8
  · subst h8; rw [decSimple_8]; np_branch
  by_cases h13 : c = 13
  · subst h13; rw [decSimple_13]; np_branch
  by_cases h15 : c = 15
  · subst h15; rw [decSimple_15]; np_branch
  by_cases h16 : c = 16
  · subst h16; rw [decSimple_16]; np_branch
  by_cases h17 : c = 17
  · subst h17; rw [decSimple_17]; dsimp only
    split
    · exact fin_ne_panic _ _
    · simp
    · rename_i h; exact absurd h (optionsFromBytes_ne_panic _ (fun _ _ => by simp) _)
  by_cases h18 : c = 18
  · subst h18; rw [decSimple_18]; np_branch
  by_cases h23 : c = 23
  · subst h23; rw [decSimple_23]; np_branch
  by_cases h24 : c = 24
  · subst h24; rw [decSimple_24]
    split
    · simp
    · simp
    · rename_i h; exact absurd h (Label.fromBytes_ne_panic _)
  by_cases h32 : c = 32
  · subst h32; rw [decSimple_32]; np_branch
  by_cases h37 : c = 37
  · subst h37; rw [decSimple_37]; np_branch
  by_cases h39 : c = 39
  · subst h39; rw [decSimple_39]; dsimp only
    split
    · exact fin_ne_panic _ _
    · simp
    · rename_i h; exact absurd h (Label.fromBytes_ne_panic _)
  by_cases h56 : c = 56
  · subst h56; rw [decSimple_56]
    split
    · simp
    · simp
    · rename_i h; exact absurd h (optionsFromBytes_ne_panic _ parseNTPSub_ne_panic _)
  by_cases h59 : c = 59
  · subst h59; rw [decSimple_59]; np_branch
  by_cases h60 : c = 60
  · subst h60; rw [decSimple_60]; np_branch
  by_cases h61 : c = 61
  · subst h61; rw [decSimple_61]; np_branch
  by_cases h62 : c = 62
  · subst h62; rw [decSimple_62]; np_branch
  by_cases h79 : c = 79
  · subst h79; rw [decSimple_79]; np_branch
  by_cases h87 : c = 87
  · subst h87; rw [decSimple_87]
    split
    · simp
    · simp
    · rename_i h; exact absurd h (V4.dec4_ne_panic _)
  by_cases h88 : c = 88
  · subst h88; rw [decSimple_88]; np_branch
  by_cases h98 : c = 98
  · subst h98; rw [decSimple_98]; np_branch
  by_cases h99 : c = 99
  · subst h99; rw [decSimple_99]; np_branch
  by_cases h135 : c = 135
  · subst h135; rw [decSimple_135]; np_branch
  have hn : c ∉ simpleCodes := by
    simp only [simpleCodes, List.mem_cons, List.mem_nil_iff, or_false, not_or]
    exact ⟨h6, h8, h13, h15, h16, h17, h18, h23, h24, h32, h37, h39, h56, h59,
      h60, h61, h62, h79, h87, h88, h98, h99, h135⟩
  rw [decSimple_other c v hn]; simp

theorem decIA_ne_panic (mk : Bytes → Dur → Dur → List Opt6 → Opt6) (decO : Bytes → Res (List Opt6))
    (hO : ∀ d, decO d ≠ .panic) (v : Bytes) : decIA mk decO v ≠ .panic := by
  unfold decIA; dsimp only; exact tail_ne_panic _ _ _ (hO _)

theorem decIATA_ne_panic (decO : Bytes → Res (List Opt6)) (hO : ∀ d, decO d ≠ .panic) (v : Bytes) :
    decIATA decO v ≠ .panic := by
  unfold decIATA; dsimp only; exact tail_ne_panic _ _ _ (hO _)

theorem decIAAddr_ne_panic (decO : Bytes → Res (List Opt6)) (hO : ∀ d, decO d ≠ .panic) (v : Bytes) :
    decIAAddr decO v ≠ .panic := by
  unfold decIAAddr; dsimp only; exact tail_ne_panic _ _ _ (hO _)

theorem decIAPrefix_ne_panic (decO : Bytes → Res (List Opt6)) (hO : ∀ d, decO d ≠ .panic) (v : Bytes) :
    decIAPrefix decO v ≠ .panic := by
  unfold decIAPrefix; dsimp only
  split
  · simp
  · exact tail_ne_panic _ _ _ (hO _)

/-- no fuel, code or input makes the DHCPv6 decoders panic -/
theorem dec_ne_panic : ∀ f,
    (∀ c v, parseOpt f c v ≠ .panic) ∧ (∀ d, decOptsF f d ≠ .panic) ∧ (∀ b, decMsgF f b ≠ .panic) := by
  intro f
  induction f with
  | zero => simp [parseOpt, decOptsF, decMsgF]
  | succ f ih =>
    obtain ⟨ihO, ihOs, ihM⟩ := ih
    refine ⟨?_, ?_, ?_⟩
    · intro c v
      unfold parseOpt
      repeat' split
      · exact Res.map_ne_panic (decDUID_ne_panic _)
      · exact Res.map_ne_panic (decDUID_ne_panic _)
      · exact decIA_ne_panic _ _ ihOs _
      · exact decIATA_ne_panic _ ihOs _
      · exact decIAAddr_ne_panic _ ihOs _
      · exact Res.map_ne_panic (ihM _)
      · exact decIA_ne_panic _ _ ihOs _
      · exact decIAPrefix_ne_panic _ ihOs _
      · exact Res.map_ne_panic (ihOs _)
      · exact decSimple_ne_panic _ _
    · intro d
      simp only [decOptsF]
      exact optionsFromBytes_ne_panic _ ihO _
    · intro b
      simp only [decMsgF]
      repeat' split
      all_goals first
        | exact Res.map_ne_panic (ihOs _)
        | simp

theorem dec6_ne_panic (b : Bytes) : dec6 b ≠ .panic := (dec_ne_panic _).2.2 b
theorem parseOption_ne_panic (code : Nat) (data : Bytes) : parseOption code data ≠ .panic :=
  (dec_ne_panic _).1 code data
theorem decOpts_ne_panic (data : Bytes) : decOpts data ≠ .panic := (dec_ne_panic _).2.1 data

/-! ### corollaries of the grammar characterisation -/

/-- the grammar is functional: a value has at most one reading -/
theorem POpt_functional {c : Nat} {v : Bytes} {o o' : Opt6} (h : POpt c v o) (h' : POpt c v o') :
    o = o' := by
  have e := (parseOption_iff c v o).mpr h
  rw [(parseOption_iff c v o').mpr h'] at e
  simpa using e.symm

theorem POpts_functional {d : Bytes} {os os' : List Opt6} (h : POpts d os) (h' : POpts d os') :
    os = os' := by
  have e := (decOpts_iff d os).mpr h
  rw [(decOpts_iff d os').mpr h'] at e
  simpa using e.symm

theorem PMsg_functional {b : Bytes} {m m' : Msg6} (h : PMsg b m) (h' : PMsg b m') : m = m' := by
  have e := (dec6_iff b m).mpr h
  rw [(dec6_iff b m').mpr h'] at e
  simpa using e.symm

/-- the reading of an option carries the code it was framed with -/
theorem POpt_code {c : Nat} {v : Bytes} {o : Opt6} (h : POpt c v o) : o.code = c := by
  cases h with
  | leaf _ hd => exact (decSimple_shape _ _ _ hd).2.1
  | _ => rfl

theorem not_mem_knownCodes {c : Nat} (h1 : c ∉ containerCodes) (h2 : c ∉ simpleCodes) :
    c ∉ knownCodes := by
  simp only [knownCodes, containerCodes, simpleCodes, List.mem_cons, List.mem_nil_iff, or_false,
    not_or] at h1 h2 ⊢
  simp only [h1, h2, not_false_eq_true, and_self]

theorem containerCodes_known {c : Nat} (h : c ∈ containerCodes) : c ∈ knownCodes := by
  simp only [containerCodes, List.mem_cons, List.mem_nil_iff, or_false] at h
  rcases h with rfl | rfl | rfl | rfl | rfl | rfl | rfl | rfl | rfl <;> decide

/-- an option is read as `generic` only for codes outside `knownCodes`, and then verbatim -/
theorem generic_verbatim {c c' : Nat} {v d : Bytes} (h : POpt c v (.generic c' d)) :
    c' = c ∧ d = v ∧ c ∉ knownCodes := by
  cases h with
  | leaf hc hd =>
    obtain ⟨_, hcode, hg⟩ := decSimple_shape _ _ _ hd
    obtain ⟨hdv, hs⟩ := hg c' d rfl
    refine ⟨hcode, hdv, ?_⟩
    exact not_mem_knownCodes hc hs

/-- every value of an unknown code is accepted, as `generic` -/
theorem generic_accepted {c : Nat} (v : Bytes) (h : c ∉ knownCodes) : POpt c v (.generic c v) :=
  .leaf (fun hc => h (containerCodes_known hc)) (decSimple_generic c v h)

theorem generic_iff (c : Nat) (v : Bytes) : c ∉ knownCodes ↔ POpt c v (.generic c v) :=
  ⟨generic_accepted v, fun h => (generic_verbatim h).2.2⟩

/-! #### framing: wire order, concatenation, independence of neighbours -/

theorem wireCodesN_nil (n : Nat) : wireCodesN n [] = [] := by
  cases n <;> rfl

theorem wireCodesN_tlv (n code : Nat) (v rest : Bytes) (hc : code < 65536) (hv : v.length < 65536) :
    wireCodesN (n + 1) (tlv code v ++ rest) = code :: wireCodesN n rest := by
  have e : tlv code v ++ rest =
      UInt8.ofNat (code / 256) :: UInt8.ofNat code :: UInt8.ofNat (v.length / 256) ::
        UInt8.ofNat v.length :: (v ++ rest) := by
    simp [tlv, be16]
  have h1 : beNat [UInt8.ofNat (code / 256), UInt8.ofNat code] = code := beNat_be16 hc
  have h2 : beNat [UInt8.ofNat (v.length / 256), UInt8.ofNat v.length] = v.length := beNat_be16 hv
  rw [e]
  simp only [wireCodesN, h1, h2, List.drop_left']

theorem Tiles_codes {α : Type} {P : Nat → Bytes → α → Prop} (code : α → Nat)
    (hP : ∀ c v o, P c v o → code o = c) {d : Bytes} {os : List α} (h : Tiles P d os) :
    ∀ n, d.length ≤ n → wireCodesN n d = os.map code := by
  induction h with
  | nil => intro n _; simp [wireCodesN_nil]
  | @cons c v rest o os hc hv hp _ ih =>
    intro n hn
    cases n with
    | zero => simp [tlv_length] at hn
    | succ n =>
      rw [wireCodesN_tlv n c v rest hc hv, ih n (by simp [tlv_length] at hn; omega)]
      simp [hP _ _ _ hp]

/-- options appear in the decoded list in wire order, each under its wire code -/
theorem POpts_codes {d : Bytes} {os : List Opt6} (h : POpts d os) : os.map Opt6.code = wireCodes d :=
  (Tiles_codes Opt6.code (fun _ _ _ hp => POpt_code hp) (Tiles_of_POpts h) _ (Nat.le_refl _)).symm

theorem Tiles_append {α : Type} {P : Nat → Bytes → α → Prop} {d1 d2 : Bytes} {os1 os2 : List α}
    (h1 : Tiles P d1 os1) (h2 : Tiles P d2 os2) : Tiles P (d1 ++ d2) (os1 ++ os2) := by
  induction h1 with
  | nil => exact h2
  | cons hc hv hp _ ih =>
    rw [List.append_assoc]
    exact .cons hc hv hp ih

/-- two option lists concatenate -/
theorem POpts_append {d1 d2 : Bytes} {os1 os2 : List Opt6} (h1 : POpts d1 os1) (h2 : POpts d2 os2) :
    POpts (d1 ++ d2) (os1 ++ os2) :=
  POpts_of_Tiles (Tiles_append (Tiles_of_POpts h1) (Tiles_of_POpts h2))

/-- the framing of one option determines code, value and remainder -/
theorem tlv_inj {c c' : Nat} {v v' r r' : Bytes} (hc : c < 65536) (hc' : c' < 65536)
    (hv : v.length < 65536) (hv' : v'.length < 65536) (h : tlv c v ++ r = tlv c' v' ++ r') :
    c = c' ∧ v = v' ∧ r = r' := by
  unfold tlv at h
  simp only [List.append_assoc] at h
  obtain ⟨e1, h⟩ := List.append_inj h (by simp)
  obtain ⟨e2, h⟩ := List.append_inj h (by simp)
  have ec : c = c' := by rw [← beNat_be16 hc, ← beNat_be16 hc', e1]
  have el : v.length = v'.length := by rw [← beNat_be16 hv, ← beNat_be16 hv', e2]
  obtain ⟨e3, e4⟩ := List.append_inj h el
  exact ⟨ec, e3, e4⟩

theorem Tiles_inv {α : Type} {P : Nat → Bytes → α → Prop} {d : Bytes} {os : List α}
    (h : Tiles P d os) :
    (d = [] ∧ os = []) ∨ ∃ c v rest o os', d = tlv c v ++ rest ∧ os = o :: os' ∧ c < 65536 ∧
      v.length < 65536 ∧ P c v o ∧ Tiles P rest os' := by
  cases h with
  | nil => exact Or.inl ⟨rfl, rfl⟩
  | cons hc hv hp ht => exact Or.inr ⟨_, _, _, _, _, rfl, rfl, hc, hv, hp, ht⟩

theorem tlv_append_ne_nil (c : Nat) (v r : Bytes) : tlv c v ++ r ≠ [] := by
  intro h
  have := congrArg List.length h
  simp [tlv_length] at this

/-- acceptance of one option does not depend on its neighbours -/
theorem Tiles_cons_iff {α : Type} {P : Nat → Bytes → α → Prop} {c : Nat} {v rest : Bytes} {o : α}
    {os : List α} (hc : c < 65536) (hv : v.length < 65536) :
    Tiles P (tlv c v ++ rest) (o :: os) ↔ P c v o ∧ Tiles P rest os := by
  constructor
  · intro h
    rcases Tiles_inv h with ⟨h0, _⟩ | ⟨c', v', rest', o', os', hd, hos, hc', hv', hp, ht⟩
    · exact absurd h0 (tlv_append_ne_nil _ _ _)
    · obtain ⟨rfl, rfl, rfl⟩ := tlv_inj hc hc' hv hv' hd
      simp only [List.cons.injEq] at hos
      obtain ⟨rfl, rfl⟩ := hos
      exact ⟨hp, ht⟩
  · intro h; exact .cons hc hv h.1 h.2

theorem POpts_cons_iff {c : Nat} {v rest : Bytes} {o : Opt6} {os : List Opt6} (hc : c < 65536)
    (hv : v.length < 65536) :
    POpts (tlv c v ++ rest) (o :: os) ↔ POpt c v o ∧ POpts rest os := by
  rw [POpts_iff_Tiles, POpts_iff_Tiles, Tiles_cons_iff hc hv]

/-- a tiling splits at every TLV boundary: if a prefix `d1` is itself a tiling,
the whole is a tiling iff the remainder is, and the values are concatenated -/
theorem Tiles_split {α : Type} {P : Nat → Bytes → α → Prop}
    (hfun : ∀ c v o o', P c v o → P c v o' → o = o') {d1 d2 : Bytes} {os1 os : List α}
    (h1 : Tiles P d1 os1) : Tiles P (d1 ++ d2) os → ∃ os2, os = os1 ++ os2 ∧ Tiles P d2 os2 := by
  induction h1 generalizing os with
  | nil => intro h; exact ⟨os, rfl, h⟩
  | @cons c v rest o os1 hc hv hp _ ih =>
    intro h
    rw [List.append_assoc] at h
    rcases Tiles_inv h with ⟨h0, _⟩ | ⟨c', v', rest', o', os', hd, hos, hc', hv', hp', ht⟩
    · exact absurd h0 (tlv_append_ne_nil _ _ _)
    · obtain ⟨rfl, rfl, rfl⟩ := tlv_inj hc hc' hv hv' hd
      obtain ⟨os2, rfl, h2⟩ := ih ht
      exact ⟨os2, by rw [hos, hfun _ _ _ _ hp hp']; rfl, h2⟩

theorem POpts_split {d1 d2 : Bytes} {os1 os : List Opt6} (h1 : POpts d1 os1)
    (h : POpts (d1 ++ d2) os) : ∃ os2, os = os1 ++ os2 ∧ POpts d2 os2 := by
  obtain ⟨os2, e, h2⟩ := Tiles_split (P := POpt) (fun _ _ _ _ hp hp' => POpt_functional hp hp') (Tiles_of_POpts h1)
    (Tiles_of_POpts h)
  exact ⟨os2, e, POpts_of_Tiles h2⟩

/-- `Options.FromBytes` of a concatenation at a TLV boundary -/
theorem POpts_append_iff {d1 d2 : Bytes} {os1 : List Opt6} (h1 : POpts d1 os1) (os : List Opt6) :
    POpts (d1 ++ d2) os ↔ ∃ os2, os = os1 ++ os2 ∧ POpts d2 os2 :=
  ⟨POpts_split h1, fun ⟨_, e, h2⟩ => e ▸ POpts_append h1 h2⟩

/-! #### the grammar is inhabited (non-vacuity) -/

/-- a SOLICIT header followed by an IA_NA (code 3, 12-byte value, no sub-options) -/
example : PMsg ([1, 0xaa, 0xbb, 0xcc] ++ tlv 3 ([0, 0, 0, 1] ++ (be32 3600 ++ (be32 5400 ++ []))))
    (.msg 1 [0xaa, 0xbb, 0xcc] [.iana [0, 0, 0, 1] (3600 * second) (5400 * second) []]) :=
  .msg (t := 1) (xid := [0xaa, 0xbb, 0xcc]) rfl rfl
    (POpts_append (d2 := []) (os2 := [])
      (.cons (rest := []) (by decide) (by decide)
        (.iana (iaid := [0, 0, 0, 1]) (s1 := 3600) (s2 := 5400) rfl (by decide) (by decide) .nil) .nil)
      .nil)

end Dhcp.V6

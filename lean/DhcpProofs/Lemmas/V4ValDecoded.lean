import DhcpProofs.Lemmas.V4Val
import DhcpProofs.Lemmas.V4Parse
import DhcpProofs.Lemmas.V4Short
import DhcpProofs.Lemmas.V4ValSetGet2
/- C17: the link between a decoded packet (`dec4`, whose `Opts` identify nil and
empty values) and the accessor model's `GOpts` (which keeps nil-ness): the
option loop re-run with Go's `append` on possibly nil slices (`optsLoopG`)
builds exactly `Opts.toG` of what `optsLoop` builds. -/
namespace Dhcp.V4
open Dhcp List

theorem goBuf_nil : goBuf [] = none := rfl
theorem goBuf_cons (b : UInt8) (bs : Bytes) : goBuf (b :: bs) = some (b :: bs) := rfl

theorem Opts.toG_empty : Opts.empty.toG = GOpts.empty := rfl

/-- nothing under the key, or only zero-length instances: `Options.Get` is nil -/
theorem Opts.toG_get_none {o : Opts} {c : UInt8} (h : o.f c = none ∨ o.f c = some []) :
    o.toG.get c = none := by
  rcases h with h | h <;> simp [Opts.toG, GOpts.get, h, goBuf]

/-- a non-empty value is what `Options.Get` returns -/
theorem Opts.toG_get_some {o : Opts} {c : UInt8} {v : Bytes} (h : o.f c = some v) (hv : v ≠ []) :
    o.toG.get c = some v := by
  cases v with
  | nil => exact absurd rfl hv
  | cons b bs => simp [Opts.toG, GOpts.get, h, goBuf]

/-- in every case: `Get` returns the value's `goBuf` (nil for absent and for empty) -/
theorem Opts.toG_get (o : Opts) (c : UInt8) : o.toG.get c = goBuf ((o.f c).getD []) := by
  cases h : o.f c with
  | none => simp [Opts.toG, GOpts.get, h, goBuf]
  | some v => simp [Opts.toG, GOpts.get, h]

/-- decoding never leaves an empty NON-nil value -/
theorem Opts.toG_no_empty (o : Opts) (c : UInt8) : o.toG.f c ≠ some (some []) := by
  cases h : o.f c with
  | none => simp [Opts.toG, h]
  | some v => cases v <;> simp [Opts.toG, h, goBuf]

/-- `o[code] = append(o[code], data...)` commutes with forgetting / restoring nil-ness -/
theorem Opts.toG_app (o : Opts) (c : UInt8) (d : Bytes) : (o.app c d).toG = o.toG.app c d := by
  have key : ∀ k, (o.app c d).toG.f k = (o.toG.app c d).f k := by
    intro k
    by_cases hk : k = c
    · subst hk
      simp only [Opts.toG, Opts.app, Opts.set, GOpts.app, if_true, Option.map_some]
      congr 1
      have hg := Opts.toG_get o k
      simp only [Opts.toG] at hg
      rw [hg]
      cases h : o.f k with
      | none => simp [gAppend, goBuf]
      | some v =>
        cases v with
        | nil => simp [gAppend, goBuf]
        | cons b bs => simp [gAppend, goBuf]
    · simp [Opts.toG, Opts.app, Opts.set, GOpts.app, hk]
  cases hL : (o.app c d).toG with
  | mk f =>
    cases hR : o.toG.app c d with
    | mk g =>
      congr
      funext k
      have := key k
      rw [hL, hR] at this
      exact this

/-- the option loop with nil-ness builds `toG` of what the option loop without it builds -/
theorem optsLoopG_toG : ∀ (fuel : Nat) (l : Lexer) (o : Opts),
    optsLoopG fuel l o.toG = (optsLoop fuel l o).map (fun r => (r.1.toG, r.2)) := by
  intro fuel
  induction fuel with
  | zero => intro l o; rfl
  | succ fuel ih =>
    intro l o
    unfold optsLoopG optsLoop
    by_cases hl : l.len ≥ 1
    · simp only [hl, if_true]
      by_cases hp : l.read8.1 = optPad
      · simp only [hp, if_true]; exact ih _ _
      · simp only [hp, if_false]
        by_cases he : l.read8.1 = optEnd
        · simp only [he, if_true]; rfl
        · simp only [he, if_false]
          cases hc : (l.read8.2.read8.2).consume (l.read8.2.read8.1).toNat with
          | mk d l' =>
            cases d with
            | none => rfl
            | some d =>
              simp only
              by_cases herr : l'.err = true
              · simp [herr]
              · simp only [herr, Bool.false_eq_true, if_false]
                rw [← Opts.toG_app]; exact ih _ _
    · simp only [hl, if_false]; rfl

theorem optsFromBytesG_toG (o : Opts) (data : Bytes) (ce : Bool) :
    optsFromBytesG o.toG data ce = (optsFromBytes o data ce).map Opts.toG := by
  unfold optsFromBytesG optsFromBytes
  by_cases h0 : data.length = 0
  · simp [h0]
  · simp only [h0, if_false]
    rw [optsLoopG_toG]
    cases optsLoop (data.length + 1) (Lexer.new data) o with
    | none => rfl
    | some r =>
      simp only [Option.map_some]
      split <;> rfl

/-- what `FromBytes` accepts has a complete header, and its options are what the
option loop reads from the rest -/
theorem dec4_ok_opts {q : Bytes} {p : Pkt4} (h : dec4 q = .ok p) :
    240 ≤ q.length ∧ optsFromBytes Opts.empty (q.drop 240) true = some p.opts := by
  by_cases hl : 240 ≤ q.length
  · refine ⟨hl, ?_⟩
    rw [dec4_of_len q hl] at h
    split at h
    · cases h
    · cases ho : optsFromBytes Opts.empty (drop 240 q) true with
      | none => rw [ho] at h; cases h
      | some o => rw [ho] at h; cases h; rfl
  · rw [dec4_short q (by omega)] at h; cases h

/-- **the link**: the Go `Options` map of a decoded packet, nil-ness included,
is `toG` of the model packet's options -/
theorem decOptsG_of_dec4 {q : Bytes} {p : Pkt4} (h : dec4 q = .ok p) : decOptsG q = some p.opts.toG := by
  unfold decOptsG
  rw [← Opts.toG_empty, optsFromBytesG_toG, (dec4_ok_opts h).2]
  rfl

/-! ### `net.IP.To4` facts used by the set/get theorems on IPv4-mapped forms -/

theorem to4_ipv4 (a b c d : UInt8) : to4 (ipv4 a b c d) = some [a, b, c, d] := by
  simp [to4, ipv4, zeros]

theorem to4_length {b x : Bytes} (h : to4 b = some x) : x.length = 4 := by
  unfold to4 at h
  split at h
  · cases h; assumption
  · split at h
    · next h16 => cases h; simp [h16.1]
    · cases h

theorem to4_idem {b x : Bytes} (h : to4 b = some x) : to4 x = some x := by
  simp [to4, to4_length h]

/-! ### classless routes whose addresses are given in ANY form with a 4-byte form -/

/-- the route that reads back from a constructor argument: destination and
router in their 4-byte (`To4()`) form -/
def RouteArg.read (a : RouteArg) : Route :=
  ⟨(a.dest.bind to4).getD [], a.width, a.router.bind to4⟩

/-- the constructor's domain: destination and router have a 4-byte form (they
are 4-byte addresses or 16-byte IPv4-mapped ones, `net.IPv4(a,b,c,d)`), the
mask is `CIDRMask(width ≤ 32, 32)`, no destination octet is set beyond the
significant ones -/
structure RouteArgOK (a : RouteArg) : Prop where
  dest : ∃ db d, a.dest = some db ∧ to4 db = some d
  width : a.width ≤ 32
  router : ∃ gb g, a.router = some gb ∧ to4 gb = some g
  host : a.read.dest.drop ((a.width + 7) / 8) = List.replicate (4 - (a.width + 7) / 8) 0

theorem RouteArgOK.read_ok {a : RouteArg} (h : RouteArgOK a) : RouteOK a.read := by
  obtain ⟨db, d, hd, hd4⟩ := h.dest
  obtain ⟨gb, g, hg, hg4⟩ := h.router
  refine ⟨?_, h.width, ⟨g, ?_, to4_length hg4⟩, h.host⟩
  · simp [RouteArg.read, hd, hd4, to4_length hd4]
  · simp [RouteArg.read, hg, hg4]

/-- `Route.Marshal` writes the `To4()` forms: the argument and its 4-byte
reading marshal to the same octets -/
theorem routeMarshal_read {a : RouteArg} (h : RouteArgOK a) :
    routeMarshal a = routeMarshal a.read.toArg := by
  obtain ⟨db, d, hd, hd4⟩ := h.dest
  obtain ⟨gb, g, hg, hg4⟩ := h.router
  simp [routeMarshal, RouteArg.read, Route.toArg, ipToBytes, hd, hd4, hg, hg4, to4_idem hd4, to4_idem hg4]

theorem routesMarshal_read (as : List RouteArg) (h : ∀ a ∈ as, RouteArgOK a) :
    routesMarshal as = routesMarshal ((as.map RouteArg.read).map Route.toArg) := by
  induction as with
  | nil => rfl
  | cons a as ih =>
    simp only [List.map_cons, routesMarshal]
    rw [routeMarshal_read (h a (by simp)), ih (fun x hx => h x (by simp [hx]))]

theorem routes_set_get_mapped (o : GOpts) (as : List RouteArg) (hne : as ≠ [])
    (h : ∀ a ∈ as, RouteArgOK a) :
    ∃ raw, routesToBytes as = .ok raw ∧
      Acc.classlessStaticRoute (o.update Code.classlessStaticRoute raw) = some (as.map RouteArg.read) := by
  have hne' : as.map RouteArg.read ≠ [] := by simpa using hne
  obtain ⟨raw, hraw, hget⟩ := routes_set_get o (as.map RouteArg.read) hne' (by
    intro r hr
    obtain ⟨a, ha, rfl⟩ := List.mem_map.mp hr
    exact (h a ha).read_ok)
  refine ⟨raw, ?_, hget⟩
  rw [← hraw]
  simp only [routesToBytes, routesMarshal_read as h]

/-! ### lifting an accessor's statements to decoded packets

One generic step for every typed accessor: on a packet that came out of the
decoder, `Options.Get(c)` is the RFC 3396-reassembled value when that is
non-empty and nil otherwise (`decoded_get`).  `decoded_lift` turns the three
`GOpts` statements of an accessor whose type rejects the empty value (so the
zero-length option gives the malformed default, which equals the absent one)
into the statement on the decoded packet; `decoded_lift_str` does the same for
the string accessors (empty value = "" = the absent default).  Accessors for
which the RFC reading of the EMPTY value differs from nil (parameter request
list, relay agent information, user class, domain search) use `decoded_get`
directly and state the zero-length case as its own clause. -/

/-- what `Options.Get(c)` returns on a decoded packet -/
theorem decoded_get {q : Bytes} {p : Pkt4} {g : GOpts} (h : dec4 q = .ok p)
    (hg : decOptsG q = some g) (c : UInt8) :
    (∀ v, p.opts.f c = some v → v ≠ [] → g.get c = some v) ∧
    (p.opts.f c = none ∨ p.opts.f c = some [] → g.get c = none) := by
  rw [decOptsG_of_dec4 h] at hg; cases hg
  exact ⟨fun _ hv hne => Opts.toG_get_some hv hne, fun hc => Opts.toG_get_none hc⟩

/-- wf / bad / absent of an accessor whose spec rejects the empty value, lifted
to decoded packets -/
theorem decoded_lift {α β : Type} (c : UInt8) (spec : Bytes → Option α) (acc : GOpts → β)
    (ok : α → β) (dflt : β) (hempty : spec [] = none)
    (wf : ∀ o v x, o.get c = some v → spec v = some x → acc o = ok x)
    (bad : ∀ o v, o.get c = some v → spec v = none → acc o = dflt)
    (absent : ∀ o, o.get c = none → acc o = dflt)
    {q : Bytes} {p : Pkt4} {g : GOpts} (h : dec4 q = .ok p) (hg : decOptsG q = some g) :
    (∀ v x, p.opts.f c = some v → spec v = some x → acc g = ok x) ∧
    (∀ v, p.opts.f c = some v → spec v = none → acc g = dflt) ∧
    (p.opts.f c = none → acc g = dflt) := by
  obtain ⟨hsome, hnone⟩ := decoded_get h hg c
  refine ⟨fun v x hv hs => ?_, fun v hv hs => ?_, fun hn => absent g (hnone (.inl hn))⟩
  · have hne : v ≠ [] := by intro e; subst e; rw [hempty] at hs; cases hs
    exact wf g v x (hsome v hv hne) hs
  · by_cases hne : v = []
    · subst hne; exact absent g (hnone (.inr hv))
    · exact bad g v (hsome v hv hne) hs

/-- wf / absent of a string accessor (total spec, empty value reads as "" like
the absent option), lifted to decoded packets -/
theorem decoded_lift_str (c : UInt8) (spec : Bytes → Option Bytes) (acc : GOpts → Bytes)
    (hempty : spec [] = some [])
    (wf : ∀ o v x, o.get c = some v → spec v = some x → acc o = x)
    (absent : ∀ o, o.get c = none → acc o = [])
    {q : Bytes} {p : Pkt4} {g : GOpts} (h : dec4 q = .ok p) (hg : decOptsG q = some g) :
    (∀ v x, p.opts.f c = some v → spec v = some x → acc g = x) ∧
    (p.opts.f c = none → acc g = []) := by
  obtain ⟨hsome, hnone⟩ := decoded_get h hg c
  refine ⟨fun v x hv hs => ?_, fun hn => absent g (hnone (.inl hn))⟩
  by_cases hne : v = []
  · subst hne; rw [hempty] at hs; cases hs; exact absent g (hnone (.inr hv))
  · exact wf g v x (hsome v hv hne) hs

end Dhcp.V4

import DhcpProofs.Lemmas.V4Parse
import DhcpProofs.Lemmas.V4RoundTrip
/- Decoded DHCPv4 packets are (after the name-capacity cut) encodable: basis of the C06 fixpoint. -/
namespace Dhcp.V4
open Dhcp List Dhcp.Spec

/-- "names cut to their NUL-terminated capacity": a server name of exactly 64
(boot file of exactly 128) NUL-free bytes loses its last byte on re-encoding;
identity on every other decoded packet. -/
def cutNames (p : Pkt4) : Pkt4 :=
  { p with sname := p.sname.take (snameCap - 1), file := p.file.take (fileCap - 1) }

theorem copyInto_take (n : Nat) (s : Bytes) : copyInto n (s.take n) = copyInto n s := by
  simp [copyInto, List.take_take]

theorem enc4_cutNames (p : Pkt4) : enc4 (cutNames p) = enc4 p := by
  simp only [enc4, cutNames, nameField, copyInto_take]

theorem RunEnd_codes {a : Bytes} {is : List (UInt8 × Bytes)} (h : RunEnd a is) :
    ∀ i ∈ is, i.1 ≠ 0 ∧ i.1 ≠ 255 := by
  induction h with
  | fin _ => intro i hi; simp at hi
  | pad _ ih => exact ih
  | opt c len v h0 h255 _ _ ih =>
    intro i hi
    rcases List.mem_cons.mp hi with h | h
    · subst h; exact ⟨h0, h255⟩
    · exact ih i h

theorem valueOf_none_of_no_code (is : List (UInt8 × Bytes)) (c : UInt8) (h : ∀ i ∈ is, i.1 ≠ c) :
    valueOf is c = none := by
  have : is.filter (fun i => decide (i.1 = c)) = [] := by
    apply List.filter_eq_nil_iff.mpr
    intro i hi; simp [h i hi]
  simp [valueOf, this]

theorem takeWhile_ne_zero_no_nul (s : Bytes) : ∀ b ∈ s.takeWhile (· != 0), b ≠ 0 := by
  induction s with
  | nil => intro b hb; simp at hb
  | cons a s ih =>
    intro b hb
    by_cases ha : a = 0
    · simp [List.takeWhile_cons, ha] at hb
    · simp only [List.takeWhile_cons, bne_iff_ne, ne_eq, ha, not_false_eq_true, decide_true,
        if_true, List.mem_cons] at hb
      rcases hb with h | h
      · subst h; exact ha
      · exact ih b h

theorem decoded_encodable (b : Bytes) (p : Pkt4) (h : dec4 b = .ok p) : Encodable (cutNames p) := by
  have hp := dec4_sound b p h
  have hlen := hp.len
  obtain ⟨is, hA, hf⟩ := hp.opts
  have ip (i j : Nat) (hij : j = i + 4) (hj : j ≤ b.length) : ipOK (some (slice b i j)) := by
    have : (slice b i j).length = 4 := by rw [slice_length b i j hj]; omega
    simp [ipOK, to4, this]
  have hcodes : ∀ i ∈ is, i.1 ≠ 0 ∧ i.1 ≠ 255 := by
    rcases hA with ⟨_, h2⟩ | hA
    · subst h2; intro i hi; simp at hi
    · exact RunEnd_codes hA
  refine { htype := ?_, hw := ?_, xid := ?_, secs := ?_, flags := ?_, ci := ?_, yi := ?_, si := ?_,
           gi := ?_, sname_len := ?_, sname_nul := ?_, file_len := ?_, file_nul := ?_, no_pad := ?_,
           no_end := ?_ }
  · have := hp.htype.2; simp only [cutNames]; omega
  · simp only [cutNames]; rw [hp.hw]; simp [List.length_take]; omega
  · simp only [cutNames]; rw [hp.xid]; exact slice_length b 4 8 (by omega)
  · simp only [cutNames]; rw [hp.secs]
    obtain ⟨x, y, hxy⟩ := len2 (slice_length b 8 10 (by omega))
    rw [hxy]; exact beNat_lt_two x y
  · simp only [cutNames]; rw [hp.flags]
    obtain ⟨x, y, hxy⟩ := len2 (slice_length b 10 12 (by omega))
    rw [hxy]; exact beNat_lt_two x y
  · simp only [cutNames]; rw [hp.ci]; exact ip 12 16 rfl (by omega)
  · simp only [cutNames]; rw [hp.yi]; exact ip 16 20 rfl (by omega)
  · simp only [cutNames]; rw [hp.si]; exact ip 20 24 rfl (by omega)
  · simp only [cutNames]; rw [hp.gi]; exact ip 24 28 rfl (by omega)
  · simp [cutNames, snameCap, List.length_take]; omega
  · intro x hx
    simp only [cutNames] at hx
    have := List.mem_of_mem_take hx
    rw [hp.sname] at this
    exact takeWhile_ne_zero_no_nul _ x this
  · simp [cutNames, fileCap, List.length_take]; omega
  · intro x hx
    simp only [cutNames] at hx
    have := List.mem_of_mem_take hx
    rw [hp.file] at this
    exact takeWhile_ne_zero_no_nul _ x this
  · simp only [cutNames]; rw [hf]
    exact valueOf_none_of_no_code is 0 (fun i hi => (hcodes i hi).1)
  · simp only [cutNames]; rw [hf]
    exact valueOf_none_of_no_code is 255 (fun i hi => (hcodes i hi).2)

theorem norm_decoded (b : Bytes) (p : Pkt4) (h : dec4 b = .ok p) : norm (cutNames p) = cutNames p := by
  have hp := dec4_sound b p h
  have hlen := hp.len
  have e (i j : Nat) (hij : j = i + 4) (hj : j ≤ b.length) : ip4 (some (slice b i j)) = slice b i j := by
    have : (slice b i j).length = 4 := by rw [slice_length b i j hj]; omega
    simp [ip4, to4, this]
  cases p with
  | mk op htype hw hops xid secs flags ci yi si gi sname file opts =>
    have h1 := hp.ci; have h2 := hp.yi; have h3 := hp.si; have h4 := hp.gi
    simp only at h1 h2 h3 h4
    subst h1 h2 h3 h4
    simp only [norm, cutNames, e 12 16 rfl (by omega), e 16 20 rfl (by omega), e 20 24 rfl (by omega),
      e 24 28 rfl (by omega)]

/-- decode → encode → decode → encode is a fixpoint for DHCPv4 -/
theorem dec4_fixpoint (b : Bytes) (p : Pkt4) (h : dec4 b = .ok p) :
    ∃ b₁, enc4 p = .ok b₁ ∧ dec4 b₁ = .ok (cutNames p) ∧ enc4 (cutNames p) = .ok b₁ := by
  obtain ⟨b₁, h1, h2⟩ := enc4_dec4 (cutNames p) (decoded_encodable b p h)
  rw [norm_decoded b p h] at h2
  exact ⟨b₁, by rw [← enc4_cutNames]; exact h1, h2, h1⟩

theorem cutNames_id_of_short (p : Pkt4) (h1 : p.sname.length ≤ 63) (h2 : p.file.length ≤ 127) :
    cutNames p = p := by
  cases p
  simp only [cutNames, snameCap, fileCap] at *
  simp [List.take_of_length_le h1, List.take_of_length_le h2]

end Dhcp.V4

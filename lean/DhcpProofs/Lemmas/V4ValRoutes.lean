import DhcpProofs.Lemmas.V4ValLoops
/-
  C17 helper lemmas, part 3: classless static routes (RFC 3442) and
  vendor-identifying vendor classes (RFC 3925).
-/
namespace Dhcp.V4
open Dhcp List
open Dhcp.Spec

/-! ### Routes -/

/-- the model's rendering of a spec route -/
def ofSpecRoute (r : Val4.Route) : Route := ⟨r.dest, r.width, some r.router⟩

theorem routeUnmarshal_cons (w : UInt8) (r : Bytes) :
    routeUnmarshal ⟨w :: r, false⟩ =
      (if w.toNat > 32 ∨ r.length < (w.toNat + 7) / 8 + 4 then none
       else some (⟨r.take ((w.toNat + 7) / 8) ++ List.replicate (4 - (w.toNat + 7) / 8) 0, w.toNat,
                    some ((r.drop ((w.toNat + 7) / 8)).take 4)⟩,
                  ⟨r.drop ((w.toNat + 7) / 8 + 4), false⟩)) := by
  unfold routeUnmarshal
  simp only [Lexer.read8_cons]
  by_cases hw : w.toNat > 32
  · simp [hw]
  · simp only [hw, if_false, false_or]
    generalize (w.toNat + 7) / 8 = k
    by_cases hk : k ≤ r.length
    · by_cases h4 : 4 ≤ r.length - k
      · have : ¬ r.length < k + 4 := by omega
        simp [Lexer.readBytes, Lexer.copyN, Lexer.consume, hk, h4, this, Lexer.error, zeros,
          List.drop_drop]
      · have : r.length < k + 4 := by omega
        simp [Lexer.readBytes, Lexer.copyN, Lexer.consume, hk, h4, this, Lexer.error]
    · have : r.length < k + 4 := by omega
      simp [Lexer.readBytes, Lexer.copyN, Lexer.consume, hk, this, Lexer.error]
      split <;> simp

theorem routesLoop_spec (fuel : Nat) : ∀ (d : Bytes), d.length < fuel →
    (∀ xs, Val4.routeList d = some xs →
      routesLoop fuel ⟨d, false⟩ = some (xs.map ofSpecRoute, ⟨[], false⟩)) ∧
    (Val4.routeList d = none → routesLoop fuel ⟨d, false⟩ = none) := by
  induction fuel with
  | zero => intro d h; omega
  | succ f ih =>
    intro d hd
    match d with
    | [] => simp [routesLoop, Lexer.has, Val4.routeList]
    | w :: r =>
      rw [Val4.routeList]
      simp only [routesLoop, Lexer.has, List.length_cons, Nat.le_add_left, decide_true, if_true]
      rw [routeUnmarshal_cons]
      by_cases hc : w.toNat > 32 ∨ r.length < (w.toNat + 7) / 8 + 4
      · simp [hc]
      · simp only [hc, if_false]
        have hr : (r.drop ((w.toNat + 7) / 8 + 4)).length < f := by simp at hd ⊢; omega
        obtain ⟨ih1, ih2⟩ := ih _ hr
        cases hs : Val4.routeList (r.drop ((w.toNat + 7) / 8 + 4)) with
        | none => simp [ih2 hs]
        | some ys =>
          refine ⟨?_, by simp⟩
          intro xs hxs
          simp only [Option.map_some, Option.some.injEq] at hxs
          simp [ih1 ys hs, ← hxs, ofSpecRoute]

/-- `Routes.FromBytes` succeeds with exactly the RFC 3442 routes, or fails;
the only value it accepts without producing a route is the empty one. -/
theorem routesFromBytes_eq (v : Bytes) :
    routesFromBytes v =
      (match Val4.routeList v with
       | none => none
       | some xs => some (goSlice (xs.map ofSpecRoute))) := by
  unfold routesFromBytes
  obtain ⟨h1, h2⟩ := routesLoop_spec (v.length + 1) v (Nat.lt_succ_self _)
  simp only [Lexer.new]
  cases hs : Val4.routeList v with
  | none => simp [h2 hs]
  | some xs => simp [h1 xs hs, Lexer.finError]

theorem routeList_cons_ne_nil {w : UInt8} {r : Bytes} {xs : List Val4.Route}
    (h : Val4.routeList (w :: r) = some xs) : xs ≠ [] := by
  rw [Val4.routeList] at h
  split at h
  · simp at h
  · cases hq : Val4.routeList (r.drop ((w.toNat + 7) / 8 + 4)) with
    | none => simp [hq] at h
    | some ys => simp [hq] at h; rw [← h]; simp

/-! ### VIVC -/

def ofSpecVIVC (p : Nat × Bytes) : VIVCId := ⟨p.1, p.2⟩

theorem vivcLoop_err (fuel : Nat) : ∀ (l : Lexer), l.err = true → (vivcLoop fuel l).2.err = true := by
  induction fuel with
  | zero => intro l h; simpa [vivcLoop] using h
  | succ f ih =>
    intro l h
    unfold vivcLoop
    by_cases hh : l.has 5 = true
    · simp only [hh, if_true]
      exact ih _ (copyN_err _ _ (read8_err _ (read32_err l h)))
    · simpa [hh] using h

theorem vivcLoop_step (f : Nat) (a b c d n : UInt8) (r : Bytes) (hl : n.toNat ≤ r.length) :
    vivcLoop (f + 1) ⟨a :: b :: c :: d :: n :: r, false⟩ =
      (⟨((a.toNat * 256 + b.toNat) * 256 + c.toNat) * 256 + d.toNat, r.take n.toNat⟩ ::
          (vivcLoop f ⟨r.drop n.toNat, false⟩).1,
        (vivcLoop f ⟨r.drop n.toNat, false⟩).2) := by
  simp [vivcLoop, Lexer.has, Lexer.read32, Lexer.read8, Lexer.copyN, Lexer.consume, beNat, hl]

theorem vivcLoop_short (f : Nat) (a b c d n : UInt8) (r : Bytes) (hl : r.length < n.toNat) :
    (vivcLoop (f + 1) ⟨a :: b :: c :: d :: n :: r, false⟩).2 = (vivcLoop f ⟨r, true⟩).2 := by
  have : ¬ n.toNat ≤ r.length := by omega
  simp [vivcLoop, Lexer.has, Lexer.read32, Lexer.read8, Lexer.copyN, Lexer.consume, this]

theorem vivcLoop_spec (fuel : Nat) : ∀ (d : Bytes), d.length < fuel →
    (∀ xs, Val4.vendorClasses d = some xs →
      vivcLoop fuel ⟨d, false⟩ = (xs.map ofSpecVIVC, ⟨[], false⟩)) ∧
    (Val4.vendorClasses d = none → (vivcLoop fuel ⟨d, false⟩).2.finError = true) := by
  induction fuel with
  | zero => intro d h; omega
  | succ f ih =>
    intro d hd
    match d with
    | [] => simp [vivcLoop, Lexer.has, Val4.vendorClasses]
    | [_] | [_, _] | [_, _, _] | [_, _, _, _] =>
      simp [vivcLoop, Lexer.has, Val4.vendorClasses, Lexer.finError]
    | a :: b :: c :: e :: n :: r =>
      rw [Val4.vendorClasses]
      by_cases hl : r.length < n.toNat
      · simp only [hl, if_true]
        refine ⟨by simp, fun _ => ?_⟩
        rw [vivcLoop_short f a b c e n r hl]
        simp [Lexer.finError, vivcLoop_err f ⟨r, true⟩ rfl]
      · simp only [hl, if_false]
        have hle : n.toNat ≤ r.length := by omega
        have hr : (r.drop n.toNat).length < f := by simp at hd ⊢; omega
        obtain ⟨ih1, ih2⟩ := ih _ hr
        rw [vivcLoop_step f a b c e n r hle]
        cases hs : Val4.vendorClasses (r.drop n.toNat) with
        | none => simp [ih2 hs]
        | some ys =>
          refine ⟨?_, by simp⟩
          intro xs hxs
          simp only [Option.map_some, Option.some.injEq] at hxs
          simp [ih1 ys hs, ← hxs, ofSpecVIVC]

theorem vivcFromBytes_eq (v : Bytes) :
    vivcFromBytes v =
      (match Val4.vendorClasses v with
       | none => none
       | some xs => some (goSlice (xs.map ofSpecVIVC))) := by
  unfold vivcFromBytes
  obtain ⟨h1, h2⟩ := vivcLoop_spec (v.length + 1) v (Nat.lt_succ_self _)
  simp only [Lexer.new]
  cases hs : Val4.vendorClasses v with
  | none => simp [h2 hs]
  | some xs => simp [h1 xs hs, Lexer.finError]

theorem vendorClasses_cons_ne_nil {a : UInt8} {r : Bytes} {xs : List (Nat × Bytes)}
    (h : Val4.vendorClasses (a :: r) = some xs) : xs ≠ [] := by
  match r with
  | [] | [_] | [_, _] | [_, _, _] => simp [Val4.vendorClasses] at h
  | b :: c :: d :: n :: r' =>
    rw [Val4.vendorClasses] at h
    split at h
    · simp at h
    · cases hq : Val4.vendorClasses (r'.drop n.toNat) with
      | none => simp [hq] at h
      | some ys => simp [hq] at h; rw [← h]; simp

end Dhcp.V4

import Dhcp.Client.Timed
/-
  Helper lemmas for the timed client model (C11 timing part, C12):
  the schedule function, the invariant of a call parked in try `k`, and what
  `advance` / `stepObs` / `finish` do to it.
-/
namespace Dhcp.Client.Timed
open List

/-- Offset of try `k`: `T·(2^k − 1)`. -/
def off (T : Int) (k : Nat) : Int := T * (2 ^ k - 1)

theorem sched_eq (T : Int) (m : Nat) : sched T m = (List.range m).map (off T) := rfl

theorem off_zero (T : Int) : off T 0 = 0 := by simp [off]

theorem off_succ (T : Int) (k : Nat) : off T (k + 1) = off T k + T * 2 ^ k := by
  unfold off
  rw [Int.pow_succ, Int.mul_sub, Int.mul_sub, ← Int.mul_assoc]
  generalize T * 2 ^ k = q
  omega

theorem pow2_pos (k : Nat) : (0 : Int) < 2 ^ k := Int.pow_pos (by decide)

theorem timeout_pos {T : Int} (hT : 0 < T) (k : Nat) : 0 < T * 2 ^ k :=
  Int.mul_pos hT (pow2_pos k)

theorem off_lt_succ {T : Int} (hT : 0 < T) (k : Nat) : off T k < off T (k + 1) := by
  have := timeout_pos hT k
  rw [off_succ]; omega

theorem off_mono {T : Int} (hT : 0 < T) {a b : Nat} (h : a ≤ b) : off T a ≤ off T b := by
  induction b with
  | zero => have : a = 0 := by omega
            subst this; exact Int.le_refl _
  | succ b ih =>
    by_cases hab : a = b + 1
    · subst hab; exact Int.le_refl _
    · have := ih (by omega)
      have := off_lt_succ hT b
      omega

theorem off_nonneg {T : Int} (hT : 0 < T) (k : Nat) : 0 ≤ off T k := by
  have := off_mono hT (Nat.zero_le k)
  rw [off_zero] at this; exact this

/-- `off` is strictly monotone, so an inequality between offsets gives one between tries. -/
theorem lt_of_off_lt {T : Int} (hT : 0 < T) {a b : Nat} (h : off T a < off T b) : a < b := by
  by_cases hab : a < b
  · exact hab
  · have := off_mono hT (Nat.le_of_not_lt hab); omega

theorem sched_succ (T : Int) (m : Nat) : sched T (m + 1) = sched T m ++ [off T m] := by
  simp [sched_eq, List.range_succ]

theorem sched_length (T : Int) (m : Nat) : (sched T m).length = m := by simp [sched_eq]

theorem mem_sched {T : Int} {m : Nat} {x : Int} : x ∈ sched T m ↔ ∃ k, k < m ∧ x = off T k := by
  simp [sched_eq]
  constructor
  · rintro ⟨k, hk, rfl⟩; exact ⟨k, hk, rfl⟩
  · rintro ⟨k, hk, rfl⟩; exact ⟨k, hk, rfl⟩

/-- Invariant of a call parked in the `select` of try `k`. -/
structure Good (T n : Int) (w : Wait) : Prop where
  hstart : w.start = off T w.k
  htimeout : w.timeout = T * 2 ^ w.k
  htxs : w.txs = sched T (w.k + 1)
  htries : n < 0 ∨ (w.k : Int) < n

theorem Good.deadline {T n : Int} {w : Wait} (g : Good T n w) : w.start + w.timeout = off T (w.k + 1) := by
  rw [off_succ, g.hstart, g.htimeout]

/-- How a finished call can look. Either the schedule was exhausted, or an
observation ended the call during try `k`. -/
def DoneInv (T n : Int) (txs : List Int) (t : Int) (o : Outcome) : Prop :=
  (o = .noResp ∧ 0 ≤ n ∧ txs = sched T n.toNat ∧ t = off T n.toNat) ∨
  (∃ k : Nat, txs = sched T (k + 1) ∧ (n < 0 ∨ (k : Int) < n) ∧ off T k ≤ t ∧ t ≤ off T (k + 1))

def Inv (T n : Int) : CState → Prop
  | .waiting w => Good T n w ∧ w.start ≤ w.clk
  | .done txs t o => DoneInv T n txs t o

theorem begin_inv {T : Int} (n : Int) : Inv T n (begin T n) := by
  unfold begin
  split
  · next h => subst h; exact Or.inl ⟨rfl, Int.le_refl _, rfl, by simp [off_zero]⟩
  · next h =>
    refine ⟨⟨by simp [off_zero], by simp, by simp [sched_eq, off_zero], ?_⟩, Int.le_refl _⟩
    show n < 0 ∨ ((0 : Nat) : Int) < n
    omega

/-- One deadline firing. -/
theorem fire_spec {T n : Int} {w : Wait} (g : Good T n w) :
    (∃ w', fire n w = .waiting w' ∧ Good T n w' ∧ w'.k = w.k + 1 ∧ w'.clk = w.clk) ∨
    (fire n w = .done (sched T n.toNat) (off T n.toNat) .noResp ∧ 0 ≤ n ∧ n.toNat = w.k + 1) := by
  unfold fire
  by_cases h : n < 0 ∨ ((w.k : Int) + 1 < n)
  · left
    simp only [h, if_true]
    refine ⟨_, rfl, ⟨?_, ?_, ?_, ?_⟩, rfl, rfl⟩
    · simp [g.deadline]
    · simp only [g.htimeout, Int.pow_succ, backoffMul]
      rw [Int.mul_comm 2, Int.mul_assoc]
    · simp only [g.htxs, g.deadline]; rw [sched_succ T (w.k + 1)]
    · show n < 0 ∨ ((w.k + 1 : Nat) : Int) < n
      omega
  · right
    simp only [h, if_false]
    have hk := g.htries
    have hn : n = (w.k : Int) + 1 := by omega
    have hn' : n.toNat = w.k + 1 := by omega
    refine ⟨?_, by omega, hn'⟩
    rw [hn', g.htxs, g.deadline]

theorem advance_done (n t : Int) (incl : Bool) (fuel : Nat) (txs : List Int) (t' : Int) (o : Outcome) :
    advance n t incl fuel (.done txs t' o) = .done txs t' o := by
  cases fuel <;> rfl

/-- `advance` up to `t`: the call either is still parked, in a try whose
deadline has not been reached, or exhausted its schedule at an instant not
after `t`. -/
theorem advance_spec {T n : Int} (hT : 0 < T) (t : Int) (incl : Bool) :
    ∀ (fuel : Nat) (w : Wait), Good T n w → (t - w.start).toNat < fuel →
      (∃ w', advance n t incl fuel (.waiting w) = .waiting w' ∧ Good T n w' ∧ w'.clk = w.clk ∧
          ¬ (off T (w'.k + 1) < t ∨ (incl = true ∧ off T (w'.k + 1) = t)) ∧
          (w'.k = w.k ∨ (w.k < w'.k ∧ off T w'.k ≤ t))) ∨
      (advance n t incl fuel (.waiting w) = .done (sched T n.toNat) (off T n.toNat) .noResp ∧ 0 ≤ n ∧
          off T n.toNat ≤ t ∧ w.k < n.toNat) := by
  intro fuel
  induction fuel with
  | zero => intro w _ h; omega
  | succ fuel ih =>
    intro w g hf
    unfold advance
    simp only [g.deadline]
    by_cases hc : off T (w.k + 1) < t ∨ (incl = true ∧ off T (w.k + 1) = t)
    · simp only [hc, if_true]
      have hle : off T (w.k + 1) ≤ t := by omega
      rcases fire_spec g with ⟨w1, hw1, g1, hk1, hclk1⟩ | ⟨hd, hn0, hnk⟩
      · rw [hw1]
        have hs1 : w1.start = off T (w.k + 1) := by rw [g1.hstart, hk1]
        have hlt := off_lt_succ hT w.k
        have hf1 : (t - w1.start).toNat < fuel := by
          rw [hs1]; rw [g.hstart] at hf; omega
        rcases ih w1 g1 hf1 with ⟨w', hw', g', hclk', hnot, hk'⟩ | ⟨hd', hn0', hle', hk'⟩
        · left
          refine ⟨w', hw', g', by rw [hclk', hclk1], hnot, Or.inr ?_⟩
          rcases hk' with h | ⟨h1, h2⟩
          · exact ⟨by omega, by rw [h, hk1]; exact hle⟩
          · exact ⟨by omega, h2⟩
        · right
          exact ⟨hd', hn0', hle', by omega⟩
      · right
        rw [hd]
        refine ⟨advance_done .., hn0, by rw [hnk]; exact hle, by omega⟩
    · simp only [hc, if_false]
      left
      exact ⟨w, rfl, g, rfl, hc, Or.inl rfl⟩

theorem advanceFuel_ok (start t : Int) : (t - start).toNat < advanceFuel start t := by
  unfold advanceFuel; omega

/-- If letting the deadline on `t` fire leaves the call parked, so does not letting it. -/
theorem advance_waiting_of_incl (n t : Int) :
    ∀ (fuel : Nat) (st : CState) (w1 : Wait), advance n t true fuel st = .waiting w1 →
      ∃ w2, advance n t false fuel st = .waiting w2 := by
  intro fuel
  induction fuel with
  | zero => intro st w1 h; exact ⟨w1, by simpa [advance] using h⟩
  | succ fuel ih =>
    intro st w1 h
    cases st with
    | done txs t' o => simp [advance] at h
    | waiting w =>
      unfold advance at h ⊢
      by_cases h1 : w.start + w.timeout < t
      · simp only [h1, true_or, if_true] at h ⊢
        exact ih _ _ h
      · simp only [h1, false_or, Bool.false_eq_true, false_and, if_false]
        exact ⟨w, rfl⟩

/-- Closed form of `stepObs` on a parked call (unfolding only). -/
theorem stepObs_waiting (n : Int) (w : Wait) (o : Obs) :
    stepObs n (.waiting w) o =
      match advance n (max o.t w.clk) o.afterTimer (advanceFuel w.start (max o.t w.clk)) (.waiting w) with
      | .done txs t' out => .done txs t' out
      | .waiting w' =>
        match o.kind with
        | .irr | .rej => .waiting { w' with clk := max o.t w.clk }
        | .acc => .done w'.txs (max o.t w.clk) (.resp o.tag)
        | .ctx => .done w'.txs (max o.t w.clk) .ctxErr
        | .closed => .done w'.txs (max o.t w.clk) .noResp := rfl

theorem stepObs_done (n : Int) (txs : List Int) (t : Int) (out : Outcome) (o : Obs) :
    stepObs n (.done txs t out) o = .done txs t out := rfl

theorem runFrom_done (n : Int) (txs : List Int) (t : Int) (out : Outcome) (obs : List Obs) :
    runFrom n (.done txs t out) obs = .done txs t out := by
  induction obs with
  | nil => rfl
  | cons o obs ih => simpa [runFrom, stepObs_done] using ih

theorem runFrom_append (n : Int) (st : CState) (a b : List Obs) :
    runFrom n st (a ++ b) = runFrom n (runFrom n st a) b := by
  simp [runFrom, List.foldl_append]

theorem runFrom_cons (n : Int) (st : CState) (o : Obs) (obs : List Obs) :
    runFrom n st (o :: obs) = runFrom n (stepObs n st o) obs := rfl

/-- The invariant is preserved by every observation. -/
theorem stepObs_inv {T n : Int} (hT : 0 < T) (st : CState) (o : Obs) (h : Inv T n st) :
    Inv T n (stepObs n st o) := by
  cases st with
  | done txs t out => exact h
  | waiting w =>
    obtain ⟨g, hclk⟩ := h
    rw [stepObs_waiting]
    have hmax : w.clk ≤ max o.t w.clk := Int.le_max_right _ _
    rcases advance_spec hT (max o.t w.clk) o.afterTimer _ w g (advanceFuel_ok _ _) with
      ⟨w', hw', g', hclk', hnot, hk'⟩ | ⟨hd, hn0, hle, hk⟩
    · rw [hw']
      have hstart' : off T w'.k ≤ max o.t w.clk := by
        rcases hk' with h | ⟨_, h⟩
        · rw [h, ← g.hstart]; omega
        · exact h
      have hend : max o.t w.clk ≤ off T (w'.k + 1) := by omega
      have hdone : ∀ out, DoneInv T n w'.txs (max o.t w.clk) out :=
        fun out => Or.inr ⟨w'.k, g'.htxs, g'.htries, hstart', hend⟩
      cases hkind : o.kind with
      | irr => exact ⟨⟨g'.hstart, g'.htimeout, g'.htxs, g'.htries⟩, by show w'.start ≤ _; rw [g'.hstart]; exact hstart'⟩
      | rej => exact ⟨⟨g'.hstart, g'.htimeout, g'.htxs, g'.htries⟩, by show w'.start ≤ _; rw [g'.hstart]; exact hstart'⟩
      | acc => exact hdone _
      | ctx => exact hdone _
      | closed => exact hdone _
    · rw [hd]
      exact Or.inl ⟨rfl, hn0, rfl, rfl⟩

theorem runFrom_inv {T n : Int} (hT : 0 < T) (obs : List Obs) :
    ∀ st, Inv T n st → Inv T n (runFrom n st obs) := by
  induction obs with
  | nil => intro st h; exact h
  | cons o obs ih => intro st h; rw [runFrom_cons]; exact ih _ (stepObs_inv hT st o h)

/-- The script clock never passes a bound on the observation instants. -/
theorem stepObs_clk (n : Int) (b : Int) (st : CState) (o : Obs) (ho : o.t ≤ b)
    (h : ∀ w, st = .waiting w → w.clk ≤ b) : ∀ w, stepObs n st o = .waiting w → w.clk ≤ b := by
  intro w1 hw1
  cases st with
  | done txs t out => simp [stepObs_done] at hw1
  | waiting w =>
    have := h w rfl
    rw [stepObs_waiting] at hw1
    split at hw1
    · simp at hw1
    · split at hw1 <;> first | (simp at hw1; done) | (injection hw1 with hw1; subst hw1; show max o.t w.clk ≤ b; omega)

theorem runFrom_clk (n : Int) (b : Int) (obs : List Obs) (ho : ∀ o ∈ obs, o.t ≤ b) :
    ∀ st, (∀ w, st = .waiting w → w.clk ≤ b) → ∀ w, runFrom n st obs = .waiting w → w.clk ≤ b := by
  induction obs with
  | nil => intro st h w hw; exact h w hw
  | cons o obs ih =>
    intro st h
    rw [runFrom_cons]
    exact ih (fun o' ho' => ho o' (List.mem_cons_of_mem _ ho')) _
      (stepObs_clk n b st o (ho o (List.mem_cons_self ..)) h)

theorem begin_clk (T n : Int) (b : Int) (hb : 0 ≤ b) : ∀ w, begin T n = .waiting w → w.clk ≤ b := by
  intro w hw
  unfold begin at hw
  split at hw
  · simp at hw
  · injection hw with hw; subst hw; exact hb

theorem begin_ret_le (T n : Int) (b : Int) (hb : 0 ≤ b) : ∀ txs t o, begin T n = .done txs t o → t ≤ b := by
  intro txs t o h
  unfold begin at h
  split at h
  · injection h with _ h2 _; omega
  · simp at h

/-- A call cannot have returned later than every observation made so far. -/
theorem stepObs_ret_le {T n : Int} (hT : 0 < T) (b : Int) (st : CState) (o : Obs) (ho : o.t ≤ b) (hi : Inv T n st)
    (hc : ∀ w, st = .waiting w → w.clk ≤ b) (hd : ∀ txs t out, st = .done txs t out → t ≤ b) :
    ∀ txs t out, stepObs n st o = .done txs t out → t ≤ b := by
  intro txs t out h
  cases st with
  | done txs0 t0 out0 => rw [stepObs_done] at h; exact hd _ _ _ h
  | waiting w =>
    have hclk := hc w rfl
    rw [stepObs_waiting] at h
    rcases advance_spec hT (max o.t w.clk) o.afterTimer _ w hi.1 (advanceFuel_ok _ _) with
      ⟨w', hw', _, _, _, _⟩ | ⟨hd', _, hle, _⟩
    · rw [hw'] at h
      cases hk : o.kind <;> simp [hk] at h <;> (obtain ⟨_, h2, _⟩ := h; omega)
    · rw [hd'] at h
      injection h with _ h2 _
      omega

theorem runFrom_ret_le {T n : Int} (hT : 0 < T) (b : Int) (obs : List Obs) (ho : ∀ o ∈ obs, o.t ≤ b) :
    ∀ st, Inv T n st → (∀ w, st = .waiting w → w.clk ≤ b) → (∀ txs t out, st = .done txs t out → t ≤ b) →
      ∀ txs t out, runFrom n st obs = .done txs t out → t ≤ b := by
  induction obs with
  | nil => intro st _ _ hd txs t out h; exact hd _ _ _ h
  | cons o obs ih =>
    intro st hi hc hd
    rw [runFrom_cons]
    have ho1 := ho o (List.mem_cons_self ..)
    exact ih (fun o' ho' => ho o' (List.mem_cons_of_mem _ ho')) _ (stepObs_inv hT st o hi)
      (stepObs_clk n b st o ho1 hc) (stepObs_ret_le hT b st o ho1 hi hc hd)

/-- Observations that never end a call. -/
def Quiet (obs : List Obs) : Prop := ∀ o ∈ obs, o.kind = .irr ∨ o.kind = .rej

/-- State of a call that met only quiet observations. -/
def QuietInv (T n : Int) : CState → Prop
  | .waiting w => Good T n w ∧ w.start ≤ w.clk
  | .done txs t o => o = .noResp ∧ 0 ≤ n ∧ txs = sched T n.toNat ∧ t = off T n.toNat

theorem stepObs_quiet {T n : Int} (hT : 0 < T) (st : CState) (o : Obs) (hq : o.kind = .irr ∨ o.kind = .rej)
    (h : QuietInv T n st) : QuietInv T n (stepObs n st o) := by
  cases st with
  | done txs t out => exact h
  | waiting w =>
    obtain ⟨g, hclk⟩ := h
    rw [stepObs_waiting]
    rcases advance_spec hT (max o.t w.clk) o.afterTimer _ w g (advanceFuel_ok _ _) with
      ⟨w', hw', g', hclk', hnot, hk'⟩ | ⟨hd, hn0, hle, hk⟩
    · rw [hw']
      have hstart' : off T w'.k ≤ max o.t w.clk := by
        rcases hk' with h | ⟨_, h⟩
        · rw [h, ← g.hstart]; omega
        · exact h
      rcases hq with hq | hq <;> rw [hq] <;>
        exact ⟨⟨g'.hstart, g'.htimeout, g'.htxs, g'.htries⟩, by show w'.start ≤ _; rw [g'.hstart]; exact hstart'⟩
    · rw [hd]; exact ⟨rfl, hn0, rfl, rfl⟩

theorem runFrom_quiet {T n : Int} (hT : 0 < T) (obs : List Obs) (hq : Quiet obs) :
    ∀ st, QuietInv T n st → QuietInv T n (runFrom n st obs) := by
  induction obs with
  | nil => intro st h; exact h
  | cons o obs ih =>
    intro st h; rw [runFrom_cons]
    exact ih (fun o' ho' => hq o' (List.mem_cons_of_mem _ ho')) _
      (stepObs_quiet hT st o (hq o (List.mem_cons_self ..)) h)

theorem begin_quiet {T : Int} (n : Int) : QuietInv T n (begin T n) := by
  have := begin_inv (T := T) n
  unfold begin at this ⊢
  split
  · next h => subst h; exact ⟨rfl, Int.le_refl _, rfl, by simp [off_zero]⟩
  · next h => simp only [h, if_false] at this; exact this

/-! ### `finish`, landing in a given try, terminal observations -/

theorem finish_done (n H : Int) (txs : List Int) (t : Int) (o : Outcome) :
    finish n H (.done txs t o) = ⟨txs, some (t, o)⟩ := rfl

theorem finish_waiting (n H : Int) (w : Wait) :
    finish n H (.waiting w) =
      match advance n H true (advanceFuel w.start H) (.waiting w) with
      | .done txs t o => ⟨txs, some (t, o)⟩
      | .waiting w' => ⟨w'.txs, none⟩ := rfl

theorem finish_none {n H : Int} {st : CState} (h : (finish n H st).ret = none) :
    ∃ w w1, st = .waiting w ∧ advance n H true (advanceFuel w.start H) (.waiting w) = .waiting w1 := by
  cases st with
  | done txs t o => simp [finish_done] at h
  | waiting w =>
    rw [finish_waiting] at h
    split at h
    · simp at h
    · next w' hw' => exact ⟨w, w', rfl, hw'⟩

/-- What the horizon sees of a parked call. -/
theorem finish_spec {T n : Int} (hT : 0 < T) (H : Int) (w : Wait) (g : Good T n w) :
    (∃ k', finish n H (.waiting w) = ⟨sched T (k' + 1), none⟩ ∧ H < off T (k' + 1) ∧ (n < 0 ∨ (k' : Int) < n) ∧
        (k' = w.k ∨ (w.k < k' ∧ off T k' ≤ H))) ∨
    (finish n H (.waiting w) = ⟨sched T n.toNat, some (off T n.toNat, .noResp)⟩ ∧ 0 ≤ n ∧ off T n.toNat ≤ H) := by
  rw [finish_waiting]
  rcases advance_spec hT H true _ w g (advanceFuel_ok _ _) with
    ⟨w', hw', g', _, hnot, hk'⟩ | ⟨hd, hn0, hle, _⟩
  · left
    rw [hw']
    refine ⟨w'.k, by simp [g'.htxs], ?_, g'.htries, hk'⟩
    simp only [true_and] at hnot
    omega
  · right
    rw [hd]
    exact ⟨rfl, hn0, hle⟩

/-- A parked call whose current try started by `τ`, observed (at quiescence)
at an instant `τ` inside try `m`, is parked in try `m` then. -/
theorem advance_lands {T n : Int} (hT : 0 < T) (τ : Int) (m : Nat) (w : Wait) (g : Good T n w)
    (hs : w.start ≤ τ) (hm1 : off T m ≤ τ) (hm2 : τ < off T (m + 1)) (hmn : n < 0 ∨ (m : Int) < n) :
    ∃ w', advance n τ true (advanceFuel w.start τ) (.waiting w) = .waiting w' ∧ Good T n w' ∧ w'.k = m ∧
      w'.clk = w.clk := by
  rcases advance_spec hT τ true _ w g (advanceFuel_ok _ _) with
    ⟨w', hw', g', hclk', hnot, hk'⟩ | ⟨hd, hn0, hle, _⟩
  · refine ⟨w', hw', g', ?_, hclk'⟩
    simp only [true_and] at hnot
    have h1 : off T w'.k ≤ τ := by
      rcases hk' with h | ⟨_, h⟩
      · rw [h, ← g.hstart]; exact hs
      · exact h
    have a : w'.k < m + 1 := lt_of_off_lt hT (by omega)
    have b : m < w'.k + 1 := lt_of_off_lt hT (by omega)
    omega
  · exfalso
    have : n.toNat < m + 1 := lt_of_off_lt hT (by omega)
    omega

def terminalOutcome (o : Obs) : Outcome :=
  match o.kind with
  | .acc => .resp o.tag
  | .ctx => .ctxErr
  | _ => .noResp

def Terminal (o : Obs) : Prop := o.kind = .acc ∨ o.kind = .ctx ∨ o.kind = .closed

/-- A terminal observation made while the call is parked ends it at that instant. -/
theorem stepObs_terminal (n : Int) (w w' : Wait) (o : Obs) (ht : Terminal o)
    (h : advance n (max o.t w.clk) o.afterTimer (advanceFuel w.start (max o.t w.clk)) (.waiting w) = .waiting w') :
    stepObs n (.waiting w) o = .done w'.txs (max o.t w.clk) (terminalOutcome o) := by
  rw [stepObs_waiting, h]
  rcases ht with h | h | h <;> simp [h, terminalOutcome]

/-- Prompt return: a terminal observation at instant `o.t`, made while the call
had not returned (horizon `o.t`), makes the call return at `o.t`. -/
theorem terminal_prompt (T n : Int) (pre post : List Obs) (o : Obs) (H : Int) (ht : Terminal o)
    (h0 : 0 ≤ o.t) (hpre : ∀ p ∈ pre, p.t ≤ o.t) (hw : (runObs T n pre o.t).ret = none) :
    (runObs T n (pre ++ o :: post) H).ret = some (o.t, terminalOutcome o) := by
  obtain ⟨w, w1, hst, hadv⟩ := finish_none hw
  have hclk : w.clk ≤ o.t := runFrom_clk n o.t pre hpre _ (begin_clk T n o.t h0) w hst
  have hmax : max o.t w.clk = o.t := Int.max_eq_left hclk
  have : ∃ w2, advance n o.t o.afterTimer (advanceFuel w.start o.t) (.waiting w) = .waiting w2 := by
    cases hb : o.afterTimer with
    | true => exact ⟨w1, hadv⟩
    | false => exact advance_waiting_of_incl n o.t _ _ w1 hadv
  obtain ⟨w2, hw2⟩ := this
  unfold runObs
  rw [runFrom_append, runFrom_cons, hst, stepObs_terminal n w w2 o ht (by rw [hmax]; exact hw2), runFrom_done,
    finish_done, hmax]

/-- Forward form: quiet traffic, then a terminal observation applied at
quiescence at an instant `τ` inside try `m` (which the retry count allows):
the call ends at `τ` having transmitted exactly `m + 1` times. -/
theorem quiet_then_terminal {T n : Int} (hT : 0 < T) (pre post : List Obs) (o : Obs) (H : Int) (m : Nat)
    (hq : Quiet pre) (ht : Terminal o) (hat : o.afterTimer = true) (hpre : ∀ p ∈ pre, p.t ≤ o.t)
    (hm1 : off T m ≤ o.t) (hm2 : o.t < off T (m + 1)) (hmn : n < 0 ∨ (m : Int) < n) :
    runObs T n (pre ++ o :: post) H = ⟨sched T (m + 1), some (o.t, terminalOutcome o)⟩ := by
  have h0 : 0 ≤ o.t := Int.le_trans (off_nonneg hT m) hm1
  have hqi := runFrom_quiet hT pre hq _ (begin_quiet (T := T) n)
  unfold runObs
  rw [runFrom_append, runFrom_cons]
  cases hst : runFrom n (begin T n) pre with
  | done txs t out =>
    rw [hst] at hqi
    obtain ⟨_, hn0, _, ht'⟩ := hqi
    exfalso
    have hle : t ≤ o.t := runFrom_ret_le hT o.t pre hpre _ (begin_inv (T := T) n) (begin_clk T n o.t h0)
      (begin_ret_le T n o.t h0) txs t out hst
    have : n.toNat < m + 1 := lt_of_off_lt hT (by omega)
    omega
  | waiting w =>
    rw [hst] at hqi
    obtain ⟨g, hclk⟩ := hqi
    have hclk2 : w.clk ≤ o.t := runFrom_clk n o.t pre hpre _ (begin_clk T n o.t h0) w hst
    have hmax : max o.t w.clk = o.t := Int.max_eq_left hclk2
    obtain ⟨w', hw', g', hk', _⟩ := advance_lands hT o.t m w g (by omega) hm1 hm2 hmn
    rw [stepObs_terminal n w w' o ht (by rw [hmax, hat]; exact hw'), runFrom_done, finish_done, hmax, g'.htxs, hk']

/-! ### The statements behind C12 / C11 (timing) -/

/-- Quiet traffic, `n ≥ 0`, horizon past the end of the schedule. -/
theorem times_of_quiet {T n : Int} (hT : 0 < T) (hn : 0 ≤ n) (obs : List Obs) (H : Int) (hq : Quiet obs)
    (hH : off T n.toNat ≤ H) :
    runObs T n obs H = ⟨sched T n.toNat, some (off T n.toNat, .noResp)⟩ := by
  have hqi := runFrom_quiet hT obs hq _ (begin_quiet (T := T) n)
  unfold runObs
  cases hst : runFrom n (begin T n) obs with
  | done txs t out =>
    rw [hst] at hqi
    obtain ⟨h1, _, h3, h4⟩ := hqi
    rw [finish_done, h1, h3, h4]
  | waiting w =>
    rw [hst] at hqi
    rcases finish_spec hT H w hqi.1 with ⟨k', _, hlt, hk, _⟩ | ⟨hf, _, _⟩
    · exfalso
      have : n.toNat < k' + 1 := lt_of_off_lt hT (by omega)
      omega
    · exact hf

/-- Quiet traffic, `n < 0`: at a horizon `H` inside try `m` the call is still
running and has transmitted at every `off T k`, `k ≤ m`. -/
theorem negative_running {T n : Int} (hT : 0 < T) (hn : n < 0) (obs : List Obs) (H : Int) (m : Nat) (hq : Quiet obs)
    (hobs : ∀ o ∈ obs, o.t ≤ H) (hm1 : off T m ≤ H) (hm2 : H < off T (m + 1)) :
    runObs T n obs H = ⟨sched T (m + 1), none⟩ := by
  have h0 : 0 ≤ H := Int.le_trans (off_nonneg hT m) hm1
  have hqi := runFrom_quiet hT obs hq _ (begin_quiet (T := T) n)
  unfold runObs
  cases hst : runFrom n (begin T n) obs with
  | done txs t out => rw [hst] at hqi; exact absurd hqi.2.1 (by omega)
  | waiting w =>
    rw [hst] at hqi
    have hclk : w.clk ≤ H := runFrom_clk n H obs hobs _ (begin_clk T n H h0) w hst
    rcases finish_spec hT H w hqi.1 with ⟨k', hf, hlt, _, hk⟩ | ⟨_, h, _⟩
    · have h1 : off T k' ≤ H := by
        rcases hk with h | ⟨_, h⟩
        · have := hqi.2
          rw [h, ← hqi.1.hstart]; omega
        · exact h
      have a : k' < m + 1 := lt_of_off_lt hT (by omega)
      have b : m < k' + 1 := lt_of_off_lt hT (by omega)
      have : k' = m := by omega
      rw [hf, this]
    · omega

/-- Whatever is observed, the transmissions are a prefix of the schedule (at
most `n` of them when `n ≥ 0`) and none is later than the return. -/
theorem result_shape {T n : Int} (hT : 0 < T) (obs : List Obs) (H : Int) :
    ∃ m, (runObs T n obs H).txs = sched T m ∧ (0 ≤ n → (m : Int) ≤ n) ∧
      (∀ t o, (runObs T n obs H).ret = some (t, o) → (∀ x ∈ sched T m, x ≤ t) ∧ (0 ≤ n → t ≤ off T n.toNat)) := by
  have hi := runFrom_inv hT obs _ (begin_inv (T := T) n)
  have key : ∀ txs t o, DoneInv T n txs t o →
      ∃ m, txs = sched T m ∧ (0 ≤ n → (m : Int) ≤ n) ∧ (∀ x ∈ sched T m, x ≤ t) ∧ (0 ≤ n → t ≤ off T n.toNat) := by
    intro txs t o hd
    rcases hd with ⟨_, hn0, h3, h4⟩ | ⟨k, h1, h2, h3, h4⟩
    · refine ⟨n.toNat, h3, fun _ => by omega, ?_, fun _ => by omega⟩
      intro x hx
      obtain ⟨k, hk, rfl⟩ := mem_sched.1 hx
      rw [h4]; exact off_mono hT (by omega)
    · refine ⟨k + 1, h1, fun _ => by omega, ?_, ?_⟩
      · intro x hx
        obtain ⟨j, hj, rfl⟩ := mem_sched.1 hx
        have := off_mono hT (show j ≤ k by omega)
        omega
      · intro hn0
        have := off_mono hT (show k + 1 ≤ n.toNat by omega)
        omega
  unfold runObs
  cases hst : runFrom n (begin T n) obs with
  | done txs t out =>
    rw [hst] at hi
    obtain ⟨m, h1, h2, h3, h4⟩ := key txs t out hi
    refine ⟨m, by rw [finish_done]; exact h1, h2, ?_⟩
    intro t' o' h
    rw [finish_done] at h
    simp only [Option.some.injEq, Prod.mk.injEq] at h
    obtain ⟨rfl, _⟩ := h
    exact ⟨h3, h4⟩
  | waiting w =>
    rw [hst] at hi
    rcases finish_spec hT H w hi.1 with ⟨k', hf, _, hk, _⟩ | ⟨hf, hn0, _⟩
    · rw [hf]
      refine ⟨k' + 1, rfl, fun _ => by omega, ?_⟩
      intro t o h; simp at h
    · rw [hf]
      refine ⟨n.toNat, rfl, fun _ => by omega, ?_⟩
      intro t o h
      simp only [Option.some.injEq, Prod.mk.injEq] at h
      obtain ⟨rfl, _⟩ := h
      refine ⟨?_, fun _ => Int.le_refl _⟩
      intro x hx
      obtain ⟨k, hk, rfl⟩ := mem_sched.1 hx
      exact off_mono hT (by omega)

/-- `n ≥ 0`, horizon past the end of the schedule: the call has returned, within budget. -/
theorem budget {T n : Int} (hT : 0 < T) (hn : 0 ≤ n) (obs : List Obs) (H : Int) (hH : off T n.toNat ≤ H) :
    ∃ t o, (runObs T n obs H).ret = some (t, o) ∧ t ≤ off T n.toNat := by
  obtain ⟨m, _, _, h3⟩ := result_shape (n := n) hT obs H
  cases hr : (runObs T n obs H).ret with
  | some p => exact ⟨p.1, p.2, rfl, (h3 p.1 p.2 hr).2 hn⟩
  | none =>
    exfalso
    unfold runObs at hr
    obtain ⟨w, w1, hst, hadv⟩ := finish_none hr
    have hi := runFrom_inv hT obs _ (begin_inv (T := T) n)
    rw [hst] at hi
    rcases finish_spec hT H w hi.1 with ⟨k', hf, hlt, hk, _⟩ | ⟨hf, _, _⟩
    · have : n.toNat < k' + 1 := lt_of_off_lt hT (by omega)
      omega
    · rw [hst, hf] at hr; simp at hr

/-- A returned response was accepted during some try `k`: exactly `k + 1`
transmissions, all made by then. -/
theorem resp_shape {T n : Int} (hT : 0 < T) (obs : List Obs) (H : Int) (τ : Int) (i : Nat)
    (h : (runObs T n obs H).ret = some (τ, .resp i)) :
    ∃ k : Nat, (runObs T n obs H).txs = sched T (k + 1) ∧ (n < 0 ∨ (k : Int) < n) ∧ off T k ≤ τ ∧ τ ≤ off T (k + 1) := by
  have hi := runFrom_inv hT obs _ (begin_inv (T := T) n)
  unfold runObs at h ⊢
  cases hst : runFrom n (begin T n) obs with
  | done txs t out =>
    rw [hst] at hi h
    rw [finish_done] at h ⊢
    simp only [Option.some.injEq, Prod.mk.injEq] at h
    obtain ⟨rfl, rfl⟩ := h
    rcases hi with ⟨h1, _⟩ | ⟨k, h1, h2, h3, h4⟩
    · simp at h1
    · exact ⟨k, h1, h2, h3, h4⟩
  | waiting w =>
    rw [hst] at hi h
    rcases finish_spec hT H w hi.1 with ⟨k', hf, _⟩ | ⟨hf, _⟩
    · rw [hf] at h; simp at h
    · rw [hf] at h; simp at h

/-! ### Layer 2 is an enumeration of layer-1 runs -/

theorem mem_addNew {α} [DecidableEq α] (a b : α) (l : List α) : a ∈ addNew b l ↔ a = b ∨ a ∈ l := by
  unfold addNew
  split
  · next h => constructor
              · exact Or.inr
              · rintro (rfl | h') <;> assumption
  · simp

theorem mem_dedup {α} [DecidableEq α] (a : α) (l : List α) : a ∈ dedup l ↔ a ∈ l := by
  induction l with
  | nil => simp [dedup]
  | cons b l ih =>
    have : dedup (b :: l) = addNew b (dedup l) := rfl
    rw [this, mem_addNew, ih]; simp

theorem stepGroup_sound (n : Int) (st0 : CState) (t : Int) (race : Bool) (g : Group) (sts : List CState)
    (h : ∀ s ∈ sts, ∃ obs, s = runFrom n st0 obs) :
    ∀ s ∈ stepGroup n t race g sts, ∃ obs, s = runFrom n st0 obs := by
  intro s hs
  unfold stepGroup at hs
  rw [mem_dedup, List.mem_flatMap] at hs
  obtain ⟨st, hst, hs⟩ := hs
  rw [List.mem_map] at hs
  obtain ⟨v, _, rfl⟩ := hs
  obtain ⟨obs, rfl⟩ := h st hst
  exact ⟨obs ++ v, (runFrom_append n st0 obs v).symm⟩

theorem foldGroups_sound (n : Int) (st0 : CState) (gs : List (Int × Bool × Group)) :
    ∀ sts : List CState, (∀ s ∈ sts, ∃ obs, s = runFrom n st0 obs) →
      ∀ s ∈ gs.foldl (fun sts (g : Int × Bool × Group) => stepGroup n g.1 g.2.1 g.2.2 sts) sts,
        ∃ obs, s = runFrom n st0 obs := by
  induction gs with
  | nil => intro sts h; exact h
  | cons g gs ih => intro sts h; exact ih _ (stepGroup_sound n st0 g.1 g.2.1 g.2.2 sts h)

/-- Every result the script-level model allows is the result of the
caller-level machine on some observation sequence: all theorems about
`runObs` (stated for every observation sequence) hold of every member of
`runCall`. -/
theorem runCall_sound (T n : Int) (evs : List Event) (H : Int) (r : Result) (h : r ∈ runCall T n evs H) :
    ∃ obs, r = runObs T n obs H := by
  unfold runCall at h
  rw [mem_dedup, List.mem_map] at h
  obtain ⟨st, hst, rfl⟩ := h
  obtain ⟨obs, rfl⟩ := foldGroups_sound n (begin T n) (groups evs) [begin T n]
    (fun s hs => ⟨[], by simp at hs; subst hs; rfl⟩) st hst
  exact ⟨obs, rfl⟩

/-! ### Scripts without terminating events only produce quiet observations -/

def QuietG (g : Group) : Prop := ∀ e ∈ g, e.2 = .irr ∨ e.2 = .rej
def QuietE (evs : List Event) : Prop := ∀ e ∈ evs, e.kind = .irr ∨ e.kind = .rej

theorem mem_insertions {α} (x : α) (l l' : List α) (h : l' ∈ insertions x l) : ∀ y ∈ l', y = x ∨ y ∈ l := by
  induction l generalizing l' with
  | nil => simp [insertions] at h; subst h; intro y hy; simp at hy; exact Or.inl hy
  | cons a t ih =>
    simp only [insertions, List.mem_cons, List.mem_map] at h
    rcases h with rfl | ⟨m, hm, rfl⟩
    · intro y hy; simp at hy; rcases hy with rfl | rfl | hy <;> simp [*]
    · intro y hy
      simp at hy
      rcases hy with rfl | hy
      · simp
      · rcases ih m hm y hy with rfl | h' <;> simp [*]

theorem quiet_no_find (g : Group) (hq : QuietG g) (k : EvKind) (hk : k = .cancel ∨ k = .close) :
    g.find? (fun e => e.2 = k) = none := by
  rw [List.find?_eq_none]
  intro e he
  rcases hq e he with h | h <;> rcases hk with rfl | rfl <;> simp [h]

theorem mergeOrders_quiet (g : Group) (hq : QuietG g) : ∀ m ∈ mergeOrders g, QuietG m := by
  intro m hm
  unfold mergeOrders at hm
  rw [quiet_no_find g hq .cancel (Or.inl rfl), quiet_no_find g hq .close (Or.inr rfl)] at hm
  simp at hm
  subst hm
  intro e he
  exact hq e (List.mem_filter.1 he).1

theorem lose_quiet : ∀ (j : Nat) (l : Group), QuietG l → QuietG (lose j l) := by
  intro j l
  induction l generalizing j with
  | nil => intro h; cases j <;> simpa [lose] using h
  | cons a t ih =>
    intro h
    cases j with
    | zero => simpa [lose] using h
    | succ j =>
      obtain ⟨i, k⟩ := a
      have ht : QuietG t := fun e he => h e (List.mem_cons_of_mem _ he)
      simp only [lose]
      split
      · intro e he
        simp at he
        rcases he with rfl | he
        · exact Or.inl rfl
        · exact ih j ht e he
      · intro e he
        simp at he
        rcases he with rfl | he
        · exact h _ (List.mem_cons_self ..)
        · exact ih (j + 1) ht e he

theorem toObs_quiet (t : Int) (a : Bool) (l : Group) (h : QuietG l) : Quiet (toObs t a l) := by
  intro o ho
  simp only [toObs, List.mem_map] at ho
  obtain ⟨e, he, rfl⟩ := ho
  rcases h e he with h' | h' <;> simp [obsKind, h']

theorem quiet_append {a b : List Obs} (ha : Quiet a) (hb : Quiet b) : Quiet (a ++ b) := by
  intro o ho
  rcases List.mem_append.1 ho with h | h
  · exact ha o h
  · exact hb o h

theorem groupViews_quiet (t : Int) (race : Bool) (g : Group) (hq : QuietG g) : ∀ v ∈ groupViews t race g, Quiet v := by
  intro v hv
  unfold groupViews at hv
  split at hv
  · simp only [List.mem_flatMap, List.mem_map, List.mem_range] at hv
    obtain ⟨m, hm, p, _, j, _, rfl⟩ := hv
    have hmq := mergeOrders_quiet g hq m hm
    refine quiet_append (toObs_quiet _ _ _ ?_) (toObs_quiet _ _ _ (lose_quiet _ _ ?_))
    · intro e he; exact hmq e (List.mem_of_mem_take he)
    · intro e he; exact hmq e (List.mem_of_mem_drop he)
  · simp only [List.mem_map] at hv
    obtain ⟨m, hm, rfl⟩ := hv
    exact toObs_quiet _ _ _ (mergeOrders_quiet g hq m hm)

theorem groupsAux_quiet : ∀ (es : List Event) (clk : Int) (i : Nat) (cur : Option (Int × Bool × Group)),
    QuietE es → (∀ c, cur = some c → QuietG c.2.2) → ∀ g ∈ groupsAux clk i es cur, QuietG g.2.2 := by
  intro es
  induction es with
  | nil =>
    intro clk i cur _ hc g hg
    cases cur with
    | none => simp [groupsAux] at hg
    | some c0 => simp [groupsAux] at hg; subst hg; exact hc _ rfl
  | cons e es ih =>
    intro clk i cur hq hc g hg
    have hqe := hq e (List.mem_cons_self ..)
    have hqes : QuietE es := fun e' he' => hq e' (List.mem_cons_of_mem _ he')
    have single : QuietG [(i, e.kind)] := by
      intro x hx; simp at hx; subst hx; exact hqe
    unfold groupsAux at hg
    cases cur with
    | none =>
      simp only at hg
      exact ih _ _ _ hqes (by intro c hc'; injection hc' with hc'; subst hc'; exact single) g hg
    | some c =>
      obtain ⟨tg, r, gg⟩ := c
      by_cases hf : (e.sync || decide (e.t > clk)) = true
      · simp only [hf] at hg
        simp only [List.mem_cons] at hg
        rcases hg with rfl | hg
        · exact hc _ rfl
        · exact ih _ _ _ hqes (by intro c hc'; injection hc' with hc'; subst hc'; exact single) g hg
      · have hf' : (e.sync || decide (e.t > clk)) = false := by simpa using hf
        simp only [hf'] at hg
        refine ih _ _ _ hqes ?_ g hg
        intro c hc'; injection hc' with hc'; subst hc'
        intro x hx
        rcases List.mem_append.1 hx with h | h
        · exact hc _ rfl x h
        · exact single x h

theorem groups_quiet (evs : List Event) (hq : QuietE evs) : ∀ g ∈ groups evs, QuietG g.2.2 :=
  groupsAux_quiet evs 0 0 none hq (by intro c hc; cases hc)

theorem foldGroups_quiet (n : Int) (st0 : CState) (gs : List (Int × Bool × Group)) (hq : ∀ g ∈ gs, QuietG g.2.2) :
    ∀ sts : List CState, (∀ s ∈ sts, ∃ obs, Quiet obs ∧ s = runFrom n st0 obs) →
      ∀ s ∈ gs.foldl (fun sts (g : Int × Bool × Group) => stepGroup n g.1 g.2.1 g.2.2 sts) sts,
        ∃ obs, Quiet obs ∧ s = runFrom n st0 obs := by
  induction gs with
  | nil => intro sts h; exact h
  | cons g gs ih =>
    intro sts h
    refine ih (fun g' hg' => hq g' (List.mem_cons_of_mem _ hg')) _ ?_
    intro s hs
    unfold stepGroup at hs
    rw [mem_dedup, List.mem_flatMap] at hs
    obtain ⟨st, hst, hs⟩ := hs
    rw [List.mem_map] at hs
    obtain ⟨v, hv, rfl⟩ := hs
    obtain ⟨obs, hobs, rfl⟩ := h st hst
    have hvq := groupViews_quiet _ _ _ (hq g (List.mem_cons_self ..)) v hv
    exact ⟨obs ++ v, quiet_append hobs hvq, (runFrom_append n st0 obs v).symm⟩

/-- A script that only injects rejected / dropped datagrams makes the caller
observe only quiet stimuli, in every result the script-level model allows. -/
theorem runCall_quiet_sound (T n : Int) (evs : List Event) (H : Int) (hq : QuietE evs) (r : Result)
    (h : r ∈ runCall T n evs H) : ∃ obs, Quiet obs ∧ r = runObs T n obs H := by
  unfold runCall at h
  rw [mem_dedup, List.mem_map] at h
  obtain ⟨st, hst, rfl⟩ := h
  obtain ⟨obs, hobs, rfl⟩ := foldGroups_quiet n (begin T n) (groups evs) (groups_quiet evs hq) [begin T n]
    (fun s hs => ⟨[], (fun o ho => by cases ho), by simp at hs; subst hs; rfl⟩) st hst
  exact ⟨obs, hobs, rfl⟩

end Dhcp.Client.Timed

import Dhcp.V4.Packet
import DhcpProofs.Lemmas.Basic
/- Lemmas about the DHCPv4 option loop and `Options.Marshal`. -/
namespace Dhcp.V4
open Dhcp List

namespace Opts
@[simp] theorem set_f_same (o : Opts) (c : UInt8) (v : Bytes) : (o.set c v).f c = some v := by
  simp [set]
theorem set_f_ne (o : Opts) {c k : UInt8} (v : Bytes) (h : k ≠ c) : (o.set c v).f k = o.f k := by
  simp [set, h]
@[simp] theorem app_f_same (o : Opts) (c : UInt8) (v : Bytes) :
    (o.app c v).f c = some ((o.f c).getD [] ++ v) := by simp [app]
theorem app_f_ne (o : Opts) {c k : UInt8} (v : Bytes) (h : k ≠ c) : (o.app c v).f k = o.f k := by
  simp [app, set, h]
theorem app_app (o : Opts) (c : UInt8) (a b : Bytes) : (o.app c a).app c b = o.app c (a ++ b) := by
  apply Opts.ext'; intro k
  by_cases h : k = c
  · subst h; simp [List.append_assoc]
  · simp [app_f_ne _ _ h]
end Opts

/-- The option loop with exactly enough fuel. -/
def optsLoop' (l : Lexer) (o : Opts) : Option (Opts × Bool) := optsLoop (l.data.length + 1) l o

theorem consume_len_le (l : Lexer) (n : Nat) : (l.consume n).2.data.length ≤ l.data.length := by
  unfold Lexer.consume; split <;> simp

theorem read8_len (l : Lexer) (h : 1 ≤ l.data.length) : (l.read8).2.data.length + 1 = l.data.length := by
  cases l with | mk d e =>
  cases d with
  | nil => simp at h
  | cons b r => simp

theorem read8_len_le (l : Lexer) : (l.read8).2.data.length ≤ l.data.length := by
  cases l with | mk d e =>
  cases d with
  | nil => simp [Lexer.read8_nil]
  | cons b r => simp

/-- Fuel irrelevance: any fuel above the remaining length gives the same result. -/
theorem optsLoop_fuel (f1 : Nat) : ∀ (f2 : Nat) (l : Lexer) (o : Opts),
    l.data.length < f1 → l.data.length < f2 → optsLoop f1 l o = optsLoop f2 l o := by
  induction f1 with
  | zero => intro f2 l o h; omega
  | succ f1 ih =>
    intro f2 l o h1 h2
    cases f2 with
    | zero => omega
    | succ f2 =>
      unfold optsLoop
      by_cases hl : l.len ≥ 1
      · simp only [hl, if_true]
        have h8 := read8_len l hl
        generalize hr : l.read8 = r at h8
        obtain ⟨code, l1⟩ := r
        simp only at h8 ⊢
        by_cases hp : code = optPad
        · simp only [hp, if_true]; exact ih f2 l1 o (by omega) (by omega)
        · simp only [hp, if_false]
          by_cases he : code = optEnd
          · simp [he]
          · simp only [he, if_false]
            have h8' := read8_len_le l1
            generalize hr2 : l1.read8 = r2 at h8'
            obtain ⟨len, l2⟩ := r2
            simp only at h8' ⊢
            have hc := consume_len_le l2 len.toNat
            generalize hr3 : l2.consume len.toNat = r3 at hc
            obtain ⟨d, l3⟩ := r3
            cases d with
            | none => rfl
            | some d =>
              simp only at hc ⊢
              by_cases he3 : l3.err = true
              · simp [he3]
              · simp only [he3, if_false]; exact ih f2 l3 _ (by omega) (by omega)
      · simp [hl]

theorem optsLoop'_nil (e : Bool) (o : Opts) : optsLoop' ⟨[], e⟩ o = some (o, false) := by
  simp [optsLoop', optsLoop, Lexer.len]

theorem optsLoop'_pad (rest : Bytes) (e : Bool) (o : Opts) :
    optsLoop' ⟨0 :: rest, e⟩ o = optsLoop' ⟨rest, e⟩ o := by
  simp [optsLoop', optsLoop, Lexer.len, optPad]

theorem optsLoop'_end (rest : Bytes) (e : Bool) (o : Opts) :
    optsLoop' ⟨255 :: rest, e⟩ o = some (o, true) := by
  simp [optsLoop', optsLoop, Lexer.len, optPad, optEnd]

/-- One complete code/length/value instance. -/
theorem optsLoop'_tlv (c : UInt8) (hc0 : c ≠ 0) (hc255 : c ≠ 255) (v rest : Bytes) (hv : v.length < 256)
    (o : Opts) :
    optsLoop' ⟨c :: UInt8.ofNat v.length :: (v ++ rest), false⟩ o = optsLoop' ⟨rest, false⟩ (o.app c v) := by
  unfold optsLoop'
  rw [optsLoop]
  simp only [Lexer.len, List.length_cons, ge_iff_le, Nat.le_add_left, if_true, Lexer.read8_cons,
    optPad, optEnd, hc0, hc255, if_false]
  rw [Lexer.consume_append v rest false (by simp [UInt8.toNat_ofNat_lt hv])]
  simp only [Bool.false_eq_true, if_false]
  apply optsLoop_fuel <;> simp <;> omega

theorem chunksAux_nil (c : UInt8) (fuel : Nat) : chunksAux c fuel [] = [] := by
  cases fuel <;> simp [chunksAux]

theorem optsLoop'_chunksAux (c : UInt8) (hc0 : c ≠ 0) (hc255 : c ≠ 255) :
    ∀ (n : Nat) (v : Bytes) (fuel : Nat) (rest : Bytes) (o : Opts), v.length ≤ n → v ≠ [] →
      v.length ≤ fuel →
      optsLoop' ⟨chunksAux c fuel v ++ rest, false⟩ o = optsLoop' ⟨rest, false⟩ (o.app c v) := by
  intro n
  induction n using Nat.strongRecOn with
  | _ n ih =>
    intro v fuel rest o hn hne hf
    have hpos : 0 < v.length := List.length_pos_iff.mpr hne
    cases fuel with
    | zero => omega
    | succ fuel =>
      unfold chunksAux
      have hz : ¬ v.length = 0 := by omega
      simp only [hz, if_false]
      by_cases hbig : v.length > chunkMax
      · simp only [hbig, if_true]
        have htl : (v.take chunkMax).length = chunkMax := by
          simp [List.length_take]; unfold chunkMax at *; omega
        have := optsLoop'_tlv c hc0 hc255 (v.take chunkMax) (chunksAux c fuel (v.drop chunkMax) ++ rest)
          (by rw [htl]; decide) o
        rw [htl] at this
        simp only [List.cons_append, List.append_assoc]
        rw [this]
        have hdl : (v.drop chunkMax).length = v.length - chunkMax := by simp
        have hdne : v.drop chunkMax ≠ [] := by
          intro h; rw [h] at hdl; simp at hdl; omega
        have h1 : v.length - chunkMax < n := by unfold chunkMax at *; omega
        have h2 : (v.drop chunkMax).length ≤ v.length - chunkMax := by omega
        have h3 : (v.drop chunkMax).length ≤ fuel := by unfold chunkMax at *; omega
        rw [ih (v.length - chunkMax) h1 (v.drop chunkMax) fuel rest _ h2 hdne h3]
        rw [Opts.app_app, List.take_append_drop]
      · simp only [hbig, if_false]
        have hlt : v.length < 256 := by unfold chunkMax at hbig; omega
        simp only [List.take_length, List.drop_length, chunksAux_nil, List.append_nil,
          List.cons_append]
        exact optsLoop'_tlv c hc0 hc255 v rest hlt o

/-- `Marshal`'s output for one option is read back as one `append`. -/
theorem optsLoop'_chunks (c : UInt8) (hc0 : c ≠ 0) (hc255 : c ≠ 255) (v rest : Bytes)
    (o : Opts) :
    optsLoop' ⟨chunks c v ++ rest, false⟩ o = optsLoop' ⟨rest, false⟩ (o.app c v) := by
  unfold chunks
  by_cases hv : v.length = 0
  · have : v = [] := List.eq_nil_of_length_eq_zero hv
    subst this
    simp only [List.length_nil, if_true]
    exact optsLoop'_tlv c hc0 hc255 [] rest (by simp) o
  · simp only [hv, if_false]
    exact optsLoop'_chunksAux c hc0 hc255 v.length v v.length rest o (Nat.le_refl _)
      (by intro h; simp [h] at hv) (Nat.le_refl _)

end Dhcp.V4

import DhcpProofs.Lemmas.V6Fix
/-
  Witnesses around the C06/v6 fixpoint: accepted DHCPv6 messages with an
  embedded DHCPv4 message (option 87), built from the closed form
  `V4.dec4_layout` and the grammar constructors (no evaluation of the decoder on
  long literals).  They show that both side conditions of `v6_fixpoint` are
  needed: a 64-byte NUL-free sname (`NamesOK` fails) and a container that
  outgrows its 16-bit length when the inner DHCPv4 message is re-padded to 300
  bytes (`FitsLen` fails).
-/
namespace Dhcp.V6
open Dhcp List Dhcp.Spec

/-! ### an embedded DHCPv4 message with a given 64-byte sname field -/

/-- BOOTREQUEST, Ethernet, all-zero addresses, the given server-name field, no options -/
def v4w (sn : Bytes) : Bytes :=
  1 :: 1 :: 6 :: 0 :: (zeros 4 ++ (be16 0 ++ (be16 0 ++ (zeros 4 ++ (zeros 4 ++ (zeros 4 ++ (zeros 4 ++
    (zeros 16 ++ (sn ++ (zeros 128 ++ (V4.magicCookie ++ [255])))))))))))

/-- what `dec4` reads from `v4w sn` -/
def p4w (sn : Bytes) : V4.Pkt4 :=
  { op := 1, htype := 1, hw := zeros 6, hops := 0, xid := zeros 4, secs := 0, flags := 0,
    ciaddr := some (zeros 4), yiaddr := some (zeros 4), siaddr := some (zeros 4), giaddr := some (zeros 4),
    sname := cutNul sn, file := [], opts := V4.Opts.empty }

theorem v4w_length (sn : Bytes) (h : sn.length = 64) : (v4w sn).length = 241 := by
  simp [v4w, V4.magicCookie, h]

theorem dec4_v4w (sn : Bytes) (h : sn.length = 64) : V4.dec4 (v4w sn) = .ok (p4w sn) := by
  unfold v4w
  rw [V4.dec4_layout 1 1 6 0 (zeros 4) (zeros 4) (zeros 4) (zeros 4) (zeros 4) (zeros 16)
    sn (zeros 128) V4.magicCookie [255] 0 0 (by simp) (by decide) (by decide)
    (by simp) (by simp) (by simp) (by simp) (by simp) h (by simp) (by decide)]
  have h1 : V4.optsFromBytes V4.Opts.empty [255] true = some V4.Opts.empty := rfl
  have h3 : cutNul (zeros 128) = [] := by decide
  have h4 : (zeros 16).take (if (6 : UInt8).toNat > 16 then 16 else (6 : UInt8).toNat) = zeros 6 := by
    decide
  simp only [ne_eq, not_true_eq_false, if_false, h1, h3, h4]
  rfl

theorem keys_empty : V4.Opts.empty.keys = [] := by
  unfold V4.Opts.keys
  apply List.filter_eq_nil_iff.mpr
  intro k _
  simp [V4.Opts.empty]

theorem marshal_empty : V4.marshalOpts V4.Opts.empty = [] := by
  unfold V4.marshalOpts V4.sortedKeys
  rw [keys_empty]
  simp [V4.Opts.has, V4.Opts.empty]

/-- the re-encoding is padded to the BOOTP minimum: 300 bytes (59 more than `v4w`) -/
theorem enc4_p4w_length (sn : Bytes) : (enc4Bytes (p4w sn)).length = 300 := by
  have hw : V4.writeIP (some (zeros 4)) = .ok (zeros 4) := by decide
  simp only [enc4Bytes, V4.enc4, p4w, hw, marshal_empty, bind, Res.bind, pure]
  simp [V4.nameField, copyInto_length, V4.chaddrLen, V4.snameCap, V4.fileCap, V4.magicCookie,
    V4.bootpMinLen]

theorem popt_v4w (sn : Bytes) (h : sn.length = 64) : POpt 87 (v4w sn) (.dhcpv4Msg (p4w sn)) :=
  .leaf (by decide) (by rw [decSimple_87, dec4_v4w sn h])

/-! ### witness 1: a name that fills its field -/

/-- 64 bytes 'a', no NUL -/
def snFull : Bytes := List.replicate 64 97
/-- "a", NUL padded -/
def snShort : Bytes := 97 :: zeros 63

theorem cutNul_snFull : cutNul snFull = snFull := by decide
theorem cutNul_snShort : cutNul snShort = [97] := by decide

/-- message type 1, transaction id 0, one option 87 -/
def b6w (sn : Bytes) : Bytes := 1 :: ([0, 0, 0] ++ (tlv 87 (v4w sn) ++ []))
def m6w (sn : Bytes) : Msg6 := .msg 1 [0, 0, 0] [.dhcpv4Msg (p4w sn)]

theorem pmsg_b6w (sn : Bytes) (h : sn.length = 64) : PMsg (b6w sn) (m6w sn) :=
  .msg (by decide) rfl
    (.cons (by decide) (by rw [v4w_length sn h]; decide) (popt_v4w sn h) .nil)

theorem dec6_b6w (sn : Bytes) (h : sn.length = 64) : dec6 (b6w sn) = .ok (m6w sn) :=
  (dec6_iff _ _).mpr (pmsg_b6w sn h)

theorem fitsLen_m6w (sn : Bytes) : FitsLenM (m6w sn) := by
  simp only [m6w, FitsLenM, FitsLenL, FitsLen, encOpt, enc4_p4w_length, and_true]
  intro _; decide

theorem namesOK_m6w_short : NamesOKM (m6w snShort) := by
  simp only [m6w, NamesOKM, NamesOKL, NamesOK, p4w, cutNul_snShort, and_true]
  decide

theorem not_namesOK_m6w_full : ¬ NamesOKM (m6w snFull) := by
  simp only [m6w, NamesOKM, NamesOKL, NamesOK, p4w, cutNul_snFull, and_true]
  decide

/-- the exact fixpoint fails for an embedded DHCPv4 message whose 64-byte
sname has no NUL: the re-decoded message carries the 63-byte name -/
theorem v6_full_false : ¬ ∀ b m, dec6 b = .ok m → dec6 (encMsg m) = .ok m := by
  intro hfull
  have hd := dec6_b6w snFull rfl
  have h1 := hfull _ _ hd
  have h2 := (v6_fixpoint_norm _ _ hd (fitsLen_m6w snFull)).1
  rw [h1] at h2
  simp only [m6w, cutNames6, cutOpts, cutOpt, Res.ok.injEq, Msg6.msg.injEq, List.cons.injEq,
    Opt6.dhcpv4Msg.injEq, and_true, true_and] at h2
  have h3 := congrArg (fun p : V4.Pkt4 => p.sname.length) h2
  simp only [V4.cutNames, p4w, cutNul_snFull] at h3
  revert h3
  decide

/-! ### witness 2: a container that outgrows its length field

The 65250 padding bytes stay a variable `pad` until the last step, so that no
proof term makes the kernel walk a 65250-element list. -/

/-- value of an IA_TA option holding the DHCPv4 message and an unknown option with value `pad` -/
def iataVal (sn pad : Bytes) : Bytes := zeros 4 ++ (tlv 87 (v4w sn) ++ (tlv 4242 pad ++ []))
def b6big (sn pad : Bytes) : Bytes := 1 :: ([0, 0, 0] ++ (tlv 4 (iataVal sn pad) ++ []))
def m6big (sn pad : Bytes) : Msg6 :=
  .msg 1 [0, 0, 0] [.iata (zeros 4) [.dhcpv4Msg (p4w sn), .generic 4242 pad]]

theorem iataVal_length (sn pad : Bytes) (h : sn.length = 64) (hp : pad.length = 65250) :
    (iataVal sn pad).length = 65503 := by
  simp only [iataVal, List.length_append, tlv_length, v4w_length sn h, hp, zeros_length,
    List.length_nil]

theorem pmsg_b6big (sn pad : Bytes) (h : sn.length = 64) (hp : pad.length = 65250) :
    PMsg (b6big sn pad) (m6big sn pad) := by
  refine .msg (by decide) rfl (.cons (by decide) (by rw [iataVal_length sn pad h hp]; decide) ?_ .nil)
  refine .iata (by simp) ?_
  refine .cons (by decide) (by rw [v4w_length sn h]; decide) (popt_v4w sn h) ?_
  refine .cons (by decide) (by rw [hp]; decide) ?_ .nil
  exact generic_accepted _ (by decide)

theorem dec6_b6big (sn pad : Bytes) (h : sn.length = 64) (hp : pad.length = 65250) :
    dec6 (b6big sn pad) = .ok (m6big sn pad) :=
  (dec6_iff _ _).mpr (pmsg_b6big sn pad h hp)

theorem namesOK_m6big_short (pad : Bytes) : NamesOKM (m6big snShort pad) := by
  simp only [m6big, NamesOKM, NamesOKL, NamesOK, p4w, cutNul_snShort, and_true]
  decide

theorem encMsg_m6big_length (sn pad : Bytes) (hp : pad.length = 65250) :
    (encMsg (m6big sn pad)).length = 65570 := by
  simp only [m6big, encMsg, encOpts, encOpt, Opt6.code, List.length_cons, List.length_append,
    tlv_length, copyInto_length, enc4_p4w_length, hp, List.length_nil]

/-- an option list of `n` options occupies at most `n * 65539` bytes -/
theorem POpts_length {d : Bytes} {os : List Opt6} (h : POpts d os) : d.length ≤ os.length * 65539 := by
  have ht := Tiles_of_POpts h
  clear h
  induction ht with
  | nil => simp
  | cons _ hv _ _ ih =>
    simp only [List.length_append, tlv_length, List.length_cons]
    omega

theorem PMsg_msg_length {b : Bytes} {t : UInt8} {x : Bytes} {os : List Opt6}
    (h : PMsg b (.msg t x os)) : b.length ≤ 4 + os.length * 65539 := by
  generalize hm : Msg6.msg t x os = m at h
  cases h with
  | msg _ hx hs =>
    simp only [Msg6.msg.injEq] at hm
    obtain ⟨_, _, rfl⟩ := hm
    have := POpts_length hs
    simp only [List.length_cons, List.length_append, hx]; omega
  | relay _ _ _ _ => cases hm

theorem names_only_false_of (pad : Bytes) (hp : pad.length = 65250) :
    ¬ ∀ b m, dec6 b = .ok m → NamesOKM m → dec6 (encMsg m) = .ok m := by
  intro hfull
  have h1 := hfull _ _ (dec6_b6big snShort pad rfl hp) (namesOK_m6big_short pad)
  have h2 := PMsg_msg_length ((dec6_iff _ _).mp h1)
  rw [encMsg_m6big_length snShort pad hp] at h2
  simp only [List.length_cons, List.length_nil] at h2
  omega

/-- the names hypothesis alone is not enough: re-encoding this accepted message
(all names short) writes a 65562-byte IA_TA value behind a 16-bit length, and
the result is not read back as the message -/
theorem v6_names_only_false : ¬ ∀ b m, dec6 b = .ok m → NamesOKM m → dec6 (encMsg m) = .ok m :=
  names_only_false_of (zeros 65250) (zeros_length 65250)

theorem not_fitsLen_m6big (sn pad : Bytes) (hp : pad.length = 65250) : ¬ FitsLenM (m6big sn pad) := by
  intro h
  simp only [m6big, FitsLenM, FitsLenL] at h
  have h1 := h.1 (by simp [hasV4, hasV4L])
  simp only [encOpt, encOpts, Opt6.code, List.length_append, tlv_length, copyInto_length,
    enc4_p4w_length, hp, List.length_nil] at h1
  omega

end Dhcp.V6

import Dhcp.V4.Values
import Dhcp.Spec.Val4
import DhcpProofs.Lemmas.Basic
/-
  C17 helper lemmas, part 1: the fixed-size value types and strings.
  Each `…_eq` lemma says that a `FromBytes` model computes exactly the RFC
  interpretation of `Dhcp.Spec.Val4` (success with that value / error).
-/
namespace Dhcp.V4
open Dhcp List
open Dhcp.Spec

theorem GOpts.get_update_same (o : GOpts) (c : UInt8) (v : GoBytes) : (o.update c v).get c = v := by
  simp [GOpts.get, GOpts.update]

theorem GOpts.get_update_ne (o : GOpts) {c k : UInt8} (v : GoBytes) (h : k ≠ c) :
    (o.update c v).get k = o.get k := by
  simp [GOpts.get, GOpts.update, h]

theorem GOpts.get_empty (c : UInt8) : GOpts.empty.get c = none := rfl

theorem ipFromBytes_eq (v : Bytes) : ipFromBytes v = (Val4.ip v).map some := by
  unfold ipFromBytes
  match v with
  | [] | [_] | [_, _] | [_, _, _] | [_, _, _, _] | _ :: _ :: _ :: _ :: _ :: _ =>
    simp [Lexer.new, Lexer.copyN, Lexer.consume, Lexer.finError, Val4.ip]

theorem maskFromBytes_eq (v : Bytes) : maskFromBytes v = (Val4.mask v).map some := by
  unfold maskFromBytes
  match v with
  | [] | [_] | [_, _] | [_, _, _] | [_, _, _, _] | _ :: _ :: _ :: _ :: _ :: _ =>
    simp [Lexer.new, Lexer.copyN, Lexer.consume, Lexer.finError, Val4.mask]

theorem durationFromBytes_eq (v : Bytes) : durationFromBytes v = Val4.seconds v := by
  unfold durationFromBytes Val4.seconds
  match v with
  | [] | [_] | [_, _] | [_, _, _] | [_, _, _, _] | _ :: _ :: _ :: _ :: _ :: _ =>
    simp [Lexer.new, Lexer.read32, Lexer.consume, Lexer.finError, Val4.u32, beNat, second]

theorem uint16FromBytes_eq (v : Bytes) : uint16FromBytes v = Val4.u16 v := by
  unfold uint16FromBytes
  match v with
  | [] | [_] | [_, _] | _ :: _ :: _ :: _ =>
    simp [Lexer.new, Lexer.read16, Lexer.consume, Lexer.finError, Val4.u16, beNat]

theorem messageTypeFromBytes_eq (v : Bytes) : messageTypeFromBytes v = Val4.u8 v := by
  unfold messageTypeFromBytes
  match v with
  | [] | [_] | _ :: _ :: _ =>
    simp [Lexer.new, Lexer.read8, Lexer.consume, Lexer.finError, Val4.u8]

theorem getByte_eq (c : UInt8) (o : GOpts) :
    getByte c o = (match o.get c with
      | none => Res.err
      | some v => (match Val4.u8 v with
        | some b => Res.ok b
        | none => Res.err)) := by
  unfold getByte
  cases h : o.get c with
  | none => rfl
  | some v =>
    match v with
    | [] | [_] | _ :: _ :: _ => simp [Val4.u8]

/-! trailing NULs -/

theorem trimRightNul_eq (v : Bytes) : trimRightNul v = Val4.stripNul v := by
  induction v with
  | nil => rfl
  | cons b r ih =>
    unfold trimRightNul at ih ⊢
    rw [Val4.stripNul, ← ih, List.reverse_cons, List.dropWhile_append]
    cases h : List.dropWhile (fun x => x == 0) r.reverse with
    | nil =>
      by_cases hb : b = 0 <;> simp [hb]
    | cons x xs => simp

end Dhcp.V4

import DhcpProofs.Lemmas.V6Fix
import DhcpProofs.Lemmas.V6Build
/-
  What decoding guarantees about the SHAPE of a DHCPv6 message, at every
  nesting depth (`Dec6`), as far as the read-only observers of C03 need it:
  * an `OptionGeneric` only ever carries a code outside the `ParseOption`
    table, so an option found by a known code has that code's Go type and the
    unchecked assertions of the accessors (`opt.(*optClientID)`,
    `o.(*OptIANA)`, `o.(*OptIAAddress)`, `opt17.(*OptVendorOpts)` …) succeed;
  * relay headers carry 16-byte link and peer addresses and one of the two
    relay types, non-relay messages any other type;
  * an embedded DHCPv4 message (option 87) was accepted by the DHCPv4 decoder.
  Proved from the declarative grammar `PMsg` (`dec6 b = ok m ↔ PMsg b m`, C05)
  by recursion on the derivation; no side condition (unlike `WFMsg`, which
  needs `FitsLen` for embedded DHCPv4 messages).
-/
namespace Dhcp.V6
open Dhcp Dhcp.Spec

mutual
/-- shape of one decoded option -/
def DecOpt : Opt6 → Prop
  | .generic c _ => c ∉ knownCodes
  | .dhcpv4Msg p => ∃ v, V4.dec4 v = .ok p
  | .relayMsg m => DecMsg m
  | .iana _ _ _ os => DecOpts os
  | .iata _ os => DecOpts os
  | .iaaddr _ _ _ os => DecOpts os
  | .iapd _ _ _ os => DecOpts os
  | .iaprefix _ _ _ os => DecOpts os
  | .fourRD os => DecOpts os
  | _ => True
def DecOpts : List Opt6 → Prop
  | [] => True
  | o :: os => DecOpt o ∧ DecOpts os
/-- shape of a decoded message -/
def DecMsg : Msg6 → Prop
  | .msg t _ os => isRelayType t = false ∧ DecOpts os
  | .relay t _ link peer os => isRelayType t = true ∧ IP16 link ∧ IP16 peer ∧ DecOpts os
end

theorem DecOpts.mem {os : List Opt6} (h : DecOpts os) {o : Opt6} (ho : o ∈ os) : DecOpt o := by
  induction os with
  | nil => cases ho
  | cons x xs ih =>
    simp only [DecOpts] at h
    rcases List.mem_cons.mp ho with rfl | hm
    · exact h.1
    · exact ih h.2 hm

/-- a leaf option (decoded by `decSimple`) is never a container and is generic
only for a code outside the table -/
theorem decOpt_of_leaf {c : Nat} {v : Bytes} {o : Opt6} (hc : c < 65536) (hcc : c ∉ containerCodes)
    (h : decSimple c v = .ok o) : DecOpt o := by
  rcases leaf_inv c v o hc hcc h with ⟨hw, _, hs, hn4⟩ | ⟨p, rfl, hp⟩
  · cases o <;> simp only [DecOpt] <;> first | trivial | (simp [isSimple] at hs; done) | skip
    · exact absurd rfl (hn4 _)
    · simp only [WFOpt] at hw
      exact hw.2
  · simp only [DecOpt]; exact ⟨v, hp⟩

mutual
theorem decOpt_of_POpt : {c : Nat} → {v : Bytes} → {o : Opt6} → POpt c v o → c < 65536 → DecOpt o
  | _, _, _, .leaf hcc hd, hc => decOpt_of_leaf hc hcc hd
  | _, _, _, .clientID _, _ => by simp only [DecOpt]
  | _, _, _, .serverID _, _ => by simp only [DecOpt]
  | _, _, _, .iana _ _ _ hs, _ => by simp only [DecOpt]; exact decOpts_of_POpts hs
  | _, _, _, .iata _ hs, _ => by simp only [DecOpt]; exact decOpts_of_POpts hs
  | _, _, _, .iaaddr _ _ _ hs, _ => by simp only [DecOpt]; exact decOpts_of_POpts hs
  | _, _, _, .relayMsg hm, _ => by simp only [DecOpt]; exact decMsg_of_PMsg hm
  | _, _, _, .iapd _ _ _ hs, _ => by simp only [DecOpt]; exact decOpts_of_POpts hs
  | _, _, _, .iaprefix _ _ _ _ hs, _ => by simp only [DecOpt]; exact decOpts_of_POpts hs
  | _, _, _, .fourRD hs, _ => by simp only [DecOpt]; exact decOpts_of_POpts hs
theorem decOpts_of_POpts : {d : Bytes} → {os : List Opt6} → POpts d os → DecOpts os
  | _, _, .nil => by simp only [DecOpts]
  | _, _, .cons hc _ hp hs => by
    simp only [DecOpts]
    exact ⟨decOpt_of_POpt hp hc, decOpts_of_POpts hs⟩
theorem decMsg_of_PMsg : {b : Bytes} → {m : Msg6} → PMsg b m → DecMsg m
  | _, _, .msg ht _ hs => by simp only [DecMsg]; exact ⟨ht, decOpts_of_POpts hs⟩
  | _, _, .relay (link := link) (peer := peer) ht h1 h2 hs => by
    simp only [DecMsg]
    exact ⟨ht, ⟨link, rfl, h1⟩, ⟨peer, rfl, h2⟩, decOpts_of_POpts hs⟩
end

/-- **every decoded message has the decoded shape, at every depth** -/
theorem decMsg_of_dec6 {b : Bytes} {m : Msg6} (h : dec6 b = .ok m) : DecMsg m :=
  decMsg_of_PMsg ((dec6_iff b m).mp h)

theorem DecMsg.opts {m : Msg6} (h : DecMsg m) : DecOpts m.opts := by
  cases m with
  | msg t x os => exact h.2
  | relay t hc l p os => exact h.2.2.2

/-! ### consequences for lookups by code -/

/-- an option of a decoded list that is found under a code of the table is not generic -/
theorem DecOpt.not_generic {o : Opt6} (h : DecOpt o) (hk : o.code ∈ knownCodes) : ∀ c d, o ≠ .generic c d := by
  intro c d he
  subst he
  simp only [DecOpt] at h
  exact h hk

/-- the relay-message option of a decoded relay level is itself decoded -/
theorem DecOpts.relayMessageOf {os : List Opt6} (h : DecOpts os) {m : Msg6}
    (hm : relayMessageOf os = some m) : DecMsg m := by
  have := h.mem (relayMessageOf_mem hm)
  simpa only [DecOpt] using this

/-- `MessageOptions.ClientID()` on decoded options: the assertion holds -/
theorem DecOpts.clientIDOf {os : List Opt6} (h : DecOpts os) : clientIDOf os ≠ .panic := by
  unfold V6.clientIDOf
  cases hg : getOne ocClientID os with
  | none => simp
  | some o =>
    have hc := getOne_code hg
    have hd := h.mem (getOne_mem hg)
    cases o <;> simp only [Opt6.code, ocClientID] at hc <;> try (simp; done)
    all_goals first
      | omega
      | (subst hc; exact absurd rfl (hd.not_generic (by simp [Opt6.code, knownCodes]) _ _))

end Dhcp.V6

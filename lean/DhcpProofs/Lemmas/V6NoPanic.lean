import Dhcp.V6.Codec
import DhcpProofs.Lemmas.LabelNoPanic
import DhcpProofs.Lemmas.V4Parse
/-
  Panic-freedom of the DHCPv6 decoder model (C03): every helper decoder returns
  `ok`/`err` only, given that the label decoder and the DHCPv4 decoder never
  return `panic`; the mutually recursive `parseOpt`/`decOptsF`/`decMsgF` by
  induction on the fuel.
-/
namespace Dhcp.V6
open Dhcp

theorem map_ne_panic {α β} (f : α → β) {r : Res α} (h : r ≠ .panic) : r.map f ≠ .panic := by
  cases r <;> simp_all [Res.map, Res.bind]

theorem fin_ne_panic {α} (l : Lexer) (a : α) : fin l a ≠ .panic := by
  unfold fin; split <;> simp

theorem tlvLoop_ne_panic {α} (parse : Nat → Bytes → Res α) (hp : ∀ c d, parse c d ≠ .panic) :
    ∀ (fuel : Nat) (l : Lexer) (acc : List α), tlvLoop parse fuel l acc ≠ .panic := by
  intro fuel
  induction fuel with
  | zero => intro l acc; simp [tlvLoop]
  | succ fuel ih =>
    intro l acc
    unfold tlvLoop
    simp only []
    split
    · split
      · exact ih _ _
      · simp
      · rename_i h; exact absurd h (hp _ _)
    · split <;> simp

theorem optionsFromBytes_ne_panic {α} (parse : Nat → Bytes → Res α) (hp : ∀ c d, parse c d ≠ .panic)
    (data : Bytes) : optionsFromBytes parse data ≠ .panic := by
  unfold optionsFromBytes
  split
  · simp
  · exact tlvLoop_ne_panic parse hp _ _ _

theorem decDUID_ne_panic (data : Bytes) : decDUID data ≠ .panic := by
  unfold decDUID
  simp only []
  repeat' split
  all_goals first | exact fin_ne_panic _ _ | simp

theorem parseNTPSub_ne_panic (code : Nat) (data : Bytes) : parseNTPSub code data ≠ .panic := by
  unfold parseNTPSub
  have hl := Label.fromBytes_ne_panic data
  repeat' split
  all_goals first | exact fin_ne_panic _ _ | simp_all

theorem decIA_ne_panic (mk : Bytes → Dur → Dur → List Opt6 → Opt6) (decOpts : Bytes → Res (List Opt6))
    (h : ∀ d, decOpts d ≠ .panic) (data : Bytes) : decIA mk decOpts data ≠ .panic := by
  unfold decIA
  simp only []
  split
  · exact fin_ne_panic _ _
  · simp
  · rename_i hp; exact absurd hp (h _)

theorem decIATA_ne_panic (decOpts : Bytes → Res (List Opt6))
    (h : ∀ d, decOpts d ≠ .panic) (data : Bytes) : decIATA decOpts data ≠ .panic := by
  unfold decIATA
  simp only []
  split
  · exact fin_ne_panic _ _
  · simp
  · rename_i hp; exact absurd hp (h _)

theorem decIAAddr_ne_panic (decOpts : Bytes → Res (List Opt6))
    (h : ∀ d, decOpts d ≠ .panic) (data : Bytes) : decIAAddr decOpts data ≠ .panic := by
  unfold decIAAddr
  simp only []
  split
  · exact fin_ne_panic _ _
  · simp
  · rename_i hp; exact absurd hp (h _)

theorem decIAPrefix_ne_panic (decOpts : Bytes → Res (List Opt6))
    (h : ∀ d, decOpts d ≠ .panic) (data : Bytes) : decIAPrefix decOpts data ≠ .panic := by
  unfold decIAPrefix
  simp only []
  split
  · simp
  · split
    · exact fin_ne_panic _ _
    · simp
    · rename_i hp; exact absurd hp (h _)

theorem ite_ne_panic {α} {c : Prop} [Decidable c] {a b : Res α} (ha : a ≠ .panic) (hb : b ≠ .panic) :
    (if c then a else b) ≠ .panic := by split <;> assumption

/- The `if code = …` chain is peeled branch by branch (`split`/`simp` on the whole
   definition exceed their step limits); each branch is a `fin`, a constant, or a
   `match` on a sub-decoder that does not panic. -/
theorem decSimple_ne_panic (code : Nat) (data : Bytes) : decSimple code data ≠ .panic := by
  have hv : ∀ d, optionsFromBytes (fun c d => Res.ok (c, d)) d ≠ .panic :=
    optionsFromBytes_ne_panic (fun c d => Res.ok (c, d)) (by intro c d; simp)
  have hn : ∀ d, optionsFromBytes parseNTPSub d ≠ .panic :=
    optionsFromBytes_ne_panic parseNTPSub parseNTPSub_ne_panic
  unfold decSimple
  have hl := Label.fromBytes_ne_panic
  have h4 := V4.dec4_ne_panic data
  extract_lets l
  clear_value l
  refine ite_ne_panic (fin_ne_panic _ _) ?_   -- 6
  refine ite_ne_panic (fin_ne_panic _ _) ?_   -- 8
  refine ite_ne_panic (fin_ne_panic _ _) ?_   -- 13
  refine ite_ne_panic (ite_ne_panic (by simp) (fin_ne_panic _ _)) ?_   -- 15
  refine ite_ne_panic (ite_ne_panic (by simp) (fin_ne_panic _ _)) ?_   -- 16
  refine ite_ne_panic ?_ ?_   -- 17
  · repeat' split
    · exact fin_ne_panic _ _
    · simp
    · rename_i hp; exact absurd hp (hv _)
  refine ite_ne_panic (by simp) ?_   -- 18
  refine ite_ne_panic (fin_ne_panic _ _) ?_   -- 23
  refine ite_ne_panic ?_ ?_   -- 24
  · split
    · simp
    · simp
    · rename_i hp; exact absurd hp (hl _)
  refine ite_ne_panic (fin_ne_panic _ _) ?_   -- 32
  refine ite_ne_panic (fin_ne_panic _ _) ?_   -- 37
  refine ite_ne_panic ?_ ?_   -- 39
  · repeat' split
    · exact fin_ne_panic _ _
    · simp
    · rename_i hp; exact absurd hp (hl _)
  refine ite_ne_panic ?_ ?_   -- 56
  · split
    · simp
    · simp
    · rename_i hp; exact absurd hp (hn _)
  refine ite_ne_panic (by simp) ?_   -- 59
  refine ite_ne_panic (fin_ne_panic _ _) ?_   -- 60
  refine ite_ne_panic (ite_ne_panic (by simp) (fin_ne_panic _ _)) ?_   -- 61
  refine ite_ne_panic (fin_ne_panic _ _) ?_   -- 62
  refine ite_ne_panic (fin_ne_panic _ _) ?_   -- 79
  refine ite_ne_panic ?_ ?_   -- 87
  · split
    · simp
    · simp
    · rename_i hp; exact absurd hp (h4)
  refine ite_ne_panic (fin_ne_panic _ _) ?_   -- 88
  refine ite_ne_panic (ite_ne_panic (by simp) (fin_ne_panic _ _)) ?_   -- 98
  refine ite_ne_panic (fin_ne_panic _ _) ?_   -- 99
  refine ite_ne_panic (fin_ne_panic _ _) ?_   -- 135
  simp

/-- all three mutually recursive decoders at once, by induction on the fuel -/
theorem dec_ne_panic : ∀ (fuel : Nat),
    (∀ c d, parseOpt fuel c d ≠ .panic) ∧ (∀ d, decOptsF fuel d ≠ .panic) ∧ (∀ d, decMsgF fuel d ≠ .panic) := by
  intro fuel
  induction fuel with
  | zero =>
    refine ⟨?_, ?_, ?_⟩
    · intro c d; simp [parseOpt]
    · intro d; simp [decOptsF]
    · intro d; simp [decMsgF]
  | succ fuel ih =>
    obtain ⟨ihP, ihO, ihM⟩ := ih
    refine ⟨?_, ?_, ?_⟩
    · intro c d
      unfold parseOpt
      refine ite_ne_panic (map_ne_panic _ (decDUID_ne_panic _)) ?_
      refine ite_ne_panic (map_ne_panic _ (decDUID_ne_panic _)) ?_
      refine ite_ne_panic (decIA_ne_panic _ _ (fun d => ihO d) _) ?_
      refine ite_ne_panic (decIATA_ne_panic _ (fun d => ihO d) _) ?_
      refine ite_ne_panic (decIAAddr_ne_panic _ (fun d => ihO d) _) ?_
      refine ite_ne_panic (map_ne_panic _ (ihM _)) ?_
      refine ite_ne_panic (decIA_ne_panic _ _ (fun d => ihO d) _) ?_
      refine ite_ne_panic (decIAPrefix_ne_panic _ (fun d => ihO d) _) ?_
      refine ite_ne_panic (map_ne_panic _ (ihO _)) ?_
      exact decSimple_ne_panic _ _
    · intro d
      unfold decOptsF
      exact optionsFromBytes_ne_panic _ (fun c d => ihP c d) _
    · intro d
      unfold decMsgF
      simp only []
      refine ite_ne_panic (by simp) ?_
      refine ite_ne_panic ?_ ?_
      · exact ite_ne_panic (by simp) (map_ne_panic _ (ihO _))
      · exact ite_ne_panic (by simp) (map_ne_panic _ (ihO _))

theorem dec6_ne_panic (b : Bytes) : dec6 b ≠ .panic := (dec_ne_panic _).2.2 b
theorem parseOption_ne_panic (code : Nat) (b : Bytes) : parseOption code b ≠ .panic := (dec_ne_panic _).1 code b
theorem decOpts_ne_panic (b : Bytes) : decOpts b ≠ .panic := (dec_ne_panic _).2.1 b

theorem decMessage_ne_panic (b : Bytes) : decMessage b ≠ .panic := by
  unfold decMessage
  have h := dec6_ne_panic b
  split <;> simp_all

theorem decRelay_ne_panic (b : Bytes) : decRelay b ≠ .panic := by
  unfold decRelay
  have h := dec6_ne_panic b
  split <;> simp_all

end Dhcp.V6

import Dhcp.Cost
import DhcpProofs.Lemmas.Basic
import DhcpProofs.Lemmas.LabelSize
import DhcpProofs.Lemmas.Cost4
/-
  C09 for DHCPv6: retained size and nesting depth of a decoded value against
  the length of the input, for every option type and arbitrary nesting.
  Generic in the label bound (`LabelBound P K`) so that the same proof gives
  the general constant (compression pointers allowed) and the tight one
  (inputs on which no pointer can be read).
-/
namespace Dhcp.Cost
open Dhcp Dhcp.V6

/-! ### Lexer: every operation leaves a suffix of the buffer -/

/-- `l'` reads a suffix of what `l` reads -/
def Sub (l' l : Lexer) : Prop := ∃ k, l'.data = l.data.drop k

theorem Sub.refl (l : Lexer) : Sub l l := ⟨0, by simp⟩
theorem Sub.trans {a b c : Lexer} (h1 : Sub a b) (h2 : Sub b c) : Sub a c := by
  obtain ⟨k1, e1⟩ := h1; obtain ⟨k2, e2⟩ := h2
  exact ⟨k2 + k1, by rw [e1, e2, List.drop_drop]⟩
theorem Sub.len {a b : Lexer} (h : Sub a b) : a.data.length ≤ b.data.length := by
  obtain ⟨k, e⟩ := h; rw [e]; simp
theorem Sub.new_len {a : Lexer} {d : Bytes} (h : Sub a (Lexer.new d)) : a.data.length ≤ d.length := h.len

theorem consume_sub (l : Lexer) (n : Nat) : Sub (l.consume n).2 l := by
  unfold Lexer.consume; split
  · exact ⟨n, rfl⟩
  · exact ⟨0, by simp⟩

theorem consume_spec (l : Lexer) (n : Nat) :
    ((l.consume n).1.getD []).length ≤ n ∧
    ((l.consume n).1.getD []).length + (l.consume n).2.data.length ≤ l.data.length ∧
      (l.consume n).1.getD [] = l.data.take ((l.consume n).1.getD []).length := by
  unfold Lexer.consume; split
  · rename_i hn
    refine ⟨by simp [List.length_take]; omega, by simp [List.length_take]; omega, ?_⟩
    simp [List.length_take, Nat.min_eq_left hn]
  · exact ⟨by simp, by simp, by simp⟩

theorem read8_sub (l : Lexer) : Sub l.read8.2 l := by
  have := consume_sub l 1
  unfold Lexer.read8
  split <;> simp_all

theorem read16_sub (l : Lexer) : Sub l.read16.2 l := by
  have := consume_sub l 2
  unfold Lexer.read16
  split <;> simp_all

theorem read32_sub (l : Lexer) : Sub l.read32.2 l := by
  have := consume_sub l 4
  unfold Lexer.read32
  split <;> simp_all

theorem decDur_sub (l : Lexer) : Sub (decDur l).2 l := by
  unfold decDur; exact read32_sub l

theorem copyN_sub (l : Lexer) (n : Nat) : Sub (l.copyN n).2 l := consume_sub l n

theorem copyN_sz (l : Lexer) (n : Nat) : szIP (l.copyN n).1 ≤ n := (consume_spec l n).1

theorem readBytes_sub (l : Lexer) (n : Nat) : Sub (l.readBytes n).2 l := by
  have := consume_sub l n
  unfold Lexer.readBytes
  split <;> simp_all

theorem readBytes_len (l : Lexer) (n : Nat) : (l.readBytes n).1.length ≤ n := by
  have := consume_spec l n
  unfold Lexer.readBytes
  split
  · rename_i bs l2 heq; rw [heq] at this; simpa using this.1
  · simp

@[simp] theorem readAll_fst (l : Lexer) : l.readAll.1 = l.data := rfl

theorem fin_ok {α : Type} {l : Lexer} {a o : α} (h : fin l a = .ok o) : o = a := by
  unfold fin at h; split at h
  · cases h
  · injection h with h; exact h.symm

theorem read16_has (l : Lexer) (h2 : 2 ≤ l.data.length) : l.read16.2.data = l.data.drop 2 := by
  unfold Lexer.read16 Lexer.consume
  simp only [h2, if_true]

/-- discharge `Sub (chain of lexer operations applied to l) l` -/
macro "sub_tac" : tactic =>
  `(tactic| repeat (first
      | exact Sub.refl _
      | apply Sub.trans (read8_sub _)
      | apply Sub.trans (read16_sub _)
      | apply Sub.trans (read32_sub _)
      | apply Sub.trans (decDur_sub _)
      | apply Sub.trans (copyN_sub _ _)
      | apply Sub.trans (readBytes_sub _ _)
      | apply Sub.trans (consume_sub _ _)))

/-! ### the predicate carried to the label decoder -/

/-- a property of buffers inherited by every sub-buffer a decoder hands on -/
structure Closed (P : Bytes → Prop) : Prop where
  take : ∀ (b : Bytes) (n : Nat), P b → P (b.take n)
  drop : ∀ (b : Bytes) (n : Nat), P b → P (b.drop n)
  nil : P []

theorem Sub.pres {P : Bytes → Prop} (hc : Closed P) {a b : Lexer} (h : Sub a b) (hb : P b.data) :
    P a.data := by
  obtain ⟨k, e⟩ := h; rw [e]; exact hc.drop _ _ hb

/-- the label decoder retains at most `K` bytes per input byte (+ one node) on buffers satisfying `P` -/
def LabelBound (P : Bytes → Prop) (K : Nat) : Prop :=
  ∀ buf, P buf → ∀ l, Label.fromBytes buf = .ok l → sizeLabels l ≤ K * buf.length + nodeC

/-! ### the generic option loop -/

/-- **Loop progress.** One iteration of `Options.FromBytesWithParser` consumes
the 4-byte header plus the value — and still the 4 header bytes when the value
overruns the buffer (the sticky error does not stop the loop). Stated as: the
options produced from `l` cost at most `K` per byte of `l` when each option
costs at most `K` per byte of its value plus `4K`; there are at most
`|l|/4` of them. -/
theorem tlvLoop_bound {α : Type} (parse : Nat → Bytes → Res α) {P : Bytes → Prop} (hc : Closed P)
    (sz dp : α → Nat) (K : Nat)
    (hp : ∀ code d o, P d → parse code d = .ok o → sz o ≤ K * (d.length + 4) ∧ 4 * dp o ≤ d.length + 4) :
    ∀ (fuel : Nat) (l : Lexer) (acc os : List α), P l.data → tlvLoop parse fuel l acc = .ok os →
      ∃ new, os = acc ++ new ∧ (new.map sz).sum ≤ K * l.data.length ∧
        (∀ o ∈ new, 4 * dp o ≤ l.data.length) ∧ 4 * new.length ≤ l.data.length := by
  intro fuel
  induction fuel with
  | zero => intro l acc os _ h; simp [tlvLoop] at h
  | succ fuel ih =>
    intro l acc os hP h
    unfold tlvLoop at h
    by_cases h4 : l.has 4 = true
    · simp only [h4, if_true] at h
      have h4' : 4 ≤ l.data.length := by simpa [Lexer.has] using h4
      have d1 := read16_has l (by omega)
      have d2 := read16_has l.read16.2 (by rw [d1]; simp; omega)
      generalize l.read16.2.read16.2 = l2 at *
      generalize l.read16.2.read16.1 = len at *
      generalize l.read16.1 = code at *
      have hl2 : l2.data.length + 4 = l.data.length := by rw [d2, d1]; simp; omega
      have c3 := consume_spec l2 len
      have s3 := consume_sub l2 len
      generalize (l2.consume len).1 = od at *
      generalize (l2.consume len).2 = l3 at *
      have hP2 : P l2.data := by rw [d2, d1]; exact hc.drop _ _ (hc.drop _ _ hP)
      have hPod : P (od.getD []) := by rw [c3.2.2]; exact hc.take _ _ hP2
      split at h
      · rename_i o eo
        obtain ⟨ho1, ho2⟩ := hp code (od.getD []) o hPod eo
        obtain ⟨new, hn1, hn2, hn3, hn4⟩ := ih l3 (acc ++ [o]) os (s3.pres hc hP2) h
        refine ⟨o :: new, by simp [hn1], ?_, ?_, ?_⟩
        · simp only [List.map_cons, List.sum_cons]
          have : K * (List.length (od.getD []) + 4) + K * l3.data.length ≤ K * l.data.length := by
            rw [← Nat.mul_add]; apply Nat.mul_le_mul_left; omega
          omega
        · intro o' ho'
          rcases List.mem_cons.mp ho' with rfl | hm
          · omega
          · have := hn3 o' hm; omega
        · simp only [List.length_cons]; omega
      · cases h
      · cases h
    · simp only [Bool.not_eq_true] at h4
      simp only [h4, Bool.false_eq_true, if_false] at h
      split at h
      · cases h
      · injection h with h; subst h
        exact ⟨[], by simp, by simp, by simp, by simp⟩


/-! ### item loops -/

theorem szIPs_append (xs ys : List (Option Bytes)) : szIPs (xs ++ ys) = szIPs xs + szIPs ys := by
  induction xs with
  | nil => simp [szIPs]
  | cons x xs ih => simp only [List.cons_append, szIPs, ih]; omega

/-- every item costs its 2-byte length prefix -/
theorem lenPrefLoop_bound : ∀ (fuel : Nat) (l : Lexer) (acc : List Bytes),
    szItems (lenPrefLoop fuel l acc).1 ≤ szItems acc + 16 * l.data.length ∧
      Sub (lenPrefLoop fuel l acc).2 l := by
  intro fuel
  induction fuel with
  | zero => intro l acc; simp only [lenPrefLoop]; exact ⟨by omega, Sub.refl _⟩
  | succ fuel ih =>
    intro l acc
    unfold lenPrefLoop
    by_cases h2 : l.has 2 = true
    · simp only [h2, if_true]
      have h2' : 2 ≤ l.data.length := by simpa [Lexer.has] using h2
      have d1 := read16_has l h2'
      have s1 := read16_sub l
      generalize l.read16.2 = l1 at *
      generalize l.read16.1 = n at *
      have c := consume_spec l1 n
      have s2 := consume_sub l1 n
      simp only [Lexer.copyN]
      generalize (l1.consume n).1 = v at *
      generalize (l1.consume n).2 = l2 at *
      obtain ⟨i1, i2⟩ := ih l2 (acc ++ [v.getD []])
      refine ⟨?_, i2.trans (s2.trans s1)⟩
      rw [szItems_append] at i1
      simp only [szItems, nodeC] at i1
      have : l1.data.length + 2 = l.data.length := by rw [d1]; simp; omega
      omega
    · simp only [Bool.not_eq_true] at h2
      simp only [h2, Bool.false_eq_true, if_false]
      exact ⟨by omega, Sub.refl _⟩

theorem u16Loop_bound : ∀ (fuel : Nat) (l : Lexer) (acc : List Nat),
    2 * (u16Loop fuel l acc).1.length ≤ 2 * acc.length + l.data.length := by
  intro fuel
  induction fuel with
  | zero => intro l acc; simp only [u16Loop]; omega
  | succ fuel ih =>
    intro l acc
    unfold u16Loop
    by_cases h2 : l.has 2 = true
    · simp only [h2, if_true]
      have h2' : 2 ≤ l.data.length := by simpa [Lexer.has] using h2
      have d1 := read16_has l h2'
      have i1 := ih l.read16.2 (acc ++ [l.read16.1])
      rw [d1] at i1
      simp only [List.length_append, List.length_cons, List.length_nil, List.length_drop] at i1
      omega
    · simp only [Bool.not_eq_true] at h2
      simp only [h2, Bool.false_eq_true, if_false]
      omega

theorem ip16Loop_bound : ∀ (fuel : Nat) (l : Lexer) (acc : List IP),
    szIPs (ip16Loop fuel l acc).1 ≤ szIPs acc + 3 * l.data.length := by
  intro fuel
  induction fuel with
  | zero => intro l acc; simp only [ip16Loop]; omega
  | succ fuel ih =>
    intro l acc
    unfold ip16Loop
    by_cases h2 : l.has 16 = true
    · simp only [h2, if_true]
      have h2' : 16 ≤ l.data.length := by simpa [Lexer.has] using h2
      have c := consume_spec l 16
      have hd : (l.copyN 16).2.data = l.data.drop 16 := by
        simp [Lexer.copyN, Lexer.consume, h2']
      have hz := copyN_sz l 16
      have i1 := ih (l.copyN 16).2 (acc ++ [(l.copyN 16).1])
      rw [szIPs_append, hd] at i1
      simp only [szIPs, nodeC, List.length_drop] at i1
      omega
    · simp only [Bool.not_eq_true] at h2
      simp only [h2, Bool.false_eq_true, if_false]
      omega

theorem dedup_length : ∀ (cs acc : List Nat), (dedup acc cs).length ≤ acc.length + cs.length := by
  intro cs
  induction cs with
  | nil => intro acc; simp [dedup]
  | cons c cs ih =>
    intro acc
    unfold dedup
    split
    · have := ih acc; simp only [List.length_cons]; omega
    · have := ih (acc ++ [c]); simp only [List.length_append, List.length_cons, List.length_nil] at this ⊢; omega


/-! ### leaf parsers -/

-- keep the unifier from unfolding lexer operations while `sub_tac` tries its alternatives
attribute [local irreducible] Lexer.read8 Lexer.read16 Lexer.read32 Lexer.read64 Lexer.consume
  Lexer.copyN Lexer.readBytes decDur

theorem decDUID_bound {data : Bytes} {d : DUID} (h : decDUID data = .ok d) :
    sizeDUID d ≤ nodeC + data.length := by
  simp only [decDUID] at h
  split at h
  · cases h
  · have s1 : Sub (Lexer.new data).read16.2 (Lexer.new data) := by sub_tac
    split at h
    · cases h
    split at h
    · have := fin_ok h; subst this
      simp only [sizeDUID, readAll_fst]
      have : Sub (Lexer.new data).read16.2.read16.2.read32.2 (Lexer.new data) := by sub_tac
      have := this.new_len; omega
    · split at h
      · have := fin_ok h; subst this
        simp only [sizeDUID, readAll_fst]
        have : Sub (Lexer.new data).read16.2.read16.2 (Lexer.new data) := by sub_tac
        have := this.new_len; omega
      · split at h
        · have := fin_ok h; subst this
          simp only [sizeDUID, readAll_fst]
          have : Sub (Lexer.new data).read16.2.read32.2 (Lexer.new data) := by sub_tac
          have := this.new_len; omega
        · split at h
          · split at h
            · cases h
            · injection h with h; subst h
              simp only [sizeDUID]; have := s1.new_len; omega
          · injection h with h; subst h
            simp only [sizeDUID]; have := s1.new_len; omega

theorem le_mul_of_one_le {K : Nat} (hK : 1 ≤ K) (n : Nat) : n ≤ K * n := by
  have := Nat.mul_le_mul_right n hK; omega

theorem parseNTPSub_bound {P : Bytes → Prop} {K : Nat} (hK : 1 ≤ K) (hL : LabelBound P K) {code : Nat} {data : Bytes}
    {s : NTPSub} (hP : P data) (h : parseNTPSub code data = .ok s) :
    sizeNTPSub s ≤ K * data.length + 2 * nodeC := by
  simp only [parseNTPSub] at h
  split at h
  · have := fin_ok h; subst this
    have := copyN_sz (Lexer.new data) 16
    simp only [sizeNTPSub, nodeC]; omega
  · split at h
    · have := fin_ok h; subst this
      have := copyN_sz (Lexer.new data) 16
      simp only [sizeNTPSub, nodeC]; omega
    · split at h
      · split at h
        · rename_i lb hlb
          split at h
          · cases h
          · injection h with h; subst h
            have := hL data hP lb hlb
            simp only [sizeNTPSub]; omega
        · cases h
        · cases h
      · injection h with h; subst h
        simp only [sizeNTPSub]
        have := le_mul_of_one_le hK data.length
        omega


theorem optionsFromBytes_bound {α : Type} (parse : Nat → Bytes → Res α) {P : Bytes → Prop} (hc : Closed P)
    (sz dp : α → Nat) (K : Nat)
    (hp : ∀ code d o, P d → parse code d = .ok o → sz o ≤ K * (d.length + 4) ∧ 4 * dp o ≤ d.length + 4)
    {data : Bytes} {os : List α} (hP : P data) (h : optionsFromBytes parse data = .ok os) :
    (os.map sz).sum ≤ K * data.length ∧ (∀ o ∈ os, 4 * dp o ≤ data.length) ∧
      4 * os.length ≤ data.length := by
  unfold optionsFromBytes at h
  split at h
  · injection h with h; subst h; simp
  · obtain ⟨new, h1, h2, h3, h4⟩ := tlvLoop_bound parse hc sz dp K hp _ (Lexer.new data) [] os hP h
    simp only [List.nil_append] at h1; subst h1
    exact ⟨h2, h3, h4⟩

theorem szVend_eq (os : List (Nat × Bytes)) : szVend os = (os.map (fun o => nodeC + o.2.length)).sum := by
  induction os with
  | nil => rfl
  | cons o os ih => simp only [szVend, List.map_cons, List.sum_cons, ih]

theorem sizeNTPSubs_eq (ss : List NTPSub) : sizeNTPSubs ss = (ss.map sizeNTPSub).sum := by
  induction ss with
  | nil => rfl
  | cons o os ih => simp only [sizeNTPSubs, List.map_cons, List.sum_cons, ih]

theorem closedTrue : Closed (fun _ => True) := ⟨fun _ _ _ => trivial, fun _ _ _ => trivial, trivial⟩

set_option linter.unusedSimpArgs false in
set_option maxHeartbeats 400000 in
theorem decSimple_bound {P : Bytes → Prop} {K : Nat} (hc : Closed P) (hK : 24 ≤ K) (hL : LabelBound P K)
    (h4 : ∀ b p, V4.dec4 b = .ok p → size4 p ≤ 16 * b.length)
    {code : Nat} {data : Bytes} {o : Opt6} (hP : P data) (h : decSimple code data = .ok o) :
    sizeOpt o ≤ K * (data.length + 4) ∧ 4 * depthOpt o ≤ data.length + 4 := by
  have hX : 16 * data.length ≤ K * data.length := Nat.mul_le_mul_right _ (by omega)
  rw [Nat.mul_add]
  have f1 := u16Loop_bound (data.length + 1) (Lexer.new data) []
  have f2 := (lenPrefLoop_bound (data.length + 1) (Lexer.new data) []).1
  have f3 := (lenPrefLoop_bound (data.length + 1) (Lexer.new data).read32.2 []).1
  have f4 := ip16Loop_bound (data.length + 1) (Lexer.new data) []
  have f5 := dedup_length (u16Loop (data.length + 1) (Lexer.new data) []).1 []
  have s16 := (read16_sub (Lexer.new data)).new_len
  have s32 := (read32_sub (Lexer.new data)).new_len
  have s8 := (read8_sub (Lexer.new data)).new_len
  have hnew : (Lexer.new data).data = data := rfl
  have hl1 := hL data hP
  have hl2 := hL (Lexer.new data).read8.2.data ((read8_sub (Lexer.new data)).pres hc hP)
  have hX8 : K * (Lexer.new data).read8.2.data.length ≤ K * data.length := Nat.mul_le_mul_left _ s8
  have hv := h4 data
  have c4 := copyN_sz (Lexer.new data).read8.2.read8.2.read8.2.read8.2 4
  have c16 := copyN_sz ((Lexer.new data).read8.2.read8.2.read8.2.read8.2.copyN 4).2 16
  simp only [szItems, szIPs, List.length_nil, hnew, nodeC] at f1 f2 f3 f4 f5 hl1 hl2
  have hcases : code = 6 ∨ code = 8 ∨ code = 13 ∨ code = 15 ∨ code = 16 ∨ code = 17 ∨ code = 18 ∨ code = 23 ∨ code = 24 ∨ code = 32 ∨ code = 37 ∨ code = 39 ∨ code = 56 ∨ code = 59 ∨ code = 60 ∨ code = 61 ∨ code = 62 ∨ code = 79 ∨ code = 87 ∨ code = 88 ∨ code = 98 ∨ code = 99 ∨ code = 135 ∨
      (code ≠ 6 ∧ code ≠ 8 ∧ code ≠ 13 ∧ code ≠ 15 ∧ code ≠ 16 ∧ code ≠ 17 ∧ code ≠ 18 ∧ code ≠ 23 ∧ code ≠ 24 ∧ code ≠ 32 ∧ code ≠ 37 ∧ code ≠ 39 ∧ code ≠ 56 ∧ code ≠ 59 ∧ code ≠ 60 ∧ code ≠ 61 ∧ code ≠ 62 ∧ code ≠ 79 ∧ code ≠ 87 ∧ code ≠ 88 ∧ code ≠ 98 ∧ code ≠ 99 ∧ code ≠ 135) := by omega
  rcases hcases with rfl | rfl | rfl | rfl | rfl | rfl | rfl | rfl | rfl | rfl | rfl | rfl | rfl | rfl | rfl | rfl | rfl | rfl | rfl | rfl | rfl | rfl | rfl | ⟨n6, n8, n13, n15, n16, n17, n18, n23, n24, n32, n37, n39, n56, n59, n60, n61, n62, n79, n87, n88, n98, n99, n135⟩
  case' inr.inr.inr.inr.inr.inr.inr.inr.inr.inr.inr.inr.inr.inr.inr.inr.inr.inr.inr.inr.inr.inr.inr =>
    simp only [decSimple, n6, n8, n13, n15, n16, n17, n18, n23, n24, n32, n37, n39, n56, n59, n60, n61, n62, n79, n87, n88, n98, n99, n135, ↓reduceIte] at h
  all_goals (try simp only [decSimple, Nat.reduceEqDiff, ↓reduceIte] at h)
  all_goals (repeat' split at h)
  all_goals first
    | (have e := fin_ok h; subst e
       simp only [sizeOpt, depthOpt, readAll_fst, nodeC]
       omega)
    | (injection h with e; subst e
       simp only [sizeOpt, depthOpt, readAll_fst, nodeC]
       omega)
    | (have _e := fin_ok h)
    | (have _e : ∃ x, Res.ok x = Res.ok o := ⟨_, h⟩)
    | (cases h)
  · -- vendor options: sub-options are (code, data) leaves behind a 4-byte header each
    rename_i os heq
    subst _e
    have hb := optionsFromBytes_bound (fun c d => Res.ok (c, d)) closedTrue
      (fun o : Nat × Bytes => nodeC + o.2.length) (fun _ => 0) 8
      (by intro c d o _ ho; injection ho with ho; subst ho; simp only [nodeC]; omega) trivial heq
    simp only [readAll_fst] at hb
    simp only [sizeOpt, depthOpt, szVend_eq, nodeC] at hb ⊢
    omega
  · rename_i lb heq
    injection h with e; subst e
    have := hl1 _ heq
    simp only [sizeOpt, depthOpt, nodeC]; omega
  · rename_i lb heq
    subst _e
    have := hl2 _ heq
    simp only [sizeOpt, depthOpt, nodeC]; omega
  · rename_i subs heq
    injection h with e; subst e
    have hb := optionsFromBytes_bound parseNTPSub hc sizeNTPSub (fun _ => 0) K
      (by
        intro c d s hPd hs
        have := parseNTPSub_bound (by omega) hL hPd hs
        rw [Nat.mul_add]; simp only [nodeC] at this; omega) hP heq
    simp only [sizeOpt, depthOpt, sizeNTPSubs_eq, nodeC]; omega
  · rename_i p heq
    injection h with e; subst e
    have := hv _ heq
    simp only [sizeOpt, depthOpt, nodeC]; omega

/-! ### options that carry an option list -/

/-- what the induction hypothesis says about a nested `Options.FromBytes` -/
def DecOK (P : Bytes → Prop) (K : Nat) (dec : Bytes → Res (List Opt6)) : Prop :=
  ∀ d os, P d → dec d = .ok os → sizeOpts os ≤ K * d.length ∧ 4 * depthOpts os ≤ d.length

theorem decIA_bound {P : Bytes → Prop} {K : Nat} (hc : Closed P) (hK : 24 ≤ K)
    (mk : Bytes → Dur → Dur → List Opt6 → Opt6)
    (hsz : ∀ i a b os, sizeOpt (mk i a b os) = nodeC + i.length + sizeOpts os)
    (hdp : ∀ i a b os, depthOpt (mk i a b os) = 1 + depthOpts os)
    {dec : Bytes → Res (List Opt6)} (hdec : DecOK P K dec) {data : Bytes} {o : Opt6} (hP : P data)
    (h : decIA mk dec data = .ok o) :
    sizeOpt o ≤ K * (data.length + 4) ∧ 4 * depthOpt o ≤ data.length + 4 := by
  rw [Nat.mul_add]
  simp only [decIA, readAll_fst] at h
  split at h
  · rename_i os heq
    have e := fin_ok h; subst e
    have hs : Sub (decDur (decDur ((Lexer.new data).readBytes 4).2).2).2 (Lexer.new data) := by sub_tac
    obtain ⟨h1, h2⟩ := hdec _ os (hs.pres hc hP) heq
    have hl := hs.new_len
    have hX := Nat.mul_le_mul_left K hl
    have hb := readBytes_len (Lexer.new data) 4
    rw [hsz, hdp]; simp only [nodeC]; omega
  · cases h
  · cases h

theorem decIATA_bound {P : Bytes → Prop} {K : Nat} (hc : Closed P) (hK : 24 ≤ K)
    {dec : Bytes → Res (List Opt6)} (hdec : DecOK P K dec) {data : Bytes} {o : Opt6} (hP : P data)
    (h : decIATA dec data = .ok o) :
    sizeOpt o ≤ K * (data.length + 4) ∧ 4 * depthOpt o ≤ data.length + 4 := by
  rw [Nat.mul_add]
  simp only [decIATA, readAll_fst] at h
  split at h
  · rename_i os heq
    have e := fin_ok h; subst e
    have hs : Sub ((Lexer.new data).readBytes 4).2 (Lexer.new data) := by sub_tac
    obtain ⟨h1, h2⟩ := hdec _ os (hs.pres hc hP) heq
    have hl := hs.new_len
    have hX := Nat.mul_le_mul_left K hl
    have hb := readBytes_len (Lexer.new data) 4
    simp only [sizeOpt, depthOpt, nodeC]; omega
  · cases h
  · cases h

theorem decIAAddr_bound {P : Bytes → Prop} {K : Nat} (hc : Closed P) (hK : 24 ≤ K)
    {dec : Bytes → Res (List Opt6)} (hdec : DecOK P K dec) {data : Bytes} {o : Opt6} (hP : P data)
    (h : decIAAddr dec data = .ok o) :
    sizeOpt o ≤ K * (data.length + 4) ∧ 4 * depthOpt o ≤ data.length + 4 := by
  rw [Nat.mul_add]
  simp only [decIAAddr, readAll_fst] at h
  split at h
  · rename_i os heq
    have e := fin_ok h; subst e
    have hs : Sub (decDur (decDur ((Lexer.new data).copyN 16).2).2).2 (Lexer.new data) := by sub_tac
    obtain ⟨h1, h2⟩ := hdec _ os (hs.pres hc hP) heq
    have hl := hs.new_len
    have hX := Nat.mul_le_mul_left K hl
    have hb := copyN_sz (Lexer.new data) 16
    simp only [sizeOpt, depthOpt, nodeC]; omega
  · cases h
  · cases h

theorem decIAPrefix_bound {P : Bytes → Prop} {K : Nat} (hc : Closed P) (hK : 24 ≤ K)
    {dec : Bytes → Res (List Opt6)} (hdec : DecOK P K dec) {data : Bytes} {o : Opt6} (hP : P data)
    (h : decIAPrefix dec data = .ok o) :
    sizeOpt o ≤ K * (data.length + 4) ∧ 4 * depthOpt o ≤ data.length + 4 := by
  rw [Nat.mul_add]
  simp only [decIAPrefix, readAll_fst] at h
  split at h
  · cases h
  · cases heq : dec ((decDur (decDur (Lexer.new data)).2).2.read8.2.copyN 16).2.data with
    | ok os =>
      simp only [heq] at h
      have e := fin_ok h; subst e
      have hs : Sub ((decDur (decDur (Lexer.new data)).2).2.read8.2.copyN 16).2 (Lexer.new data) := by
        sub_tac
      obtain ⟨h1, h2⟩ := hdec _ os (hs.pres hc hP) heq
      have hl := hs.new_len
      have hX := Nat.mul_le_mul_left K hl
      have hb := copyN_sz (decDur (decDur (Lexer.new data)).2).2.read8.2 16
      simp only [sizeOpt, depthOpt, nodeC]
      by_cases hz : (decDur (decDur (Lexer.new data)).2).2.read8.1 = 0
      · simp only [hz, if_true]; omega
      · simp only [hz, if_false]; omega
    | err => simp only [heq] at h; cases h
    | panic => simp only [heq] at h; cases h

/-! ### the mutual recursion -/

theorem Res.map_eq_ok {α β : Type} {r : Res α} {f : α → β} {b : β} (h : r.map f = .ok b) :
    ∃ a, r = .ok a ∧ b = f a := by
  cases r with
  | ok a => exact ⟨a, rfl, by simp [Res.map, Res.bind] at h; exact h.symm⟩
  | err => simp [Res.map, Res.bind] at h
  | panic => simp [Res.map, Res.bind] at h

theorem sizeOpts_eq (os : List Opt6) : sizeOpts os = (os.map sizeOpt).sum := by
  induction os with
  | nil => simp [sizeOpts]
  | cons o os ih => simp only [sizeOpts, List.map_cons, List.sum_cons, ih]

theorem depthOpts_le {os : List Opt6} {n : Nat} (h : ∀ o ∈ os, 4 * depthOpt o ≤ n) :
    4 * depthOpts os ≤ n := by
  induction os with
  | nil => simp [depthOpts]
  | cons o os ih =>
    have h1 := h o (by simp)
    have h2 := ih (fun o' ho' => h o' (by simp [ho']))
    simp only [depthOpts]; omega

/-- what the three mutually recursive decoders guarantee with fuel `fuel` -/
def Bounds (P : Bytes → Prop) (K : Nat) (fuel : Nat) : Prop :=
  (∀ code data o, P data → parseOpt fuel code data = .ok o →
      sizeOpt o ≤ K * (data.length + 4) ∧ 4 * depthOpt o ≤ data.length + 4) ∧
  DecOK P K (decOptsF fuel) ∧
  (∀ data m, P data → decMsgF fuel data = .ok m →
      size6 m ≤ K * data.length + 64 ∧ 4 * depth6 m ≤ data.length + 4)

theorem bounds_all {P : Bytes → Prop} {K : Nat} (hc : Closed P) (hK : 24 ≤ K) (hL : LabelBound P K)
    (h4 : ∀ b p, V4.dec4 b = .ok p → size4 p ≤ 16 * b.length) : ∀ fuel, Bounds P K fuel := by
  intro fuel
  induction fuel with
  | zero =>
    refine ⟨?_, ?_, ?_⟩
    · intro code data o _ h; simp [parseOpt] at h
    · intro d os _ h; simp [decOptsF] at h
    · intro data m _ h; simp [decMsgF] at h
  | succ fuel ih =>
    obtain ⟨ihO, ihL, ihM⟩ := ih
    refine ⟨?_, ?_, ?_⟩
    · intro code data o hP h
      unfold parseOpt at h
      split at h
      · obtain ⟨d, hd, rfl⟩ := Res.map_eq_ok h
        have := decDUID_bound hd
        rw [Nat.mul_add]
        have := le_mul_of_one_le (K := K) (by omega) data.length
        simp only [sizeOpt, depthOpt, nodeC] at *; omega
      split at h
      · obtain ⟨d, hd, rfl⟩ := Res.map_eq_ok h
        have := decDUID_bound hd
        rw [Nat.mul_add]
        have := le_mul_of_one_le (K := K) (by omega) data.length
        simp only [sizeOpt, depthOpt, nodeC] at *; omega
      split at h
      · exact decIA_bound hc hK .iana (by intros; simp [sizeOpt]) (by intros; simp [depthOpt]) ihL hP h
      split at h
      · exact decIATA_bound hc hK ihL hP h
      split at h
      · exact decIAAddr_bound hc hK ihL hP h
      split at h
      · obtain ⟨m, hm, rfl⟩ := Res.map_eq_ok h
        obtain ⟨h1, h2⟩ := ihM data m hP hm
        rw [Nat.mul_add]
        simp only [sizeOpt, depthOpt, nodeC]; omega
      split at h
      · exact decIA_bound hc hK .iapd (by intros; simp [sizeOpt]) (by intros; simp [depthOpt]) ihL hP h
      split at h
      · exact decIAPrefix_bound hc hK ihL hP h
      split at h
      · obtain ⟨os, hos, rfl⟩ := Res.map_eq_ok h
        obtain ⟨h1, h2⟩ := ihL data os hP hos
        rw [Nat.mul_add]
        simp only [sizeOpt, depthOpt, nodeC]; omega
      · exact decSimple_bound hc hK hL h4 hP h
    · intro d os hP h
      unfold decOptsF at h
      obtain ⟨h1, h2, _⟩ := optionsFromBytes_bound (fun c d => parseOpt fuel c d) hc sizeOpt depthOpt K
        (fun code d o hPd ho => ihO code d o hPd ho) hP h
      exact ⟨by rw [sizeOpts_eq]; exact h1, depthOpts_le h2⟩
    · intro data m hP h
      simp only [decMsgF] at h
      split at h
      · cases h
      split at h
      · split at h
        · cases h
        · obtain ⟨os, hos, rfl⟩ := Res.map_eq_ok h
          have hs : Sub (((Lexer.new data).read8.2.read8.2.copyN 16).2.copyN 16).2 (Lexer.new data) := by
            sub_tac
          obtain ⟨h1, h2⟩ := ihL _ os (hs.pres hc hP) hos
          have hl := hs.new_len
          have hX := Nat.mul_le_mul_left K hl
          have c1 := copyN_sz (Lexer.new data).read8.2.read8.2 16
          have c2 := copyN_sz ((Lexer.new data).read8.2.read8.2.copyN 16).2 16
          simp only [size6, depth6, nodeC]; omega
      · split at h
        · cases h
        · obtain ⟨os, hos, rfl⟩ := Res.map_eq_ok h
          have hs : Sub ((Lexer.new data).read8.2.readBytes 3).2 (Lexer.new data) := by sub_tac
          obtain ⟨h1, h2⟩ := ihL _ os (hs.pres hc hP) hos
          have hl := hs.new_len
          have hX := Nat.mul_le_mul_left K hl
          have c1 := readBytes_len (Lexer.new data).read8.2 3
          simp only [size6, depth6, nodeC]; omega

/-! ### the one-pass length of `lenNest6` is the length of the encoding -/

theorem write16_length (ip : IP) : (write16 ip).length = 16 := by
  unfold write16 ipTo16
  cases ip with
  | none => simp
  | some b =>
    simp only [Option.bind]
    unfold to16
    split
    · rename_i h; simp [h]
    · split
      · rename_i h; simp [h]
      · simp

theorem encDur_length (d : Dur) : (encDur d).length = 4 := by simp [encDur]

mutual
theorem lenNestOpt_fst : ∀ o : Opt6, (lenNestOpt o).1 = (encOpt o).length
  | .iana i a b os => by
    simp only [lenNestOpt, encOpt, lenNestOpts_fst os, List.length_append, copyInto_length, encDur_length]
  | .iata i os => by
    simp only [lenNestOpt, encOpt, lenNestOpts_fst os, List.length_append, copyInto_length]
  | .iaaddr ip a b os => by
    simp only [lenNestOpt, encOpt, lenNestOpts_fst os, List.length_append, write16_length, encDur_length]
  | .iapd i a b os => by
    simp only [lenNestOpt, encOpt, lenNestOpts_fst os, List.length_append, copyInto_length, encDur_length]
  | .iaprefix a b p os => by
    simp only [lenNestOpt, encOpt, lenNestOpts_fst os, List.length_append, encDur_length]
    cases p with
    | none => simp [encPfx]
    | some q => obtain ⟨n, ip⟩ := q; simp [encPfx, write16_length]
  | .fourRD os => by simp only [lenNestOpt, encOpt, lenNestOpts_fst os]
  | .relayMsg m => by simp only [lenNestOpt, encOpt, lenNest6_fst m]
  | .clientID _ => by simp only [lenNestOpt]
  | .serverID _ => by simp only [lenNestOpt]
  | .oro _ => by simp only [lenNestOpt]
  | .elapsed _ => by simp only [lenNestOpt]
  | .status _ _ => by simp only [lenNestOpt]
  | .userClass _ => by simp only [lenNestOpt]
  | .vendorClass _ _ => by simp only [lenNestOpt]
  | .vendorOpts _ _ => by simp only [lenNestOpt]
  | .interfaceID _ => by simp only [lenNestOpt]
  | .dns _ => by simp only [lenNestOpt]
  | .domainSearch _ => by simp only [lenNestOpt]
  | .infoRefresh _ => by simp only [lenNestOpt]
  | .remoteID _ _ => by simp only [lenNestOpt]
  | .fqdn _ _ => by simp only [lenNestOpt]
  | .ntp _ => by simp only [lenNestOpt]
  | .bootfileURL _ => by simp only [lenNestOpt]
  | .bootfileParam _ => by simp only [lenNestOpt]
  | .archType _ => by simp only [lenNestOpt]
  | .nii _ _ _ => by simp only [lenNestOpt]
  | .clientLLA _ _ => by simp only [lenNestOpt]
  | .dhcpv4Msg _ => by simp only [lenNestOpt]
  | .dhcp4o6Server _ => by simp only [lenNestOpt]
  | .fourRDMapRule _ _ _ _ _ _ => by simp only [lenNestOpt]
  | .fourRDNonMapRule _ _ _ => by simp only [lenNestOpt]
  | .relayPort _ => by simp only [lenNestOpt]
  | .generic _ _ => by simp only [lenNestOpt]
theorem lenNestOpts_fst : ∀ os : List Opt6, (lenNestOpts os).1 = (encOpts os).length
  | [] => by simp [lenNestOpts, encOpts]
  | o :: os => by
    simp only [lenNestOpts, encOpts, tlv, List.length_append, be16_length, lenNestOpt_fst o, lenNestOpts_fst os]
theorem lenNest6_fst : ∀ m : Msg6, (lenNest6 m).1 = (encMsg m).length
  | .msg t x os => by
    simp only [lenNest6, encMsg, List.length_cons, List.length_append, copyInto_length, lenNestOpts_fst os]; omega
  | .relay t h l p os => by
    simp only [lenNest6, encMsg, List.length_cons, List.length_append, write16_length, lenNestOpts_fst os]; omega
end

/-! ### instances used by Props/C09 -/

theorem labelBound_gen : LabelBound (fun _ => True) 144 :=
  fun buf _ l h => by have := sizeLabels_le buf l h; simp only [nodeC]; omega

theorem labelBound_noptr : LabelBound NoPtr 33 :=
  fun buf hn l h => by have := sizeLabels_le_noptr buf hn l h; simp only [nodeC]; omega

theorem closedNoPtr : Closed NoPtr := ⟨fun _ n h => h.take n, fun _ n h => h.drop n, NoPtr.nil⟩

theorem dec6_nonempty (b : Bytes) (m : Msg6) (h : dec6 b = .ok m) : 1 ≤ b.length := by
  cases b with
  | nil => simp [dec6, fuelFor, decMsgF, Lexer.new, Lexer.read8, Lexer.consume, Lexer.error] at h
  | cons x xs => simp


end Dhcp.Cost

import DhcpProofs.Lemmas.LabelSpec
/-
  Soundness of the model of `labelsFromBytes` against `Dhcp.Spec.Name`:
  whatever the loop returns without error is an RFC reading of the buffer.
-/
namespace Dhcp.Label
open Dhcp Dhcp.Spec.Name List

/-- `rest` does not start with a complete label: it is empty, or starts with a
zero octet, an octet ≥ 64, or a length that overruns the buffer. -/
def Stop : Bytes → Prop
  | [] => True
  | b :: t => b.toNat = 0 ∨ 64 ≤ b.toNat ∨ t.length < b.toNat

/-- Every byte string splits into a maximal run of complete labels and a rest. -/
theorem exists_maxrun : ∀ (n : Nat) (bs : Bytes), bs.length ≤ n →
    ∃ ls rest, LabelSeq bs ls rest ∧ Stop rest := by
  intro n
  induction n with
  | zero =>
    intro bs h
    have : bs = [] := List.eq_nil_of_length_eq_zero (by omega)
    subst this
    exact ⟨[], [], LabelSeq.nil [], trivial⟩
  | succ n ih =>
    intro bs h
    cases bs with
    | nil => exact ⟨[], [], LabelSeq.nil [], trivial⟩
    | cons b t =>
      by_cases hstop : b.toNat = 0 ∨ 64 ≤ b.toNat ∨ t.length < b.toNat
      · exact ⟨[], b :: t, LabelSeq.nil _, hstop⟩
      · have h0 : b.toNat ≠ 0 := fun e => hstop (Or.inl e)
        have h1 : b.toNat < 64 := by
          apply Nat.lt_of_not_le; intro e; exact hstop (Or.inr (Or.inl e))
        have h2 : b.toNat ≤ t.length := by
          apply Nat.le_of_not_lt; intro e; exact hstop (Or.inr (Or.inr e))
        obtain ⟨ls, rest, hseq, hst⟩ := ih (t.drop b.toNat) (by simp at h ⊢; omega)
        refine ⟨t.take b.toNat :: ls, rest, ?_, hst⟩
        have hl : (t.take b.toNat).length = b.toNat := by simp; omega
        have := LabelSeq.cons (t.take b.toNat) ls (t.drop b.toNat) rest (by omega) (by omega) hseq
        rw [hl, List.take_append_drop] at this
        simpa using this

theorem Runs.err_ok_absurd {buf : Bytes} {s : St} {r : List Bytes}
    (h1 : Runs buf s .err) (h2 : Runs buf s (.ok r)) : False := by
  have := Runs.det h1 h2
  cases this

theorem labelSeq_nil_inv {bs rest : Bytes} (h : LabelSeq bs [] rest) : bs = rest := by
  cases h; rfl

theorem toNat_eq_zero {b : UInt8} (h : b.toNat = 0) : b = 0 := by
  apply UInt8.toNat_inj.mp; simpa using h

/-- Soundness, for a loop started at a name boundary. -/
theorem names_sound (msg : Bytes) : ∀ (k pos : Nat), msg.length - pos ≤ k →
    ∀ (op : Nat) (acc r : List Bytes),
      Runs msg ⟨pos, op, [], false, acc⟩ (.ok r) →
      ∃ ns, r = acc ++ ns ∧ Names msg (msg.drop pos) ns := by
  intro k
  induction k with
  | zero =>
    intro pos hk op acc r hr
    have hd : msg.drop pos = [] := List.drop_eq_nil_iff.mpr (by omega)
    have hstep := step_eof_nohp msg pos op [] acc hd
    have := Runs.det (Runs.of_done hstep) hr
    simp at this
    exact ⟨[], by simp [this], by rw [hd]; exact Names.done⟩
  | succ k ih =>
    intro pos hk op acc r hr
    obtain ⟨ls, rest, hseq, hstop⟩ := exists_maxrun _ (msg.drop pos) (Nat.le_refl _)
    have hls := labelSeq_nonempty hseq
    have hj := joinAcc_nil hls
    by_cases hlen : (dotted ls).length ≤ maxNameLength
    · rw [runs_labels_iff msg op false acc _ hseq pos [] rfl (by rw [hj]; exact hlen), hj] at hr
      have hd' := drop_pos_of_seq (rfl : msg.drop pos = msg.drop pos) hseq
      cases rest with
      | nil =>
        have hstep := step_eof_nohp msg (pos + encLen ls) op (dotted ls) acc hd'
        have hres := Runs.det (Runs.of_done hstep) hr
        by_cases hnil : ls = []
        · subst hnil
          have hd : msg.drop pos = [] := labelSeq_nil_inv hseq
          simp [dotted] at hres
          exact ⟨[], by simp [hres], by rw [hd]; exact Names.done⟩
        · have hnn : dotted ls ≠ [] := fun e => hnil ((dotted_eq_nil hls).mp e)
          simp only [hnn, ne_eq, not_false_eq_true, if_true] at hres
          injection hres with hres
          exact ⟨[dotted ls], hres.symm, Names.partialName _ ls hnil hseq hlen⟩
      | cons b t =>
        have hml := drop_cons_length hd'
        by_cases hb0 : b.toNat = 0
        · -- zero octet: the name is complete
          have hstep := step_zero_nohp msg (pos + encLen ls) op (dotted ls) acc hd' hb0
          have hr' := Runs.next_inv hstep hr
          obtain ⟨ns, hns, hnames⟩ := ih (pos + encLen ls + 1) (by omega) op _ r hr'
          rw [drop_cons_succ hd'] at hnames
          have hb : b = 0 := toNat_eq_zero hb0
          subst hb
          exact ⟨dotted ls :: ns, by rw [hns, List.append_assoc]; rfl,
            Names.plain _ ls t ns hseq hlen hnames⟩
        · by_cases hb64 : 64 ≤ b.toNat
          · by_cases hb192 : 192 ≤ b.toNat
            · -- compression pointer
              cases t with
              | nil =>
                exact (Runs.err_ok_absurd
                  (Runs.of_done (step_ptr_short msg (pos + encLen ls) op (dotted ls) acc hd' hb192)) hr).elim
              | cons b1 t' =>
                have hstep := step_ptr msg (pos + encLen ls) op (dotted ls) acc hd' hb192
                have hr2 := Runs.next_inv hstep hr
                have hoffd : msg.drop ((b.toNat - 192) * 256 + b1.toNat) = msg.drop (ptrOffset b b1) := rfl
                by_cases hoff : ptrOffset b b1 < msg.length
                · obtain ⟨ls', rest', hseq', hstop'⟩ :=
                    exists_maxrun _ (msg.drop (ptrOffset b b1)) (Nat.le_refl _)
                  have hls' := labelSeq_nonempty hseq'
                  have hj' : joinAcc (dotted ls) ls' = dotted (ls ++ ls') := joinAcc_dotted ls' ls hls hls'
                  by_cases hlen' : (dotted (ls ++ ls')).length ≤ maxNameLength
                  · rw [runs_labels_iff msg (pos + encLen ls + 2) true acc _ hseq' _ (dotted ls) hoffd
                      (by rw [hj']; exact hlen'), hj'] at hr2
                    have hd2 := drop_pos_of_seq hoffd hseq'
                    cases rest' with
                    | nil =>
                      exact (Runs.err_ok_absurd (Runs.of_done (step_eof_hp msg _ _ _ acc hd2)) hr2).elim
                    | cons c u =>
                      by_cases hc0 : c.toNat = 0
                      · have hstep2 := step_zero_hp msg _ (pos + encLen ls + 2) (dotted (ls ++ ls')) acc hd2 hc0
                        have hr3 := Runs.next_inv hstep2 hr2
                        simp only [List.length_cons] at hml
                        obtain ⟨ns, hns, hnames⟩ := ih (pos + encLen ls + 2) (by omega) _ _ r hr3
                        have hrest : msg.drop (pos + encLen ls + 2) = t' := by
                          have := drop_cons_succ (drop_cons_succ hd')
                          simpa [Nat.add_assoc] using this
                        rw [hrest] at hnames
                        have hc : c = 0 := toNat_eq_zero hc0
                        subst hc
                        exact ⟨dotted (ls ++ ls') :: ns, by rw [hns, List.append_assoc]; rfl,
                          Names.ptr _ ls b b1 t' ls' u ns hseq hb192 hoff hseq' hlen' hnames⟩
                      · by_cases hc64 : 64 ≤ c.toNat
                        · by_cases hc192 : 192 ≤ c.toNat
                          · exact (Runs.err_ok_absurd
                              (Runs.of_done (step_ptr_hp msg _ _ _ acc hd2 hc192)) hr2).elim
                          · exact (Runs.err_ok_absurd
                              (Runs.of_done (step_reserved msg _ _ _ acc true hd2 hc64 (by omega))) hr2).elim
                        · have hover : u.length < c.toNat := by
                            rcases hstop' with h | h | h
                            · exact absurd h hc0
                            · exact absurd h hc64
                            · exact h
                          exact (Runs.err_ok_absurd
                            (Runs.of_done (step_overrun msg _ _ _ acc true hd2 hc0 (by omega) hover)) hr2).elim
                  · have hlong := runs_labels_toolong msg (pos + encLen ls + 2) true acc hseq' _ (dotted ls) hoffd
                      hlen (by rw [hj']; omega)
                    exact (Runs.err_ok_absurd hlong hr2).elim
                · have hd2 : msg.drop ((b.toNat - 192) * 256 + b1.toNat) = [] :=
                    List.drop_eq_nil_iff.mpr (by have : ptrOffset b b1 = (b.toNat - 192) * 256 + b1.toNat := rfl
                                                 omega)
                  exact (Runs.err_ok_absurd (Runs.of_done (step_eof_hp msg _ _ _ acc hd2)) hr2).elim
            · exact (Runs.err_ok_absurd
                (Runs.of_done (step_reserved msg _ op (dotted ls) acc false hd' hb64 (by omega))) hr).elim
          · have hover : t.length < b.toNat := by
              rcases hstop with h | h | h
              · exact absurd h hb0
              · exact absurd h hb64
              · exact h
            exact (Runs.err_ok_absurd
              (Runs.of_done (step_overrun msg _ op (dotted ls) acc false hd' hb0 (by omega) hover)) hr).elim
    · have hlong := runs_labels_toolong msg op false acc hseq pos [] rfl (by simp [maxNameLength])
        (by rw [hj]; omega)
      exact (Runs.err_ok_absurd hlong hr).elim

end Dhcp.Label

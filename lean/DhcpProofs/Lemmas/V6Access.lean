import DhcpProofs.Lemmas.C03Decoded
import Dhcp.V6.Access
/-
  The typed accessors of the DHCPv6 option sets (Dhcp/V6/Access.lean) on
  decoded messages: every option set reachable from a decoded message is a
  decoded option list (`DecOpts`), and on a decoded option list the accessors
  with an unchecked type assertion find the Go type their code promises.
-/
namespace Dhcp.V6
open Dhcp

theorem get_mem {c : Nat} {os : List Opt6} {o : Opt6} (h : o ∈ get c os) : o ∈ os ∧ o.code = c := by
  unfold get at h
  rcases List.mem_filter.mp h with ⟨hm, hc⟩
  exact ⟨hm, by simpa using hc⟩

/-- a decoded option found under a code of the parser table is not an `OptionGeneric` -/
theorem DecOpts.typed {os : List Opt6} (h : DecOpts os) {o : Opt6} (hm : o ∈ os)
    (hk : o.code ∈ knownCodes) : ∀ c d, o ≠ .generic c d :=
  (h.mem hm).not_generic hk

theorem DecOpts.serverIDOf {os : List Opt6} (h : DecOpts os) : serverIDOf os ≠ .panic := by
  unfold V6.serverIDOf
  cases hg : getOne ocServerID os with
  | none => simp
  | some o =>
    have hc := getOne_code hg
    have hd := h.mem (getOne_mem hg)
    cases o <;> simp only [Opt6.code, ocServerID] at hc <;> try (simp; done)
    all_goals first
      | omega
      | (subst hc; exact absurd rfl (hd.not_generic (by simp [Opt6.code, knownCodes]) _ _))

theorem DecOpts.archTypesOf {os : List Opt6} (h : DecOpts os) : archTypesOf os ≠ .panic := by
  unfold V6.archTypesOf
  cases hg : getOne ocClientArchType os with
  | none => simp
  | some o =>
    have hc := getOne_code hg
    have hd := h.mem (getOne_mem hg)
    cases o <;> simp only [Opt6.code, ocClientArchType] at hc <;> try (simp; done)
    all_goals first
      | omega
      | (subst hc; exact absurd rfl (hd.not_generic (by simp [Opt6.code, knownCodes]) _ _))

/-- every decoded option of code `c` (a code of the table whose only constructor
satisfies `p`) satisfies `p` -/
theorem DecOpts.all_of_code {os : List Opt6} (h : DecOpts os) {c : Nat} {p : Opt6 → Bool}
    (hk : c ∈ knownCodes)
    (hp : ∀ o : Opt6, o.code = c → (∀ c' d, o ≠ .generic c' d) → p o = true) :
    (get c os).all p = true := by
  rw [List.all_eq_true]
  intro o ho
  obtain ⟨hm, hc⟩ := get_mem ho
  exact hp o hc (h.typed hm (hc ▸ hk))

theorem DecOpts.ianasOf {os : List Opt6} (h : DecOpts os) : ianasOf os ≠ .panic := by
  unfold V6.ianasOf
  have : (get ocIANA os).all Opt6.isIANA = true :=
    h.all_of_code (by simp [ocIANA, knownCodes]) (by
      intro o hc hg
      cases o <;> simp only [Opt6.code, ocIANA] at hc <;> first | rfl | omega | (exact absurd rfl (hg _ _)))
  simp [this]

theorem DecOpts.iatasOf {os : List Opt6} (h : DecOpts os) : iatasOf os ≠ .panic := by
  unfold V6.iatasOf
  have : (get ocIATA os).all Opt6.isIATA = true :=
    h.all_of_code (by simp [ocIATA, knownCodes]) (by
      intro o hc hg
      cases o <;> simp only [Opt6.code, ocIATA] at hc <;> first | rfl | omega | (exact absurd rfl (hg _ _)))
  simp [this]

theorem DecOpts.iapdsOf {os : List Opt6} (h : DecOpts os) : iapdsOf os ≠ .panic := by
  unfold V6.iapdsOf
  have : (get ocIAPD os).all Opt6.isIAPD = true :=
    h.all_of_code (by simp [ocIAPD, knownCodes]) (by
      intro o hc hg
      cases o <;> simp only [Opt6.code, ocIAPD] at hc <;> first | rfl | omega | (exact absurd rfl (hg _ _)))
  simp [this]

theorem DecOpts.addressesOf {os : List Opt6} (h : DecOpts os) : addressesOf os ≠ .panic := by
  unfold V6.addressesOf
  have : (get ocIAAddr os).all Opt6.isIAAddr = true :=
    h.all_of_code (by simp [ocIAAddr, knownCodes]) (by
      intro o hc hg
      cases o <;> simp only [Opt6.code, ocIAAddr] at hc <;> first | rfl | omega | (exact absurd rfl (hg _ _)))
  simp [this]

/-- on a decoded option list no accessor panics -/
theorem DecOpts.runAcc (a : Acc) {os : List Opt6} (h : DecOpts os) : runAcc a os ≠ .panic := by
  cases a <;> simp only [V6.runAcc] <;> first
    | exact Res.map_ne_panic h.archTypesOf
    | exact Res.map_ne_panic h.clientIDOf
    | exact Res.map_ne_panic h.serverIDOf
    | exact Res.map_ne_panic h.ianasOf
    | exact Res.map_ne_panic (Res.map_ne_panic h.ianasOf)
    | exact Res.map_ne_panic h.iatasOf
    | exact Res.map_ne_panic (Res.map_ne_panic h.iatasOf)
    | exact Res.map_ne_panic h.iapdsOf
    | exact Res.map_ne_panic (Res.map_ne_panic h.iapdsOf)
    | exact Res.map_ne_panic h.addressesOf
    | exact Res.map_ne_panic (Res.map_ne_panic h.addressesOf)
    | (intro hc; cases hc)

/-- the nested option set of a decoded option is decoded -/
theorem DecOpt.subSet {o : Opt6} (h : DecOpt o) {k : SetKind} {os : List Opt6}
    (hs : o.subSet = some (k, os)) : DecOpts os := by
  cases o <;> simp only [Opt6.subSet, Option.some.injEq, Prod.mk.injEq, reduceCtorEq] at hs <;>
    (obtain ⟨_, rfl⟩ := hs; simpa only [DecOpt] using h)

/-- every option set reached from a decoded option list is decoded -/
theorem DecOpts.setAt : ∀ (path : List Nat) {k : SetKind} {os : List Opt6}, DecOpts os →
    ∀ {k' : SetKind} {os' : List Opt6}, setAt (k, os) path = some (k', os') → DecOpts os'
  | [], _, _, h, _, _, hs => by
    simp only [V6.setAt, Option.some.injEq, Prod.mk.injEq] at hs
    obtain ⟨_, rfl⟩ := hs
    exact h
  | i :: rest, k, os, h, k', os', hs => by
    simp only [V6.setAt] at hs
    cases hi : os[i]? with
    | none => simp [hi] at hs
    | some o =>
      simp only [hi] at hs
      cases hsub : o.subSet with
      | none => simp [hsub] at hs
      | some s =>
        obtain ⟨k1, os1⟩ := s
        simp only [hsub] at hs
        have hm : o ∈ os := List.mem_of_getElem? hi
        exact DecOpts.setAt rest ((h.mem hm).subSet hsub) hs

theorem DecMsg.rootSet {m : Msg6} (h : DecMsg m) : DecOpts m.rootSet.2 := by
  cases m <;> simp only [Msg6.rootSet] <;> simp only [DecMsg] at h
  · exact h.2
  · exact h.2.2.2

end Dhcp.V6

import Dhcp.Go.Strings
/- Facts about the `strings.Split` model and slice indexing (C03, ZTP parsers). -/
namespace Dhcp.Str
open Dhcp

theorem idx_ok {α} {p : List α} {i : Nat} (h : i < p.length) : idx p i = .ok (p[i]'h) := by
  simp [idx, List.getElem?_eq_getElem h]

theorem idx_ne_panic {α} {p : List α} {i : Nat} (h : i < p.length) : idx p i ≠ .panic := by
  rw [idx_ok h]; simp

theorem idx_panic {α} {p : List α} {i : Nat} (h : p.length ≤ i) : idx p i = .panic := by
  simp [idx, List.getElem?_eq_none_iff.mpr h]

/-- `strings.Split` never returns an empty slice (for a non-empty separator) -/
theorem splitGo_length_pos (sep : Bytes) : ∀ (n : Nat) (s cur : Bytes), 1 ≤ (splitGo sep n s cur).length := by
  intro n
  induction n with
  | zero => intro s cur; simp [splitGo]
  | succ n ih =>
    intro s cur
    cases s with
    | nil => simp [splitGo]
    | cons c rest =>
      simp only [splitGo]
      split
      · simp
      · exact ih _ _

theorem split_length_pos (s sep : Bytes) : 1 ≤ (split s sep).length := splitGo_length_pos _ _ _ _

/-- a string that contains the one-byte separator splits into at least two pieces -/
theorem splitGo_two (d : UInt8) : ∀ (s : Bytes) (n : Nat) (cur : Bytes), s.length < n → d ∈ s →
    2 ≤ (splitGo [d] n s cur).length := by
  intro s
  induction s with
  | nil => intro n cur _ h; cases h
  | cons c rest ih =>
    intro n cur hn hd
    cases n with
    | zero => simp at hn
    | succ n =>
      simp only [splitGo]
      split
      · have := splitGo_length_pos [d] n ((c :: rest).drop [d].length) []
        rw [List.length_cons]; omega
      · next hne =>
        have hcd : c ≠ d := by
          intro he; subst he; simp [List.isPrefixOf] at hne
        rcases List.mem_cons.mp hd with rfl | hm
        · exact absurd rfl hcd
        · exact ih n (c :: cur) (by simp only [List.length_cons] at hn; omega) hm

theorem split_two {s : Bytes} {d : UInt8} (h : d ∈ s) : 2 ≤ (split s [d]).length :=
  splitGo_two d s _ _ (Nat.lt_succ_self _) h

/-- `strings.HasPrefix(s, p)` with the separator inside `p`: at least two pieces -/
theorem split_two_of_hasPrefix {s p : Bytes} {d : UInt8} (hp : hasPrefix s p = true) (hd : d ∈ p) :
    2 ≤ (split s [d]).length := by
  unfold hasPrefix at hp
  obtain ⟨t, rfl⟩ := List.isPrefixOf_iff_prefix.mp hp
  exact split_two (List.mem_append_left _ hd)

end Dhcp.Str

import DhcpProofs.Lemmas.V6Build
/- Helper lemmas for C16: the message builders and their modifiers. -/
namespace Dhcp.V6
open Dhcp

/-- every option carrying the IA_NA code is an `*OptIANA` (what decoding guarantees) -/
def IANATyped (os : List Opt6) : Prop := ∀ o ∈ os, o.code = ocIANA → o.isIANA = true

theorem get_head? (c : Nat) (os : List Opt6) : (get c os).head? = getOne c os := by
  unfold get getOne
  exact List.head?_filter ..

theorem ianasOf_typed {os : List Opt6} (h : IANATyped os) : ianasOf os = .ok (get ocIANA os) := by
  unfold ianasOf
  have : (get ocIANA os).all Opt6.isIANA = true := by
    rw [List.all_eq_true]
    intro o ho
    unfold get at ho
    rw [List.mem_filter] at ho
    exact h o ho.1 (by simpa using ho.2)
  simp [this]

theorem oneIANAOf_typed {os : List Opt6} (h : IANATyped os) : oneIANAOf os = .ok (getOne ocIANA os) := by
  simp [oneIANAOf, ianasOf_typed h, Res.map, Res.bind, get_head?]

theorem ianasOf_untyped {os : List Opt6} (h : ¬ IANATyped os) : ianasOf os = .panic := by
  unfold ianasOf
  have : ¬ (get ocIANA os).all Opt6.isIANA = true := by
    rw [List.all_eq_true]
    intro hall
    apply h
    intro o ho hc
    apply hall
    unfold get
    rw [List.mem_filter]
    exact ⟨ho, by simpa using hc⟩
  simp [this]

theorem oneIANAOf_untyped {os : List Opt6} (h : ¬ IANATyped os) : oneIANAOf os = .panic := by
  simp [oneIANAOf, ianasOf_untyped h, Res.map, Res.bind]

theorem oneIANAOf_ne_err (os : List Opt6) : oneIANAOf os ≠ .err := by
  unfold oneIANAOf ianasOf
  simp only [Res.map]
  split <;> simp [Res.bind]

@[simp] theorem applyMods_nil (m : Msg6) : applyMods m [] = .ok m := rfl

theorem Res.bind_ok' {α : Type} (r : Res α) : r.bind Res.ok = r := by cases r <;> rfl

theorem Res.bind_assoc' {α β γ : Type} (r : Res α) (f : α → Res β) (g : β → Res γ) :
    (r.bind f).bind g = r.bind (fun a => (f a).bind g) := by cases r <;> rfl

theorem applyMods_append (m : Msg6) (a b : List Mod6) :
    applyMods m (a ++ b) = (applyMods m a).bind (fun m' => applyMods m' b) := by
  induction a generalizing m with
  | nil => rfl
  | cons x xs ih =>
    simp only [List.cons_append, applyMods]
    rw [Res.bind_assoc']
    congr 1
    funext m'
    exact ih m'

/-- the modifier list `NewReplyFromMessage` applies is its own default list followed by the user's -/
theorem replyMods_append (t : UInt8) (os : List Opt6) (mods : List Mod6) :
    replyMods t os mods = (replyMods t os []).map (· ++ mods) := by
  unfold replyMods
  split
  · split <;> rfl
  · split <;> rfl

theorem update_of_getOne_none {o : Opt6} {os : List Opt6} (h : getOne o.code os = none) :
    update o os = os ++ [o] := by
  induction os with
  | nil => rfl
  | cons x xs ih =>
    rw [getOne_cons] at h
    by_cases hx : x.code = o.code
    · simp [hx] at h
    · simp only [hx, if_false] at h
      simp [update, hx, ih h]

end Dhcp.V6

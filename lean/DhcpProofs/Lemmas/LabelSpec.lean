import DhcpProofs.Lemmas.Label
import Dhcp.Spec.Name
/-
  The model of `labelsFromBytes` against the declarative spec
  `Dhcp.Spec.Name.DecodesTo`: runs of labels, and the two directions
  (`names_complete`, `names_sound`).
-/
namespace Dhcp.Label
open Dhcp Dhcp.Spec.Name List

/-! ### One iteration on each kind of suffix (states written out) -/

section steps
variable (buf : Bytes) (pos op : Nat) (label : Bytes) (acc : List Bytes)

theorem step_eof_nohp (h : buf.drop pos = []) :
    step buf ⟨pos, op, label, false, acc⟩ =
      .done (.ok (if label ≠ [] then acc ++ [label] else acc)) := by
  rw [step_eq_step']; unfold step'; simp only [h]
  by_cases hl : label = [] <;> simp [hl]

theorem step_eof_hp (h : buf.drop pos = []) :
    step buf ⟨pos, op, label, true, acc⟩ = .done .err := by
  rw [step_eq_step']; unfold step'; simp only [h]; simp

theorem step_zero_nohp {b : UInt8} {t : Bytes} (h : buf.drop pos = b :: t) (hb : b.toNat = 0) :
    step buf ⟨pos, op, label, false, acc⟩ = .next ⟨pos + 1, op, [], false, acc ++ [label]⟩ := by
  rw [step_eq_step']; unfold step'; simp only [h, hb]; simp

theorem step_zero_hp {b : UInt8} {t : Bytes} (h : buf.drop pos = b :: t) (hb : b.toNat = 0) :
    step buf ⟨pos, op, label, true, acc⟩ = .next ⟨op, op, [], false, acc ++ [label]⟩ := by
  rw [step_eq_step']; unfold step'; simp only [h, hb]; simp

theorem step_ptr_hp {b : UInt8} {t : Bytes} (h : buf.drop pos = b :: t) (hb : 192 ≤ b.toNat) :
    step buf ⟨pos, op, label, true, acc⟩ = .done .err := by
  have hz : ¬ b.toNat = 0 := by omega
  rw [step_eq_step']; unfold step'; simp only [h, hz, hb]; simp

theorem step_ptr_short {b : UInt8} (h : buf.drop pos = [b]) (hb : 192 ≤ b.toNat) :
    step buf ⟨pos, op, label, false, acc⟩ = .done .err := by
  have hz : ¬ b.toNat = 0 := by omega
  rw [step_eq_step']; unfold step'; simp only [h, hz, hb]; simp

theorem step_ptr {b b1 : UInt8} {t : Bytes} (h : buf.drop pos = b :: b1 :: t) (hb : 192 ≤ b.toNat) :
    step buf ⟨pos, op, label, false, acc⟩ =
      .next ⟨(b.toNat - 192) * 256 + b1.toNat, pos + 2, label, true, acc⟩ := by
  have hz : ¬ b.toNat = 0 := by omega
  rw [step_eq_step']; unfold step'; simp only [h, hz, hb]; simp

theorem step_reserved (hp : Bool) {b : UInt8} {t : Bytes} (h : buf.drop pos = b :: t)
    (h1 : 64 ≤ b.toNat) (h2 : b.toNat < 192) :
    step buf ⟨pos, op, label, hp, acc⟩ = .done .err := by
  have hz : ¬ b.toNat = 0 := by omega
  have hn : ¬ 192 ≤ b.toNat := by omega
  rw [step_eq_step']; unfold step'; simp only [h, hz, hn, h1]; simp

theorem step_overrun (hp : Bool) {b : UInt8} {t : Bytes} (h : buf.drop pos = b :: t)
    (h0 : b.toNat ≠ 0) (h1 : b.toNat < 64) (h2 : t.length < b.toNat) :
    step buf ⟨pos, op, label, hp, acc⟩ = .done .err := by
  have hn : ¬ 192 ≤ b.toNat := by omega
  have hn' : ¬ 64 ≤ b.toNat := by omega
  rw [step_eq_step']; unfold step'; simp only [h, h0, hn, hn', h2]; simp

theorem ofNat_length_toNat {l : Bytes} (h : l.length ≤ 63) : (UInt8.ofNat l.length).toNat = l.length := by
  rw [UInt8.toNat_ofNat']; omega

theorem step_label (hp : Bool) {l tail : Bytes} (h : buf.drop pos = UInt8.ofNat l.length :: (l ++ tail))
    (h1 : 1 ≤ l.length) (h2 : l.length ≤ 63) (h3 : (appendLabel label l).length ≤ maxNameLength) :
    step buf ⟨pos, op, label, hp, acc⟩ =
      .next ⟨pos + 1 + l.length, op, appendLabel label l, hp, acc⟩ := by
  have e := ofNat_length_toNat h2
  have hz : ¬ l.length = 0 := by omega
  have hn : ¬ 192 ≤ l.length := by omega
  have hn' : ¬ 64 ≤ l.length := by omega
  have ho : ¬ (l ++ tail).length < l.length := by simp
  have h3' : ¬ (appendLabel label l).length > maxNameLength := by omega
  rw [step_eq_step']; unfold step'
  simp only [h, e, hz, hn, hn', ho, List.take_left', if_false, h3']

theorem step_label_long (hp : Bool) {l tail : Bytes} (h : buf.drop pos = UInt8.ofNat l.length :: (l ++ tail))
    (h1 : 1 ≤ l.length) (h2 : l.length ≤ 63) (h3 : maxNameLength < (appendLabel label l).length) :
    step buf ⟨pos, op, label, hp, acc⟩ = .done .err := by
  have e := ofNat_length_toNat h2
  have hz : ¬ l.length = 0 := by omega
  have hn : ¬ 192 ≤ l.length := by omega
  have hn' : ¬ 64 ≤ l.length := by omega
  have ho : ¬ (l ++ tail).length < l.length := by simp
  rw [step_eq_step']; unfold step'
  simp only [h, e, hz, hn, hn', ho, List.take_left', if_false, gt_iff_lt, h3, if_true]

end steps

/-! ### Runs of labels -/

/-- the loop's running label after the labels `ls` -/
def joinAcc (label : Bytes) : List Bytes → Bytes
  | [] => label
  | l :: ls => joinAcc (appendLabel label l) ls

theorem appendLabel_length_ge (label chunk : Bytes) : label.length ≤ (appendLabel label chunk).length := by
  unfold appendLabel; split <;> simp <;> omega

theorem joinAcc_length_ge (label : Bytes) (ls : List Bytes) : label.length ≤ (joinAcc label ls).length := by
  induction ls generalizing label with
  | nil => simp [joinAcc]
  | cons l ls ih =>
    simp only [joinAcc]
    exact Nat.le_trans (appendLabel_length_ge label l) (ih _)

/-- wire size of a run of labels -/
def encLen : List Bytes → Nat
  | [] => 0
  | l :: ls => 1 + l.length + encLen ls

theorem labelSeq_drop_eq {bs rest : Bytes} {ls : List Bytes} (h : LabelSeq bs ls rest) :
    bs.drop (encLen ls) = rest := by
  induction h with
  | nil rest => simp [encLen]
  | cons l ls tail rest h1 h2 _ ih =>
    have : 1 + l.length + encLen ls = (l.length + encLen ls) + 1 := by omega
    rw [encLen, this, List.drop_succ_cons, ← ih]
    rw [← List.drop_drop]
    simp

theorem labelSeq_nonempty {bs rest : Bytes} {ls : List Bytes} (h : LabelSeq bs ls rest) :
    ∀ l ∈ ls, l ≠ [] := by
  induction h with
  | nil rest => simp
  | cons l ls tail rest h1 h2 _ ih =>
    intro x hx
    rcases List.mem_cons.mp hx with rfl | hx
    · intro e; rw [e] at h1; simp at h1
    · exact ih x hx

theorem drop_pos_of_seq {buf bs rest : Bytes} {ls : List Bytes} {pos : Nat}
    (hd : buf.drop pos = bs) (h : LabelSeq bs ls rest) : buf.drop (pos + encLen ls) = rest := by
  rw [← List.drop_drop, hd]; exact labelSeq_drop_eq h

/-- Reading a run of labels: the loop moves over it, accumulating the name. -/
theorem runs_labels_iff (buf : Bytes) (op : Nat) (hp : Bool) (acc : List Bytes) (r : Res (List Bytes))
    {bs rest : Bytes} {ls : List Bytes} (h : LabelSeq bs ls rest) :
    ∀ (pos : Nat) (label : Bytes), buf.drop pos = bs →
      (joinAcc label ls).length ≤ maxNameLength →
      (Runs buf ⟨pos, op, label, hp, acc⟩ r ↔
        Runs buf ⟨pos + encLen ls, op, joinAcc label ls, hp, acc⟩ r) := by
  induction h with
  | nil rest => intro pos label _ _; simp [encLen, joinAcc]
  | cons l ls tail rest h1 h2 hs ih =>
    intro pos label hd hlen
    simp only [joinAcc] at hlen ⊢
    have h3 : (appendLabel label l).length ≤ maxNameLength :=
      Nat.le_trans (joinAcc_length_ge _ ls) hlen
    have hstep := step_label buf pos op label acc hp hd h1 h2 h3
    have htail : buf.drop (pos + 1 + l.length) = tail := by
      have := drop_add_of_append (drop_cons_succ hd)
      exact this
    have := ih (pos + 1 + l.length) (appendLabel label l) htail hlen
    have e : pos + 1 + l.length + encLen ls = pos + encLen (l :: ls) := by simp only [encLen]; omega
    rw [e] at this
    rw [← this]
    exact ⟨Runs.next_inv hstep, Runs.of_next hstep⟩

/-- A run of labels that makes the name longer than 253 bytes fails. -/
theorem runs_labels_toolong (buf : Bytes) (op : Nat) (hp : Bool) (acc : List Bytes)
    {bs rest : Bytes} {ls : List Bytes} (h : LabelSeq bs ls rest) :
    ∀ (pos : Nat) (label : Bytes), buf.drop pos = bs → label.length ≤ maxNameLength →
      maxNameLength < (joinAcc label ls).length →
      Runs buf ⟨pos, op, label, hp, acc⟩ .err := by
  induction h with
  | nil rest => intro pos label _ h1 h2; simp only [joinAcc] at h2; omega
  | cons l ls tail rest h1 h2 hs ih =>
    intro pos label hd hl hlong
    simp only [joinAcc] at hlong
    by_cases h3 : (appendLabel label l).length ≤ maxNameLength
    · have hstep := step_label buf pos op label acc hp hd h1 h2 h3
      have htail : buf.drop (pos + 1 + l.length) = tail := drop_add_of_append (drop_cons_succ hd)
      exact Runs.of_next hstep (ih _ _ htail h3 hlong)
    · exact Runs.of_done (step_label_long buf pos op label acc hp hd h1 h2 (by omega))

/-! ### `dotted` and the running label -/

theorem dotted_eq_nil {ls : List Bytes} (hne : ∀ l ∈ ls, l ≠ []) : dotted ls = [] ↔ ls = [] := by
  cases ls with
  | nil => simp [dotted]
  | cons a t =>
    have ha : a ≠ [] := hne a (by simp)
    cases t with
    | nil => simp [dotted, ha]
    | cons a' t' => simp [dotted]

theorem dotted_append_singleton (ls : List Bytes) (l : Bytes) (h : ls ≠ []) :
    dotted (ls ++ [l]) = dotted ls ++ 46 :: l := by
  induction ls with
  | nil => exact absurd rfl h
  | cons a t ih =>
    cases t with
    | nil => simp [dotted]
    | cons a' t' =>
      have := ih (by simp)
      simp only [List.cons_append, dotted] at this ⊢
      rw [this]; simp

theorem appendLabel_dotted {pre : List Bytes} (hne : ∀ l ∈ pre, l ≠ []) (l : Bytes) :
    appendLabel (dotted pre) l = dotted (pre ++ [l]) := by
  unfold appendLabel
  by_cases hp : pre = []
  · subst hp; simp [dotted]
  · have : dotted pre ≠ [] := fun e => hp ((dotted_eq_nil hne).mp e)
    simp only [this, ne_eq, not_false_eq_true, if_true, dotted_append_singleton pre l hp]
    simp

theorem joinAcc_dotted (ls : List Bytes) : ∀ (pre : List Bytes), (∀ l ∈ pre, l ≠ []) → (∀ l ∈ ls, l ≠ []) →
    joinAcc (dotted pre) ls = dotted (pre ++ ls) := by
  induction ls with
  | nil => intro pre _ _; simp [joinAcc]
  | cons l ls ih =>
    intro pre hpre hls
    simp only [joinAcc]
    rw [appendLabel_dotted hpre l]
    have := ih (pre ++ [l]) (by
      intro x hx
      rcases List.mem_append.mp hx with hx | hx
      · exact hpre x hx
      · simp at hx; subst hx; exact hls _ (by simp)) (fun x hx => hls x (by simp [hx]))
    rw [this]; simp

theorem joinAcc_nil {ls : List Bytes} (hls : ∀ l ∈ ls, l ≠ []) : joinAcc [] ls = dotted ls := by
  have := joinAcc_dotted ls [] (by simp) hls
  simpa [dotted] using this

/-! ### Completeness: every RFC reading is what the loop returns -/

theorem names_complete {msg bs : Bytes} {ns : List Bytes} (h : Names msg bs ns) :
    ∀ (pos op : Nat) (acc : List Bytes), msg.drop pos = bs →
      Runs msg ⟨pos, op, [], false, acc⟩ (.ok (acc ++ ns)) := by
  induction h with
  | done =>
    intro pos op acc hd
    have := step_eof_nohp msg pos op [] acc hd
    simp at this
    exact Runs.of_done (by simpa using this)
  | partialName bs ls hne hseq hlen =>
    intro pos op acc hd
    have hls := labelSeq_nonempty hseq
    have hj := joinAcc_nil hls
    rw [runs_labels_iff msg op false acc _ hseq pos [] hd (by rw [hj]; exact hlen), hj]
    have hd' := drop_pos_of_seq hd hseq
    have hnn : dotted ls ≠ [] := fun e => hne ((dotted_eq_nil hls).mp e)
    have := step_eof_nohp msg (pos + encLen ls) op (dotted ls) acc hd'
    simp only [hnn, ne_eq, not_false_eq_true, if_true] at this
    exact Runs.of_done this
  | plain bs ls rest ns hseq hlen _ ih =>
    intro pos op acc hd
    have hls := labelSeq_nonempty hseq
    have hj := joinAcc_nil hls
    rw [runs_labels_iff msg op false acc _ hseq pos [] hd (by rw [hj]; exact hlen), hj]
    have hd' := drop_pos_of_seq hd hseq
    have hstep := step_zero_nohp msg (pos + encLen ls) op (dotted ls) acc hd' (by rfl)
    have := ih (pos + encLen ls + 1) op (acc ++ [dotted ls]) (drop_cons_succ hd')
    rw [List.append_assoc] at this
    exact Runs.of_next hstep this
  | ptr bs ls b0 b1 rest ls' rest' ns hseq hptr hoff hseq' hlen _ ih =>
    intro pos op acc hd
    have hls := labelSeq_nonempty hseq
    have hls' := labelSeq_nonempty hseq'
    have hj := joinAcc_nil hls
    have hj' : joinAcc (dotted ls) ls' = dotted (ls ++ ls') := joinAcc_dotted ls' ls hls hls'
    have hlen1 : (dotted ls).length ≤ maxNameLength := by
      have := joinAcc_length_ge (dotted ls) ls'
      rw [hj'] at this
      exact Nat.le_trans this hlen
    rw [runs_labels_iff msg op false acc _ hseq pos [] hd (by rw [hj]; exact hlen1), hj]
    have hd' := drop_pos_of_seq hd hseq
    have hstep := step_ptr msg (pos + encLen ls) op (dotted ls) acc hd' hptr
    refine Runs.of_next hstep ?_
    have hoffd : msg.drop ((b0.toNat - 192) * 256 + b1.toNat) = msg.drop (ptrOffset b0 b1) := rfl
    rw [runs_labels_iff msg (pos + encLen ls + 2) true acc _ hseq' _ (dotted ls) hoffd
      (by rw [hj']; exact hlen), hj']
    have hd2 := drop_pos_of_seq hoffd hseq'
    have hstep2 := step_zero_hp msg ((b0.toNat - 192) * 256 + b1.toNat + encLen ls') (pos + encLen ls + 2)
      (dotted (ls ++ ls')) acc hd2 (by rfl)
    refine Runs.of_next hstep2 ?_
    have hrest : msg.drop (pos + encLen ls + 2) = rest := by
      have := drop_cons_succ (drop_cons_succ hd')
      simpa [Nat.add_assoc] using this
    have := ih (pos + encLen ls + 2) (pos + encLen ls + 2) (acc ++ [dotted (ls ++ ls')]) hrest
    rw [List.append_assoc] at this
    exact this

end Dhcp.Label

import Dhcp.Spec.Inet
/-
  Lemmas for C18 (read side): what a received frame means does not depend on the
  octets of its IPv4 options.
-/
namespace Dhcp.Spec.Inet
open Dhcp

theorem byteAt_append_left (h t : Bytes) (i : Nat) (hi : i < h.length) : byteAt (h ++ t) i = byteAt h i := by
  unfold byteAt
  simp [List.getD_eq_getElem?_getD, List.getElem?_append_left hi]

theorem wordAt_append_left (h t : Bytes) (i : Nat) (hi : i + 1 < h.length) : wordAt (h ++ t) i = wordAt h i := by
  unfold wordAt
  rw [byteAt_append_left h t i (by omega), byteAt_append_left h t (i+1) hi]

/-- Two frames that differ only in their IP option octets. -/
theorem options_irrelevant (h o o' rest : Bytes) (hh : h.length = 20) (ho : o'.length = o.length)
    (hl : 4 * (byteAt h 0 % 16) = 20 + o.length) (b : Bound) :
    (WellFormedForMe (h ++ (o ++ rest)) b ↔ WellFormedForMe (h ++ (o' ++ rest)) b) ∧
      payloadAndSrc (h ++ (o ++ rest)) = payloadAndSrc (h ++ (o' ++ rest)) := by
  have hp : ∀ x : Bytes, x.length = o.length → ipPayload (h ++ (x ++ rest)) = rest.take (wordAt h 2 - (20 + o.length)) := by
    intro x hx
    unfold ipPayload totalLen hdrLen ihl
    rw [wordAt_append_left h _ 2 (by omega), byteAt_append_left h _ 0 (by omega), hl]
    rw [← List.append_assoc, List.take_append, List.drop_append]
    simp only [List.length_append, hh, hx]
    by_cases hc : 20 + o.length ≤ wordAt h 2
    · have ht : (h ++ x).take (wordAt h 2) = h ++ x :=
        List.take_of_length_le (by simp [hh, hx]; omega)
      rw [ht]
      simp [hh, hx]
    · have h0 : wordAt h 2 - (20 + o.length) = 0 := by omega
      rw [h0]
      simp only [List.take_zero, List.drop_nil, List.append_nil]
      apply List.drop_eq_nil_of_le
      simp only [List.length_take, List.length_append, hh, hx]
      omega
  have hw : ∀ x : Bytes, x.length = o.length →
      (WellFormed (h ++ (x ++ rest)) ↔
        (version h = 4 ∧ 5 ≤ ihl h ∧ totalLen h ≤ 20 + o.length + rest.length ∧ 20 + o.length + 8 ≤ totalLen h ∧ proto h = 17)) := by
    intro x hx
    unfold WellFormed version totalLen hdrLen ihl proto
    rw [byteAt_append_left h _ 0 (by omega), wordAt_append_left h _ 2 (by omega), byteAt_append_left h _ 9 (by omega)]
    simp only [List.length_append, hh, hx]
    constructor
    · rintro ⟨_, a, b', c, d, e⟩
      exact ⟨a, b', by omega, by omega, e⟩
    · rintro ⟨a, b', c, d, e⟩
      exact ⟨by omega, a, b', by omega, by omega, e⟩
  have hd : ∀ x : Bytes, dstAddr (h ++ (x ++ rest)) = dstAddr h := by
    intro x
    unfold dstAddr
    rw [List.drop_append_of_le_length (by omega), List.take_append_of_le_length (by simp [hh])]
  have hs : ∀ x : Bytes, srcAddr (h ++ (x ++ rest)) = srcAddr h := by
    intro x
    unfold srcAddr
    rw [List.drop_append_of_le_length (by omega), List.take_append_of_le_length (by simp [hh])]
  refine ⟨?_, ?_⟩
  · unfold WellFormedForMe
    rw [hw o rfl, hw o' ho]
    have : ∀ x : Bytes, x.length = o.length → (ForMe (h ++ (x ++ rest)) b ↔ ForMe (h ++ (o ++ rest)) b) := by
      intro x hx
      unfold ForMe dstPort
      rw [hp x hx, hp o rfl, hd x, hd o]
    rw [this o' ho]
  · unfold payloadAndSrc udpData srcPort
    rw [hp o rfl, hp o' ho, hs o, hs o']
end Dhcp.Spec.Inet

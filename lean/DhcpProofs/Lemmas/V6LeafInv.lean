import DhcpProofs.Lemmas.V6Inv
import DhcpProofs.Lemmas.V4Fix
/-
  Converse of the V6Simple round-trip lemmas: whatever a leaf decoder of the
  DHCPv6 model returns lies in the round-trip domain (`WFOpt`, `DUIDOK`), and
  its re-encoding is no longer than the value it was decoded from (equal to it
  for every leaf except ORO, the two 4rd rules and the embedded DHCPv4 message).
-/
namespace Dhcp.V6
open Dhcp List Dhcp.Spec

/-! ### DUIDs -/

theorem decDUID_inv (v : Bytes) (d : DUID) (h : decDUID v = .ok d) : DUIDOK d ∧ encDUID d = v := by
  have hlen : 2 ≤ v.length := by
    by_cases hh : Lexer.has (Lexer.new v) 2 = true
    · simp only [Lexer.has, Lexer.new] at hh; exact of_decide_eq_true hh
    · unfold decDUID at h
      simp [hh] at h
  obtain ⟨x, r1, rfl⟩ : ∃ x r1, v = x :: r1 := by
    cases v with
    | nil => simp at hlen
    | cons x r1 => exact ⟨x, r1, rfl⟩
  obtain ⟨y, body, rfl⟩ : ∃ y r, r1 = y :: r := by
    cases r1 with
    | nil => simp at hlen
    | cons y r => exact ⟨y, r, rfl⟩
  have hv : x :: y :: body = be16 (beNat [x, y]) ++ body := by rw [V4.be16_beNat]; rfl
  have ht := V4.beNat_lt_two x y
  rw [hv] at h ⊢
  generalize beNat [x, y] = typ at h ht ⊢
  rw [decDUID_typed typ ht body] at h
  dsimp only at h
  by_cases hb : body.length < 1 ∨ body.length > 128
  · rw [if_pos hb] at h; cases h
  rw [if_neg hb] at h
  by_cases h1 : typ = 1
  · subst h1
    simp only [if_true] at h
    rcases hr1 : Lexer.read16 ⟨body, false⟩ with ⟨ht', l1⟩
    rw [hr1] at h; simp only at h
    rcases hr2 : l1.read32 with ⟨t, l2⟩
    rw [hr2] at h; simp only at h
    rcases hr3 : l2.readAll with ⟨a, l3⟩
    rw [hr3] at h; simp only at h
    obtain ⟨he, _, rfl⟩ := fin_spec h
    obtain ⟨ha, _, he3⟩ := readAll_spec hr3
    obtain ⟨ht2, hs2⟩ := read32_spec hr2
    obtain ⟨he1, hd1⟩ := hs2 (by rw [← he3]; exact he)
    obtain ⟨ht1, hs1⟩ := read16_spec hr1
    obtain ⟨_, hd0⟩ := hs1 he1
    simp only at hd0
    rw [hd1, ha] at hd0
    subst hd0
    refine ⟨⟨ht1, ht2, ?_⟩, by simp [encDUID]⟩
    simp only [List.length_append, be16_length, be32_length] at hb; omega
  by_cases h3 : typ = 3
  · subst h3
    simp only [show ¬ ((3 : Nat) = 1) by decide, if_false, if_true] at h
    rcases hr1 : Lexer.read16 ⟨body, false⟩ with ⟨ht', l1⟩
    rw [hr1] at h; simp only at h
    rcases hr3 : l1.readAll with ⟨a, l3⟩
    rw [hr3] at h; simp only at h
    obtain ⟨he, _, rfl⟩ := fin_spec h
    obtain ⟨ha, _, he3⟩ := readAll_spec hr3
    obtain ⟨ht1, hs1⟩ := read16_spec hr1
    obtain ⟨_, hd0⟩ := hs1 (by rw [← he3]; exact he)
    simp only at hd0
    rw [ha] at hd0
    subst hd0
    refine ⟨⟨ht1, ?_⟩, by simp [encDUID]⟩
    simp only [List.length_append, be16_length] at hb; omega
  by_cases h2 : typ = 2
  · subst h2
    simp only [show ¬ ((2 : Nat) = 1) by decide, show ¬ ((2 : Nat) = 3) by decide, if_false, if_true] at h
    rcases hr1 : Lexer.read32 ⟨body, false⟩ with ⟨n, l1⟩
    rw [hr1] at h; simp only at h
    rcases hr3 : l1.readAll with ⟨a, l3⟩
    rw [hr3] at h; simp only at h
    obtain ⟨he, _, rfl⟩ := fin_spec h
    obtain ⟨ha, _, he3⟩ := readAll_spec hr3
    obtain ⟨ht1, hs1⟩ := read32_spec hr1
    obtain ⟨_, hd0⟩ := hs1 (by rw [← he3]; exact he)
    simp only at hd0
    rw [ha] at hd0
    subst hd0
    refine ⟨⟨ht1, ?_⟩, by simp [encDUID]⟩
    simp only [List.length_append, be32_length] at hb; omega
  by_cases h4 : typ = 4
  · subst h4
    simp only [show ¬ ((4 : Nat) = 1) by decide, show ¬ ((4 : Nat) = 3) by decide,
      show ¬ ((4 : Nat) = 2) by decide, if_false, if_true] at h
    by_cases h16 : body.length = 16
    · simp only [h16, ne_eq, not_true_eq_false, if_false, Res.ok.injEq] at h
      subst h
      exact ⟨h16, by simp [encDUID, copyInto_of_length_eq h16]⟩
    · simp [h16] at h
  simp only [h1, h2, h3, h4, if_false, Res.ok.injEq] at h
  subst h
  exact ⟨⟨ht, h1, h2, h3, h4, by omega, by omega⟩, by simp [encDUID]⟩

/-! ### the NTP sub-option parser -/

theorem labelsOK_of_fromBytes {b : Bytes} {l : Label.Labels} (h : Label.fromBytes b = .ok l) :
    LabelsOK l ∧ l.toBytes = b := by
  obtain ⟨h1, h2⟩ := Label.fromBytes_eq_ok h
  exact ⟨⟨b, h2, h1⟩, Label.fromBytes_toBytes h⟩

theorem ip16_of_copyN {d : Bytes} {v : IP} {l : Lexer} {α : Type} {a b : α}
    (hr : Lexer.copyN ⟨d, false⟩ 16 = (v, l)) (h : fin l a = .ok b) :
    IP16 v ∧ writeTo16 v = d ∧ a = b := by
  obtain ⟨he, hd, hab⟩ := fin_spec h
  obtain ⟨bs, rfl, hlen, _, hdd⟩ := copyN_spec hr he
  simp only [hd, List.append_nil] at hdd
  subst hdd
  exact ⟨⟨_, rfl, hlen⟩, by simp [writeTo16, ipTo16, to16, hlen], hab⟩

theorem parseNTPSub_inv (c : Nat) (v : Bytes) (s : NTPSub) (hc : c < 65536)
    (h : parseNTPSub c v = .ok s) : s.code = c ∧ encNTPSub s = v ∧ NTPSubOK s := by
  unfold parseNTPSub at h
  by_cases h1 : c = 1
  · subst h1
    simp only [if_true, Lexer.new] at h
    rcases hr : Lexer.copyN ⟨v, false⟩ 16 with ⟨ip, l⟩
    rw [hr] at h; simp only at h
    obtain ⟨h16, hw, rfl⟩ := ip16_of_copyN hr h
    exact ⟨rfl, hw, h16⟩
  by_cases h2 : c = 2
  · subst h2
    simp only [show ¬ ((2 : Nat) = 1) by decide, if_false, if_true, Lexer.new] at h
    rcases hr : Lexer.copyN ⟨v, false⟩ 16 with ⟨ip, l⟩
    rw [hr] at h; simp only at h
    obtain ⟨h16, hw, rfl⟩ := ip16_of_copyN hr h
    exact ⟨rfl, hw, h16⟩
  by_cases h3 : c = 3
  · subst h3
    simp only [show ¬ ((3 : Nat) = 1) by decide, show ¬ ((3 : Nat) = 2) by decide, if_false, if_true] at h
    cases hf : Label.fromBytes v with
    | ok lb =>
      rw [hf] at h
      simp only at h
      by_cases hl : lb.labels.length = 1
      · simp only [hl, ne_eq, not_true_eq_false, if_false, Res.ok.injEq] at h
        subst h
        obtain ⟨hok, htb⟩ := labelsOK_of_fromBytes hf
        exact ⟨rfl, htb, hok, hl⟩
      · simp [hl] at h
    | err => rw [hf] at h; simp at h
    | panic => rw [hf] at h; simp at h
  simp only [h1, h2, h3, if_false, Res.ok.injEq] at h
  subst h
  exact ⟨rfl, rfl, hc, h1, h2, h3⟩

/-! ### one inversion lemma per branch of `decSimple` -/

/-- what decoding guarantees about a leaf other than the embedded DHCPv4 message -/
def LeafOK (v : Bytes) (o : Opt6) : Prop :=
  WFOpt o ∧ (encOpt o).length ≤ v.length ∧ isSimple o = true ∧ ∀ p, o ≠ .dhcpv4Msg p

theorem leafOK_of_eq {v : Bytes} {o : Opt6} (hw : WFOpt o) (he : encOpt o = v) (hs : isSimple o = true)
    (hn : ∀ p, o ≠ .dhcpv4Msg p) : LeafOK v o :=
  ⟨hw, by rw [he]; exact Nat.le_refl _, hs, hn⟩

theorem inv_6 (v : Bytes) (o : Opt6) (h : decSimple 6 v = .ok o) : LeafOK v o := by
  rw [decSimple_6] at h
  rcases hr : u16Loop (v.length + 1) ⟨v, false⟩ [] with ⟨cs, l⟩
  rw [hr] at h; simp only at h
  obtain ⟨_, hd, rfl⟩ := fin_spec h
  obtain ⟨xs, hcs, hlt, _, hv⟩ := u16Loop_spec _ _ _ _ _ _ hr (by omega)
  simp only [List.nil_append] at hcs
  subst hcs
  rw [hd, List.append_nil] at hv
  obtain ⟨h1, h2, h3⟩ := dedup_spec cs [] List.nodup_nil
  refine ⟨⟨?_, h1⟩, ?_, rfl, by intro p hp; cases hp⟩
  · intro c hc
    rcases h2 c hc with h | h
    · simp at h
    · exact hlt c h
  · simp only [encOpt]
    rw [flatMap_be16_length, hv, flatMap_be16_length]
    simp only [List.length_nil, Nat.zero_add] at h3
    omega

theorem inv_8 (v : Bytes) (o : Opt6) (h : decSimple 8 v = .ok o) : LeafOK v o := by
  rw [decSimple_8] at h
  rcases hr : Lexer.read16 ⟨v, false⟩ with ⟨t, l⟩
  rw [hr] at h; simp only at h
  obtain ⟨he, hd, rfl⟩ := fin_spec h
  obtain ⟨ht, hs⟩ := read16_spec hr
  obtain ⟨_, hv⟩ := hs he
  simp only [hd, List.append_nil] at hv
  subst hv
  exact leafOK_of_eq ⟨t, ht, rfl⟩ (by simp only [encOpt, durTo16_tenMs t ht]) rfl
    (by intro p hp; cases hp)

theorem inv_13 (v : Bytes) (o : Opt6) (h : decSimple 13 v = .ok o) : LeafOK v o := by
  rw [decSimple_13] at h
  rcases hr : Lexer.read16 ⟨v, false⟩ with ⟨c, l1⟩
  rw [hr] at h; simp only at h
  rcases hr2 : l1.readAll with ⟨m, l2⟩
  rw [hr2] at h; simp only at h
  obtain ⟨he, _, rfl⟩ := fin_spec h
  obtain ⟨hm, _, he2⟩ := readAll_spec hr2
  obtain ⟨hc, hs⟩ := read16_spec hr
  obtain ⟨_, hv⟩ := hs (by rw [← he2]; exact he)
  simp only [hm] at hv
  subst hv
  exact leafOK_of_eq hc (by simp only [encOpt]) rfl (by intro p hp; cases hp)

theorem lenPref_nil_of_nil {xs : List Bytes} (h : lenPref xs = []) : xs = [] := by
  cases xs with
  | nil => rfl
  | cons x xs => rw [lenPref_cons] at h; simp [be16] at h

theorem inv_15 (v : Bytes) (o : Opt6) (h : decSimple 15 v = .ok o) : LeafOK v o := by
  rw [decSimple_15] at h
  by_cases h0 : v.length = 0
  · simp [h0] at h
  simp only [h0, if_false] at h
  rcases hr : lenPrefLoop (v.length + 1) ⟨v, false⟩ [] with ⟨cls, l⟩
  rw [hr] at h; simp only at h
  obtain ⟨he, hd, rfl⟩ := fin_spec h
  obtain ⟨xs, hcs, hok, _, hv⟩ := lenPrefLoop_spec _ _ _ _ _ _ hr (by omega) he
  simp only [List.nil_append] at hcs
  subst hcs
  rw [hd, List.append_nil] at hv
  refine leafOK_of_eq ⟨?_, hok⟩ (by simp only [encOpt, hv]) rfl (by intro p hp; cases hp)
  intro hnil
  subst hnil
  simp [lenPref] at hv
  simp [hv] at h0

theorem inv_16 (v : Bytes) (o : Opt6) (h : decSimple 16 v = .ok o) : LeafOK v o := by
  rw [decSimple_16] at h
  rcases hr1 : Lexer.read32 ⟨v, false⟩ with ⟨en, l1⟩
  rw [hr1] at h; simp only at h
  rcases hr : lenPrefLoop (v.length + 1) l1 [] with ⟨ds, l⟩
  rw [hr] at h; simp only at h
  by_cases h0 : ds.length = 0
  · simp [h0] at h
  simp only [h0, if_false] at h
  obtain ⟨he, hd, rfl⟩ := fin_spec h
  obtain ⟨hen, hs⟩ := read32_spec hr1
  by_cases he1 : l1.err = true
  · have := lenPrefLoop_err (v.length + 1) l1 [] he1
    rw [hr] at this
    simp only at this
    rw [he] at this; cases this
  have he1' : l1.err = false := by simpa using he1
  obtain ⟨_, hv⟩ := hs he1'
  simp only at hv
  obtain ⟨xs, hcs, hok, _, hv2⟩ := lenPrefLoop_spec _ l1.data l1.err _ _ _ hr
    (by rw [hv]; simp only [List.length_append, be32_length]; omega) he
  simp only [List.nil_append] at hcs
  subst hcs
  rw [hd, List.append_nil] at hv2
  rw [hv2] at hv
  subst hv
  refine leafOK_of_eq ⟨hen, ?_, hok⟩ (by simp only [encOpt]) rfl (by intro p hp; cases hp)
  intro hnil; subst hnil; simp at h0

theorem inv_17 (v : Bytes) (o : Opt6) (h : decSimple 17 v = .ok o) : LeafOK v o := by
  rw [decSimple_17] at h
  rcases hr1 : Lexer.read32 ⟨v, false⟩ with ⟨en, l1⟩
  rw [hr1] at h; simp only at h
  rcases hr2 : l1.readAll with ⟨rest, l2⟩
  rw [hr2] at h; simp only at h
  cases ho : optionsFromBytes (fun c d => Res.ok (c, d)) rest with
  | ok os =>
    rw [ho] at h; simp only at h
    obtain ⟨he, _, rfl⟩ := fin_spec h
    obtain ⟨hm, _, he2⟩ := readAll_spec hr2
    obtain ⟨hen, hs⟩ := read32_spec hr1
    obtain ⟨_, hv⟩ := hs (by rw [← he2]; exact he)
    simp only [hm] at hv
    subst hv
    have ht := optionsFromBytes_sound (fun c d => Res.ok (c, d)) (fun c d (x : Nat × Bytes) => x = (c, d))
      (by intro c v x hx; simp only [Res.ok.injEq] at hx; exact hx.symm) rest os ho
    obtain ⟨hrest, hall⟩ := Tiles_flatMap Prod.fst Prod.snd (fun _ => True)
      (by intro c v x _ _ hx; subst hx; exact ⟨rfl, rfl, trivial⟩) ht
    refine leafOK_of_eq ⟨hen, fun x hx => ⟨(hall x hx).1, (hall x hx).2.1⟩⟩
      (by simp only [encOpt, ← hrest]) rfl (by intro p hp; cases hp)
  | err => rw [ho] at h; simp at h
  | panic => rw [ho] at h; simp at h

theorem inv_ip16 (v : Bytes) (ips : List IP) (l : Lexer) {α : Type} {a b : α}
    (hr : ip16Loop (v.length + 1) ⟨v, false⟩ [] = (ips, l)) (h : fin l a = .ok b) :
    (∀ ip ∈ ips, IP16 ip) ∧ ips.flatMap writeTo16 = v ∧ a = b := by
  obtain ⟨_, hd, hab⟩ := fin_spec h
  obtain ⟨xs, hcs, hok, _, hv⟩ := ip16Loop_spec _ _ _ _ _ _ hr (by omega)
  simp only [List.nil_append] at hcs
  subst hcs
  rw [hd, List.append_nil] at hv
  exact ⟨hok, hv.symm, hab⟩

theorem inv_23 (v : Bytes) (o : Opt6) (h : decSimple 23 v = .ok o) : LeafOK v o := by
  rw [decSimple_23] at h
  rcases hr : ip16Loop (v.length + 1) ⟨v, false⟩ [] with ⟨ips, l⟩
  rw [hr] at h; simp only at h
  obtain ⟨hok, hv, rfl⟩ := inv_ip16 v ips l hr h
  exact leafOK_of_eq hok (by simp only [encOpt, hv]) rfl (by intro p hp; cases hp)

theorem inv_88 (v : Bytes) (o : Opt6) (h : decSimple 88 v = .ok o) : LeafOK v o := by
  rw [decSimple_88] at h
  rcases hr : ip16Loop (v.length + 1) ⟨v, false⟩ [] with ⟨ips, l⟩
  rw [hr] at h; simp only at h
  obtain ⟨hok, hv, rfl⟩ := inv_ip16 v ips l hr h
  exact leafOK_of_eq hok (by simp only [encOpt, hv]) rfl (by intro p hp; cases hp)

theorem inv_24 (v : Bytes) (o : Opt6) (h : decSimple 24 v = .ok o) : LeafOK v o := by
  rw [decSimple_24] at h
  cases hf : Label.fromBytes v with
  | ok lb =>
    rw [hf] at h; simp only [Res.ok.injEq] at h
    subst h
    obtain ⟨hok, htb⟩ := labelsOK_of_fromBytes hf
    exact leafOK_of_eq hok (by simp only [encOpt, htb]) rfl (by intro p hp; cases hp)
  | err => rw [hf] at h; simp at h
  | panic => rw [hf] at h; simp at h

theorem inv_32 (v : Bytes) (o : Opt6) (h : decSimple 32 v = .ok o) : LeafOK v o := by
  rw [decSimple_32] at h
  rcases hr : decDur ⟨v, false⟩ with ⟨d, l⟩
  rw [hr] at h; simp only at h
  obtain ⟨he, hd, rfl⟩ := fin_spec h
  obtain ⟨s, hs, rfl, hsp⟩ := decDur_spec hr
  obtain ⟨_, hv⟩ := hsp he
  simp only [hd, List.append_nil] at hv
  subst hv
  exact leafOK_of_eq ⟨s, hs, rfl⟩ (by simp only [encOpt, encDur, durTo32_seconds s hs]) rfl
    (by intro p hp; cases hp)

theorem inv_37 (v : Bytes) (o : Opt6) (h : decSimple 37 v = .ok o) : LeafOK v o := by
  rw [decSimple_37] at h
  rcases hr : Lexer.read32 ⟨v, false⟩ with ⟨c, l1⟩
  rw [hr] at h; simp only at h
  rcases hr2 : l1.readAll with ⟨m, l2⟩
  rw [hr2] at h; simp only at h
  obtain ⟨he, _, rfl⟩ := fin_spec h
  obtain ⟨hm, _, he2⟩ := readAll_spec hr2
  obtain ⟨hc, hs⟩ := read32_spec hr
  obtain ⟨_, hv⟩ := hs (by rw [← he2]; exact he)
  simp only [hm] at hv
  subst hv
  exact leafOK_of_eq hc (by simp only [encOpt]) rfl (by intro p hp; cases hp)

theorem inv_39 (v : Bytes) (o : Opt6) (h : decSimple 39 v = .ok o) : LeafOK v o := by
  rw [decSimple_39] at h
  rcases hr : Lexer.read8 ⟨v, false⟩ with ⟨f, l1⟩
  rw [hr] at h; simp only at h
  rcases hr2 : l1.readAll with ⟨rest, l2⟩
  rw [hr2] at h; simp only at h
  cases hf : Label.fromBytes rest with
  | ok lb =>
    rw [hf] at h; simp only at h
    obtain ⟨he, _, rfl⟩ := fin_spec h
    obtain ⟨hm, _, he2⟩ := readAll_spec hr2
    obtain ⟨_, hv⟩ := read8_spec hr (by rw [← he2]; exact he)
    simp only [hm] at hv
    subst hv
    obtain ⟨hok, htb⟩ := labelsOK_of_fromBytes hf
    exact leafOK_of_eq hok (by simp only [encOpt, htb]) rfl (by intro p hp; cases hp)
  | err => rw [hf] at h; simp at h
  | panic => rw [hf] at h; simp at h

theorem inv_56 (v : Bytes) (o : Opt6) (h : decSimple 56 v = .ok o) : LeafOK v o := by
  rw [decSimple_56] at h
  cases ho : optionsFromBytes parseNTPSub v with
  | ok subs =>
    rw [ho] at h; simp only [Res.ok.injEq] at h
    subst h
    have ht := optionsFromBytes_sound parseNTPSub (fun c d s => parseNTPSub c d = .ok s)
      (fun _ _ _ hx => hx) v subs ho
    obtain ⟨hv, hall⟩ := Tiles_flatMap NTPSub.code encNTPSub NTPSubOK
      (by intro c d s hc _ hx; exact parseNTPSub_inv c d s hc hx) ht
    exact leafOK_of_eq (fun s hs => ⟨(hall s hs).2.2, (hall s hs).2.1⟩)
      (by simp only [encOpt, ← hv]) rfl (by intro p hp; cases hp)
  | err => rw [ho] at h; simp at h
  | panic => rw [ho] at h; simp at h

theorem inv_60 (v : Bytes) (o : Opt6) (h : decSimple 60 v = .ok o) : LeafOK v o := by
  rw [decSimple_60] at h
  rcases hr : lenPrefLoop (v.length + 1) ⟨v, false⟩ [] with ⟨ps, l⟩
  rw [hr] at h; simp only at h
  obtain ⟨he, hd, rfl⟩ := fin_spec h
  obtain ⟨xs, hcs, hok, _, hv⟩ := lenPrefLoop_spec _ _ _ _ _ _ hr (by omega) he
  simp only [List.nil_append] at hcs
  subst hcs
  rw [hd, List.append_nil] at hv
  refine leafOK_of_eq hok ?_ rfl (by intro p hp; cases hp)
  simp only [encOpt, filter_itemsOK ps hok, hv, lenPref]

theorem inv_61 (v : Bytes) (o : Opt6) (h : decSimple 61 v = .ok o) : LeafOK v o := by
  rw [decSimple_61] at h
  by_cases h0 : v.length = 0
  · simp [h0] at h
  simp only [h0, if_false] at h
  rcases hr : u16Loop (v.length + 1) ⟨v, false⟩ [] with ⟨cs, l⟩
  rw [hr] at h; simp only at h
  obtain ⟨_, hd, rfl⟩ := fin_spec h
  obtain ⟨xs, hcs, hlt, _, hv⟩ := u16Loop_spec _ _ _ _ _ _ hr (by omega)
  simp only [List.nil_append] at hcs
  subst hcs
  rw [hd, List.append_nil] at hv
  refine leafOK_of_eq ⟨?_, hlt⟩ (by simp only [encOpt, hv]) rfl (by intro p hp; cases hp)
  intro hnil; subst hnil
  simp at hv
  simp [hv] at h0

theorem inv_62 (v : Bytes) (o : Opt6) (h : decSimple 62 v = .ok o) : LeafOK v o := by
  rw [decSimple_62] at h
  rcases hr1 : Lexer.read8 ⟨v, false⟩ with ⟨t, l1⟩
  rw [hr1] at h; simp only at h
  rcases hr2 : l1.read8 with ⟨ma, l2⟩
  rw [hr2] at h; simp only at h
  rcases hr3 : l2.read8 with ⟨mi, l3⟩
  rw [hr3] at h; simp only at h
  obtain ⟨he, hd, rfl⟩ := fin_spec h
  obtain ⟨he2, hd2⟩ := read8_spec hr3 he
  obtain ⟨he1, hd1⟩ := read8_spec hr2 he2
  obtain ⟨_, hv⟩ := read8_spec hr1 he1
  simp only [hd1, hd2, hd] at hv
  subst hv
  exact leafOK_of_eq trivial (by simp only [encOpt]) rfl (by intro p hp; cases hp)

theorem inv_79 (v : Bytes) (o : Opt6) (h : decSimple 79 v = .ok o) : LeafOK v o := by
  rw [decSimple_79] at h
  rcases hr : Lexer.read16 ⟨v, false⟩ with ⟨c, l1⟩
  rw [hr] at h; simp only at h
  rcases hr2 : l1.readAll with ⟨m, l2⟩
  rw [hr2] at h; simp only at h
  obtain ⟨he, _, rfl⟩ := fin_spec h
  obtain ⟨hm, _, he2⟩ := readAll_spec hr2
  obtain ⟨hc, hs⟩ := read16_spec hr
  obtain ⟨_, hv⟩ := hs (by rw [← he2]; exact he)
  simp only [hm] at hv
  subst hv
  exact leafOK_of_eq hc (by simp only [encOpt]) rfl (by intro p hp; cases hp)

theorem inv_98 (v : Bytes) (o : Opt6) (h : decSimple 98 v = .ok o) : LeafOK v o := by
  rw [decSimple_98] at h
  rcases hr1 : Lexer.read8 ⟨v, false⟩ with ⟨p4len, l1⟩
  rw [hr1] at h; simp only at h
  rcases hr2 : l1.read8 with ⟨p6len, l2⟩
  rw [hr2] at h; simp only at h
  by_cases hb : (decide (p4len.toNat > 32) || decide (p6len.toNat > 128)) = true
  · simp [hb] at h
  simp only [hb, Bool.false_eq_true, if_false] at h
  rcases hr3 : l2.read8 with ⟨ea, l3⟩
  rw [hr3] at h; simp only at h
  rcases hr4 : l3.read8 with ⟨fl, l4⟩
  rw [hr4] at h; simp only at h
  rcases hr5 : l4.copyN 4 with ⟨p4, l5⟩
  rw [hr5] at h; simp only at h
  rcases hr6 : l5.copyN 16 with ⟨p6, l6⟩
  rw [hr6] at h; simp only at h
  obtain ⟨he, hd, rfl⟩ := fin_spec h
  obtain ⟨b6, rfl, hl6, he5, hd5⟩ := copyN_spec hr6 he
  obtain ⟨b4, rfl, hl4, he4, hd4⟩ := copyN_spec hr5 he5
  obtain ⟨he3, hd3⟩ := read8_spec hr4 he4
  obtain ⟨he2, hd2⟩ := read8_spec hr3 he3
  obtain ⟨he1, hd1⟩ := read8_spec hr2 he2
  obtain ⟨_, hv⟩ := read8_spec hr1 he1
  simp only [hd1, hd2, hd3, hd4, hd5, hd, List.append_nil] at hv
  subst hv
  have hb' : p4len.toNat ≤ 32 ∧ p6len.toNat ≤ 128 := by
    simp only [Bool.or_eq_true, decide_eq_true_eq, not_or, Nat.not_lt] at hb
    exact hb
  have ht4 : V4.to4 b4 = some b4 := by simp [V4.to4, hl4]
  have hw6 : write16 (some b6) = b6 := by simp [write16, ipTo16, to16, hl6]
  refine ⟨⟨hb'.1, ⟨b4, rfl, hl4⟩, hb'.2, ⟨b6, rfl, hl6⟩⟩, ?_, rfl, by intro p hp; cases hp⟩
  simp only [encOpt, Option.bind_some, ht4, Option.getD_some, hw6, List.length_append, List.length_cons,
    List.length_nil, hl4, hl6]
  omega

theorem inv_99 (v : Bytes) (o : Opt6) (h : decSimple 99 v = .ok o) : LeafOK v o := by
  rw [decSimple_99] at h
  rcases hr1 : Lexer.read8 ⟨v, false⟩ with ⟨fl, l1⟩
  rw [hr1] at h; simp only at h
  rcases hr2 : l1.read8 with ⟨tc, l2⟩
  rw [hr2] at h; simp only at h
  rcases hr3 : l2.read16 with ⟨pmtu, l3⟩
  rw [hr3] at h; simp only at h
  obtain ⟨he, hd, rfl⟩ := fin_spec h
  obtain ⟨hp, hs⟩ := read16_spec hr3
  obtain ⟨he2, hd2⟩ := hs he
  obtain ⟨he1, hd1⟩ := read8_spec hr2 he2
  obtain ⟨_, hv⟩ := read8_spec hr1 he1
  simp only [hd1, hd2, hd, List.append_nil] at hv
  subst hv
  refine ⟨hp, ?_, rfl, by intro p hp; cases hp⟩
  simp [encOpt]

theorem inv_135 (v : Bytes) (o : Opt6) (h : decSimple 135 v = .ok o) : LeafOK v o := by
  rw [decSimple_135] at h
  rcases hr : Lexer.read16 ⟨v, false⟩ with ⟨t, l⟩
  rw [hr] at h; simp only at h
  obtain ⟨he, hd, rfl⟩ := fin_spec h
  obtain ⟨ht, hs⟩ := read16_spec hr
  obtain ⟨_, hv⟩ := hs he
  simp only [hd, List.append_nil] at hv
  subst hv
  exact leafOK_of_eq ht (by simp only [encOpt]) rfl (by intro p hp; cases hp)

theorem inv_87 (v : Bytes) (o : Opt6) (h : decSimple 87 v = .ok o) :
    ∃ p, o = .dhcpv4Msg p ∧ V4.dec4 v = .ok p := by
  rw [decSimple_87] at h
  cases hd : V4.dec4 v with
  | ok p => rw [hd] at h; simp only [Res.ok.injEq] at h; exact ⟨p, h.symm, rfl⟩
  | err => rw [hd] at h; simp at h
  | panic => rw [hd] at h; simp at h

/-- **every leaf**: a value `decSimple` accepts is read as a member of the
round-trip domain whose re-encoding is not longer than the value, or it is an
embedded DHCPv4 message accepted by the DHCPv4 decoder. -/
theorem leaf_inv (c : Nat) (v : Bytes) (o : Opt6) (hc : c < 65536) (hcc : c ∉ containerCodes)
    (h : decSimple c v = .ok o) :
    LeafOK v o ∨ ∃ p, o = .dhcpv4Msg p ∧ V4.dec4 v = .ok p := by
  by_cases h6 : c = 6
  · subst h6; exact Or.inl (inv_6 v o h)
  by_cases h8 : c = 8
  · subst h8; exact Or.inl (inv_8 v o h)
  by_cases h13 : c = 13
  · subst h13; exact Or.inl (inv_13 v o h)
  by_cases h15 : c = 15
  · subst h15; exact Or.inl (inv_15 v o h)
  by_cases h16 : c = 16
  · subst h16; exact Or.inl (inv_16 v o h)
  by_cases h17 : c = 17
  · subst h17; exact Or.inl (inv_17 v o h)
  by_cases h18 : c = 18
  · subst h18; rw [decSimple_18] at h; simp only [Res.ok.injEq] at h; subst h
    exact Or.inl (leafOK_of_eq trivial (by simp only [encOpt]) rfl (by intro p hp; cases hp))
  by_cases h23 : c = 23
  · subst h23; exact Or.inl (inv_23 v o h)
  by_cases h24 : c = 24
  · subst h24; exact Or.inl (inv_24 v o h)
  by_cases h32 : c = 32
  · subst h32; exact Or.inl (inv_32 v o h)
  by_cases h37 : c = 37
  · subst h37; exact Or.inl (inv_37 v o h)
  by_cases h39 : c = 39
  · subst h39; exact Or.inl (inv_39 v o h)
  by_cases h56 : c = 56
  · subst h56; exact Or.inl (inv_56 v o h)
  by_cases h59 : c = 59
  · subst h59; rw [decSimple_59] at h; simp only [Res.ok.injEq] at h; subst h
    exact Or.inl (leafOK_of_eq trivial (by simp only [encOpt]) rfl (by intro p hp; cases hp))
  by_cases h60 : c = 60
  · subst h60; exact Or.inl (inv_60 v o h)
  by_cases h61 : c = 61
  · subst h61; exact Or.inl (inv_61 v o h)
  by_cases h62 : c = 62
  · subst h62; exact Or.inl (inv_62 v o h)
  by_cases h79 : c = 79
  · subst h79; exact Or.inl (inv_79 v o h)
  by_cases h87 : c = 87
  · subst h87; exact Or.inr (inv_87 v o h)
  by_cases h88 : c = 88
  · subst h88; exact Or.inl (inv_88 v o h)
  by_cases h98 : c = 98
  · subst h98; exact Or.inl (inv_98 v o h)
  by_cases h99 : c = 99
  · subst h99; exact Or.inl (inv_99 v o h)
  by_cases h135 : c = 135
  · subst h135; exact Or.inl (inv_135 v o h)
  have hn : c ∉ simpleCodes := by
    simp only [simpleCodes, List.mem_cons, List.mem_nil_iff, or_false, not_or]
    exact ⟨h6, h8, h13, h15, h16, h17, h18, h23, h24, h32, h37, h39, h56, h59,
      h60, h61, h62, h79, h87, h88, h98, h99, h135⟩
  rw [decSimple_other c v hn] at h
  simp only [Res.ok.injEq] at h; subst h
  exact Or.inl (leafOK_of_eq ⟨hc, not_mem_knownCodes hcc hn⟩ (by simp only [encOpt]) rfl
    (by intro p hp; cases hp))

end Dhcp.V6

import DhcpProofs.Lemmas.V6Build
/- Helper lemmas for C16: chains, n-fold encapsulation, the relay-reply builder. -/
namespace Dhcp.Spec
open Dhcp Dhcp.V6

/-! ### chains -/

theorem Chain.isRelay {c inner : Msg6} {lv : List RLevel} (h : Chain c lv inner) : c.isRelay = true := by
  cases h <;> rfl

theorem Chain.inner_not_relay {c inner : Msg6} {lv : List RLevel} (h : Chain c lv inner) :
    inner.isRelay = false := by
  induction h with
  | last _ h2 => exact h2
  | cons _ _ ih => exact ih

theorem Chain.length_pos {c inner : Msg6} {lv : List RLevel} (h : Chain c lv inner) : 0 < lv.length := by
  cases h <;> simp

theorem Chain.length_le_depth {c inner : Msg6} {lv : List RLevel} (h : Chain c lv inner) :
    lv.length ≤ msgDepth c := by
  induction h with
  | last h1 _ => rw [msgDepth_relay]; simp
  | @cons t hc l p os r lvls inner h1 _ ih =>
    have := msgDepth_of_relayMessageOf h1
    rw [msgDepth_relay]; simp; omega

/-- the levels and the innermost message of a chain are unique -/
theorem Chain.unique {c i1 i2 : Msg6} {l1 l2 : List RLevel} (h1 : Chain c l1 i1) (h2 : Chain c l2 i2) :
    l1 = l2 ∧ i1 = i2 := by
  induction h1 generalizing l2 i2 with
  | last ha hb =>
    cases h2 with
    | last hc _ => rw [ha] at hc; cases hc; exact ⟨rfl, rfl⟩
    | cons hc hd => rw [ha] at hc; cases hc; rw [hd.isRelay] at hb; cases hb
  | cons ha hb ih =>
    cases h2 with
    | last hc hd => rw [ha] at hc; cases hc; rw [hb.isRelay] at hd; cases hd
    | cons hc hd =>
      rw [ha] at hc; cases hc
      obtain ⟨e1, e2⟩ := ih hd
      exact ⟨by rw [e1], e2⟩

/-- `GetInnerMessage` finds the innermost message of a chain of any depth -/
theorem innerLoop_chain {c inner : Msg6} {lv : List RLevel} (h : Chain c lv inner) :
    ∀ fuel, msgDepth c ≤ fuel → innerLoop fuel c = .ok inner := by
  induction h with
  | @last t hc l p os inner h1 h2 =>
    intro fuel hf
    rw [msgDepth_relay] at hf
    cases fuel with
    | zero => omega
    | succ f => simp [innerLoop, decapsulateRelay, h1, h2]
  | @cons t hc l p os r lvls inner h1 hch ih =>
    intro fuel hf
    have hd := msgDepth_of_relayMessageOf h1
    rw [msgDepth_relay] at hf
    cases fuel with
    | zero => omega
    | succ f =>
      simp only [innerLoop, decapsulateRelay, h1, hch.isRelay, if_true]
      exact ih f (by omega)

theorem getInnerMessage_chain {c inner : Msg6} {lv : List RLevel} (h : Chain c lv inner) :
    getInnerMessage c = .ok inner := by
  obtain ⟨t, hc, l, p, os, rfl⟩ := isRelay_iff.mp h.isRelay
  simp only [getInnerMessage]
  exact innerLoop_chain h _ (Nat.le_succ _)

/-- a broken chain makes `GetInnerMessage` fail -/
theorem innerLoop_broken {c : Msg6} (h : Broken c) : ∀ fuel, innerLoop fuel c = .err := by
  induction h with
  | here h1 =>
    intro fuel
    cases fuel with
    | zero => rfl
    | succ f => simp [innerLoop, decapsulateRelay, h1]
  | @deeper t hc l p os r h1 hb ih =>
    intro fuel
    cases fuel with
    | zero => rfl
    | succ f =>
      have hr : r.isRelay = true := by cases hb <;> rfl
      simp only [innerLoop, decapsulateRelay, h1, hr, if_true]
      exact ih f

/-- every relay message is a chain or broken -/
theorem chain_or_broken : ∀ (n : Nat) (c : Msg6), msgDepth c ≤ n → c.isRelay = true →
    (∃ lv inner, Chain c lv inner) ∨ Broken c := by
  intro n
  induction n with
  | zero =>
    intro c hn hc
    obtain ⟨t, h, l, p, os, rfl⟩ := isRelay_iff.mp hc
    rw [msgDepth_relay] at hn; omega
  | succ n ih =>
    intro c hn hc
    obtain ⟨t, h, l, p, os, rfl⟩ := isRelay_iff.mp hc
    rw [msgDepth_relay] at hn
    cases hm : relayMessageOf os with
    | none => exact .inr (.here hm)
    | some r =>
      have hd := msgDepth_of_relayMessageOf hm
      by_cases hr : r.isRelay = true
      · rcases ih r (by omega) hr with ⟨lv, inner, hch⟩ | hb
        · exact .inl ⟨_, inner, .cons hm hch⟩
        · exact .inr (.deeper hm hb)
      · exact .inl ⟨_, r, .last hm (by simpa using hr)⟩

/-! ### n-fold encapsulation -/

/-- the relay header `EncapsulateRelay` puts around `c` -/
def hopsFor : Msg6 → UInt8
  | .relay _ h _ _ _ => h + 1
  | .msg .. => 0

theorem encapsulateRelay_ok {d : Msg6} {t : UInt8} (l p : IP) (ht : isRelayType t = true) :
    encapsulateRelay d t l p = .ok (.relay t (hopsFor d) l p [.relayMsg d]) := by
  unfold encapsulateRelay hopsFor
  simp only [ht, if_true]
  cases d <;> rfl

theorem encapsulateRelay_err {d : Msg6} {t : UInt8} (l p : IP) (ht : isRelayType t = false) :
    encapsulateRelay d t l p = .err := by
  unfold encapsulateRelay
  simp [ht]

theorem UInt8.ofNat_succ (n : Nat) : UInt8.ofNat n + 1 = UInt8.ofNat (n + 1) := by
  apply UInt8.toNat_inj.mp
  simp [UInt8.toNat_add, UInt8.toNat_ofNat']

/-- n-fold encapsulation of a non-relay message is a chain of n levels carrying
the headers given, hop counts n-1, …, 0 (as uint8) -/
theorem encapAll_chain (m : Msg6) (hm : m.isRelay = false) : ∀ (rest : List Hdr) (h : Hdr),
    (∀ x ∈ h :: rest, isRelayType x.typ = true) →
    ∃ c lv os, encapAll m (h :: rest) = .ok c ∧ Chain c lv m ∧ lv.length = rest.length + 1 ∧
      c = .relay h.typ (UInt8.ofNat rest.length) h.link h.peer os := by
  intro rest
  induction rest with
  | nil =>
    intro h ht
    have hth := ht h (List.mem_cons_self)
    refine ⟨_, _, _, ?_, Chain.last (relayMessageOf_cons_relayMsg m []) hm, rfl, rfl⟩
    simp only [encapAll, Res.bind]
    rw [encapsulateRelay_ok _ _ hth]
    obtain ⟨t, x, os, rfl⟩ := not_isRelay_iff.mp hm
    rfl
  | cons h' rest ih =>
    intro h ht
    have hth := ht h (List.mem_cons_self)
    obtain ⟨c, lv, os, h1, h2, h3, h4⟩ := ih h' (fun x hx => ht x (List.mem_cons_of_mem _ hx))
    refine ⟨_, _, _, ?_, Chain.cons (relayMessageOf_cons_relayMsg c []) h2, by simp [h3], rfl⟩
    rw [encapAll, h1]
    simp only [Res.bind]
    rw [encapsulateRelay_ok _ _ hth]
    subst h4
    simp only [hopsFor, List.length_cons]
    rw [UInt8.ofNat_succ]

end Dhcp.Spec
